#!/usr/bin/env python3
"""Regenerate /verif/MANIFEST.json from props/*/plan.json (single source of truth)."""
import glob, json, os, subprocess
ROOT = os.path.dirname(os.path.dirname(os.path.abspath(__file__)))
props = [json.loads(l) for l in open(os.path.join(ROOT, "properties.jsonl"))]
plans = {}
for p in sorted(glob.glob(os.path.join(ROOT, "props", "c*", "plan.json"))):
    d = json.load(open(p))
    if d.get("claimed", False):
        plans[d["property"]] = d
checks, na = [], []
for pr in props:
    pid = pr["id"]
    if pid in plans:
        d = plans[pid]
        m = d.get("manifest", {})
        checks.append({
            "property_id": pid,
            "quick_cmd": "./check %s --tier quick" % pid,
            "thorough_cmd": "./check %s --tier thorough" % pid,
            "evidence_file": "/verif/evidence/%s.json" % pid,
            "replay_cmd_template": "./check %s --replay {path}" % pid,
            "engine": m.get("engine", "rapid"),
            "level_claimed": {"category": d.get("level", "exploration"), "text": m.get("text", ""), "design_ref": m.get("design_ref", "DESIGN.md section 3, " + pid)},
            "level_note": m.get("note", ""),
            "technique": m.get("technique", "property-based testing (pgregory.net/rapid) against an explicit oracle"),
        })
    else:
        reason = "check not built yet (work in progress; see DESIGN.md section 3 for the planned generator and oracle)"
        np = os.path.join(ROOT, "props", pid.lower(), "plan.json")
        if os.path.exists(np):
            reason = json.load(open(np)).get("not_applicable_reason", reason)
        na.append({"property_id": pid, "reason": reason})
try:
    commits = subprocess.run(["git", "-C", "/repo", "log", "--format=%H %s"], capture_output=True, text=True).stdout.splitlines()
except Exception:
    commits = []
hook_commits = [c.split()[0] for c in commits if c.split(" ", 1)[1].startswith("verif-hook:")]
man = {
    "version": 1,
    "setup_cmd": "cd /verif && ./check --setup",
    "hooks": {
        "guard": "verif",
        "enable": "every check compiles /repo with `go test -tags verif` through the replace directive in /verif/go.mod; no hook files exist (zero hook commits), the tag is reserved",
        "baseline_off_cmd": "cd /repo && go test -json -vet=off -count=1 -timeout 25m ./...",
        "source_commits": hook_commits,
        "add_only": True,
    },
    "engines": [
        {"name": "rapid", "path": "/verif/props", "serves_properties": sorted(plans), "kind_free_text": "pgregory.net/rapid v1.3.0 property-based tests (generators, state machines, shrinking), one Go test package per property, sharded by the python driver ./check"},
    ],
    "checks": checks,
    "notes": "Driver: ./check <ID> [--tier quick|thorough] [--replay file]. VERIF_SEED is remapped to a non-zero rapid seed; each shard derives its own seed from it. Known findings: /verif/known_findings.json (never written at run time).",
    "not_applicable": na,
}
json.dump(man, open(os.path.join(ROOT, "MANIFEST.json"), "w"), indent=1)
print("checks:", [c["property_id"] for c in checks], "not claimed:", [n["property_id"] for n in na])
