#!/usr/bin/env python3
"""tools/seedstore.py <PROPERTY> <srcdir> <name> [extra check ids...]
Copies a seeded change (patch.diff, demo, notes.md) to /verif/seeded/<name>/, confirms it with
tools/seedcheck.sh (scratch copy of /repo: applies, builds, existing tests pass, demo fails with it
and passes without it), runs the property's quick check (and any extra checks) against the copy and
writes meta.json."""
import json, os, re, shutil, subprocess, sys
ROOT = os.path.dirname(os.path.dirname(os.path.abspath(__file__)))
prop, src, name = sys.argv[1], sys.argv[2], sys.argv[3]
extra = sys.argv[4:]
dst = os.path.join(ROOT, "seeded", name)
os.makedirs(dst, exist_ok=True)
for f in os.listdir(src):
    p = os.path.join(src, f)
    if os.path.isfile(p) and os.path.abspath(src) != os.path.abspath(dst):
        shutil.copy(p, dst)
meta = {"property": prop, "name": name, "checks": {}}
notes = os.path.join(dst, "notes.md")
if os.path.exists(notes):
    txt = open(notes).read()
    meta["needs_to_manifest"] = " ".join(txt.split())[:1200]
for cid in [prop] + extra:
    r = subprocess.run([os.path.join(ROOT, "tools", "seedcheck.sh"), cid, dst], capture_output=True, text=True)
    out = r.stdout
    info = {"rc": r.returncode, "caught": r.returncode == 1}
    for key, pat in [("pristine_demo", r"== pristine demo: (\w+)"), ("patched_demo", r"== patched demo: (\w+)")]:
        m = re.search(pat, out)
        if m:
            info[key] = m.group(1)
    info["build_ok"] = "== build ok" in out
    info["existing_tests_pass"] = "== existing tests pass" in out
    info["violation_keys"] = re.findall(r"^\s+(\d+) (\S.*)$", out, re.M)[:6]
    meta["checks"][cid] = info
meta["confirmed"] = all(c.get("pristine_demo") == "PASS" and c.get("patched_demo") == "FAIL" and c.get("build_ok") and c.get("existing_tests_pass") for c in [meta["checks"][prop]])
meta["what_was_run"] = "tools/seedcheck.sh %s seeded/%s  (scratch copy of /repo at %s; git apply patch.diff; go build ./...; go test -vet=off ./sdf/ ./render/ ./vec/v3/; demo with and without the patch; VERIF_REPO=<copy> ./check <ID> --tier quick)" % (prop, name, subprocess.run(["git", "-C", "/repo", "log", "--format=%h", "-1"], capture_output=True, text=True).stdout.strip())
json.dump(meta, open(os.path.join(dst, "meta.json"), "w"), indent=1)
print(name, "confirmed" if meta["confirmed"] else "NOT-CONFIRMED", {k: v["caught"] for k, v in meta["checks"].items()})
