#!/bin/bash
# usage: evalr.sh <round> c14 c13 ...
export GOFLAGS=-mod=mod GOPROXY=off GOSUMDB=off GOTOOLCHAIN=local
R=$1; shift
cd /verif
for c in "$@"; do
  P=$(echo $c | tr c C)
  mkdir -p /var/tmp/seedkeep$R/$c
  [ -d /tmp/seed$R/$c/out ] && cp -r /tmp/seed$R/$c/out /var/tmp/seedkeep$R/$c/
  for v in A B; do
    python3 tools/seedstore.py $P /var/tmp/seedkeep$R/$c/out/$v $P-${v}$R
  done
done
