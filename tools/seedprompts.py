#!/usr/bin/env python3
"""tools/seedprompts.py <dir>   - writes <dir>/cXX.prompt.txt for a round of seeded changes.
The prompt holds the property text only (title, statement, quantifier, anchors) plus one line per
change already tried for that property (from the DESIGN.md tables), never anything else from /verif.
Worktrees <dir>/cXX are created by the caller (git -C /repo worktree add --detach <dir>/cXX HEAD)."""
import json, re, sys, os
out = sys.argv[1]
root = os.path.dirname(os.path.dirname(os.path.abspath(__file__)))
base = open(os.path.join(root, "tools", "seedprompt.txt")).read()
design = open(os.path.join(root, "DESIGN.md")).read()
tried = {}
for n, desc in re.findall(r'^\| (C\d\d-[AB][2-9]?) \| ([^|]*) \|', design, re.M):
    tried.setdefault(n[:3].lower(), []).append(desc.strip())
for line in open(os.path.join(root, "properties.jsonl")):
    p = json.loads(line)
    pid = p["id"].lower()
    text = "%s - %s\n\n%s\n\nQuantified over: %s\n\nCode the property is anchored in: %s\nMechanisms: %s" % (
        p["id"], p["title"], p["statement"], p["quantifier"]["text"], ", ".join(p["anchors"]["files"]),
        "; ".join("%s (%s)" % (m["name"], m["where"]) for m in p["anchors"].get("mechanism", [])))
    t = base.replace("__WT__", os.path.join(out, pid)).replace("__PROPERTY__", text)
    t = t.replace("Your task: produce TWO different",
                  "Changes that were ALREADY tried by others for this property (do NOT repeat these or close variants of them; pick other functions, other mechanisms, other clauses of the statement, other anchored files):\n"
                  + "\n".join("  - " + x for x in tried.get(pid, [])) + "\n\nYour task: produce TWO different")
    t = t.replace("Keep the demos fast (< 30 s).",
                  "Keep the demos fast (< 30 s). The machine is heavily loaded by other jobs: give your own go build / go test shell calls generous timeouts. "
                  "Before choosing, read ALL the anchored code and list for yourself which clauses of the statement and which code paths the already-tried changes leave untouched; put your two changes there. "
                  "Favour defects in rarely exercised parameter regions, option combinations, less common constructors/renderers/file formats named by the property, and defects that need a history or two cooperating sites.")
    if pid == "c12":
        t = t.replace("(4) the breakage needs", "(4) [for this property: a demonstration of a hang may use a child process or the Go runtime's 'all goroutines are asleep - deadlock!' abort, and must terminate by itself within 60 s] the breakage needs")
    open(os.path.join(out, pid + ".prompt.txt"), "w").write(t)
print("ok")
