#!/bin/bash
# usage: tools/seedcheck.sh <PROPERTY-ID> <dir with patch.diff and demo> [tier]
# Confirms a seeded change in a scratch copy of /repo (applies, builds, existing tests pass,
# demo fails with it and passes without it) and runs the property's check against the copy.
set -u
export GOFLAGS=-mod=mod GOPROXY=off GOSUMDB=off GOTOOLCHAIN=local
ID=$1; DIR=$(realpath $2); TIER=${3:-quick}
W=/var/tmp/seedcheck-$ID-$$
rm -rf $W; cp -a /repo $W; rm -rf $W/.git/worktrees
cd $W
run_demo() { # prints PASS or FAIL
  local demo
  demo=$(ls $DIR/*_test.go 2>/dev/null | head -1)
  if [ -n "$demo" ]; then
    pkg=$(head -1 $demo | sed -n 's/.*copy to \([^ ]*\).*/\1/p' | sed 's#/$##')
    [ -z "$pkg" ] && pkg=render
    cp $demo $W/$pkg/zz_seed_demo_test.go
    tname=$(grep -o 'func Test[A-Za-z0-9_]*' $demo | sed 's/func //' | paste -sd'|')
    race=""; grep -q '^//go:build race' $demo && race="-race"
    if (cd $W/$pkg && timeout 900 go test -vet=off $race -count=1 -run "^(${tname})\$" . >/tmp/seed-demo-$$.log 2>&1); then echo PASS; else echo FAIL; fi
    rm -f $W/$pkg/zz_seed_demo_test.go
  else
    m=$(ls -d $DIR/demo* $DIR/main.go 2>/dev/null | head -1)
    mkdir -p $W/zzdemo && cp -r $m $W/zzdemo/ 2>/dev/null
    f=$(find $W/zzdemo -name '*.go' | head -1)
    if (cd $(dirname $f) && timeout 300 go run . >/tmp/seed-demo-$$.log 2>&1); then echo PASS; else echo FAIL; fi
    rm -rf $W/zzdemo
  fi
}
echo "== pristine demo: $(run_demo)"
if ! git apply --check $DIR/patch.diff 2>/dev/null; then echo "== patch does NOT apply"; rm -rf $W; exit 3; fi
git apply $DIR/patch.diff
if go build ./... >/dev/null 2>&1; then echo "== build ok"; else echo "== build FAILS"; fi
if go test -vet=off -count=1 ./sdf/ ./render/ ./vec/v3/ >/tmp/seed-tests-$$.log 2>&1; then echo "== existing tests pass"; else echo "== existing tests FAIL"; tail -5 /tmp/seed-tests-$$.log; fi
echo "== patched demo: $(run_demo)"
cd /verif
VERIF_REPO=$W ./check $ID --tier $TIER > /tmp/seed-check-$$.log 2>&1; rc=$?
echo "== check $ID $TIER rc=$rc"
grep -h "VIOLATION-KEY" /tmp/seed-check-$$.log | sed 's/.*VIOLATION-KEY\[\([^]]*\)\].*/\1/' | sort | uniq -c | sort -rn | head -5
grep -c "^VIOLATION" /tmp/seed-check-$$.log
# seedcheck: remove the per-copy build output and work directories of the driver
SFX=$(python3 -c "import zlib,sys;print('.%x' % (zlib.crc32(sys.argv[1].encode()) & 0xffffffff))" "$W")
rm -rf /verif/.work/*$SFX /verif/.work/evidence$SFX /verif/.bin/*$SFX*
rm -rf $W /tmp/seed-demo-$$.log /tmp/seed-tests-$$.log
mv /tmp/seed-check-$$.log /var/tmp/seedcheck-last-$ID.log
exit $rc
