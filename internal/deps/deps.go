// Package deps pins the third-party readers used as independent oracles so
// that go.mod lists them (all come from /repo's own dependency set).
package deps

import (
	_ "github.com/hpinc/go3mf"
	_ "github.com/yofu/dxf"
	_ "pgregory.net/rapid"
)
