// Package mesh checks triangle meshes and 2D segment sets: vertex welding,
// directed-edge balance (closedness + consistent orientation), exact
// duplicate-vertex triangles, signed volume / area, bounding box.
package mesh

import (
	"math"
	"sort"

	"github.com/deadsy/sdfx/sdf"
	v2 "github.com/deadsy/sdfx/vec/v2"
	v3 "github.com/deadsy/sdfx/vec/v3"
)

type key3 struct{ x, y, z int64 }

// Welder3 identifies points that coincide within tol: exact duplicates share
// an id, and ids of points within tol (per axis) of each other are merged
// transitively (union-find), so the result does not depend on insertion order.
type Welder3 struct {
	tol     float64
	exact   map[v3.Vec]int
	buckets map[key3][]int
	Pts     []v3.Vec
	parent  []int
}

// NewWelder3 returns a welder with the given tolerance.
func NewWelder3(tol float64) *Welder3 {
	return &Welder3{tol: tol, exact: map[v3.Vec]int{}, buckets: map[key3][]int{}}
}

func (w *Welder3) find(i int) int {
	for w.parent[i] != i {
		w.parent[i] = w.parent[w.parent[i]]
		i = w.parent[i]
	}
	return i
}

// Add registers p and returns its provisional index (use Root for the welded id).
func (w *Welder3) Add(p v3.Vec) int {
	if id, ok := w.exact[p]; ok {
		return id
	}
	id := len(w.Pts)
	w.Pts = append(w.Pts, p)
	w.parent = append(w.parent, id)
	w.exact[p] = id
	k := key3{int64(math.Floor(p.X / w.tol)), int64(math.Floor(p.Y / w.tol)), int64(math.Floor(p.Z / w.tol))}
	for dx := int64(-1); dx <= 1; dx++ {
		for dy := int64(-1); dy <= 1; dy++ {
			for dz := int64(-1); dz <= 1; dz++ {
				for _, o := range w.buckets[key3{k.x + dx, k.y + dy, k.z + dz}] {
					q := w.Pts[o]
					if math.Abs(q.X-p.X) <= w.tol && math.Abs(q.Y-p.Y) <= w.tol && math.Abs(q.Z-p.Z) <= w.tol {
						ra, rb := w.find(o), w.find(id)
						if ra != rb {
							w.parent[rb] = ra
						}
					}
				}
			}
		}
	}
	w.buckets[k] = append(w.buckets[k], id)
	return id
}

// Root returns the welded id of a provisional index (valid once all points were added).
func (w *Welder3) Root(i int) int { return w.find(i) }

// Report3 summarises a triangle mesh.
type Report3 struct {
	Tris         int
	Verts        int         // welded vertices
	OpenEdges    int         // directed edges a->b (a!=b after welding) whose count differs from b->a
	ExactDupTris int         // triangles with two exactly equal vertices
	Volume       float64     // signed volume, positive = outward normals
	Min, Max     v3.Vec      // bounds of all vertices
	FirstOpen    [2]v3.Vec   // an unmatched edge (for messages)
	Open         [][2]v3.Vec // all unmatched directed edges (welded end points)
	FirstDup     *sdf.Triangle3
}

// Analyze3 welds vertices at tol and computes the report.
func Analyze3(ts []*sdf.Triangle3, tol float64) Report3 {
	var r Report3
	r.Tris = len(ts)
	if len(ts) == 0 {
		return r
	}
	w := NewWelder3(tol)
	type edge struct{ a, b int }
	cnt := map[edge]int{}
	r.Min, r.Max = ts[0][0], ts[0][0]
	var c v3.Vec
	for _, t := range ts {
		for _, v := range t {
			r.Min, r.Max = r.Min.Min(v), r.Max.Max(v)
		}
	}
	c = r.Min.Add(r.Max).MulScalar(0.5)
	idx := make([][3]int, len(ts))
	for i, t := range ts {
		idx[i] = [3]int{w.Add(t[0]), w.Add(t[1]), w.Add(t[2])}
	}
	roots := map[int]bool{}
	for i, t := range ts {
		if t[0] == t[1] || t[1] == t[2] || t[2] == t[0] {
			r.ExactDupTris++
			if r.FirstDup == nil {
				r.FirstDup = t
			}
		}
		a, b, cc := w.Root(idx[i][0]), w.Root(idx[i][1]), w.Root(idx[i][2])
		roots[a], roots[b], roots[cc] = true, true, true
		for _, e := range []edge{{a, b}, {b, cc}, {cc, a}} {
			if e.a != e.b {
				cnt[e]++
			}
		}
		p0, p1, p2 := t[0].Sub(c), t[1].Sub(c), t[2].Sub(c)
		r.Volume += p0.Dot(p1.Cross(p2)) / 6
	}
	r.Verts = len(roots)
	// deterministic iteration
	es := make([]edge, 0, len(cnt))
	for e := range cnt {
		es = append(es, e)
	}
	sort.Slice(es, func(i, j int) bool {
		if es[i].a != es[j].a {
			return es[i].a < es[j].a
		}
		return es[i].b < es[j].b
	})
	for _, e := range es {
		if cnt[e] != cnt[edge{e.b, e.a}] {
			if r.OpenEdges == 0 {
				r.FirstOpen = [2]v3.Vec{w.Pts[e.a], w.Pts[e.b]}
			}
			r.OpenEdges++
			r.Open = append(r.Open, [2]v3.Vec{w.Pts[e.a], w.Pts[e.b]})
		}
	}
	return r
}

type key2 struct{ x, y int64 }

// Welder2 is the 2D analogue of Welder3.
type Welder2 struct {
	tol     float64
	exact   map[v2.Vec]int
	buckets map[key2][]int
	Pts     []v2.Vec
	parent  []int
}

// NewWelder2 returns a welder with the given tolerance.
func NewWelder2(tol float64) *Welder2 {
	return &Welder2{tol: tol, exact: map[v2.Vec]int{}, buckets: map[key2][]int{}}
}

func (w *Welder2) find(i int) int {
	for w.parent[i] != i {
		w.parent[i] = w.parent[w.parent[i]]
		i = w.parent[i]
	}
	return i
}

// Add registers p and returns its provisional index.
func (w *Welder2) Add(p v2.Vec) int {
	if id, ok := w.exact[p]; ok {
		return id
	}
	id := len(w.Pts)
	w.Pts = append(w.Pts, p)
	w.parent = append(w.parent, id)
	w.exact[p] = id
	k := key2{int64(math.Floor(p.X / w.tol)), int64(math.Floor(p.Y / w.tol))}
	for dx := int64(-1); dx <= 1; dx++ {
		for dy := int64(-1); dy <= 1; dy++ {
			for _, o := range w.buckets[key2{k.x + dx, k.y + dy}] {
				q := w.Pts[o]
				if math.Abs(q.X-p.X) <= w.tol && math.Abs(q.Y-p.Y) <= w.tol {
					ra, rb := w.find(o), w.find(id)
					if ra != rb {
						w.parent[rb] = ra
					}
				}
			}
		}
	}
	w.buckets[k] = append(w.buckets[k], id)
	return id
}

// Root returns the welded id of a provisional index.
func (w *Welder2) Root(i int) int { return w.find(i) }

// Report2 summarises a segment set.
type Report2 struct {
	Segs       int
	Points     int
	OddPoints  int   // welded points with odd degree
	Unbalanced int   // welded points whose in-degree differs from out-degree
	ZeroLen    int   // segments with exactly equal endpoints
	Degree     []int // degree per welded point
	Pts        []v2.Vec
	Length     float64 // total length
	Area       float64 // signed area enclosed (sum of cross products / 2)
	Min, Max   v2.Vec
	FirstOdd   v2.Vec
	Odd        []v2.Vec // all welded points with odd degree
}

// Analyze2 welds endpoints at tol and computes the report.
func Analyze2(ls []*sdf.Line2, tol float64) Report2 {
	var r Report2
	r.Segs = len(ls)
	if len(ls) == 0 {
		return r
	}
	w := NewWelder2(tol)
	var in, out []int
	grow := func(id int) {
		for len(in) <= id {
			in, out = append(in, 0), append(out, 0)
		}
	}
	r.Min, r.Max = ls[0][0], ls[0][0]
	idx := make([][2]int, len(ls))
	for i, l := range ls {
		idx[i] = [2]int{w.Add(l[0]), w.Add(l[1])}
	}
	for i, l := range ls {
		if l[0] == l[1] {
			r.ZeroLen++
		}
		a, b := w.Root(idx[i][0]), w.Root(idx[i][1])
		grow(a)
		grow(b)
		if a != b {
			out[a]++
			in[b]++
		}
		r.Length += l[1].Sub(l[0]).Length()
		r.Area += (l[0].X*l[1].Y - l[1].X*l[0].Y) / 2
		for _, v := range l {
			r.Min, r.Max = r.Min.Min(v), r.Max.Max(v)
		}
	}
	r.Pts = w.Pts
	r.Degree = make([]int, len(in))
	for i := range in {
		if w.Root(i) != i {
			continue
		}
		r.Points++
		r.Degree[i] = in[i] + out[i]
		if r.Degree[i]%2 != 0 {
			if r.OddPoints == 0 {
				r.FirstOdd = w.Pts[i]
			}
			r.OddPoints++
		}
		if in[i] != out[i] {
			r.Unbalanced++
		}
		if r.Degree[i]%2 != 0 {
			r.Odd = append(r.Odd, w.Pts[i])
		}
	}
	return r
}

// ClosestOnTriangle returns the point of triangle abc closest to p (Ericson,
// Real-Time Collision Detection 5.1.5).
func ClosestOnTriangle(p, a, b, c v3.Vec) v3.Vec {
	ab, ac, ap := b.Sub(a), c.Sub(a), p.Sub(a)
	d1, d2 := ab.Dot(ap), ac.Dot(ap)
	if d1 <= 0 && d2 <= 0 {
		return a
	}
	bp := p.Sub(b)
	d3, d4 := ab.Dot(bp), ac.Dot(bp)
	if d3 >= 0 && d4 <= d3 {
		return b
	}
	vc := d1*d4 - d3*d2
	if vc <= 0 && d1 >= 0 && d3 <= 0 {
		return a.Add(ab.MulScalar(d1 / (d1 - d3)))
	}
	cp := p.Sub(c)
	d5, d6 := ab.Dot(cp), ac.Dot(cp)
	if d6 >= 0 && d5 <= d6 {
		return c
	}
	vb := d5*d2 - d1*d6
	if vb <= 0 && d2 >= 0 && d6 <= 0 {
		return a.Add(ac.MulScalar(d2 / (d2 - d6)))
	}
	va := d3*d6 - d5*d4
	if va <= 0 && (d4-d3) >= 0 && (d5-d6) >= 0 {
		return b.Add(c.Sub(b).MulScalar((d4 - d3) / ((d4 - d3) + (d5 - d6))))
	}
	den := 1 / (va + vb + vc)
	return a.Add(ab.MulScalar(vb * den)).Add(ac.MulScalar(vc * den))
}

// WithinOfMesh reports whether some triangle is within d of p (early exit), and
// otherwise the smallest distance found.
func WithinOfMesh(p v3.Vec, ts []*sdf.Triangle3, d float64) (bool, float64) {
	best := math.Inf(1)
	for _, t := range ts {
		q := ClosestOnTriangle(p, t[0], t[1], t[2])
		if l := q.Sub(p).Length(); l < best {
			best = l
			if best <= d {
				return true, best
			}
		}
	}
	return false, best
}
