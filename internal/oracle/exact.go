// Package oracle holds closed-form / brute-force distance oracles written
// from the geometric definitions, independent of sdfx's own formulas.
package oracle

import (
	"math"

	"verif/internal/shape"
)

type V2 = [2]float64
type V3 = [3]float64

// Sphere is the signed distance to a sphere of radius r at the origin.
func Sphere(p V3, r float64) float64 { return math.Sqrt(p[0]*p[0]+p[1]*p[1]+p[2]*p[2]) - r }

// RoundBoxN is the signed distance to an axis-aligned box with half sizes h
// and corner rounding rd (the box is the Minkowski sum of the inset box and a ball).
func RoundBoxN(p, h []float64, rd float64) float64 {
	out2, in := 0.0, math.Inf(-1)
	for i := range p {
		q := math.Abs(p[i]) - (h[i] - rd)
		if q > 0 {
			out2 += q * q
		}
		in = math.Max(in, q)
	}
	return math.Sqrt(out2) + math.Min(in, 0) - rd
}

// SegDist is the distance from p to the segment ab.
func SegDist(p, a, b V2) float64 {
	abx, aby := b[0]-a[0], b[1]-a[1]
	l2 := abx*abx + aby*aby
	t := 0.0
	if l2 > 0 {
		t = ((p[0]-a[0])*abx + (p[1]-a[1])*aby) / l2
		t = math.Max(0, math.Min(1, t))
	}
	return math.Hypot(p[0]-(a[0]+t*abx), p[1]-(a[1]+t*aby))
}

// ConvexPolySigned is the signed distance to a convex polygon given
// counter-clockwise: outside = distance to the nearest edge segment, inside =
// minus the distance to the nearest edge line.
func ConvexPolySigned(p V2, vs []V2) float64 {
	inside := true
	dseg := math.Inf(1)
	dline := math.Inf(1)
	n := len(vs)
	for i := 0; i < n; i++ {
		a, b := vs[i], vs[(i+1)%n]
		ex, ey := b[0]-a[0], b[1]-a[1]
		l := math.Hypot(ex, ey)
		if l == 0 {
			continue
		}
		// signed distance to the edge line, positive to the right (outside for CCW)
		s := ((p[0]-a[0])*ey - (p[1]-a[1])*ex) / l
		if s > 0 {
			inside = false
		}
		dline = math.Min(dline, math.Abs(s))
		dseg = math.Min(dseg, SegDist(p, a, b))
	}
	if inside {
		return -dline
	}
	return dseg
}

// ConeProfile returns the inset (rho,z) trapezoid of a truncated cone of
// height h, base radius r0 (z=-h/2), top radius r1 (z=+h/2), rounding rd, as a
// symmetric convex CCW polygon; ok=false when the rounding does not fit.
func ConeProfile(h, r0, r1, rd float64) ([]V2, bool) {
	// outward unit normal of the slope line through (r0,-h/2),(r1,h/2)
	dx, dz := r1-r0, h
	l := math.Hypot(dx, dz)
	nx, nz := dz/l, -dx/l
	// inset slope line: n.(x - a) = -rd  with a=(r0,-h/2)
	rho := func(z float64) float64 { return r0 + (-rd-nz*(z+h/2))/nx }
	zb, zt := -h/2+rd, h/2-rd
	rb, rt := rho(zb), rho(zt)
	if zt < zb || rb < -1e-12 || rt < -1e-12 {
		return nil, false
	}
	rb, rt = math.Max(rb, 0), math.Max(rt, 0)
	return []V2{{-rb, zb}, {rb, zb}, {rt, zt}, {-rt, zt}}, true
}

// Cone is the signed distance to a (rounded) truncated cone about the z axis.
func Cone(p V3, h, r0, r1, rd float64) (float64, bool) {
	vs, ok := ConeProfile(h, r0, r1, rd)
	if !ok {
		return 0, false
	}
	return ConvexPolySigned(V2{math.Hypot(p[0], p[1]), p[2]}, vs) - rd, true
}

// PolySigned is the signed distance to a simple polygon: minimum distance to its edges, negative
// when the even-odd crossing number of the ray towards +x is odd (half-open rule on y). ok=false
// when p is level with a vertex within tol (the float crossing test is then not trustworthy;
// exact treatment of those points is the subject of C04's oracle).
func PolySigned(p V2, vs []V2, tol float64) (float64, bool) {
	d := math.Inf(1)
	inside := false
	n := len(vs)
	for i := 0; i < n; i++ {
		a, b := vs[i], vs[(i+1)%n]
		if math.Abs(a[1]-p[1]) <= tol {
			return 0, false
		}
		d = math.Min(d, SegDist(p, a, b))
		if (a[1] > p[1]) != (b[1] > p[1]) {
			x := a[0] + (p[1]-a[1])/(b[1]-a[1])*(b[0]-a[0])
			if math.Abs(x-p[0]) <= tol {
				return 0, false
			}
			if x > p[0] {
				inside = !inside
			}
		}
	}
	if inside {
		return -d, true
	}
	return d, true
}

// Exact3 returns the closed-form distance function of a program over the
// exact sub-grammar: leaves sphere/box3/cyl/capsule/cone under rigid xform3,
// scale3, offset3 (outward) and revolve of an Exact2 profile. ok=false if the
// program uses anything else.
func Exact3(n *shape.Node) (func(V3) float64, bool) {
	P := n.P
	switch n.Op {
	case "sphere":
		return func(p V3) float64 { return Sphere(p, P[0]) }, true
	case "box3":
		return func(p V3) float64 { return RoundBoxN(p[:], []float64{P[0] / 2, P[1] / 2, P[2] / 2}, P[3]) }, true
	case "cyl":
		return func(p V3) float64 {
			return RoundBoxN([]float64{math.Hypot(p[0], p[1]), p[2]}, []float64{P[1], P[0] / 2}, P[2])
		}, true
	case "capsule":
		return func(p V3) float64 {
			hz := P[0]/2 - P[1]
			z := p[2] - math.Max(-hz, math.Min(hz, p[2]))
			return math.Sqrt(p[0]*p[0]+p[1]*p[1]+z*z) - P[1]
		}, true
	case "cone":
		if _, ok := ConeProfile(P[0], P[1], P[2], P[3]); !ok {
			return nil, false
		}
		return func(p V3) float64 { d, _ := Cone(p, P[0], P[1], P[2], P[3]); return d }, true
	case "xform3":
		f, ok := Exact3(n.K[0])
		if !ok {
			return nil, false
		}
		return func(p V3) float64 { return f(shape.InvXform3(n, p)) }, true
	case "scale3":
		f, ok := Exact3(n.K[0])
		if !ok {
			return nil, false
		}
		return func(p V3) float64 { return P[0] * f(V3{p[0] / P[0], p[1] / P[0], p[2] / P[0]}) }, true
	case "offset3":
		f, ok := Exact3(n.K[0])
		if !ok || P[0] < 0 {
			return nil, false
		}
		return func(p V3) float64 { return f(p) - P[0] }, true
	case "revolve", "revolvetheta":
		// revolvetheta: only the full revolution (angle 0 or whole turns, which the constructor
		// documents as normalised away) is in the exact grammar
		if n.Op == "revolvetheta" && math.Mod(math.Abs(P[0]), 2*math.Pi) != 0 {
			return nil, false
		}
		f, ok := Exact2(n.K[0])
		if !ok {
			return nil, false
		}
		return func(p V3) float64 { return f(V2{math.Hypot(p[0], p[1]), p[2]}) }, true
	}
	return nil, false
}

// Exact2 is the 2D analogue of Exact3: circle/box2/line2 under rigid xform2,
// scale2 and outward offset2.
func Exact2(n *shape.Node) (func(V2) float64, bool) {
	P := n.P
	switch n.Op {
	case "circle":
		return func(p V2) float64 { return math.Hypot(p[0], p[1]) - P[0] }, true
	case "box2":
		return func(p V2) float64 { return RoundBoxN(p[:], []float64{P[0] / 2, P[1] / 2}, P[2]) }, true
	case "line2":
		return func(p V2) float64 { return SegDist(p, V2{-P[0] / 2, 0}, V2{P[0] / 2, 0}) - P[1] }, true
	case "poly":
		vs := make([]V2, len(n.V))
		scale := 0.0
		for i, v := range n.V {
			vs[i] = V2{v[0], v[1]}
			scale = math.Max(scale, math.Max(math.Abs(v[0]), math.Abs(v[1])))
		}
		return func(p V2) float64 {
			d, ok := PolySigned(p, vs, 1e-9*(scale+math.Abs(p[0])+math.Abs(p[1])))
			if !ok {
				return math.NaN() // undecided by this oracle: the caller skips NaN
			}
			return d
		}, true
	case "xform2":
		f, ok := Exact2(n.K[0])
		if !ok {
			return nil, false
		}
		return func(p V2) float64 { return f(shape.InvXform2(n, p)) }, true
	case "scale2":
		f, ok := Exact2(n.K[0])
		if !ok {
			return nil, false
		}
		return func(p V2) float64 { return P[0] * f(V2{p[0] / P[0], p[1] / P[0]}) }, true
	case "offset2":
		f, ok := Exact2(n.K[0])
		if !ok || P[0] < 0 {
			return nil, false
		}
		return func(p V2) float64 { return f(p) - P[0] }, true
	}
	return nil, false
}
