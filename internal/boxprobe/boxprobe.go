// Package boxprobe probes a shape with points outside its bounding box
// (shell, just outside the faces, rays from sampled interior points): the
// oracle of property C01 is the definition itself - no negative value outside
// a finite ordered box.
package boxprobe

import (
	"fmt"
	"math"

	"github.com/deadsy/sdfx/sdf"
	v2 "github.com/deadsy/sdfx/vec/v2"
	v3 "github.com/deadsy/sdfx/vec/v3"
	"pgregory.net/rapid"

	"verif/internal/g"
)

// Outside3 returns the distance from p to the box (0 inside).
func Outside3(b sdf.Box3, p v3.Vec) float64 {
	dx := math.Max(0, math.Max(b.Min.X-p.X, p.X-b.Max.X))
	dy := math.Max(0, math.Max(b.Min.Y-p.Y, p.Y-b.Max.Y))
	dz := math.Max(0, math.Max(b.Min.Z-p.Z, p.Z-b.Max.Z))
	return math.Sqrt(dx*dx + dy*dy + dz*dz)
}

// Outside2 returns the distance from p to the box (0 inside).
func Outside2(b sdf.Box2, p v2.Vec) float64 {
	dx := math.Max(0, math.Max(b.Min.X-p.X, p.X-b.Max.X))
	dy := math.Max(0, math.Max(b.Min.Y-p.Y, p.Y-b.Max.Y))
	return math.Hypot(dx, dy)
}

// Tau3 is the tolerance used for "outside" and "negative".
func Tau3(bb sdf.Box3) float64 {
	return 1e-9 * math.Max(1, math.Max(bb.Min.Length(), bb.Max.Length()))
}

// Tau2 is the tolerance used for "outside" and "negative".
func Tau2(bb sdf.Box2) float64 {
	return 1e-9 * math.Max(1, math.Max(bb.Min.Length(), bb.Max.Length()))
}

// Result summarises one probing run.
type Result struct {
	BoxProblem string   // "" or "box-not-finite" / "box-not-ordered"
	Interior   int      // sampled interior points (non-empty solid when > 0)
	Probes     int      // points evaluated outside the box
	Interior3  []v3.Vec // the interior samples (3D run)
	Interior2  []v2.Vec // the interior samples (2D run)
}

func finite(xs ...float64) bool {
	for _, x := range xs {
		if math.IsNaN(x) || math.IsInf(x, 0) {
			return false
		}
	}
	return true
}

// Probe3 samples s; leak is called for every point outside the box (by more
// than tau) whose value is below -tau. S is the length scale of the model.
func Probe3(t *rapid.T, s sdf.SDF3, S float64, leak func(p v3.Vec, value, outside float64, how string)) Result {
	var res Result
	bb := s.BoundingBox()
	if !finite(bb.Min.X, bb.Min.Y, bb.Min.Z, bb.Max.X, bb.Max.Y, bb.Max.Z) {
		res.BoxProblem = "box-not-finite"
		return res
	}
	if bb.Min.X > bb.Max.X || bb.Min.Y > bb.Max.Y || bb.Min.Z > bb.Max.Z {
		res.BoxProblem = "box-not-ordered"
		return res
	}
	tau := Tau3(bb)
	c, h := bb.Center(), bb.Size().MulScalar(0.5)
	ext := math.Max(h.Length(), 0.05*S)
	probe := func(p v3.Vec, how string) {
		out := Outside3(bb, p)
		if out <= tau {
			return
		}
		res.Probes++
		if v := s.Evaluate(p); v < -tau {
			leak(p, v, out, how)
		}
	}
	u := func(l string, i int) float64 { return g.F(-1, 1).Draw(t, fmt.Sprintf("%s%d", l, i)) }
	var interior []v3.Vec
	nIn := rapid.IntRange(60, 160).Draw(t, "nin")
	for i := 0; i < nIn; i++ {
		p := v3.Vec{X: c.X + u("ix", i)*h.X, Y: c.Y + u("iy", i)*h.Y, Z: c.Z + u("iz", i)*h.Z}
		if s.Evaluate(p) < 0 {
			interior = append(interior, p)
		}
	}
	res.Interior = len(interior)
	res.Interior3 = interior
	nSh := rapid.IntRange(60, 200).Draw(t, "nsh")
	for i := 0; i < nSh; i++ {
		k := 1 + 3*g.F(0, 1).Draw(t, fmt.Sprintf("sk%d", i))
		probe(v3.Vec{X: c.X + u("sx", i)*(h.X*k+0.02*ext), Y: c.Y + u("sy", i)*(h.Y*k+0.02*ext), Z: c.Z + u("sz", i)*(h.Z*k+0.02*ext)}, "shell")
	}
	nF := rapid.IntRange(30, 90).Draw(t, "nf")
	for i := 0; i < nF; i++ {
		p := v3.Vec{X: c.X + u("fx", i)*h.X, Y: c.Y + u("fy", i)*h.Y, Z: c.Z + u("fz", i)*h.Z}
		eps := math.Pow(10, -float64(rapid.IntRange(1, 6).Draw(t, fmt.Sprintf("fe%d", i)))) * ext
		switch rapid.IntRange(0, 5).Draw(t, fmt.Sprintf("ff%d", i)) {
		case 0:
			p.X = bb.Min.X - eps
		case 1:
			p.X = bb.Max.X + eps
		case 2:
			p.Y = bb.Min.Y - eps
		case 3:
			p.Y = bb.Max.Y + eps
		case 4:
			p.Z = bb.Min.Z - eps
		default:
			p.Z = bb.Max.Z + eps
		}
		probe(p, "face")
	}
	if len(interior) > 0 {
		nR := rapid.IntRange(10, 40).Draw(t, "nr")
		for i := 0; i < nR; i++ {
			q := interior[rapid.IntRange(0, len(interior)-1).Draw(t, fmt.Sprintf("rq%d", i))]
			d := v3.Vec{X: u("rdx", i), Y: u("rdy", i), Z: u("rdz", i)}
			if d.Length() < 1e-3 {
				continue
			}
			d = d.Normalize()
			tExit := math.Inf(1)
			qa, da := [3]float64{q.X, q.Y, q.Z}, [3]float64{d.X, d.Y, d.Z}
			lo, hi := [3]float64{bb.Min.X, bb.Min.Y, bb.Min.Z}, [3]float64{bb.Max.X, bb.Max.Y, bb.Max.Z}
			for a := 0; a < 3; a++ {
				if da[a] > 0 {
					tExit = math.Min(tExit, (hi[a]-qa[a])/da[a])
				} else if da[a] < 0 {
					tExit = math.Min(tExit, (lo[a]-qa[a])/da[a])
				}
			}
			if math.IsInf(tExit, 0) {
				continue
			}
			for e := -6.0; e <= 0.5; e += 0.5 {
				probe(q.Add(d.MulScalar(tExit+math.Pow(10, e)*ext)), "ray")
			}
		}
	}
	return res
}

// Probe2 is the 2D analogue of Probe3.
func Probe2(t *rapid.T, s sdf.SDF2, S float64, leak func(p v2.Vec, value, outside float64, how string)) Result {
	var res Result
	bb := s.BoundingBox()
	if !finite(bb.Min.X, bb.Min.Y, bb.Max.X, bb.Max.Y) {
		res.BoxProblem = "box-not-finite"
		return res
	}
	if bb.Min.X > bb.Max.X || bb.Min.Y > bb.Max.Y {
		res.BoxProblem = "box-not-ordered"
		return res
	}
	tau := Tau2(bb)
	c, h := bb.Center(), bb.Size().MulScalar(0.5)
	ext := math.Max(h.Length(), 0.05*S)
	probe := func(p v2.Vec, how string) {
		out := Outside2(bb, p)
		if out <= tau {
			return
		}
		res.Probes++
		if v := s.Evaluate(p); v < -tau {
			leak(p, v, out, how)
		}
	}
	u := func(l string, i int) float64 { return g.F(-1, 1).Draw(t, fmt.Sprintf("%s%d", l, i)) }
	var interior []v2.Vec
	nIn := rapid.IntRange(60, 160).Draw(t, "nin")
	for i := 0; i < nIn; i++ {
		p := v2.Vec{X: c.X + u("ix", i)*h.X, Y: c.Y + u("iy", i)*h.Y}
		if s.Evaluate(p) < 0 {
			interior = append(interior, p)
		}
	}
	res.Interior = len(interior)
	res.Interior2 = interior
	nSh := rapid.IntRange(60, 200).Draw(t, "nsh")
	for i := 0; i < nSh; i++ {
		k := 1 + 3*g.F(0, 1).Draw(t, fmt.Sprintf("sk%d", i))
		probe(v2.Vec{X: c.X + u("sx", i)*(h.X*k+0.02*ext), Y: c.Y + u("sy", i)*(h.Y*k+0.02*ext)}, "shell")
	}
	nF := rapid.IntRange(30, 90).Draw(t, "nf")
	for i := 0; i < nF; i++ {
		p := v2.Vec{X: c.X + u("fx", i)*h.X, Y: c.Y + u("fy", i)*h.Y}
		eps := math.Pow(10, -float64(rapid.IntRange(1, 6).Draw(t, fmt.Sprintf("fe%d", i)))) * ext
		switch rapid.IntRange(0, 3).Draw(t, fmt.Sprintf("ff%d", i)) {
		case 0:
			p.X = bb.Min.X - eps
		case 1:
			p.X = bb.Max.X + eps
		case 2:
			p.Y = bb.Min.Y - eps
		default:
			p.Y = bb.Max.Y + eps
		}
		probe(p, "face")
	}
	if len(interior) > 0 {
		nR := rapid.IntRange(10, 40).Draw(t, "nr")
		for i := 0; i < nR; i++ {
			q := interior[rapid.IntRange(0, len(interior)-1).Draw(t, fmt.Sprintf("rq%d", i))]
			a := g.F(-math.Pi, math.Pi).Draw(t, fmt.Sprintf("ra%d", i))
			d := v2.Vec{X: math.Cos(a), Y: math.Sin(a)}
			tExit := math.Inf(1)
			if d.X > 0 {
				tExit = math.Min(tExit, (bb.Max.X-q.X)/d.X)
			} else if d.X < 0 {
				tExit = math.Min(tExit, (bb.Min.X-q.X)/d.X)
			}
			if d.Y > 0 {
				tExit = math.Min(tExit, (bb.Max.Y-q.Y)/d.Y)
			} else if d.Y < 0 {
				tExit = math.Min(tExit, (bb.Min.Y-q.Y)/d.Y)
			}
			if math.IsInf(tExit, 0) {
				continue
			}
			for e := -6.0; e <= 0.5; e += 0.5 {
				probe(q.Add(d.MulScalar(tExit+math.Pow(10, e)*ext)), "ray")
			}
		}
	}
	return res
}
