// Package fc ("fault case") describes one render-to-file call of the public
// sdfx API (render.ToSTL/To3MF/ToDXF/ToSVG/ToTriangles) with a scripted or a
// real renderer, and runs it. It is shared by cmd/faultchild (one case per OS
// process, under an injected I/O fault) and by props/c12 (in-process render
// histories for the goroutine bound).
//
// Nothing in here looks inside sdfx: the scripted renderers implement the
// public render.Render3 / render.Render2 interfaces and write to the public
// sdf.Triangle3Writer / sdf.Line2Writer they are handed, exactly like the
// renderers of the library do (Write ... Write, Close).
package fc

import (
	"fmt"

	"github.com/deadsy/sdfx/render"
	"github.com/deadsy/sdfx/sdf"
	v2 "github.com/deadsy/sdfx/vec/v2"
	v3 "github.com/deadsy/sdfx/vec/v3"
)

// Case is one render call. It is the JSON document cmd/faultchild consumes and
// the replay format of props/c12.
type Case struct {
	Sink     string `json:"sink"`               // stl 3mf tri | dxf svg
	Renderer string `json:"renderer"`           // scripted | mcu mco | msu msq dc2
	N        int    `json:"n"`                  // scripted: number of items emitted
	Chunk    int    `json:"chunk"`              // scripted: items per Write call (<=0: all in one call)
	Cells    int    `json:"cells"`              // real renderers: meshCells
	Shape    string `json:"shape"`              // real renderers: sphere box cyl | circle box2
	Path     string `json:"path"`               // output path handed to the library
	Fsize    int64  `json:"fsize"`              // child only: RLIMIT_FSIZE in bytes, <0 = unlimited
	Uid      int    `json:"uid"`                // child only: >0 = drop to this uid/gid before rendering
	Keep     bool   `json:"keep"`               // child only: keep a sleeping goroutine alive (defeats the runtime deadlock detector)
	Fault    string `json:"fault"`              // informational: fault class chosen by the generator
	PauseMs  int    `json:"pause_ms,omitempty"` // child only: after the render the process idles this long and renders the same case again
	Procs    int    `json:"procs,omitempty"`    // parent only: GOMAXPROCS in the child's environment (0 = not set)
	CPUs     int    `json:"cpus,omitempty"`     // parent only: the child is confined to this many CPUs, runtime.NumCPU() == CPUs (0 = all)
}

// Is3D reports whether the sink takes triangles.
func Is3D(sink string) bool { return sink == "stl" || sink == "3mf" || sink == "tri" }

//-----------------------------------------------------------------------------
// scripted renderers: emit N numbered items in Write calls of Chunk items.

// Scripted3 is a render.Render3 emitting N non-degenerate numbered triangles.
type Scripted3 struct{ N, Chunk int }

// Info implements render.Render3.
func (r *Scripted3) Info(sdf.SDF3) string { return fmt.Sprintf("scripted %d triangles", r.N) }

// Render implements render.Render3.
func (r *Scripted3) Render(_ sdf.SDF3, out sdf.Triangle3Writer) {
	chunk := r.Chunk
	if chunk <= 0 || chunk > r.N {
		chunk = r.N
	}
	for i := 0; i < r.N; i += chunk {
		n := chunk
		if i+n > r.N {
			n = r.N - i
		}
		ts := make([]*sdf.Triangle3, n)
		for j := range ts {
			x := float64(i + j)
			ts[j] = &sdf.Triangle3{{X: x, Y: 0, Z: 0}, {X: x + 1, Y: 0, Z: 0}, {X: x, Y: 1, Z: 0}}
		}
		out.Write(ts)
	}
	out.Close()
}

// Scripted2 is a render.Render2 emitting N numbered line segments.
type Scripted2 struct{ N, Chunk int }

// Info implements render.Render2.
func (r *Scripted2) Info(sdf.SDF2) string { return fmt.Sprintf("scripted %d lines", r.N) }

// Render implements render.Render2.
func (r *Scripted2) Render(_ sdf.SDF2, out sdf.Line2Writer) {
	chunk := r.Chunk
	if chunk <= 0 || chunk > r.N {
		chunk = r.N
	}
	for i := 0; i < r.N; i += chunk {
		n := chunk
		if i+n > r.N {
			n = r.N - i
		}
		ls := make([]*sdf.Line2, n)
		for j := range ls {
			x := float64(i + j)
			ls[j] = &sdf.Line2{{X: x, Y: 0}, {X: x + 1, Y: 1}}
		}
		out.Write(ls)
	}
	out.Close()
}

//-----------------------------------------------------------------------------

// Shape3 builds the small 3D model of a case.
func Shape3(name string) (sdf.SDF3, error) {
	switch name {
	case "box":
		return sdf.Box3D(v3.Vec{X: 3, Y: 2, Z: 1}, 0.25)
	case "cyl":
		return sdf.Cylinder3D(3, 1, 0.25)
	case "sphere", "":
		return sdf.Sphere3D(1)
	}
	return nil, fmt.Errorf("unknown 3d shape %q", name)
}

// Shape2 builds the small 2D model of a case.
func Shape2(name string) (sdf.SDF2, error) {
	switch name {
	case "box2":
		return sdf.Box2D(v2.Vec{X: 3, Y: 2}, 0.25), nil
	case "circle", "":
		return sdf.Circle2D(1)
	}
	return nil, fmt.Errorf("unknown 2d shape %q", name)
}

// Renderer3 builds the 3D renderer of a case.
func Renderer3(c Case) (render.Render3, error) {
	switch c.Renderer {
	case "scripted":
		return &Scripted3{N: c.N, Chunk: c.Chunk}, nil
	case "mcu":
		return render.NewMarchingCubesUniform(c.Cells), nil
	case "mco":
		return render.NewMarchingCubesOctree(c.Cells), nil
	}
	return nil, fmt.Errorf("unknown 3d renderer %q", c.Renderer)
}

// Renderer2 builds the 2D renderer of a case.
func Renderer2(c Case) (render.Render2, error) {
	switch c.Renderer {
	case "scripted":
		return &Scripted2{N: c.N, Chunk: c.Chunk}, nil
	case "msu":
		return render.NewMarchingSquaresUniform(c.Cells), nil
	case "msq":
		return render.NewMarchingSquaresQuadtree(c.Cells), nil
	case "dc2":
		return render.NewDualContouring2D(c.Cells), nil
	}
	return nil, fmt.Errorf("unknown 2d renderer %q", c.Renderer)
}

// Run performs the render call of c through the public API. The error is a
// harness error (malformed case); I/O errors are handled (printed) by sdfx
// itself, the render functions return nothing. items is the number of
// triangles for the "tri" sink, -1 otherwise.
func Run(c Case) (items int, err error) {
	items = -1
	if Is3D(c.Sink) {
		s, err := Shape3(c.Shape)
		if err != nil {
			return items, err
		}
		r, err := Renderer3(c)
		if err != nil {
			return items, err
		}
		switch c.Sink {
		case "stl":
			render.ToSTL(s, c.Path, r)
		case "3mf":
			render.To3MF(s, c.Path, r)
		case "tri":
			items = len(render.ToTriangles(s, r))
		}
		return items, nil
	}
	s, err := Shape2(c.Shape)
	if err != nil {
		return items, err
	}
	r, err := Renderer2(c)
	if err != nil {
		return items, err
	}
	switch c.Sink {
	case "dxf":
		render.ToDXF(s, c.Path, r)
	case "svg":
		render.ToSVG(s, c.Path, r)
	default:
		return items, fmt.Errorf("unknown sink %q", c.Sink)
	}
	return items, nil
}
