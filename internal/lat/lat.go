// Package lat holds harness-owned SDF wrappers used to steer and observe the
// renderers: recorders (which points were evaluated), lattice lookup fields
// (arbitrary corner sign / magnitude patterns on the lattice the renderer
// really uses), re-boxing and schedule perturbation.
package lat

import (
	"math"
	"runtime"
	"sort"
	"sync"
	"sync/atomic"

	"github.com/deadsy/sdfx/sdf"
	v2 "github.com/deadsy/sdfx/vec/v2"
	v3 "github.com/deadsy/sdfx/vec/v3"
)

// Recorder3 logs every evaluated point (thread-safe; order is not meaningful).
type Recorder3 struct {
	S   sdf.SDF3
	mu  sync.Mutex
	Pts []v3.Vec
	Val []float64
}

func (r *Recorder3) Evaluate(p v3.Vec) float64 {
	v := r.S.Evaluate(p)
	r.mu.Lock()
	r.Pts = append(r.Pts, p)
	r.Val = append(r.Val, v)
	r.mu.Unlock()
	return v
}
func (r *Recorder3) BoundingBox() sdf.Box3 { return r.S.BoundingBox() }

// Recorder2 is the 2D analogue.
type Recorder2 struct {
	S   sdf.SDF2
	mu  sync.Mutex
	Pts []v2.Vec
	Val []float64
}

func (r *Recorder2) Evaluate(p v2.Vec) float64 {
	v := r.S.Evaluate(p)
	r.mu.Lock()
	r.Pts = append(r.Pts, p)
	r.Val = append(r.Val, v)
	r.mu.Unlock()
	return v
}
func (r *Recorder2) BoundingBox() sdf.Box2 { return r.S.BoundingBox() }

// Const3 is a constant field with a chosen bounding box.
type Const3 struct {
	V  float64
	BB sdf.Box3
}

func (c Const3) Evaluate(v3.Vec) float64 { return c.V }
func (c Const3) BoundingBox() sdf.Box3   { return c.BB }

// Const2 is a constant field with a chosen bounding box.
type Const2 struct {
	V  float64
	BB sdf.Box2
}

func (c Const2) Evaluate(v2.Vec) float64 { return c.V }
func (c Const2) BoundingBox() sdf.Box2   { return c.BB }

// Rebox3 gives a shape another (usually enlarged) bounding box.
type Rebox3 struct {
	S  sdf.SDF3
	BB sdf.Box3
}

func (r Rebox3) Evaluate(p v3.Vec) float64 { return r.S.Evaluate(p) }
func (r Rebox3) BoundingBox() sdf.Box3     { return r.BB }

// Rebox2 gives a shape another bounding box.
type Rebox2 struct {
	S  sdf.SDF2
	BB sdf.Box2
}

func (r Rebox2) Evaluate(p v2.Vec) float64 { return r.S.Evaluate(p) }
func (r Rebox2) BoundingBox() sdf.Box2     { return r.BB }

// Scaled3 multiplies a field by a constant (used by the 2^-k metamorphic relation).
type Scaled3 struct {
	S sdf.SDF3
	K float64
}

func (r Scaled3) Evaluate(p v3.Vec) float64 { return r.K * r.S.Evaluate(p) }
func (r Scaled3) BoundingBox() sdf.Box3     { return r.S.BoundingBox() }

// Scaled2 multiplies a field by a constant.
type Scaled2 struct {
	S sdf.SDF2
	K float64
}

func (r Scaled2) Evaluate(p v2.Vec) float64 { return r.K * r.S.Evaluate(p) }
func (r Scaled2) BoundingBox() sdf.Box2     { return r.S.BoundingBox() }

// Uniq returns the sorted distinct values of xs; values closer than tol are merged.
func Uniq(xs []float64, tol float64) []float64 {
	s := append([]float64(nil), xs...)
	sort.Float64s(s)
	out := s[:0]
	for i, x := range s {
		if i == 0 || x-out[len(out)-1] > tol {
			out = append(out, x)
		}
	}
	return out
}

// Nearest returns the index of the coordinate in the sorted slice cs closest to x.
func Nearest(cs []float64, x float64) int {
	i := sort.SearchFloat64s(cs, x)
	if i == 0 {
		return 0
	}
	if i == len(cs) {
		return len(cs) - 1
	}
	if x-cs[i-1] <= cs[i]-x {
		return i - 1
	}
	return i
}

// Axes3 is a rectilinear lattice: sorted coordinates per axis.
type Axes3 struct{ X, Y, Z []float64 }

// AxesOf3 recovers the lattice from recorded points.
func AxesOf3(pts []v3.Vec, tol float64) Axes3 {
	var xs, ys, zs []float64
	for _, p := range pts {
		xs, ys, zs = append(xs, p.X), append(ys, p.Y), append(zs, p.Z)
	}
	return Axes3{Uniq(xs, tol), Uniq(ys, tol), Uniq(zs, tol)}
}

// Axes2 is the 2D analogue of Axes3.
type Axes2 struct{ X, Y []float64 }

// AxesOf2 recovers the lattice from recorded points.
func AxesOf2(pts []v2.Vec, tol float64) Axes2 {
	var xs, ys []float64
	for _, p := range pts {
		xs, ys = append(xs, p.X), append(ys, p.Y)
	}
	return Axes2{Uniq(xs, tol), Uniq(ys, tol)}
}

// Lookup3 is a piecewise-constant field: the value stored for the nearest lattice node.
type Lookup3 struct {
	A   Axes3
	V   []float64 // len(X)*len(Y)*len(Z), index (i*ny+j)*nz+k
	BB  sdf.Box3
	Cnt int64 // evaluations (atomic)
}

// NewLookup3 allocates a lookup field with every node set to def.
func NewLookup3(a Axes3, bb sdf.Box3, def float64) *Lookup3 {
	l := &Lookup3{A: a, BB: bb, V: make([]float64, len(a.X)*len(a.Y)*len(a.Z))}
	for i := range l.V {
		l.V[i] = def
	}
	return l
}

func (l *Lookup3) idx(i, j, k int) int { return (i*len(l.A.Y)+j)*len(l.A.Z) + k }

// Set stores the value of node (i,j,k).
func (l *Lookup3) Set(i, j, k int, v float64) { l.V[l.idx(i, j, k)] = v }

// At returns the value of node (i,j,k).
func (l *Lookup3) At(i, j, k int) float64 { return l.V[l.idx(i, j, k)] }

func (l *Lookup3) Evaluate(p v3.Vec) float64 {
	atomic.AddInt64(&l.Cnt, 1)
	return l.V[l.idx(Nearest(l.A.X, p.X), Nearest(l.A.Y, p.Y), Nearest(l.A.Z, p.Z))]
}
func (l *Lookup3) BoundingBox() sdf.Box3 { return l.BB }

// Lookup2 is the 2D analogue of Lookup3.
type Lookup2 struct {
	A  Axes2
	V  []float64
	BB sdf.Box2
}

// NewLookup2 allocates a lookup field with every node set to def.
func NewLookup2(a Axes2, bb sdf.Box2, def float64) *Lookup2 {
	l := &Lookup2{A: a, BB: bb, V: make([]float64, len(a.X)*len(a.Y))}
	for i := range l.V {
		l.V[i] = def
	}
	return l
}

// Set stores the value of node (i,j).
func (l *Lookup2) Set(i, j int, v float64) { l.V[i*len(l.A.Y)+j] = v }

// At returns the value of node (i,j).
func (l *Lookup2) At(i, j int) float64 { return l.V[i*len(l.A.Y)+j] }

func (l *Lookup2) Evaluate(p v2.Vec) float64 {
	return l.V[Nearest(l.A.X, p.X)*len(l.A.Y)+Nearest(l.A.Y, p.Y)]
}
func (l *Lookup2) BoundingBox() sdf.Box2 { return l.BB }

// Perturb3 wraps a shape and, as a pure function of the point's bit pattern,
// burns some iterations and/or yields before returning the wrapped value:
// schedule perturbation without a random source or a clock. Mode selects the
// delay function. Overlap counts concurrent evaluations observed.
type Perturb3 struct {
	S       sdf.SDF3
	Mode    int
	active  int32
	Overlap int64
}

func (w *Perturb3) Evaluate(p v3.Vec) float64 {
	if atomic.AddInt32(&w.active, 1) > 1 {
		atomic.AddInt64(&w.Overlap, 1)
	}
	h := math.Float64bits(p.X)*0x9E3779B97F4A7C15 ^ math.Float64bits(p.Y)*0xC2B2AE3D27D4EB4F ^ math.Float64bits(p.Z)*0x165667B19E3779F9
	h ^= h >> 29
	switch w.Mode {
	case 1:
		if h%7 == 0 {
			runtime.Gosched()
		}
	case 2:
		n := int(h % 512)
		x := 1.0
		for i := 0; i < n; i++ {
			x = x*1.0000001 + 1e-9
		}
		if x < 0 {
			runtime.Gosched()
		}
	case 3:
		if h%3 == 0 {
			runtime.Gosched()
		}
		n := int(h % 2048)
		x := 1.0
		for i := 0; i < n; i++ {
			x = x*1.0000001 + 1e-9
		}
		if x < 0 {
			runtime.Gosched()
		}
	}
	v := w.S.Evaluate(p)
	atomic.AddInt32(&w.active, -1)
	return v
}
func (w *Perturb3) BoundingBox() sdf.Box3 { return w.S.BoundingBox() }

// Func3 is a field given by a function, with a chosen bounding box.
type Func3 struct {
	F  func(v3.Vec) float64
	BB sdf.Box3
}

func (f Func3) Evaluate(p v3.Vec) float64 { return f.F(p) }
func (f Func3) BoundingBox() sdf.Box3     { return f.BB }
