// Package fmtread holds the independent file readers the property checks use
// as oracles for what sdfx wrote: binary STL (parsed by hand), 3MF (go3mf
// reader, plus a raw zip/XML reading of the model part), DXF (yofu/dxf reader,
// plus a raw group-code reading of the ENTITIES section) and SVG
// (encoding/xml). Nothing here imports sdfx.
package fmtread

import (
	"archive/zip"
	"bufio"
	"encoding/binary"
	"encoding/xml"
	"fmt"
	"io"
	"math"
	"os"
	"strconv"
	"strings"

	"github.com/hpinc/go3mf"
	"github.com/yofu/dxf"
	"github.com/yofu/dxf/entity"
)

// ---------------------------------------------------------------------------
// binary STL

// STLTri is one 50-byte record of a binary STL file.
type STLTri struct {
	Normal [3]float32
	V      [3][3]float32
	Attr   uint16
}

// STL is a binary STL file as found on disk.
type STL struct {
	Header   [80]byte
	Count    uint32   // the count field of the header
	Tris     []STLTri // every complete 50-byte record after the header
	Size     int64    // file size in bytes
	Trailing int      // bytes after the last complete record
}

// WellFormed reports whether size == 84 + 50*count and the record count matches.
func (s *STL) WellFormed() bool {
	return s.Trailing == 0 && int64(len(s.Tris)) == int64(s.Count) && s.Size == 84+50*int64(s.Count)
}

func f32(b []byte) float32 { return math.Float32frombits(binary.LittleEndian.Uint32(b)) }

// ReadSTL parses a binary STL file byte by byte. It reads all records present
// in the file regardless of the count field, so that a wrong count is visible.
func ReadSTL(path string) (*STL, error) {
	b, err := os.ReadFile(path)
	if err != nil {
		return nil, err
	}
	if len(b) < 84 {
		return nil, fmt.Errorf("stl: %d bytes, shorter than the 84 byte header", len(b))
	}
	s := &STL{Size: int64(len(b))}
	copy(s.Header[:], b[:80])
	s.Count = binary.LittleEndian.Uint32(b[80:84])
	body := b[84:]
	n := len(body) / 50
	s.Trailing = len(body) % 50
	s.Tris = make([]STLTri, n)
	for i := 0; i < n; i++ {
		r := body[i*50 : i*50+50]
		t := &s.Tris[i]
		for k := 0; k < 3; k++ {
			t.Normal[k] = f32(r[4*k:])
		}
		for v := 0; v < 3; v++ {
			for k := 0; k < 3; k++ {
				t.V[v][k] = f32(r[12+12*v+4*k:])
			}
		}
		t.Attr = binary.LittleEndian.Uint16(r[48:])
	}
	return s, nil
}

// ---------------------------------------------------------------------------
// 3MF

// Object3MF is one mesh object of a 3MF model.
type Object3MF struct {
	ID        uint32
	HasMesh   bool
	Vertices  [][3]float32
	Triangles [][3]uint32
}

// Item3MF is one build item.
type Item3MF struct {
	ObjectID  uint32
	Transform [16]float32 // as returned by the reader (all zero or identity when absent)
}

// Model3MF is what the go3mf reader found in the file.
type Model3MF struct {
	Units   string // "millimeter", "micron", ...
	Objects []Object3MF
	Items   []Item3MF
}

// Read3MF decodes a 3MF file with github.com/hpinc/go3mf.
func Read3MF(path string) (*Model3MF, error) {
	r, err := go3mf.OpenReader(path)
	if err != nil {
		return nil, err
	}
	defer r.Close()
	var model go3mf.Model
	if err := r.Decode(&model); err != nil {
		return nil, err
	}
	out := &Model3MF{Units: model.Units.String()}
	for _, o := range model.Resources.Objects {
		ob := Object3MF{ID: o.ID}
		if o.Mesh != nil {
			ob.HasMesh = true
			for _, v := range o.Mesh.Vertices.Vertex {
				ob.Vertices = append(ob.Vertices, [3]float32{v.X(), v.Y(), v.Z()})
			}
			for _, t := range o.Mesh.Triangles.Triangle {
				ob.Triangles = append(ob.Triangles, [3]uint32{t.V1, t.V2, t.V3})
			}
		}
		out.Objects = append(out.Objects, ob)
	}
	for _, it := range model.Build.Items {
		out.Items = append(out.Items, Item3MF{ObjectID: it.ObjectID, Transform: [16]float32(it.Transform)})
	}
	return out, nil
}

// Raw3MF is the model part of a 3MF package read with archive/zip and
// encoding/xml only: attribute strings exactly as written.
type Raw3MF struct {
	Part    string // name of the model part inside the zip
	Unit    string
	Objects []RawObject3MF
	Items   []RawItem3MF
	// Metadata: the <metadata name="..."> elements of the model, as "name=value", and any attribute of the
	// <model> element other than unit / xmlns / xml:lang, as "@name=value" (in document order)
	Metadata []string
}

// RawObject3MF is an <object> element.
type RawObject3MF struct {
	ID        string
	Type      string
	Meshes    int
	Vertices  [][3]string // x y z attribute strings
	Triangles [][3]string // v1 v2 v3 attribute strings
}

// RawItem3MF is a build <item>.
type RawItem3MF struct {
	ObjectID  string
	Transform string
}

type xmlModel3MF struct {
	XMLName  xml.Name   `xml:"model"`
	Unit     string     `xml:"unit,attr"`
	Attrs    []xml.Attr `xml:",any,attr"`
	Metadata []struct {
		Name  string `xml:"name,attr"`
		Value string `xml:",chardata"`
	} `xml:"metadata"`
	Resources struct {
		Objects []struct {
			ID   string `xml:"id,attr"`
			Type string `xml:"type,attr"`
			Mesh []struct {
				Vertices struct {
					Vertex []struct {
						X string `xml:"x,attr"`
						Y string `xml:"y,attr"`
						Z string `xml:"z,attr"`
					} `xml:"vertex"`
				} `xml:"vertices"`
				Triangles struct {
					Triangle []struct {
						V1 string `xml:"v1,attr"`
						V2 string `xml:"v2,attr"`
						V3 string `xml:"v3,attr"`
					} `xml:"triangle"`
				} `xml:"triangles"`
			} `xml:"mesh"`
		} `xml:"object"`
	} `xml:"resources"`
	Build struct {
		Items []struct {
			ObjectID  string `xml:"objectid,attr"`
			Transform string `xml:"transform,attr"`
		} `xml:"item"`
	} `xml:"build"`
}

// Read3MFRaw opens the package as a zip archive and parses the single
// ".model" part with encoding/xml.
func Read3MFRaw(path string) (*Raw3MF, error) {
	z, err := zip.OpenReader(path)
	if err != nil {
		return nil, err
	}
	defer z.Close()
	var part *zip.File
	n := 0
	for _, f := range z.File {
		if strings.HasSuffix(strings.ToLower(f.Name), ".model") {
			part = f
			n++
		}
	}
	if n != 1 {
		return nil, fmt.Errorf("3mf: %d model parts in the package, want 1", n)
	}
	rc, err := part.Open()
	if err != nil {
		return nil, err
	}
	defer rc.Close()
	var m xmlModel3MF
	if err := xml.NewDecoder(rc).Decode(&m); err != nil {
		return nil, err
	}
	out := &Raw3MF{Part: part.Name, Unit: m.Unit}
	for _, a := range m.Attrs {
		if a.Name.Space == "xmlns" || a.Name.Local == "xmlns" || a.Name.Local == "lang" || a.Name.Local == "requiredextensions" {
			continue
		}
		out.Metadata = append(out.Metadata, "@"+a.Name.Local+"="+a.Value)
	}
	for _, md := range m.Metadata {
		out.Metadata = append(out.Metadata, md.Name+"="+md.Value)
	}
	for _, o := range m.Resources.Objects {
		ro := RawObject3MF{ID: o.ID, Type: o.Type, Meshes: len(o.Mesh)}
		for _, me := range o.Mesh {
			for _, v := range me.Vertices.Vertex {
				ro.Vertices = append(ro.Vertices, [3]string{v.X, v.Y, v.Z})
			}
			for _, t := range me.Triangles.Triangle {
				ro.Triangles = append(ro.Triangles, [3]string{t.V1, t.V2, t.V3})
			}
		}
		out.Objects = append(out.Objects, ro)
	}
	for _, it := range m.Build.Items {
		out.Items = append(out.Items, RawItem3MF{ObjectID: it.ObjectID, Transform: it.Transform})
	}
	return out, nil
}

// ---------------------------------------------------------------------------
// DXF

// DXFLine is one LINE entity.
type DXFLine struct {
	Layer      string
	Start, End [3]float64
}

// DXF is the entity list of a drawing.
type DXF struct {
	Lines []DXFLine // LINE entities in file order
	Other []string  // type names of all non-LINE entities, in file order
}

// ReadDXF reads a DXF file with github.com/yofu/dxf.
func ReadDXF(path string) (*DXF, error) {
	d, err := dxf.FromFile(path)
	if err != nil {
		return nil, err
	}
	out := &DXF{}
	for _, e := range d.Entities() {
		l, ok := e.(*entity.Line)
		if !ok {
			out.Other = append(out.Other, fmt.Sprintf("%T", e))
			continue
		}
		dl := DXFLine{}
		if l.Layer() != nil {
			dl.Layer = l.Layer().Name()
		}
		if len(l.Start) != 3 || len(l.End) != 3 {
			return nil, fmt.Errorf("dxf: LINE with %d/%d coordinates", len(l.Start), len(l.End))
		}
		copy(dl.Start[:], l.Start)
		copy(dl.End[:], l.End)
		out.Lines = append(out.Lines, dl)
	}
	return out, nil
}

// RawDXFLine is a LINE entity as group-code strings.
type RawDXFLine struct {
	Layer      string
	Start, End [3]string // codes 10 20 30 / 11 21 31 ("" when absent)
}

// RawDXF is the ENTITIES section read pair by pair.
type RawDXF struct {
	Lines []RawDXFLine
	Other []string
}

// ReadDXFRaw reads the (code, value) pairs of an ASCII DXF file by hand and
// returns the entities of the ENTITIES section.
func ReadDXFRaw(path string) (*RawDXF, error) {
	f, err := os.Open(path)
	if err != nil {
		return nil, err
	}
	defer f.Close()
	sc := bufio.NewScanner(f)
	sc.Buffer(make([]byte, 1<<16), 1<<22)
	out := &RawDXF{}
	section := ""
	expectSectionName := false
	var cur *RawDXFLine
	flush := func() {
		if cur != nil {
			out.Lines = append(out.Lines, *cur)
			cur = nil
		}
	}
	for {
		if !sc.Scan() {
			break
		}
		codeStr := strings.TrimSpace(sc.Text())
		if !sc.Scan() {
			return nil, fmt.Errorf("dxf: group code %q without a value", codeStr)
		}
		val := strings.TrimSpace(sc.Text())
		code, err := strconv.Atoi(codeStr)
		if err != nil {
			return nil, fmt.Errorf("dxf: bad group code %q", codeStr)
		}
		if expectSectionName {
			expectSectionName = false
			if code == 2 {
				section = val
				continue
			}
		}
		if code == 0 {
			flush()
			switch val {
			case "SECTION":
				expectSectionName = true
			case "ENDSEC":
				section = ""
			case "EOF":
			default:
				if section == "ENTITIES" {
					if val == "LINE" {
						cur = &RawDXFLine{}
					} else {
						out.Other = append(out.Other, val)
					}
				}
			}
			continue
		}
		if cur == nil {
			continue
		}
		switch code {
		case 8:
			cur.Layer = val
		case 10, 20, 30:
			cur.Start[code/10-1] = val
		case 11, 21, 31:
			cur.End[code/10-1] = val
		}
	}
	flush()
	return out, sc.Err()
}

// ---------------------------------------------------------------------------
// SVG

// SVGLine is a <line> element, attribute strings as written.
type SVGLine struct {
	X1, Y1, X2, Y2 string
	Style          string
}

// SVG is the part of an SVG document the checks look at.
type SVG struct {
	Width, Height string
	Lines         []SVGLine // in document order
	Other         []string  // names of all other elements below <svg>, in order
}

// ReadSVG parses an SVG file with encoding/xml (token stream, document order).
func ReadSVG(path string) (*SVG, error) {
	f, err := os.Open(path)
	if err != nil {
		return nil, err
	}
	defer f.Close()
	dec := xml.NewDecoder(bufio.NewReader(f))
	dec.Strict = true
	// the files carry a DOCTYPE; encoding/xml handles it as a Directive token.
	out := &SVG{}
	depth := 0
	sawRoot := false
	for {
		tok, err := dec.Token()
		if err == io.EOF {
			break
		}
		if err != nil {
			return nil, err
		}
		switch el := tok.(type) {
		case xml.StartElement:
			depth++
			if depth == 1 {
				if el.Name.Local != "svg" {
					return nil, fmt.Errorf("svg: root element is <%s>", el.Name.Local)
				}
				sawRoot = true
				for _, a := range el.Attr {
					switch a.Name.Local {
					case "width":
						out.Width = a.Value
					case "height":
						out.Height = a.Value
					}
				}
				continue
			}
			if el.Name.Local == "line" {
				l := SVGLine{}
				for _, a := range el.Attr {
					switch a.Name.Local {
					case "x1":
						l.X1 = a.Value
					case "y1":
						l.Y1 = a.Value
					case "x2":
						l.X2 = a.Value
					case "y2":
						l.Y2 = a.Value
					case "style":
						l.Style = a.Value
					}
				}
				out.Lines = append(out.Lines, l)
			} else {
				out.Other = append(out.Other, el.Name.Local)
			}
		case xml.EndElement:
			depth--
		}
	}
	if !sawRoot {
		return nil, fmt.Errorf("svg: no <svg> element")
	}
	if depth != 0 {
		return nil, fmt.Errorf("svg: unbalanced document")
	}
	return out, nil
}
