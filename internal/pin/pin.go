// Package pin starts a child process on a restricted set of CPUs, so that the child's Go runtime sees
// runtime.NumCPU() == len(cpus) (a single-core VM, a one-CPU cpuset / container, `taskset -c N prog`).
// No external tool: the calling thread's affinity mask is narrowed around fork (a child inherits the
// mask of the thread that forks it) and restored afterwards.
package pin

import (
	"fmt"
	"os/exec"
	"runtime"
	"syscall"
	"unsafe"
)

const maskWords = 16 // 1024 CPUs

type mask [maskWords]uint64

func get(m *mask) error {
	_, _, e := syscall.RawSyscall(syscall.SYS_SCHED_GETAFFINITY, 0, unsafe.Sizeof(*m), uintptr(unsafe.Pointer(m)))
	if e != 0 {
		return e
	}
	return nil
}

func set(m *mask) error {
	_, _, e := syscall.RawSyscall(syscall.SYS_SCHED_SETAFFINITY, 0, unsafe.Sizeof(*m), uintptr(unsafe.Pointer(m)))
	if e != 0 {
		return e
	}
	return nil
}

// Allowed returns the CPUs the calling process may run on.
func Allowed() ([]int, error) {
	runtime.LockOSThread()
	defer runtime.UnlockOSThread()
	var m mask
	if err := get(&m); err != nil {
		return nil, err
	}
	var out []int
	for i := 0; i < maskWords*64; i++ {
		if m[i/64]&(1<<(uint(i)%64)) != 0 {
			out = append(out, i)
		}
	}
	return out, nil
}

// Start starts cmd restricted to the first n CPUs of the set the caller may use, beginning at index
// first (wrapping around). It returns the CPUs chosen.
func Start(cmd *exec.Cmd, first, n int) ([]int, error) {
	runtime.LockOSThread()
	defer runtime.UnlockOSThread()
	var old mask
	if err := get(&old); err != nil {
		return nil, fmt.Errorf("sched_getaffinity: %v", err)
	}
	var all []int
	for i := 0; i < maskWords*64; i++ {
		if old[i/64]&(1<<(uint(i)%64)) != 0 {
			all = append(all, i)
		}
	}
	if n < 1 || n > len(all) {
		return nil, fmt.Errorf("cannot pin to %d of %d CPUs", n, len(all))
	}
	var m mask
	var chosen []int
	for k := 0; k < n; k++ {
		c := all[(first+k)%len(all)]
		m[c/64] |= 1 << (uint(c) % 64)
		chosen = append(chosen, c)
	}
	if err := set(&m); err != nil {
		return nil, fmt.Errorf("sched_setaffinity: %v", err)
	}
	err := cmd.Start()
	if rerr := set(&old); rerr != nil && err == nil {
		err = fmt.Errorf("restoring the affinity mask: %v", rerr)
	}
	return chosen, err
}
