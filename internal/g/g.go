// Package g holds small rapid generators shared by the property checks.
package g

import (
	"math"

	"pgregory.net/rapid"
)

// F is a (nearly) uniform float generator on [lo,hi]. rapid.Float64Range is
// strongly biased towards small magnitudes when the range spans several
// binades (measured: 71% of Float64Range(0,1) below 0.1); inside the single
// binade [1,2) it is uniform apart from extra mass on the end points, which
// is mapped affinely onto [lo,hi] here. Shrinks towards lo.
func F(lo, hi float64) *rapid.Generator[float64] {
	return rapid.Map(rapid.Float64Range(1, math.Nextafter(2, 1)), func(x float64) float64 {
		v := lo + (x-1)*(hi-lo)
		if v > hi {
			v = hi
		}
		return v
	})
}

var cad = []float64{0.25, 0.5, 1, 1.5, 2, 2.5, 3, 4, 5, 8, 10, 12.5, 16, 20, 25.4, 50, 100}

// Length draws a positive length: CAD-ish round numbers or log-uniform in [lo,hi].
func Length(t *rapid.T, label string, lo, hi float64) float64 {
	if rapid.IntRange(0, 3).Draw(t, label+".k") == 0 {
		var ok []float64
		for _, c := range cad {
			if c >= lo && c <= hi {
				ok = append(ok, c)
			}
		}
		if len(ok) > 0 {
			return rapid.SampledFrom(ok).Draw(t, label+".cad")
		}
	}
	return LogUniform(t, label, lo, hi)
}

// LogUniform draws log-uniformly from [lo,hi] (both > 0).
func LogUniform(t *rapid.T, label string, lo, hi float64) float64 {
	u := F(math.Log(lo), math.Log(hi)).Draw(t, label)
	x := math.Exp(u)
	if x < lo {
		x = lo
	}
	if x > hi {
		x = hi
	}
	return x
}

// Coord draws a coordinate: grid values (exact ties) or generic in [-r,r].
func Coord(t *rapid.T, label string, r float64) float64 {
	switch rapid.IntRange(0, 3).Draw(t, label+".k") {
	case 0:
		// coarse grid -> exact ties between independently drawn values
		n := rapid.IntRange(-8, 8).Draw(t, label+".g")
		return float64(n) * r / 8
	default:
		x := F(-r, r).Draw(t, label)
		// magnitudes below 1e-9 of the scale are outside the CAD domain (they only
		// appear when rapid shrinks towards zero): snap them to exactly zero
		if math.Abs(x) < 1e-9*r {
			return 0
		}
		return x
	}
}

// Angle draws an angle in [-pi,pi], with multiples of pi/4 made likely.
func Angle(t *rapid.T, label string) float64 {
	if rapid.IntRange(0, 3).Draw(t, label+".k") == 0 {
		return float64(rapid.IntRange(-4, 4).Draw(t, label+".q")) * math.Pi / 4
	}
	return F(-math.Pi, math.Pi).Draw(t, label)
}

// Ulp returns x moved by n units in the last place.
func Ulp(x float64, n int) float64 {
	for ; n > 0; n-- {
		x = math.Nextafter(x, math.Inf(1))
	}
	for ; n < 0; n++ {
		x = math.Nextafter(x, math.Inf(-1))
	}
	return x
}

// OneIn reports true in about one of n cases. rapid's integer generators favour small values and the
// ends of a range (IntRange(0, n-1) == 0 is far more likely than 1/n); the draw is hashed first. Shrinks
// towards false (the hash of 0 is not a multiple of n for the n used here - checked at run time).
func OneIn(t *rapid.T, label string, n uint64) bool {
	z := rapid.Uint64().Draw(t, label) + 0x9e3779b97f4a7c15
	z = (z ^ (z >> 30)) * 0xbf58476d1ce4e5b9
	z = (z ^ (z >> 27)) * 0x94d049bb133111eb
	z ^= z >> 31
	return z%n == 0
}
