// Package ev is the evidence recorder shared by all property checks.
//
// Every check process owns one Rec (ev.Get()). Properties call Case() once per
// generated case, Sample() for a few full cases, Known()/Violation() when an
// oracle disagrees. TestMain calls ev.Main(m), which flushes the partial
// evidence of this process to $VERIF_EVOUT (a JSON file); the driver merges
// the partials of all shards into /verif/evidence/<ID>.json.
package ev

import (
	"encoding/json"
	"fmt"
	"hash/fnv"
	"os"
	"path/filepath"
	"sort"
	"strconv"
	"strings"
	"sync"
	"testing"
)

// TB is the subset of testing.TB / *rapid.T used here.
type TB interface {
	Fatalf(format string, args ...any)
	Logf(format string, args ...any)
	Helper()
}

const maxHashes = 60000 // per process; the count is a lower bound beyond this
const maxSamples = 6

// Rec accumulates evidence for one process.
type Rec struct {
	mu          sync.Mutex
	evaluations int64
	nontrivial  int64
	hashes      map[uint64]struct{}
	hashesFull  bool
	labels      map[string]int64
	counters    map[string]int64
	samples     []any
	sampleSeen  map[string]int
	knownHits   map[string]int64
	knownWhat   map[string]string
	violations  int64
	known       map[string]Finding
}

// Finding is one entry of /verif/known_findings.json.
type Finding struct {
	Property string `json:"property"`
	Key      string `json:"key"`
	What     string `json:"what"`
}

var (
	global *Rec
	once   sync.Once
)

// Root returns the /verif directory (env VERIF_ROOT or found upwards from cwd).
func Root() string {
	if r := os.Getenv("VERIF_ROOT"); r != "" {
		return r
	}
	d, _ := os.Getwd()
	for d != "/" && d != "." {
		if _, err := os.Stat(filepath.Join(d, "known_findings.json")); err == nil {
			return d
		}
		d = filepath.Dir(d)
	}
	return "/verif"
}

// Get returns the process-wide recorder.
func Get() *Rec {
	once.Do(func() {
		r := &Rec{
			hashes:     map[uint64]struct{}{},
			labels:     map[string]int64{},
			counters:   map[string]int64{},
			sampleSeen: map[string]int{},
			knownHits:  map[string]int64{},
			knownWhat:  map[string]string{},
			known:      map[string]Finding{},
		}
		var kf struct {
			Findings []Finding `json:"findings"`
		}
		if b, err := os.ReadFile(filepath.Join(Root(), "known_findings.json")); err == nil {
			if err := json.Unmarshal(b, &kf); err == nil {
				for _, f := range kf.Findings {
					r.known[f.Property+"|"+f.Key] = f
				}
			}
		}
		global = r
	})
	return global
}

// Property is the id of the property this process checks ($VERIF_PROP).
func Property() string {
	if p := os.Getenv("VERIF_PROP"); p != "" {
		return p
	}
	return "C00"
}

// Thorough reports whether the thorough tier is running.
func Thorough() bool { return os.Getenv("VERIF_TIER") == "thorough" }

// Pick returns q in the quick tier and t in the thorough tier.
func Pick(q, t int) int {
	if Thorough() {
		return t
	}
	return q
}

// Seed is the (remapped, non-zero) seed of this shard for non-rapid tests.
func Seed() uint64 {
	s, _ := strconv.ParseUint(os.Getenv("VERIF_SHARD_SEED"), 10, 64)
	if s == 0 {
		s = 1
	}
	return s
}

// Shard returns (index, count) of this process among the shards of one test.
func Shard() (int, int) {
	i, _ := strconv.Atoi(os.Getenv("VERIF_SHARD"))
	n, _ := strconv.Atoi(os.Getenv("VERIF_NSHARDS"))
	if n <= 0 {
		n = 1
	}
	return i, n
}

// ReplayPath is the JSON case to replay, if any.
func ReplayPath() string { return os.Getenv("VERIF_REPLAY") }

func hash(s string) uint64 {
	h := fnv.New64a()
	h.Write([]byte(s))
	return h.Sum64()
}

// Case records one generated case. key identifies the case for the purpose of
// distinctness (only hashed when nontrivial); labels feed the histogram.
func (r *Rec) Case(nontrivial bool, key string, labels ...string) {
	r.mu.Lock()
	defer r.mu.Unlock()
	r.evaluations++
	for _, l := range labels {
		r.labels[l]++
	}
	if nontrivial {
		r.nontrivial++
		if len(r.hashes) < maxHashes {
			r.hashes[hash(key)] = struct{}{}
		} else {
			r.hashesFull = true
		}
	}
}

// Label bumps a histogram bucket without counting a case.
func (r *Rec) Label(l string) { r.Add(l, 1) }

// Add adds n to histogram bucket l.
func (r *Rec) Add(l string, n int64) {
	r.mu.Lock()
	r.labels[l] += n
	r.mu.Unlock()
}

// Count adds n to a named counter (reported under coverage.counters).
func (r *Rec) Count(name string, n int64) {
	r.mu.Lock()
	r.counters[name] += n
	r.mu.Unlock()
}

// Sample keeps up to a few cases per class, written out under coverage.samples.
func (r *Rec) Sample(class string, v any) {
	r.mu.Lock()
	defer r.mu.Unlock()
	if r.sampleSeen[class] >= 2 || len(r.samples) >= maxSamples*4 {
		return
	}
	r.sampleSeen[class]++
	// NaN / Inf are not representable in JSON: fall back to the textual form
	if _, err := json.Marshal(v); err != nil {
		v = fmt.Sprintf("%+v", v)
	}
	r.samples = append(r.samples, map[string]any{"class": class, "case": v})
}

// IsKnown reports whether key is listed for this property in known_findings.json.
func (r *Rec) IsKnown(key string) bool {
	_, ok := r.known[Property()+"|"+key]
	return ok
}

// Violation reports an oracle disagreement with signature key. If the key is a
// listed known finding it is counted (the driver prints KNOWN-FINDING) and
// Violation returns; otherwise the test fails with the key in its message.
func (r *Rec) Violation(t TB, key string, format string, args ...any) {
	t.Helper()
	msg := fmt.Sprintf(format, args...)
	if f, ok := r.known[Property()+"|"+key]; ok {
		r.mu.Lock()
		r.knownHits[key]++
		if _, seen := r.knownWhat[key]; !seen {
			r.knownWhat[key] = f.What + " :: e.g. " + msg
		}
		r.mu.Unlock()
		return
	}
	r.mu.Lock()
	r.violations++
	r.mu.Unlock()
	t.Fatalf("VIOLATION-KEY[%s] %s", key, msg)
}

// FailCase writes a JSON replay file for a non-rapid failing case and fails
// the test. test is the Go test name that can replay the case.
func (r *Rec) FailCase(t TB, test, key string, c any, format string, args ...any) {
	t.Helper()
	msg := fmt.Sprintf(format, args...)
	if f, ok := r.known[Property()+"|"+key]; ok {
		r.mu.Lock()
		r.knownHits[key]++
		if _, seen := r.knownWhat[key]; !seen {
			r.knownWhat[key] = f.What + " :: e.g. " + msg
		}
		r.mu.Unlock()
		return
	}
	r.mu.Lock()
	r.violations++
	r.mu.Unlock()
	path := WriteReplay(test, key, c, msg)
	t.Fatalf("VIOLATION-KEY[%s] %s\nREPLAY-FILE: %s", key, msg, path)
}

// WriteReplay stores a JSON case under replays/<ID>/ and returns its path.
func WriteReplay(test, key string, c any, msg string) string {
	dir := filepath.Join(Root(), "replays", Property())
	os.MkdirAll(dir, 0o755)
	b, _ := json.MarshalIndent(map[string]any{"property": Property(), "test": test, "key": key, "message": msg, "case": c}, "", " ")
	name := fmt.Sprintf("%s-%016x.json", test, hash(string(b)))
	path := filepath.Join(dir, name)
	os.WriteFile(path, b, 0o644)
	return path
}

// LoadReplay decodes the "case" member of the replay file into v; ok=false
// when no replay was requested or it belongs to another test.
func LoadReplay(test string, v any) bool {
	p := ReplayPath()
	if p == "" {
		return false
	}
	b, err := os.ReadFile(p)
	if err != nil {
		return false
	}
	var w struct {
		Test string          `json:"test"`
		Case json.RawMessage `json:"case"`
	}
	if json.Unmarshal(b, &w) != nil || w.Test != test {
		return false
	}
	return json.Unmarshal(w.Case, v) == nil
}

type partial struct {
	Evaluations int64             `json:"evaluations"`
	Nontrivial  int64             `json:"nontrivial"`
	Hashes      []string          `json:"hashes"`
	HashesFull  bool              `json:"hashes_full"`
	Labels      map[string]int64  `json:"labels"`
	Counters    map[string]int64  `json:"counters"`
	Samples     []any             `json:"samples"`
	KnownHits   map[string]int64  `json:"known_hits"`
	KnownWhat   map[string]string `json:"known_what"`
	Violations  int64             `json:"violations"`
}

// Flush writes the partial evidence of this process to $VERIF_EVOUT.
func (r *Rec) Flush() {
	out := os.Getenv("VERIF_EVOUT")
	if out == "" {
		return
	}
	r.mu.Lock()
	defer r.mu.Unlock()
	p := partial{Evaluations: r.evaluations, Nontrivial: r.nontrivial, HashesFull: r.hashesFull,
		Labels: r.labels, Counters: r.counters, Samples: r.samples, KnownHits: r.knownHits, KnownWhat: r.knownWhat, Violations: r.violations}
	for h := range r.hashes {
		p.Hashes = append(p.Hashes, strconv.FormatUint(h, 36))
	}
	sort.Strings(p.Hashes)
	b, err := json.Marshal(p)
	if err != nil {
		p.Samples = []any{fmt.Sprintf("samples dropped: %v", err)}
		b, _ = json.Marshal(p)
	}
	os.WriteFile(out, b, 0o644)
}

// Main runs the tests of a package and flushes evidence; use from TestMain.
func Main(m *testing.M) {
	Get()
	code := m.Run()
	Get().Flush()
	os.Exit(code)
}

// F formats a float compactly for keys/samples.
func F(x float64) string { return strconv.FormatFloat(x, 'g', -1, 64) }

// Key joins parts into a case key.
func Key(parts ...any) string {
	var sb strings.Builder
	for i, p := range parts {
		if i > 0 {
			sb.WriteByte('|')
		}
		fmt.Fprint(&sb, p)
	}
	return sb.String()
}
