// Package detsig computes the output signature of one (program, renderer, cells, sinks) job: one line per
// sink with a hash of the triangle / segment sequence, of the file bytes, or of the decoded 3MF content.
// cmd/detchild prints it in a fresh process; the C09 check computes it in its own (history-laden)
// process as well and compares the two.
package detsig

import (
	"crypto/sha256"
	"encoding/json"
	"fmt"
	"math"
	"os"
	"path/filepath"
	"strings"
	"sync"

	"github.com/deadsy/sdfx/render"
	"github.com/deadsy/sdfx/render/dc"
	"github.com/deadsy/sdfx/sdf"

	"verif/internal/fmtread"
	"verif/internal/shape"
)

// Case is the job description.
type Case struct {
	Program  *shape.Node `json:"program"`
	Renderer string      `json:"renderer"` // mcu mco dcv1 dcv2 | msu msq dc2
	Cells    int         `json:"cells"`
	Sinks    []string    `json:"sinks"` // triangles stl 3mf | lines dxf svg
}

func render3(name string, cells int) render.Render3 {
	if name == "mco" {
		return render.NewMarchingCubesOctree(cells)
	}
	return render.NewMarchingCubesUniform(cells)
}

func render2(name string, cells int) render.Render2 {
	switch name {
	case "msq":
		return render.NewMarchingSquaresQuadtree(cells)
	case "dc2":
		return render.NewDualContouring2D(cells)
	}
	return render.NewMarchingSquaresUniform(cells)
}

func dcTriangles(s sdf.SDF3, name string, cells int) []*sdf.Triangle3 {
	var out []*sdf.Triangle3
	var wg sync.WaitGroup
	wg.Add(1)
	if name == "dcv1" {
		ch := make(chan *sdf.Triangle3)
		go func() {
			defer wg.Done()
			for t := range ch {
				out = append(out, t)
			}
		}()
		dc.NewDualContouringV1(-1, 0, true).Render(s, cells, ch)
		close(ch)
	} else {
		ch := make(chan []*sdf.Triangle3)
		go func() {
			defer wg.Done()
			for ts := range ch {
				out = append(out, ts...)
			}
		}()
		dc.NewDualContouringDefault(cells).Render(s, ch)
		close(ch)
	}
	wg.Wait()
	return out
}

func fileHash(path string) string {
	b, err := os.ReadFile(path)
	if err != nil {
		return "error:" + err.Error()
	}
	return fmt.Sprintf("%x", sha256.Sum256(b))
}

// Lines builds the model and renders it to every sink; files go to dir. A constructor that rejects the
// parameters yields the single line "domain: ...".
func Lines(c Case, dir string) []string {
	var out []string
	printf := func(f string, a ...any) { out = append(out, strings.TrimRight(fmt.Sprintf(f, a...), "\n")) }
	built, err := shape.Build(c.Program)
	if err != nil {
		printf("domain: %v", err)
		return out
	}
	for _, sink := range c.Sinks {
		switch sink {
		case "triangles":
			var ts []*sdf.Triangle3
			if strings.HasPrefix(c.Renderer, "dcv") {
				ts = dcTriangles(built.SDF3(), c.Renderer, c.Cells)
			} else {
				ts = render.ToTriangles(built.SDF3(), render3(c.Renderer, c.Cells))
			}
			h := sha256.New()
			for _, t := range ts {
				for _, v := range t {
					fmt.Fprintf(h, "%x %x %x\n", math.Float64bits(v.X), math.Float64bits(v.Y), math.Float64bits(v.Z))
				}
			}
			printf("out triangles %d %x\n", len(ts), h.Sum(nil))
		case "stl":
			p := filepath.Join(dir, "o.stl")
			render.ToSTL(built.SDF3(), p, render3(c.Renderer, c.Cells))
			printf("out stl %s\n", fileHash(p))
		case "3mf":
			p := filepath.Join(dir, "o.3mf")
			render.To3MF(built.SDF3(), p, render3(c.Renderer, c.Cells))
			m, err := fmtread.Read3MFRaw(p)
			if err != nil {
				printf("out 3mf error:%v\n", err)
				continue
			}
			j, _ := json.Marshal(m)
			printf("out 3mf %x\n", sha256.Sum256(j))
		case "lines":
			ch := make(chan []*sdf.Line2)
			h := sha256.New()
			n := 0
			var wg sync.WaitGroup
			wg.Add(1)
			go func() {
				defer wg.Done()
				for ls := range ch {
					for _, l := range ls {
						n++
						fmt.Fprintf(h, "%x %x %x %x\n", math.Float64bits(l[0].X), math.Float64bits(l[0].Y), math.Float64bits(l[1].X), math.Float64bits(l[1].Y))
					}
				}
			}()
			render2(c.Renderer, c.Cells).Render(built.SDF2(), sdf.NewLine2Buffer(ch))
			close(ch)
			wg.Wait()
			printf("out lines %d %x\n", n, h.Sum(nil))
		case "dxf":
			p := filepath.Join(dir, "o.dxf")
			render.ToDXF(built.SDF2(), p, render2(c.Renderer, c.Cells))
			printf("out dxf %s\n", fileHash(p))
		case "svg":
			p := filepath.Join(dir, "o.svg")
			render.ToSVG(built.SDF2(), p, render2(c.Renderer, c.Cells))
			printf("out svg %s\n", fileHash(p))
		}
	}
	return out
}
