// Package shape holds generated "shape programs": an AST over the sdfx
// constructors (Node), a builder that turns it into sdfx objects through the
// public API (Build2/Build3) and an independent reference interpreter (Ref)
// that only calls Evaluate on the sdfx LEAF primitives and implements every
// combinator itself from the operation's definition.
package shape

import (
	"fmt"
	"strings"
)

// Node is one operation of a shape program.
type Node struct {
	Op string       `json:"op"`
	P  []float64    `json:"p,omitempty"` // numeric parameters
	I  []int        `json:"i,omitempty"` // integer parameters
	S  string       `json:"s,omitempty"` // string parameter (blend name)
	V  [][2]float64 `json:"v,omitempty"` // polygon vertices
	K  []*Node      `json:"k,omitempty"` // operands
}

// Dim returns 2 or 3: the dimension of the shape the node produces.
func (n *Node) Dim() int {
	if d, ok := dims[n.Op]; ok {
		return d
	}
	panic("shape: unknown op " + n.Op)
}

var dims = map[string]int{
	// 3D leaves
	"sphere": 3, "box3": 3, "cyl": 3, "capsule": 3, "cone": 3,
	// 3D combinators
	"union3": 3, "diff3": 3, "isect3": 3, "cut3": 3, "xform3": 3, "rtv3": 3, "scale3": 3, "nuscale3": 3,
	"offset3": 3, "shell3": 3, "elong3": 3, "array3": 3, "rotcopy3": 3, "rotunion3": 3,
	"extrude": 3, "twist": 3, "scaleext": 3, "scaletwist": 3, "extround": 3, "loft": 3,
	"revolve": 3, "revolvetheta": 3, "screw": 3, "multi3": 3, "lineof3": 3, "orient3": 3,
	// 2D leaves
	"circle": 2, "box2": 2, "line2": 2, "poly": 2,
	// 2D special leaves (profiles)
	"flatflankcam": 2, "threearccam": 2, "flange1": 2, "gearrack": 2, "arcspiral": 2,
	"isothread": 2, "acmethread": 2, "ansibuttress": 2, "plasticbuttress": 2, "text": 2, "bezier": 2,
	// 2D combinators
	"union2": 2, "diff2": 2, "isect2": 2, "cut2": 2, "xform2": 2, "scale2": 2, "nuscale2": 2,
	"offset2": 2, "elong2": 2, "array2": 2, "rotcopy2": 2, "rotunion2": 2, "slice2": 2,
	"cache2": 2, "center2": 2, "centerscale2": 2, "multi2": 2, "lineof2": 2,
}

// IsLeaf reports whether the node has no operands.
func (n *Node) IsLeaf() bool { return len(n.K) == 0 }

// String renders the program compactly (used as case key and in messages).
func (n *Node) String() string {
	var sb strings.Builder
	n.write(&sb)
	return sb.String()
}

func (n *Node) write(sb *strings.Builder) {
	sb.WriteString(n.Op)
	sb.WriteByte('(')
	first := true
	sep := func() {
		if !first {
			sb.WriteByte(' ')
		}
		first = false
	}
	for _, p := range n.P {
		sep()
		fmt.Fprintf(sb, "%g", p)
	}
	for _, i := range n.I {
		sep()
		fmt.Fprintf(sb, "#%d", i)
	}
	if n.S != "" {
		sep()
		fmt.Fprintf(sb, "%q", n.S)
	}
	if len(n.V) > 0 {
		sep()
		fmt.Fprintf(sb, "V%v", n.V)
	}
	for _, k := range n.K {
		sep()
		k.write(sb)
	}
	sb.WriteByte(')')
}

// Ops returns the multiset of operation names in the program.
func (n *Node) Ops() map[string]int {
	m := map[string]int{}
	n.Walk(func(x *Node) { m[x.Op]++ })
	return m
}

// Walk visits every node (pre-order).
func (n *Node) Walk(f func(*Node)) {
	f(n)
	for _, k := range n.K {
		k.Walk(f)
	}
}

// Has reports whether any node of the program has one of the given ops.
func (n *Node) Has(ops ...string) bool {
	found := false
	n.Walk(func(x *Node) {
		for _, o := range ops {
			if x.Op == o {
				found = true
			}
		}
	})
	return found
}

// Size is the number of nodes.
func (n *Node) Size() int {
	c := 0
	n.Walk(func(*Node) { c++ })
	return c
}

// Combinators counts the non-leaf nodes.
func (n *Node) Combinators() int {
	c := 0
	n.Walk(func(x *Node) {
		if !x.IsLeaf() {
			c++
		}
	})
	return c
}
