package shape

import (
	"fmt"
	"math"
	"sync"

	"github.com/deadsy/sdfx/sdf"
	v2 "github.com/deadsy/sdfx/vec/v2"
	"github.com/deadsy/sdfx/vec/v2i"
	v3 "github.com/deadsy/sdfx/vec/v3"
	"github.com/deadsy/sdfx/vec/v3i"
)

// ErrDomain marks a constructor that rejected its arguments (case left the domain).
type ErrDomain struct{ Msg string }

func (e ErrDomain) Error() string { return e.Msg }

func domain(op string, err error) error {
	return ErrDomain{fmt.Sprintf("%s: %v", op, err)}
}

// Built is a program turned into sdfx objects, with every sub-shape kept so
// that the reference interpreter can reach the leaves.
type Built struct {
	Root  *Node
	S2    map[*Node]sdf.SDF2
	S3    map[*Node]sdf.SDF3
	aux   map[*Node]*sliceFrame
	trace *[]TraceEntry
}

// Build constructs the sdfx object of the program through the public API.
func Build(n *Node) (*Built, error) {
	b := &Built{Root: n, S2: map[*Node]sdf.SDF2{}, S3: map[*Node]sdf.SDF3{}, aux: map[*Node]*sliceFrame{}}
	var err error
	if n.Dim() == 3 {
		_, err = b.build3(n)
	} else {
		_, err = b.build2(n)
	}
	if err != nil {
		return nil, err
	}
	return b, nil
}

// EvalNode evaluates the BUILT object of node n at the (mapped) point p.
func (b *Built) EvalNode(n *Node, p [3]float64) float64 {
	if n.Dim() == 3 {
		return b.S3[n].Evaluate(v3.Vec{X: p[0], Y: p[1], Z: p[2]})
	}
	return b.S2[n].Evaluate(v2.Vec{X: p[0], Y: p[1]})
}

// SDF3 returns the root object of a 3D program.
func (b *Built) SDF3() sdf.SDF3 { return b.S3[b.Root] }

// SDF2 returns the root object of a 2D program.
func (b *Built) SDF2() sdf.SDF2 { return b.S2[b.Root] }

// MinBlend returns the sdfx blend function named by s ("" = none).
func MinBlend(s string, k float64) sdf.MinFunc {
	switch s {
	case "PolyMin":
		return sdf.PolyMin(k)
	case "RoundMin":
		return sdf.RoundMin(k)
	case "ChamferMin":
		return sdf.ChamferMin(k)
	case "ExpMin":
		return sdf.ExpMin(k)
	}
	return nil
}

func v3of(p []float64, i int) v3.Vec { return v3.Vec{X: p[i], Y: p[i+1], Z: p[i+2]} }
func v2of(p []float64, i int) v2.Vec { return v2.Vec{X: p[i], Y: p[i+1]} }

var (
	fontOnce sync.Once
	fontErr  error
)

func (b *Built) build3(n *Node) (s sdf.SDF3, err error) {
	defer func() {
		if err == nil {
			if s == nil {
				err = ErrDomain{n.Op + ": constructor returned nil"}
				return
			}
			b.S3[n] = s
		}
	}()
	kid3 := func(i int) (sdf.SDF3, error) { return b.build3(n.K[i]) }
	kid2 := func(i int) (sdf.SDF2, error) { return b.build2(n.K[i]) }
	P := n.P
	switch n.Op {
	case "sphere":
		s, err = sdf.Sphere3D(P[0])
	case "box3":
		s, err = sdf.Box3D(v3of(P, 0), P[3])
	case "cyl":
		s, err = sdf.Cylinder3D(P[0], P[1], P[2])
	case "capsule":
		s, err = sdf.Capsule3D(P[0], P[1])
	case "cone":
		s, err = sdf.Cone3D(P[0], P[1], P[2], P[3])
	case "union3":
		// the operand list is passed the way callers build it: an existing slice, possibly holding nil
		// entries (documented as stripped); it is scribbled over afterwards - the shape must not depend
		// on the caller's slice once the constructor has returned
		ks := make([]sdf.SDF3, 0, len(n.K)+2)
		for i := range n.K {
			k, e := kid3(i)
			if e != nil {
				return nil, e
			}
			if i == 1 {
				ks = append(ks, nil)
			}
			ks = append(ks, k)
		}
		ks = append(ks, nil)
		s = sdf.Union3D(ks...)
		for i := range ks {
			ks[i] = scribble3{}
		}
		if n.S != "" {
			s.(*sdf.UnionSDF3).SetMin(MinBlend(n.S, P[0]))
		}
	case "diff3", "isect3":
		a, e := kid3(0)
		if e != nil {
			return nil, e
		}
		c, e := kid3(1)
		if e != nil {
			return nil, e
		}
		if n.Op == "diff3" {
			s = sdf.Difference3D(a, c)
			if n.S == "PolyMax" {
				s.(*sdf.DifferenceSDF3).SetMax(sdf.PolyMax(P[0]))
			}
		} else {
			s = sdf.Intersect3D(a, c)
			if n.S == "PolyMax" {
				s.(*sdf.IntersectionSDF3).SetMax(sdf.PolyMax(P[0]))
			}
		}
	case "cut3":
		a, e := kid3(0)
		if e != nil {
			return nil, e
		}
		s = sdf.Cut3D(a, v3of(P, 0), v3of(P, 3))
	case "xform3":
		// P: axis(3) angle translation(3); I[0]: mirror 0 none, 1 XY, 2 XZ, 3 YZ; I[1]: rotation ctor 0 Rotate3d 1 RotateX 2 RotateY 3 RotateZ
		a, e := kid3(0)
		if e != nil {
			return nil, e
		}
		s = sdf.Transform3D(a, Matrix3(n))
	case "rtv3":
		a, e := kid3(0)
		if e != nil {
			return nil, e
		}
		m := sdf.Translate3d(v3of(P, 6)).Mul(sdf.RotateToVector(v3of(P, 0), v3of(P, 3)))
		s = sdf.Transform3D(a, m)
	case "scale3":
		a, e := kid3(0)
		if e != nil {
			return nil, e
		}
		s = sdf.ScaleUniform3D(a, P[0])
	case "nuscale3":
		a, e := kid3(0)
		if e != nil {
			return nil, e
		}
		s = sdf.Transform3D(a, sdf.Scale3d(v3of(P, 0)))
	case "offset3":
		a, e := kid3(0)
		if e != nil {
			return nil, e
		}
		s = sdf.Offset3D(a, P[0])
	case "shell3":
		a, e := kid3(0)
		if e != nil {
			return nil, e
		}
		s, err = sdf.Shell3D(a, P[0])
	case "elong3":
		a, e := kid3(0)
		if e != nil {
			return nil, e
		}
		s = sdf.Elongate3D(a, v3of(P, 0))
	case "array3":
		a, e := kid3(0)
		if e != nil {
			return nil, e
		}
		s = sdf.Array3D(a, v3i.Vec{X: n.I[0], Y: n.I[1], Z: n.I[2]}, v3of(P, 0))
		if n.S != "" && len(P) > 3 {
			s.(*sdf.ArraySDF3).SetMin(MinBlend(n.S, P[3]))
		}
	case "rotcopy3":
		a, e := kid3(0)
		if e != nil {
			return nil, e
		}
		s = sdf.RotateCopy3D(a, n.I[0])
	case "rotunion3":
		a, e := kid3(0)
		if e != nil {
			return nil, e
		}
		s = sdf.RotateUnion3D(a, n.I[0], sdf.RotateZ(P[0]))
		if n.S != "" && len(P) > 1 {
			s.(*sdf.RotateUnionSDF3).SetMin(MinBlend(n.S, P[1]))
		}
	case "extrude":
		a, e := kid2(0)
		if e != nil {
			return nil, e
		}
		s = sdf.Extrude3D(a, P[0])
	case "twist":
		a, e := kid2(0)
		if e != nil {
			return nil, e
		}
		s = sdf.TwistExtrude3D(a, P[0], P[1])
	case "scaleext":
		a, e := kid2(0)
		if e != nil {
			return nil, e
		}
		s = sdf.ScaleExtrude3D(a, P[0], v2of(P, 1))
	case "scaletwist":
		a, e := kid2(0)
		if e != nil {
			return nil, e
		}
		s = sdf.ScaleTwistExtrude3D(a, P[0], P[1], v2of(P, 2))
	case "extround":
		a, e := kid2(0)
		if e != nil {
			return nil, e
		}
		s, err = sdf.ExtrudeRounded3D(a, P[0], P[1])
	case "loft":
		a, e := kid2(0)
		if e != nil {
			return nil, e
		}
		c, e := kid2(1)
		if e != nil {
			return nil, e
		}
		s, err = sdf.Loft3D(a, c, P[0], P[1])
	case "revolve":
		a, e := kid2(0)
		if e != nil {
			return nil, e
		}
		s, err = sdf.Revolve3D(a)
	case "revolvetheta":
		a, e := kid2(0)
		if e != nil {
			return nil, e
		}
		s, err = sdf.RevolveTheta3D(a, P[0])
	case "multi3":
		a, e := kid3(0)
		if e != nil {
			return nil, e
		}
		var ps v3.VecSet
		for i := 0; i+2 < len(P); i += 3 {
			ps = append(ps, v3of(P, i))
		}
		s = sdf.Multi3D(a, ps)
		for i := range ps {
			ps[i] = v3.Vec{X: math.NaN(), Y: 1e30, Z: -1e30}
		}
	case "lineof3":
		a, e := kid3(0)
		if e != nil {
			return nil, e
		}
		s = sdf.LineOf3D(a, v3of(P, 0), v3of(P, 3), n.S)
	case "orient3":
		a, e := kid3(0)
		if e != nil {
			return nil, e
		}
		var ds v3.VecSet
		for i := 3; i+2 < len(P); i += 3 {
			ds = append(ds, v3of(P, i))
		}
		s = sdf.Orient3D(a, v3of(P, 0), ds)
		for i := range ds {
			ds[i] = v3.Vec{X: math.NaN(), Y: 1e30, Z: -1e30}
		}
	case "screw":
		a, e := kid2(0)
		if e != nil {
			return nil, e
		}
		s, err = sdf.Screw3D(a, P[0], P[1], P[2], n.I[0])
	default:
		panic("build3: unknown op " + n.Op)
	}
	if err != nil {
		return nil, domain(n.Op, err)
	}
	return s, nil
}

// Matrix3 is the sdfx matrix of an xform3 node: Translate * Rotate * Mirror.
func Matrix3(n *Node) sdf.M44 {
	P := n.P
	var r sdf.M44
	switch n.I[1] {
	case 1:
		r = sdf.RotateX(P[3])
	case 2:
		r = sdf.RotateY(P[3])
	case 3:
		r = sdf.RotateZ(P[3])
	default:
		r = sdf.Rotate3d(v3of(P, 0), P[3])
	}
	m := sdf.Translate3d(v3of(P, 4)).Mul(r)
	switch n.I[0] {
	case 1:
		m = m.Mul(sdf.MirrorXY())
	case 2:
		m = m.Mul(sdf.MirrorXZ())
	case 3:
		m = m.Mul(sdf.MirrorYZ())
	case 4:
		m = m.Mul(sdf.MirrorXeqY())
	}
	return m
}

// Matrix2 is the sdfx matrix of an xform2 node: Translate * Rotate * Mirror.
func Matrix2(n *Node) sdf.M33 {
	P := n.P
	m := sdf.Translate2d(v2of(P, 1)).Mul(sdf.Rotate2d(P[0]))
	switch n.I[0] {
	case 1:
		m = m.Mul(sdf.MirrorX())
	case 2:
		m = m.Mul(sdf.MirrorY())
	}
	return m
}

func (b *Built) build2(n *Node) (s sdf.SDF2, err error) {
	defer func() {
		if err == nil {
			if s == nil {
				err = ErrDomain{n.Op + ": constructor returned nil"}
				return
			}
			b.S2[n] = s
		}
	}()
	kid2 := func(i int) (sdf.SDF2, error) { return b.build2(n.K[i]) }
	P := n.P
	switch n.Op {
	case "circle":
		s, err = sdf.Circle2D(P[0])
	case "box2":
		s = sdf.Box2D(v2of(P, 0), P[2])
	case "line2":
		s = sdf.Line2D(P[0], P[1])
	case "poly":
		vs := make([]v2.Vec, len(n.V))
		for i, v := range n.V {
			vs[i] = v2.Vec{X: v[0], Y: v[1]}
		}
		s, err = sdf.Polygon2D(vs)
		for i := range vs {
			vs[i] = v2.Vec{X: math.NaN(), Y: 1e30}
		}
	case "flatflankcam":
		s, err = sdf.FlatFlankCam2D(P[0], P[1], P[2])
	case "threearccam":
		s, err = sdf.ThreeArcCam2D(P[0], P[1], P[2], P[3])
	case "flange1":
		s = sdf.NewFlange1(P[0], P[1], P[2])
	case "gearrack":
		s, err = sdf.GearRack2D(&sdf.GearRackParms{NumberTeeth: n.I[0], Module: P[0], PressureAngle: P[1], Backlash: P[2], BaseHeight: P[3]})
	case "arcspiral":
		s, err = sdf.ArcSpiral2D(P[0], P[1], P[2], P[3], P[4])
	case "isothread":
		s, err = sdf.ISOThread(P[0], P[1], n.I[0] == 1)
	case "acmethread":
		s, err = sdf.AcmeThread(P[0], P[1])
	case "ansibuttress":
		s, err = sdf.ANSIButtressThread(P[0], P[1])
	case "plasticbuttress":
		s, err = sdf.PlasticButtressThread(P[0], P[1])
	case "bezier":
		// V alternates on-curve points and quadratic mid (control) points of a closed curve
		bz := sdf.NewBezier()
		for i, v := range n.V {
			bv := bz.Add(v[0], v[1])
			if i%2 == 1 {
				bv.Mid()
			}
		}
		bz.Close()
		s, err = bz.Mesh2D()
	case "text":
		f, e := sdf.LoadFont("/repo/files/cmr10.ttf")
		if e != nil {
			return nil, domain(n.Op, e)
		}
		s, err = sdf.Text2D(f, sdf.NewText(n.S), P[0])
	case "union2":
		ks := make([]sdf.SDF2, 0, len(n.K)+2)
		for i := range n.K {
			k, e := kid2(i)
			if e != nil {
				return nil, e
			}
			if i == 1 {
				ks = append(ks, nil)
			}
			ks = append(ks, k)
		}
		ks = append(ks, nil)
		s = sdf.Union2D(ks...)
		for i := range ks {
			ks[i] = scribble2{}
		}
		if n.S != "" {
			s.(*sdf.UnionSDF2).SetMin(MinBlend(n.S, P[0]))
		}
	case "diff2", "isect2":
		a, e := kid2(0)
		if e != nil {
			return nil, e
		}
		c, e := kid2(1)
		if e != nil {
			return nil, e
		}
		if n.Op == "diff2" {
			s = sdf.Difference2D(a, c)
			if n.S == "PolyMax" {
				s.(*sdf.DifferenceSDF2).SetMax(sdf.PolyMax(P[0]))
			}
		} else {
			s = sdf.Intersect2D(a, c)
			if n.S == "PolyMax" {
				s.(*sdf.IntersectionSDF2).SetMax(sdf.PolyMax(P[0]))
			}
		}
	case "cut2":
		a, e := kid2(0)
		if e != nil {
			return nil, e
		}
		s = sdf.Cut2D(a, v2of(P, 0), v2of(P, 2))
	case "xform2":
		a, e := kid2(0)
		if e != nil {
			return nil, e
		}
		s = sdf.Transform2D(a, Matrix2(n))
	case "scale2":
		a, e := kid2(0)
		if e != nil {
			return nil, e
		}
		s = sdf.ScaleUniform2D(a, P[0])
	case "nuscale2":
		a, e := kid2(0)
		if e != nil {
			return nil, e
		}
		s = sdf.Transform2D(a, sdf.Scale2d(v2of(P, 0)))
	case "offset2":
		a, e := kid2(0)
		if e != nil {
			return nil, e
		}
		s = sdf.Offset2D(a, P[0])
	case "elong2":
		a, e := kid2(0)
		if e != nil {
			return nil, e
		}
		s = sdf.Elongate2D(a, v2of(P, 0))
	case "array2":
		a, e := kid2(0)
		if e != nil {
			return nil, e
		}
		s = sdf.Array2D(a, v2i.Vec{X: n.I[0], Y: n.I[1]}, v2of(P, 0))
		if n.S != "" && len(P) > 2 {
			s.(*sdf.ArraySDF2).SetMin(MinBlend(n.S, P[2]))
		}
	case "rotcopy2":
		a, e := kid2(0)
		if e != nil {
			return nil, e
		}
		s = sdf.RotateCopy2D(a, n.I[0])
	case "rotunion2":
		a, e := kid2(0)
		if e != nil {
			return nil, e
		}
		s = sdf.RotateUnion2D(a, n.I[0], sdf.Rotate2d(P[0]))
		if n.S != "" && len(P) > 1 {
			s.(*sdf.RotateUnionSDF2).SetMin(MinBlend(n.S, P[1]))
		}
	case "slice2":
		a, e := b.build3(n.K[0])
		if e != nil {
			return nil, e
		}
		s = sdf.Slice2D(a, v3of(P, 0), v3of(P, 3))
	case "multi2":
		a, e := kid2(0)
		if e != nil {
			return nil, e
		}
		var ps v2.VecSet
		for i := 0; i+1 < len(P); i += 2 {
			ps = append(ps, v2of(P, i))
		}
		s = sdf.Multi2D(a, ps)
		for i := range ps {
			ps[i] = v2.Vec{X: math.NaN(), Y: 1e30}
		}
	case "lineof2":
		a, e := kid2(0)
		if e != nil {
			return nil, e
		}
		s = sdf.LineOf2D(a, v2of(P, 0), v2of(P, 2), n.S)
	case "cache2":
		a, e := kid2(0)
		if e != nil {
			return nil, e
		}
		s = sdf.Cache2D(a)
	case "center2":
		a, e := kid2(0)
		if e != nil {
			return nil, e
		}
		s = sdf.Center2D(a)
	case "centerscale2":
		a, e := kid2(0)
		if e != nil {
			return nil, e
		}
		s = sdf.CenterAndScale2D(a, P[0])
	default:
		panic("build2: unknown op " + n.Op)
	}
	if err != nil {
		return nil, domain(n.Op, err)
	}
	return s, nil
}

// Finite reports whether all numbers of a box are finite.
func Finite(xs ...float64) bool {
	for _, x := range xs {
		if math.IsNaN(x) || math.IsInf(x, 0) {
			return false
		}
	}
	return true
}

// scribble3 / scribble2 overwrite operand slices after a constructor returned: a shape that kept
// the caller's slice evaluates to garbage (a rapidly oscillating field of huge amplitude - neither
// the operands' values, nor a distance bound, nor 1-Lipschitz - and an infinite box).
type scribble3 struct{}

func (scribble3) Evaluate(p v3.Vec) float64 { return -1e6 + 2e6*math.Sin(1e4*(p.X+2*p.Y+3*p.Z)) }
func (scribble3) BoundingBox() sdf.Box3 {
	return sdf.Box3{Min: v3.Vec{X: -1e30, Y: -1e30, Z: -1e30}, Max: v3.Vec{X: 1e30, Y: 1e30, Z: 1e30}}
}

type scribble2 struct{}

func (scribble2) Evaluate(p v2.Vec) float64 { return -1e6 + 2e6*math.Sin(1e4*(p.X+2*p.Y)) }
func (scribble2) BoundingBox() sdf.Box2 {
	return sdf.Box2{Min: v2.Vec{X: -1e30, Y: -1e30}, Max: v2.Vec{X: 1e30, Y: 1e30}}
}
