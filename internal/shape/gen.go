package shape

import (
	"fmt"
	"math"

	"pgregory.net/rapid"

	"verif/internal/g"
)

// Grammar selects which operators the generator may use.
type Grammar int

const (
	// Full is every constructor the AST knows (C01, C02).
	Full Grammar = iota
	// Lipschitz is the sub-grammar the C03 statement lists as 1-Lipschitz:
	// exact leaves, rigid transforms, uniform scale, union/intersection/difference
	// (plain or polynomial blend), cut, offset, shell, elongate, array,
	// rotate-copy of mirror-symmetric operands, rotate-union, plain/rounded
	// extrusion, (partial) revolution.
	Lipschitz
)

// Opts configures the generator.
type Opts struct {
	S       float64 // length scale
	Depth   int     // maximum operator nesting
	Grammar Grammar
	Special bool // allow the special 2D profile leaves (cams, flange, rack, spiral, threads, text)
	NoPoly  bool // no polygon leaves
	NoBlend bool // no PolyMin/PolyMax blends
	// AllBlends: union blends are drawn among PolyMin, RoundMin, ChamferMin and ExpMin, and arrays / rotate-unions
	// get a blend (SetMin) in a third of the cases. For checks that do not use the reference interpreter.
	AllBlends bool
	Bezier    bool // allow Bezier-outlined leaves (their construction consumes the library-private random source)
	NoText    bool // no text leaves
	// RandLeaf: every 2D leaf is one of those whose construction consumes the library-private random
	// source (Bezier outline, and text unless NoText); needs Special and Grammar Full
	RandLeaf bool
	// SolidUnion2: operands of a 2D union are drawn without difference / intersection / cut, so that no
	// operand can be empty (excludes the known finding Union2D:pruned-value-overestimates by construction)
	SolidUnion2 bool
	// UniformRoot: the root operator is drawn uniformly from the grammar's operator list (rapid's own
	// SampledFrom favours the front of the list and "leaf" entries), so that every constructor is the
	// outermost one - the one whose box and mapping a caller sees directly - equally often
	UniformRoot bool
	solid       bool
	inUnion2    bool // generating an operand of a 2D union (incl. Multi2D/LineOf2D): no blends below it
}

type gen struct {
	t      *rapid.T
	o      Opts
	c      int
	rooted bool
}

// uniformOp picks an operator (not "leaf") with equal probability: the index is taken from the
// high bits of a 64-bit draw, which rapid does not bias towards small values the way it does IntRange.
func (x *gen) uniformOp(label string, ops []string) string {
	var distinct []string
	seen := map[string]bool{"leaf": true}
	for _, o := range ops {
		if !seen[o] {
			seen[o] = true
			distinct = append(distinct, o)
		}
	}
	u := rapid.Uint64().Draw(x.t, x.lbl(label))
	u = (u ^ (u >> 31)) * 0x9e3779b97f4a7c15
	return distinct[(u>>33)%uint64(len(distinct))]
}

func (x *gen) lbl(s string) string { x.c++; return fmt.Sprintf("%s#%d", s, x.c) }
func (x *gen) length(s string, lo, hi float64) float64 {
	return g.Length(x.t, x.lbl(s), lo*x.o.S, hi*x.o.S)
}
func (x *gen) coord(s string, r float64) float64 { return g.Coord(x.t, x.lbl(s), r*x.o.S) }
func (x *gen) unit(s string) float64             { return g.F(0, 1).Draw(x.t, x.lbl(s)) }
func (x *gen) intr(s string, lo, hi int) int     { return rapid.IntRange(lo, hi).Draw(x.t, x.lbl(s)) }
func (x *gen) pick(s string, opts []string) string {
	return rapid.SampledFrom(opts).Draw(x.t, x.lbl(s))
}
func (x *gen) angle(s string) float64 { return g.Angle(x.t, x.lbl(s)) }

// dir3 draws a direction vector whose length is at least 1e-3*S (axis-aligned
// and zero components are likely, which selects the special cases of Slice2D etc.).
func (x *gen) dir3(s string) []float64 {
	v := []float64{x.coord(s+"x", 1), x.coord(s+"y", 1), x.coord(s+"z", 1)}
	if math.Sqrt(v[0]*v[0]+v[1]*v[1]+v[2]*v[2]) < 1e-3*x.o.S {
		v = []float64{0, 0, x.o.S}
	}
	return v
}

// Gen3 draws a 3D shape program.
func Gen3(t *rapid.T, o Opts) *Node { return (&gen{t: t, o: o}).node3(o.Depth) }

// Gen2 draws a 2D shape program.
func Gen2(t *rapid.T, o Opts) *Node { return (&gen{t: t, o: o}).node2(o.Depth) }

// ---------------------------------------------------------------------------
// leaves

func (x *gen) leaf3() *Node {
	switch x.pick("leaf3", []string{"sphere", "box3", "box3", "cyl", "capsule", "cone"}) {
	case "sphere":
		return &Node{Op: "sphere", P: []float64{x.length("r", 0.05, 1)}}
	case "box3":
		a, b, c := x.length("sx", 0.05, 2), x.length("sy", 0.05, 2), x.length("sz", 0.05, 2)
		return &Node{Op: "box3", P: []float64{a, b, c, x.roundUpTo(math.Min(a, math.Min(b, c)) / 2)}}
	case "cyl":
		h, r := x.length("h", 0.05, 2), x.length("r", 0.05, 1)
		return &Node{Op: "cyl", P: []float64{h, r, x.roundUpTo(math.Min(r, h/2))}}
	case "capsule":
		r := x.length("r", 0.05, 1)
		h := 2*r + x.unit("hx")*2*x.o.S
		return &Node{Op: "capsule", P: []float64{h, r}}
	default:
		return x.cone()
	}
}

// roundUpTo draws a rounding radius in [0,max]: 0, the maximum, or in between.
func (x *gen) roundUpTo(max float64) float64 {
	switch x.intr("rk", 0, 4) {
	case 0, 1:
		return 0
	case 2:
		return max
	default:
		return x.unit("rd") * max
	}
}

// ConeMaxRound is the largest rounding for which both inset radii stay >= 0
// and the rounded ends fit the height.
func ConeMaxRound(h, r0, r1 float64) float64 {
	// slope unit vector and outward normal in the (rho,z) half plane
	ux, uy := r1-r0, h
	l := math.Hypot(ux, uy)
	ux, uy = ux/l, uy/l
	nx, ny := uy, -ux
	m := h / 2
	// r0 - (1+ny)*round/nx >= 0 ; r1 - (1-ny)*round/nx >= 0
	if 1+ny > 0 {
		m = math.Min(m, r0*nx/(1+ny))
	}
	if 1-ny > 0 {
		m = math.Min(m, r1*nx/(1-ny))
	}
	return math.Max(0, m)
}

func (x *gen) cone() *Node {
	h := x.length("h", 0.05, 2)
	r0 := x.length("r0", 0.05, 1)
	var r1 float64
	switch x.intr("r1k", 0, 3) {
	case 0:
		r1 = 0
	case 1:
		r1 = r0
	default:
		r1 = x.unit("r1") * 1.5 * r0
	}
	if x.intr("flip", 0, 3) == 0 {
		r0, r1 = r1, r0
	}
	// keep a hair below the exact maximum so rounding in the constructor cannot make an inset radius negative
	rd := x.roundUpTo(ConeMaxRound(h, r0, r1) * 0.999)
	return &Node{Op: "cone", P: []float64{h, r0, r1, rd}}
}

func (x *gen) leaf2() *Node {
	kinds := []string{"circle", "box2", "box2", "line2"}
	if !x.o.NoPoly {
		kinds = append(kinds, "poly")
	}
	if x.o.Special && x.o.Grammar == Full {
		kinds = append(kinds, "special")
	}
	if x.o.RandLeaf && x.o.Special && x.o.Grammar == Full {
		kinds = []string{"special"}
	}
	switch x.pick("leaf2", kinds) {
	case "circle":
		return &Node{Op: "circle", P: []float64{x.length("r", 0.05, 1)}}
	case "box2":
		a, b := x.length("w", 0.05, 2), x.length("h", 0.05, 2)
		return &Node{Op: "box2", P: []float64{a, b, x.roundUpTo(math.Min(a, b) / 2)}}
	case "line2":
		return &Node{Op: "line2", P: []float64{x.length("l", 0.05, 2), x.length("rd", 0.02, 0.5)}}
	case "poly":
		return x.poly()
	default:
		return x.special2()
	}
}

// poly draws a simple polygon by construction: a star-shaped polygon about the
// origin (sorted angles, random radii) or a convex regular-ish polygon.
func (x *gen) poly() *Node {
	n := x.intr("pn", 3, 9)
	vs := make([][2]float64, 0, n)
	r0 := x.length("pr", 0.2, 1)
	star := x.intr("star", 0, 1) == 1
	// strictly increasing angles with a guaranteed minimum gap
	for i := 0; i < n; i++ {
		a := (float64(i) + 0.15 + 0.7*x.unit("pa")) * 2 * math.Pi / float64(n)
		r := r0
		if star {
			r = r0 * (0.35 + 0.65*x.unit("prr"))
		}
		vs = append(vs, [2]float64{r * math.Cos(a), r * math.Sin(a)})
	}
	if x.intr("cw", 0, 1) == 1 {
		for i, j := 0, len(vs)-1; i < j; i, j = i+1, j-1 {
			vs[i], vs[j] = vs[j], vs[i]
		}
	}
	return &Node{Op: "poly", V: vs}
}

func (x *gen) special2() *Node {
	S := x.o.S
	kinds := []string{"flatflankcam", "threearccam", "flange1", "gearrack", "arcspiral", "isothread", "acmethread", "ansibuttress", "plasticbuttress"}
	if !x.o.NoText {
		kinds = append(kinds, "text")
	}
	if x.o.Bezier {
		kinds = append(kinds, "bezier", "bezier")
	}
	if x.o.RandLeaf {
		kinds = []string{"bezier"}
		if !x.o.NoText {
			kinds = append(kinds, "text")
		}
	}
	switch x.pick("special", kinds) {
	case "bezier":
		n := x.intr("bzn", 3, 7)
		r0 := x.length("bzr", 0.3, 1)
		var vs [][2]float64
		for i := 0; i < n; i++ {
			a0 := 2 * math.Pi * float64(i) / float64(n)
			a1 := 2 * math.Pi * (float64(i) + 0.5) / float64(n)
			ra, rb := r0*(0.6+0.4*x.unit("bza")), r0*(0.7+0.6*x.unit("bzb"))
			vs = append(vs, [2]float64{ra * math.Cos(a0), ra * math.Sin(a0)}, [2]float64{rb * math.Cos(a1), rb * math.Sin(a1)})
		}
		return &Node{Op: "bezier", V: vs}
	case "flatflankcam":
		base := x.length("base", 0.2, 1)
		nose := base * (0.1 + 0.85*x.unit("nose"))
		dist := (base - nose) + x.length("dist", 0.05, 1.5) // distance > base-nose so that the tangent exists
		return &Node{Op: "flatflankcam", P: []float64{dist, base, nose}}
	case "threearccam":
		base := x.length("base", 0.2, 1)
		nose := base * (0.1 + 0.85*x.unit("nose"))
		dist := (base - nose) + x.length("dist", 0.05, 1.5)
		min := (base + dist + nose) / 2
		flank := min * (1 + g.LogUniform(x.t, x.lbl("flank"), 1e-3, 20))
		return &Node{Op: "threearccam", P: []float64{dist, base, nose, flank}}
	case "flange1":
		centre := x.length("centre", 0.2, 1)
		side := centre * (0.1 + 0.85*x.unit("side"))
		dist := (centre - side) + x.length("dist", 0.05, 2)
		return &Node{Op: "flange1", P: []float64{dist, centre, side}}
	case "gearrack":
		return &Node{Op: "gearrack", I: []int{x.intr("teeth", 1, 12)},
			P: []float64{x.length("module", 0.05, 0.5), (14.5 + 10.5*x.unit("pa")) * math.Pi / 180, 0, x.length("baseh", 0.05, 0.5)}}
	case "arcspiral":
		a := x.length("a", 0.02, 0.2)
		k := x.unit("k") * S
		start := x.unit("start") * 2 * math.Pi
		end := start + (0.5+4*x.unit("turns"))*2*math.Pi
		if x.intr("inward", 0, 2) == 0 {
			// winding inwards (a < 0): the largest radius is at the START angle; the radius stays >= 0
			k += a * end
			a = -a
		}
		if x.intr("swapped", 0, 3) == 0 {
			start, end = end, start // documented as sorted by the constructor
		}
		return &Node{Op: "arcspiral", P: []float64{a, k, start, end, x.length("d", 0.01, 0.1)}}
	case "isothread":
		pitch := x.length("pitch", 0.05, 0.4)
		return &Node{Op: "isothread", I: []int{x.intr("ext", 0, 1)}, P: []float64{pitch * (2 + 10*x.unit("rr")), pitch}}
	case "acmethread", "ansibuttress", "plasticbuttress":
		pitch := x.length("pitch", 0.05, 0.4)
		op := []string{"acmethread", "ansibuttress", "plasticbuttress"}[x.intr("tk", 0, 2)]
		return &Node{Op: op, P: []float64{pitch * (2 + 10*x.unit("rr")), pitch}}
	default:
		txt := rapid.StringMatching("[A-Za-z0-9]{1,3}").Draw(x.t, x.lbl("txt"))
		return &Node{Op: "text", S: txt, P: []float64{x.length("texth", 0.3, 2)}}
	}
}

// ---------------------------------------------------------------------------
// operators

func (x *gen) rigid3(k *Node) *Node {
	ax := x.dir3("axis")
	mirror := []int{0, 0, 0, 0, 1, 2, 3, 4}[x.intr("mirror", 0, 7)]
	ctor := []int{0, 0, 0, 1, 2, 3}[x.intr("rotctor", 0, 5)]
	return &Node{Op: "xform3", K: []*Node{k}, I: []int{mirror, ctor},
		P: []float64{ax[0], ax[1], ax[2], x.angle("ang"), x.coord("tx", 2), x.coord("ty", 2), x.coord("tz", 2)}}
}

func (x *gen) rigid2(k *Node) *Node {
	return &Node{Op: "xform2", K: []*Node{k}, I: []int{[]int{0, 0, 0, 1, 2}[x.intr("mirror", 0, 4)]},
		P: []float64{x.angle("ang"), x.coord("tx", 2), x.coord("ty", 2)}}
}

func (x *gen) blendMin() (string, []float64) {
	// A blended shape has material (its fillet) outside its own bounding box (known finding
	// C01:blend-fillet-outside-box); as an operand of the box-pruned 2D union that material is dropped.
	// Operands of 2D unions are therefore generated without blends: the class is excluded by construction.
	if !x.o.NoBlend && !x.o.inUnion2 && x.intr("blend", 0, 3) == 0 {
		if x.o.AllBlends {
			return x.anyBlend()
		}
		return "PolyMin", []float64{g.LogUniform(x.t, x.lbl("k"), 1e-3*x.o.S, x.o.S)}
	}
	return "", nil
}

// anyBlend draws one of the library's minimum blends with a parameter in its useful range.
func (x *gen) anyBlend() (string, []float64) {
	name := x.pick("blend-name", []string{"RoundMin", "PolyMin", "ChamferMin", "ExpMin"})
	if name == "ExpMin" {
		return name, []float64{g.LogUniform(x.t, x.lbl("k"), 1/x.o.S, 32/x.o.S)}
	}
	return name, []float64{g.LogUniform(x.t, x.lbl("k"), 1e-2*x.o.S, x.o.S)}
}

// patternBlend gives an array / rotate-union node a blend (its parameter is appended to P).
func (x *gen) patternBlend(n *Node) *Node {
	if x.o.AllBlends && !x.o.inUnion2 && x.intr("pattern-blend", 0, 2) == 0 {
		name, k := x.anyBlend()
		n.S = name
		n.P = append(n.P, k[0])
	}
	return n
}

func (x *gen) blendMax() (string, []float64) {
	if !x.o.NoBlend && !x.o.inUnion2 && x.intr("blend", 0, 3) == 0 {
		return "PolyMax", []float64{g.LogUniform(x.t, x.lbl("k"), 1e-3*x.o.S, x.o.S)}
	}
	return "", nil
}

var ops3Lip = []string{"leaf", "leaf", "union3", "union3", "diff3", "isect3", "cut3", "xform3", "xform3", "scale3", "offset3", "shell3",
	"elong3", "array3", "rotcopy3", "rotunion3", "extrude", "extround", "revolve", "revolvetheta"}
var ops3Full = append(append([]string{}, ops3Lip...), "rtv3", "nuscale3", "twist", "scaleext", "scaletwist", "loft", "screw", "multi3", "lineof3", "orient3")

func (x *gen) node3(depth int) *Node {
	if depth <= 0 {
		return x.leaf3()
	}
	ops := ops3Lip
	if x.o.Grammar == Full {
		ops = ops3Full
	}
	op := x.pick("op3", ops)
	if x.o.UniformRoot && !x.rooted {
		op = x.uniformOp("root3", ops)
	}
	x.rooted = true
	S := x.o.S
	switch op {
	case "leaf":
		return x.leaf3()
	case "union3":
		n := x.intr("n", 2, 4)
		ks := make([]*Node, n)
		for i := range ks {
			ks[i] = x.node3(depth - 1)
		}
		s, p := x.blendMin()
		return &Node{Op: "union3", K: ks, S: s, P: p}
	case "diff3", "isect3":
		s, p := x.blendMax()
		return &Node{Op: op, K: []*Node{x.node3(depth - 1), x.node3(depth - 1)}, S: s, P: p}
	case "cut3":
		nv := x.dir3("n")
		return &Node{Op: "cut3", K: []*Node{x.node3(depth - 1)}, P: []float64{x.coord("ax", 0.5), x.coord("ay", 0.5), x.coord("az", 0.5), nv[0], nv[1], nv[2]}}
	case "xform3":
		return x.rigid3(x.node3(depth - 1))
	case "rtv3":
		a := []float64{x.coord("a0", 1), x.coord("a1", 1), x.coord("a2", 1)}
		c := []float64{x.coord("b0", 1), x.coord("b1", 1), x.coord("b2", 1)}
		// keep a and b non-zero and not (anti)parallel: the minimal rotation is then unique
		la, lc := math.Sqrt(a[0]*a[0]+a[1]*a[1]+a[2]*a[2]), math.Sqrt(c[0]*c[0]+c[1]*c[1]+c[2]*c[2])
		if la < 1e-3*S || lc < 1e-3*S {
			a, c = []float64{S, 0, 0}, []float64{0, S, S}
			la, lc = S, S*math.Sqrt2
		}
		cr := cross3(vec3{a[0] / la, a[1] / la, a[2] / la}, vec3{c[0] / lc, c[1] / lc, c[2] / lc})
		if norm3(cr) < 0.05 {
			a, c = []float64{S, 0, 0}, []float64{0, S, S}
		}
		return &Node{Op: "rtv3", K: []*Node{x.node3(depth - 1)}, P: []float64{a[0], a[1], a[2], c[0], c[1], c[2], x.coord("tx", 2), x.coord("ty", 2), x.coord("tz", 2)}}
	case "scale3":
		return &Node{Op: "scale3", K: []*Node{x.node3(depth - 1)}, P: []float64{g.LogUniform(x.t, x.lbl("k"), 0.2, 5)}}
	case "nuscale3":
		return &Node{Op: "nuscale3", K: []*Node{x.node3(depth - 1)}, P: []float64{g.LogUniform(x.t, x.lbl("kx"), 0.3, 3), g.LogUniform(x.t, x.lbl("ky"), 0.3, 3), g.LogUniform(x.t, x.lbl("kz"), 0.3, 3)}}
	case "offset3":
		// outward offsets of any size; inward ones are kept small (an inward offset beyond the inradius removes the solid)
		d := x.length("d", 0.005, 0.5)
		if x.intr("neg", 0, 3) == 0 {
			d = -x.length("dn", 0.001, 0.02)
		}
		return &Node{Op: "offset3", K: []*Node{x.node3(depth - 1)}, P: []float64{d}}
	case "shell3":
		return &Node{Op: "shell3", K: []*Node{x.node3(depth - 1)}, P: []float64{x.length("t", 0.01, 0.3)}}
	case "elong3":
		h := []float64{0, 0, 0}
		for i := range h {
			if x.intr("hk", 0, 1) == 1 {
				h[i] = x.length("h", 0.05, 1)
				// the constructor documents h.Abs(): a negative component is the same elongation
				if x.intr("hneg", 0, 3) == 0 {
					h[i] = -h[i]
				}
			}
		}
		return &Node{Op: "elong3", K: []*Node{x.node3(depth - 1)}, P: h}
	case "array3":
		step := func() float64 {
			s := x.length("step", 0.3, 3)
			if x.intr("sneg", 0, 2) == 0 {
				s = -s
			}
			return s
		}
		return x.patternBlend(&Node{Op: "array3", K: []*Node{x.node3(depth - 1)}, I: []int{x.intr("nx", 1, 3), x.intr("ny", 1, 3), x.intr("nz", 1, 2)}, P: []float64{step(), step(), step()}})
	case "rotcopy3":
		n := x.intr("n", 1, 12)
		k := x.node3(depth - 1)
		// place the operand on the x axis; make it mirror-symmetric about the XZ plane (the sector axis)
		// for the Lipschitz grammar, as the property's anchor requires
		k = &Node{Op: "xform3", K: []*Node{k}, I: []int{0, 0}, P: []float64{0, 0, 1, 0, x.length("ring", 0.1, 2), 0, x.coord("tz", 0.5)}}
		if x.o.Grammar == Lipschitz || x.intr("sym", 0, 1) == 1 {
			m := &Node{Op: "xform3", K: []*Node{k}, I: []int{2, 0}, P: []float64{0, 0, 1, 0, 0, 0, 0}}
			k = &Node{Op: "union3", K: []*Node{k, m}}
		} else if x.intr("off-axis", 0, 1) == 1 {
			// anywhere in the plane (an operand whose box is lopsided about the sector axis)
			k.P[5] = x.coord("ty", 1.5)
		}
		return &Node{Op: "rotcopy3", K: []*Node{k}, I: []int{n}}
	case "rotunion3":
		n := x.intr("n", 1, 8)
		th := 2 * math.Pi / float64(n)
		if x.intr("thk", 0, 2) == 0 {
			th = x.angle("th")
		}
		return x.patternBlend(&Node{Op: "rotunion3", K: []*Node{x.node3(depth - 1)}, I: []int{n}, P: []float64{th}})
	case "extrude":
		return &Node{Op: "extrude", K: []*Node{x.node2(depth - 1)}, P: []float64{x.length("h", 0.05, 2)}}
	case "twist":
		return &Node{Op: "twist", K: []*Node{x.node2(depth - 1)}, P: []float64{x.length("h", 0.2, 2), x.twist()}}
	case "scaleext":
		return &Node{Op: "scaleext", K: []*Node{x.node2(depth - 1)}, P: []float64{x.length("h", 0.2, 2), g.LogUniform(x.t, x.lbl("sx"), 0.3, 2.5), g.LogUniform(x.t, x.lbl("sy"), 0.3, 2.5)}}
	case "scaletwist":
		return &Node{Op: "scaletwist", K: []*Node{x.node2(depth - 1)}, P: []float64{x.length("h", 0.2, 2), x.twist(), g.LogUniform(x.t, x.lbl("sx"), 0.3, 2.5), g.LogUniform(x.t, x.lbl("sy"), 0.3, 2.5)}}
	case "extround":
		h := x.length("h", 0.1, 2)
		return &Node{Op: "extround", K: []*Node{x.node2(depth - 1)}, P: []float64{h, x.roundUpTo(h/2) * 0.999}}
	case "loft":
		h := x.length("h", 0.1, 2)
		return &Node{Op: "loft", K: []*Node{x.node2(depth - 1), x.node2(depth - 1)}, P: []float64{h, x.roundUpTo(h/2) * 0.95}}
	case "revolve":
		return &Node{Op: "revolve", K: []*Node{x.profile(depth - 1)}}
	case "revolvetheta":
		var th float64
		switch x.intr("thk", 0, 6) {
		case 0:
			th = x.unit("th") * 2 * math.Pi
			if th <= 0 {
				th = 0.1
			}
		case 5:
			// the angle is documented as normalised: 0 and a whole turn ask for the full revolution
			th = []float64{0, 2 * math.Pi, 4 * math.Pi}[x.intr("full", 0, 2)]
		case 6:
			// more than a turn: normalised to the remainder
			th = 2*math.Pi + (0.05+0.9*x.unit("th"))*2*math.Pi
		default:
			q := float64(x.intr("quad", 1, 3)) * math.Pi / 2
			th = q + (x.unit("dth")-0.5)*0.2
		}
		return &Node{Op: "revolvetheta", K: []*Node{x.profile(depth - 1)}, P: []float64{th}}
	case "multi3":
		np := x.intr("npos", 1, 4)
		var ps []float64
		for i := 0; i < np; i++ {
			ps = append(ps, x.coord("mx", 2), x.coord("my", 2), x.coord("mz", 2))
		}
		return &Node{Op: "multi3", K: []*Node{x.node3(depth - 1)}, P: ps}
	case "lineof3":
		pat := rapid.StringMatching("[x.]{0,3}x[x.]{0,3}").Draw(x.t, x.lbl("pattern"))
		return &Node{Op: "lineof3", K: []*Node{x.node3(depth - 1)}, S: pat, P: []float64{x.coord("p0x", 2), x.coord("p0y", 2), x.coord("p0z", 2), x.coord("p1x", 2), x.coord("p1y", 2), x.coord("p1z", 2)}}
	case "orient3":
		base := x.dir3("base")
		ps := append([]float64{}, base...)
		nd := x.intr("ndir", 1, 3)
		for i := 0; i < nd; i++ {
			d := x.dir3("dir")
			// keep every direction away from (anti)parallel to the base: the rotation is then unique
			bl := math.Sqrt(base[0]*base[0] + base[1]*base[1] + base[2]*base[2])
			dl := math.Sqrt(d[0]*d[0] + d[1]*d[1] + d[2]*d[2])
			cr := cross3(vec3{base[0] / bl, base[1] / bl, base[2] / bl}, vec3{d[0] / dl, d[1] / dl, d[2] / dl})
			if norm3(cr) < 0.05 {
				// a perpendicular direction
				d = []float64{base[1] - base[2], base[2] - base[0], base[0] - base[1]}
				if math.Abs(d[0])+math.Abs(d[1])+math.Abs(d[2]) < 1e-6*bl {
					d = []float64{base[1], -base[0], 0}
				}
			}
			ps = append(ps, d...)
		}
		return &Node{Op: "orient3", K: []*Node{x.node3(depth - 1)}, P: ps}
	case "screw":
		pitch := x.length("pitch", 0.05, 0.4)
		radius := pitch * (2 + 10*x.unit("rr"))
		var prof *Node
		switch x.intr("prof", 0, 3) {
		case 0:
			prof = &Node{Op: "isothread", I: []int{x.intr("ext", 0, 1)}, P: []float64{radius, pitch}}
		case 1:
			prof = &Node{Op: "acmethread", P: []float64{radius, pitch}}
		case 2:
			prof = &Node{Op: "ansibuttress", P: []float64{radius, pitch}}
		default:
			prof = &Node{Op: "plasticbuttress", P: []float64{radius, pitch}}
		}
		starts := x.intr("starts", 1, 4)
		if x.intr("lh", 0, 2) == 0 {
			starts = -starts
		}
		taper := 0.0
		if x.intr("tapered", 0, 3) == 0 {
			taper = math.Atan(1.0 / 32)
		}
		return &Node{Op: "screw", K: []*Node{prof}, I: []int{starts}, P: []float64{pitch * (1 + 12*x.unit("len")), taper, pitch}}
	}
	panic("node3: " + op)
}

func (x *gen) twist() float64 {
	tw := g.LogUniform(x.t, x.lbl("tw"), 0.1, 8)
	if x.intr("twneg", 0, 1) == 1 {
		tw = -tw
	}
	return tw
}

// profile draws a 2D shape for revolution: any 2D program, usually moved off the axis.
func (x *gen) profile(depth int) *Node {
	k := x.node2(depth)
	switch x.intr("profk", 0, 3) {
	case 0:
		return k
	default:
		return &Node{Op: "xform2", K: []*Node{k}, I: []int{0}, P: []float64{x.angle("ang"), x.length("px", 0.2, 3), x.coord("py", 1)}}
	}
}

var ops2Lip = []string{"leaf", "leaf", "union2", "union2", "diff2", "isect2", "cut2", "xform2", "xform2", "scale2", "offset2", "elong2", "array2", "rotcopy2", "rotunion2", "centerscale2", "center2", "cache2"}
var ops2Solid = []string{"leaf", "leaf", "union2", "xform2", "xform2", "scale2", "offset2", "elong2", "array2", "rotcopy2", "rotunion2"}
var ops2Full = append(append([]string{}, ops2Lip...), "nuscale2", "slice2", "multi2", "lineof2")

// union2Operand draws a program that ends up as an operand of a library 2D union (Union2D itself,
// Multi2D, LineOf2D, the mirror-symmetrised operand of RotateCopy2D): no blends below it, and with
// SolidUnion2 no difference / intersection / cut either.
func (x *gen) union2Operand(depth int) *Node {
	was, wasIn := x.o.solid, x.o.inUnion2
	if x.o.SolidUnion2 {
		x.o.solid = true
	}
	x.o.inUnion2 = true
	k := x.node2(depth)
	x.o.solid, x.o.inUnion2 = was, wasIn
	return k
}

func (x *gen) node2(depth int) *Node {
	if depth <= 0 {
		return x.leaf2()
	}
	ops := ops2Lip
	if x.o.Grammar == Full {
		ops = ops2Full
	}
	if x.o.solid {
		ops = ops2Solid
	}
	op := x.pick("op2", ops)
	if x.o.UniformRoot && !x.rooted {
		op = x.uniformOp("root2", ops)
	}
	x.rooted = true
	S := x.o.S
	switch op {
	case "leaf":
		return x.leaf2()
	case "union2":
		n := x.intr("n", 2, 4)
		ks := make([]*Node, n)
		for i := range ks {
			ks[i] = x.union2Operand(depth - 1)
		}
		s, p := x.blendMin()
		return &Node{Op: "union2", K: ks, S: s, P: p}
	case "diff2", "isect2":
		s, p := x.blendMax()
		return &Node{Op: op, K: []*Node{x.node2(depth - 1), x.node2(depth - 1)}, S: s, P: p}
	case "cut2":
		v := []float64{x.coord("vx", 1), x.coord("vy", 1)}
		if math.Hypot(v[0], v[1]) < 1e-3*S {
			v = []float64{S, 0}
		}
		return &Node{Op: "cut2", K: []*Node{x.node2(depth - 1)}, P: []float64{x.coord("ax", 0.5), x.coord("ay", 0.5), v[0], v[1]}}
	case "xform2":
		return x.rigid2(x.node2(depth - 1))
	case "scale2":
		return &Node{Op: "scale2", K: []*Node{x.node2(depth - 1)}, P: []float64{g.LogUniform(x.t, x.lbl("k"), 0.2, 5)}}
	case "nuscale2":
		return &Node{Op: "nuscale2", K: []*Node{x.node2(depth - 1)}, P: []float64{g.LogUniform(x.t, x.lbl("kx"), 0.3, 3), g.LogUniform(x.t, x.lbl("ky"), 0.3, 3)}}
	case "offset2":
		d := x.length("d", 0.005, 0.5)
		if x.intr("neg", 0, 3) == 0 {
			d = -x.length("dn", 0.001, 0.02)
		}
		return &Node{Op: "offset2", K: []*Node{x.node2(depth - 1)}, P: []float64{d}}
	case "elong2":
		h := []float64{0, 0}
		for i := range h {
			if x.intr("hk", 0, 1) == 1 {
				h[i] = x.length("h", 0.05, 1)
				if x.intr("hneg", 0, 3) == 0 {
					h[i] = -h[i]
				}
			}
		}
		return &Node{Op: "elong2", K: []*Node{x.node2(depth - 1)}, P: h}
	case "array2":
		step := func() float64 {
			s := x.length("step", 0.3, 3)
			if x.intr("sneg", 0, 2) == 0 {
				s = -s
			}
			return s
		}
		return x.patternBlend(&Node{Op: "array2", K: []*Node{x.node2(depth - 1)}, I: []int{x.intr("nx", 1, 4), x.intr("ny", 1, 3)}, P: []float64{step(), step()}})
	case "rotcopy2":
		n := x.intr("n", 1, 12)
		k := x.union2Operand(depth - 1) // the operand is wrapped in a 2D union with its mirror image below
		k = &Node{Op: "xform2", K: []*Node{k}, I: []int{0}, P: []float64{0, x.length("ring", 0.1, 2), 0}}
		if x.o.Grammar == Lipschitz || x.intr("sym", 0, 1) == 1 {
			m := &Node{Op: "xform2", K: []*Node{k}, I: []int{1}, P: []float64{0, 0, 0}}
			k = &Node{Op: "union2", K: []*Node{k, m}}
		} else if x.intr("off-axis", 0, 1) == 1 {
			k.P[2] = x.coord("ty", 1.5)
		}
		return &Node{Op: "rotcopy2", K: []*Node{k}, I: []int{n}}
	case "rotunion2":
		n := x.intr("n", 1, 8)
		th := 2 * math.Pi / float64(n)
		if x.intr("thk", 0, 2) == 0 {
			th = x.angle("th")
		}
		return x.patternBlend(&Node{Op: "rotunion2", K: []*Node{x.node2(depth - 1)}, I: []int{n}, P: []float64{th}})
	case "slice2":
		nv := x.dir3("n")
		return &Node{Op: "slice2", K: []*Node{x.node3(depth - 1)}, P: []float64{x.coord("ax", 0.3), x.coord("ay", 0.3), x.coord("az", 0.3), nv[0], nv[1], nv[2]}}
	case "multi2":
		np := x.intr("npos", 1, 4)
		var ps []float64
		for i := 0; i < np; i++ {
			ps = append(ps, x.coord("mx", 2), x.coord("my", 2))
		}
		k := x.union2Operand(depth - 1)
		return &Node{Op: "multi2", K: []*Node{k}, P: ps}
	case "lineof2":
		pat := rapid.StringMatching("[x.]{0,3}x[x.]{0,3}").Draw(x.t, x.lbl("pattern"))
		k := x.union2Operand(depth - 1)
		return &Node{Op: "lineof2", K: []*Node{k}, S: pat, P: []float64{x.coord("p0x", 2), x.coord("p0y", 2), x.coord("p1x", 2), x.coord("p1y", 2)}}
	case "cache2":
		return &Node{Op: "cache2", K: []*Node{x.node2(depth - 1)}}
	case "center2":
		return &Node{Op: "center2", K: []*Node{x.node2(depth - 1)}}
	case "centerscale2":
		return &Node{Op: "centerscale2", K: []*Node{x.node2(depth - 1)}, P: []float64{g.LogUniform(x.t, x.lbl("k"), 0.2, 5)}}
	}
	panic("node2: " + op)
}

// Place3 wraps a program in a random rigid placement (rotation, mirror, translation).
func Place3(t *rapid.T, n *Node, S float64) *Node {
	x := &gen{t: t, o: Opts{S: S}, c: 100000}
	return x.rigid3(n)
}

// Place2 wraps a 2D program in a random rigid placement.
func Place2(t *rapid.T, n *Node, S float64) *Node {
	x := &gen{t: t, o: Opts{S: S}, c: 100000}
	return x.rigid2(n)
}

// GenExact3 draws a program over the exact (distance-preserving) sub-grammar:
// an exact leaf under up to depth wrappers from {rigid transform, uniform
// scale, outward offset}, or the full revolution of an exact 2D profile lying
// on one side of the axis.
func GenExact3(t *rapid.T, S float64, depth int) *Node { return GenExact3Smooth(t, S, depth, false) }

// GenExact3Smooth is GenExact3; with noCusp the revolved profile never touches the axis (a profile that
// touches it in one point gives a solid with a cusp there: a surface point without a gradient).
func GenExact3Smooth(t *rapid.T, S float64, depth int, noCusp bool) *Node {
	x := &gen{t: t, o: Opts{S: S}}
	var n *Node
	if x.intr("rev", 0, 4) == 0 {
		// profile: exact 2D leaf, rotated, moved so that it lies in x >= 0
		var leaf *Node
		var ext float64
		switch x.pick("pleaf", []string{"circle", "box2", "line2", "poly"}) {
		case "poly":
			leaf = x.poly()
			for _, v := range leaf.V {
				ext = math.Max(ext, math.Hypot(v[0], v[1]))
			}
		case "circle":
			r := x.length("r", 0.05, 1)
			leaf, ext = &Node{Op: "circle", P: []float64{r}}, r
		case "box2":
			a, b := x.length("w", 0.05, 2), x.length("h", 0.05, 2)
			leaf, ext = &Node{Op: "box2", P: []float64{a, b, x.roundUpTo(math.Min(a, b) / 2)}}, math.Hypot(a, b)/2
		default:
			l, rd := x.length("l", 0.05, 2), x.length("rd", 0.02, 0.5)
			leaf, ext = &Node{Op: "line2", P: []float64{l, rd}}, l/2+rd
		}
		px := ext * (1 + 2*x.unit("px"))
		if x.intr("touch", 0, 3) == 0 && !noCusp {
			px = ext // profile touching the axis at most in one point
		}
		prof := &Node{Op: "xform2", K: []*Node{leaf}, I: []int{0}, P: []float64{x.angle("pang"), px, x.coord("py", 1)}}
		n = &Node{Op: "revolve", K: []*Node{prof}}
		if x.intr("via-theta", 0, 2) == 0 {
			// the same full revolution asked for through RevolveTheta3D (angle 0 or whole turns)
			n = &Node{Op: "revolvetheta", K: []*Node{prof}, P: []float64{[]float64{0, 2 * math.Pi, 4 * math.Pi}[x.intr("full", 0, 2)]}}
		}
	} else {
		n = x.leaf3()
	}
	for i := 0; i < depth; i++ {
		switch x.pick("wrap", []string{"xform3", "xform3", "scale3", "offset3"}) {
		case "xform3":
			n = x.rigid3(n)
		case "scale3":
			n = &Node{Op: "scale3", K: []*Node{n}, P: []float64{g.LogUniform(x.t, x.lbl("k"), 0.2, 5)}}
		default:
			n = &Node{Op: "offset3", K: []*Node{n}, P: []float64{x.length("d", 0.005, 0.5)}}
		}
	}
	return n
}

// GenExact2 is the 2D analogue of GenExact3.
func GenExact2(t *rapid.T, S float64, depth int) *Node {
	x := &gen{t: t, o: Opts{S: S}}
	n := x.leaf2()
	for i := 0; i < depth; i++ {
		switch x.pick("wrap", []string{"xform2", "xform2", "scale2", "offset2"}) {
		case "xform2":
			n = x.rigid2(n)
		case "scale2":
			n = &Node{Op: "scale2", K: []*Node{n}, P: []float64{g.LogUniform(x.t, x.lbl("k"), 0.2, 5)}}
		default:
			n = &Node{Op: "offset2", K: []*Node{n}, P: []float64{x.length("d", 0.005, 0.5)}}
		}
	}
	return n
}
