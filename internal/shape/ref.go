package shape

import (
	"math"

	"github.com/deadsy/sdfx/sdf"
	v2 "github.com/deadsy/sdfx/vec/v2"
	v3 "github.com/deadsy/sdfx/vec/v3"
)

// The reference interpreter. It never calls Evaluate on an sdfx combinator:
// only the leaves of the program are evaluated through sdfx, every operation
// above them is implemented here from its definition with this file's own
// vector algebra ([3]float64 / [2]float64, Rodrigues rotation, analytic
// inverses of the rigid motions the generator emits).

type vec3 = [3]float64
type vec2 = [2]float64

const seamEps = 1e-7 // angular / fractional distance to a folding seam below which a point is "unstable"

func sub3(a, b vec3) vec3         { return vec3{a[0] - b[0], a[1] - b[1], a[2] - b[2]} }
func add3(a, b vec3) vec3         { return vec3{a[0] + b[0], a[1] + b[1], a[2] + b[2]} }
func mul3(a vec3, k float64) vec3 { return vec3{a[0] * k, a[1] * k, a[2] * k} }
func dot3(a, b vec3) float64      { return a[0]*b[0] + a[1]*b[1] + a[2]*b[2] }
func cross3(a, b vec3) vec3 {
	return vec3{a[1]*b[2] - a[2]*b[1], a[2]*b[0] - a[0]*b[2], a[0]*b[1] - a[1]*b[0]}
}
func norm3(a vec3) float64 { return math.Sqrt(dot3(a, a)) }
func unit3(a vec3) vec3    { return mul3(a, 1/norm3(a)) }

// rotate v about unit axis k by angle a (Rodrigues, right hand rule).
func rodrigues(v, k vec3, a float64) vec3 {
	c, s := math.Cos(a), math.Sin(a)
	kv := cross3(k, v)
	kd := dot3(k, v) * (1 - c)
	return vec3{v[0]*c + kv[0]*s + k[0]*kd, v[1]*c + kv[1]*s + k[1]*kd, v[2]*c + kv[2]*s + k[2]*kd}
}

func rot2(v vec2, a float64) vec2 {
	c, s := math.Cos(a), math.Sin(a)
	return vec2{c*v[0] - s*v[1], s*v[0] + c*v[1]}
}

func clamp(x, lo, hi float64) float64 { return math.Max(lo, math.Min(hi, x)) }

// PolyMinRef is the quadratic polynomial smooth minimum.
func PolyMinRef(a, b, k float64) float64 {
	h := clamp(0.5+0.5*(b-a)/k, 0, 1)
	return b + (a-b)*h - k*h*(1-h)
}

func refMin(blend string, k float64) func(a, b float64) (float64, bool) {
	switch blend {
	case "":
		return func(a, b float64) (float64, bool) { return math.Min(a, b), true }
	case "PolyMin":
		return func(a, b float64) (float64, bool) { return PolyMinRef(a, b, k), true }
	}
	return func(a, b float64) (float64, bool) { return 0, false }
}

func refMax(blend string, k float64) func(a, b float64) (float64, bool) {
	switch blend {
	case "":
		return func(a, b float64) (float64, bool) { return math.Max(a, b), true }
	case "PolyMax":
		return func(a, b float64) (float64, bool) { return -PolyMinRef(-a, -b, k), true }
	}
	return func(a, b float64) (float64, bool) { return 0, false }
}

// fold maps an angle into the rotate-copy sector [-theta/2, theta/2); stable=false near a seam.
func foldAngle(phi, theta float64) (float64, bool) {
	k := math.Floor(phi/theta + 0.5)
	f := phi - k*theta
	stable := math.Abs(math.Abs(f)-theta/2) > seamEps
	return f, stable
}

// TraceEntry is one (node, mapped point, reference value) visited while the
// reference interpreter evaluated a point; entries are in post-order (operands
// before the operator that uses them).
type TraceEntry struct {
	N   *Node
	P   [3]float64 // mapped query point (P[2] unused for 2D nodes)
	Val float64
	OK  bool
}

// Trace evaluates the root at p with the reference interpreter and returns
// every node visit.
func (b *Built) Trace(p [3]float64) []TraceEntry {
	var tr []TraceEntry
	b.trace = &tr
	if b.Root.Dim() == 3 {
		b.Ref3(b.Root, p)
	} else {
		b.Ref2(b.Root, vec2{p[0], p[1]})
	}
	b.trace = nil
	return tr
}

// Ref3 evaluates the 3D program node n at p. ok=false: the point is on a
// numerically unstable seam of a folding operator (or a blend the reference
// does not model) and must not be compared.
func (b *Built) Ref3(n *Node, p vec3) (float64, bool) {
	v, ok := b.ref3(n, p)
	if b.trace != nil {
		*b.trace = append(*b.trace, TraceEntry{N: n, P: p, Val: v, OK: ok})
	}
	return v, ok
}

// InvXform3 maps p through the inverse of the rigid motion of an xform3 node.
func InvXform3(n *Node, p [3]float64) [3]float64 { return invXform3(n, p) }

// InvXform2 maps p through the inverse of the rigid motion of an xform2 node.
func InvXform2(n *Node, p [2]float64) [2]float64 {
	q := vec2{p[0] - n.P[1], p[1] - n.P[2]}
	q = rot2(q, -n.P[0])
	switch n.I[0] {
	case 1:
		q[1] = -q[1]
	case 2:
		q[0] = -q[0]
	}
	return q
}

// Ref2 evaluates the 2D program node n at p (see Ref3).
func (b *Built) Ref2(n *Node, p vec2) (float64, bool) {
	v, ok := b.ref2(n, p)
	if b.trace != nil {
		*b.trace = append(*b.trace, TraceEntry{N: n, P: vec3{p[0], p[1], 0}, Val: v, OK: ok})
	}
	return v, ok
}

func (b *Built) ref3(n *Node, p vec3) (float64, bool) {
	P := n.P
	if n.IsLeaf() {
		return b.S3[n].Evaluate(v3.Vec{X: p[0], Y: p[1], Z: p[2]}), true
	}
	k3 := func(i int, q vec3) (float64, bool) { return b.Ref3(n.K[i], q) }
	k2 := func(i int, q vec2) (float64, bool) { return b.Ref2(n.K[i], q) }
	switch n.Op {
	case "union3":
		// every operand is visited even when one of them is on an unstable seam, so that traces of
		// different points have the same shape
		m := refMin(n.S, first(P))
		d, ok := k3(0, p)
		for i := 1; i < len(n.K); i++ {
			x, ok2 := k3(i, p)
			var ok3 bool
			d, ok3 = m(d, x)
			ok = ok && ok2 && ok3
		}
		return d, ok
	case "diff3":
		a, ok1 := k3(0, p)
		c, ok2 := k3(1, p)
		d, ok3 := refMax(n.S, first(P))(a, -c)
		return d, ok1 && ok2 && ok3
	case "isect3":
		a, ok1 := k3(0, p)
		c, ok2 := k3(1, p)
		d, ok3 := refMax(n.S, first(P))(a, c)
		return d, ok1 && ok2 && ok3
	case "cut3":
		a := vec3{P[0], P[1], P[2]}
		nn := unit3(vec3{P[3], P[4], P[5]})
		f, ok := k3(0, p)
		return math.Max(f, -dot3(sub3(p, a), nn)), ok
	case "xform3":
		return k3(0, invXform3(n, p))
	case "rtv3":
		a, c := unit3(vec3{P[0], P[1], P[2]}), unit3(vec3{P[3], P[4], P[5]})
		axis := unit3(cross3(a, c))
		ang := math.Atan2(norm3(cross3(a, c)), dot3(a, c))
		q := sub3(p, vec3{P[6], P[7], P[8]})
		return k3(0, rodrigues(q, axis, -ang))
	case "scale3":
		f, ok := k3(0, mul3(p, 1/P[0]))
		return f * P[0], ok
	case "nuscale3":
		return k3(0, vec3{p[0] / P[0], p[1] / P[1], p[2] / P[2]})
	case "offset3":
		f, ok := k3(0, p)
		return f - P[0], ok
	case "shell3":
		f, ok := k3(0, p)
		return math.Abs(f) - P[0]/2, ok
	case "elong3":
		var q vec3
		for i := 0; i < 3; i++ {
			h := math.Abs(P[i]) / 2
			q[i] = p[i] - clamp(p[i], -h, h)
		}
		return k3(0, q)
	case "array3":
		allOK := true
		d := math.Inf(1)
		for i := 0; i < n.I[0]; i++ {
			for j := 0; j < n.I[1]; j++ {
				for k := 0; k < n.I[2]; k++ {
					x, ok := k3(0, vec3{p[0] - float64(i)*P[0], p[1] - float64(j)*P[1], p[2] - float64(k)*P[2]})
					allOK = allOK && ok
					d = math.Min(d, x)
				}
			}
		}
		return d, allOK
	case "rotcopy3":
		theta := 2 * math.Pi / float64(n.I[0])
		r := math.Hypot(p[0], p[1])
		f, stable := foldAngle(math.Atan2(p[1], p[0]), theta)
		v, ok := k3(0, vec3{r * math.Cos(f), r * math.Sin(f), p[2]})
		return v, ok && (stable || r == 0)
	case "rotunion3":
		allOK := true
		d := math.Inf(1)
		for i := 0; i < n.I[0]; i++ {
			q := rot2(vec2{p[0], p[1]}, -float64(i)*P[0])
			x, ok := k3(0, vec3{q[0], q[1], p[2]})
			allOK = allOK && ok
			d = math.Min(d, x)
		}
		return d, allOK
	case "extrude":
		f, ok := k2(0, vec2{p[0], p[1]})
		return math.Max(f, math.Abs(p[2])-P[0]/2), ok
	case "twist":
		q := rot2(vec2{p[0], p[1]}, p[2]*P[1]/P[0])
		f, ok := k2(0, q)
		return math.Max(f, math.Abs(p[2])-P[0]/2), ok
	case "scaleext":
		u := p[2]/P[0] + 0.5
		q := vec2{p[0] * (1 + (1/P[1]-1)*u), p[1] * (1 + (1/P[2]-1)*u)}
		f, ok := k2(0, q)
		return math.Max(f, math.Abs(p[2])-P[0]/2), ok
	case "scaletwist":
		u := p[2]/P[0] + 0.5
		q := vec2{p[0] * (1 + (1/P[2]-1)*u), p[1] * (1 + (1/P[3]-1)*u)}
		q = rot2(q, p[2]*P[1]/P[0])
		f, ok := k2(0, q)
		return math.Max(f, math.Abs(p[2])-P[0]/2), ok
	case "extround":
		if P[1] == 0 {
			f, ok := k2(0, vec2{p[0], p[1]})
			return math.Max(f, math.Abs(p[2])-P[0]/2), ok
		}
		a, ok := k2(0, vec2{p[0], p[1]})
		return roundedExtrusion(a, math.Abs(p[2])-(P[0]/2-P[1])) - P[1], ok
	case "loft":
		h := P[0]/2 - P[1]
		k := clamp(0.5*p[2]/h+0.5, 0, 1)
		a0, ok0 := k2(0, vec2{p[0], p[1]})
		a1, ok1 := k2(1, vec2{p[0], p[1]})
		a := a0 + k*(a1-a0)
		return roundedExtrusion(a, math.Abs(p[2])-h) - P[1], ok0 && ok1
	case "revolve":
		return k2(0, vec2{math.Hypot(p[0], p[1]), p[2]})
	case "revolvetheta":
		a, ok := k2(0, vec2{math.Hypot(p[0], p[1]), p[2]})
		theta := math.Mod(math.Abs(P[0]), 2*math.Pi)
		if theta == 0 {
			return a, ok
		}
		// wedge [0,theta] about z: half plane y>=0 and the half plane clockwise of the theta line
		d := -math.Sin(theta)*p[0] + math.Cos(theta)*p[1]
		var w float64
		if theta < math.Pi {
			w = math.Max(-p[1], d)
		} else {
			w = math.Min(-p[1], d)
		}
		return math.Max(a, w), ok
	case "multi3":
		allOK := true
		d := math.Inf(1)
		for i := 0; i+2 < len(P); i += 3 {
			x, ok := k3(0, vec3{p[0] - P[i], p[1] - P[i+1], p[2] - P[i+2]})
			allOK = allOK && ok
			d = math.Min(d, x)
		}
		return d, allOK
	case "lineof3":
		allOK := true
		d := math.Inf(1)
		m := float64(len(n.S))
		for i, c := range n.S {
			if c != 'x' {
				continue
			}
			f := float64(i) / m
			x, ok := k3(0, vec3{p[0] - (P[0] + f*(P[3]-P[0])), p[1] - (P[1] + f*(P[4]-P[1])), p[2] - (P[2] + f*(P[5]-P[2]))})
			allOK = allOK && ok
			d = math.Min(d, x)
		}
		return d, allOK
	case "orient3":
		allOK := true
		// each copy is the operand rotated by the minimal rotation taking the base direction onto d
		base := unit3(vec3{P[0], P[1], P[2]})
		d := math.Inf(1)
		for i := 3; i+2 < len(P); i += 3 {
			dir := unit3(vec3{P[i], P[i+1], P[i+2]})
			cr := cross3(base, dir)
			q := p
			if norm3(cr) > 1e-12 {
				q = rodrigues(p, unit3(cr), -math.Atan2(norm3(cr), dot3(base, dir)))
			}
			x, ok := k3(0, q)
			allOK = allOK && ok
			d = math.Min(d, x)
		}
		return d, allOK
	case "screw":
		// P: length taper pitch ; I[0]: starts. Right-handed for starts>0.
		r := math.Hypot(p[0], p[1])
		if P[1] != 0 {
			r += p[2] * math.Atan(P[1])
		}
		th := math.Atan2(p[1], p[0])
		z := p[2] - P[2]*float64(n.I[0])*th/(2*math.Pi)
		x := z/P[2] + 0.5
		fr := x - math.Floor(x)
		x = (fr - 0.5) * P[2]
		f, ok := k2(0, vec2{x, r})
		// the sawtooth jumps at fr = 0/1; a profile that is not exactly pitch-periodic is discontinuous there
		stable := fr > seamEps && fr < 1-seamEps
		return math.Max(f, math.Abs(p[2])-P[0]/2), ok && stable
	}
	panic("Ref3: unknown op " + n.Op)
}

func first(p []float64) float64 {
	if len(p) == 0 {
		return 0
	}
	return p[0]
}

// roundedExtrusion: a = 2D field, bz = |z| - half height (of the inset body).
func roundedExtrusion(a, bz float64) float64 {
	if bz > 0 {
		if a < 0 {
			return bz
		}
		return math.Hypot(a, bz)
	}
	if a < 0 {
		return math.Max(a, bz)
	}
	return a
}

func invXform3(n *Node, p vec3) vec3 {
	P := n.P
	q := sub3(p, vec3{P[4], P[5], P[6]})
	var axis vec3
	switch n.I[1] {
	case 1:
		axis = vec3{1, 0, 0}
	case 2:
		axis = vec3{0, 1, 0}
	case 3:
		axis = vec3{0, 0, 1}
	default:
		axis = unit3(vec3{P[0], P[1], P[2]})
	}
	q = rodrigues(q, axis, -P[3])
	switch n.I[0] {
	case 1:
		q[2] = -q[2]
	case 2:
		q[1] = -q[1]
	case 3:
		q[0] = -q[0]
	case 4:
		q[0], q[1] = q[1], q[0]
	}
	return q
}

func (b *Built) ref2(n *Node, p vec2) (float64, bool) {
	P := n.P
	if n.IsLeaf() {
		return b.S2[n].Evaluate(v2.Vec{X: p[0], Y: p[1]}), true
	}
	k2 := func(i int, q vec2) (float64, bool) { return b.Ref2(n.K[i], q) }
	switch n.Op {
	case "union2":
		// every operand is visited even when one of them is on an unstable seam, so that traces of
		// different points have the same shape
		m := refMin(n.S, first(P))
		d, ok := k2(0, p)
		for i := 1; i < len(n.K); i++ {
			x, ok2 := k2(i, p)
			var ok3 bool
			d, ok3 = m(d, x)
			ok = ok && ok2 && ok3
		}
		return d, ok
	case "diff2":
		a, ok1 := k2(0, p)
		c, ok2 := k2(1, p)
		d, ok3 := refMax(n.S, first(P))(a, -c)
		return d, ok1 && ok2 && ok3
	case "isect2":
		a, ok1 := k2(0, p)
		c, ok2 := k2(1, p)
		d, ok3 := refMax(n.S, first(P))(a, c)
		return d, ok1 && ok2 && ok3
	case "cut2":
		// line from a in direction v: the part to the RIGHT of the line remains
		vl := math.Hypot(P[2], P[3])
		left := vec2{-P[3] / vl, P[2] / vl}
		f, ok := k2(0, p)
		return math.Max(f, (p[0]-P[0])*left[0]+(p[1]-P[1])*left[1]), ok
	case "xform2":
		q := vec2{p[0] - P[1], p[1] - P[2]}
		q = rot2(q, -P[0])
		switch n.I[0] {
		case 1:
			q[1] = -q[1]
		case 2:
			q[0] = -q[0]
		}
		return k2(0, q)
	case "scale2":
		f, ok := k2(0, vec2{p[0] / P[0], p[1] / P[0]})
		return f * P[0], ok
	case "nuscale2":
		return k2(0, vec2{p[0] / P[0], p[1] / P[1]})
	case "offset2":
		f, ok := k2(0, p)
		return f - P[0], ok
	case "elong2":
		hx, hy := math.Abs(P[0])/2, math.Abs(P[1])/2
		return k2(0, vec2{p[0] - clamp(p[0], -hx, hx), p[1] - clamp(p[1], -hy, hy)})
	case "array2":
		allOK := true
		d := math.Inf(1)
		for i := 0; i < n.I[0]; i++ {
			for j := 0; j < n.I[1]; j++ {
				x, ok := k2(0, vec2{p[0] - float64(i)*P[0], p[1] - float64(j)*P[1]})
				allOK = allOK && ok
				d = math.Min(d, x)
			}
		}
		return d, allOK
	case "rotcopy2":
		theta := 2 * math.Pi / float64(n.I[0])
		r := math.Hypot(p[0], p[1])
		f, stable := foldAngle(math.Atan2(p[1], p[0]), theta)
		v, ok := k2(0, vec2{r * math.Cos(f), r * math.Sin(f)})
		return v, ok && (stable || r == 0)
	case "rotunion2":
		allOK := true
		d := math.Inf(1)
		for i := 0; i < n.I[0]; i++ {
			x, ok := k2(0, rot2(p, -float64(i)*P[0]))
			allOK = allOK && ok
			d = math.Min(d, x)
		}
		return d, allOK
	case "slice2":
		fr, err := b.sliceFrame(n)
		if err != nil {
			return 0, false
		}
		s := p[0]*fr.c1[0] + p[1]*fr.c1[1]
		t := p[0]*fr.c2[0] + p[1]*fr.c2[1]
		q := add3(vec3{P[0], P[1], P[2]}, add3(mul3(fr.e1, s), mul3(fr.e2, t)))
		return b.Ref3(n.K[0], q)
	case "multi2":
		allOK := true
		d := math.Inf(1)
		for i := 0; i+1 < len(P); i += 2 {
			x, ok := k2(0, vec2{p[0] - P[i], p[1] - P[i+1]})
			allOK = allOK && ok
			d = math.Min(d, x)
		}
		return d, allOK
	case "lineof2":
		allOK := true
		d := math.Inf(1)
		m := float64(len(n.S))
		for i, c := range n.S {
			if c != 'x' {
				continue
			}
			f := float64(i) / m
			x, ok := k2(0, vec2{p[0] - (P[0] + f*(P[2]-P[0])), p[1] - (P[1] + f*(P[3]-P[1]))})
			allOK = allOK && ok
			d = math.Min(d, x)
		}
		return d, allOK
	case "cache2":
		return k2(0, p)
	case "center2":
		c := b.S2[n.K[0]].BoundingBox().Center()
		return k2(0, vec2{p[0] + c.X, p[1] + c.Y})
	case "centerscale2":
		c := b.S2[n.K[0]].BoundingBox().Center()
		f, ok := k2(0, vec2{p[0]/P[0] + c.X, p[1]/P[0] + c.Y})
		return f * P[0], ok
	}
	panic("Ref2: unknown op " + n.Op)
}

// sliceFrame is the in-plane coordinate frame of a Slice2D node, recovered
// through the public API: the library 2D coordinates c1, c2 of the 3D points
// a+e1, a+e2 (e1, e2: this file's own orthonormal pair in the plane).
type sliceFrame struct {
	e1, e2 vec3
	c1, c2 vec2
	err    error
}

// SliceFrameError reports why the recovered Slice2D frame is not an isometry (nil if it is).
func (b *Built) SliceFrameError(n *Node) error {
	_, err := b.sliceFrame(n)
	return err
}

type frameErr string

func (e frameErr) Error() string { return string(e) }

func (b *Built) sliceFrame(n *Node) (*sliceFrame, error) {
	if fr, ok := b.aux[n]; ok {
		return fr, fr.err
	}
	P := n.P
	a := vec3{P[0], P[1], P[2]}
	nn := unit3(vec3{P[3], P[4], P[5]})
	// own in-plane orthonormal pair
	t := vec3{1, 0, 0}
	if math.Abs(nn[0]) > 0.7 {
		t = vec3{0, 1, 0}
	}
	e1 := unit3(cross3(nn, t))
	e2 := cross3(nn, e1)
	fr := &sliceFrame{e1: e1, e2: e2}
	b.aux[n] = fr
	const r = 0.25
	locate := func(c vec3) (vec2, error) {
		sp, _ := sdf.Sphere3D(r)
		s3 := sdf.Transform3D(sp, sdf.Translate3d(v3.Vec{X: c[0], Y: c[1], Z: c[2]}))
		sl := sdf.Slice2D(s3, v3.Vec{X: a[0], Y: a[1], Z: a[2]}, v3.Vec{X: P[3], Y: P[4], Z: P[5]})
		d := func(x, y float64) float64 { g := sl.Evaluate(v2.Vec{X: x, Y: y}) + r; return g * g }
		d0, d1, d2 := d(0, 0), d(1, 0), d(0, 1)
		cx, cy := (d0-d1+1)/2, (d0-d2+1)/2
		// validate at further points: the field must be the distance to (cx,cy)
		for _, q := range [][2]float64{{1, 1}, {-2, 0.5}, {0.3, -1.7}} {
			want := (q[0]-cx)*(q[0]-cx) + (q[1]-cy)*(q[1]-cy)
			if math.Abs(d(q[0], q[1])-want) > 1e-9*(1+want) {
				return vec2{}, frameErr("slice of a sphere centred in the plane is not a circle field: in-plane frame is not orthonormal")
			}
		}
		return vec2{cx, cy}, nil
	}
	var err error
	if fr.c1, err = locate(add3(a, e1)); err == nil {
		fr.c2, err = locate(add3(a, e2))
	}
	if err == nil {
		l1 := math.Hypot(fr.c1[0], fr.c1[1])
		l2 := math.Hypot(fr.c2[0], fr.c2[1])
		dp := fr.c1[0]*fr.c2[0] + fr.c1[1]*fr.c2[1]
		if math.Abs(l1-1) > 1e-9 || math.Abs(l2-1) > 1e-9 || math.Abs(dp) > 1e-9 {
			err = frameErr("slice frame does not map the plane isometrically with a -> origin")
		}
	}
	fr.err = err
	return fr, err
}
