package c19

import (
	"fmt"
	"math"
	"strings"
	"sync"
	"testing"

	"github.com/deadsy/sdfx/render/dc"
	"github.com/deadsy/sdfx/sdf"
	v2 "github.com/deadsy/sdfx/vec/v2"
	v3 "github.com/deadsy/sdfx/vec/v3"
	"pgregory.net/rapid"

	"verif/internal/ev"
	"verif/internal/g"
	"verif/internal/lat"
	"verif/internal/mesh"
	"verif/internal/oracle"
	"verif/internal/shape"
)

func TestMain(m *testing.M) { ev.Main(m) }

// setting creates renderer objects; mk(cells) returns a render function bound to ONE renderer
// object, so that a test can reuse the object for several shapes (as a program that renders
// several parts with one renderer does).
type setting struct {
	name string
	mk   func(cells int) func(s sdf.SDF3) []*sdf.Triangle3
	// eps: the absolute accuracy to which this renderer locates the surface on a cell edge (V2 marches a
	// ray until the value is below its RaycastEpsilon setting, 1e-4 here; V1 interpolates: 0). A vertex may
	// be a few times that much farther from the surface than the cell diagonal (3x is allowed; the QEF amplifies
	// the error of near-tangent crossings), and cells smaller than 100x that accuracy are not rendered at all.
	eps float64
}

func (st setting) run(s sdf.SDF3, cells int) []*sdf.Triangle3 { return st.mk(cells)(s) }

func mkV1(rcond float64, lock bool) func(cells int) func(s sdf.SDF3) []*sdf.Triangle3 {
	return func(cells int) func(s sdf.SDF3) []*sdf.Triangle3 {
		r := dc.NewDualContouringV1(-1, rcond, lock)
		return func(s sdf.SDF3) []*sdf.Triangle3 {
			ch := make(chan *sdf.Triangle3)
			var out []*sdf.Triangle3
			var wg sync.WaitGroup
			wg.Add(1)
			go func() {
				defer wg.Done()
				for t := range ch {
					out = append(out, t)
				}
			}()
			r.Render(s, cells, ch)
			close(ch)
			wg.Wait()
			return out
		}
	}
}

func mkV2(mk func(cells int) *dc.DualContouringV2) func(cells int) func(s sdf.SDF3) []*sdf.Triangle3 {
	return func(cells int) func(s sdf.SDF3) []*sdf.Triangle3 {
		r := mk(cells)
		return func(s sdf.SDF3) []*sdf.Triangle3 {
			ch := make(chan []*sdf.Triangle3)
			var out []*sdf.Triangle3
			var wg sync.WaitGroup
			wg.Add(1)
			go func() {
				defer wg.Done()
				for ts := range ch {
					out = append(out, ts...)
				}
			}()
			r.Render(s, ch)
			close(ch)
			wg.Wait()
			return out
		}
	}
}

var settings = []setting{
	{"V1(rcond=default,lock=true)", mkV1(0, true), 0},
	{"V1(rcond=0.1,lock=true)", mkV1(0.1, true), 0},
	{"V1(rcond=1e-5,lock=true)", mkV1(1e-5, true), 0},
	{"V1(rcond=1e-8,lock=true)", mkV1(1e-8, true), 0},
	{"V2(default)", mkV2(func(c int) *dc.DualContouringV2 { return dc.NewDualContouringDefault(c) }), 1e-4},
	{"V2(faraway=0.4,push=0.05)", mkV2(func(c int) *dc.DualContouringV2 { return dc.NewDualContouringV2(0.4, 0.05, 0, 1, 1e-4, 1000, c) }), 1e-4},
	{"V2(faraway=0.499999,push=0)", mkV2(func(c int) *dc.DualContouringV2 { return dc.NewDualContouringV2(0.499999, 0, 0, 1, 1e-4, 1000, c) }), 1e-4},
	{"V2(faraway=0.3,push=1e-4)", mkV2(func(c int) *dc.DualContouringV2 { return dc.NewDualContouringV2(0.3, 1e-4, 0, 1, 1e-4, 1000, c) }), 1e-4},
	// "you may reduce max steps" (NewDualContouringDefault): a ray march that runs out of steps, or creeps with
	// a small step scale, falls back to locating the crossing by sampling the edge
	{"V2(maxsteps=3)", mkV2(func(c int) *dc.DualContouringV2 { return dc.NewDualContouringV2(0.499999, 0.01, 0, 1, 1e-4, 3, c) }), 1e-4},
	{"V2(stepscale=0.2,maxsteps=8)", mkV2(func(c int) *dc.DualContouringV2 { return dc.NewDualContouringV2(0.45, 0.01, 0, 0.2, 1e-4, 8, c) }), 1e-4},
}

func sameSeq(a, b []*sdf.Triangle3) bool {
	if len(a) != len(b) {
		return false
	}
	for i := range a {
		for j := 0; j < 3; j++ {
			if math.Float64bits(a[i][j].X) != math.Float64bits(b[i][j].X) || math.Float64bits(a[i][j].Y) != math.Float64bits(b[i][j].Y) || math.Float64bits(a[i][j].Z) != math.Float64bits(b[i][j].Z) {
				return false
			}
		}
	}
	return true
}

func TestDualContouring(t *testing.T) {
	rec := ev.Get()
	rapid.Check(t, func(t *rapid.T) {
		st := rapid.SampledFrom(settings).Draw(t, "setting")
		S := rapid.SampledFrom([]float64{1, 10}).Draw(t, "scale")
		kind := rapid.SampledFrom([]string{"exact", "exact", "csg", "squashed", "aligned", "squashed"}).Draw(t, "kind")
		var n *shape.Node
		minScale := 1.0
		var fixedBox *sdf.Box3
		fixedCells := 0
		// (revolved profiles do not touch the axis here: a horn torus has a cusp on the axis, a surface point
		// without a gradient, and dual contouring needs the gradient at every crossing - DualContouringV2
		// returns NaN vertices when a lattice edge crosses exactly there; outside the domain, DESIGN 8.13)
		if kind == "aligned" {
			// axis-aligned boxes (one, or a union / difference of two) whose faces pass through grid
			// nodes of the sampled volume, with a cell size that is not a binary fraction: the corner
			// values there are 0 or an ulp away from it, whichever expression a renderer uses for the
			// node coordinates
			hh := rapid.SampledFrom([]float64{0.15, 0.1, 0.3, 0.7, 1.0 / 3, 0.05, 1.1}).Draw(t, "cell") * S
			fixedCells = rapid.IntRange(10, ev.Pick(20, 32)).Draw(t, "aligned-cells")
			cnt := [3]int{fixedCells, fixedCells, fixedCells}
			if rapid.Bool().Draw(t, "non-cubic-volume") {
				cnt[rapid.IntRange(0, 2).Draw(t, "short-axis")] = rapid.IntRange(8, fixedCells).Draw(t, "short-cells")
			}
			org := v3.Vec{X: -float64(cnt[0]) * hh / 2, Y: -float64(cnt[1]) * hh / 2, Z: -float64(cnt[2]) * hh / 2}
			if rapid.Bool().Draw(t, "off-centre") {
				org = org.Add(v3.Vec{X: g.Coord(t, "ox", 3*S), Y: g.Coord(t, "oy", 3*S), Z: g.Coord(t, "oz", 3*S)})
			}
			fixedBox = &sdf.Box3{Min: org, Max: org.Add(v3.Vec{X: float64(cnt[0]) * hh, Y: float64(cnt[1]) * hh, Z: float64(cnt[2]) * hh})}
			mk := func(l string) *shape.Node {
				var lo, hi [3]float64
				o := [3]float64{org.X, org.Y, org.Z}
				for a := 0; a < 3; a++ {
					i := rapid.IntRange(2, cnt[a]-6).Draw(t, fmt.Sprintf("%s.lo%d", l, a))
					j := rapid.IntRange(i+4, cnt[a]-2).Draw(t, fmt.Sprintf("%s.hi%d", l, a))
					lo[a], hi[a] = o[a]+float64(i)*hh, o[a]+float64(j)*hh
				}
				bx := &shape.Node{Op: "box3", P: []float64{hi[0] - lo[0], hi[1] - lo[1], hi[2] - lo[2], 0}}
				return &shape.Node{Op: "xform3", I: []int{0, 0}, K: []*shape.Node{bx}, P: []float64{0, 0, 1, 0, (lo[0] + hi[0]) / 2, (lo[1] + hi[1]) / 2, (lo[2] + hi[2]) / 2}}
			}
			n = mk("a")
			switch rapid.SampledFrom([]string{"box", "box", "union3", "diff3"}).Draw(t, "aligned-kind") {
			case "union3":
				n = &shape.Node{Op: "union3", K: []*shape.Node{n, mk("b")}}
			case "diff3":
				n = &shape.Node{Op: "diff3", K: []*shape.Node{n, mk("b")}}
			}
		} else if kind == "exact" {
			n = shape.GenExact3Smooth(t, S, rapid.IntRange(0, 2).Draw(t, "depth"), true)
		} else if kind == "squashed" {
			// a matrix-scaled shape (ellipsoid, squashed box ...): its field is not a distance bound - it
			// over-estimates along a squashed axis - but its zero set is a perfectly good surface
			k := []float64{g.LogUniform(t, "kx", 0.3, 3), g.LogUniform(t, "ky", 0.3, 3), g.LogUniform(t, "kz", 0.3, 3)}
			minScale = math.Min(k[0], math.Min(k[1], k[2]))
			n = &shape.Node{Op: "nuscale3", P: k, K: []*shape.Node{shape.GenExact3Smooth(t, S, rapid.IntRange(0, 1).Draw(t, "depth"), true)}}
			if rapid.IntRange(0, 2).Draw(t, "placed") == 0 {
				n = shape.Place3(t, n, S)
			}
		} else {
			a, b := shape.GenExact3Smooth(t, S, 1, true), shape.GenExact3Smooth(t, S, 1, true)
			op := rapid.SampledFrom([]string{"union3", "diff3", "isect3"}).Draw(t, "op")
			n = &shape.Node{Op: op, K: []*shape.Node{a, b}}
		}
		// far from the origin (survey / map coordinates): up to 1e7 model units away, i.e. coordinates
		// a hundred million cells large
		far := false
		if kind != "aligned" && rapid.IntRange(0, 4).Draw(t, "far-away") == 0 {
			far = true
			off := func(l string) float64 {
				return g.LogUniform(t, l, 1e3, 1e7) * S * float64(1-2*rapid.IntRange(0, 1).Draw(t, l+".neg"))
			}
			n = &shape.Node{Op: "xform3", I: []int{0, 0}, K: []*shape.Node{n}, P: []float64{0, 0, 1, 0, off("fx"), off("fy"), off("fz")}}
		}
		bl, err := shape.Build(n)
		if err != nil {
			rec.Count("discarded:constructor-rejected", 1)
			rec.Case(false, "", "discarded")
			return
		}
		s := bl.SDF3()
		bb := s.BoundingBox()
		sz := bb.Size()
		if !(sz.MinComponent() > 1e-3*S) || !shape.Finite(sz.X, sz.Y, sz.Z) || sz.MaxComponent() > 1e4*S {
			rec.Count("discarded:degenerate-box", 1)
			rec.Case(false, "", "discarded")
			return
		}
		// the resolution is drawn among those that resolve the solid (see "deep" below): the deepest
		// point of a 13^3 probe grid bounds the cell size from above
		deepest := 0.0
		for i := 0; i <= 12; i++ {
			for j := 0; j <= 12; j++ {
				for k := 0; k <= 12; k++ {
					p := bb.Min.Add(v3.Vec{X: sz.X * float64(i) / 12, Y: sz.Y * float64(j) / 12, Z: sz.Z * float64(k) / 12})
					deepest = math.Max(deepest, -s.Evaluate(p)*math.Min(1, minScale))
				}
			}
		}
		minCells, maxCells := 6, ev.Pick(24, 48)
		if deepest > 0 {
			// cell diagonal sqrt(3)*(size+2*3 cells)/cells <= deepest/1.5
			if need := int(math.Ceil(1.5*math.Sqrt(3)*sz.MaxComponent()/deepest)) + 11; need > minCells {
				minCells = need
			}
		}
		if minCells > ev.Pick(40, 72) {
			rec.Count("discarded:solid-too-thin-for-the-resolution-budget", 1)
			rec.Case(false, "", "dc:too-thin")
			return
		}
		if maxCells < minCells {
			maxCells = minCells
		}
		cells := rapid.IntRange(minCells, maxCells).Draw(t, "cells")
		// enlarge the box by 1.5..3 cells on every side: the surface is strictly inside the sampled volume
		// and away from the boundary quads the renderers skip
		h0 := sz.MaxComponent() / float64(cells)
		m := g.F(1.5, 3).Draw(t, "margin") * h0
		nb := sdf.Box3{Min: bb.Min.SubScalar(m), Max: bb.Max.AddScalar(m)}
		if fixedBox != nil {
			nb, cells, m = *fixedBox, fixedCells, 0
		}
		rs := lat.Rebox3{S: s, BB: nb}
		h := nb.Size().MaxComponent() / float64(cells)
		if h < 100*st.eps {
			// the cell is not large against the accuracy this setting locates the surface with (the
			// absolute RaycastEpsilon of V2): models in units that small are outside the domain (DESIGN 8.9)
			rec.Count("discarded:cell-smaller-than-100x-raycast-epsilon", 1)
			rec.Case(false, "", "dc:cell-too-small-for-raycast-epsilon")
			return
		}
		diag := math.Sqrt(3) * h
		// resolved solids only: some lattice node is at least one cell diagonal deep inside the solid
		// (a sheet thinner than a cell gets one vertex for both of its sides and collapses to zero volume)
		deep := false
		cn := nb.Size().DivScalar(h)
		for i := 0.0; i <= cn.X && !deep; i++ {
			for j := 0.0; j <= cn.Y && !deep; j++ {
				for k := 0.0; k <= cn.Z && !deep; k++ {
					if s.Evaluate(nb.Min.Add(v3.Vec{X: i * h, Y: j * h, Z: k * h}))*math.Min(1, minScale) <= -diag {
						deep = true
					}
				}
			}
		}
		if !deep {
			rec.Count("discarded:solid-thinner-than-the-lattice-resolves", 1)
			rec.Case(false, "", "dc:unresolved")
			return
		}
		// one renderer object; with some probability it has already rendered another shape in the SAME box
		rr := st.mk(cells)
		reused := rapid.IntRange(0, 2).Draw(t, "reuse-renderer") == 0
		if reused {
			dr := nb.Size().MinComponent() * g.F(0.15, 0.35).Draw(t, "decoy-radius")
			sp, _ := sdf.Sphere3D(dr)
			rr(lat.Rebox3{S: sdf.Transform3D(sp, sdf.Translate3d(nb.Center())), BB: nb})
		}
		ts := rr(rs)
		fail := func(key, msg string) {
			rec.Violation(t, "DualContouring:"+key, "%s, %d cells, [%s] %s in box %v: %s", st.name, cells, kind, n, nb, msg)
		}
		if len(ts) == 0 {
			// a non-empty solid at least a few cells big must produce a mesh
			rec.Case(false, "", "dc:empty")
			return
		}
		r := mesh.Analyze3(ts, 1e-6*h)
		if r.OpenEdges > 0 {
			fail("open-edge", fmt.Sprintf("%d directed edges without a matching reverse edge, e.g. %v -> %v (%d triangles)", r.OpenEdges, r.FirstOpen[0], r.FirstOpen[1], r.Tris))
		}
		if !(r.Volume > 0) {
			fail("non-positive-volume", fmt.Sprintf("signed volume %v", r.Volume))
		}
		e := 1e-9 * (h + nb.Min.Length() + nb.Max.Length())
		if r.Min.X < nb.Min.X-e || r.Min.Y < nb.Min.Y-e || r.Min.Z < nb.Min.Z-e || r.Max.X > nb.Max.X+e || r.Max.Y > nb.Max.Y+e || r.Max.Z > nb.Max.Z+e {
			fail("vertex-outside-sampled-box", fmt.Sprintf("vertex bounds %v..%v outside box %v", r.Min, r.Max, nb))
		}
		// distance to the true surface: closed form for exact scenes; for CSG of exact fields |f| is a lower bound of the distance
		f, exact := oracle.Exact3(n)
		seen := map[v3.Vec]bool{}
		worst := 0.0
		for _, tr := range ts {
			for _, v := range tr {
				if seen[v] {
					continue
				}
				seen[v] = true
				var d float64
				if exact {
					d = math.Abs(f(oracle.V3{v.X, v.Y, v.Z}))
				} else {
					// |f| is a lower bound of the distance for CSG of exact fields; for a matrix-scaled
					// exact field the distance is at least (smallest scale factor) * |f|
					d = math.Abs(s.Evaluate(v)) * math.Min(1, minScale)
				}
				worst = math.Max(worst, d)
				if d > diag*(1+1e-9)+3*st.eps {
					fail("vertex-farther-than-a-cell-diagonal", fmt.Sprintf("vertex %v is at least %v from the surface (cell diagonal %v)", v, d, diag))
				}
			}
		}
		if ts2 := rr(rs); !sameSeq(ts, ts2) {
			fail("not-repeatable", fmt.Sprintf("second run with the same renderer object produced a different triangle sequence (%d vs %d triangles)", len(ts), len(ts2)))
		}
		// the same render once more while two other dual-contouring renders (V1 and V2, another shape) are in
		// progress in the process: the renderers share nothing, the output is the same
		if rapid.IntRange(0, 3).Draw(t, "other-dc-renders-running") == 0 {
			stop := make(chan struct{})
			var wg sync.WaitGroup
			for i := 0; i < 2; i++ {
				wg.Add(1)
				go func(i int) {
					defer wg.Done()
					sp, _ := sdf.Sphere3D(1)
					bx, _ := sdf.Box3D(v3.Vec{X: 1.2, Y: 0.9, Z: 1.4}, 0.1)
					decoys := []sdf.SDF3{sp, sdf.Transform3D(bx, sdf.RotateX(0.4).Mul(sdf.RotateZ(0.7)))}
					for n := 0; ; n++ {
						select {
						case <-stop:
							return
						default:
							settings[(i*4+n)%len(settings)].run(decoys[n%2], 10+n%5)
						}
					}
				}(i)
			}
			tsc := st.run(rs, cells)
			close(stop)
			wg.Wait()
			if !sameSeq(ts, tsc) {
				fail("not-repeatable", fmt.Sprintf("a render made while other dual-contouring renders were running produced a different triangle sequence (%d vs %d triangles)", len(ts), len(tsc)))
			}
			rec.Add("dc:repeated-while-other-renders-run", 1)
		}
		// ONE DualContouringV2 object rendering the solid from three goroutines at once (a program that renders
		// its parts in parallel with a renderer it configured once): each result is the solo result
		if strings.HasPrefix(st.name, "V2") && rapid.IntRange(0, 3).Draw(t, "one-renderer-object-in-parallel") == 0 {
			var wg sync.WaitGroup
			res := make([][]*sdf.Triangle3, 3)
			for i := range res {
				wg.Add(1)
				go func(i int) { defer wg.Done(); res[i] = rr(rs) }(i)
			}
			wg.Wait()
			for i := range res {
				if !sameSeq(ts, res[i]) {
					fail("not-repeatable", fmt.Sprintf("one renderer object used by three goroutines at once: render %d produced a different triangle sequence (%d vs %d triangles)", i, len(ts), len(res[i])))
					break
				}
			}
			rec.Add("dc:one-renderer-object-in-parallel", 1)
		}
		if ts3 := st.run(rs, cells); !sameSeq(ts, ts3) {
			fail("not-repeatable", fmt.Sprintf("a fresh renderer object produced a different triangle sequence (%d vs %d triangles; the first renderer had rendered another shape before: %v)", len(ts), len(ts3), reused))
		}
		rec.Add(fmt.Sprintf("dc:renderer-reused=%v", reused), 1)
		rec.Case(len(ts) >= 20, ev.Key(st.name, n.String(), cells, m), "dc:"+st.name, "dc:"+kind, fmt.Sprintf("dc:far-from-origin=%v", far))
		rec.Add("dc:triangles", int64(len(ts)))
		rec.Sample("dc:"+st.name, map[string]any{"setting": st.name, "scene": n.String(), "cells": cells, "triangles": len(ts), "volume": r.Volume, "worst_vertex_distance_over_diag": worst / diag})
	})
}

// TestRegress: minimised failures found by the campaign.
func TestRegress(t *testing.T) {
	rec := ev.Get()
	// V2 with clamping: a revolved capsule at 6 cells used to lose 8 quads
	l := sdf.Line2D(0.5, 0.27473421577998586)
	p := sdf.Transform2D(l, sdf.Translate2d(v2.Vec{X: 0.5247342157799859}).Mul(sdf.Rotate2d(-0.7853981633974483)))
	s, err := sdf.Revolve3D(p)
	if err != nil {
		t.Fatal(err)
	}
	nb := sdf.Box3{Min: v3.Vec{X: -1.6350656476209227, Y: -1.6350656476209227, Z: -1.1103314318409367}, Max: v3.Vec{X: 1.6350656476209227, Y: 1.6350656476209227, Z: 1.1103314318409367}}
	for _, st := range settings {
		ts := st.run(lat.Rebox3{S: s, BB: nb}, 6)
		r := mesh.Analyze3(ts, 1e-6*nb.Size().MaxComponent()/6)
		rec.Case(true, "regress:"+st.name, "regress")
		if r.OpenEdges > 0 {
			rec.FailCase(t, "TestRegress", "DualContouring:open-edge", map[string]any{"setting": st.name}, "%s: revolved capsule at 6 cells: %d unmatched directed edges (%d triangles)", st.name, r.OpenEdges, r.Tris)
		}
	}
	// spheres far from the origin (fix 70c7cd0: V2 set up its least squares system in absolute
	// coordinates and lost the vertex position with a weak centre push)
	for _, fc := range []struct {
		c     v3.Vec
		r, hb float64
		cells int
	}{
		{v3.Vec{X: -999999.9999999995, Y: -100000.00000000001, Z: 1000}, 0.223606797749979, 0.2973042736, 17},
		{v3.Vec{X: -584862.7166169194 - 2, Y: -116521.5491703222 + 1.6601104736328125, Z: -112530.31413999984 - 0.25}, 0.1063709825340501, 0.1205398166, 24},
	} {
		sp, _ := sdf.Sphere3D(fc.r)
		fs := lat.Rebox3{S: sdf.Transform3D(sp, sdf.Translate3d(fc.c)), BB: sdf.Box3{Min: fc.c.SubScalar(fc.hb), Max: fc.c.AddScalar(fc.hb)}}
		diag := math.Sqrt(3) * 2 * fc.hb / float64(fc.cells)
		for _, st := range settings {
			worst := 0.0
			for _, tr := range st.run(fs, fc.cells) {
				for _, v := range tr {
					worst = math.Max(worst, math.Abs(v.Sub(fc.c).Length()-fc.r))
				}
			}
			rec.Case(true, "regress:far:"+st.name+fmt.Sprint(fc.cells), "regress")
			if worst > diag*(1+1e-9)+3*st.eps {
				rec.FailCase(t, "TestRegress", "DualContouring:vertex-farther-than-a-cell-diagonal", map[string]any{"setting": st.name, "centre": fc.c}, "%s: sphere of radius %v at %v, %d cells: a vertex is %v from the surface (cell diagonal %v)", st.name, fc.r, fc.c, fc.cells, worst, diag)
			}
		}
	}
}
