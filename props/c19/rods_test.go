package c19

import (
	"fmt"
	"math"
	"strings"
	"testing"

	"github.com/deadsy/sdfx/sdf"
	v3 "github.com/deadsy/sdfx/vec/v3"
	"pgregory.net/rapid"

	"verif/internal/ev"
	"verif/internal/g"
	"verif/internal/lat"
	"verif/internal/mesh"
)

// TestLongRods: resolutions of a thousand and more cells along ONE axis - affordable for a long thin part
// (a 6 x 6 x 1100 grid) - with DualContouringV2, along x, y and z in turn: cell indices beyond 1023 and 2047 on every axis.
// Oracle as in the main test: closed, positive volume, every vertex within one cell diagonal of the rod's
// own distance function and inside the sampled box; in addition no triangle edge is longer than two cell
// diagonals (a quad stitched across the model joins cells that are not neighbours).
func TestLongRods(t *testing.T) {
	rec := ev.Get()
	rapid.Check(t, func(t *rapid.T) {
		// (V2 only: V1 builds a cubic octree over the longest axis, which at these resolutions takes gigabytes)
		var v2s []setting
		for _, x := range settings {
			if strings.HasPrefix(x.name, "V2") {
				v2s = append(v2s, x)
			}
		}
		st := rapid.SampledFrom(v2s).Draw(t, "setting")
		axis := rapid.IntRange(0, 2).Draw(t, "axis")
		cells := rapid.SampledFrom([]int{1100, 1030, 1500, 2100, 1024, 2050, 700, 4200}).Draw(t, "cells")
		if rapid.Bool().Draw(t, "free-cells") {
			cells = rapid.IntRange(600, ev.Pick(2400, 5000)).Draw(t, "cells-free")
		}
		L := g.Length(t, "length", 50, 500)
		h := L / float64(cells)
		// the rod is 2.2 .. 3.2 cells in radius and rounded: it is resolved, and it has no sharp edges
		rad := g.F(2.2, 3.2).Draw(t, "radius-in-cells") * h
		var size [3]float64
		size[axis], size[(axis+1)%3], size[(axis+2)%3] = L, 2*rad, 2*rad
		c := v3.Vec{X: g.Coord(t, "cx", 30), Y: g.Coord(t, "cy", 30), Z: g.Coord(t, "cz", 30)}
		// a capsule: the set of points within rad of the segment of length L-2*rad on the axis
		half := L/2 - rad
		f := func(p v3.Vec) float64 {
			q := [3]float64{p.X - c.X, p.Y - c.Y, p.Z - c.Z}
			a := q[axis]
			q[axis] = a - math.Max(-half, math.Min(half, a))
			return math.Sqrt(q[0]*q[0]+q[1]*q[1]+q[2]*q[2]) - rad
		}
		m := g.F(1.5, 3).Draw(t, "margin") * h
		lo := v3.Vec{X: c.X - size[0]/2 - m, Y: c.Y - size[1]/2 - m, Z: c.Z - size[2]/2 - m}
		hi := v3.Vec{X: c.X + size[0]/2 + m, Y: c.Y + size[1]/2 + m, Z: c.Z + size[2]/2 + m}
		nb := sdf.Box3{Min: lo, Max: hi}
		s := lat.Rebox3{S: lat.Func3{F: f, BB: nb}, BB: nb}
		hh := nb.Size().MaxComponent() / float64(cells)
		if hh < 100*st.eps {
			rec.Case(false, "", "rods:cell-too-small-for-raycast-epsilon")
			return
		}
		diag := math.Sqrt(3) * hh
		ts := st.run(s, cells)
		desc := fmt.Sprintf("%s, capsule of length %v and radius %v along axis %d centred at %v, %d cells (cell %v)", st.name, L, rad, axis, c, cells, hh)
		rec.Case(len(ts) > 1000, ev.Key("rods", st.name, axis, cells, L, rad, c), "rods:"+st.name, fmt.Sprintf("rods:axis=%d", axis), fmt.Sprintf("rods:cells>=1024=%v", cells >= 1024), fmt.Sprintf("rods:cells>=2048=%v", cells >= 2048))
		if len(ts) == 0 {
			rec.Violation(t, "DualContouring:rods:empty-mesh", "%s: no triangles", desc)
			return
		}
		r := mesh.Analyze3(ts, 1e-6*hh)
		if r.OpenEdges > 0 {
			rec.Violation(t, "DualContouring:rods:open-edge", "%s: %d directed edges without a matching reverse edge, e.g. %v -> %v (%d triangles)", desc, r.OpenEdges, r.FirstOpen[0], r.FirstOpen[1], r.Tris)
		}
		if !(r.Volume > 0) {
			rec.Violation(t, "DualContouring:rods:non-positive-volume", "%s: signed volume %v", desc, r.Volume)
		}
		far, long := 0, 0
		worst := 0.0
		for _, tr := range ts {
			for k, v := range tr {
				if d := math.Abs(f(v)); d > diag*(1+1e-9)+3*st.eps {
					far++
					worst = math.Max(worst, d)
				}
				if e := v.Sub(tr[(k+1)%3]).Length(); e > 2*diag*(1+1e-9)+6*st.eps {
					long++
				}
			}
		}
		if far > 0 {
			rec.Violation(t, "DualContouring:rods:vertex-farther-than-a-cell-diagonal", "%s: %d vertices farther than a cell diagonal (%v) from the surface, worst %v", desc, far, diag, worst)
		}
		if long > 0 {
			rec.Violation(t, "DualContouring:rods:triangle-spans-more-than-neighbouring-cells", "%s: %d triangle edges longer than two cell diagonals", desc, long)
		}
		e := 1e-9 * (hh + nb.Min.Length() + nb.Max.Length())
		if r.Min.X < nb.Min.X-e || r.Min.Y < nb.Min.Y-e || r.Min.Z < nb.Min.Z-e || r.Max.X > nb.Max.X+e || r.Max.Y > nb.Max.Y+e || r.Max.Z > nb.Max.Z+e {
			rec.Violation(t, "DualContouring:rods:vertex-outside-sampled-box", "%s: vertex bounds %v..%v outside box %v", desc, r.Min, r.Max, nb)
		}
	})
}
