package c12

// C12 - Rendering always returns and does not accumulate goroutines.
//
// TestFaultReturns   rapid: (sink, renderer, fault) -> one faultchild process per case;
//                    oracle: the child prints "returned" (hang decided by the Go runtime's
//                    deadlock detector, or by deadline + SIGQUIT dump showing the render parked).
// TestGoroutineBound rapid state machine (t.Repeat) over in-process render histories;
//                    oracle: runtime.NumGoroutine() after render k <= the count after warm-up.
// TestRegress        plain: the minimised failures found on the pinned tree.

import (
	"fmt"
	"os"
	"path/filepath"
	"runtime"
	"sort"
	"strings"
	"sync"
	"testing"
	"time"

	"github.com/deadsy/sdfx/render"
	"github.com/deadsy/sdfx/sdf"
	"pgregory.net/rapid"

	"verif/internal/ev"
	"verif/internal/fc"
	"verif/internal/g"
)

func TestMain(m *testing.M) { ev.Main(m) }

//-----------------------------------------------------------------------------
// generators

var renderers3 = []string{"scripted", "scripted", "mcu", "mco"}
var renderers2 = []string{"scripted", "scripted", "msu", "msq", "dc2"}

// drawRender draws sink-independent parts of a case: renderer and its size.
// maxN / maxCells bound the output (files of at most a few hundred KB).
func drawRender(t *rapid.T, sink string, maxN, maxCells3, maxCells2 int) fc.Case {
	c := fc.Case{Sink: sink, Fsize: -1}
	if fc.Is3D(sink) {
		c.Renderer = rapid.SampledFrom(renderers3).Draw(t, "renderer")
	} else {
		c.Renderer = rapid.SampledFrom(renderers2).Draw(t, "renderer")
	}
	if c.Renderer == "scripted" {
		T := 256 // items per channel send of the library's buffers (only used to aim the generator)
		if !fc.Is3D(sink) {
			T = 128
		}
		// (rapid's SampledFrom favours the front of the list: the multi-batch sizes come first)
		special := []int{1000, 3*T + 7, 2*T + 1, T + 1, 2 * T, 5000, 2*T - 1, T, T - 1, 83, 82, 81, 80, 2, 1, 0}
		switch rapid.IntRange(0, 7).Draw(t, "n.kind") {
		case 0, 1, 2:
			c.N = rapid.IntRange(0, maxN).Draw(t, "n")
		case 3:
			// a long stream: dozens to hundreds of channel sends still to come after an early fault
			// (a writer that drains only a bounded number of them strands the producer)
			c.N = rapid.SampledFrom([]int{40 * T, 9000, 70 * T, 150 * T}).Draw(t, "n.long")
			c.Chunk = rapid.SampledFrom([]int{5, 100, T, 0, 1}).Draw(t, "chunk")
			return c
		default:
			c.N = rapid.SampledFrom(special).Draw(t, "n.special")
		}
		if c.N > maxN {
			c.N = maxN
		}
		c.Chunk = rapid.SampledFrom([]int{1, 5, 100, 2, T, 0}).Draw(t, "chunk")
		return c
	}
	if fc.Is3D(sink) {
		c.Shape = rapid.SampledFrom([]string{"sphere", "box", "cyl"}).Draw(t, "shape")
		c.Cells = rapid.IntRange(2, maxCells3).Draw(t, "cells")
	} else {
		c.Shape = rapid.SampledFrom([]string{"circle", "box2"}).Draw(t, "shape")
		c.Cells = rapid.IntRange(2, maxCells2).Draw(t, "cells")
	}
	return c
}

func ext(sink string) string { return "." + sink }

func describe(c fc.Case) string {
	h := ""
	if c.Procs > 0 || c.CPUs > 0 {
		h = "|" + hostOf(c)
	}
	if c.Renderer == "scripted" {
		return fmt.Sprintf("%s|scripted|n=%d|chunk=%d%s", c.Sink, c.N, c.Chunk, h)
	}
	return fmt.Sprintf("%s|%s|%s|cells=%d%s", c.Sink, c.Renderer, c.Shape, c.Cells, h)
}

// the processors the child runs with: the machine's (default), a GOMAXPROCS setting in its environment,
// or a host / cpuset with fewer CPUs (runtime.NumCPU() of the child is what was drawn)
func hostOf(c fc.Case) string {
	switch {
	case c.Procs > 0 && c.CPUs > 0:
		return fmt.Sprintf("host:%d-cpus+GOMAXPROCS=%d", c.CPUs, c.Procs)
	case c.Procs > 0:
		return fmt.Sprintf("host:GOMAXPROCS=%d", c.Procs)
	case c.CPUs > 0:
		return fmt.Sprintf("host:%d-cpus", c.CPUs)
	}
	return "host:default"
}

func drawHost(t *rapid.T, c *fc.Case) {
	switch rapid.SampledFrom([]string{"default", "default", "default", "default", "GOMAXPROCS", "cpus", "default", "default", "both"}).Draw(t, "host") {
	case "GOMAXPROCS":
		c.Procs = rapid.SampledFrom([]int{1, 2, 3, 64}).Draw(t, "GOMAXPROCS")
	case "cpus":
		c.CPUs = rapid.SampledFrom([]int{1, 2, 3}).Draw(t, "cpus")
	case "both":
		c.CPUs = rapid.SampledFrom([]int{1, 2}).Draw(t, "cpus")
		c.Procs = rapid.SampledFrom([]int{1, 4}).Draw(t, "GOMAXPROCS")
	}
	if c.CPUs > runtime.NumCPU() {
		c.CPUs = runtime.NumCPU()
	}
}

func nBucket(n int) string {
	switch {
	case n == 0:
		return "0"
	case n <= 82:
		return "1..82(<1 flush)"
	case n <= 256:
		return "83..256"
	case n <= 1000:
		return "257..1000"
	}
	return ">1000"
}

//-----------------------------------------------------------------------------
// fault cases in child processes

// reference sizes: (sink, renderer, size parameters) -> bytes written without a fault.
var (
	refMu   sync.Mutex
	refSize = map[string]int64{}
)

// referenceSize renders the case without any fault in a child and returns the
// file size. It is also the control: a fault-free render must return.
func referenceSize(t *rapid.T, rec *ev.Rec, c fc.Case, dir string) int64 {
	k := fmt.Sprintf("%s|%s|%d|%s|%d", c.Sink, c.Renderer, c.N, c.Shape, c.Cells)
	refMu.Lock()
	s, ok := refSize[k]
	refMu.Unlock()
	if ok {
		return s
	}
	ref := c
	ref.Path = filepath.Join(dir, "ref"+ext(c.Sink))
	ref.Fsize, ref.Uid, ref.Fault = -1, 0, "none"
	ref.Procs, ref.CPUs = 0, 0
	o := runChild(ref, childDeadline)
	rec.Count("children:reference", 1)
	switch o.Kind {
	case outReturned:
	case outInconclusive:
		inconclusive(ref, o)
	default:
		t.Logf("child stderr (head): %s", head(o.Stderr, 14))
		rec.Violation(t, violationKey(ref, o), "fault-free render did not return: %s: %s", describe(ref), o.Where)
		return -1
	}
	if !o.Status.Exists || !o.Status.Regular {
		o.Detail = "fault-free reference render left no regular file"
		inconclusive(ref, o)
	}
	refMu.Lock()
	refSize[k] = o.Status.Size
	refMu.Unlock()
	return o.Status.Size
}

const sizeSlack = 64 // bytes by which two fault-free 3MF files of the same mesh may differ (observed: 1)

const flush = 4096 // bufio default; only used to aim the generator at flush boundaries

// drawLimit draws RLIMIT_FSIZE for a file whose fault-free size is S.
func drawLimit(t *rapid.T, S int64) (int64, string) {
	clamp := func(x int64) int64 {
		if x < 0 {
			return 0
		}
		return x
	}
	switch rapid.SampledFrom([]string{"flush", "uniform", "flush", "0", "last", "<84", "flush", "uniform", "84", "none"}).Draw(t, "L.class") {
	case "0":
		return 0, "0"
	case "<84":
		return int64(rapid.IntRange(1, 83).Draw(t, "L.hdr")), "<84"
	case "84":
		return 84 + int64(rapid.IntRange(-1, 1).Draw(t, "L.d")), "84+-1"
	case "flush":
		kmax := S / flush
		if kmax < 1 {
			kmax = 1
		}
		k := int64(rapid.IntRange(1, int(kmax)).Draw(t, "L.k"))
		return clamp(k*flush + int64(rapid.IntRange(-1, 1).Draw(t, "L.d"))), "flush-boundary+-1"
	case "last":
		return clamp(S - 1 - int64(rapid.IntRange(0, 1).Draw(t, "L.d"))), "last-byte"
	case "uniform":
		return int64(rapid.Int64Range(0, clamp(S)).Draw(t, "L.u")), "uniform"
	default:
		return S + int64(rapid.SampledFrom([]int{0, 1, flush, 1 << 20}).Draw(t, "L.over")), "none(>=size)"
	}
}

func TestFaultReturns(t *testing.T) {
	rec := ev.Get()
	if _, err := childBinary(); err != nil {
		fmt.Printf("[c12] INCONCLUSIVE: %v\n", err)
		rec.Flush()
		os.Exit(3)
	}
	maxN := ev.Pick(3000, 6000)
	rapid.Check(t, func(t *rapid.T) {
		dir, err := os.MkdirTemp("", "c12-fault-")
		if err != nil {
			t.Fatalf("mkdtemp: %v", err)
		}
		os.Chmod(dir, 0o755)
		defer func() {
			os.Chmod(filepath.Join(dir, "ro"), 0o755)
			os.RemoveAll(dir)
		}()

		sink := rapid.SampledFrom([]string{"stl", "stl", "stl", "3mf", "dxf", "svg"}).Draw(t, "sink")
		c := drawRender(t, sink, maxN, ev.Pick(20, 32), ev.Pick(48, 96))
		drawHost(t, &c)
		fault := rapid.SampledFrom([]string{"fsize", "fsize", "fsize", "dev-full", "fsize", "fsize", "fsize",
			"dev-full", "missing-dir", "is-dir", "ro-dir", "fsize", "fsize", "dev-full", "empty-path", "dangling-symlink", "under-a-file"}).Draw(t, "fault")
		if g.OneIn(t, "idle-then-again", 400) {
			// the process idles for several seconds between two renders of the case (rare: it costs the pause)
			c.PauseMs = rapid.SampledFrom([]int{6500, 2500, 11000}).Draw(t, "pause-ms")
			rec.Label(fmt.Sprintf("idle-then-again:%dms", c.PauseMs))
		}
		c.Fault = fault
		var S, L int64 = -1, -1
		switch fault {
		case "missing-dir":
			c.Path = filepath.Join(dir, "missing", "out"+ext(sink))
		case "is-dir":
			c.Path = filepath.Join(dir, "adir"+ext(sink))
			os.Mkdir(c.Path, 0o755)
		case "empty-path":
			c.Path = ""
		case "dangling-symlink":
			// the output name exists as a link into a directory that does not
			c.Path = filepath.Join(dir, "link"+ext(sink))
			os.Symlink(filepath.Join(dir, "gone", "target"+ext(sink)), c.Path)
		case "under-a-file":
			// a path component is a regular file
			os.WriteFile(filepath.Join(dir, "plain"), []byte("x"), 0o644)
			c.Path = filepath.Join(dir, "plain", "out"+ext(sink))
		case "ro-dir":
			ro := filepath.Join(dir, "ro")
			os.Mkdir(ro, 0o755)
			os.Chmod(ro, 0o555)
			c.Path = filepath.Join(ro, "out"+ext(sink))
			if os.Geteuid() == 0 {
				c.Uid = 65534 // root ignores directory permissions: the child drops to nobody
			}
		case "dev-full":
			c.Path = "/dev/full"
		case "fsize":
			S = referenceSize(t, rec, c, dir)
			if S < 0 {
				return // (known) finding on the fault-free path, already reported
			}
			var cls string
			L, cls = drawLimit(t, S)
			if sink == "3mf" && L >= S-sizeSlack && L < S+sizeSlack {
				// the zip container's size varies by a byte or two from run to run:
				// keep clear of S so that "fault" / "no fault" is known by construction
				if cls == "none(>=size)" {
					L = S + sizeSlack
				} else {
					L = S - sizeSlack - 1
					if L < 0 {
						L = 0
					}
				}
			}
			c.Fsize = L
			c.Fault = "fsize:" + cls
			if L >= S {
				c.Fault = "fsize:none(>=size)"
			}
			c.Path = filepath.Join(dir, "out"+ext(sink))
		}

		o := runChild(c, childDeadline)
		rec.Count("children:fault", 1)

		// did the injected fault fire? (measured, not assumed)
		fired := "n/a"
		var after int64 = -1
		if fi, err := os.Stat(c.Path); err == nil && fi.Mode().IsRegular() {
			after = fi.Size()
		}
		switch fault {
		case "missing-dir", "is-dir", "empty-path", "dangling-symlink", "under-a-file":
			fired = "yes"
		case "ro-dir":
			fired = "yes"
			if after >= 0 {
				fired = "no(file-created-despite-0555)"
			}
			if o.Kind == outReturned {
				rec.Label(fmt.Sprintf("ro-dir:dropped-privileges=%v", o.Status.Dropped))
			}
		case "dev-full":
			fired = "yes"
		case "fsize":
			if L >= S {
				fired = "no(limit>=size)"
				if d := after - S; o.Kind == outReturned && (d != 0 && sink != "3mf" || d < -sizeSlack || d > sizeSlack) {
					o.Detail = fmt.Sprintf("harness: fault-free size changed: reference %d, now %d", S, after)
					inconclusive(c, o)
				}
			} else {
				fired = "yes"
				if after > L {
					o.Detail = fmt.Sprintf("harness: RLIMIT_FSIZE=%d did not limit the file (size %d)", L, after)
					inconclusive(c, o)
				}
				if after == L {
					rec.Label("fsize:file-ends-exactly-at-limit")
				}
			}
		}
		midstream := fired == "yes" && (fault == "dev-full" || fault == "fsize")
		labels := []string{"sink=" + sink, "renderer=" + c.Renderer, "fault=" + c.Fault, "fired=" + fault + ":" + fired,
			"outcome=" + o.Kind.String(), "sink*fault=" + sink + "*" + faultStage(c.Fault), hostOf(c)}
		if c.Renderer != "scripted" && (c.Procs == 1 || c.CPUs == 1) {
			labels = append(labels, "host:one-processor*"+c.Renderer)
		}
		if o.Kind == outReturned && (c.CPUs > 0 && o.Status.NumCPU != c.CPUs || c.Procs > 0 && o.Status.Procs != c.Procs) {
			o.Detail = fmt.Sprintf("harness: the child reports NumCPU=%d GOMAXPROCS=%d, wanted %s", o.Status.NumCPU, o.Status.Procs, hostOf(c))
			inconclusive(c, o)
		}
		if c.Renderer == "scripted" {
			labels = append(labels, "scripted:n="+nBucket(c.N), fmt.Sprintf("scripted:chunk=%d", c.Chunk))
			if sink == "stl" && fault == "fsize" && L < S {
				// the class in which a writer that stops reading would strand the producer
				if L < S-50*33*256 {
					labels = append(labels, "stl:fault-with->=33-batches-left")
				} else if L < S-50*2*256 {
					labels = append(labels, "stl:fault-with->=2-batches-left")
				} else if L < S-50*256 {
					labels = append(labels, "stl:fault-with-1..2-batches-left")
				} else {
					labels = append(labels, "stl:fault-in-last-batch")
				}
			}
		}
		rec.Case(midstream, ev.Key(describe(c), c.Fault, L), labels...)
		rec.Sample(sink+":"+faultStage(c.Fault), map[string]any{"case": c, "reference_size": S, "size_after": after, "outcome": o.Kind.String(), "fault_fired": fired})

		switch o.Kind {
		case outReturned:
		case outInconclusive:
			inconclusive(c, o)
		default:
			// the failure message must be a function of the draws only (rapid re-runs the
			// case while shrinking and compares messages); paths and addresses go to the log
			t.Logf("child stdout (tail): %s\nchild stderr (head): %s", tail(o.Stdout, 3), head(o.Stderr, 14))
			rec.Violation(t, violationKey(c, o),
				"%s(%s) fault %s (limit %d of %d bytes, file left at %d): child did not print 'returned' [%s]: %s",
				sinkAPI(sink), describe(c), c.Fault, L, S, after, o.Kind, o.Where)
		}
	})
}

//-----------------------------------------------------------------------------
// goroutine bound: in-process state machine

var stdoutMu sync.Mutex

// quiet runs f with os.Stdout pointing at /dev/null (sdfx prints progress and
// I/O errors with fmt.Printf; the test log must stay readable).
func quiet(f func()) {
	stdoutMu.Lock()
	defer stdoutMu.Unlock()
	null, err := os.OpenFile(os.DevNull, os.O_WRONLY, 0)
	if err != nil {
		f()
		return
	}
	saved := os.Stdout
	os.Stdout = null
	defer func() {
		os.Stdout = saved
		null.Close()
	}()
	f()
}

// guarded runs one in-process render under a watchdog: should it not come back
// within the deadline the process cannot continue; the watchdog dumps the
// goroutines and exits with a violation (render parked) or inconclusive (3).
func guarded(c fc.Case, f func()) {
	tm := time.AfterFunc(childDeadline, func() {
		buf := make([]byte, 1<<20)
		buf = buf[:runtime.Stack(buf, true)]
		found, isParked, where := blockedRender(string(buf))
		rec := ev.Get()
		if found && isParked {
			fmt.Fprintf(os.Stderr, "VIOLATION-KEY[%s:hang-in-process] %s did not return within %v: %s\n", sinkAPI(c.Sink), describe(c), childDeadline, where)
			rec.Flush()
			os.Exit(1)
		}
		fmt.Fprintf(os.Stderr, "[c12] INCONCLUSIVE: in-process render %s exceeded %v but is not parked (%s)\n", describe(c), childDeadline, where)
		rec.Flush()
		os.Exit(3)
	})
	defer tm.Stop()
	quiet(f)
}

// quiesced waits until every goroutine of the process other than the caller is
// parked (blocked on a channel, select, semaphore or sync primitive) and returns
// how many goroutines there are. The decision is structural, taken from the
// runtime's own goroutine dump, not from a stopwatch: a writer goroutine that has
// signalled wg.Done but has not finished returning is "runnable"/"running"/"syscall"
// and is waited for however loaded the machine is; a goroutine that is parked
// after the render call has returned stays until someone wakes it - that is what
// the bound counts. If goroutines are still active after quiesceCap the run is
// inconclusive (exit 3), never a violation.
const quiesceCap = 120 * time.Second

func quiesced() int {
	start := time.Now()
	buf := make([]byte, 1<<20)
	for i := 0; ; i++ {
		var n int
		for {
			n = runtime.Stack(buf, true)
			if n < len(buf) {
				break
			}
			buf = make([]byte, 2*len(buf))
		}
		blocks := parseDump(string(buf[:n]))
		active := ""
		for k, g := range blocks {
			if k == 0 { // the caller
				continue
			}
			if !parked(g.state) {
				active = "goroutine " + g.id + " [" + g.state + "]"
				break
			}
		}
		if active == "" {
			return len(blocks)
		}
		if time.Since(start) > quiesceCap {
			fmt.Printf("[c12] INCONCLUSIVE: goroutines still active %v after a render returned: %s\n", quiesceCap, active)
			ev.Get().Flush()
			os.Exit(3)
		}
		runtime.Gosched()
		if i > 10 {
			time.Sleep(time.Duration(min(i, 50)) * 100 * time.Microsecond)
		}
	}
}

// settled returns the goroutine count after a render: immediately if it is
// within the bound, otherwise once the process is quiescent.
func settled(bound int) int {
	if n := runtime.NumGoroutine(); n <= bound {
		return n
	}
	return quiesced()
}

type discard3 struct{}

func (discard3) Write([]*sdf.Triangle3) error { return nil }
func (discard3) Close() error                 { return nil }

type discard2 struct{}

func (discard2) Write([]*sdf.Line2) error { return nil }
func (discard2) Close() error             { return nil }

// rendererOnly runs just the renderer of c against a harness-owned discarding
// writer (public Render3/Render2 interface): used to attribute a goroutine
// increase to the renderer or to the sink.
func rendererOnly(c fc.Case) {
	guarded(c, func() {
		if fc.Is3D(c.Sink) {
			s, _ := fc.Shape3(c.Shape)
			r, _ := fc.Renderer3(c)
			r.Render(s, discard3{})
		} else {
			s, _ := fc.Shape2(c.Shape)
			r, _ := fc.Renderer2(c)
			r.Render(s, discard2{})
		}
	})
}

func rendererName(c fc.Case) string {
	switch c.Renderer {
	case "mcu":
		return "MarchingCubesUniform"
	case "mco":
		return "MarchingCubesOctree"
	case "msu":
		return "MarchingSquaresUniform"
	case "msq":
		return "MarchingSquaresQuadtree"
	case "dc2":
		return "DualContouring2D"
	}
	return "harness-scripted-renderer"
}

// creators lists "created by" lines of all goroutines, with multiplicity (diagnostics only).
func creators() string {
	buf := make([]byte, 4<<20)
	buf = buf[:runtime.Stack(buf, true)]
	cnt := map[string]int{}
	for _, ln := range strings.Split(string(buf), "\n") {
		if rest, ok := strings.CutPrefix(ln, "created by "); ok {
			if i := strings.Index(rest, " in goroutine"); i >= 0 {
				rest = rest[:i]
			}
			cnt[rest]++
		}
	}
	keys := make([]string, 0, len(cnt))
	for k := range cnt {
		keys = append(keys, k)
	}
	sort.Strings(keys)
	var sb strings.Builder
	for _, k := range keys {
		fmt.Fprintf(&sb, "%dx %s; ", cnt[k], k)
	}
	return sb.String()
}

var sinksOf = map[bool][]string{true: {"tri", "stl", "3mf"}, false: {"dxf", "svg"}}

// inProcessTarget draws where an in-process render writes: a good file or a
// fault that makes the call fail WITHOUT the mid-stream STL condition (that one
// is exercised in child processes only - in here a hang would take the test
// process with it; the watchdog in guarded() is the safety net).
func inProcessTarget(t *rapid.T, c *fc.Case, dir string) string {
	if c.Sink == "tri" {
		return "memory"
	}
	kinds := []string{"file", "file", "file", "missing-dir", "is-dir"}
	if c.Sink != "stl" || (c.Renderer == "scripted" && c.N <= 60) {
		// STL below one bufio buffer: the error only surfaces at the final flush
		kinds = append(kinds, "dev-full")
	}
	k := rapid.SampledFrom(kinds).Draw(t, "target")
	switch k {
	case "file":
		c.Path = filepath.Join(dir, "out"+ext(c.Sink))
	case "missing-dir":
		c.Path = filepath.Join(dir, "missing", "out"+ext(c.Sink))
	case "is-dir":
		c.Path = filepath.Join(dir, "adir")
	case "dev-full":
		c.Path = "/dev/full"
	}
	c.Fault = k
	return k
}

var warmOnce sync.Once

// warmUp renders once with every renderer type through every sink of its
// dimension, so that anything the library (or a dependency) starts lazily and
// keeps for the life of the process is part of the baseline.
func warmUp(dir string) {
	for _, is3 := range []bool{true, false} {
		rs := []string{"scripted", "mcu", "mco"}
		if !is3 {
			rs = []string{"scripted", "msu", "msq", "dc2"}
		}
		for _, r := range rs {
			for _, s := range sinksOf[is3] {
				c := fc.Case{Sink: s, Renderer: r, N: 300, Chunk: 1, Cells: 4, Path: filepath.Join(dir, "warm"+ext(s))}
				guarded(c, func() { fc.Run(c) })
			}
		}
	}
}

func TestGoroutineBound(t *testing.T) {
	rec := ev.Get()
	base, err := os.MkdirTemp("", "c12-hist-")
	if err != nil {
		t.Fatalf("mkdtemp: %v", err)
	}
	defer os.RemoveAll(base)
	os.Mkdir(filepath.Join(base, "adir"), 0o755)
	rapid.Check(t, func(t *rapid.T) {
		warmOnce.Do(func() { warmUp(base) })
		// the constant: goroutines alive after the warm-up renders (and after
		// whatever earlier cases of this process left behind - already reported there)
		bound := quiesced()
		var hist []string
		step := func(dim3 bool, renderer string) {
			sink := rapid.SampledFrom(sinksOf[dim3]).Draw(t, "sink")
			c := fc.Case{Sink: sink, Renderer: renderer, Fsize: -1}
			if renderer == "scripted" {
				c.N = rapid.SampledFrom([]int{0, 1, 40, 60, 127, 128, 129, 255, 256, 257, 600}).Draw(t, "n")
				c.Chunk = rapid.SampledFrom([]int{1, 7, 0}).Draw(t, "chunk")
			} else if dim3 {
				c.Shape = rapid.SampledFrom([]string{"sphere", "box", "cyl"}).Draw(t, "shape")
				c.Cells = rapid.IntRange(2, 10).Draw(t, "cells")
			} else {
				c.Shape = rapid.SampledFrom([]string{"circle", "box2"}).Draw(t, "shape")
				c.Cells = rapid.IntRange(2, 24).Draw(t, "cells")
			}
			target := inProcessTarget(t, &c, base)
			guarded(c, func() { fc.Run(c) })
			hist = append(hist, describe(c)+"->"+target)
			rec.Label("hist:renderer=" + renderer)
			rec.Label("hist:sink=" + sink)
			rec.Label("hist:target=" + target)
			rec.Add("hist:renders", 1)
			n := settled(bound)
			if n <= bound {
				return
			}
			// growth: who keeps the goroutines - the renderer or the sink?
			who := sinkAPI(sink)
			grew := n - bound
			rendererOnly(c)
			if m := quiesced(); m > n && renderer != "scripted" {
				who = rendererName(c)
				n = m
			}
			k := len(hist)
			// (message = function of the draws only; absolute counts depend on what earlier cases left behind)
			t.Logf("goroutines: bound after warm-up %d, now %d; by creator: %s", bound, n, creators())
			bound = n // go on behind a known finding
			rec.Violation(t, who+":goroutines-grow-per-render",
				"render %d of the history (%s) left %d goroutines more than the bound taken after warm-up; attributed to %s (renderer re-run alone against a discarding writer); history %v",
				k, describe(c), grew, who, hist)
		}
		defer runtime.GOMAXPROCS(runtime.GOMAXPROCS(0))
		t.Repeat(map[string]func(*rapid.T){
			// the program changes its processor limit between renders (go test -cpu 4,1,4; a server that is
			// throttled and released): worker pools must not be started again on the way up
			"gomaxprocs": func(t *rapid.T) {
				n := rapid.SampledFrom([]int{1, 2, 4, runtime.NumCPU(), 3, 1}).Draw(t, "procs")
				runtime.GOMAXPROCS(n)
				hist = append(hist, fmt.Sprintf("GOMAXPROCS=%d", n))
				rec.Label("hist:gomaxprocs-changed")
			},
			"scripted3": func(*rapid.T) { step(true, "scripted") },
			"mcu":       func(*rapid.T) { step(true, "mcu") },
			"mco":       func(*rapid.T) { step(true, "mco") },
			"scripted2": func(*rapid.T) { step(false, "scripted") },
			"msu":       func(*rapid.T) { step(false, "msu") },
			"msq":       func(*rapid.T) { step(false, "msq") },
			"dc2":       func(*rapid.T) { step(false, "dc2") },
			"": func(t *rapid.T) {
				if n := settled(bound); n > bound {
					t.Logf("goroutines: bound %d, now %d; by creator: %s", bound, n, creators())
					grew := n - bound
					bound = n
					rec.Violation(t, "render:goroutines-grow-between-renders", "%d goroutines appeared after the last render had been checked; history %v", grew, hist)
				}
			},
		})
		rec.Case(len(hist) >= 3, strings.Join(hist, ";"), fmt.Sprintf("hist:len=%s", lenBucket(len(hist))))
		if len(hist) >= 3 {
			rec.Sample("history", map[string]any{"renders": hist, "goroutine_bound": bound})
		}
	})
}

func lenBucket(n int) string {
	switch {
	case n < 3:
		return "0..2"
	case n < 10:
		return "3..9"
	case n < 30:
		return "10..29"
	}
	return ">=30"
}

//-----------------------------------------------------------------------------
// regression cases (plain): minimised failures found on the pinned tree

type regressCase struct {
	Name     string  `json:"name"`
	Case     fc.Case `json:"case"`
	Deadline int     `json:"deadline_s"`
}

func TestRegress(t *testing.T) {
	rec := ev.Get()
	dir := t.TempDir()
	// relative paths are resolved in this run's temp directory (so that a replay file stays valid)
	resolve := func(c fc.Case) fc.Case {
		if c.Path != "" && !filepath.IsAbs(c.Path) {
			c.Path = filepath.Join(dir, c.Path)
		}
		return c
	}
	cases := []regressCase{
		// shrunk by rapid: first flush fails in the first of two channel batches
		{"stl-fsize0-257", fc.Case{Sink: "stl", Renderer: "scripted", N: 257, Chunk: 1, Path: "a.stl", Fsize: 0, Fault: "fsize:0"}, 60},
		{"stl-devfull-5000", fc.Case{Sink: "stl", Renderer: "scripted", N: 5000, Chunk: 1, Path: "/dev/full", Fsize: -1, Fault: "dev-full"}, 60},
		{"stl-devfull-20000", fc.Case{Sink: "stl", Renderer: "scripted", N: 20000, Chunk: 1, Path: "/dev/full", Fsize: -1, Fault: "dev-full"}, 60},
		{"stl-fsize4096-20000", fc.Case{Sink: "stl", Renderer: "scripted", N: 20000, Chunk: 100, Path: "g.stl", Fsize: 4096, Fault: "fsize:flush-boundary+-1"}, 60},
		{"stl-fsize50-1000", fc.Case{Sink: "stl", Renderer: "scripted", N: 1000, Chunk: 1, Path: "b.stl", Fsize: 50, Fault: "fsize:<84"}, 60},
		{"stl-fsize84-1000", fc.Case{Sink: "stl", Renderer: "scripted", N: 1000, Chunk: 1, Path: "c.stl", Fsize: 84, Fault: "fsize:84+-1"}, 60},
		{"stl-fsize5000-1000", fc.Case{Sink: "stl", Renderer: "scripted", N: 1000, Chunk: 1, Path: "d.stl", Fsize: 5000, Fault: "fsize:uniform"}, 60},
		{"stl-mco-sphere-fsize4096", fc.Case{Sink: "stl", Renderer: "mco", Shape: "sphere", Cells: 16, Path: "e.stl", Fsize: 4096, Fault: "fsize:flush-boundary+-1"}, 60},
		{"stl-mcu-sphere-devfull", fc.Case{Sink: "stl", Renderer: "mcu", Shape: "sphere", Cells: 16, Path: "/dev/full", Fsize: -1, Fault: "dev-full"}, 60},
		// same hang with the runtime's deadlock detector defeated: decided by deadline + SIGQUIT dump
		{"stl-fsize4096-1000-keepalive", fc.Case{Sink: "stl", Renderer: "scripted", N: 1000, Chunk: 1, Path: "f.stl", Fsize: 4096, Keep: true, Fault: "fsize:flush-boundary+-1"}, 10},
		// controls that return on the pinned tree
		{"stl-devfull-50", fc.Case{Sink: "stl", Renderer: "scripted", N: 50, Chunk: 1, Path: "/dev/full", Fsize: -1, Fault: "dev-full"}, 60},
		{"stl-missing-dir", fc.Case{Sink: "stl", Renderer: "scripted", N: 1000, Chunk: 1, Path: "missing/a.stl", Fsize: -1, Fault: "missing-dir"}, 60},
		{"svg-missing-dir", fc.Case{Sink: "svg", Renderer: "scripted", N: 300, Chunk: 1, Path: "missing/a.svg", Fsize: -1, Fault: "missing-dir"}, 60},
		{"svg-missing-dir-empty", fc.Case{Sink: "svg", Renderer: "scripted", N: 0, Chunk: 1, Path: "missing/b.svg", Fsize: -1, Fault: "missing-dir"}, 60},
		// fault-free renders at a fine resolution (more than a million cached distances in the octree, a
		// quadtree of 13 levels): "every render-to-file call returns" is not only about faults
		{"stl-mco-sphere-340-no-fault", fc.Case{Sink: "stl", Renderer: "mco", Shape: "sphere", Cells: 340, Path: "big.stl", Fsize: -1, Fault: "none"}, 180},
		{"stl-mcu-sphere-150-no-fault", fc.Case{Sink: "stl", Renderer: "mcu", Shape: "sphere", Cells: 150, Path: "big-u.stl", Fsize: -1, Fault: "none"}, 180},
		{"dxf-msq-circle-4000-no-fault", fc.Case{Sink: "dxf", Renderer: "msq", Shape: "circle", Cells: 4000, Path: "big.dxf", Fsize: -1, Fault: "none"}, 180},
		// hosts with one processor / GOMAXPROCS=1 (single-core VM, one-CPU cpuset): the uniform renderer's
		// worker pool must still make progress
		{"stl-mcu-sphere-20-one-cpu", fc.Case{Sink: "stl", Renderer: "mcu", Shape: "sphere", Cells: 20, Path: "one-cpu.stl", Fsize: -1, Fault: "none", CPUs: 1}, 60},
		{"stl-mcu-sphere-20-gomaxprocs1", fc.Case{Sink: "stl", Renderer: "mcu", Shape: "sphere", Cells: 20, Path: "procs1.stl", Fsize: -1, Fault: "none", Procs: 1}, 60},
		{"3mf-mcu-box-70-two-cpus", fc.Case{Sink: "3mf", Renderer: "mcu", Shape: "box", Cells: 70, Path: "two-cpus.3mf", Fsize: -1, Fault: "none", CPUs: 2}, 60},
		{"stl-mcu-sphere-devfull-one-cpu", fc.Case{Sink: "stl", Renderer: "mcu", Shape: "sphere", Cells: 16, Path: "/dev/full", Fsize: -1, Fault: "dev-full", CPUs: 1, Procs: 1}, 60},
		// a program that renders, idles for seconds and renders again (worker pools must still be there)
		{"stl-mcu-sphere-20-idle-6.5s-again", fc.Case{Sink: "stl", Renderer: "mcu", Shape: "sphere", Cells: 20, Path: "idle.stl", Fsize: -1, Fault: "none", PauseMs: 6500}, 90},
		// create failures that making the directory would not cure
		{"stl-empty-path", fc.Case{Sink: "stl", Renderer: "scripted", N: 300, Chunk: 1, Path: "", Fsize: -1, Fault: "empty-path"}, 60},
		{"stl-under-proc", fc.Case{Sink: "stl", Renderer: "mco", Shape: "sphere", Cells: 12, Path: "/proc/nope/a.stl", Fsize: -1, Fault: "missing-dir"}, 60},
		{"3mf-fsize0", fc.Case{Sink: "3mf", Renderer: "scripted", N: 300, Chunk: 1, Path: "a.3mf", Fsize: 0, Fault: "fsize:0"}, 60},
		{"dxf-fsize4096", fc.Case{Sink: "dxf", Renderer: "scripted", N: 300, Chunk: 1, Path: "a.dxf", Fsize: 4096, Fault: "fsize:flush-boundary+-1"}, 60},
	}
	var rc regressCase
	if ev.LoadReplay("TestRegress", &rc) {
		cases = []regressCase{rc}
	}
	for _, c := range cases {
		if c.Name == "goroutines" {
			continue
		}
		// one subtest per case: a failing case does not hide the following ones
		t.Run(c.Name, func(t *testing.T) {
			d := time.Duration(c.Deadline) * time.Second
			if d <= 0 {
				d = childDeadline
			}
			o := runChild(resolve(c.Case), d)
			rec.Case(true, ev.Key("regress", c.Name), "regress", "regress:outcome="+o.Kind.String())
			switch o.Kind {
			case outReturned:
			case outInconclusive:
				inconclusive(c.Case, o)
			default:
				rec.FailCase(t, "TestRegress", violationKey(c.Case, o), c,
					"%s: %s(%s) fault %s: child did not print 'returned' [%s]: %s\nchild stderr: %s",
					c.Name, sinkAPI(c.Case.Sink), describe(c.Case), c.Case.Fault, o.Kind, o.Where, head(o.Stderr, 6))
			}
		})
	}
	if rc.Name != "" && rc.Name != "goroutines" {
		return
	}
	// four MarchingCubesUniform renders: 17 -> 33 -> 49 -> 65 goroutines on the pinned tree (16 CPUs).
	// The renderer runs alone against a discarding writer, so the count is the renderer's.
	s, err := sdf.Sphere3D(1)
	if err != nil {
		t.Fatal(err)
	}
	t.Run("goroutines-mcu", func(t *testing.T) {
		var counts []int
		for i := 0; i < 4; i++ {
			render.NewMarchingCubesUniform(4).Render(s, discard3{})
			counts = append(counts, quiesced())
		}
		rec.Case(true, ev.Key("regress", "goroutines-mcu"), "regress")
		for i := 1; i < len(counts); i++ {
			if counts[i] > counts[0] {
				rec.FailCase(t, "TestRegress", "MarchingCubesUniform:goroutines-grow-per-render", regressCase{Name: "goroutines"},
					"goroutines after 1..4 MarchingCubesUniform(4).Render(sphere) calls: %v (must not exceed the count after the first render); by creator: %s", counts, creators())
			}
		}
	})
	// the same through the public sinks with a scripted renderer: the count is the sink's
	t.Run("goroutines-totriangles", func(t *testing.T) {
		var counts []int
		for i := 0; i < 4; i++ {
			quiet(func() { fc.Run(fc.Case{Sink: "tri", Renderer: "scripted", N: 300, Chunk: 1}) })
			counts = append(counts, quiesced())
		}
		rec.Case(true, ev.Key("regress", "goroutines-totriangles"), "regress")
		for i := 1; i < len(counts); i++ {
			if counts[i] > counts[0] {
				rec.FailCase(t, "TestRegress", "ToTriangles:goroutines-grow-per-render", regressCase{Name: "goroutines"},
					"goroutines after 1..4 ToTriangles(scripted 300) calls: %v; by creator: %s", counts, creators())
			}
		}
	})
}
