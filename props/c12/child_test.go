package c12

// Running one fc.Case in cmd/faultchild and deciding, structurally, whether the
// render call came back.

import (
	"bytes"
	"encoding/json"
	"errors"
	"fmt"
	"os"
	"os/exec"
	"path/filepath"
	"regexp"
	"strings"
	"sync/atomic"
	"syscall"
	"time"

	"verif/internal/ev"
	"verif/internal/fc"
	"verif/internal/pin"
)

var pinNext atomic.Int64 // spreads pinned children over the CPUs

// Deadline for a child whose render takes milliseconds. Only reached when
// something keeps the child's runtime from declaring the deadlock itself; its
// expiry alone is never a violation (see classify).
const childDeadline = 60 * time.Second

type outcomeKind int

const (
	outReturned     outcomeKind = iota // printed "returned", exit 0
	outDeadlock                        // Go runtime: all goroutines are asleep - deadlock!
	outBlocked                         // deadline expired AND the SIGQUIT dump shows the render call parked
	outSpinning                        // deadline expired, the render call is still running and the child has burnt CPU for most of the deadline
	outCrash                           // panic / other fatal error inside the child
	outInconclusive                    // anything else (deadline without evidence, killed, harness error)
)

func (k outcomeKind) String() string {
	return [...]string{"returned", "runtime-deadlock", "deadline+blocked-in-render", "deadline+spinning-in-render", "crash", "inconclusive"}[k]
}

type childStatus struct {
	Exists  bool  `json:"exists"`
	Size    int64 `json:"size"`
	Regular bool  `json:"regular"`
	Items   int   `json:"items"`
	Dropped bool  `json:"dropped_privileges"`
	Euid    int   `json:"euid"`
	GBefore int   `json:"goroutines_before"`
	GAfter  int   `json:"goroutines_after"`
	NumCPU  int   `json:"numcpu"`
	Procs   int   `json:"gomaxprocs"`
}

type outcome struct {
	Kind     outcomeKind
	Status   childStatus
	Exit     int
	Where    string // the blocked frame / state, for messages
	Detail   string // why inconclusive
	Stdout   string
	Stderr   string
	TimedOut bool
	CPU      time.Duration // user+system time of the child
	Deadline time.Duration
}

func childBinary() (string, error) {
	dir := os.Getenv("VERIF_BIN")
	if dir == "" {
		dir = filepath.Join(ev.Root(), ".bin")
	}
	p := filepath.Join(dir, "faultchild"+os.Getenv("VERIF_BIN_SUFFIX"))
	if _, err := os.Stat(p); err != nil {
		return "", fmt.Errorf("child binary %s missing (plan.json cmds builds it; run through ./check): %v", p, err)
	}
	return p, nil
}

// runChild executes one case in a fresh faultchild process.
func runChild(c fc.Case, deadline time.Duration) outcome {
	bin, err := childBinary()
	if err != nil {
		return outcome{Kind: outInconclusive, Detail: err.Error()}
	}
	js, _ := json.Marshal(c)
	cmd := exec.Command(bin, string(js))
	// pipes, never files: RLIMIT_FSIZE must only hit the file under test.
	var so, se bytes.Buffer
	cmd.Stdout, cmd.Stderr = &so, &se
	cmd.Env = append(os.Environ(), "GOTRACEBACK=all")
	if c.Procs > 0 {
		cmd.Env = append(cmd.Env, fmt.Sprintf("GOMAXPROCS=%d", c.Procs))
	}
	if c.CPUs > 0 {
		// a host / cpuset with c.CPUs processors: the child's runtime.NumCPU() is c.CPUs
		if _, err := pin.Start(cmd, int(pinNext.Add(1)), c.CPUs); err != nil {
			return outcome{Kind: outInconclusive, Detail: "start (pinned): " + err.Error()}
		}
	} else if err := cmd.Start(); err != nil {
		return outcome{Kind: outInconclusive, Detail: "start: " + err.Error()}
	}
	done := make(chan error, 1)
	go func() { done <- cmd.Wait() }()
	var werr error
	timedOut := false
	select {
	case werr = <-done:
	case <-time.After(deadline):
		timedOut = true
		cmd.Process.Signal(syscall.SIGQUIT) // the Go runtime dumps every goroutine and exits
		select {
		case werr = <-done:
		case <-time.After(20 * time.Second):
			cmd.Process.Kill()
			werr = <-done
		}
	}
	o := outcome{Stdout: so.String(), Stderr: se.String(), TimedOut: timedOut, Deadline: deadline}
	if ps := cmd.ProcessState; ps != nil {
		o.CPU = ps.UserTime() + ps.SystemTime()
	}
	var ee *exec.ExitError
	if errors.As(werr, &ee) {
		o.Exit = ee.ExitCode()
	} else if werr != nil {
		o.Exit = -1
	}
	classify(&o)
	return o
}

var goroutineHdr = regexp.MustCompile(`^goroutine (\d+)[^\[]*\[([^\]]*)\]:`)

type gblock struct {
	id    string
	state string
	text  string
}

// parseDump splits a Go traceback into goroutine blocks.
func parseDump(s string) []gblock {
	var out []gblock
	var cur *gblock
	for _, ln := range strings.Split(s, "\n") {
		if m := goroutineHdr.FindStringSubmatch(ln); m != nil {
			out = append(out, gblock{id: m[1], state: m[2]})
			cur = &out[len(out)-1]
		}
		if cur != nil {
			if strings.TrimSpace(ln) == "" {
				cur = nil
				continue
			}
			cur.text += ln + "\n"
		}
	}
	return out
}

var renderCall = regexp.MustCompile(`github\.com/deadsy/sdfx/render\.(To[A-Za-z0-9]+)\(`)
var sdfxFrame = regexp.MustCompile(`(github\.com/deadsy/sdfx/[^\s(]+(?:\([^)]*\))?[^\s(]*)\(`)

// parked reports whether a goroutine state means "cannot make progress by
// itself" (as opposed to running, runnable, in a syscall, sleeping, doing I/O).
func parked(state string) bool {
	st := strings.TrimSpace(strings.Split(state, ",")[0])
	for _, p := range []string{"chan send", "chan receive", "select", "semacquire", "sync."} {
		if strings.HasPrefix(st, p) {
			return true
		}
	}
	return false
}

// blockedRender looks for the goroutine that is inside a render.ToXXX call and
// reports its state and innermost sdfx frame.
func blockedRender(dump string) (found, isParked bool, where string) {
	for _, g := range parseDump(dump) {
		if !renderCall.MatchString(g.text) {
			continue
		}
		found = true
		frame := ""
		if m := sdfxFrame.FindStringSubmatch(g.text); m != nil {
			frame = m[1]
		}
		where = fmt.Sprintf("goroutine %s [%s] in %s under render.%s", g.id, g.state, frame, renderCall.FindStringSubmatch(g.text)[1])
		if parked(g.state) {
			return true, true, where
		}
	}
	return found, false, where
}

func classify(o *outcome) {
	returned := false
	for _, ln := range strings.Split(o.Stdout, "\n") {
		if ln == "returned" {
			returned = true
		}
		if rest, ok := strings.CutPrefix(ln, "faultchild: "); ok {
			json.Unmarshal([]byte(rest), &o.Status)
		}
	}
	switch {
	case returned && o.Exit == 0 && !o.TimedOut:
		o.Kind = outReturned
	case strings.Contains(o.Stderr, "all goroutines are asleep - deadlock!"):
		// decided by the runtime itself: no goroutine of the process can ever run again
		o.Kind = outDeadlock
		_, _, o.Where = blockedRender(o.Stderr)
	case o.TimedOut:
		found, isParked, where := blockedRender(o.Stderr)
		o.Where = where
		if found && isParked {
			o.Kind = outBlocked
		} else if found && o.CPU >= o.Deadline*2/3 && o.Deadline >= 30*time.Second {
			// not waiting for anything and not starved of the processor: the child has been computing for at
			// least two thirds of a deadline that is thousands of times what these renders need (measured in
			// the CHILD's CPU time, which the load of the machine does not stretch) and is still inside the call
			o.Kind = outSpinning
		} else {
			o.Kind = outInconclusive
			o.Detail = "deadline expired but the goroutine dump does not show the render call parked (" + where + ")"
		}
	case strings.Contains(o.Stderr, "faultchild: harness:"):
		o.Kind = outInconclusive
		o.Detail = strings.TrimSpace(o.Stderr)
	case strings.Contains(o.Stderr, "panic:") || strings.Contains(o.Stderr, "fatal error:") || strings.Contains(o.Stderr, "[signal "):
		o.Kind = outCrash
		for _, ln := range strings.Split(o.Stderr, "\n") {
			if strings.HasPrefix(ln, "panic:") || strings.HasPrefix(ln, "fatal error:") {
				o.Where = ln
				break
			}
		}
	default:
		o.Kind = outInconclusive
		o.Detail = fmt.Sprintf("child exit status %d without 'returned' and without a Go traceback", o.Exit)
	}
}

// inconclusive stops this process with exit status 3: the driver reports an
// infrastructure problem (exit 2), never a violation and never a pass.
func inconclusive(c fc.Case, o outcome) {
	rec := ev.Get()
	rec.Count("inconclusive", 1)
	js, _ := json.Marshal(c)
	// keep the child's output out of this log (the driver greps it), put it in a file in the job directory
	name := "inconclusive-child-output.txt"
	os.WriteFile(name, []byte("case: "+string(js)+"\n--- stdout\n"+o.Stdout+"\n--- stderr\n"+o.Stderr), 0o644)
	wd, _ := os.Getwd()
	fmt.Printf("[c12] INCONCLUSIVE: %s; case %s; child output in %s\n", o.Detail, js, filepath.Join(wd, name))
	rec.Flush()
	os.Exit(3)
}

func sinkAPI(sink string) string {
	switch sink {
	case "stl":
		return "ToSTL"
	case "3mf":
		return "To3MF"
	case "dxf":
		return "ToDXF"
	case "svg":
		return "ToSVG"
	case "tri":
		return "ToTriangles"
	}
	return "To?" + sink
}

// stage of the injected fault, for the violation key.
func faultStage(fault string) string {
	switch {
	case fault == "missing-dir" || fault == "is-dir" || fault == "ro-dir" || fault == "empty-path" || fault == "dangling-symlink" || fault == "under-a-file":
		return "create-error"
	case fault == "none" || strings.HasPrefix(fault, "fsize:none"):
		return "no-fault"
	}
	return "write-error"
}

// violationKey is the signature of a child that did not return.
func violationKey(c fc.Case, o outcome) string {
	what := "hang"
	if o.Kind == outCrash {
		what = "crash"
	}
	stage := faultStage(c.Fault)
	if stage == "no-fault" {
		return sinkAPI(c.Sink) + ":" + what + "-without-fault"
	}
	return sinkAPI(c.Sink) + ":" + what + "-on-" + stage
}

func tail(s string, n int) string {
	lines := strings.Split(strings.TrimRight(s, "\n"), "\n")
	if len(lines) > n {
		lines = lines[len(lines)-n:]
	}
	return strings.Join(lines, "\n")
}

func head(s string, n int) string {
	lines := strings.Split(s, "\n")
	if len(lines) > n {
		lines = lines[:n]
	}
	return strings.Join(lines, "\n")
}
