package c15

import (
	"math"
	"os"
	"testing"

	"github.com/deadsy/sdfx/render"

	"verif/internal/ev"
)

// TestRegress replays the minimised failures found by the generated campaign
// (plain, no rapid). While a finding is listed in known_findings.json these
// cases keep reproducing it (KNOWN-FINDING line); once it is repaired they
// guard the repair.
func TestRegress(t *testing.T) {
	rec := ev.Get()
	// the two float32 neighbours of 0.00015: 0.000150000007... prints "0.0002", 0.000149999992... prints "0.0001"
	above := float64(float32(1.5e-4))
	below := float64(math.Nextafter32(float32(1.5e-4), 0))
	if !(above > 1.5e-4 && below < 1.5e-4 && fmt3MF(above) == "0.0002" && fmt3MF(below) == "0.0001") {
		t.Fatalf("harness: float32 neighbours of 1.5e-4 are %v %v", above, below)
	}
	cases := []struct {
		name  string
		model []tri3
	}{
		// To3MF:distinct-vertices-merged:coordinate-beyond-2147.48
		// (3000,0,0) and (4000,0,0) come back as one vertex: the triangle collapses to an edge
		{"beyond-2147.48/one-axis", []tri3{{{3000, 0, 0}, {4000, 0, 0}, {3000, 1, 0}}}},
		// opposite signs merge as well
		{"beyond-2147.48/opposite-signs", []tri3{{{10000, 0, 10000}, {10000, 0, -10000}, {0, 1, 0}}}},
		// a 3 m cube face
		{"beyond-2147.48/quad", []tri3{{{0, 0, 0}, {3000, 0, 0}, {3000, 3000, 0}}, {{0, 0, 0}, {3000, 3000, 0}, {0, 3000, 0}}, {{2500, 0, 0}, {3000, 0, 0}, {2500, 1, 0}}}},
		// To3MF:distinct-vertices-merged:closer-than-2e-6-relative
		// adjacent float32 values on both sides of a 4-decimal rounding boundary share one table entry
		{"adjacent-float32", []tri3{{{0, above, 0}, {0, below, 0}, {1, 0, 0}}}},
		// controls that always held
		{"empty", nil},
		{"shared-edge", []tri3{{{0, 0, 0}, {1, 0, 0}, {0, 1, 0}}, {{1, 0, 0}, {1, 1, 0}, {0, 1, 0}}}},
		{"negative-tiny", []tri3{{{-1e-7, 0.123456789, 12345.678901}, {-0.00005, 0.00005, 0.00015}, {-1000.5, 999.99995, 0}}}},
	}
	for _, c := range cases {
		rec.Case(len(c.model) > 0, ev.Key("regress-3mf", c.name), "regress:3mf")
		path := tmpPath("3mf")
		os.Remove(path)
		quiet(func() { render.To3MF(nil, path, listRender3{toTriangles(c.model), nil}) })
		t.Run(c.name, func(t *testing.T) { check3MF(t, rec, "To3MF", path, c.model) })
	}
	segs := []struct {
		name  string
		model []seg2
	}{
		{"empty", nil},
		{"one", []seg2{{{1, 2}, {3, 5}}}},
		{"positive-quadrant", []seg2{{{10, 20}, {30, 20}}, {{30, 20}, {30, 45.555}}, {{30, 45.555}, {10, 20}}}},
		{"negative-quadrant", []seg2{{{-10, -20}, {-30, -20}}, {{-30.005, -20.015}, {-1e-9, -1e9}}}},
	}
	for _, c := range segs {
		rec.Case(len(c.model) > 0, ev.Key("regress-2d", c.name), "regress:2d")
		t.Run(c.name, func(t *testing.T) {
			p := tmpPath("dxf")
			os.Remove(p)
			if err := render.SaveDXF(p, toLines(c.model)); err != nil {
				t.Fatalf("SaveDXF: %v", err)
			}
			checkDXF(t, rec, "SaveDXF", p, c.model)
			p = tmpPath("dxf")
			os.Remove(p)
			quiet(func() { render.ToDXF(nil, p, listRender2{toLines(c.model), []int{1}}) })
			checkDXF(t, rec, "ToDXF", p, c.model)
			p = tmpPath("svg")
			os.Remove(p)
			if err := render.SaveSVG(p, "fill:none", toLines(c.model)); err != nil {
				t.Fatalf("SaveSVG: %v", err)
			}
			checkSVG(t, rec, "SaveSVG", p, c.model)
			p = tmpPath("svg")
			os.Remove(p)
			quiet(func() { render.ToSVG(nil, p, listRender2{toLines(c.model), []int{1}}) })
			checkSVG(t, rec, "ToSVG", p, c.model)
		})
	}
}
