package c15

import (
	"fmt"
	"math"
	"os"
	"path/filepath"
	"strconv"
	"strings"
	"testing"

	"github.com/deadsy/sdfx/render"
	"github.com/deadsy/sdfx/sdf"
	v2 "github.com/deadsy/sdfx/vec/v2"
	v3 "github.com/deadsy/sdfx/vec/v3"
	"pgregory.net/rapid"

	"verif/internal/ev"
	"verif/internal/fmtread"
	"verif/internal/g"
)

func TestMain(m *testing.M) { ev.Main(m) }

// ---------------------------------------------------------------------------
// scripted renderers: hand a fixed list to the streaming writers in batches,
// the way the real renderers do (Write ... Write, Close once).

type listRender3 struct {
	ts      []*sdf.Triangle3
	batches []int // sizes; the rest goes out in one last Write
}

func (r listRender3) Info(sdf.SDF3) string { return "c15 list" }
func (r listRender3) Render(_ sdf.SDF3, out sdf.Triangle3Writer) {
	i := 0
	for _, b := range r.batches {
		if b > len(r.ts)-i {
			b = len(r.ts) - i
		}
		out.Write(append([]*sdf.Triangle3(nil), r.ts[i:i+b]...))
		i += b
	}
	if i < len(r.ts) {
		out.Write(append([]*sdf.Triangle3(nil), r.ts[i:]...))
	}
	out.Close()
}

type listRender2 struct {
	ls      []*sdf.Line2
	batches []int
}

func (r listRender2) Info(sdf.SDF2) string { return "c15 list" }
func (r listRender2) Render(_ sdf.SDF2, out sdf.Line2Writer) {
	i := 0
	for _, b := range r.batches {
		if b > len(r.ls)-i {
			b = len(r.ls) - i
		}
		out.Write(append([]*sdf.Line2(nil), r.ls[i:i+b]...))
		i += b
	}
	if i < len(r.ls) {
		out.Write(append([]*sdf.Line2(nil), r.ls[i:]...))
	}
	out.Close()
}

func drawBatches(t *rapid.T, n int) []int {
	k := rapid.IntRange(0, 4).Draw(t, "nbatches")
	bs := make([]int, k)
	for i := range bs {
		bs[i] = rapid.IntRange(0, n+1).Draw(t, "batch")
	}
	return bs
}

// the library prints "rendering <path> (...)" on stdout for every file; keep
// the test log readable by sending that to /dev/null while the writer runs.
var devnull, _ = os.OpenFile(os.DevNull, os.O_WRONLY, 0)

func quiet(f func()) {
	old := os.Stdout
	if devnull != nil {
		os.Stdout = devnull
	}
	defer func() { os.Stdout = old }()
	f()
}

var caseDir string
var caseSeq int

func tmpPath(ext string) string {
	if caseDir == "" {
		d, err := os.MkdirTemp("", "c15")
		if err != nil {
			panic(err)
		}
		caseDir = d
	}
	caseSeq++
	return filepath.Join(caseDir, fmt.Sprintf("f%d.%s", caseSeq%4, ext))
}

// prepare puts the output path into a rapid-drawn prior state: absent, left over from an earlier
// case (re-rendering to the same name), or an unrelated longer file. The export must not depend on it.
func prepare(t *rapid.T, path string) {
	switch rapid.IntRange(0, 4).Draw(t, "existing-output-file") {
	case 0, 1:
		os.Remove(path)
	case 2:
		// keep whatever an earlier case left there
	default:
		junk := make([]byte, rapid.IntRange(1, 40000).Draw(t, "existing-size"))
		for i := range junk {
			junk[i] = 'x'
		}
		os.WriteFile(path, junk, 0o644)
	}
}

// ---------------------------------------------------------------------------
// coordinate generator

// Formats limit what "exactly" can mean: 3MF prints float32 at 4 decimals,
// DXF prints 16 fixed decimals, SVG 2 decimals. Magnitudes are 0 or within
// [1e-9, 1e9] (DESIGN C15 P).
type coordGen struct {
	t        *rapid.T
	seen     []float64
	large    bool // allow magnitudes above 2000
	largeMax float64
	f32      bool // perturbations in float32 ulps (3MF) as well as float64 ulps
}

func (c *coordGen) draw(label string) (float64, string) {
	t := c.t
	var x float64
	var class string
	k := rapid.IntRange(0, 11).Draw(t, label+".class")
	if c.large && k < 7 && rapid.Bool().Draw(t, label+".lg") {
		k = 8 // a large object: most coordinates are large
	}
	if k >= 9 && len(c.seen) == 0 {
		k = 2
	}
	if k == 8 && !c.large {
		k = 3
	}
	switch k {
	case 0:
		x, class = float64(rapid.IntRange(-5, 5).Draw(t, label+".int")), "small-int"
	case 1, 2:
		x, class = g.Coord(t, label+".cad", 1000), "cad"
	case 3:
		x, class = g.Coord(t, label+".unit", 1), "unit"
	case 4:
		x, class = g.LogUniform(t, label+".tiny", 1e-9, 1e-3), "tiny"
		if rapid.Bool().Draw(t, label+".neg") {
			x = -x
		}
	case 5:
		// next to a 4-decimal rounding boundary (n+0.5)*1e-4
		n := rapid.IntRange(-30000, 30000).Draw(t, label+".n4")
		x = (float64(n) + 0.5) * 1e-4
		x = float64(float32(x))
		x = float64(f32ulps(float32(x), rapid.IntRange(-2, 2).Draw(t, label+".u")))
		class = "near-4dec-boundary"
	case 6:
		// next to a 2-decimal rounding boundary (n+0.5)*1e-2
		n := rapid.IntRange(-30000, 30000).Draw(t, label+".n2")
		x = g.Ulp((float64(n)+0.5)*1e-2, rapid.IntRange(-2, 2).Draw(t, label+".u"))
		class = "near-2dec-boundary"
	case 7:
		x, class = g.LogUniform(t, label+".big", 1e3, 2000), "1e3..2e3"
		if rapid.Bool().Draw(t, label+".neg") {
			x = -x
		}
	case 8:
		x, class = g.LogUniform(t, label+".huge", 2000, c.largeMax), "2e3..1e9"
		if rapid.Bool().Draw(t, label+".neg") {
			x = -x
		}
	case 9:
		x, class = rapid.SampledFrom(c.seen).Draw(t, label+".same"), "repeat"
	case 10:
		// collides with an earlier value after rounding to float32 / to few ulps
		b := rapid.SampledFrom(c.seen).Draw(t, label+".base")
		u := rapid.IntRange(-3, 3).Draw(t, label+".u")
		if c.f32 && rapid.Bool().Draw(t, label+".f32") {
			x, class = float64(f32ulps(float32(b), u)), "float32-ulps-of-earlier"
		} else {
			x, class = g.Ulp(b, u), "float64-ulps-of-earlier"
		}
	default:
		// collides with an earlier value after decimal rounding
		b := rapid.SampledFrom(c.seen).Draw(t, label+".base")
		d := rapid.SampledFrom([]float64{1e-7, 1e-6, 2e-6, 1e-5, 3e-5, 1e-3, 4e-3}).Draw(t, label+".d")
		if rapid.Bool().Draw(t, label+".neg") {
			d = -d
		}
		x, class = b+d, "decimal-neighbour-of-earlier"
	}
	if x != 0 && math.Abs(x) < 1e-9 {
		x = 0
	}
	if math.Abs(x) > 1e9 {
		x = math.Copysign(1e9, x)
	}
	c.seen = append(c.seen, x)
	return x, class
}

func f32ulps(x float32, n int) float32 {
	for ; n > 0; n-- {
		x = math.Nextafter32(x, float32(math.Inf(1)))
	}
	for ; n < 0; n++ {
		x = math.Nextafter32(x, float32(math.Inf(-1)))
	}
	return x
}

// ---------------------------------------------------------------------------
// 3MF

// my own statement of the format: float32, then 4 fixed decimals.
func fmt3MF(x float64) string {
	return strconv.FormatFloat(float64(float32(x)), 'f', 4, 32)
}

func want3MF(x float64) float32 {
	v, err := strconv.ParseFloat(fmt3MF(x), 32)
	if err != nil {
		panic(err)
	}
	return float32(v)
}

// micron range of an int32: beyond it the library's vertex merge key is not injective.
const int32Microns = 2147.483647

const keyBeyond = "To3MF:distinct-vertices-merged:coordinate-beyond-2147.48"
const keyNear = "To3MF:distinct-vertices-merged:closer-than-2e-6-relative"

type tri3 [3][3]float64

// check3MF compares the file at path with the model; returns after the first
// disagreement that is a listed known finding.
func check3MF(t ev.TB, rec *ev.Rec, api string, path string, model []tri3) {
	m, err := fmtread.Read3MF(path)
	if err != nil {
		rec.Violation(t, api+":unreadable", "go3mf cannot read the file back: %v (model %v)", err, model)
		return
	}
	raw, err := fmtread.Read3MFRaw(path)
	if err != nil {
		rec.Violation(t, api+":unreadable", "zip/xml cannot read the file back: %v (model %v)", err, model)
		return
	}
	if m.Units != "millimeter" || (raw.Unit != "millimeter" && raw.Unit != "") {
		rec.Violation(t, api+":unit", "unit is %q (raw attribute %q), want millimeter", m.Units, raw.Unit)
	}
	if len(m.Objects) != 1 || len(raw.Objects) != 1 || !m.Objects[0].HasMesh || raw.Objects[0].Meshes != 1 {
		rec.Violation(t, api+":object-count", "%d objects (raw %d), want exactly one mesh object", len(m.Objects), len(raw.Objects))
		return
	}
	o, ro := m.Objects[0], raw.Objects[0]
	if len(m.Items) != 1 || len(raw.Items) != 1 || m.Items[0].ObjectID != o.ID || raw.Items[0].ObjectID != ro.ID {
		rec.Violation(t, api+":build-items", "build items %+v (raw %+v), want exactly one referring to object %d", m.Items, raw.Items, o.ID)
		return
	}
	tr := m.Items[0].Transform
	if tr != [16]float32{} && tr != [16]float32{1, 0, 0, 0, 0, 1, 0, 0, 0, 0, 1, 0, 0, 0, 0, 1} {
		rec.Violation(t, api+":build-items", "build item carries transform %v, want none/identity", tr)
	}
	if len(o.Triangles) != len(model) {
		rec.Violation(t, api+":triangle-count", "%d triangles in the file, %d supplied", len(o.Triangles), len(model))
		return
	}
	// the raw reading must agree with the go3mf reading
	if len(ro.Triangles) != len(o.Triangles) || len(ro.Vertices) != len(o.Vertices) {
		rec.Violation(t, api+":readers-disagree", "go3mf sees %d triangles / %d vertices, zip+xml %d / %d", len(o.Triangles), len(o.Vertices), len(ro.Triangles), len(ro.Vertices))
		return
	}
	for i, v := range ro.Vertices {
		for k := 0; k < 3; k++ {
			f, err := strconv.ParseFloat(v[k], 32)
			if err != nil || float32(f) != o.Vertices[i][k] {
				rec.Violation(t, api+":readers-disagree", "vertex %d: raw %v, go3mf %v (%v)", i, v, o.Vertices[i], err)
				return
			}
		}
	}
	for i, tv := range ro.Triangles {
		for k := 0; k < 3; k++ {
			n, err := strconv.ParseUint(tv[k], 10, 32)
			if err != nil || uint32(n) != o.Triangles[i][k] {
				rec.Violation(t, api+":readers-disagree", "triangle %d: raw %v, go3mf %v (%v)", i, tv, o.Triangles[i], err)
				return
			}
		}
	}
	beyond := false
	for _, tr := range model {
		for _, v := range tr {
			for _, x := range v {
				if math.Abs(float64(float32(x))) > int32Microns {
					beyond = true
				}
			}
		}
	}
	// geometry: triangle i, corner k
	type f3 [3]float32
	index := map[f3]uint32{} // float32 input vertex -> index it was given
	var firstOf = map[uint32]f3{}
	used := make([]bool, len(o.Vertices))
	for i, tr := range model {
		for k := 0; k < 3; k++ {
			vi := o.Triangles[i][k]
			if int(vi) >= len(o.Vertices) {
				rec.Violation(t, api+":vertex-index", "triangle %d corner %d refers to vertex %d of %d", i, k, vi, len(o.Vertices))
				return
			}
			used[vi] = true
			got := o.Vertices[vi]
			in := f3{float32(tr[k][0]), float32(tr[k][1]), float32(tr[k][2])}
			want := f3{want3MF(tr[k][0]), want3MF(tr[k][1]), want3MF(tr[k][2])}
			if f3(got) != want {
				// which kind of disagreement?
				key := api + ":triangle-vertex"
				// the same triangle with another winding / starting corner?
				var gotTri, wantTri [3]f3
				whole := true
				for c := 0; c < 3; c++ {
					if int(o.Triangles[i][c]) >= len(o.Vertices) {
						whole = false
						break
					}
					gotTri[c] = o.Vertices[o.Triangles[i][c]]
					wantTri[c] = f3{want3MF(tr[c][0]), want3MF(tr[c][1]), want3MF(tr[c][2])}
				}
				switch {
				case whole && (gotTri == [3]f3{wantTri[0], wantTri[2], wantTri[1]} || gotTri == [3]f3{wantTri[1], wantTri[0], wantTri[2]} || gotTri == [3]f3{wantTri[2], wantTri[1], wantTri[0]}):
					key = api + ":winding"
				case whole && (gotTri == [3]f3{wantTri[1], wantTri[2], wantTri[0]} || gotTri == [3]f3{wantTri[2], wantTri[0], wantTri[1]}):
					key = api + ":corner-rotation"
				default:
					if first, ok := firstOf[vi]; ok && first != in {
						// the index was handed out earlier for a different float32 vertex: a merge
						key = keyNear
						for c := 0; c < 3; c++ {
							if d := math.Abs(float64(first[c]) - float64(in[c])); d > 2e-6*math.Max(1, math.Abs(float64(in[c]))) {
								key = api + ":distinct-vertices-merged"
							}
						}
						if key != keyNear && beyond {
							key = keyBeyond
						}
					}
				}
				rec.Violation(t, key, "triangle %d corner %d: file has %v (vertex %d, strings %v), supplied %v -> want %v (%s %s %s); model %v",
					i, k, got, vi, ro.Vertices[vi], tr[k], want, fmt3MF(tr[k][0]), fmt3MF(tr[k][1]), fmt3MF(tr[k][2]), model)
				return
			}
			if _, ok := firstOf[vi]; !ok {
				firstOf[vi] = in
			}
			if prev, ok := index[in]; ok {
				if prev != vi {
					rec.Violation(t, api+":shared-vertex-not-shared", "triangle %d corner %d: vertex %v was index %d before and is index %d now; model %v", i, k, in, prev, vi, model)
					return
				}
			} else {
				index[in] = vi
			}
		}
	}
	for i, u := range used {
		if !u {
			rec.Violation(t, api+":unused-vertex", "vertex table entry %d %v is used by no triangle; model %v", i, o.Vertices[i], model)
			return
		}
	}
	if len(o.Vertices) > len(index) {
		rec.Violation(t, api+":vertex-table-duplicates", "%d vertex table entries for %d distinct supplied vertices; model %v", len(o.Vertices), len(index), model)
	}
	// measured, not asserted: entries that coincide only because of the 4-decimal text
	seen := map[f3]bool{}
	for _, v := range o.Vertices {
		if seen[f3(v)] {
			rec.Add("3mf:table-entries-coinciding-after-4-decimals", 1)
		}
		seen[f3(v)] = true
	}
	if len(o.Vertices) < len(index) {
		rec.Add("3mf:distinct-float32-vertices-merged-harmlessly", int64(len(index)-len(o.Vertices)))
	}
}

func drawTriangles(t *rapid.T) ([]tri3, []string) {
	var labels []string
	n := 0
	switch rapid.IntRange(0, 10).Draw(t, "size") {
	case 0:
		n = 0
	case 1:
		n = 1
	case 2, 3, 4, 5, 6:
		n = rapid.IntRange(2, 12).Draw(t, "n")
	case 10:
		// several channel batches (the writers receive the mesh in batches of 256 triangles): vertices
		// shared between triangles that arrive in different batches
		n = rapid.SampledFrom([]int{255, 256, 257, 300, 513, 700, 1100}).Draw(t, "n-multi-batch")
		labels = append(labels, "multi-batch")
	default:
		n = rapid.IntRange(13, 60).Draw(t, "n")
	}
	cg := &coordGen{t: t, f32: true, large: rapid.IntRange(0, 3).Draw(t, "large") == 0, largeMax: rapid.SampledFrom([]float64{1e4, 1e6, 1e9}).Draw(t, "largemax")}
	if cg.large && ev.Get().IsKnown(keyBeyond) {
		// a listed finding: keep searching behind it (DESIGN section 0), TestRegress keeps reproducing it
		cg.large = false
		ev.Get().Count("excluded:3mf-coordinates-beyond-2147.48(known finding)", 1)
	}
	npool := 0
	if n > 0 {
		npool = rapid.IntRange(1, 3+n).Draw(t, "npool")
		if n > 200 {
			npool = rapid.IntRange(3, 60).Draw(t, "npool-small") // heavy sharing across the whole list
		}
	}
	pool := make([][3]float64, npool)
	classes := map[string]bool{}
	for i := range pool {
		// half of the vertices differ from an earlier one in one or two coordinates only
		// (axis-aligned neighbours, as on a lattice)
		redraw := [3]bool{true, true, true}
		if i > 0 && rapid.Bool().Draw(t, "derive") {
			pool[i] = pool[rapid.IntRange(0, i-1).Draw(t, "from")]
			redraw = [3]bool{}
			redraw[rapid.IntRange(0, 2).Draw(t, "axis")] = true
			redraw[rapid.IntRange(0, 2).Draw(t, "axis2")] = true
			classes["derived-vertex"] = true
		}
		for k := 0; k < 3; k++ {
			if !redraw[k] {
				continue
			}
			x, c := cg.draw(fmt.Sprintf("v%d.%d", i, k))
			pool[i][k] = x
			classes[c] = true
		}
		// the same point spelled with another zero: -0, or a value that rounds to +-0 as a float32
		if i > 0 && rapid.IntRange(0, 5).Draw(t, "zero-twin") == 0 {
			j := rapid.IntRange(0, i-1).Draw(t, "twin-of")
			a := rapid.IntRange(0, 2).Draw(t, "twin-axis")
			pool[j][a] = 0
			pool[i] = pool[j]
			pool[i][a] = rapid.SampledFrom([]float64{math.Copysign(0, -1), -1e-60, 1e-60, -1e-46}).Draw(t, "twin-zero")
			classes["zero-twin-vertex"] = true
		}
	}
	out := make([]tri3, 0, n)
	poolIdx := make([]int, npool)
	for i := range poolIdx {
		poolIdx[i] = i
	}
	for i := 0; i < n; i++ {
		if len(out) > 0 && rapid.IntRange(0, 7).Draw(t, "dup") == 0 {
			src := out[rapid.IntRange(0, len(out)-1).Draw(t, "dupof")]
			switch rapid.IntRange(0, 2).Draw(t, "dupkind") {
			case 0:
				out = append(out, src)
				classes["duplicate-triangle"] = true
			case 1:
				out = append(out, tri3{src[0], src[2], src[1]})
				classes["mirrored-triangle"] = true
			default:
				out = append(out, tri3{src[1], src[2], src[0]})
				classes["rotated-triangle"] = true
			}
			continue
		}
		var tr tri3
		perm := rapid.Permutation(poolIdx).Draw(t, "vi")
		for k := 0; k < 3; k++ {
			tr[k] = pool[perm[k%len(perm)]]
		}
		if rapid.IntRange(0, 9).Draw(t, "degenerate") == 0 {
			tr[rapid.IntRange(0, 2).Draw(t, "dk")] = tr[rapid.IntRange(0, 2).Draw(t, "dk2")]
		}
		if i == 0 && rapid.IntRange(0, 5).Draw(t, "origin-first") == 0 {
			// the very first vertex of the stream is the origin (what a zero-valued "last vertex" stands for),
			// spelled 0, -0 or with a magnitude that underflows in float32
			z := rapid.SampledFrom([]float64{0, math.Copysign(0, -1), 1e-60, -1e-50}).Draw(t, "origin-zero")
			tr[0] = [3]float64{z, 0, z}
			classes["origin-is-the-first-vertex"] = true
		}
		if tr[0] == tr[1] || tr[1] == tr[2] || tr[0] == tr[2] {
			classes["degenerate-triangle"] = true
		}
		out = append(out, tr)
	}
	for c := range classes {
		labels = append(labels, c)
	}
	return out, labels
}

func describe3(model []tri3) (shared, negative, beyond bool) {
	cnt := map[[3]float32]int{}
	for i, tr := range model {
		seen := map[[3]float32]bool{}
		for _, v := range tr {
			f := [3]float32{float32(v[0]), float32(v[1]), float32(v[2])}
			if !seen[f] {
				seen[f] = true
				cnt[f]++
			}
			for _, x := range v {
				if x < 0 {
					negative = true
				}
				if math.Abs(float64(float32(x))) > int32Microns {
					beyond = true
				}
			}
		}
		_ = i
	}
	for _, c := range cnt {
		if c >= 2 {
			shared = true
		}
	}
	return
}

func toTriangles(model []tri3) []*sdf.Triangle3 {
	ts := make([]*sdf.Triangle3, len(model))
	for i, m := range model {
		ts[i] = &sdf.Triangle3{
			v3.Vec{X: m[0][0], Y: m[0][1], Z: m[0][2]},
			v3.Vec{X: m[1][0], Y: m[1][1], Z: m[1][2]},
			v3.Vec{X: m[2][0], Y: m[2][1], Z: m[2][2]},
		}
	}
	return ts
}

func Test3MF(t *testing.T) {
	rec := ev.Get()
	rapid.Check(t, func(t *rapid.T) {
		model, classes := drawTriangles(t)
		batches := drawBatches(t, len(model))
		shared, negative, beyond := describe3(model)
		labels := []string{fmt.Sprintf("3mf:n=%s", bucket(len(model))), fmt.Sprintf("3mf:shared-vertex=%v", shared), fmt.Sprintf("3mf:negative=%v", negative), fmt.Sprintf("3mf:beyond-2147.48=%v", beyond)}
		for _, c := range classes {
			labels = append(labels, "3mf:has:"+c)
		}
		rec.Case(len(model) >= 1 && (shared || negative), ev.Key("3mf", model), labels...)
		rec.Sample("3mf", map[string]any{"triangles": model, "batches": batches})
		path := tmpPath("3mf")
		prepare(t, path)
		quiet(func() { render.To3MF(nil, path, listRender3{toTriangles(model), batches}) })
		check3MF(t, rec, "To3MF", path, model)
	})
}

func bucket(n int) string {
	switch {
	case n == 0:
		return "0"
	case n == 1:
		return "1"
	case n <= 12:
		return "2..12"
	default:
		return "13+"
	}
}

// ---------------------------------------------------------------------------
// 2D segment lists

type seg2 [2][2]float64

func drawSegments(t *rapid.T, f32 bool) ([]seg2, []string) {
	n := 0
	switch rapid.IntRange(0, 10).Draw(t, "size") {
	case 0:
		n = 0
	case 1:
		n = 1
	case 2, 3, 4, 5, 6:
		n = rapid.IntRange(2, 12).Draw(t, "n")
	case 10:
		// several channel batches (the streaming writers receive the segments 128 at a time)
		n = rapid.SampledFrom([]int{127, 128, 129, 257, 300, 1000}).Draw(t, "n-multi-batch")
	default:
		n = rapid.IntRange(13, 60).Draw(t, "n")
	}
	cg := &coordGen{t: t, f32: f32, large: rapid.IntRange(0, 3).Draw(t, "large") == 0, largeMax: rapid.SampledFrom([]float64{1e4, 1e6, 1e9}).Draw(t, "largemax")}
	// where the drawing sits: around the origin, or entirely inside one quadrant
	var off [2]float64
	place := rapid.SampledFrom([]string{"around-origin", "around-origin", "offset", "offset", "far-offset"}).Draw(t, "place")
	switch place {
	case "offset":
		off = [2]float64{float64(rapid.IntRange(-40, 40).Draw(t, "offx")) * 100, float64(rapid.IntRange(-40, 40).Draw(t, "offy")) * 100}
	case "far-offset":
		off = [2]float64{g.Coord(t, "offx", 1e6), g.Coord(t, "offy", 1e6)}
	}
	npool := 0
	if n > 0 {
		npool = rapid.IntRange(1, 3+n).Draw(t, "npool")
		if n > 200 {
			npool = rapid.IntRange(3, 60).Draw(t, "npool-small") // heavy sharing across the whole list
		}
	}
	classes := map[string]bool{"place:" + place: true}
	pool := make([][2]float64, npool)
	for i := range pool {
		redraw := [2]bool{true, true}
		if i > 0 && rapid.IntRange(0, 2).Draw(t, "derive") == 0 {
			pool[i] = pool[rapid.IntRange(0, i-1).Draw(t, "from")]
			redraw = [2]bool{}
			redraw[rapid.IntRange(0, 1).Draw(t, "axis")] = true
			classes["derived-vertex"] = true
		}
		for k := 0; k < 2; k++ {
			if !redraw[k] {
				continue
			}
			x, c := cg.draw(fmt.Sprintf("p%d.%d", i, k))
			x += off[k]
			if math.Abs(x) > 1e9 {
				x = math.Copysign(1e9, x)
			}
			if x != 0 && math.Abs(x) < 1e-9 {
				x = 0
			}
			pool[i][k] = x
			classes[c] = true
		}
	}
	out := make([]seg2, 0, n)
	for i := 0; i < n; i++ {
		if len(out) > 0 && rapid.IntRange(0, 7).Draw(t, "dup") == 0 {
			src := out[rapid.IntRange(0, len(out)-1).Draw(t, "dupof")]
			if rapid.Bool().Draw(t, "rev") {
				out = append(out, seg2{src[1], src[0]})
				classes["reversed-segment"] = true
			} else {
				out = append(out, src)
				classes["duplicate-segment"] = true
			}
			continue
		}
		a := rapid.IntRange(0, npool-1).Draw(t, "pi")
		b := rapid.IntRange(0, npool-1).Draw(t, "pj")
		if a == b && rapid.IntRange(0, 9).Draw(t, "zero") != 0 {
			b = (a + 1) % npool
		}
		s := seg2{pool[a], pool[b]}
		if s[0] == s[1] {
			classes["zero-length-segment"] = true
		}
		out = append(out, s)
	}
	var labels []string
	for c := range classes {
		labels = append(labels, c)
	}
	return out, labels
}

func describe2(model []seg2) (shared, negative, originOutside bool) {
	cnt := map[[2]float64]int{}
	minx, miny, maxx, maxy := math.Inf(1), math.Inf(1), math.Inf(-1), math.Inf(-1)
	for _, s := range model {
		seen := map[[2]float64]bool{}
		for _, p := range s {
			if !seen[p] {
				seen[p] = true
				cnt[p]++
			}
			if p[0] < 0 || p[1] < 0 {
				negative = true
			}
			minx, maxx = math.Min(minx, p[0]), math.Max(maxx, p[0])
			miny, maxy = math.Min(miny, p[1]), math.Max(maxy, p[1])
		}
	}
	for _, c := range cnt {
		if c >= 2 {
			shared = true
		}
	}
	originOutside = len(model) > 0 && (minx > 0 || miny > 0 || maxx < 0 || maxy < 0)
	return
}

func toLines(model []seg2) []*sdf.Line2 {
	ls := make([]*sdf.Line2, len(model))
	for i, m := range model {
		ls[i] = &sdf.Line2{v2.Vec{X: m[0][0], Y: m[0][1]}, v2.Vec{X: m[1][0], Y: m[1][1]}}
	}
	return ls
}

// ---------------------------------------------------------------------------
// DXF

// my own statement of the format: 16 fixed decimals.
func fmtDXF(x float64) string { return strconv.FormatFloat(x, 'f', 16, 64) }

func wantDXF(x float64) float64 {
	v, err := strconv.ParseFloat(fmtDXF(x), 64)
	if err != nil {
		panic(err)
	}
	return v
}

func checkDXF(t ev.TB, rec *ev.Rec, api, path string, model []seg2) {
	checkDXFWithCircles(t, rec, api, path, model, 0)
}

// checkDXFWithCircles: as checkDXF for a drawing object that also received `circles` point markers
// (DXF.Points draws one CIRCLE per point on layer "Points"); they are the only other entities allowed.
func checkDXFWithCircles(t ev.TB, rec *ev.Rec, api, path string, model []seg2, circles int) {
	d, err := fmtread.ReadDXF(path)
	if err != nil {
		rec.Violation(t, api+":unreadable", "yofu/dxf cannot read the file back: %v; model %v", err, model)
		return
	}
	raw, err := fmtread.ReadDXFRaw(path)
	if err != nil {
		rec.Violation(t, api+":unreadable", "group-code reader cannot read the file back: %v; model %v", err, model)
		return
	}
	nc, rnc := 0, 0
	for _, o := range d.Other {
		if strings.Contains(strings.ToLower(o), "circle") {
			nc++
		}
	}
	for _, o := range raw.Other {
		if strings.Contains(strings.ToLower(o), "circle") {
			rnc++
		}
	}
	if len(d.Other) != nc || len(raw.Other) != rnc || nc != circles || rnc != circles {
		rec.Violation(t, api+":foreign-entities", "entities other than LINE in the file: %v / %v (expected %d point markers)", d.Other, raw.Other, circles)
		return
	}
	if len(d.Lines) != len(model) || len(raw.Lines) != len(model) {
		rec.Violation(t, api+":line-count", "%d LINE entities (raw %d) for %d supplied segments; model %v", len(d.Lines), len(raw.Lines), len(model), model)
		return
	}
	for i, s := range model {
		l, rl := d.Lines[i], raw.Lines[i]
		if l.Layer != "Lines" || rl.Layer != "Lines" {
			rec.Violation(t, api+":layer", "LINE %d is on layer %q (raw %q), want \"Lines\"", i, l.Layer, rl.Layer)
			return
		}
		want := [2][3]float64{{wantDXF(s[0][0]), wantDXF(s[0][1]), 0}, {wantDXF(s[1][0]), wantDXF(s[1][1]), 0}}
		got := [2][3]float64{l.Start, l.End}
		var rgot [2][3]float64
		for e, strs := range [2][3]string{rl.Start, rl.End} {
			for k, sv := range strs {
				f, err := strconv.ParseFloat(sv, 64)
				if err != nil {
					rec.Violation(t, api+":coordinate-text", "LINE %d: group value %q is not a number", i, sv)
					return
				}
				rgot[e][k] = f
			}
		}
		if got != want || rgot != want {
			key := api + ":coordinates"
			if got == [2][3]float64{want[1], want[0]} {
				key = api + ":endpoints-swapped"
			} else if i+1 < len(model) || i > 0 {
				// present elsewhere in the file?
				for j := range d.Lines {
					if j != i && [2][3]float64{d.Lines[j].Start, d.Lines[j].End} == want {
						key = api + ":order"
					}
				}
			}
			rec.Violation(t, key, "LINE %d: file has %v (raw %v %v), supplied %v -> want %v; model %v", i, got, rl.Start, rl.End, s, want, model)
			return
		}
		// |x| >= 1 (or 0): 16 decimals carry every bit, so the value must be the input itself
		for e := 0; e < 2; e++ {
			for k := 0; k < 2; k++ {
				if x := s[e][k]; (x == 0 || math.Abs(x) >= 1) && got[e][k] != x {
					rec.Violation(t, api+":coordinates", "LINE %d: coordinate %v read back as %v", i, x, got[e][k])
					return
				}
			}
		}
	}
}

func TestDXF(t *testing.T) {
	rec := ev.Get()
	rapid.Check(t, func(t *rapid.T) {
		model, classes := drawSegments(t, false)
		batches := drawBatches(t, len(model))
		shared, negative, _ := describe2(model)
		labels := []string{fmt.Sprintf("dxf:n=%s", bucket(len(model))), fmt.Sprintf("dxf:shared-vertex=%v", shared), fmt.Sprintf("dxf:negative=%v", negative)}
		for _, c := range classes {
			labels = append(labels, "dxf:has:"+c)
		}
		rec.Case(len(model) >= 1 && (shared || negative), ev.Key("dxf", model), labels...)
		rec.Sample("dxf", map[string]any{"segments": model, "batches": batches})
		path := tmpPath("dxf")
		prepare(t, path)
		quiet(func() { render.ToDXF(nil, path, listRender2{toLines(model), batches}) })
		checkDXF(t, rec, "ToDXF", path, model)
		path = tmpPath("dxf")
		prepare(t, path)
		if err := render.SaveDXF(path, toLines(model)); err != nil {
			rec.Violation(t, "SaveDXF:error", "SaveDXF returned %v for a writable path; model %v", err, model)
			return
		}
		checkDXF(t, rec, "SaveDXF", path, model)
	})
}

// ---------------------------------------------------------------------------
// SVG

// my own statement of the format: 2 fixed decimals.
func fmtSVG(x float64) string { return strconv.FormatFloat(x, 'f', 2, 64) }

func checkSVG(t ev.TB, rec *ev.Rec, api, path string, model []seg2) {
	s, err := fmtread.ReadSVG(path)
	if err != nil {
		rec.Violation(t, api+":unreadable", "encoding/xml cannot read the file back: %v; model %v", err, model)
		return
	}
	if len(s.Other) != 0 {
		rec.Violation(t, api+":foreign-elements", "elements other than <line> in the drawing: %v", s.Other)
		return
	}
	if len(s.Lines) != len(model) {
		rec.Violation(t, api+":line-count", "%d <line> elements for %d supplied segments; model %v", len(s.Lines), len(model), model)
		return
	}
	// the drawing's extent, from the model
	var minx, miny, maxx, maxy float64
	for i, sg := range model {
		for e, p := range sg {
			if i == 0 && e == 0 {
				minx, maxx, miny, maxy = p[0], p[0], p[1], p[1]
			}
			minx, maxx = math.Min(minx, p[0]), math.Max(maxx, p[0])
			miny, maxy = math.Min(miny, p[1]), math.Max(maxy, p[1])
		}
	}
	num := func(what, sv string) (float64, bool) {
		f, err := strconv.ParseFloat(sv, 64)
		if err != nil {
			rec.Violation(t, api+":number-text", "%s=%q is not a number", what, sv)
			return 0, false
		}
		if i := strings.IndexByte(sv, '.'); i < 0 || len(sv)-i-1 != 2 {
			rec.Violation(t, api+":number-text", "%s=%q is not written with two decimals", what, sv)
			return 0, false
		}
		return f, true
	}
	same := func(got float64, want string) bool {
		w, _ := strconv.ParseFloat(want, 64)
		return got == w
	}
	w, ok1 := num("width", s.Width)
	h, ok2 := num("height", s.Height)
	if !ok1 || !ok2 {
		return
	}
	if !same(w, fmtSVG(maxx-minx)) || !same(h, fmtSVG(maxy-miny)) {
		rec.Violation(t, api+":canvas", "canvas %s x %s, drawing extent %s x %s (min %v,%v max %v,%v); model %v", s.Width, s.Height, fmtSVG(maxx-minx), fmtSVG(maxy-miny), minx, miny, maxx, maxy, model)
		return
	}
	for i, sg := range model {
		l := s.Lines[i]
		want := [4]string{fmtSVG(sg[0][0] - minx), fmtSVG(maxy - sg[0][1]), fmtSVG(sg[1][0] - minx), fmtSVG(maxy - sg[1][1])}
		var got [4]float64
		for k, sv := range [4]string{l.X1, l.Y1, l.X2, l.Y2} {
			f, ok := num([]string{"x1", "y1", "x2", "y2"}[k], sv)
			if !ok {
				return
			}
			got[k] = f
		}
		okx := same(got[0], want[0]) && same(got[2], want[2])
		oky := same(got[1], want[1]) && same(got[3], want[3])
		if okx && oky {
			continue
		}
		key := api + ":coordinates"
		switch {
		case okx && same(got[1], fmtSVG(sg[0][1]-miny)) && same(got[3], fmtSVG(sg[1][1]-miny)):
			key = api + ":y-not-flipped"
		case same(got[0], want[2]) && same(got[1], want[3]) && same(got[2], want[0]) && same(got[3], want[1]):
			key = api + ":endpoints-swapped"
		case !okx && same(got[0], fmtSVG(sg[0][0])) && same(got[2], fmtSVG(sg[1][0])):
			key = api + ":origin-shift"
		case !oky && okx:
			key = api + ":y-coordinates"
		case !okx && oky:
			key = api + ":x-coordinates"
		}
		rec.Violation(t, key, "<line> %d: file has (%s,%s)-(%s,%s), supplied %v with drawing min (%v,%v) max (%v,%v) -> want (%s,%s)-(%s,%s); model %v",
			i, l.X1, l.Y1, l.X2, l.Y2, sg, minx, miny, maxx, maxy, want[0], want[1], want[2], want[3], model)
		return
	}
}

func TestSVG(t *testing.T) {
	rec := ev.Get()
	rapid.Check(t, func(t *rapid.T) {
		model, classes := drawSegments(t, false)
		batches := drawBatches(t, len(model))
		shared, negative, originOutside := describe2(model)
		labels := []string{fmt.Sprintf("svg:n=%s", bucket(len(model))), fmt.Sprintf("svg:shared-vertex=%v", shared), fmt.Sprintf("svg:negative=%v", negative), fmt.Sprintf("svg:origin-outside-extent=%v", originOutside)}
		for _, c := range classes {
			labels = append(labels, "svg:has:"+c)
		}
		rec.Case(len(model) >= 1 && (shared || negative), ev.Key("svg", model), labels...)
		rec.Sample("svg", map[string]any{"segments": model, "batches": batches})
		path := tmpPath("svg")
		prepare(t, path)
		quiet(func() { render.ToSVG(nil, path, listRender2{toLines(model), batches}) })
		checkSVG(t, rec, "ToSVG", path, model)
		path = tmpPath("svg")
		prepare(t, path)
		if err := render.SaveSVG(path, "fill:none;stroke:black;stroke-width:0.1", toLines(model)); err != nil {
			rec.Violation(t, "SaveSVG:error", "SaveSVG returned %v for a writable path; model %v", err, model)
			return
		}
		checkSVG(t, rec, "SaveSVG", path, model)
	})
}

// TestObjectHistory: the SVG / DXF drawing objects used directly, with a history: lines are
// added, the drawing is saved, more lines are added and it is saved again (to the same file).
// Every saved file must hold exactly the geometry supplied so far.
func TestObjectHistory(t *testing.T) {
	rec := ev.Get()
	rapid.Check(t, func(t *rapid.T) {
		model, _ := drawSegments(t, false)
		nsaves := rapid.IntRange(2, 3).Draw(t, "saves")
		// cut points of the history
		cuts := make([]int, nsaves)
		for i := range cuts {
			cuts[i] = rapid.IntRange(0, len(model)).Draw(t, fmt.Sprintf("cut%d", i))
		}
		cuts[nsaves-1] = len(model)
		for i := 1; i < nsaves; i++ {
			if cuts[i] < cuts[i-1] {
				cuts[i] = cuts[i-1]
			}
		}
		kind := rapid.SampledFrom([]string{"svg", "dxf"}).Draw(t, "format")
		path := tmpPath(kind)
		prepare(t, path)
		rec.Case(len(model) >= 1, ev.Key("history", kind, cuts, model), "history:"+kind, fmt.Sprintf("history:saves=%d", nsaves))
		rec.Sample("history:"+kind, map[string]any{"format": kind, "segments": len(model), "saved_after": cuts})
		lines := toLines(model)
		if kind == "svg" {
			d := render.NewSVG(path, "fill:none;stroke:black;stroke-width:0.1")
			done := 0
			for _, c := range cuts {
				for ; done < c; done++ {
					d.Line(lines[done][0], lines[done][1])
				}
				if err := d.Save(); err != nil {
					rec.Violation(t, "SVG.Save:error", "Save returned %v after %d lines", err, done)
					return
				}
				checkSVG(t, rec, "SVG.Save(history)", path, model[:done])
			}
			return
		}
		// the drawing object's other methods take part in the history: point markers (their own layer),
		// triangles and boxes (three / four LINEs each, in the documented vertex order)
		d := render.NewDXF(path)
		done := 0
		var hist []seg2
		circles := 0
		add := func(a, b v2.Vec) { hist = append(hist, seg2{{a.X, a.Y}, {b.X, b.Y}}) }
		for ci, c := range cuts {
			l := fmt.Sprintf("h%d.", ci)
			switch rapid.IntRange(0, 5).Draw(t, l+"extra") {
			case 0:
				k := rapid.IntRange(1, 3).Draw(t, l+"points")
				var vs v2.VecSet
				for i := 0; i < k; i++ {
					vs = append(vs, v2.Vec{X: float64(rapid.IntRange(-50, 50).Draw(t, l+"px")), Y: float64(rapid.IntRange(-50, 50).Draw(t, l+"py"))})
				}
				d.Points(vs, 0.5)
				circles += k
				rec.Add("history:dxf:points-call", 1)
			case 1:
				var tr sdf.Triangle2
				for i := range tr {
					tr[i] = v2.Vec{X: float64(rapid.IntRange(-50, 50).Draw(t, l+"tx")), Y: float64(rapid.IntRange(-50, 50).Draw(t, l+"ty"))}
				}
				d.Triangle(tr)
				add(tr[0], tr[1])
				add(tr[1], tr[2])
				add(tr[2], tr[0])
				rec.Add("history:dxf:triangle-call", 1)
			case 2:
				lo := v2.Vec{X: float64(rapid.IntRange(-50, 0).Draw(t, l+"bx")), Y: float64(rapid.IntRange(-50, 0).Draw(t, l+"by"))}
				hi := lo.Add(v2.Vec{X: float64(rapid.IntRange(1, 50).Draw(t, l+"bw")), Y: float64(rapid.IntRange(1, 50).Draw(t, l+"bh"))})
				d.Box(&sdf.Box2{Min: lo, Max: hi})
				c1, c3 := v2.Vec{X: hi.X, Y: lo.Y}, v2.Vec{X: lo.X, Y: hi.Y}
				add(lo, c1)
				add(c1, hi)
				add(hi, c3)
				add(c3, lo)
				rec.Add("history:dxf:box-call", 1)
			}
			if rapid.Bool().Draw(t, l+"one-by-one") {
				for ; done < c; done++ {
					d.Line(lines[done])
					hist = append(hist, model[done])
				}
			} else {
				d.Lines(lines[done:c])
				hist = append(hist, model[done:c]...)
				done = c
			}
			if err := d.Save(); err != nil {
				rec.Violation(t, "DXF.Save:error", "Save returned %v after %d lines", err, len(hist))
				return
			}
			checkDXFWithCircles(t, rec, "DXF.Save(history)", path, hist, circles)
		}
	})
}
