package c01

import (
	"fmt"
	"testing"

	"github.com/deadsy/sdfx/sdf"
	v2 "github.com/deadsy/sdfx/vec/v2"
	v3 "github.com/deadsy/sdfx/vec/v3"
	"pgregory.net/rapid"

	"verif/internal/boxprobe"
	"verif/internal/ev"
)

// TestRectilinearProfiles: drawn profiles with round coordinates - angle brackets, steps, tees, channels on
// an integer (or quarter) grid, as a drawing has them - as Polygon2D and extruded. Their vertical and
// horizontal edges fall exactly on the lines where the polygon's internal quadtree splits, which a profile
// with random coordinates never does. The box must contain every negative point, also far to the left and
// right of the profile at the heights of its edges.
func TestRectilinearProfiles(t *testing.T) {
	rec := ev.Get()
	rapid.Check(t, func(t *rapid.T) {
		q := rapid.SampledFrom([]float64{1, 1, 0.25, 0.5, 10}).Draw(t, "grid")
		// an x-monotone staircase outline: columns of width w_i between heights lo_i < hi_i
		k := rapid.IntRange(1, 5).Draw(t, "columns")
		x := float64(rapid.IntRange(-8, 8).Draw(t, "x0")) * q
		var top, bot []v2.Vec
		var lo, hi float64
		for i := 0; i < k; i++ {
			w := float64(rapid.IntRange(1, 6).Draw(t, fmt.Sprintf("w%d", i))) * q
			l := float64(rapid.IntRange(-6, 2).Draw(t, fmt.Sprintf("lo%d", i))) * q
			h := l + float64(rapid.IntRange(1, 8).Draw(t, fmt.Sprintf("h%d", i)))*q
			if i > 0 {
				// keep the columns connected
				if l >= hi {
					l = hi - q
				}
				if h <= lo {
					h = lo + q
				}
			}
			lo, hi = l, h
			bot = append(bot, v2.Vec{X: x, Y: l}, v2.Vec{X: x + w, Y: l})
			top = append(top, v2.Vec{X: x, Y: h}, v2.Vec{X: x + w, Y: h})
			x += w
		}
		var vs []v2.Vec
		add := func(p v2.Vec) {
			if len(vs) > 0 && vs[len(vs)-1] == p {
				return
			}
			vs = append(vs, p)
		}
		for _, p := range bot {
			add(p)
		}
		for i := len(top) - 1; i >= 0; i-- {
			add(top[i])
		}
		if vs[0] == vs[len(vs)-1] {
			vs = vs[:len(vs)-1]
		}
		if rapid.Bool().Draw(t, "swap-xy") {
			for i := range vs {
				vs[i] = v2.Vec{X: vs[i].Y, Y: vs[i].X}
			}
		}
		if rapid.Bool().Draw(t, "reverse") {
			for i, j := 0, len(vs)-1; i < j; i, j = i+1, j-1 {
				vs[i], vs[j] = vs[j], vs[i]
			}
		}
		s2, err := sdf.Polygon2D(append([]v2.Vec(nil), vs...))
		if err != nil {
			rec.Count("discarded:constructor-rejected", 1)
			rec.Case(false, "", "discarded")
			return
		}
		desc := fmt.Sprintf("polygon %v", vs)
		bb := s2.BoundingBox()
		res := boxprobe.Probe2(t, s2, 10*q, func(p v2.Vec, val, out float64, how string) {
			rec.Violation(t, "C01:poly:rectilinear-profile", "%s (box %v): Evaluate(%v) = %v at a point %v outside the box [%s]", desc, bb, p, val, out, how)
		})
		if res.BoxProblem != "" {
			rec.Violation(t, "C01:poly:"+res.BoxProblem, "%s: box %v", desc, bb)
		}
		// level with every vertex and with the middle of every vertical run, far to the left and right (and, for
		// the transposed profiles, below and above)
		probes := 0
		for i, a := range vs {
			b := vs[(i+1)%len(vs)]
			for _, lv := range []v2.Vec{a, {X: (a.X + b.X) / 2, Y: (a.Y + b.Y) / 2}} {
				for _, d := range []float64{1.5, 7, 40} {
					w, h := bb.Size().X, bb.Size().Y
					for _, p := range []v2.Vec{{X: bb.Min.X - d*w, Y: lv.Y}, {X: bb.Max.X + d*w, Y: lv.Y}, {X: lv.X, Y: bb.Min.Y - d*h}, {X: lv.X, Y: bb.Max.Y + d*h}} {
						probes++
						if val := s2.Evaluate(p); val < 0 {
							rec.Violation(t, "C01:poly:rectilinear-profile", "%s (box %v): Evaluate(%v) = %v, level with a vertex / an edge of the profile and far outside the box", desc, bb, p, val)
						}
						e := sdf.Extrude3D(s2, 2*q)
						if val := e.Evaluate(v3.Vec{X: p.X, Y: p.Y, Z: 0.3 * q}); val < 0 {
							rec.Violation(t, "C01:extrude:rectilinear-profile", "extrude(%s): Evaluate = %v at (%v, %v, %v), far outside the box %v", desc, val, p.X, p.Y, 0.3*q, e.BoundingBox())
						}
					}
				}
			}
		}
		rec.Add("probes-outside-box", int64(res.Probes+probes))
		rec.Case(res.Interior > 0, ev.Key("profile", vs), "root:poly:rectilinear", fmt.Sprintf("profile:columns=%d", k))
	})
}
