package c01

// C01 over the object library github.com/deadsy/sdfx/obj: every exported
// constructor that returns an sdf.SDF2 / sdf.SDF3 gets a parameter generator.
// The ranges come from the constructor's own validation (an error return means
// the parameters left the domain: discarded and counted) and from the values
// the callers in /repo/examples pass, jittered log-uniformly by 0.5..2 with the
// alternative enum values and optional features switched on and off.

import (
	"fmt"
	"math"
	"os"
	"path/filepath"
	"strings"
	"sync"
	"testing"

	"github.com/deadsy/sdfx/obj"
	"github.com/deadsy/sdfx/sdf"
	v2 "github.com/deadsy/sdfx/vec/v2"
	"github.com/deadsy/sdfx/vec/v2i"
	v3 "github.com/deadsy/sdfx/vec/v3"
	"github.com/deadsy/sdfx/vec/v3i"
	"pgregory.net/rapid"

	"verif/internal/boxprobe"
	"verif/internal/ev"
	"verif/internal/g"
)

const mmPerInch = sdf.MillimetresPerInch

// objBuilt is one constructed catalogue part.
type objBuilt struct {
	s3    sdf.SDF3
	s2    sdf.SDF2
	parms string
	// classify (optional) names the sub-shape responsible for a leak at p: it
	// returns a violation key ("" = not classified) and a detail string.
	classify func(p v3.Vec, value, outside float64) (string, string)
}

type objEntry struct {
	name   string
	weight int // rationing: slow constructors get weight 1, the others 4
	gen    func(t *rapid.T) (objBuilt, error)
}

// --- small draw helpers ------------------------------------------------------

// jit jitters a caller's value log-uniformly by a factor 0.5..2.
func jit(t *rapid.T, l string, v float64) float64 { return v * g.LogUniform(t, l, 0.5, 2) }

// fr draws a plain fraction.
func fr(t *rapid.T, l string, lo, hi float64) float64 {
	return rapid.Float64Range(lo, hi).Draw(t, l)
}

func flag(t *rapid.T, l string) bool { return rapid.Bool().Draw(t, l) }

func pickS(t *rapid.T, l string, xs ...string) string { return rapid.SampledFrom(xs).Draw(t, l) }

func pickF(t *rapid.T, l string, xs ...float64) float64 { return rapid.SampledFrom(xs).Draw(t, l) }

// opt returns 0 (feature off) one time in three, else the jittered value.
func opt(t *rapid.T, l string, v float64) float64 {
	if rapid.IntRange(0, 2).Draw(t, l+".on") == 0 {
		return 0
	}
	return jit(t, l, v)
}

func deg(d float64) float64 { return d * math.Pi / 180 }

var isoThreads = []string{"M1.6x0.35", "M2x0.4", "M3x0.5", "M4x0.7", "M5x0.8", "M6x1", "M8x1.25", "M10x1.5", "M12x1.75", "M16x2", "M20x2.5", "M24x3", "M36x4", "M64x6", "M8x1", "M16x1.5", "M30x2"}
var inchThreads = []string{"unc_4_40", "unc_8_32", "unc_1/4", "unc_3/8", "unc_1/2", "unc_5/8", "unc_1", "unf_6_40", "unf_1/4", "unf_1/2", "unf_1"}
var nptThreads = []string{"npt_1/8", "npt_1/4", "npt_1/2", "npt_1", "npt_2", "npt_4"}

func drawThread(t *rapid.T) string {
	switch rapid.IntRange(0, 5).Draw(t, "threadclass") {
	case 0, 1, 2:
		return rapid.SampledFrom(isoThreads).Draw(t, "thread")
	case 3, 4:
		return rapid.SampledFrom(inchThreads).Draw(t, "thread")
	default:
		return rapid.SampledFrom(nptThreads).Draw(t, "thread")
	}
}

var pipeNames = []string{"sch40:1/8", "sch40:1/4", "sch40:3/8", "sch40:1/2", "sch40:3/4", "sch40:1", "sch40:1-1/4", "sch40:1-1/2", "sch40:2", "sch40:2-1/2", "sch40:3", "sch40:3-1/2", "sch40:4", "sch40:5", "sch40:6", "sch40:8", "sch40:10", "sch40:12", "sch40:14", "sch40:16", "sch40:18", "sch40:20", "sch40:24"}

var servoNames = []string{"hitec_hs_40", "nano", "hitec_hs_55", "submicro", "hitec_hs_85bb", "micro", "hitec_hs_225bb", "mini", "hitec_hs_311", "standard", "annimos_ds3218", "hitec_hs_805bb", "large", "hitec_hs_1005sgt", "giant"}

var holePatterns = []string{"x", "xx", "x.x", ".x...x", "xx.x.xx", "", "xxx", "..x"}

// --- parameter generators shared by the 2D and 3D variants -------------------

func genAngle(t *rapid.T) *obj.AngleParms {
	// examples/angle, examples/beehive: l = 1.25", t = r = 0.125", length 12"
	lx, ly := jit(t, "lx", 1.25*mmPerInch), jit(t, "ly", 1.25*mmPerInch)
	if flag(t, "equal-legs") {
		ly = lx
	}
	m := math.Min(lx, ly)
	tx := math.Min(jit(t, "tx", 0.125*mmPerInch), 0.45*m)
	ty := math.Min(jit(t, "ty", 0.125*mmPerInch), 0.45*m)
	if flag(t, "equal-thickness") {
		ty = tx
	}
	rmax := math.Min(lx-ty, ly-tx)
	r := 0.0
	switch rapid.IntRange(0, 3).Draw(t, "rootclass") {
	case 0:
	case 1:
		r = math.Min(tx, rmax) // the callers' choice: root radius = thickness
	default:
		r = fr(t, "rootfrac", 0.02, 0.95) * rmax
	}
	return &obj.AngleParms{
		X:          obj.AngleLeg{Length: lx, Thickness: tx},
		Y:          obj.AngleLeg{Length: ly, Thickness: ty},
		RootRadius: r,
		Length:     jit(t, "length", 12*mmPerInch),
	}
}

func genKeyway(t *rapid.T) *obj.KeywayParameters {
	// examples/joko: shaft .55, key radius .77, key width .35, length 4
	r := jit(t, "shaft", 0.55)
	k := &obj.KeywayParameters{ShaftRadius: r, ShaftLength: jit(t, "length", 4)}
	if flag(t, "bore") {
		k.KeyRadius = r * fr(t, "keyr", 1.05, 1.8) // key proud of the shaft (bore profile)
	} else {
		k.KeyRadius = r * fr(t, "keyr", 0.4, 0.97) // key cut into the shaft
	}
	k.KeyWidth = r * fr(t, "keyw", 0.2, 1.2)
	return k
}

func genPanel(t *rapid.T) *obj.PanelParms {
	// examples: sizes 85x95 .. 200x100, corner 3..5, holes 3..4 mm, margins 5..20
	sx, sy := jit(t, "sx", 90), jit(t, "sy", 60)
	m := math.Min(sx, sy)
	k := &obj.PanelParms{Size: v2.Vec{X: sx, Y: sy}, Thickness: jit(t, "thickness", 3)}
	k.CornerRadius = math.Min(opt(t, "corner", 5), 0.45*m)
	k.HoleDiameter = math.Min(opt(t, "hole", 3.5), 0.1*m)
	for i := 0; i < 4; i++ {
		k.HoleMargin[i] = math.Min(jit(t, fmt.Sprintf("margin%d", i), 5), 0.3*m)
		k.HolePattern[i] = rapid.SampledFrom(holePatterns).Draw(t, fmt.Sprintf("pattern%d", i))
	}
	if k.HoleDiameter > 0 && k.HolePattern[0] == "" && k.HolePattern[1] == "" && k.HolePattern[2] == "" && k.HolePattern[3] == "" {
		k.HolePattern[0] = "x"
	}
	return k
}

func genEuroRack(t *rapid.T) *obj.EuroRackParms {
	// examples/eurorack: U 3, HP 12, corner 3, hole 3.6, thickness 2.5, ridge
	return &obj.EuroRackParms{
		U:            float64(rapid.IntRange(1, 4).Draw(t, "U")),
		HP:           float64(rapid.IntRange(2, 42).Draw(t, "HP")),
		CornerRadius: opt(t, "corner", 2),
		HoleDiameter: opt(t, "hole", 3.6),
		Thickness:    jit(t, "thickness", 2.5),
		Ridge:        flag(t, "ridge"),
	}
}

func genServo(t *rapid.T) *obj.ServoParms {
	k, err := obj.ServoLookup(rapid.SampledFrom(servoNames).Draw(t, "servo"))
	if err != nil {
		t.Fatalf("ServoLookup: %v", err)
	}
	if flag(t, "asis") {
		return k // the database entry itself (what examples/servo passes)
	}
	s := g.LogUniform(t, "scale", 0.5, 2)
	w := func(l string) float64 { return s * fr(t, l, 0.95, 1.05) }
	k.Body = v3.Vec{X: k.Body.X * w("bx"), Y: k.Body.Y * w("by"), Z: k.Body.Z * w("bz")}
	k.Mount = v3.Vec{X: k.Mount.X * w("mx"), Y: k.Mount.Y * w("my"), Z: k.Mount.Z * w("mz")}
	k.Hole = v2.Vec{X: k.Hole.X * w("hx"), Y: k.Hole.Y * w("hy")}
	k.MountOffset *= w("mo")
	k.ShaftOffset *= w("so")
	k.ShaftLength *= w("sl")
	k.ShaftRadius *= w("sr")
	k.HoleRadius *= w("hr")
	return k
}

func genSpring(t *rapid.T) *obj.SpringParms {
	// examples/pico_cnc: width 25, height 20, wall 1, diameter 5, 3 sections, boss {12, 8}
	wt := jit(t, "wall", 1)
	k := &obj.SpringParms{
		Width:         jit(t, "width", 25),
		Height:        jit(t, "height", 20),
		WallThickness: wt,
		Diameter:      math.Max(jit(t, "diameter", 5), 2.5*wt),
		NumSections:   rapid.IntRange(1, 6).Draw(t, "sections"),
	}
	k.Boss[0] = opt(t, "boss0", 12)
	k.Boss[1] = opt(t, "boss1", 8)
	return k
}

func genWasher(t *rapid.T, remove bool) *obj.WasherParms {
	// examples: 40/50 x 10 remove .3; r/2r remove .5; bearing washers remove 0
	ro := jit(t, "outer", 20)
	k := &obj.WasherParms{OuterRadius: ro, InnerRadius: ro * fr(t, "inner", 0.3, 0.95), Thickness: jit(t, "thickness", 5)}
	if remove && flag(t, "partial") {
		k.Remove = pickF(t, "remove", 0.3, 0.5, 0.25, 0.75, 0.1, 0.9, fr(t, "removefrac", 0.02, 0.98))
	}
	return k
}

func genArrow(t *rapid.T) *obj.ArrowParms {
	// examples/arrow: axis {50,1} head/tail {5,2} "cb"; examples/bucky: "b."
	return &obj.ArrowParms{
		Axis:  [2]float64{jit(t, "axislen", 50), jit(t, "axisr", 1)},
		Head:  [2]float64{jit(t, "headlen", 5), jit(t, "headr", 2)},
		Tail:  [2]float64{jit(t, "taillen", 5), jit(t, "tailr", 2)},
		Style: pickS(t, "style", "cb", "b.", "", "c", "b", "bc", "cc", "bb", "c.", ".c", ".b", ".."),
	}
}

func genTRP(t *rapid.T) *obj.TruncRectPyramidParms {
	// examples flask/inlet_hood/midget/draincover/gridfinity: drafts 0..15 deg or 45/60 deg,
	// base radius 0 .. half the smaller side (and beyond), rounding 0 .. a fraction of the height
	x, y, z := jit(t, "x", 20), jit(t, "y", 14), jit(t, "z", 10)
	k := &obj.TruncRectPyramidParms{Size: v3.Vec{X: x, Y: y, Z: z}}
	switch rapid.IntRange(0, 3).Draw(t, "angleclass") {
	case 0:
		k.BaseAngle = deg(90 - pickF(t, "draft", 0, 2, 3, 5, 8, 15))
	case 1:
		k.BaseAngle = deg(pickF(t, "angle", 45, 30, 60))
	default:
		k.BaseAngle = deg(fr(t, "anglef", 25, 90))
	}
	m := math.Min(x, y)
	switch rapid.IntRange(0, 3).Draw(t, "radiusclass") {
	case 0:
	case 1:
		k.BaseRadius = 0.5 * x
	default:
		k.BaseRadius = fr(t, "radiusf", 0.02, 0.7) * m
	}
	if flag(t, "rounded") {
		k.RoundRadius = fr(t, "roundf", 0.02, 0.9) * z
	}
	return k
}

func genDroneArm(t *rapid.T) *obj.DroneArmParms {
	// examples/drone
	ms := v2.Vec{X: jit(t, "motord", 28), Y: jit(t, "motorh", 30)}
	mh := fr(t, "mounth", 0.4, 1)
	ah := fr(t, "armh", 0.6, 1)
	wt := jit(t, "wall", 3)
	if (mh*ms.Y+wt)*ah < 2.5*wt {
		wt = 0.3 * mh * ms.Y * ah // the hollow arm keeps a positive inner height
	}
	return &obj.DroneArmParms{
		MotorSize:     ms,
		MotorMount:    v3.Vec{X: ms.X * fr(t, "mount0", 0.4, 0.8), Y: ms.X * fr(t, "mount1", 0.4, 0.8), Z: math.Min(jit(t, "mountd", 3.4), 0.2*ms.X)},
		RotorCavity:   v2.Vec{X: ms.X * fr(t, "cavd", 0.2, 0.5), Y: wt * fr(t, "cavh", 0.3, 0.7)},
		WallThickness: wt,
		SideClearance: jit(t, "clear", 1.5),
		MountHeight:   mh,
		ArmHeight:     ah,
		ArmLength:     jit(t, "armlen", 70),
	}
}

func genStandoff(t *rapid.T) *obj.StandoffParms {
	// examples maixgo/nordic/pico_cnc/delta/eurorack
	h := jit(t, "height", 14)
	d := jit(t, "diameter", 6)
	k := &obj.StandoffParms{PillarHeight: h, PillarDiameter: d}
	switch rapid.IntRange(0, 3).Draw(t, "holeclass") {
	case 0: // no hole
	case 1: // support stub (documented: HoleDepth < 0)
		k.HoleDepth = -h * fr(t, "stub", 0.05, 0.5)
		k.HoleDiameter = d * fr(t, "stubd", 0.2, 0.8)
	default:
		k.HoleDepth = h * fr(t, "depth", 0.2, 1)
		k.HoleDiameter = d * fr(t, "holed", 0.2, 0.8)
	}
	if flag(t, "webs") {
		k.NumberWebs = rapid.IntRange(1, 6).Draw(t, "nwebs")
		k.WebHeight = h * fr(t, "webh", 0.2, 1)
		k.WebDiameter = d * fr(t, "webd", 1.2, 4)
		k.WebWidth = d * fr(t, "webw", 0.2, 1)
	}
	return k
}

func genDrainCover(t *rapid.T) *obj.DrainCoverParms {
	// examples/draincover (4 parameter sets, inches scaled to mm)
	base := []obj.DrainCoverParms{
		{WallDiameter: 1.9, WallHeight: 0.5, WallThickness: 0.125, WallDraft: 0, OuterWidth: 0.2, InnerWidth: 0.18, CoverThickness: 0.125, GrateNumber: 8, GrateWidth: 1.1, GrateDraft: 0, CrossBarWidth: 0, CrossBarWeb: false},
		{WallDiameter: 3.9, WallHeight: 0.8, WallThickness: 0.2, WallDraft: deg(2), OuterWidth: 0.4, InnerWidth: 0.3, CoverThickness: 0.2, GrateNumber: 8, GrateWidth: 1.1, GrateDraft: deg(8), CrossBarWidth: 0.8, CrossBarWeb: false},
		{WallDiameter: 5.8, WallHeight: 0.8, WallThickness: 0.2, WallDraft: deg(2), OuterWidth: 0.4, InnerWidth: 0.3, CoverThickness: 0.3, GrateNumber: 9, GrateWidth: 1.0, GrateDraft: deg(8), CrossBarWidth: 1.8, CrossBarWeb: true},
		{WallDiameter: 11.8, WallHeight: 1.0, WallThickness: 0.3, WallDraft: deg(2), OuterWidth: 0.8, InnerWidth: 0.5, CoverThickness: 0.3, GrateNumber: 10, GrateWidth: 1.0, GrateDraft: deg(8), CrossBarWidth: 1.5, CrossBarWeb: true},
	}
	k := base[rapid.IntRange(0, len(base)-1).Draw(t, "base")]
	unit := pickF(t, "unit", mmPerInch, 1)
	j := func(l string, v float64) float64 { return unit * v * g.LogUniform(t, l, 0.7, 1.4) }
	k.WallDiameter = j("walld", k.WallDiameter)
	k.WallHeight = j("wallh", k.WallHeight)
	k.WallThickness = j("wallt", k.WallThickness)
	k.OuterWidth = j("outerw", k.OuterWidth)
	k.InnerWidth = j("innerw", k.InnerWidth)
	k.CoverThickness = j("covert", k.CoverThickness)
	k.WallDraft = deg(pickF(t, "walldraft", 0, 1, 2, 3))
	k.GrateDraft = deg(pickF(t, "gratedraft", 0, 4, 8, 10))
	k.GrateNumber = rapid.IntRange(5, 12).Draw(t, "ngrate")
	k.GrateWidth = fr(t, "gratew", 0.7, 1.6)
	if flag(t, "crossbar") {
		k.CrossBarWidth = fr(t, "crossw", 0.6, 2)
		k.CrossBarWeb = flag(t, "web")
	} else {
		k.CrossBarWidth = 0
		k.CrossBarWeb = false
	}
	return &k
}

func genPipeConnector(t *rapid.T) *obj.PipeConnectorParms {
	// what StdPipeConnector3D derives from a pipe: outer = pipe outer + wall, inner = pipe outer,
	// recess width = wall, recess depth <= 2 * pipe outer, length 40 for a 1" pipe
	or := jit(t, "outer", 18.5)
	ir := or * fr(t, "inner", 0.5, 0.95)
	l := or * fr(t, "length", 1.05, 3)
	k := &obj.PipeConnectorParms{Length: l, OuterRadius: or, InnerRadius: ir}
	if flag(t, "recess") {
		k.RecessWidth = ir * fr(t, "recessw", 0.05, 0.6)
		k.RecessDepth = (l - 1.001*ir) * fr(t, "recessd", 0, 1) // the recess arm is no shorter than its radius
	}
	k.Configuration = genCfg(t)
	return k
}

func genCfg(t *rapid.T) [6]bool {
	var cfg [6]bool
	n := 0
	for i := range cfg {
		cfg[i] = flag(t, fmt.Sprintf("arm%d", i))
		if cfg[i] {
			n++
		}
	}
	if n == 0 {
		cfg[rapid.IntRange(0, 5).Draw(t, "arm")] = true
	}
	return cfg
}

// tabHost is the box body examples/tabbox attaches tabs to.
func tabHost(t *rapid.T, wall float64) (sdf.SDF3, v3.Vec, float64, bool, error) {
	o := v3.Vec{X: jit(t, "ox", 40), Y: jit(t, "oy", 40), Z: jit(t, "oz", 20)}
	o.X, o.Y, o.Z = math.Max(o.X, 8*wall), math.Max(o.Y, 8*wall), math.Max(o.Z, 5*wall)
	outer, err := sdf.Box3D(o, 0.5*wall)
	if err != nil {
		return nil, o, 0, false, err
	}
	inner, err := sdf.Box3D(o.SubScalar(2*wall), 0)
	if err != nil {
		return nil, o, 0, false, err
	}
	box := sdf.Difference3D(outer, inner)
	lid := o.Z * fr(t, "lid", 0.1, 0.4)
	upper := flag(t, "upper")
	if upper {
		box = sdf.Cut3D(box, v3.Vec{Z: lid}, v3.Vec{Z: 1})
	} else {
		box = sdf.Cut3D(box, v3.Vec{Z: lid}, v3.Vec{Z: -1})
	}
	return box, o, lid, upper, nil
}

func tabMatrix(t *rapid.T, scale float64) sdf.M44 {
	m := sdf.Translate3d(v3.Vec{X: g.Coord(t, "mx", scale), Y: g.Coord(t, "my", scale), Z: g.Coord(t, "mz", scale)})
	switch rapid.IntRange(0, 3).Draw(t, "mrot") {
	case 0:
		m = m.Mul(sdf.RotateZ(deg(90))) // examples/tabbox
	case 1:
		m = m.Mul(sdf.RotateZ(g.Angle(t, "mrz")))
	}
	return m
}

func genScrewTab(t *rapid.T, wall, oz float64) *obj.ScrewTab {
	// examples/tabbox: l = .35 oz, radius .8 wall, round, upper hole = wall, lower hole .8 l, hole radius 1
	r := wall * fr(t, "rad", 0.5, 1.2)
	// a rounded pillar is a capsule half: it is no shorter than its radius (the
	// constructor ignores the Cylinder3D error and would hand nil to Cut3D)
	l := math.Max(oz*fr(t, "len", 0.2, 0.45), 1.05*r)
	return &obj.ScrewTab{
		Length:     l,
		Radius:     r,
		Round:      flag(t, "round"),
		HoleUpper:  wall * fr(t, "hup", 0.5, 1.5),
		HoleLower:  l * fr(t, "hlow", 0.3, 0.95),
		HoleRadius: r * fr(t, "hrad", 0.2, 0.7),
	}
}

// --- triangle meshes ----------------------------------------------------------

// closedMesh returns an outward-oriented closed polyhedron.
func closedMesh(t *rapid.T) ([]*sdf.Triangle3, string) {
	var vs []v3.Vec
	var fs [][3]int
	kind := pickS(t, "mesh", "box", "tetra", "octa", "prism", "icosa")
	switch kind {
	case "box":
		for i := 0; i < 8; i++ {
			vs = append(vs, v3.Vec{X: float64(i&1)*2 - 1, Y: float64(i>>1&1)*2 - 1, Z: float64(i>>2&1)*2 - 1})
		}
		fs = [][3]int{{0, 2, 1}, {1, 2, 3}, {4, 5, 6}, {5, 7, 6}, {0, 1, 4}, {1, 5, 4}, {2, 6, 3}, {3, 6, 7}, {0, 4, 2}, {2, 4, 6}, {1, 3, 5}, {3, 7, 5}}
	case "tetra":
		vs = []v3.Vec{{X: 1, Y: 1, Z: 1}, {X: 1, Y: -1, Z: -1}, {X: -1, Y: 1, Z: -1}, {X: -1, Y: -1, Z: 1}}
		fs = [][3]int{{0, 1, 2}, {0, 3, 1}, {0, 2, 3}, {1, 3, 2}}
	case "octa":
		vs = []v3.Vec{{X: 1}, {X: -1}, {Y: 1}, {Y: -1}, {Z: 1}, {Z: -1}}
		fs = [][3]int{{0, 2, 4}, {2, 1, 4}, {1, 3, 4}, {3, 0, 4}, {2, 0, 5}, {1, 2, 5}, {3, 1, 5}, {0, 3, 5}}
	case "prism":
		vs = []v3.Vec{{X: 1, Z: -1}, {X: -0.5, Y: 0.9, Z: -1}, {X: -0.5, Y: -0.9, Z: -1}, {X: 1, Z: 1}, {X: -0.5, Y: 0.9, Z: 1}, {X: -0.5, Y: -0.9, Z: 1}}
		fs = [][3]int{{0, 2, 1}, {3, 4, 5}, {0, 1, 3}, {1, 4, 3}, {1, 2, 4}, {2, 5, 4}, {2, 0, 5}, {0, 3, 5}}
	default:
		p := (1 + math.Sqrt(5)) / 2
		vs = []v3.Vec{{X: -1, Y: p}, {X: 1, Y: p}, {X: -1, Y: -p}, {X: 1, Y: -p}, {Y: -1, Z: p}, {Y: 1, Z: p}, {Y: -1, Z: -p}, {Y: 1, Z: -p}, {X: p, Z: -1}, {X: p, Z: 1}, {X: -p, Z: -1}, {X: -p, Z: 1}}
		fs = [][3]int{{0, 11, 5}, {0, 5, 1}, {0, 1, 7}, {0, 7, 10}, {0, 10, 11}, {1, 5, 9}, {5, 11, 4}, {11, 10, 2}, {10, 7, 6}, {7, 1, 8}, {3, 9, 4}, {3, 4, 2}, {3, 2, 6}, {3, 6, 8}, {3, 8, 9}, {4, 9, 5}, {2, 4, 11}, {6, 2, 10}, {8, 6, 7}, {9, 8, 1}}
	}
	sc := v3.Vec{X: jit(t, "msx", 10), Y: jit(t, "msy", 10), Z: jit(t, "msz", 10)}
	m := sdf.Translate3d(v3.Vec{X: g.Coord(t, "mtx", 30), Y: g.Coord(t, "mty", 30), Z: g.Coord(t, "mtz", 30)})
	if flag(t, "mrotate") {
		m = m.Mul(sdf.RotateZ(g.Angle(t, "mrz"))).Mul(sdf.RotateX(g.Angle(t, "mrx")))
	}
	m = m.Mul(sdf.Scale3d(sc))
	var c v3.Vec
	for _, v := range vs {
		c = c.Add(v.DivScalar(float64(len(vs))))
	}
	mesh := make([]*sdf.Triangle3, len(fs))
	for i, f := range fs {
		a, b, cc := vs[f[0]], vs[f[1]], vs[f[2]]
		// orient outward (all the solids above are convex and contain their centroid)
		if b.Sub(a).Cross(cc.Sub(a)).Dot(a.Sub(c)) < 0 {
			b, cc = cc, b
		}
		tri := sdf.Triangle3{m.MulPosition(a), m.MulPosition(b), m.MulPosition(cc)}
		mesh[i] = &tri
	}
	return mesh, fmt.Sprintf("%s scale=%v m=%v", kind, sc, m)
}

var stlCache sync.Map // path|neighbours -> sdf.SDF3

// --- the catalogue -------------------------------------------------------------

func catalogue3() []objEntry {
	return []objEntry{
		{"Angle3D", 4, func(t *rapid.T) (objBuilt, error) {
			k := genAngle(t)
			s, err := obj.Angle3D(k)
			return objBuilt{s3: s, parms: fmt.Sprintf("%+v", *k)}, err
		}},
		{"Arrow3D", 4, func(t *rapid.T) (objBuilt, error) {
			k := genArrow(t)
			s, err := obj.Arrow3D(k)
			return objBuilt{s3: s, parms: fmt.Sprintf("%+v", *k)}, err
		}},
		{"Axes3D", 4, func(t *rapid.T) (objBuilt, error) {
			// examples/arrow: (-10,-10,-10)-(10,20,20), (-10,-20,-30)-(0,0,0), (0,0,0)-(500,500,1000)
			L := jit(t, "L", 30)
			var a, b [3]float64
			any := false
			for i := 0; i < 3; i++ {
				switch rapid.IntRange(0, 4).Draw(t, fmt.Sprintf("axis%d", i)) {
				case 0: // axis absent
					a[i] = g.Coord(t, fmt.Sprintf("c%d", i), L)
					b[i] = a[i]
				case 1:
					a[i], b[i] = 0, L*fr(t, fmt.Sprintf("b%d", i), 0.3, 1)
				case 2:
					a[i], b[i] = -L*fr(t, fmt.Sprintf("a%d", i), 0.3, 1), 0
				default:
					a[i], b[i] = -L*fr(t, fmt.Sprintf("a%d", i), 0.2, 1), L*fr(t, fmt.Sprintf("b%d", i), 0.2, 1)
				}
				if a[i] != b[i] {
					any = true
				}
				if flag(t, fmt.Sprintf("swap%d", i)) {
					a[i], b[i] = b[i], a[i]
				}
			}
			if !any {
				b[2] = a[2] + L
			}
			p0, p1 := v3.Vec{X: a[0], Y: a[1], Z: a[2]}, v3.Vec{X: b[0], Y: b[1], Z: b[2]}
			s, err := obj.Axes3D(p0, p1)
			return objBuilt{s3: s, parms: fmt.Sprintf("%v %v", p0, p1)}, err
		}},
		{"DirectedArrow3D", 4, func(t *rapid.T) (objBuilt, error) {
			k := genArrow(t)
			k.Axis[0] = 0 // set by the constructor
			tail := v3.Vec{X: g.Coord(t, "tx", 50), Y: g.Coord(t, "ty", 50), Z: g.Coord(t, "tz", 50)}
			var d v3.Vec
			switch rapid.IntRange(0, 3).Draw(t, "dirclass") {
			case 0: // along an axis (including straight down, the 180 degree case of RotateToVector)
				d = []v3.Vec{{X: 1}, {X: -1}, {Y: 1}, {Y: -1}, {Z: 1}, {Z: -1}}[rapid.IntRange(0, 5).Draw(t, "axisdir")]
			default:
				d = v3.Vec{X: fr(t, "dx", -1, 1), Y: fr(t, "dy", -1, 1), Z: fr(t, "dz", -1, 1)}
				if d.Length() < 0.05 {
					d = v3.Vec{X: 1, Y: 1, Z: 1}
				}
				d = d.Normalize()
			}
			head := tail.Add(d.MulScalar(jit(t, "len", 40)))
			parms := fmt.Sprintf("%+v head=%v tail=%v", *k, head, tail)
			s, err := obj.DirectedArrow3D(k, head, tail)
			return objBuilt{s3: s, parms: parms}, err
		}},
		{"Bolt", 1, func(t *rapid.T) (objBuilt, error) {
			// examples 3dp_nutbolt / nutsandbolts: M16x2 hex 50/10 tol .1; unc_5/8 knurl 2.0/0.5 tol .005
			name := drawThread(t)
			th, err := sdf.ThreadLookup(name)
			if err != nil {
				t.Fatalf("ThreadLookup(%s): %v", name, err)
			}
			total := th.Radius * fr(t, "total", 2, 10)
			k := &obj.BoltParms{Thread: name, Style: pickS(t, "style", "hex", "knurl"), TotalLength: total}
			switch rapid.IntRange(0, 3).Draw(t, "shankclass") {
			case 0:
			case 1:
				k.ShankLength = total // no thread at all
			default:
				k.ShankLength = total * fr(t, "shank", 0.05, 0.8)
			}
			if flag(t, "tol") {
				k.Tolerance = th.Pitch * fr(t, "tolf", 0.01, 0.1)
			}
			s, err := obj.Bolt(k)
			return objBuilt{s3: s, parms: fmt.Sprintf("%+v", *k)}, err
		}},
		{"Nut", 1, func(t *rapid.T) (objBuilt, error) {
			name := drawThread(t)
			th, err := sdf.ThreadLookup(name)
			if err != nil {
				t.Fatalf("ThreadLookup(%s): %v", name, err)
			}
			k := &obj.NutParms{Thread: name, Style: pickS(t, "style", "hex", "knurl")}
			if flag(t, "tol") {
				k.Tolerance = th.Pitch * fr(t, "tolf", 0.01, 0.1)
			}
			s, err := obj.Nut(k)
			return objBuilt{s3: s, parms: fmt.Sprintf("%+v", *k)}, err
		}},
		{"ThreadedCylinder", 2, func(t *rapid.T) (objBuilt, error) {
			// examples/pico_cnc: unc_8_32 in a 6 mm boss, 10 mm high (dimensions in mm)
			name := drawThread(t)
			th, err := sdf.ThreadLookup(name)
			if err != nil {
				t.Fatalf("ThreadLookup(%s): %v", name, err)
			}
			mm := th.ToMillimetre()
			k := &obj.ThreadedCylinderParms{Thread: name, Diameter: 2 * mm.Radius * fr(t, "dia", 1.2, 3), Height: mm.Radius * fr(t, "height", 1, 8)}
			if flag(t, "tol") {
				k.Tolerance = mm.Pitch * fr(t, "tolf", 0.01, 0.1)
			}
			s, err := k.Object()
			return objBuilt{s3: s, parms: fmt.Sprintf("%+v", *k)}, err
		}},
		{"ChamferedCylinder", 2, func(t *rapid.T) (objBuilt, error) {
			// callers (obj.Bolt, examples bolt_container, fidget): a screw thread centred on the origin, kb 0, kt .25/.5
			r := jit(t, "r", 8)
			l := r * fr(t, "l", 0.5, 6)
			var s sdf.SDF3
			var err error
			kind := pickS(t, "body", "iso", "acme", "cylinder")
			switch kind {
			case "cylinder":
				s, err = sdf.Cylinder3D(l, r, 0)
			default:
				pitch := r * fr(t, "pitch", 0.1, 0.4)
				var th sdf.SDF2
				if kind == "iso" {
					th, err = sdf.ISOThread(r, pitch, true)
				} else {
					th, err = sdf.AcmeThread(r, pitch)
				}
				if err != nil {
					return objBuilt{}, err
				}
				s, err = sdf.Screw3D(th, l, 0, pitch, rapid.IntRange(1, 3).Draw(t, "starts"))
			}
			if err != nil {
				return objBuilt{}, err
			}
			kb := pickF(t, "kb", 0, 0, 0.25, 0.5, fr(t, "kbf", 0, 0.9))
			kt := pickF(t, "kt", 0.25, 0.5, 0, fr(t, "ktf", 0, 0.9))
			c, err := obj.ChamferedCylinder(s, kb, kt)
			return objBuilt{s3: c, parms: fmt.Sprintf("%s r=%v l=%v kb=%v kt=%v", kind, r, l, kb, kt)}, err
		}},
		{"DrainCover", 1, func(t *rapid.T) (objBuilt, error) {
			k := genDrainCover(t)
			s, err := obj.DrainCover(k)
			b := objBuilt{s3: s, parms: fmt.Sprintf("%+v", *k)}
			if err == nil && k.CrossBarWeb && k.CrossBarWidth != 0 {
				// the body/web union is blended with PolyMin(WallThickness): the same
				// cover without the web has no blend
				k0 := *k
				k0.CrossBarWeb = false
				plain, err0 := obj.DrainCover(&k0)
				b.classify = func(p v3.Vec, v, out float64) (string, string) {
					if err0 == nil && out <= 0.25*k.WallThickness && plain.Evaluate(p) >= 0 {
						return "C01:blend-fillet-outside-box", fmt.Sprintf("sub-shape: Union3D(dcBody, dcCrossWeb).SetMin(PolyMin(WallThickness=%v)); the cover without the web (no blend) is %v at the point", k.WallThickness, plain.Evaluate(p))
					}
					return "", ""
				}
			}
			return b, err
		}},
		{"DroneMotorArm", 2, func(t *rapid.T) (objBuilt, error) {
			k := genDroneArm(t)
			s, err := obj.DroneMotorArm(k)
			return objBuilt{s3: s, parms: fmt.Sprintf("%+v", *k)}, err
		}},
		{"DroneMotorArmSocket", 4, func(t *rapid.T) (objBuilt, error) {
			// examples/drone: size {40,30,30}, clearance .5, stop 35
			arm := genDroneArm(t)
			h := (arm.MountHeight*arm.MotorSize.Y+arm.WallThickness)*arm.ArmHeight + 0 // armHeight
			cl := jit(t, "sockclear", 0.5)
			h += 2 * cl
			k := &obj.DroneArmSocketParms{Arm: arm, Clearance: cl}
			k.Size = v3.Vec{X: math.Max(jit(t, "sx", 40), 2*arm.WallThickness), Y: h * fr(t, "sy", 1.05, 2), Z: h * fr(t, "sz", 1.05, 2)}
			k.Stop = (k.Size.X - arm.WallThickness) * fr(t, "stop", 0.2, 0.98)
			s, err := obj.DroneMotorArmSocket(k)
			return objBuilt{s3: s, parms: fmt.Sprintf("arm=%+v size=%v clearance=%v stop=%v", *arm, k.Size, k.Clearance, k.Stop)}, err
		}},
		{"GfBase", 1, func(t *rapid.T) (objBuilt, error) {
			n := ev.Pick(3, 4)
			k := &obj.GfBaseParms{Size: v2i.Vec{X: rapid.IntRange(1, n).Draw(t, "nx"), Y: rapid.IntRange(1, n).Draw(t, "ny")}, Magnet: flag(t, "magnet"), Hole: flag(t, "hole")}
			parms := fmt.Sprintf("%+v", *k)
			return objBuilt{s3: obj.GfBase(k), parms: parms}, nil
		}},
		{"GfBody", 1, func(t *rapid.T) (objBuilt, error) {
			n := ev.Pick(2, 3)
			k := &obj.GfBodyParms{Size: v3i.Vec{X: rapid.IntRange(1, n).Draw(t, "nx"), Y: rapid.IntRange(1, n).Draw(t, "ny"), Z: rapid.IntRange(1, 6).Draw(t, "nz")}, Empty: flag(t, "empty"), Hole: flag(t, "hole")}
			parms := fmt.Sprintf("%+v", *k)
			return objBuilt{s3: obj.GfBody(k), parms: parms}, nil
		}},
		{"Hex3D", 4, func(t *rapid.T) (objBuilt, error) {
			// callers: drone arm (round .2 r), HexHead3D (round .08 r)
			r := jit(t, "r", 12)
			h := r * fr(t, "h", 0.3, 6)
			round := r * pickF(t, "round", 0.2, 0.08, 0, fr(t, "roundf", 0, 0.4))
			s, err := obj.Hex3D(r, h, round)
			return objBuilt{s3: s, parms: fmt.Sprintf("r=%v h=%v round=%v", r, h, round)}, err
		}},
		{"HexHead3D", 4, func(t *rapid.T) (objBuilt, error) {
			// callers: bolt ("b"), nut ("tb"), examples nutcover (""), bolt_container ("tb")
			r := jit(t, "r", 12)
			h := r * fr(t, "h", 0.4, 2)
			round := pickS(t, "round", "", "t", "b", "tb")
			s, err := obj.HexHead3D(r, h, round)
			return objBuilt{s3: s, parms: fmt.Sprintf("r=%v h=%v round=%q", r, h, round)}, err
		}},
		{"CounterBoredHole3D", 4, func(t *rapid.T) (objBuilt, error) {
			// examples/eurorack: (12, 1.9, 5.3, 3.5)
			l, r := jit(t, "l", 12), jit(t, "r", 1.9)
			cbr := r * fr(t, "cbr", 1.1, 4)
			cbd := l * fr(t, "cbd", 0.05, 0.9)
			s, err := obj.CounterBoredHole3D(l, r, cbr, cbd)
			return objBuilt{s3: s, parms: fmt.Sprintf("l=%v r=%v cbr=%v cbd=%v", l, r, cbr, cbd)}, err
		}},
		{"ChamferedHole3D", 4, func(t *rapid.T) (objBuilt, error) {
			l, r := jit(t, "l", 12), jit(t, "r", 2)
			ch := math.Min(r*fr(t, "ch", 0.1, 2), l)
			s, err := obj.ChamferedHole3D(l, r, ch)
			return objBuilt{s3: s, parms: fmt.Sprintf("l=%v r=%v ch=%v", l, r, ch)}, err
		}},
		{"CounterSunkHole3D", 4, func(t *rapid.T) (objBuilt, error) {
			// examples: (30, 2), (wall 3, r 1.7), (wall 2.5, r 1.7)
			r := jit(t, "r", 2)
			l := r * fr(t, "l", 1.2, 20)
			s, err := obj.CounterSunkHole3D(l, r)
			return objBuilt{s3: s, parms: fmt.Sprintf("l=%v r=%v", l, r)}, err
		}},
		{"BoltCircle3D", 4, func(t *rapid.T) (objBuilt, error) {
			cr := jit(t, "circle", 20)
			hr := cr * fr(t, "hole", 0.03, 0.5)
			n := rapid.IntRange(1, 12).Draw(t, "n")
			d := jit(t, "depth", 6)
			s, err := obj.BoltCircle3D(d, hr, cr, n)
			return objBuilt{s3: s, parms: fmt.Sprintf("depth=%v hole=%v circle=%v n=%d", d, hr, cr, n)}, err
		}},
		{"Keyway3D", 4, func(t *rapid.T) (objBuilt, error) {
			k := genKeyway(t)
			s, err := obj.Keyway3D(k)
			return objBuilt{s3: s, parms: fmt.Sprintf("%+v", *k)}, err
		}},
		{"Knurl3D", 2, func(t *rapid.T) (objBuilt, error) {
			// what KnurledHead3D passes: pitch .25 r, height .3 pitch, theta 45 deg, length a multiple of the pitch
			r := jit(t, "r", 10)
			pitch := r * fr(t, "pitch", 0.1, 0.4)
			k := &obj.KnurlParms{Radius: r, Pitch: pitch, Height: pitch * fr(t, "height", 0.15, 0.5), Theta: deg(pickF(t, "theta", 45, 30, 60, fr(t, "thetaf", 20, 65))), Length: pitch * float64(rapid.IntRange(1, 8).Draw(t, "turns"))}
			s, err := obj.Knurl3D(k)
			return objBuilt{s3: s, parms: fmt.Sprintf("%+v", *k)}, err
		}},
		{"KnurledHead3D", 2, func(t *rapid.T) (objBuilt, error) {
			// examples/gas_cap, obj.Bolt, obj.Nut: pitch = .25 r
			r := jit(t, "r", 10)
			pitch := r * pickF(t, "pitch", 0.25, fr(t, "pitchf", 0.1, 0.4))
			h := 0.05*r + pitch*fr(t, "h", 1.05, 8)
			s, err := obj.KnurledHead3D(r, h, pitch)
			return objBuilt{s3: s, parms: fmt.Sprintf("r=%v h=%v pitch=%v", r, h, pitch)}, err
		}},
		{"Panel3D", 4, func(t *rapid.T) (objBuilt, error) {
			k := genPanel(t)
			s, err := obj.Panel3D(k)
			return objBuilt{s3: s, parms: fmt.Sprintf("%+v", *k)}, err
		}},
		{"EuroRackPanel3D", 4, func(t *rapid.T) (objBuilt, error) {
			k := genEuroRack(t)
			parms := fmt.Sprintf("%+v", *k)
			s, err := obj.EuroRackPanel3D(k)
			return objBuilt{s3: s, parms: parms}, err
		}},
		{"PanelHole3D", 4, func(t *rapid.T) (objBuilt, error) {
			// examples/eurorack: d 6.2..9.4, thickness 2.5, indent {2,2..4,1.5..2}, offset 4.9..11
			th := jit(t, "thickness", 2.5)
			k := &obj.PanelHoleParms{Diameter: jit(t, "d", 7), Thickness: th}
			if flag(t, "indent") {
				k.Indent = v3.Vec{X: jit(t, "ix", 2), Y: jit(t, "iy", 2), Z: th * fr(t, "iz", 0.2, 1)}
				k.Offset = jit(t, "offset", 7)
				k.Orientation = pickF(t, "orient", 0, 0, deg(90), deg(180), deg(-90), g.Angle(t, "orientf"))
			}
			s, err := obj.PanelHole3D(k)
			return objBuilt{s3: s, parms: fmt.Sprintf("%+v", *k)}, err
		}},
		{"PanelBox3D", 1, func(t *rapid.T) (objBuilt, error) {
			// examples/panel_box: {50,40,60} wall 2.5 panel 3 rounding 5 insets 2 hole 3.4 "TbtbT"
			k := &obj.PanelBoxParms{Panel: jit(t, "panel", 3), Rounding: opt(t, "rounding", 5), FrontInset: opt(t, "front", 2), BackInset: opt(t, "back", 2)}
			sx, sy := jit(t, "sx", 50), jit(t, "sy", 40)
			k.Wall = math.Min(jit(t, "wall", 2.5), math.Min(sx/8, sy/14))
			k.Rounding = math.Min(k.Rounding, 0.4*math.Min(sx, sy))
			if flag(t, "clearance") {
				k.Clearance = fr(t, "clearancef", 0.02, 0.1)
			}
			cl := k.Clearance
			if cl == 0 {
				cl = 0.05
			}
			need := k.FrontInset + k.BackInset + 2*((1+4*cl)*k.Panel+2*k.Wall)
			k.Size = v3.Vec{X: sx, Y: sy, Z: need + jit(t, "mid", 38)}
			n := rapid.IntRange(0, 6).Draw(t, "ntabs")
			tabs := make([]byte, n)
			for i := range tabs {
				tabs[i] = "tTbB."[rapid.IntRange(0, 4).Draw(t, fmt.Sprintf("tab%d", i))]
			}
			k.SideTabs = string(tabs)
			if n > 0 && flag(t, "holes") {
				k.Hole = math.Min(jit(t, "hole", 3.4), 1.6*k.Wall)
				has := false
				for _, c := range tabs {
					has = has || c == 'T' || c == 'B'
				}
				if !has {
					tabs[0] = "TB"[rapid.IntRange(0, 1).Draw(t, "holetab")]
					k.SideTabs = string(tabs)
				}
			}
			parms := fmt.Sprintf("%+v", *k)
			ss, err := obj.PanelBox3D(k)
			if err != nil {
				return objBuilt{}, err
			}
			i := rapid.IntRange(0, len(ss)-1).Draw(t, "part")
			return objBuilt{s3: ss[i], parms: fmt.Sprintf("%s part=%d(%s)", parms, i, []string{"panel", "top", "bottom"}[i])}, nil
		}},
		{"Pipe3D", 4, func(t *rapid.T) (objBuilt, error) {
			ro := jit(t, "outer", 10)
			ri := ro * fr(t, "inner", 0.2, 0.95)
			l := ro * fr(t, "length", 0.3, 10)
			s, err := obj.Pipe3D(ro, ri, l)
			return objBuilt{s3: s, parms: fmt.Sprintf("outer=%v inner=%v length=%v", ro, ri, l)}, err
		}},
		{"StdPipe3D", 4, func(t *rapid.T) (objBuilt, error) {
			// examples/test: ("sch40:1", "mm", 100)
			name, units := rapid.SampledFrom(pipeNames).Draw(t, "pipe"), pickS(t, "units", "mm", "inch")
			p, err := obj.PipeLookup(name, units)
			if err != nil {
				t.Fatalf("PipeLookup: %v", err)
			}
			l := p.Outer * fr(t, "length", 0.3, 10)
			s, err := obj.StdPipe3D(name, units, l)
			return objBuilt{s3: s, parms: fmt.Sprintf("%s %s length=%v", name, units, l)}, err
		}},
		{"PipeConnector3D", 2, func(t *rapid.T) (objBuilt, error) {
			k := genPipeConnector(t)
			s, err := obj.PipeConnector3D(k)
			return objBuilt{s3: s, parms: fmt.Sprintf("%+v", *k)}, err
		}},
		{"StdPipeConnector3D", 2, func(t *rapid.T) (objBuilt, error) {
			// examples/pipe_connectors: ("sch40:1", "mm", 40, 7 configurations)
			name, units := rapid.SampledFrom(pipeNames).Draw(t, "pipe"), pickS(t, "units", "mm", "inch")
			p, err := obj.PipeLookup(name, units)
			if err != nil {
				t.Fatalf("PipeLookup: %v", err)
			}
			wall := p.Outer - p.Inner
			l := (p.Outer + wall) * fr(t, "length", 1.05, 4)
			cfg := genCfg(t)
			s, err := obj.StdPipeConnector3D(name, units, l, cfg)
			return objBuilt{s3: s, parms: fmt.Sprintf("%s %s length=%v cfg=%v", name, units, l, cfg)}, err
		}},
		{"Servo3D", 4, func(t *rapid.T) (objBuilt, error) {
			k := genServo(t)
			s, err := obj.Servo3D(k)
			return objBuilt{s3: s, parms: fmt.Sprintf("%+v", *k)}, err
		}},
		{"Spring3D", 4, func(t *rapid.T) (objBuilt, error) {
			k := genSpring(t)
			parms := fmt.Sprintf("%+v", *k)
			s, err := k.Spring3D()
			return objBuilt{s3: s, parms: parms}, err
		}},
		{"Standoff3D", 4, func(t *rapid.T) (objBuilt, error) {
			k := genStandoff(t)
			s, err := obj.Standoff3D(k)
			return objBuilt{s3: s, parms: fmt.Sprintf("%+v", *k)}, err
		}},
		{"StraightTab", 4, func(t *rapid.T) (objBuilt, error) {
			// examples/tabbox: size {3 wall, .5 wall, wall}, wall 3, clearance
			w := jit(t, "wall", 3)
			size := v3.Vec{X: w * fr(t, "sx", 1.5, 4), Y: w * fr(t, "sy", 0.3, 1.2), Z: w * fr(t, "sz", 0.5, 1.5)}
			cl := pickF(t, "clearance", 0.05, 0.1, 0.2, 0)
			tab, err := obj.NewStraightTab(size, cl)
			if err != nil {
				return objBuilt{}, err
			}
			m := tabMatrix(t, 20)
			upper := flag(t, "upper")
			var s sdf.SDF3
			if upper {
				s = tab.Envelope(true, m) // Body(true) is documented nil
			} else {
				s = tab.Body(false, m)
			}
			return objBuilt{s3: s, parms: fmt.Sprintf("size=%v clearance=%v upper=%v m=%v", size, cl, upper, m)}, nil
		}},
		{"AngleTab", 4, func(t *rapid.T) (objBuilt, error) {
			// examples/tabbox: size {2.5 wall, wall, wall}
			w := jit(t, "wall", 3)
			z := w * fr(t, "sz", 0.5, 1.2)
			size := v3.Vec{X: math.Max(w*fr(t, "sx", 1.5, 4), 1.2*z), Y: w * fr(t, "sy", 0.3, 1.2), Z: z}
			cl := pickF(t, "clearance", 0.05, 0.1, 0.2, 0)
			tab, err := obj.NewAngleTab(size, cl)
			if err != nil {
				return objBuilt{}, err
			}
			m := tabMatrix(t, 20)
			upper := flag(t, "upper")
			var s sdf.SDF3
			if upper {
				s = tab.Envelope(true, m)
			} else {
				s = tab.Body(false, m)
			}
			return objBuilt{s3: s, parms: fmt.Sprintf("size=%v clearance=%v upper=%v m=%v", size, cl, upper, m)}, nil
		}},
		{"ScrewTab", 4, func(t *rapid.T) (objBuilt, error) {
			w := jit(t, "wall", 3)
			k := genScrewTab(t, w, jit(t, "oz", 20))
			tab, err := obj.NewScrewTab(k)
			if err != nil {
				return objBuilt{}, err
			}
			m := tabMatrix(t, 20)
			var s sdf.SDF3
			which := pickS(t, "which", "body-lower", "envelope-lower", "envelope-upper")
			switch which {
			case "body-lower":
				s = tab.Body(false, m)
			case "envelope-lower":
				s = tab.Envelope(false, m)
			default:
				s = tab.Envelope(true, m)
			}
			return objBuilt{s3: s, parms: fmt.Sprintf("%+v %s m=%v", *k, which, m)}, nil
		}},
		{"AddTabs", 2, func(t *rapid.T) (objBuilt, error) {
			// examples/tabbox: a box shell cut at the lid height, 4 tabs at the lid plane
			w := jit(t, "wall", 3)
			box, o, lid, upper, err := tabHost(t, w)
			if err != nil {
				return objBuilt{}, err
			}
			var tab obj.Tab
			kind := pickS(t, "tab", "straight", "angle", "screw")
			x, y := 0.5*o.X-w, 0.5*o.Y-w
			var mset []sdf.M44
			switch kind {
			case "straight":
				tab, err = obj.NewStraightTab(v3.Vec{X: 3 * w, Y: 0.5 * w, Z: w}, 0.1)
				xo, yo := 0.5*(o.X-w), 0.5*(o.Y-w)
				mset = []sdf.M44{
					sdf.Translate3d(v3.Vec{X: xo, Z: lid}).Mul(sdf.RotateZ(deg(90))),
					sdf.Translate3d(v3.Vec{X: -xo, Z: lid}).Mul(sdf.RotateZ(deg(90))),
					sdf.Translate3d(v3.Vec{Y: yo, Z: lid}),
					sdf.Translate3d(v3.Vec{Y: -yo, Z: lid}),
				}
			case "angle":
				tab, err = obj.NewAngleTab(v3.Vec{X: 2.5 * w, Y: w, Z: w}, 0.1)
				x, y = 0.25*o.X, 0.5*(o.Y-w)
				fallthrough
			default:
				if kind == "screw" {
					tab, err = obj.NewScrewTab(genScrewTab(t, w, o.Z))
				}
				mset = []sdf.M44{
					sdf.Translate3d(v3.Vec{X: x, Y: y, Z: lid}),
					sdf.Translate3d(v3.Vec{X: -x, Y: y, Z: lid}),
					sdf.Translate3d(v3.Vec{X: x, Y: -y, Z: lid}),
					sdf.Translate3d(v3.Vec{X: -x, Y: -y, Z: lid}),
				}
			}
			if err != nil {
				return objBuilt{}, err
			}
			mset = mset[:rapid.IntRange(1, 4).Draw(t, "ntabs")]
			return objBuilt{s3: obj.AddTabs(box, tab, upper, mset), parms: fmt.Sprintf("box=%v wall=%v lid=%v upper=%v tab=%s(%+v) n=%d", o, w, lid, upper, kind, tab, len(mset))}, nil
		}},
		{"TruncRectPyramid3D", 4, func(t *rapid.T) (objBuilt, error) {
			k := genTRP(t)
			s, err := obj.TruncRectPyramid3D(k)
			return objBuilt{s3: s, parms: fmt.Sprintf("%+v", *k)}, err
		}},
		{"Washer3D", 4, func(t *rapid.T) (objBuilt, error) {
			k := genWasher(t, true)
			s, err := obj.Washer3D(k)
			return objBuilt{s3: s, parms: fmt.Sprintf("%+v", *k)}, err
		}},
		{"ImportTriMesh", 2, func(t *rapid.T) (objBuilt, error) {
			// a closed, non-intersecting mesh (the documented domain); neighbours: the callers' 20
			// (>= the number of triangles here) or every triangle
			mesh, desc := closedMesh(t)
			nn := pickS(t, "neighbours", "20", "all")
			n := 20
			if nn == "all" {
				n = len(mesh)
			}
			return objBuilt{s3: obj.ImportTriMesh(mesh, n, 3, 5), parms: fmt.Sprintf("%s neighbours=%d", desc, n)}, nil
		}},
		{"ImportSTL", 1, func(t *rapid.T) (objBuilt, error) {
			// examples gyroid/monkey_hat/hollowing_stl: (file, 20, 3, 5)
			// bottle.stl is left out: no caller imports it and it is not a closed mesh
			// (3429 of its 3717 directed edges have no opposite edge)
			file := pickS(t, "file", "monkey.stl", "teapot.stl")
			key := file
			if v, ok := stlCache.Load(key); ok {
				return objBuilt{s3: v.(sdf.SDF3), parms: key}, nil
			}
			s, err := obj.ImportSTL(filepath.Join(repoFiles(), file), 20, 3, 5)
			if err != nil {
				t.Fatalf("ImportSTL(%s): %v", file, err)
			}
			stlCache.Store(key, s)
			return objBuilt{s3: s, parms: key}, nil
		}},
	}
}

func catalogue2() []objEntry {
	return []objEntry{
		{"Angle2D", 4, func(t *rapid.T) (objBuilt, error) {
			k := genAngle(t)
			s, err := obj.Angle2D(k)
			return objBuilt{s2: s, parms: fmt.Sprintf("%+v", *k)}, err
		}},
		{"FingerButton2D", 4, func(t *rapid.T) (objBuilt, error) {
			// examples/axoloti: width 4, gap .6, length 20
			w := jit(t, "width", 4)
			k := &obj.FingerButtonParms{Width: w, Gap: math.Min(jit(t, "gap", 0.6), 0.4*w), Length: jit(t, "length", 20)}
			s, err := obj.FingerButton2D(k)
			return objBuilt{s2: s, parms: fmt.Sprintf("%+v", *k)}, err
		}},
		{"InvoluteGear", 2, func(t *rapid.T) (objBuilt, error) {
			// examples gears (20 teeth, module 1/32, 20 deg, ring .05, 7 facets), bjj (12/16 teeth, module 5, 10 facets)
			m := jit(t, "module", pickF(t, "modulebase", 5, 1.0/32, 1))
			k := &obj.InvoluteGearParms{
				NumberTeeth:   rapid.IntRange(6, 48).Draw(t, "teeth"),
				Module:        m,
				PressureAngle: deg(pickF(t, "pa", 20, 14.5, 25, fr(t, "paf", 14, 26))),
				Facets:        rapid.IntRange(3, 12).Draw(t, "facets"),
			}
			if flag(t, "backlash") {
				k.Backlash = m * fr(t, "backlashf", 0.01, 0.1)
			}
			if flag(t, "clearance") {
				k.Clearance = m * fr(t, "clearancef", 0.05, 0.3)
			}
			if flag(t, "ring") {
				root := float64(k.NumberTeeth)*m*0.5 - m - k.Clearance
				k.RingWidth = math.Min(m*fr(t, "ringf", 0.5, 3), 0.9*root)
			}
			s, err := obj.InvoluteGear(k)
			return objBuilt{s2: s, parms: fmt.Sprintf("%+v", *k)}, err
		}},
		{"Geneva2D", 4, func(t *rapid.T) (objBuilt, error) {
			// examples: 6/50/20/40/2.5/.1, 10/45/12/45/2/.1, 6/100/40/80/5/.5
			d := jit(t, "centre", 50)
			driven := d * fr(t, "driven", 0.7, 1)
			k := &obj.GenevaParms{
				NumSectors:     rapid.IntRange(3, 12).Draw(t, "sectors"),
				CenterDistance: d,
				DrivenRadius:   driven,
				DriverRadius:   (d - driven) + d*fr(t, "driver", 0.05, 0.4),
				PinRadius:      d * fr(t, "pin", 0.02, 0.08),
			}
			if flag(t, "clearance") {
				k.Clearance = d * fr(t, "clearancef", 0.001, 0.01)
			}
			driver, drivenS, err := obj.Geneva2D(k)
			if err != nil {
				return objBuilt{}, err
			}
			if flag(t, "wheel") {
				return objBuilt{s2: driver, parms: fmt.Sprintf("%+v driver", *k)}, nil
			}
			return objBuilt{s2: drivenS, parms: fmt.Sprintf("%+v driven", *k)}, nil
		}},
		{"Hex2D", 4, func(t *rapid.T) (objBuilt, error) {
			r := jit(t, "r", 12)
			round := r * pickF(t, "round", 0.2, 0.08, 0, fr(t, "roundf", 0, 0.4))
			s, err := obj.Hex2D(r, round)
			return objBuilt{s2: s, parms: fmt.Sprintf("r=%v round=%v", r, round)}, err
		}},
		{"BoltCircle2D", 4, func(t *rapid.T) (objBuilt, error) {
			// examples/maixgo: (holeRadius, .3 d, 6)
			cr := jit(t, "circle", 20)
			hr := cr * fr(t, "hole", 0.03, 0.5)
			n := rapid.IntRange(1, 12).Draw(t, "n")
			s, err := obj.BoltCircle2D(hr, cr, n)
			return objBuilt{s2: s, parms: fmt.Sprintf("hole=%v circle=%v n=%d", hr, cr, n)}, err
		}},
		{"Keyway2D", 4, func(t *rapid.T) (objBuilt, error) {
			k := genKeyway(t)
			s, err := obj.Keyway2D(k)
			return objBuilt{s2: s, parms: fmt.Sprintf("%+v", *k)}, err
		}},
		{"Panel2D", 4, func(t *rapid.T) (objBuilt, error) {
			k := genPanel(t)
			s, err := obj.Panel2D(k)
			return objBuilt{s2: s, parms: fmt.Sprintf("%+v", *k)}, err
		}},
		{"EuroRackPanel2D", 4, func(t *rapid.T) (objBuilt, error) {
			k := genEuroRack(t)
			parms := fmt.Sprintf("%+v", *k)
			s, err := obj.EuroRackPanel2D(k)
			return objBuilt{s2: s, parms: parms}, err
		}},
		{"Servo2D", 4, func(t *rapid.T) (objBuilt, error) {
			// examples: (k, -1) and (k, 2.1)
			k := genServo(t)
			hr := -1.0
			if flag(t, "holeradius") {
				hr = jit(t, "hr", 2.1)
			}
			s, err := obj.Servo2D(k, hr)
			return objBuilt{s2: s, parms: fmt.Sprintf("%+v holeRadius=%v", *k, hr)}, err
		}},
		{"ServoHorn", 4, func(t *rapid.T) (objBuilt, error) {
			// examples/delta: centre 3, 4 holes of 1.9 on a circle of radius 7
			k := &obj.ServoHornParms{CenterRadius: opt(t, "centre", 3)}
			if k.CenterRadius == 0 || flag(t, "holes") {
				k.NumHoles = rapid.IntRange(1, 8).Draw(t, "n")
				k.CircleRadius = jit(t, "circle", 7)
				k.HoleRadius = math.Min(jit(t, "hole", 1.9), 0.6*k.CircleRadius)
			}
			s, err := obj.ServoHorn(k)
			return objBuilt{s2: s, parms: fmt.Sprintf("%+v", *k)}, err
		}},
		{"Spring2D", 4, func(t *rapid.T) (objBuilt, error) {
			k := genSpring(t)
			parms := fmt.Sprintf("%+v", *k)
			s, err := k.Spring2D()
			return objBuilt{s2: s, parms: parms}, err
		}},
		{"Washer2D", 4, func(t *rapid.T) (objBuilt, error) {
			k := genWasher(t, false)
			s, err := obj.Washer2D(k)
			return objBuilt{s2: s, parms: fmt.Sprintf("%+v", *k)}, err
		}},
	}
}

// repoFiles is the directory of the sdfx data files.
func repoFiles() string { return "/repo/files" }

// --- the tests -----------------------------------------------------------------

// jumps reports whether the field changes sign under a nudge of 1e-9: no
// distance-like field can do that at a point where |value| is much larger than
// the nudge; it is the signature of the sdf.Polygon2D sign defect at query
// points level with a polygon vertex (tracked under C04).
func jumps3(s sdf.SDF3, p v3.Vec, v float64) bool {
	d := 1e-9 * math.Max(1, p.Length())
	if math.Abs(v) < 100*d {
		return false
	}
	for _, q := range []v3.Vec{{X: d}, {X: -d}, {Y: d}, {Y: -d}, {Z: d}, {Z: -d}} {
		if s.Evaluate(p.Add(q)) >= 0 {
			return true
		}
	}
	return false
}

func jumps2(s sdf.SDF2, p v2.Vec, v float64) bool {
	d := 1e-9 * math.Max(1, p.Length())
	if math.Abs(v) < 100*d {
		return false
	}
	for _, q := range []v2.Vec{{Y: d}, {Y: -d}, {X: d}, {X: -d}} {
		if s.Evaluate(p.Add(q)) >= 0 {
			return true
		}
	}
	return false
}

// uniformIndex draws an index in [0,n) uniformly: rapid's integer generators
// favour small values, fair coin flips do not (n << 65536).
func uniformIndex(t *rapid.T, label string, n int) int {
	v := 0
	for i := 0; i < 16; i++ {
		v <<= 1
		if rapid.Bool().Draw(t, fmt.Sprintf("%s.bit%d", label, i)) {
			v |= 1
		}
	}
	return v % n
}

// usesPolygon lists the constructors built (directly or through other parts) on
// sdf.Polygon2D: only their leaks can be the polygon sign defect.
var usesPolygon = map[string]bool{
	"Angle2D": true, "Angle3D": true, "Bolt": true, "Nut": true, "ThreadedCylinder": true, "ChamferedCylinder": true,
	"DrainCover": true, "DroneMotorArm": true, "DroneMotorArmSocket": true, "InvoluteGear": true, "Hex2D": true,
	"Hex3D": true, "HexHead3D": true, "Knurl3D": true, "KnurledHead3D": true, "Standoff3D": true,
}

func weighted(es []objEntry) []int {
	var tbl []int
	for i, e := range es {
		for j := 0; j < e.weight; j++ {
			tbl = append(tbl, i)
		}
	}
	return tbl
}

// only restricts the catalogue to the constructors named in the environment
// variable C01_OBJ_ONLY (comma separated) or drops those in C01_OBJ_SKIP: used
// for sensitivity runs against a mutant of one constructor.
func only(es []objEntry) []objEntry {
	in := func(list, name string) bool {
		for _, n := range strings.Split(list, ",") {
			if n == name {
				return true
			}
		}
		return false
	}
	var out []objEntry
	for _, e := range es {
		if l := os.Getenv("C01_OBJ_ONLY"); l != "" && !in(l, e.name) {
			continue
		}
		if l := os.Getenv("C01_OBJ_SKIP"); l != "" && in(l, e.name) {
			continue
		}
		out = append(out, e)
	}
	return out
}

func runCatalogue(t *testing.T, es []objEntry) {
	rec := ev.Get()
	es = only(es)
	tbl := weighted(es)
	rapid.Check(t, func(t *rapid.T) {
		e := es[tbl[uniformIndex(t, "constructor", len(tbl))]]
		b, err := e.gen(t)
		label := "obj:" + e.name
		if err != nil {
			// the constructor's own validation rejected the parameters: out of domain
			rec.Count("discarded:obj."+e.name+":constructor-rejected", 1)
			rec.Case(false, "", "discarded", "discarded:"+e.name)
			return
		}
		if b.s3 == nil && b.s2 == nil {
			rec.Count("discarded:obj."+e.name+":nil-shape", 1)
			rec.Case(false, "", "discarded", "discarded:"+e.name)
			return
		}
		var res boxprobe.Result
		if b.s3 != nil {
			bb := b.s3.BoundingBox()
			res = boxprobe.Probe3(t, b.s3, bb.Size().Length(), func(p v3.Vec, v, out float64, how string) {
				key, detail := "C01:obj."+e.name, ""
				if usesPolygon[e.name] && jumps3(b.s3, p, v) {
					key, detail = key+":polygon-vertex-level-sign", "the sign flips when the point is nudged by 1e-9"
				} else if b.classify != nil {
					if k, d := b.classify(p, v, out); k != "" {
						key, detail = k, d
					}
				}
				rec.Violation(t, key, "obj.%s(%s) (box %v): Evaluate(%v) = %v at a point %v outside the box [%s]; %s", e.name, b.parms, bb, p, v, out, how, detail)
			})
			if res.BoxProblem != "" {
				rec.Violation(t, "C01:obj."+e.name+":"+res.BoxProblem, "obj.%s(%s): box %v", e.name, b.parms, bb)
			}
		} else {
			bb := b.s2.BoundingBox()
			res = boxprobe.Probe2(t, b.s2, bb.Size().Length(), func(p v2.Vec, v, out float64, how string) {
				key, detail := "C01:obj."+e.name, ""
				if usesPolygon[e.name] && jumps2(b.s2, p, v) {
					key, detail = key+":polygon-vertex-level-sign", "the sign flips when the point is nudged by 1e-9"
				} else if b.classify != nil {
					if k, d := b.classify(v3.Vec{X: p.X, Y: p.Y}, v, out); k != "" {
						key, detail = k, d
					}
				}
				rec.Violation(t, key, "obj.%s(%s) (box %v): Evaluate(%v) = %v at a point %v outside the box [%s]; %s", e.name, b.parms, bb, p, v, out, how, detail)
			})
			if res.BoxProblem != "" {
				rec.Violation(t, "C01:obj."+e.name+":"+res.BoxProblem, "obj.%s(%s): box %v", e.name, b.parms, bb)
			}
		}
		rec.Add("probes-outside-box", int64(res.Probes))
		rec.Case(res.Interior > 0, e.name+" "+b.parms, label, fmt.Sprintf("%s:nonempty=%v", label, res.Interior > 0))
		rec.Sample(label, map[string]any{"constructor": e.name, "parameters": b.parms, "interior_samples": res.Interior, "probes": res.Probes})
	})
}

// TestObjCatalogue3 probes the boxes of the 3D parts of the object library.
func TestObjCatalogue3(t *testing.T) { runCatalogue(t, catalogue3()) }

// TestObjCatalogue2 probes the boxes of the 2D parts of the object library.
func TestObjCatalogue2(t *testing.T) { runCatalogue(t, catalogue2()) }

// ---------------------------------------------------------------------------
// regression cases (plain): minimised failures found by the catalogue tests

func regularTetra() []*sdf.Triangle3 {
	vs := []v3.Vec{{X: 1, Y: 1, Z: 1}, {X: 1, Y: -1, Z: -1}, {X: -1, Y: 1, Z: -1}, {X: -1, Y: -1, Z: 1}}
	var mesh []*sdf.Triangle3
	for _, f := range [][3]int{{0, 2, 1}, {0, 1, 3}, {0, 3, 2}, {1, 2, 3}} {
		tri := sdf.Triangle3{vs[f[0]], vs[f[1]], vs[f[2]]}
		if tri.Normal().Dot(tri[0]) < 0 {
			t := tri[1]
			tri[1], tri[2] = tri[2], t
		}
		mesh = append(mesh, &tri)
	}
	return mesh
}

func TestRegressObj(t *testing.T) {
	rec := ev.Get()
	leak3 := func(t *testing.T, name, key string, s sdf.SDF3, p v3.Vec) {
		bb := s.BoundingBox()
		rec.Case(true, ev.Key("regress-obj", name, p), "regress-obj")
		if out := boxprobe.Outside3(bb, p); out > boxprobe.Tau3(bb) && s.Evaluate(p) < -boxprobe.Tau3(bb) {
			rec.FailCase(t, "TestRegressObj", key, map[string]any{"shape": name, "p": p}, "%s: value %v at %v, %v outside box %v", name, s.Evaluate(p), p, out, bb)
		}
	}
	// ImportTriMesh of a closed convex mesh (a regular tetrahedron, every triangle
	// considered): beside the vertex (1,-1,-1) the triangle facing away from the
	// point wins the distance tie-break (it weighs |cos| of the angle to the
	// normal), so the value is the negative plane distance of that triangle.
	t.Run("ImportTriMesh", func(t *testing.T) {
		s := obj.ImportTriMesh(regularTetra(), 20, 3, 5)
		leak3(t, "ImportTriMesh(regular tetrahedron (+-1,+-1,+-1), 20, 3, 5)", "C01:obj.ImportTriMesh", s, v3.Vec{X: 0.92, Y: -3, Z: -0.9})
	})
	// DirectedArrow3D pointing almost exactly along -z: sdf.RotateToVector divides by
	// 1 + a.b = 0 (the test for opposite vectors only accepts 1e-12) and the
	// transform, hence the box, is NaN.
	t.Run("DirectedArrow3D", func(t *testing.T) {
		k := &obj.ArrowParms{Axis: [2]float64{0, 1}, Head: [2]float64{5, 2}, Tail: [2]float64{5, 2}, Style: "c."}
		head, tail := v3.Vec{X: 6e-7, Y: 6e-7, Z: -80}, v3.Vec{}
		s, err := obj.DirectedArrow3D(k, head, tail)
		if err != nil {
			t.Fatal(err)
		}
		bb := s.BoundingBox()
		rec.Case(true, "regress-obj-directedarrow", "regress-obj")
		if !(bb.Min.X <= bb.Max.X && bb.Min.Y <= bb.Max.Y && bb.Min.Z <= bb.Max.Z) || math.IsInf(bb.Size().Length(), 0) {
			rec.FailCase(t, "TestRegressObj", "C01:obj.DirectedArrow3D:box-not-finite", map[string]any{"head": head, "tail": tail}, "DirectedArrow3D(%+v, head %v, tail %v): box %v", *k, head, tail, bb)
		}
	})
	// known finding (blend): DrainCover with a cross bar web thicker than the cover
	// plate; the PolyMin(WallThickness) fillet of body and web bulges below z = 0.
	t.Run("DrainCover", func(t *testing.T) {
		k := &obj.DrainCoverParms{WallDiameter: 150, WallHeight: 20, WallThickness: 6, WallDraft: 0, OuterWidth: 10, InnerWidth: 8, CoverThickness: 4, GrateNumber: 9, GrateWidth: 1, GrateDraft: 0, CrossBarWidth: 1.8, CrossBarWeb: true}
		s, err := obj.DrainCover(k)
		if err != nil {
			t.Fatal(err)
		}
		leak3(t, fmt.Sprintf("DrainCover(%+v)", *k), "C01:blend-fillet-outside-box", s, v3.Vec{X: 0, Y: 0.5, Z: -0.05})
	})
	// sdf.Polygon2D sign defect at query points level with a vertex (tracked under
	// C04), reached through obj.Angle2D: the point is 2 left of the profile, level
	// with its top edge.
	t.Run("Angle2D", func(t *testing.T) {
		const l = 31.999018336304726 // whether a vertex level is hit depends on the rounding of the quadtree cells
		k := &obj.AngleParms{X: obj.AngleLeg{Length: l, Thickness: 6.35}, Y: obj.AngleLeg{Length: l, Thickness: 6.35}}
		s, err := obj.Angle2D(k)
		if err != nil {
			t.Fatal(err)
		}
		p, bb := v2.Vec{X: -2, Y: l}, s.BoundingBox()
		rec.Case(true, "regress-obj-angle2d", "regress-obj")
		if out := boxprobe.Outside2(bb, p); out > boxprobe.Tau2(bb) && s.Evaluate(p) < -boxprobe.Tau2(bb) {
			rec.FailCase(t, "TestRegressObj", "C01:obj.Angle2D:polygon-vertex-level-sign", map[string]any{"p": p}, "Angle2D(%+v): value %v at %v, %v outside box %v", *k, s.Evaluate(p), p, out, bb)
		}
	})
}
