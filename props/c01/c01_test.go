package c01

import (
	"fmt"
	"math"
	"sort"
	"testing"

	"github.com/deadsy/sdfx/sdf"
	v2 "github.com/deadsy/sdfx/vec/v2"
	v3 "github.com/deadsy/sdfx/vec/v3"
	"pgregory.net/rapid"

	"verif/internal/boxprobe"
	"verif/internal/ev"
	"verif/internal/shape"
)

func TestMain(m *testing.M) { ev.Main(m) }

func opLabels(n *shape.Node) []string {
	var ls []string
	for op := range n.Ops() {
		ls = append(ls, "op:"+op)
	}
	sort.Strings(ls)
	return ls
}

// underestimating reports whether the sub-program contains an operator whose
// field is not a Euclidean distance bound with a box that stays tight under the
// operations above it: matrix scaling, twisting / scaling extrusions, lofts, tapered
// screws, partial revolves (wedge half planes) - and every max-composition (extrusion,
// intersection, difference, cut, slice), whose offset surface is Chebyshev-like: a box
// that is enlarged per axis by the offset is exact for it only in its own frame, not after a
// rotation. Used only to classify findings.
func underestimating(n *shape.Node) bool {
	// an inward offset f+d of an exact field underestimates the distance to the eroded shape outside it
	// (near a corner of a box by d*(sqrt(3)-1)): the same class
	inward := false
	n.Walk(func(x *shape.Node) {
		if (x.Op == "offset2" || x.Op == "offset3") && len(x.P) > 0 && x.P[0] < 0 {
			inward = true
		}
	})
	if inward {
		return true
	}
	return n.Has("nuscale2", "nuscale3", "twist", "scaleext", "scaletwist", "loft", "screw", "revolvetheta",
		"extrude", "extround", "diff2", "diff3", "isect2", "isect3", "cut2", "cut3", "slice2",
		// GearRack2D evaluates max(tooth profile, |x| - length): a max-composition inside a leaf
		"gearrack")
}

// culprit finds the bottom-most node whose own built object is negative at the
// mapped point although that point is outside the node's own box.
func culprit(b *shape.Built, p [3]float64, tau float64) (string, string) {
	for _, e := range b.Trace(p) {
		var out, val float64
		if e.N.Dim() == 3 {
			s := b.S3[e.N]
			out = boxprobe.Outside3(s.BoundingBox(), v3.Vec{X: e.P[0], Y: e.P[1], Z: e.P[2]})
			val = s.Evaluate(v3.Vec{X: e.P[0], Y: e.P[1], Z: e.P[2]})
		} else {
			s := b.S2[e.N]
			out = boxprobe.Outside2(s.BoundingBox(), v2.Vec{X: e.P[0], Y: e.P[1]})
			val = s.Evaluate(v2.Vec{X: e.P[0], Y: e.P[1]})
		}
		if out > tau && val < -tau {
			key := "C01:" + e.N.Op
			if e.N.S == "PolyMin" || e.N.S == "PolyMax" {
				// a blend function is opaque to the constructor: the box is that of the unblended operands
				return "C01:blend-fillet-outside-box", fmt.Sprintf("sub-program %s: value %v at %v which is %v outside its box", e.N, val, e.P, out)
			}
			switch e.N.Op {
			case "twist", "scaletwist":
				kb := b.S2[e.N.K[0]].BoundingBox()
				if kb.Min.Length() > kb.Max.Length() {
					key += ":profile-min-corner-farther-than-max-corner"
				}
			case "offset2", "offset3", "extround", "loft", "shell3":
				// the recorded finding is about the OPERANDS of these constructors (they enlarge the operand's
				// box by the offset / round / thickness, which is enough exactly when the operand's field is a
				// distance bound); over operands with exact fields a leak is a violation of its own
				for _, k := range e.N.K {
					if underestimating(k) {
						key += ":operand-field-underestimates-distance"
						break
					}
				}
			}
			return key, fmt.Sprintf("sub-program %s: value %v at %v which is %v outside its box", e.N, val, e.P, out)
		}
	}
	return "C01:" + b.Root.Op + ":unlocalised", ""
}

// thinInwardOffset reports an inward offset that is not small against its
// operand's box (the solid may vanish and the box turn inside out): out of the
// generated domain.
func thinInwardOffset(b *shape.Built, n *shape.Node) bool {
	bad := false
	n.Walk(func(x *shape.Node) {
		if (x.Op == "offset2" || x.Op == "offset3") && x.P[0] < 0 {
			var m float64
			if x.Op == "offset3" {
				m = b.S3[x.K[0]].BoundingBox().Size().MinComponent()
			} else {
				sz := b.S2[x.K[0]].BoundingBox().Size()
				m = math.Min(sz.X, sz.Y)
			}
			if m < 4*math.Abs(x.P[0]) {
				bad = true
			}
		}
	})
	return bad
}

func checkBox3(rec *ev.Rec, t *rapid.T, n *shape.Node, b *shape.Built, S float64) boxprobe.Result {
	s := b.SDF3()
	bb := s.BoundingBox()
	res := boxprobe.Probe3(t, s, S, func(p v3.Vec, v, out float64, how string) {
		key, detail := culprit(b, [3]float64{p.X, p.Y, p.Z}, boxprobe.Tau3(bb))
		rec.Violation(t, key, "%s (box %v): Evaluate(%v) = %v at a point %v outside the box [%s]; %s", n, bb, p, v, out, how, detail)
	})
	if res.BoxProblem != "" {
		rec.Violation(t, "C01:"+n.Op+":"+res.BoxProblem, "%s: box %v", n, bb)
	}
	// symmetry witnesses: a rotate-copy / rotate-union at the root is (by its definition) a pattern about
	// the z axis; an interior sample turned by multiples of the step angle is a candidate for another
	// copy's material. It is only EVALUATED there (no claim that it is inside): negative and outside
	// the box is a leak like any other.
	if step, cnt := rotStep(n); cnt > 1 {
		tau := boxprobe.Tau3(bb)
		for _, p := range res.Interior3 {
			for k := 1; k < cnt; k++ {
				for _, sgn := range []float64{1, -1} {
					a := sgn * float64(k) * step
					q := v3.Vec{X: p.X*math.Cos(a) - p.Y*math.Sin(a), Y: p.X*math.Sin(a) + p.Y*math.Cos(a), Z: p.Z}
					out := boxprobe.Outside3(bb, q)
					if out <= tau {
						continue
					}
					res.Probes++
					if v := s.Evaluate(q); v < -tau {
						key, detail := culprit(b, [3]float64{q.X, q.Y, q.Z}, tau)
						rec.Violation(t, key, "%s (box %v): Evaluate(%v) = %v at a point %v outside the box [symmetry witness of the interior sample %v]; %s", n, bb, q, v, out, p, detail)
					}
				}
			}
		}
	}
	return res
}

// rotStep: step angle and copy count of a rotational pattern at the root (0,0 otherwise).
func rotStep(n *shape.Node) (float64, int) {
	switch n.Op {
	case "rotcopy3", "rotcopy2":
		return 2 * math.Pi / float64(n.I[0]), n.I[0]
	case "rotunion3", "rotunion2":
		return n.P[0], n.I[0]
	}
	return 0, 0
}

func checkBox2(rec *ev.Rec, t *rapid.T, n *shape.Node, b *shape.Built, S float64) boxprobe.Result {
	s := b.SDF2()
	bb := s.BoundingBox()
	res := boxprobe.Probe2(t, s, S, func(p v2.Vec, v, out float64, how string) {
		key, detail := culprit(b, [3]float64{p.X, p.Y, 0}, boxprobe.Tau2(bb))
		rec.Violation(t, key, "%s (box %v): Evaluate(%v) = %v at a point %v outside the box [%s]; %s", n, bb, p, v, out, how, detail)
	})
	if res.BoxProblem != "" {
		rec.Violation(t, "C01:"+n.Op+":"+res.BoxProblem, "%s: box %v", n, bb)
	}
	if step, cnt := rotStep(n); cnt > 1 {
		tau := boxprobe.Tau2(bb)
		for _, p := range res.Interior2 {
			for k := 1; k < cnt; k++ {
				for _, sgn := range []float64{1, -1} {
					a := sgn * float64(k) * step
					q := v2.Vec{X: p.X*math.Cos(a) - p.Y*math.Sin(a), Y: p.X*math.Sin(a) + p.Y*math.Cos(a)}
					out := boxprobe.Outside2(bb, q)
					if out <= tau {
						continue
					}
					res.Probes++
					if v := s.Evaluate(q); v < -tau {
						key, detail := culprit(b, [3]float64{q.X, q.Y, 0}, tau)
						rec.Violation(t, key, "%s (box %v): Evaluate(%v) = %v at a point %v outside the box [symmetry witness of the interior sample %v]; %s", n, bb, q, v, out, p, detail)
					}
				}
			}
		}
	}
	return res
}

func TestBoxEncloses3(t *testing.T) {
	rec := ev.Get()
	rapid.Check(t, func(t *rapid.T) {
		S := rapid.SampledFrom([]float64{1, 10, 100}).Draw(t, "scale")
		depth := rapid.IntRange(0, ev.Pick(3, 4)).Draw(t, "depth")
		n := shape.Gen3(t, shape.Opts{S: S, Depth: depth, Grammar: shape.Full, Special: true, NoBlend: true, UniformRoot: rapid.Bool().Draw(t, "uniform-root"), NoText: rapid.IntRange(0, 9).Draw(t, "textok") != 0})
		// place the whole shape away from the origin / rotated / mirrored
		if rapid.IntRange(0, 2).Draw(t, "place") > 0 {
			n = shape.Place3(t, n, S)
		}
		b, err := shape.Build(n)
		if err != nil {
			if _, ok := err.(shape.ErrDomain); ok {
				rec.Count("discarded:constructor-rejected", 1)
				rec.Case(false, "", "discarded")
				return
			}
			t.Fatalf("build: %v", err)
		}
		if thinInwardOffset(b, n) {
			rec.Count("discarded:inward-offset-not-small-against-operand", 1)
			rec.Case(false, "", "discarded")
			return
		}
		res := checkBox3(rec, t, n, b, S)
		nt := res.Interior > 0 && (n.Combinators() >= 1)
		rec.Add("probes-outside-box", int64(res.Probes))
		rec.Case(nt, n.String(), append(opLabels(n), fmt.Sprintf("nonempty=%v", res.Interior > 0))...)
		rec.Sample("program3", map[string]any{"program": n.String(), "box": fmt.Sprint(b.SDF3().BoundingBox()), "interior_samples": res.Interior, "probes": res.Probes})
	})
}

func TestBoxEncloses2(t *testing.T) {
	rec := ev.Get()
	rapid.Check(t, func(t *rapid.T) {
		S := rapid.SampledFrom([]float64{1, 10, 100}).Draw(t, "scale")
		depth := rapid.IntRange(0, ev.Pick(3, 4)).Draw(t, "depth")
		n := shape.Gen2(t, shape.Opts{S: S, Depth: depth, Grammar: shape.Full, Special: true, NoBlend: true, UniformRoot: rapid.Bool().Draw(t, "uniform-root"), NoText: rapid.IntRange(0, 9).Draw(t, "textok") != 0})
		if rapid.IntRange(0, 2).Draw(t, "place") > 0 {
			n = shape.Place2(t, n, S)
		}
		b, err := shape.Build(n)
		if err != nil {
			if _, ok := err.(shape.ErrDomain); ok {
				rec.Count("discarded:constructor-rejected", 1)
				rec.Case(false, "", "discarded")
				return
			}
			t.Fatalf("build: %v", err)
		}
		if thinInwardOffset(b, n) {
			rec.Count("discarded:inward-offset-not-small-against-operand", 1)
			rec.Case(false, "", "discarded")
			return
		}
		res := checkBox2(rec, t, n, b, S)
		nt := res.Interior > 0 && (n.Combinators() >= 1)
		rec.Add("probes-outside-box", int64(res.Probes))
		rec.Case(nt, n.String(), append(opLabels(n), fmt.Sprintf("nonempty=%v", res.Interior > 0))...)
		rec.Sample("program2", map[string]any{"program": n.String(), "box": fmt.Sprint(b.SDF2().BoundingBox()), "interior_samples": res.Interior, "probes": res.Probes})
	})
}

// TestConstructorBoxes3 / 2: every constructor of the grammar as the OUTERMOST operation over leaf
// operands (depth 1, the operator drawn uniformly): the constructor's own box arithmetic in
// isolation, a few hundred cases per constructor and run.
func TestConstructorBoxes3(t *testing.T) {
	rec := ev.Get()
	rapid.Check(t, func(t *rapid.T) {
		S := rapid.SampledFrom([]float64{1, 10, 100}).Draw(t, "scale")
		n := shape.Gen3(t, shape.Opts{S: S, Depth: rapid.IntRange(1, 2).Draw(t, "depth"), Grammar: shape.Full, Special: true, NoBlend: true, UniformRoot: true, NoText: true})
		b, err := shape.Build(n)
		if err != nil {
			if _, ok := err.(shape.ErrDomain); ok {
				rec.Count("discarded:constructor-rejected", 1)
				rec.Case(false, "", "discarded")
				return
			}
			t.Fatalf("build: %v", err)
		}
		if thinInwardOffset(b, n) {
			rec.Count("discarded:inward-offset-not-small-against-operand", 1)
			rec.Case(false, "", "discarded")
			return
		}
		res := checkBox3(rec, t, n, b, S)
		rec.Add("probes-outside-box", int64(res.Probes))
		rec.Case(res.Interior > 0, n.String(), "root:"+n.Op, fmt.Sprintf("nonempty=%v", res.Interior > 0))
		rec.Sample("constructor3:"+n.Op, map[string]any{"program": n.String(), "box": fmt.Sprint(b.SDF3().BoundingBox()), "interior_samples": res.Interior, "probes": res.Probes})
	})
}

func TestConstructorBoxes2(t *testing.T) {
	rec := ev.Get()
	rapid.Check(t, func(t *rapid.T) {
		S := rapid.SampledFrom([]float64{1, 10, 100}).Draw(t, "scale")
		n := shape.Gen2(t, shape.Opts{S: S, Depth: rapid.IntRange(1, 2).Draw(t, "depth"), Grammar: shape.Full, Special: true, NoBlend: true, UniformRoot: true, NoText: true})
		b, err := shape.Build(n)
		if err != nil {
			if _, ok := err.(shape.ErrDomain); ok {
				rec.Count("discarded:constructor-rejected", 1)
				rec.Case(false, "", "discarded")
				return
			}
			t.Fatalf("build: %v", err)
		}
		if thinInwardOffset(b, n) {
			rec.Count("discarded:inward-offset-not-small-against-operand", 1)
			rec.Case(false, "", "discarded")
			return
		}
		res := checkBox2(rec, t, n, b, S)
		rec.Add("probes-outside-box", int64(res.Probes))
		rec.Case(res.Interior > 0, n.String(), "root:"+n.Op, fmt.Sprintf("nonempty=%v", res.Interior > 0))
		rec.Sample("constructor2:"+n.Op, map[string]any{"program": n.String(), "box": fmt.Sprint(b.SDF2().BoundingBox()), "interior_samples": res.Interior, "probes": res.Probes})
	})
}

// TestVoxelBox: the voxel wrapper (NewVoxelSDF3) is a shape the library constructs as well: it reports the
// wrapped shape's box and evaluates by trilinear interpolation of samples taken inside that box.
func TestVoxelBox(t *testing.T) {
	rec := ev.Get()
	rapid.Check(t, func(t *rapid.T) {
		S := rapid.SampledFrom([]float64{1, 10, 100}).Draw(t, "scale")
		n := shape.GenExact3(t, S, rapid.IntRange(0, 2).Draw(t, "depth"))
		b, err := shape.Build(n)
		if err != nil {
			rec.Count("discarded:constructor-rejected", 1)
			rec.Case(false, "", "discarded")
			return
		}
		cells := rapid.IntRange(2, 12).Draw(t, "cells")
		sz := b.SDF3().BoundingBox().Size()
		if !(sz.MinComponent() > 1.01*sz.MaxComponent()/float64(cells)) {
			// an axis thinner than a voxel gets zero voxels: the constructor divides by that count
			rec.Count("discarded:axis-thinner-than-a-voxel", 1)
			rec.Case(false, "", "discarded")
			return
		}
		v := sdf.NewVoxelSDF3(b.SDF3(), cells, nil)
		bb := v.BoundingBox()
		res := boxprobe.Probe3(t, v, S, func(p v3.Vec, val, out float64, how string) {
			rec.Violation(t, "C01:voxel3", "NewVoxelSDF3(%s, %d cells) (box %v): Evaluate(%v) = %v at a point %v outside the box [%s]", n, cells, bb, p, val, out, how)
		})
		if res.BoxProblem != "" {
			rec.Violation(t, "C01:voxel3:"+res.BoxProblem, "NewVoxelSDF3(%s, %d): box %v", n, cells, bb)
		}
		rec.Add("probes-outside-box", int64(res.Probes))
		rec.Case(res.Interior > 0, ev.Key("voxel", n.String(), cells), "root:voxel3", fmt.Sprintf("nonempty=%v", res.Interior > 0))
		rec.Sample("voxel3", map[string]any{"program": n.String(), "cells": cells, "box": fmt.Sprint(bb), "interior_samples": res.Interior, "probes": res.Probes})
	})
}

// ---------------------------------------------------------------------------
// regression cases (plain): minimised failures found by the campaigns above

func TestRegress(t *testing.T) {
	rec := ev.Get()
	leak3 := func(name, key string, s sdf.SDF3, pts []v3.Vec) {
		bb := s.BoundingBox()
		for _, p := range pts {
			rec.Case(true, ev.Key("regress", name, p), "regress")
			if out := boxprobe.Outside3(bb, p); out > boxprobe.Tau3(bb) && s.Evaluate(p) < -boxprobe.Tau3(bb) {
				rec.FailCase(t, "TestRegress", key, map[string]any{"shape": name, "p": p}, "%s: value %v at %v, %v outside box %v", name, s.Evaluate(p), p, out, bb)
			}
		}
	}
	// twist extrusion of a profile whose Min corner is farther from the origin than its Max corner
	prof := sdf.Transform2D(sdf.Box2D(v2.Vec{X: 1, Y: 0.6}, 0), sdf.Translate2d(v2.Vec{X: -2, Y: -1.5}))
	var ring []v3.Vec
	for i := 0; i < 720; i++ {
		a := float64(i) * 3.141592653589793 / 360
		for _, z := range []float64{-0.9, -0.5, 0, 0.5, 0.9} {
			for _, r := range []float64{2.2, 2.5, 2.8, 3.0} {
				ring = append(ring, v3.Vec{X: r * cos(a), Y: r * sin(a), Z: z})
			}
		}
	}
	leak3("TwistExtrude3D(box 1x0.6 @(-2,-1.5), 2, 1.5)", "C01:twist:profile-min-corner-farther-than-max-corner", sdf.TwistExtrude3D(prof, 2, 1.5), ring)
	leak3("ScaleTwistExtrude3D(box 1x0.6 @(-2,-1.5), 2, 1.5, (1.2,0.8))", "C01:scaletwist:profile-min-corner-farther-than-max-corner", sdf.ScaleTwistExtrude3D(prof, 2, 1.5, v2.Vec{X: 1.2, Y: 0.8}), ring)
	// anisotropically scaled twist extrusion
	{
		st := sdf.ScaleTwistExtrude3D(sdf.Box2D(v2.Vec{X: 1.2840254166877414, Y: 1.5}, 0), 2, 2.718281828459045, v2.Vec{X: 2.5, Y: 1.2840254166877414})
		var pts []v3.Vec
		for i := 0; i < 720; i++ {
			a := float64(i) * 3.141592653589793 / 360
			for _, z := range []float64{0.5, 0.8, 0.9, 0.94, 0.99} {
				for _, r := range []float64{1.9, 2.0, 2.1, 2.3} {
					pts = append(pts, v3.Vec{X: r * cos(a), Y: r * sin(a), Z: z})
				}
			}
		}
		leak3("ScaleTwistExtrude3D(box 1.284x1.5, 2, 2.718, (2.5,1.284))", "C01:scaletwist", st, pts)
	}
	// known finding: offset of an operand whose field underestimates distance
	{
		c, _ := sdf.Circle2D(0.25)
		o := sdf.Offset2D(sdf.Transform2D(c, sdf.Scale2d(v2.Vec{X: 3, Y: 3})), 0.36787944117144233)
		p := v2.Vec{X: -1.2759714678517133, Y: 1.1178794411714423}
		obb := o.BoundingBox()
		rec.Case(true, "regress-offset-nuscale", "regress")
		if out := boxprobe.Outside2(obb, p); out > boxprobe.Tau2(obb) && o.Evaluate(p) < -boxprobe.Tau2(obb) {
			rec.FailCase(t, "TestRegress", "C01:offset2:operand-field-underestimates-distance", map[string]any{"p": p}, "Offset2D(Transform2D(circle .25, Scale2d(3,3)), 0.368): value %v at %v, %v outside box %v", o.Evaluate(p), p, out, obb)
		}
	}
	// three arc cam with a small flank radius
	cam, err := sdf.ThreeArcCam2D(3, 2, 1, 3.05)
	if err != nil {
		t.Fatal(err)
	}
	cbb := cam.BoundingBox()
	for i := 0; i <= 400; i++ {
		for j := 0; j <= 40; j++ {
			p := v2.Vec{X: 2 + float64(j)*0.025, Y: -2 + float64(i)*0.015}
			rec.Case(true, ev.Key("regress-cam", p), "regress")
			if out := boxprobe.Outside2(cbb, p); out > boxprobe.Tau2(cbb) && cam.Evaluate(p) < -boxprobe.Tau2(cbb) {
				rec.FailCase(t, "TestRegress", "C01:threearccam", map[string]any{"p": p}, "ThreeArcCam2D(3,2,1,3.05): value %v at %v, %v outside box %v", cam.Evaluate(p), p, out, cbb)
			}
		}
	}
	// known finding: the fillet of a blended union protrudes from the operand box
	s1, _ := sdf.Sphere3D(0.25)
	s2, _ := sdf.Sphere3D(0.25)
	u := sdf.Union3D(s1, s2)
	u.(*sdf.UnionSDF3).SetMin(sdf.PolyMin(0.36787944117144233))
	leak3("Union3D(Sphere3D(.25),Sphere3D(.25)).SetMin(PolyMin(0.368))", "C01:blend-fillet-outside-box", u, []v3.Vec{{X: 0.2521650635094611, Y: 0.12608253175473055, Z: 0.12608253175473055}})
}

func cos(a float64) float64 { return math.Cos(a) }
func sin(a float64) float64 { return math.Sin(a) }
