package c07

import (
	"fmt"
	"math"
	"sort"
	"sync"
	"testing"

	"github.com/deadsy/sdfx/render"
	"github.com/deadsy/sdfx/sdf"
	v2 "github.com/deadsy/sdfx/vec/v2"
	v3 "github.com/deadsy/sdfx/vec/v3"
	"pgregory.net/rapid"

	"verif/internal/ev"
	"verif/internal/g"
	"verif/internal/lat"
	"verif/internal/mesh"
	"verif/internal/shape"
)

func TestMain(m *testing.M) { ev.Main(m) }

const epsilon = 1e-12 // the renderer's vertex snap threshold (render/utils.go), not scale invariant

type tkey [9]uint64

func triKeys(ts []*sdf.Triangle3) []tkey {
	ks := make([]tkey, len(ts))
	for i, t := range ts {
		for j := 0; j < 3; j++ {
			ks[i][3*j], ks[i][3*j+1], ks[i][3*j+2] = math.Float64bits(t[j].X), math.Float64bits(t[j].Y), math.Float64bits(t[j].Z)
		}
	}
	sort.Slice(ks, func(a, b int) bool {
		for j := 0; j < 9; j++ {
			if ks[a][j] != ks[b][j] {
				return ks[a][j] < ks[b][j]
			}
		}
		return false
	})
	return ks
}

type lkey [4]uint64

func lineKeys(ls []*sdf.Line2) []lkey {
	ks := make([]lkey, len(ls))
	for i, l := range ls {
		ks[i] = lkey{math.Float64bits(l[0].X), math.Float64bits(l[0].Y), math.Float64bits(l[1].X), math.Float64bits(l[1].Y)}
	}
	sort.Slice(ks, func(a, b int) bool {
		for j := 0; j < 4; j++ {
			if ks[a][j] != ks[b][j] {
				return ks[a][j] < ks[b][j]
			}
		}
		return false
	})
	return ks
}

func collect2(s sdf.SDF2, r render.Render2) []*sdf.Line2 {
	ch := make(chan []*sdf.Line2)
	var out []*sdf.Line2
	var wg sync.WaitGroup
	wg.Add(1)
	go func() {
		defer wg.Done()
		for ls := range ch {
			out = append(out, ls...)
		}
	}()
	r.Render(s, sdf.NewLine2Buffer(ch))
	close(ch)
	wg.Wait()
	return out
}

func distinct3(pts []v3.Vec) int {
	m := map[v3.Vec]struct{}{}
	for _, p := range pts {
		m[p] = struct{}{}
	}
	return len(m)
}

func distinct2(pts []v2.Vec) int {
	m := map[v2.Vec]struct{}{}
	for _, p := range pts {
		m[p] = struct{}{}
	}
	return len(m)
}

// scene3 draws a 3D scene: a generated 1-Lipschitz program or a constructed
// stress scene (features smaller than a coarse cube, spheres tangent to lattice
// planes, surfaces through lattice nodes).
func scene3(t *rapid.T, cells int) (sdf.SDF3, string, string, bool) {
	kind := rapid.SampledFrom([]string{"program", "program", "small-far-parts", "lattice-tangent-spheres", "thin-plate", "corner-clipping-plane", "lattice-aligned-box"}).Draw(t, "kind")
	switch kind {
	case "lattice-aligned-box":
		// an exact box whose faces lie ON lattice planes: the corners of the cubes along a face evaluate to
		// exactly 0 (which marching cubes counts as outside), the rest of such a cube is inside
		n := float64(cells)
		bb := sdf.Box3{Min: v3.Vec{}, Max: v3.Vec{X: n, Y: n, Z: n}}
		cal := &lat.Recorder3{S: lat.Const3{V: 1e-300, BB: bb}}
		render.ToTriangles(cal, render.NewMarchingCubesOctree(cells))
		ax := lat.AxesOf3(cal.Pts, 1e-9)
		if len(ax.X) < 11 {
			return nil, kind, "", false
		}
		// (the recorded axes hold cell corners and cube centres alternately: even indices are corners)
		face := func(l string, axis []float64) (float64, float64) {
			m := (len(axis) - 1) / 2
			// at least two cells thick: a lattice node strictly inside
			i := rapid.IntRange(1, m-3).Draw(t, l+".lo")
			j := rapid.IntRange(i+2, m-1).Draw(t, l+".hi")
			return axis[2*i], axis[2*j]
		}
		var lo, hi v3.Vec
		lo.X, hi.X = face("x", ax.X)
		lo.Y, hi.Y = face("y", ax.Y)
		lo.Z, hi.Z = face("z", ax.Z)
		return exactBox3{lo, hi, bb}, kind, fmt.Sprintf("box %v..%v with faces on lattice planes", lo, hi), true
	case "corner-clipping-plane":
		// the emptiness test of a cube compares the centre value with the half diagonal: the decisive
		// inputs are surfaces that clip a cube by a sliver at one corner, normal along the cube diagonal.
		// The lattice is recorded from a calibration render of a tiny constant field in the same box
		// (nothing is pruned), a cube of some octree level and one of its corners are drawn, and the
		// half space ends a small fraction of the cube side past that corner.
		n := float64(cells)
		bb := sdf.Box3{Min: v3.Vec{}, Max: v3.Vec{X: n, Y: n, Z: n}}
		cal := &lat.Recorder3{S: lat.Const3{V: 1e-300, BB: bb}}
		render.ToTriangles(cal, render.NewMarchingCubesOctree(cells))
		ax := lat.AxesOf3(cal.Pts, 1e-9)
		N := len(ax.X) - 1
		if N < 2 || len(ax.Y) != N+1 || len(ax.Z) != N+1 {
			return nil, kind, "", false
		}
		maxL := 0
		for (2 << maxL) <= N/2 {
			maxL++
		}
		L := rapid.IntRange(0, maxL).Draw(t, "level")
		side := 1 << L
		var q, e v3.Vec
		idx := func(l string, axis []float64) (float64, float64) {
			a := rapid.IntRange(0, N/side-1).Draw(t, l+".cube")
			b := rapid.IntRange(0, 1).Draw(t, l+".corner")
			return axis[(a+b)*side], float64(1 - 2*b)
		}
		q.X, e.X = idx("x", ax.X)
		q.Y, e.Y = idx("y", ax.Y)
		q.Z, e.Z = idx("z", ax.Z)
		res := ax.X[1] - ax.X[0]
		eps := g.LogUniform(t, "sliver-depth-in-cube-sides", 1e-7, 1e-2)
		nrm := e.MulScalar(1 / math.Sqrt(3))
		pl := plane3{nrm, nrm.Dot(q) + eps*float64(side)*res, bb}
		return pl, kind, fmt.Sprintf("half space through the corner %v of a level-%d cube (side %d cells), %g cube sides deep, normal %v", q, L, side, eps, nrm), true
	case "program":
		S := rapid.SampledFrom([]float64{1, 10, 1, 10, 1e-7, 1e-4, 1e4}).Draw(t, "scale")
		n := shape.Gen3(t, shape.Opts{S: S, Depth: rapid.IntRange(0, 3).Draw(t, "depth"), Grammar: shape.Lipschitz, NoPoly: true, SolidUnion2: true})
		b, err := shape.Build(n)
		if err != nil {
			return nil, kind, "", false
		}
		return b.SDF3(), kind, n.String(), true
	case "small-far-parts":
		// a few small spheres / boxes scattered in a big box
		L := 100.0
		var parts []sdf.SDF3
		desc := ""
		for i := 0; i < rapid.IntRange(1, 5).Draw(t, "nparts"); i++ {
			r := g.LogUniform(t, fmt.Sprintf("r%d", i), 0.2, 8)
			c := v3.Vec{X: g.Coord(t, fmt.Sprintf("x%d", i), L/2-10), Y: g.Coord(t, fmt.Sprintf("y%d", i), L/2-10), Z: g.Coord(t, fmt.Sprintf("z%d", i), L/2-10)}
			s, _ := sdf.Sphere3D(r)
			parts = append(parts, sdf.Transform3D(s, sdf.Translate3d(c)))
			desc += fmt.Sprintf("sphere(%g)@%v ", r, c)
		}
		u := sdf.Union3D(parts...)
		return lat.Rebox3{S: u, BB: sdf.Box3{Min: v3.Vec{X: -L / 2, Y: -L / 2, Z: -L / 2}, Max: v3.Vec{X: L / 2, Y: L / 2, Z: L / 2}}}, kind, desc, true
	case "lattice-tangent-spheres":
		// box [0,n]^3: the octree lattice is origin -0.005n + k*res with res = n/cells.
		n := float64(cells)
		res := 1.0
		org := -0.005 * n
		var parts []sdf.SDF3
		desc := ""
		for i := 0; i < rapid.IntRange(1, 3).Draw(t, "nparts"); i++ {
			k := func(l string) float64 { return float64(rapid.IntRange(2, cells-2).Draw(t, fmt.Sprintf("%s%d", l, i))) }
			c := v3.Vec{X: org + k("kx")*res, Y: org + k("ky")*res, Z: org + k("kz")*res}
			if rapid.Bool().Draw(t, fmt.Sprintf("half%d", i)) {
				c = c.AddScalar(res / 2) // cube centres
			}
			r := float64(rapid.IntRange(1, 4).Draw(t, fmt.Sprintf("rk%d", i))) * res / 2
			s, _ := sdf.Sphere3D(r)
			parts = append(parts, sdf.Transform3D(s, sdf.Translate3d(c)))
			desc += fmt.Sprintf("sphere(%g)@%v ", r, c)
		}
		u := sdf.Union3D(parts...)
		return lat.Rebox3{S: u, BB: sdf.Box3{Min: v3.Vec{}, Max: v3.Vec{X: n, Y: n, Z: n}}}, kind, desc, true
	default:
		// a thin plate much thinner than a coarse cube, tilted
		L := 50.0
		th := g.LogUniform(t, "thickness", 0.05, 2)
		bx, _ := sdf.Box3D(v3.Vec{X: 30, Y: 30, Z: th}, 0)
		m := sdf.Translate3d(v3.Vec{X: g.Coord(t, "px", 5), Y: g.Coord(t, "py", 5), Z: g.Coord(t, "pz", 5)}).Mul(sdf.Rotate3d(v3.Vec{X: 1, Y: g.F(-1, 1).Draw(t, "ay"), Z: g.F(-1, 1).Draw(t, "az")}, g.Angle(t, "tilt")))
		s := sdf.Transform3D(bx, m)
		return lat.Rebox3{S: s, BB: sdf.Box3{Min: v3.Vec{X: -L / 2, Y: -L / 2, Z: -L / 2}, Max: v3.Vec{X: L / 2, Y: L / 2, Z: L / 2}}}, kind, fmt.Sprintf("plate thickness %g", th), true
	}
}

func TestOctreeLosesNothing(t *testing.T) {
	rec := ev.Get()
	rapid.Check(t, func(t *rapid.T) {
		cells := rapid.IntRange(4, ev.Pick(24, 64)).Draw(t, "cells")
		s, kind, desc, ok := scene3(t, cells)
		if !ok {
			rec.Count("discarded:constructor-rejected", 1)
			rec.Case(false, "", "discarded")
			return
		}
		bb := s.BoundingBox()
		sz := bb.Size()
		if !(sz.MinComponent() > 0) || !shape.Finite(sz.X, sz.Y, sz.Z) || sz.MaxComponent() > 1e5 {
			rec.Count("discarded:degenerate-box", 1)
			rec.Case(false, "", "discarded")
			return
		}
		res := sz.MaxComponent() / float64(cells)
		hdiagMin := 0.5 * math.Sqrt(3) * res // half diagonal of the finest cube that is tested for emptiness
		base := &lat.Recorder3{S: s}
		// one renderer object for the whole case; with some probability it has already rendered another
		// shape in the same box (a renderer may be reused for several parts)
		ro := render.NewMarchingCubesOctree(cells)
		if rapid.IntRange(0, 2).Draw(t, "reuse-renderer") == 0 {
			dr := sz.MinComponent() * g.F(0.1, 0.4).Draw(t, "decoy-radius")
			sp, _ := sdf.Sphere3D(dr)
			render.ToTriangles(lat.Rebox3{S: sdf.Transform3D(sp, sdf.Translate3d(bb.Center())), BB: bb}, ro)
			rec.Add("octree:renderer-reused", 1)
		}
		tb := render.ToTriangles(base, ro)
		// bound |f| over the sampled cube from a corner value and the Lipschitz property, then pick k
		maxAbs := 0.0
		for _, v := range base.Val {
			maxAbs = math.Max(maxAbs, math.Abs(v))
		}
		maxAbs += 4 * sz.Length()
		k := int(math.Ceil(math.Log2(maxAbs/hdiagMin))) + 1
		if k < 1 {
			k = 1
		}
		scaled := &lat.Recorder3{S: lat.Scaled3{S: s, K: math.Ldexp(1, -k)}}
		tsc := render.ToTriangles(scaled, render.NewMarchingCubesOctree(cells))
		// the pair of renders compared below shares the code that turns ONE finest cube into triangles. What evaluating every
		// finest-level cell emits is a surface without a boundary inside the lattice (neighbouring cells
		// interpolate their shared edges identically): a directed edge without its reverse may only lie in
		// the outer faces of the sampled cube, where the surface leaves the lattice. A cell whose triangles
		// were dropped, filtered or altered leaves such an edge in the interior.
		{
			ax := lat.AxesOf3(scaled.Pts, 1e-9*res)
			lo := v3.Vec{X: ax.X[0], Y: ax.Y[0], Z: ax.Z[0]}
			hi := v3.Vec{X: ax.X[len(ax.X)-1], Y: ax.Y[len(ax.Y)-1], Z: ax.Z[len(ax.Z)-1]}
			e := 1e-6 * res
			onFace := func(p v3.Vec) bool {
				return p.X <= lo.X+e || p.Y <= lo.Y+e || p.Z <= lo.Z+e || p.X >= hi.X-e || p.Y >= hi.Y-e || p.Z >= hi.Z-e
			}
			r := mesh.Analyze3(tb, 1e-6*res)
			inner := 0
			var first [2]v3.Vec
			for _, oe := range r.Open {
				if !(onFace(oe[0]) && onFace(oe[1])) {
					if inner == 0 {
						first = oe
					}
					inner++
				}
			}
			rec.Add("octree:open-edges-in-the-outer-faces", int64(len(r.Open)-inner))
			if inner > 0 {
				rec.Violation(t, "MarchingCubesOctree:open-edge-inside-the-lattice", "%d cells, scene [%s] %s: %d directed edges inside the sampled cube have no reverse edge, e.g. %v -> %v (%d triangles, cell %v): the triangles of some finest cube are missing or altered", cells, kind, desc, inner, first[0], first[1], len(tb), res)
			}
		}
		// the scaled run must really be unpruned: every sampled |g| below the finest half diagonal
		for _, v := range scaled.Val {
			if !(math.Abs(v) < hdiagMin) {
				rec.Count("inconclusive:scaled-run-not-below-half-diagonal", 1)
				rec.Case(false, "", "inconclusive")
				return
			}
		}
		// the epsilon snap is not scale invariant: a value in [eps, eps*2^k) is snapped only in the scaled run
		for _, v := range base.Val {
			if a := math.Abs(v); a >= epsilon && a < math.Ldexp(epsilon, k) {
				rec.Count("not-comparable:value-inside-scaled-epsilon", 1)
				rec.Case(false, "", "not-comparable")
				return
			}
		}
		// the (unpruned) lattice must cover the bounding box, otherwise geometry near its far faces is lost
		// in both runs alike and the comparison below cannot see it
		{
			ax := lat.AxesOf3(scaled.Pts, 1e-9*res)
			if e := 1e-9 * res; ax.X[0] > bb.Min.X+e || ax.Y[0] > bb.Min.Y+e || ax.Z[0] > bb.Min.Z+e ||
				ax.X[len(ax.X)-1] < bb.Max.X-e || ax.Y[len(ax.Y)-1] < bb.Max.Y-e || ax.Z[len(ax.Z)-1] < bb.Max.Z-e {
				rec.Violation(t, "MarchingCubesOctree:lattice-does-not-cover-bounding-box", "%d cells, scene [%s] %s: finest-level lattice spans %v..%v, bounding box %v", cells, kind, desc, v3.Vec{X: ax.X[0], Y: ax.Y[0], Z: ax.Z[0]}, v3.Vec{X: ax.X[len(ax.X)-1], Y: ax.Y[len(ax.Y)-1], Z: ax.Z[len(ax.Z)-1]}, bb)
			}
		}
		nb, ns := distinct3(base.Pts), distinct3(scaled.Pts)
		kb, ks := triKeys(tb), triKeys(tsc)
		same := len(kb) == len(ks)
		for i := 0; same && i < len(kb); i++ {
			same = kb[i] == ks[i]
		}
		if !same {
			rec.Violation(t, "MarchingCubesOctree:differs-from-unpruned-render", "%d cells, scene [%s] %s: octree render has %d triangles, the unpruned render of the same lattice (field scaled by 2^-%d) has %d; evaluated %d vs %d points", cells, kind, desc, len(tb), k, len(tsc), nb, ns)
		}
		// the pair above shares whatever both renders do to cubes with exactly-zero corners (scaling keeps a
		// zero a zero): for the aligned boxes the mesh itself is judged as well - a closed solid well inside
		// the lattice must come out non-empty and closed (every directed edge matched by its reverse)
		if kind == "lattice-aligned-box" {
			if len(tb) == 0 {
				rec.Violation(t, "MarchingCubesOctree:lattice-aligned-box:no-triangles", "%d cells, %s: the octree renderer emitted nothing", cells, desc)
			} else if r := mesh.Analyze3(tb, 1e-6*res); r.OpenEdges > 0 {
				rec.Violation(t, "MarchingCubesOctree:lattice-aligned-box:open-edge", "%d cells, %s: %d directed edges without a reverse edge (%d triangles): cubes along the faces were lost", cells, desc, r.OpenEdges, r.Tris)
			}
		}
		rec.Case(nb < ns && len(tsc) > 0, ev.Key(kind, desc, cells), "octree:"+kind, fmt.Sprintf("octree:pruned=%v", nb < ns))
		rec.Add("octree:points-base", int64(nb))
		rec.Add("octree:points-unpruned", int64(ns))
		rec.Sample("octree:"+kind, map[string]any{"kind": kind, "scene": desc, "cells": cells, "k": k, "triangles": len(tb), "points_base": nb, "points_unpruned": ns})
	})
}

func scene2(t *rapid.T, cells int) (sdf.SDF2, string, string, bool) {
	kind := rapid.SampledFrom([]string{"program", "program", "small-far-parts", "lattice-tangent-circles", "thin-bar", "corner-clipping-line"}).Draw(t, "kind")
	switch kind {
	case "corner-clipping-line":
		// 2D analogue of corner-clipping-plane (see scene3)
		n := float64(cells)
		bb := sdf.Box2{Min: v2.Vec{}, Max: v2.Vec{X: n, Y: n}}
		cal := &lat.Recorder2{S: lat.Const2{V: 1e-300, BB: bb}}
		collect2(cal, render.NewMarchingSquaresQuadtree(cells))
		ax := lat.AxesOf2(cal.Pts, 1e-9)
		N := len(ax.X) - 1
		if N < 2 || len(ax.Y) != N+1 {
			return nil, kind, "", false
		}
		maxL := 0
		for (2 << maxL) <= N/2 {
			maxL++
		}
		L := rapid.IntRange(0, maxL).Draw(t, "level")
		side := 1 << L
		var q, e v2.Vec
		idx := func(l string, axis []float64) (float64, float64) {
			a := rapid.IntRange(0, N/side-1).Draw(t, l+".square")
			b := rapid.IntRange(0, 1).Draw(t, l+".corner")
			return axis[(a+b)*side], float64(1 - 2*b)
		}
		q.X, e.X = idx("x", ax.X)
		q.Y, e.Y = idx("y", ax.Y)
		res := ax.X[1] - ax.X[0]
		eps := g.LogUniform(t, "sliver-depth-in-square-sides", 1e-7, 1e-2)
		nrm := e.MulScalar(1 / math.Sqrt(2))
		pl := plane2{nrm, nrm.Dot(q) + eps*float64(side)*res, bb}
		return pl, kind, fmt.Sprintf("half plane through the corner %v of a level-%d square (side %d cells), %g sides deep, normal %v", q, L, side, eps, nrm), true
	case "program":
		S := rapid.SampledFrom([]float64{1, 10, 1, 10, 1e-7, 1e-4, 1e4}).Draw(t, "scale")
		n := shape.Gen2(t, shape.Opts{S: S, Depth: rapid.IntRange(0, 3).Draw(t, "depth"), Grammar: shape.Lipschitz, NoPoly: true, SolidUnion2: true})
		b, err := shape.Build(n)
		if err != nil {
			return nil, kind, "", false
		}
		return b.SDF2(), kind, n.String(), true
	case "small-far-parts":
		L := 100.0
		var parts []sdf.SDF2
		desc := ""
		for i := 0; i < rapid.IntRange(1, 5).Draw(t, "nparts"); i++ {
			r := g.LogUniform(t, fmt.Sprintf("r%d", i), 0.1, 8)
			c := v2.Vec{X: g.Coord(t, fmt.Sprintf("x%d", i), L/2-10), Y: g.Coord(t, fmt.Sprintf("y%d", i), L/2-10)}
			s, _ := sdf.Circle2D(r)
			parts = append(parts, sdf.Transform2D(s, sdf.Translate2d(c)))
			desc += fmt.Sprintf("circle(%g)@%v ", r, c)
		}
		// plain min over the parts (own union: the library's 2D union prunes by boxes, which is C16's subject)
		return lat.Rebox2{S: minOf2(parts), BB: sdf.Box2{Min: v2.Vec{X: -L / 2, Y: -L / 2}, Max: v2.Vec{X: L / 2, Y: L / 2}}}, kind, desc, true
	case "lattice-tangent-circles":
		n := float64(cells)
		org := -0.005 * n
		var parts []sdf.SDF2
		desc := ""
		for i := 0; i < rapid.IntRange(1, 3).Draw(t, "nparts"); i++ {
			k := func(l string) float64 { return float64(rapid.IntRange(2, cells-2).Draw(t, fmt.Sprintf("%s%d", l, i))) }
			c := v2.Vec{X: org + k("kx"), Y: org + k("ky")}
			if rapid.Bool().Draw(t, fmt.Sprintf("half%d", i)) {
				c = c.AddScalar(0.5)
			}
			r := float64(rapid.IntRange(1, 4).Draw(t, fmt.Sprintf("rk%d", i))) / 2
			s, _ := sdf.Circle2D(r)
			parts = append(parts, sdf.Transform2D(s, sdf.Translate2d(c)))
			desc += fmt.Sprintf("circle(%g)@%v ", r, c)
		}
		return lat.Rebox2{S: minOf2(parts), BB: sdf.Box2{Min: v2.Vec{}, Max: v2.Vec{X: n, Y: n}}}, kind, desc, true
	default:
		L := 50.0
		th := g.LogUniform(t, "thickness", 0.02, 2)
		bx := sdf.Box2D(v2.Vec{X: 30, Y: th}, 0)
		m := sdf.Translate2d(v2.Vec{X: g.Coord(t, "px", 5), Y: g.Coord(t, "py", 5)}).Mul(sdf.Rotate2d(g.Angle(t, "tilt")))
		return lat.Rebox2{S: sdf.Transform2D(bx, m), BB: sdf.Box2{Min: v2.Vec{X: -L / 2, Y: -L / 2}, Max: v2.Vec{X: L / 2, Y: L / 2}}}, kind, fmt.Sprintf("bar thickness %g", th), true
	}
}

// exactBox3: the exact distance field of an axis-aligned box given by its corners (no centre / size
// arithmetic: a point on a face plane evaluates to exactly 0 there)
type exactBox3 struct {
	lo, hi v3.Vec
	bb     sdf.Box3
}

func (b exactBox3) Evaluate(p v3.Vec) float64 {
	dx := math.Max(b.lo.X-p.X, p.X-b.hi.X)
	dy := math.Max(b.lo.Y-p.Y, p.Y-b.hi.Y)
	dz := math.Max(b.lo.Z-p.Z, p.Z-b.hi.Z)
	if dx <= 0 && dy <= 0 && dz <= 0 {
		return math.Max(dx, math.Max(dy, dz))
	}
	return math.Sqrt(math.Pow(math.Max(dx, 0), 2) + math.Pow(math.Max(dy, 0), 2) + math.Pow(math.Max(dz, 0), 2))
}
func (b exactBox3) BoundingBox() sdf.Box3 { return b.bb }

// plane3 / plane2: the half space n.p <= d as an exact distance field with a chosen bounding box
type plane3 struct {
	n  v3.Vec
	d  float64
	bb sdf.Box3
}

func (p plane3) Evaluate(q v3.Vec) float64 { return p.n.Dot(q) - p.d }
func (p plane3) BoundingBox() sdf.Box3     { return p.bb }

type plane2 struct {
	n  v2.Vec
	d  float64
	bb sdf.Box2
}

func (p plane2) Evaluate(q v2.Vec) float64 { return p.n.Dot(q) - p.d }
func (p plane2) BoundingBox() sdf.Box2     { return p.bb }

type minOf2 []sdf.SDF2

func (m minOf2) Evaluate(p v2.Vec) float64 {
	d := math.Inf(1)
	for _, s := range m {
		d = math.Min(d, s.Evaluate(p))
	}
	return d
}
func (m minOf2) BoundingBox() sdf.Box2 {
	b := m[0].BoundingBox()
	for _, s := range m[1:] {
		b = b.Extend(s.BoundingBox())
	}
	return b
}

func TestQuadtreeLosesNothing(t *testing.T) {
	rec := ev.Get()
	rapid.Check(t, func(t *rapid.T) {
		cells := rapid.IntRange(4, ev.Pick(120, 300)).Draw(t, "cells")
		s, kind, desc, ok := scene2(t, cells)
		if !ok {
			rec.Count("discarded:constructor-rejected", 1)
			rec.Case(false, "", "discarded")
			return
		}
		bb := s.BoundingBox()
		sz := bb.Size()
		if !(math.Min(sz.X, sz.Y) > 0) || !shape.Finite(sz.X, sz.Y) || math.Max(sz.X, sz.Y) > 1e5 {
			rec.Count("discarded:degenerate-box", 1)
			rec.Case(false, "", "discarded")
			return
		}
		res := math.Max(sz.X, sz.Y) / float64(cells)
		hdiagMin := 0.5 * math.Sqrt(2) * res
		base := &lat.Recorder2{S: s}
		rq := render.NewMarchingSquaresQuadtree(cells)
		if rapid.IntRange(0, 2).Draw(t, "reuse-renderer") == 0 {
			dr := math.Min(sz.X, sz.Y) * g.F(0.1, 0.4).Draw(t, "decoy-radius")
			ci, _ := sdf.Circle2D(dr)
			collect2(lat.Rebox2{S: sdf.Transform2D(ci, sdf.Translate2d(bb.Center())), BB: bb}, rq)
			rec.Add("quadtree:renderer-reused", 1)
		}
		lb := collect2(base, rq)
		maxAbs := 0.0
		for _, v := range base.Val {
			maxAbs = math.Max(maxAbs, math.Abs(v))
		}
		maxAbs += 4 * sz.Length()
		k := int(math.Ceil(math.Log2(maxAbs/hdiagMin))) + 1
		if k < 1 {
			k = 1
		}
		scaled := &lat.Recorder2{S: lat.Scaled2{S: s, K: math.Ldexp(1, -k)}}
		lsc := collect2(scaled, render.NewMarchingSquaresQuadtree(cells))
		// which sides of which finest square every segment joins (see pairing_test.go)
		if bad, n := pairingCheck(lb, scaled, res, math.Ldexp(1, k)); bad != "" {
			rec.Violation(t, "MarchingSquaresQuadtree:segment-joins-other-sides-than-the-square-evaluation", "%d cells, scene [%s] %s: %s", cells, kind, desc, bad)
		} else {
			rec.Add("quadtree:squares-with-checked-pairing", int64(n))
		}
		// (as in 3D) the segments of all finest squares join up inside the lattice: a point where the contour
		// ends (odd degree; the direction of marching-squares segments is not uniform) may only lie on the
		// outer edges of the sampled square
		{
			ax := lat.AxesOf2(scaled.Pts, 1e-9*res)
			lo, hi := v2.Vec{X: ax.X[0], Y: ax.Y[0]}, v2.Vec{X: ax.X[len(ax.X)-1], Y: ax.Y[len(ax.Y)-1]}
			e := 1e-6 * res
			inner := 0
			var first v2.Vec
			for _, p := range mesh.Analyze2(lb, 1e-6*res).Odd {
				if !(p.X <= lo.X+e || p.Y <= lo.Y+e || p.X >= hi.X-e || p.Y >= hi.Y-e) {
					if inner == 0 {
						first = p
					}
					inner++
				}
			}
			if inner > 0 {
				rec.Violation(t, "MarchingSquaresQuadtree:contour-ends-inside-the-lattice", "%d cells, scene [%s] %s: %d points inside the sampled square where the contour ends, e.g. %v (%d segments, cell %v): the segments of some finest square are missing or altered", cells, kind, desc, inner, first, len(lb), res)
			}
		}
		for _, v := range scaled.Val {
			if !(math.Abs(v) < hdiagMin) {
				rec.Count("inconclusive:scaled-run-not-below-half-diagonal", 1)
				rec.Case(false, "", "inconclusive")
				return
			}
		}
		for _, v := range base.Val {
			if a := math.Abs(v); a >= epsilon && a < math.Ldexp(epsilon, k) {
				rec.Count("not-comparable:value-inside-scaled-epsilon", 1)
				rec.Case(false, "", "not-comparable")
				return
			}
		}
		{
			ax := lat.AxesOf2(scaled.Pts, 1e-9*res)
			if e := 1e-9 * res; ax.X[0] > bb.Min.X+e || ax.Y[0] > bb.Min.Y+e || ax.X[len(ax.X)-1] < bb.Max.X-e || ax.Y[len(ax.Y)-1] < bb.Max.Y-e {
				rec.Violation(t, "MarchingSquaresQuadtree:lattice-does-not-cover-bounding-box", "%d cells, scene [%s] %s: finest-level lattice spans %v..%v, bounding box %v", cells, kind, desc, v2.Vec{X: ax.X[0], Y: ax.Y[0]}, v2.Vec{X: ax.X[len(ax.X)-1], Y: ax.Y[len(ax.Y)-1]}, bb)
			}
		}
		nb, ns := distinct2(base.Pts), distinct2(scaled.Pts)
		kb, ks := lineKeys(lb), lineKeys(lsc)
		same := len(kb) == len(ks)
		for i := 0; same && i < len(kb); i++ {
			same = kb[i] == ks[i]
		}
		if !same {
			rec.Violation(t, "MarchingSquaresQuadtree:differs-from-unpruned-render", "%d cells, scene [%s] %s: quadtree render has %d segments, the unpruned render of the same lattice (field scaled by 2^-%d) has %d; evaluated %d vs %d points", cells, kind, desc, len(lb), k, len(lsc), nb, ns)
		}
		rec.Case(nb < ns && len(lsc) > 0, ev.Key(kind, desc, cells), "quadtree:"+kind, fmt.Sprintf("quadtree:pruned=%v", nb < ns))
		rec.Add("quadtree:points-base", int64(nb))
		rec.Add("quadtree:points-unpruned", int64(ns))
		rec.Sample("quadtree:"+kind, map[string]any{"kind": kind, "scene": desc, "cells": cells, "k": k, "segments": len(lb), "points_base": nb, "points_unpruned": ns})
	})
}

// ---------------------------------------------------------------------------
// all octree / quadtree depths: sparse scenes at high cell counts

type rod struct {
	a, b v3.Vec
	r    float64
	bb   sdf.Box3
}

func (c rod) Evaluate(p v3.Vec) float64 {
	ab, ap := c.b.Sub(c.a), p.Sub(c.a)
	t := math.Max(0, math.Min(1, ap.Dot(ab)/ab.Length2()))
	return p.Sub(c.a.Add(ab.MulScalar(t))).Length() - c.r
}
func (c rod) BoundingBox() sdf.Box3 { return c.bb }

// TestOctreeHighResolution: a thin capsule in a big box at up to 1200 cells (octree depth 12). The
// unpruned comparison is out of reach there (10^9 cells); the oracle is closedness + vertices on
// the exact surface + completeness: sampled surface points have mesh within a cell diagonal.
func TestOctreeHighResolution(t *testing.T) {
	rec := ev.Get()
	rapid.Check(t, func(t *rapid.T) {
		// all octree depths: 8..10 levels (100..900 cells), 11 (around 1000) and 12..13 levels
		var cells int
		switch rapid.IntRange(0, 3).Draw(t, "depth-class") {
		case 0, 1:
			cells = rapid.IntRange(100, 900).Draw(t, "cells")
		case 2:
			cells = rapid.IntRange(900, 1100).Draw(t, "cells-1000")
		default:
			cells = rapid.IntRange(1100, ev.Pick(2300, 4500)).Draw(t, "cells-deep")
		}
		L := 100.0
		h := L / float64(cells)
		// the capsule spans most of the box along a random direction; radius a few cells
		dir := v3.Vec{X: g.F(-1, 1).Draw(t, "dx"), Y: g.F(-1, 1).Draw(t, "dy"), Z: g.F(-1, 1).Draw(t, "dz")}
		if rapid.IntRange(0, 2).Draw(t, "axis-aligned") == 0 {
			dir = [3]v3.Vec{{X: 1}, {Y: 1}, {Z: 1}}[rapid.IntRange(0, 2).Draw(t, "axis")]
		}
		if dir.Length() < 0.1 {
			dir = v3.Vec{Z: 1}
		}
		dir = dir.Normalize()
		half := 0.45 * L / math.Max(math.Abs(dir.X), math.Max(math.Abs(dir.Y), math.Abs(dir.Z)))
		half = math.Min(half, 0.8*L)
		r := h * g.F(1.2, 3).Draw(t, "radius-in-cells")
		c := v3.Vec{X: g.F(-2, 2).Draw(t, "cx"), Y: g.F(-2, 2).Draw(t, "cy"), Z: g.F(-2, 2).Draw(t, "cz")}
		half = math.Min(half, 0.45*L-r-3)
		s := rod{a: c.Sub(dir.MulScalar(half)), b: c.Add(dir.MulScalar(half)), r: r, bb: sdf.Box3{Min: v3.Vec{X: -L / 2, Y: -L / 2, Z: -L / 2}, Max: v3.Vec{X: L / 2, Y: L / 2, Z: L / 2}}}
		ts := render.ToTriangles(s, render.NewMarchingCubesOctree(cells))
		desc := fmt.Sprintf("capsule %v..%v radius %v in a %v box", s.a, s.b, r, L)
		if len(ts) == 0 {
			rec.Violation(t, "MarchingCubesOctree:high-resolution:empty-mesh", "%d cells, %s: no triangles", cells, desc)
		}
		// closedness (directed edge balance) with exact vertex identity: adjacent cells compute a shared
		// vertex from the same two lattice points; allow the order of the end points to differ (1e-6 h)
		type e2 struct{ a, b int }
		// (vertex identity by union-find welding at 1e-4 h: rounding to a grid of buckets would split
		// the two copies of a vertex that straddle a bucket boundary and report edges that are not open)
		wd := mesh.NewWelder3(1e-4 * h)
		raw := map[v3.Vec]int{}
		for _, tr := range ts {
			for _, v := range tr {
				if _, ok := raw[v]; !ok {
					raw[v] = wd.Add(v)
				}
			}
		}
		id := func(v v3.Vec) int { return wd.Root(raw[v]) }
		cnt := map[e2]int{}
		worst := 0.0
		for _, tr := range ts {
			a, b, cc := id(tr[0]), id(tr[1]), id(tr[2])
			for _, e := range []e2{{a, b}, {b, cc}, {cc, a}} {
				if e.a != e.b {
					cnt[e]++
				}
			}
			for _, v := range tr {
				worst = math.Max(worst, math.Abs(s.Evaluate(v)))
			}
		}
		open := 0
		for e, n := range cnt {
			if cnt[e2{e.b, e.a}] != n {
				open++
			}
		}
		if open > 0 {
			rec.Violation(t, "MarchingCubesOctree:high-resolution:open-edge", "%d cells, %s: %d unmatched directed edges (%d triangles)", cells, desc, open, len(ts))
		}
		if worst > h*(1+1e-9) {
			rec.Violation(t, "MarchingCubesOctree:high-resolution:vertex-off-surface", "%d cells (h=%v), %s: a vertex is %v from the surface", cells, h, desc, worst)
		}
		// completeness: points of the true surface have mesh nearby
		diag := math.Sqrt(3) * h
		u := dir.Cross(v3.Vec{X: 0.3, Y: 0.5, Z: 0.8}).Normalize()
		w := dir.Cross(u)
		for i := 0; i < 24; i++ {
			tt := g.F(-1, 1).Draw(t, fmt.Sprintf("st%d", i)) * half
			ph := g.F(-math.Pi, math.Pi).Draw(t, fmt.Sprintf("sp%d", i))
			p := c.Add(dir.MulScalar(tt)).Add(u.MulScalar(r * math.Cos(ph))).Add(w.MulScalar(r * math.Sin(ph)))
			near := false
			for _, tr := range ts {
				if tr[0].Sub(p).Length() <= 2*diag {
					near = true
					break
				}
			}
			if !near {
				rec.Violation(t, "MarchingCubesOctree:high-resolution:surface-not-meshed", "%d cells, %s: no mesh vertex within two cell diagonals of the surface point %v", cells, desc, p)
			}
		}
		rec.Case(len(ts) > 0, ev.Key("rod3", cells, desc), "octree-highres", fmt.Sprintf("octree-highres:levels=%d", int(math.Ceil(math.Log2(1.01*L/(h/2))))+1))
		rec.Sample("octree-highres", map[string]any{"cells": cells, "scene": desc, "triangles": len(ts), "worst_vertex_distance_over_h": worst / h})
	})
}

type rod2 struct {
	a, b v2.Vec
	r    float64
	bb   sdf.Box2
}

func (c rod2) Evaluate(p v2.Vec) float64 {
	ab, ap := c.b.Sub(c.a), p.Sub(c.a)
	t := math.Max(0, math.Min(1, ap.Dot(ab)/ab.Length2()))
	return p.Sub(c.a.Add(ab.MulScalar(t))).Length() - c.r
}
func (c rod2) BoundingBox() sdf.Box2 { return c.bb }

func TestQuadtreeHighResolution(t *testing.T) {
	rec := ev.Get()
	rapid.Check(t, func(t *rapid.T) {
		cells := rapid.IntRange(300, ev.Pick(6000, 20000)).Draw(t, "cells")
		L := 100.0
		h := L / float64(cells)
		a := g.F(-math.Pi, math.Pi).Draw(t, "angle")
		if rapid.IntRange(0, 2).Draw(t, "axis-aligned") == 0 {
			a = float64(rapid.IntRange(0, 3).Draw(t, "axis")) * math.Pi / 2
		}
		dir := v2.Vec{X: math.Cos(a), Y: math.Sin(a)}
		r := h * g.F(1.2, 3).Draw(t, "radius-in-cells")
		c := v2.Vec{X: g.F(-2, 2).Draw(t, "cx"), Y: g.F(-2, 2).Draw(t, "cy")}
		half := 0.45*L/math.Max(math.Abs(dir.X), math.Abs(dir.Y)) - r - 3
		s := rod2{a: c.Sub(dir.MulScalar(half)), b: c.Add(dir.MulScalar(half)), r: r, bb: sdf.Box2{Min: v2.Vec{X: -L / 2, Y: -L / 2}, Max: v2.Vec{X: L / 2, Y: L / 2}}}
		ls := collect2(s, render.NewMarchingSquaresQuadtree(cells))
		desc := fmt.Sprintf("capsule %v..%v radius %v in a %v box", s.a, s.b, r, L)
		worst, length := 0.0, 0.0
		for _, l := range ls {
			for _, v := range l {
				worst = math.Max(worst, math.Abs(s.Evaluate(v)))
			}
			length += l[1].Sub(l[0]).Length()
		}
		// end point identity by union-find welding (see the octree test)
		odd := mesh.Analyze2(ls, 1e-4*h).OddPoints
		if len(ls) == 0 || odd > 0 {
			rec.Violation(t, "MarchingSquaresQuadtree:high-resolution:not-closed", "%d cells, %s: %d segments, %d end points of odd degree", cells, desc, len(ls), odd)
		}
		if worst > h*(1+1e-9) {
			rec.Violation(t, "MarchingSquaresQuadtree:high-resolution:endpoint-off-boundary", "%d cells (h=%v), %s: an end point is %v from the boundary", cells, h, desc, worst)
		}
		want := 4*half + 2*math.Pi*r
		if math.Abs(length-want) > 0.05*want {
			rec.Violation(t, "MarchingSquaresQuadtree:high-resolution:contour-incomplete", "%d cells, %s: contour length %v, perimeter %v", cells, desc, length, want)
		}
		rec.Case(len(ls) > 0, ev.Key("rod2", cells, desc), "quadtree-highres")
		rec.Sample("quadtree-highres", map[string]any{"cells": cells, "scene": desc, "segments": len(ls), "length": length, "perimeter": want})
	})
}
