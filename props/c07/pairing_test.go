package c07

import (
	"fmt"
	"math"
	"sort"

	"github.com/deadsy/sdfx/sdf"

	"verif/internal/lat"
)

// What "evaluating one finest-level cell" emits, decided from the corner SIGNS alone: a segment joins two
// sides of the square that both carry a sign change; with two opposite corners inside (the ambiguous
// saddle) marching squares as implemented by the library (render/march2.go, shared by the uniform
// renderer) joins the two inside corners, i.e. each of its two segments cuts off an OUTSIDE corner. This
// is written here from the method's definition, not taken from the renderer's tables; it does not
// interpolate anything - only which sides of which square a segment connects is compared - so it is
// independent of the code that turns a leaf square into segments in the quadtree renderer, which the
// pruned / unpruned pair of renders shares.
//
// sides: 0 bottom, 1 right, 2 top, 3 left. corners: 0 (x0,y0) 1 (x1,y0) 2 (x1,y1) 3 (x0,y1).
func expectedPairs(in [4]bool) [][2]int {
	// sides with a sign change
	side := [4]bool{in[0] != in[1], in[1] != in[2], in[2] != in[3], in[3] != in[0]}
	n := 0
	for _, s := range side {
		if s {
			n++
		}
	}
	switch n {
	case 0:
		return nil
	case 2:
		var p []int
		for i, s := range side {
			if s {
				p = append(p, i)
			}
		}
		return [][2]int{{p[0], p[1]}}
	}
	// four crossings: corners 0,2 inside or corners 1,3 inside. The outside corners are cut off: an outside
	// corner c lies between sides (c+3)%4 and c.
	var out [][2]int
	for c := 0; c < 4; c++ {
		if !in[c] {
			a, b := (c+3)%4, c
			if a > b {
				a, b = b, a
			}
			out = append(out, [2]int{a, b})
		}
	}
	return out
}

// pairingCheck compares, square by square, the sides joined by the emitted segments with expectedPairs.
// vals holds the value at every node of the finest lattice (from the unpruned render). Squares with a
// corner value of exactly zero, and segments with an end point within tol of a lattice node, are skipped
// (which side such a point belongs to is not defined). Returns a description of the first mismatch.
func pairingCheck(ls []*sdf.Line2, rec *lat.Recorder2, res float64, unscale float64) (bad string, checked int) {
	tol := 1e-6 * res
	ax := lat.AxesOf2(rec.Pts, 1e-9*res)
	// the recorded lattice is in half cells (square centres are sampled for the emptiness test): corners of
	// the finest squares are the even indices
	find := func(a []float64, x float64) int {
		i := sort.SearchFloat64s(a, x-tol)
		if i < len(a) && math.Abs(a[i]-x) <= tol {
			return i
		}
		return -1
	}
	val := map[[2]int]float64{}
	for k, p := range rec.Pts {
		i, j := find(ax.X, p.X), find(ax.Y, p.Y)
		if i >= 0 && j >= 0 {
			val[[2]int{i, j}] = rec.Val[k]
		}
	}
	if len(ax.X) < 3 || len(ax.Y) < 3 {
		return "", 0
	}
	got := map[[2]int][][2]int{}
	skip := map[[2]int]bool{}
	for _, l := range ls {
		mx, my := (l[0].X+l[1].X)/2, (l[0].Y+l[1].Y)/2
		// the square (even index of its lower left corner)
		i := sort.SearchFloat64s(ax.X, mx) - 1
		j := sort.SearchFloat64s(ax.Y, my) - 1
		i -= i % 2
		j -= j % 2
		if i < 0 || j < 0 || i+2 >= len(ax.X) || j+2 >= len(ax.Y) {
			continue
		}
		x0, x1, y0, y1 := ax.X[i], ax.X[i+2], ax.Y[j], ax.Y[j+2]
		var sides [2]int
		ok := true
		for e := 0; e < 2; e++ {
			p := l[e]
			d := [4]float64{math.Abs(p.Y - y0), math.Abs(p.X - x1), math.Abs(p.Y - y1), math.Abs(p.X - x0)}
			on := -1
			cnt := 0
			for s := 0; s < 4; s++ {
				if d[s] <= tol {
					on = s
					cnt++
				}
			}
			if cnt != 1 || p.X < x0-tol || p.X > x1+tol || p.Y < y0-tol || p.Y > y1+tol {
				ok = false
			}
			sides[e] = on
		}
		key := [2]int{i, j}
		if !ok {
			skip[key] = true
			continue
		}
		if sides[0] > sides[1] {
			sides[0], sides[1] = sides[1], sides[0]
		}
		got[key] = append(got[key], sides)
	}
	norm := func(ps [][2]int) string {
		s := make([]string, len(ps))
		for i, p := range ps {
			s[i] = fmt.Sprint(p)
		}
		sort.Strings(s)
		return fmt.Sprint(s)
	}
	// every finest square of the lattice (all four corners sampled by the unpruned render), not only those
	// that received segments: a square with a sign change and no segment is a loss
	keys := make([][2]int, 0, len(got))
	for i := 0; i+2 < len(ax.X); i += 2 {
		for j := 0; j+2 < len(ax.Y); j += 2 {
			keys = append(keys, [2]int{i, j})
		}
	}
	sort.Slice(keys, func(a, b int) bool {
		if keys[a][0] != keys[b][0] {
			return keys[a][0] < keys[b][0]
		}
		return keys[a][1] < keys[b][1]
	})
	for _, k := range keys {
		if skip[k] {
			continue
		}
		i, j := k[0], k[1]
		var in [4]bool
		zero := false
		for c, ij := range [][2]int{{i, j}, {i + 2, j}, {i + 2, j + 2}, {i, j + 2}} {
			v, ok := val[ij]
			if !ok || v == 0 {
				zero = true
			}
			in[c] = v < 0
		}
		if zero {
			continue
		}
		if len(got[k]) == 0 {
			// no segment although the signs change: legitimate when a corner value is so close to the level
			// that the end points of the segment are snapped onto that corner and the segment has no length
			// (unscale turns the values of the scaled render back into those of the shape)
			tiny := false
			for _, ij := range [][2]int{{i, j}, {i + 2, j}, {i + 2, j + 2}, {i, j + 2}} {
				if math.Abs(val[ij]*unscale) < math.Max(1e-9*res, 1.001e-12) { // (the snap is absolute: 1e-12)
					tiny = true
				}
			}
			if tiny {
				continue
			}
		}
		checked++
		want := expectedPairs(in)
		if norm(want) != norm(got[k]) && bad == "" {
			bad = fmt.Sprintf("square with lower left corner (%v, %v), side %v, corners inside %v: the segments join sides %v (0 bottom, 1 right, 2 top, 3 left), evaluating the square gives %v", ax.X[i], ax.Y[j], ax.X[i+2]-ax.X[i], in, got[k], want)
		}
	}
	return bad, checked
}
