package c10

import (
	"bytes"
	"encoding/json"
	"fmt"
	"os"
	"os/exec"
	"path/filepath"
	"runtime"
	"strings"
	"sync/atomic"
	"syscall"
	"testing"
	"time"

	"pgregory.net/rapid"

	"verif/internal/ev"
	"verif/internal/fc"
	"verif/internal/pin"
)

// "... which the uniform marching-cubes renderer does with one worker per CPU": the fan-out has to work
// for every number of CPUs the host has, one included (a single-core VM, a one-CPU cpuset, taskset -c N,
// GOMAXPROCS=1 in the environment). This machine's CPU count is the only one the in-process tests see;
// here the uniform renderer runs in a child process (cmd/faultchild, sink = in-memory triangle list, no
// fault) that is confined to a drawn number of CPUs and / or started with a drawn GOMAXPROCS. Oracle: the
// child returns - a fan-out that never evaluates ends in the Go runtime's "all goroutines are asleep -
// deadlock!" - and delivers as many triangles as the child that runs on the whole machine.

var hostNext atomic.Int64

type hostRun struct {
	returned bool
	deadlock bool
	timedOut bool
	items    int
	numCPU   int
	procs    int
	stderr   string
}

func runOnHost(bin string, c fc.Case) (hostRun, error) {
	js, _ := json.Marshal(c)
	cmd := exec.Command(bin, string(js))
	var so, se bytes.Buffer
	cmd.Stdout, cmd.Stderr = &so, &se
	cmd.Env = append(os.Environ(), "GOTRACEBACK=all")
	if c.Procs > 0 {
		cmd.Env = append(cmd.Env, fmt.Sprintf("GOMAXPROCS=%d", c.Procs))
	}
	if c.CPUs > 0 {
		if _, err := pin.Start(cmd, int(hostNext.Add(1)), c.CPUs); err != nil {
			return hostRun{}, err
		}
	} else if err := cmd.Start(); err != nil {
		return hostRun{}, err
	}
	done := make(chan error, 1)
	go func() { done <- cmd.Wait() }()
	var r hostRun
	select {
	case <-done:
	case <-time.After(180 * time.Second):
		r.timedOut = true
		cmd.Process.Signal(syscall.SIGQUIT)
		select {
		case <-done:
		case <-time.After(20 * time.Second):
			cmd.Process.Kill()
			<-done
		}
	}
	r.stderr = se.String()
	r.deadlock = strings.Contains(r.stderr, "all goroutines are asleep - deadlock!")
	for _, ln := range strings.Split(so.String(), "\n") {
		if ln == "returned" {
			r.returned = true
		}
		if rest, ok := strings.CutPrefix(ln, "faultchild: "); ok {
			var st struct {
				Items  int `json:"items"`
				NumCPU int `json:"numcpu"`
				Procs  int `json:"gomaxprocs"`
			}
			if json.Unmarshal([]byte(rest), &st) == nil {
				r.items, r.numCPU, r.procs = st.Items, st.NumCPU, st.Procs
			}
		}
	}
	return r, nil
}

func hostsInconclusive(format string, args ...any) {
	rec := ev.Get()
	rec.Count("inconclusive", 1)
	fmt.Printf("[c10] INCONCLUSIVE: "+format+"\n", args...)
	rec.Flush()
	os.Exit(3)
}

func TestHostProcessorCounts(t *testing.T) {
	rec := ev.Get()
	dir := os.Getenv("VERIF_BIN")
	if dir == "" {
		dir = filepath.Join(ev.Root(), ".bin")
	}
	bin := filepath.Join(dir, "faultchild"+os.Getenv("VERIF_BIN_SUFFIX"))
	if _, err := os.Stat(bin); err != nil {
		hostsInconclusive("child binary %s missing (plan.json cmds builds it; run through ./check): %v", bin, err)
	}
	whole := map[string]int{} // (shape, cells) -> triangles on the whole machine
	check := func(t ev.TB, c fc.Case) {
		key := fmt.Sprintf("%s|%d", c.Shape, c.Cells)
		want, ok := whole[key]
		if !ok {
			ref := c
			ref.CPUs, ref.Procs = 0, 0
			r, err := runOnHost(bin, ref)
			if err != nil || !r.returned {
				if err == nil && r.deadlock {
					rec.Violation(t, "C10:mcu:fan-out-deadlocks", "MarchingCubesUniform(%d) of a %s on the whole machine (%d CPUs): the child ended in the runtime's deadlock report", c.Cells, c.Shape, runtime.NumCPU())
					return
				}
				hostsInconclusive("reference child did not return: %v %+v", err, r)
			}
			want = r.items
			whole[key] = want
		}
		r, err := runOnHost(bin, c)
		if err != nil {
			hostsInconclusive("cannot start the confined child: %v", err)
		}
		host := fmt.Sprintf("%d CPUs (0 = all), GOMAXPROCS=%d (0 = default)", c.CPUs, c.Procs)
		switch {
		case r.deadlock:
			rec.Violation(t, "C10:mcu:fan-out-deadlocks", "MarchingCubesUniform(%d) of a %s on a host with %s: no goroutine can run any more (the runtime's deadlock report): %s", c.Cells, c.Shape, host, firstSdfxFrames(r.stderr))
		case r.timedOut:
			hostsInconclusive("child on %s did not finish in 180 s and the runtime did not report a deadlock", host)
		case !r.returned:
			if strings.Contains(r.stderr, "fatal error:") || strings.Contains(r.stderr, "panic:") {
				rec.Violation(t, "C10:mcu:runtime-fault-on-host", "MarchingCubesUniform(%d) of a %s on a host with %s: %s", c.Cells, c.Shape, host, firstLine(r.stderr))
				return
			}
			hostsInconclusive("child on %s ended without 'returned': %s", host, firstLine(r.stderr))
		default:
			if c.CPUs > 0 && r.numCPU != c.CPUs || c.Procs > 0 && r.procs != c.Procs {
				hostsInconclusive("the child reports NumCPU=%d GOMAXPROCS=%d, wanted %s", r.numCPU, r.procs, host)
			}
			if r.items != want {
				rec.Violation(t, "C10:mcu:mesh-depends-on-cpu-count", "MarchingCubesUniform(%d) of a %s: %d triangles on the whole machine, %d on a host with %s", c.Cells, c.Shape, want, r.items, host)
			}
		}
	}
	var replay fc.Case
	if ev.LoadReplay("TestHostProcessorCounts", &replay) {
		check(t, replay)
		return
	}
	rapid.Check(t, func(t *rapid.T) {
		c := fc.Case{Sink: "tri", Renderer: "mcu", Fsize: -1, Fault: "none"}
		c.Shape = rapid.SampledFrom([]string{"sphere", "box", "cyl"}).Draw(t, "shape")
		c.Cells = rapid.SampledFrom([]int{6, 12, 24, 40, 75, 110}).Draw(t, "cells")
		switch rapid.SampledFrom([]string{"cpus", "cpus", "GOMAXPROCS", "both"}).Draw(t, "host") {
		case "cpus":
			c.CPUs = rapid.SampledFrom([]int{1, 2, 3, 5}).Draw(t, "cpus")
		case "GOMAXPROCS":
			c.Procs = rapid.SampledFrom([]int{1, 2, 3, 64}).Draw(t, "GOMAXPROCS")
		default:
			c.CPUs = rapid.SampledFrom([]int{1, 2}).Draw(t, "cpus")
			c.Procs = rapid.SampledFrom([]int{1, 2, 8}).Draw(t, "GOMAXPROCS")
		}
		if c.CPUs > runtime.NumCPU() {
			c.CPUs = runtime.NumCPU()
		}
		rec.Case(c.CPUs > 0 && c.CPUs < runtime.NumCPU() || c.Procs > 0, ev.Key("hosts", c.Shape, c.Cells, c.CPUs, c.Procs),
			fmt.Sprintf("hosts:cpus=%d", c.CPUs), fmt.Sprintf("hosts:GOMAXPROCS=%d", c.Procs), fmt.Sprintf("hosts:cells=%d", c.Cells))
		rec.Sample("hosts", c)
		check(t, c)
	})
}

func firstLine(s string) string {
	for _, ln := range strings.Split(s, "\n") {
		if strings.HasPrefix(ln, "fatal error:") || strings.HasPrefix(ln, "panic:") {
			return ln
		}
	}
	if i := strings.IndexByte(s, '\n'); i >= 0 {
		return s[:i]
	}
	return s
}

// the sdfx functions the parked goroutines are in (for the message; a function of the code only)
func firstSdfxFrames(dump string) string {
	seen := map[string]bool{}
	var out []string
	for _, ln := range strings.Split(dump, "\n") {
		if strings.HasPrefix(ln, "github.com/deadsy/sdfx/") {
			f := ln
			if i := strings.LastIndexByte(f, '('); i > 0 {
				f = f[:i]
			}
			f = strings.TrimPrefix(f, "github.com/deadsy/sdfx/")
			if !seen[f] && len(out) < 4 {
				seen[f] = true
				out = append(out, f)
			}
		}
	}
	return strings.Join(out, ", ")
}
