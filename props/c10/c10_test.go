package c10

import (
	"fmt"
	"math"
	"runtime"
	"sync"
	"testing"

	"github.com/deadsy/sdfx/obj"
	"github.com/deadsy/sdfx/render"
	"github.com/deadsy/sdfx/sdf"
	v2 "github.com/deadsy/sdfx/vec/v2"
	v3 "github.com/deadsy/sdfx/vec/v3"
	"pgregory.net/rapid"

	"verif/internal/ev"
	"verif/internal/g"
	"verif/internal/lat"
	"verif/internal/shape"
)

func TestMain(m *testing.M) { ev.Main(m) }

// The binary is built with -race: a data race in Evaluate makes the race
// detector print "WARNING: DATA RACE" and fail the test; "fatal error:
// concurrent map writes" kills the process. The driver treats both as
// violations. Values that differ from sequential evaluation are reported here.

func same(a, b float64) bool { return a == b || (math.IsNaN(a) && math.IsNaN(b)) }

// hammer3 evaluates s at pts from G goroutines at once and compares with the sequential values.
// hammer3 evaluates s at pts from G goroutines at once - the object's FIRST use, so that lazily
// initialised state is not warmed up beforehand - and afterwards compares every value obtained
// concurrently with a sequential evaluation of the same object.
func hammer3(s sdf.SDF3, pts []v3.Vec, G, rounds int) (mismatch string, overlap int64) {
	w := &lat.Perturb3{S: s, Mode: 1}
	var wg sync.WaitGroup
	got := make([][]float64, G)
	idx := make([][]int, G)
	start := make(chan struct{})
	for gi := 0; gi < G; gi++ {
		wg.Add(1)
		go func(gi int) {
			defer wg.Done()
			<-start
			for r := 0; r < rounds; r++ {
				for k := range pts {
					i := (k*7 + gi*13 + r) % len(pts)
					got[gi] = append(got[gi], w.Evaluate(pts[i]))
					idx[gi] = append(idx[gi], i)
				}
			}
		}(gi)
	}
	close(start)
	wg.Wait()
	seq := make([]float64, len(pts))
	for i, p := range pts {
		seq[i] = s.Evaluate(p)
	}
	for gi := range got {
		for k, v := range got[gi] {
			if i := idx[gi][k]; !same(v, seq[i]) {
				return fmt.Sprintf("point %v: value obtained concurrently %v, sequential value %v", pts[i], v, seq[i]), w.Overlap
			}
		}
	}
	return "", w.Overlap
}

type eval2as3 struct{ s sdf.SDF2 }

func (e eval2as3) Evaluate(p v3.Vec) float64 { return e.s.Evaluate(v2.Vec{X: p.X, Y: p.Y}) }
func (e eval2as3) BoundingBox() sdf.Box3 {
	b := e.s.BoundingBox()
	return sdf.Box3{Min: v3.Vec{X: b.Min.X, Y: b.Min.Y}, Max: v3.Vec{X: b.Max.X, Y: b.Max.Y}}
}

func drawPoints(t *rapid.T, bb sdf.Box3, n int) []v3.Vec {
	c, h := bb.Center(), bb.Size().MulScalar(0.75)
	pts := make([]v3.Vec, 0, n)
	for i := 0; i < n; i++ {
		if i > 4 && rapid.IntRange(0, 3).Draw(t, fmt.Sprintf("rep%d", i)) == 0 {
			// repeats: caches must see hits as well as misses
			pts = append(pts, pts[rapid.IntRange(0, len(pts)-1).Draw(t, fmt.Sprintf("ri%d", i))])
			continue
		}
		pts = append(pts, v3.Vec{X: c.X + g.F(-1, 1).Draw(t, fmt.Sprintf("x%d", i))*h.X, Y: c.Y + g.F(-1, 1).Draw(t, fmt.Sprintf("y%d", i))*h.Y, Z: c.Z + g.F(-1, 1).Draw(t, fmt.Sprintf("z%d", i))*h.Z})
	}
	return pts
}

// sphereMesh is a small closed mesh for ImportTriMesh.
func sphereMesh(r float64) []*sdf.Triangle3 {
	s, _ := sdf.Sphere3D(r)
	return render.ToTriangles(s, render.NewMarchingCubesOctree(6))
}

// boxMesh: the 12 triangles of an axis-aligned box, outward normals.
func boxMesh(a, b, c float64) []*sdf.Triangle3 {
	x, y, z := a/2, b/2, c/2
	v := func(i int) v3.Vec {
		return v3.Vec{X: []float64{-x, x}[i&1], Y: []float64{-y, y}[(i>>1)&1], Z: []float64{-z, z}[(i>>2)&1]}
	}
	quads := [][4]int{{0, 2, 3, 1}, {4, 5, 7, 6}, {0, 1, 5, 4}, {2, 6, 7, 3}, {0, 4, 6, 2}, {1, 3, 7, 5}}
	var ts []*sdf.Triangle3
	for _, q := range quads {
		ts = append(ts, &sdf.Triangle3{v(q[0]), v(q[1]), v(q[2])}, &sdf.Triangle3{v(q[0]), v(q[2]), v(q[3])})
	}
	return ts
}

// drawShape draws a shape of one of the classes the property names and returns a constructor:
// every call of mk builds a new, identical object (same drawn parameters).
func drawShape(t *rapid.T) (mk func() sdf.SDF3, class, desc string, ok bool) {
	S := rapid.SampledFrom([]float64{1, 10}).Draw(t, "scale")
	class = rapid.SampledFrom([]string{"program3", "program3", "program2", "cache2-extrude", "cache2-revolve", "cache2-nested", "shared-profile", "voxel", "voxel-progress", "trimesh", "text", "obj"}).Draw(t, "class")
	fromNode := func(n *shape.Node, wrap func(b *shape.Built) sdf.SDF3) func() sdf.SDF3 {
		return func() sdf.SDF3 {
			b, err := shape.Build(n)
			if err != nil {
				return nil
			}
			return wrap(b)
		}
	}
	switch class {
	case "program3":
		n := shape.Gen3(t, shape.Opts{S: S, Depth: rapid.IntRange(0, 3).Draw(t, "depth"), Grammar: shape.Full, Special: true, NoText: true, AllBlends: true})
		mk, desc = fromNode(n, func(b *shape.Built) sdf.SDF3 { return b.SDF3() }), n.String()
	case "program2":
		n := shape.Gen2(t, shape.Opts{S: S, Depth: rapid.IntRange(0, 3).Draw(t, "depth"), Grammar: shape.Full, Special: true, NoText: true, AllBlends: true})
		mk, desc = fromNode(n, func(b *shape.Built) sdf.SDF3 { return eval2as3{b.SDF2()} }), n.String()
	case "cache2-extrude":
		n := shape.Gen2(t, shape.Opts{S: S, Depth: rapid.IntRange(0, 2).Draw(t, "depth"), Grammar: shape.Lipschitz})
		mk, desc = fromNode(n, func(b *shape.Built) sdf.SDF3 { return sdf.Extrude3D(sdf.Cache2D(b.SDF2()), S) }), "extrude(cache2("+n.String()+"))"
	case "cache2-revolve":
		n := shape.Gen2(t, shape.Opts{S: S, Depth: rapid.IntRange(0, 2).Draw(t, "depth"), Grammar: shape.Lipschitz})
		mk, desc = fromNode(n, func(b *shape.Built) sdf.SDF3 {
			r, err := sdf.Revolve3D(sdf.Cache2D(b.SDF2()))
			if err != nil {
				return nil
			}
			return r
		}), "revolve(cache2("+n.String()+"))"
	case "cache2-nested":
		// a cached profile cached again, BOTH wrappers in the model (two parts made from one sketch)
		n := shape.Gen2(t, shape.Opts{S: S, Depth: rapid.IntRange(0, 2).Draw(t, "depth"), Grammar: shape.Lipschitz})
		mk, desc = fromNode(n, func(b *shape.Built) sdf.SDF3 {
			c1 := sdf.Cache2D(b.SDF2())
			c2 := sdf.Cache2D(c1)
			return sdf.Union3D(sdf.Extrude3D(c1, S), sdf.Transform3D(sdf.Extrude3D(c2, S), sdf.Translate3d(v3.Vec{Z: 1.5 * S})))
		}), "union3(extrude(c1), translate(extrude(cache2(c1)))) with c1 = cache2("+n.String()+")"
	case "shared-profile":
		// one 2D object used by two 3D parts of the model
		n := shape.Gen2(t, shape.Opts{S: S, Depth: rapid.IntRange(1, 3).Draw(t, "depth"), Grammar: shape.Full, Special: true, NoText: true})
		mk, desc = fromNode(n, func(b *shape.Built) sdf.SDF3 {
			p2 := b.SDF2()
			r, err := sdf.Revolve3D(p2)
			if err != nil {
				return nil
			}
			return sdf.Union3D(sdf.Extrude3D(p2, S), sdf.Transform3D(r, sdf.Translate3d(v3.Vec{Z: 4 * S})))
		}), "union3(extrude(p), translate(revolve(p))) with p = "+n.String()
	case "voxel-progress":
		// the voxel cache built with a progress listener (a buffered channel nobody has to drain)
		n := shape.Gen3(t, shape.Opts{S: S, Depth: rapid.IntRange(0, 1).Draw(t, "depth"), Grammar: shape.Lipschitz})
		cells := rapid.IntRange(2, 8).Draw(t, "cells")
		mk, desc = fromNode(n, func(b *shape.Built) sdf.SDF3 {
			sz := b.SDF3().BoundingBox().Size()
			if sz.MinComponent() < 1.01*sz.MaxComponent()/float64(cells) {
				return nil
			}
			return sdf.NewVoxelSDF3(b.SDF3(), cells, make(chan float64, 4*cells+8))
		}), fmt.Sprintf("voxel(%d, %s, progress listener)", cells, n)
	case "voxel":
		n := shape.Gen3(t, shape.Opts{S: S, Depth: rapid.IntRange(0, 1).Draw(t, "depth"), Grammar: shape.Lipschitz})
		cells := rapid.IntRange(2, 8).Draw(t, "cells")
		mk, desc = fromNode(n, func(b *shape.Built) sdf.SDF3 {
			sz := b.SDF3().BoundingBox().Size()
			if sz.MinComponent() < 1.01*sz.MaxComponent()/float64(cells) {
				return nil
			}
			return sdf.NewVoxelSDF3(b.SDF3(), cells, nil)
		}), fmt.Sprintf("voxel(%d, %s)", cells, n)
	case "trimesh":
		r := g.Length(t, "r", 0.5, 5)
		nb := rapid.IntRange(3, 20).Draw(t, "neighbours")
		// a coarse mesh with fewer triangles than neighbours asked for (a 12-triangle box with the examples'
		// 20 neighbours), or a sphere of a few hundred triangles
		if rapid.Bool().Draw(t, "few-triangles") {
			a, bq, c := g.Length(t, "bx", 0.5, 5), g.Length(t, "by", 0.5, 5), g.Length(t, "bz", 0.5, 5)
			nb = rapid.SampledFrom([]int{20, 13, 100, 12, 5}).Draw(t, "neighbours-box")
			mk, desc = func() sdf.SDF3 { return obj.ImportTriMesh(boxMesh(a, bq, c), nb, 3, 5) }, fmt.Sprintf("ImportTriMesh(box %g x %g x %g of 12 triangles, %d neighbours)", a, bq, c, nb)
			break
		}
		mk, desc = func() sdf.SDF3 { return obj.ImportTriMesh(sphereMesh(r), nb, 3, 5) }, fmt.Sprintf("ImportTriMesh(sphere %g, %d neighbours)", r, nb)
	case "text":
		txt := rapid.StringMatching("[A-Za-z0-9]{1,4}").Draw(t, "txt")
		mk, desc = func() sdf.SDF3 {
			f, err := sdf.LoadFont("/repo/files/cmr10.ttf")
			if err != nil {
				return nil
			}
			s2, err := sdf.Text2D(f, sdf.NewText(txt), 10)
			if err != nil {
				return nil
			}
			return sdf.Extrude3D(s2, 2)
		}, fmt.Sprintf("extrude(text %q)", txt)
	default:
		mk, desc = drawObj(t)
		class = "obj"
	}
	if mk == nil {
		return nil, class, desc, false
	}
	// probe once that the constructor accepts the parameters (the probe object is discarded)
	if mk() == nil {
		return nil, class, desc, false
	}
	return mk, class, desc, true
}

func drawObj(t *rapid.T) (func() sdf.SDF3, string) {
	which := rapid.SampledFrom([]string{"bolt", "nut", "washer", "standoff", "gear", "hexhead", "knurl", "pipe"}).Draw(t, "obj")
	thread := rapid.SampledFrom([]string{"M8x1.25", "unc_1/4", "M3x0.5"}).Draw(t, "thread")
	teeth := rapid.IntRange(8, 20).Draw(t, "teeth")
	return func() sdf.SDF3 {
		var s sdf.SDF3
		var err error
		switch which {
		case "bolt":
			s, err = obj.Bolt(&obj.BoltParms{Thread: thread, Style: "hex", TotalLength: 20, ShankLength: 5})
		case "nut":
			s, err = obj.Nut(&obj.NutParms{Thread: thread, Style: "hex"})
		case "washer":
			s, err = obj.Washer3D(&obj.WasherParms{Thickness: 1, InnerRadius: 3, OuterRadius: 6})
		case "standoff":
			s, err = obj.Standoff3D(&obj.StandoffParms{PillarHeight: 10, PillarDiameter: 6, HoleDepth: 5, HoleDiameter: 2.4, NumberWebs: 4, WebHeight: 5, WebDiameter: 12, WebWidth: 2})
		case "gear":
			var g2 sdf.SDF2
			g2, err = obj.InvoluteGear(&obj.InvoluteGearParms{NumberTeeth: teeth, Module: 1, PressureAngle: sdf.DtoR(20), RingWidth: 1, Facets: 5})
			if err == nil {
				s = sdf.Extrude3D(g2, 3)
			}
		case "hexhead":
			s, err = obj.HexHead3D(5, 4, "tb")
		case "knurl":
			s, err = obj.KnurledHead3D(5, 4, 1)
		default:
			s, err = obj.Pipe3D(4, 3, 10)
		}
		if err != nil {
			return nil
		}
		return s
	}, which + " " + thread
}

func TestConcurrentEvaluate(t *testing.T) {
	rec := ev.Get()
	rapid.Check(t, func(t *rapid.T) {
		mk, class, desc, ok := drawShape(t)
		if !ok {
			rec.Count("discarded:constructor-rejected", 1)
			rec.Case(false, "", "discarded")
			return
		}
		fmt.Printf("C10-CASE hammer %s %s\n", class, desc)
		s := mk() // fresh: its first Evaluate calls are the concurrent ones
		bb := s.BoundingBox()
		if !shape.Finite(bb.Min.X, bb.Min.Y, bb.Min.Z, bb.Max.X, bb.Max.Y, bb.Max.Z) {
			rec.Case(false, "", "discarded")
			return
		}
		G := rapid.SampledFrom([]int{2, 4, runtime.NumCPU()}).Draw(t, "goroutines")
		pts := drawPoints(t, bb, rapid.IntRange(20, 60).Draw(t, "npts"))
		rounds := 4
		if class == "text" || class == "obj" {
			rounds = 1
		}
		msg, overlap := hammer3(s, pts, G, rounds)
		if msg != "" {
			rec.Violation(t, "C10:"+class+":concurrent-value-differs", "%s: %s", desc, msg)
		}
		rec.Case(overlap > 0, ev.Key(class, desc, G, len(pts)), "hammer:"+class, fmt.Sprintf("hammer:G=%d", G))
		rec.Sample("hammer:"+class, map[string]any{"class": class, "shape": desc, "goroutines": G, "points": len(pts), "overlapping_evaluations": overlap})
	})
}

// TestParallelRender: the uniform marching-cubes renderer evaluates the shape from one worker per
// CPU; every value it obtained must equal sequential evaluation at the same point.
func TestParallelRender(t *testing.T) {
	rec := ev.Get()
	rapid.Check(t, func(t *rapid.T) {
		mk, class, desc, ok := drawShape(t)
		if !ok || class == "program2" {
			rec.Count("discarded:constructor-rejected-or-2d", 1)
			rec.Case(false, "", "discarded")
			return
		}
		s := mk() // fresh: the render is its first use; values are compared with sequential evaluation afterwards
		fmt.Printf("C10-CASE render %s %s\n", class, desc)
		bb := s.BoundingBox()
		sz := bb.Size()
		if !shape.Finite(sz.X, sz.Y, sz.Z) || !(sz.MinComponent() > 0) || sz.MaxComponent() > 1e6 {
			rec.Case(false, "", "discarded")
			return
		}
		cells := rapid.IntRange(8, 20).Draw(t, "cells")
		if class == "text" || class == "obj" {
			cells = rapid.IntRange(6, 10).Draw(t, "cells-slow")
		}
		pw := &lat.Perturb3{S: s, Mode: rapid.IntRange(0, 2).Draw(t, "perturb")}
		rb := &lat.Recorder3{S: pw}
		ts := render.ToTriangles(rb, render.NewMarchingCubesUniform(cells))
		for i, p := range rb.Pts {
			if v := s.Evaluate(p); !same(v, rb.Val[i]) {
				rec.Violation(t, "C10:"+class+":value-under-parallel-render-differs", "%s, %d cells: at %v the renderer's worker obtained %v, sequential evaluation gives %v", desc, cells, p, rb.Val[i], v)
			}
		}
		// every lattice node must have been evaluated on THIS object: a worker that evaluates a batch
		// on some other shape leaves a hole in the record (and a wrong value in the renderer's layer)
		if len(rb.Pts) == 0 {
			rec.Violation(t, "C10:"+class+":lattice-nodes-not-evaluated-on-this-shape", "%s, %d cells: the renderer returned %d triangles without evaluating the shape being rendered a single time", desc, cells, len(ts))
		} else {
			h := sz.MaxComponent() / float64(cells)
			ax := lat.AxesOf3(rb.Pts, 1e-9*h)
			uniq := map[v3.Vec]struct{}{}
			for _, p := range rb.Pts {
				uniq[p] = struct{}{}
			}
			if want := len(ax.X) * len(ax.Y) * len(ax.Z); len(uniq) != want {
				rec.Violation(t, "C10:"+class+":lattice-nodes-not-evaluated-on-this-shape", "%s, %d cells: the renderer sampled a %dx%dx%d lattice but only %d of its %d nodes were evaluated on the shape being rendered", desc, cells, len(ax.X), len(ax.Y), len(ax.Z), len(uniq), want)
			}
		}
		// the same shape object rendered by several renders at once (a program that writes an STL and
		// a 3MF of one part in parallel): its Evaluate is then called by the workers on behalf of all of
		// them; every render must deliver the mesh of the solo render
		if k := rapid.IntRange(0, 3).Draw(t, "simultaneous-renders"); k >= 2 {
			out := make([][]*sdf.Triangle3, k)
			var wg sync.WaitGroup
			for i := range out {
				wg.Add(1)
				go func(i int) {
					defer wg.Done()
					out[i] = render.ToTriangles(s, render.NewMarchingCubesUniform(cells))
				}(i)
			}
			wg.Wait()
			for i := range out {
				ok := len(out[i]) == len(ts)
				for j := 0; ok && j < len(ts); j++ {
					for c := 0; c < 3; c++ {
						a, b := out[i][j][c], ts[j][c]
						if !same(a.X, b.X) || !same(a.Y, b.Y) || !same(a.Z, b.Z) {
							ok = false
						}
					}
				}
				if !ok {
					rec.Violation(t, "C10:"+class+":simultaneous-renders-differ-from-solo-render", "%s, %d cells: render %d of %d simultaneous renders of the one object returned %d triangles that are not the %d of the solo render", desc, cells, i, k, len(out[i]), len(ts))
				}
			}
			rec.Add("render:simultaneous-renders-of-one-object", int64(k))
		}
		rec.Case(pw.Overlap > 0, ev.Key(class, desc, cells), "render:"+class)
		rec.Sample("render:"+class, map[string]any{"class": class, "shape": desc, "cells": cells, "triangles": len(ts), "evaluations": len(rb.Pts), "overlapping_evaluations": pw.Overlap})
	})
}

// TestLargeLayers: the uniform renderer hands a lattice layer to its workers in batches of 100 points
// through a bounded queue; layers of more than ten thousand points (>= ~100 cells across) keep every
// worker and the whole queue busy at once. Oracle: every mesh vertex is the zero crossing on a lattice
// edge, so its sequentially evaluated value is at most one cell in magnitude (and at most
// h^2/(8(R-h)) for the sphere); a repeated render returns the same mesh.
func TestLargeLayers(t *testing.T) {
	rec := ev.Get()
	rapid.Check(t, func(t *rapid.T) {
		kind := rapid.SampledFrom([]string{"sphere", "slab", "slab", "rod"}).Draw(t, "kind")
		cells := rapid.IntRange(100, ev.Pick(170, 260)).Draw(t, "cells")
		var s sdf.SDF3
		R := 0.0
		switch kind {
		case "sphere":
			R = g.Length(t, "R", 0.5, 5)
			s, _ = sdf.Sphere3D(R)
		case "slab":
			// thin along x: few layers, each of them large
			a := g.Length(t, "a", 1, 5)
			s, _ = sdf.Box3D(v3.Vec{X: a * g.F(0.05, 0.2).Draw(t, "thin"), Y: a, Z: a * g.F(0.7, 1).Draw(t, "zy")}, 0)
		default:
			// long along x: many layers, each of them small (control: the queue never fills)
			a := g.Length(t, "a", 1, 5)
			s, _ = sdf.Box3D(v3.Vec{X: a, Y: a * g.F(0.05, 0.2).Draw(t, "thin"), Z: a * g.F(0.05, 0.2).Draw(t, "thin2")}, 0)
		}
		c := v3.Vec{X: g.Coord(t, "cx", 10), Y: g.Coord(t, "cy", 10), Z: g.Coord(t, "cz", 10)}
		s = sdf.Transform3D(s, sdf.Translate3d(c))
		sz := s.BoundingBox().Size()
		h := sz.MaxComponent() / float64(cells)
		layer := (int(sz.Y/h) + 2) * (int(sz.Z/h) + 2)
		// the evaluations take a varying time in two thirds of the cases (the workers fall behind the renderer
		// and its request queue runs full)
		cost := rapid.SampledFrom([]int{2, 0, 2}).Draw(t, "evaluation-cost")
		ts := render.ToTriangles(&lat.Perturb3{S: s, Mode: cost}, render.NewMarchingCubesUniform(cells))
		desc := fmt.Sprintf("%s of size %v at %v, %d cells (layers of ~%d points), evaluation cost mode %d", kind, sz, c, cells, layer, cost)
		fmt.Printf("C10-CASE large-layers %s\n", desc)
		worst := 0.0
		seen := map[v3.Vec]bool{}
		for _, tr := range ts {
			for _, v := range tr {
				if seen[v] {
					continue
				}
				seen[v] = true
				worst = math.Max(worst, math.Abs(s.Evaluate(v)))
			}
		}
		bound := h * (1 + 1e-9)
		if kind == "sphere" && R > 2*h {
			bound = h*h/(8*(R-h)) + 1e-9*(R+c.Length())
		}
		if worst > bound {
			rec.Violation(t, "C10:large-layers:vertex-off-surface", "%s: a vertex has |f| = %v, the lattice allows %v: the workers evaluated other points than the renderer asked for", desc, worst, bound)
		}
		if len(ts) == 0 {
			rec.Violation(t, "C10:large-layers:empty-mesh", "%s: no triangles", desc)
		}
		ts2 := render.ToTriangles(&lat.Perturb3{S: s, Mode: cost}, render.NewMarchingCubesUniform(cells))
		same := len(ts) == len(ts2)
		for i := 0; same && i < len(ts); i++ {
			same = *ts[i] == *ts2[i]
		}
		if !same {
			rec.Violation(t, "C10:large-layers:second-render-differs", "%s: %d triangles, then %d", desc, len(ts), len(ts2))
		}
		rec.Case(layer > 10100, ev.Key("large", desc), "large-layers:"+kind, fmt.Sprintf("large-layers:layer>10100=%v", layer > 10100))
		rec.Sample("large-layers:"+kind, map[string]any{"scene": desc, "triangles": len(ts), "worst_abs_f_over_h": worst / h})
	})
}

// TestRegress: the one shape class with mutable state (an evaluation cache) hammered directly.
func TestRegress(t *testing.T) {
	rec := ev.Get()
	c, _ := sdf.Circle2D(3)
	s := sdf.Extrude3D(sdf.Cache2D(c), 2)
	var pts []v3.Vec
	for i := 0; i < 64; i++ {
		pts = append(pts, v3.Vec{X: float64(i%8) - 3.5, Y: float64(i/8) - 3.5, Z: 0.25 * float64(i%5)})
	}
	msg, overlap := hammer3(s, pts, runtime.NumCPU(), 50)
	rec.Case(overlap > 0, "regress-cache2", "regress")
	if msg != "" {
		rec.FailCase(t, "TestRegress", "C10:cache2-extrude:concurrent-value-differs", map[string]any{"shape": "extrude(cache2(circle 3))"}, "%s", msg)
	}
	ts := render.ToTriangles(s, render.NewMarchingCubesUniform(20))
	if len(ts) == 0 {
		t.Fatalf("no triangles")
	}
}
