package c03

import (
	"fmt"
	"math"
	"testing"

	"github.com/deadsy/sdfx/sdf"
	v2 "github.com/deadsy/sdfx/vec/v2"
	v3 "github.com/deadsy/sdfx/vec/v3"
	"pgregory.net/rapid"

	"verif/internal/ev"
	"verif/internal/g"
	"verif/internal/shape"
)

// Arrays and rotate-unions take the polynomial blend as well (SetMin on ArraySDF2/3, RotateUnionSDF2/3);
// a smooth minimum of 1-Lipschitz copies is 1-Lipschitz. Exact leaves, PolyMin(k), point pairs at all
// separations; a value that is not finite fails the comparison too.
func TestPatternBlendLipschitz(t *testing.T) {
	rec := ev.Get()
	rapid.Check(t, func(t *rapid.T) {
		S := rapid.SampledFrom([]float64{1, 10}).Draw(t, "scale")
		op := rapid.SampledFrom([]string{"array3", "rotunion3", "array2", "rotunion2"}).Draw(t, "pattern")
		dim3 := op == "array3" || op == "rotunion3"
		var kid *shape.Node
		if dim3 {
			kid = shape.GenExact3(t, S, rapid.IntRange(0, 1).Draw(t, "depth"))
		} else {
			kid = shape.GenExact2(t, S, rapid.IntRange(0, 1).Draw(t, "depth"))
		}
		n := &shape.Node{Op: op, K: []*shape.Node{kid}}
		step := func(l string) float64 {
			return g.Length(t, l, 0.2*S, 3*S) * float64(1-2*rapid.IntRange(0, 1).Draw(t, l+".neg"))
		}
		switch op {
		case "array3":
			n.I = []int{rapid.IntRange(1, 3).Draw(t, "nx"), rapid.IntRange(1, 3).Draw(t, "ny"), rapid.IntRange(1, 2).Draw(t, "nz")}
			n.P = []float64{step("sx"), step("sy"), step("sz")}
		case "array2":
			n.I = []int{rapid.IntRange(1, 4).Draw(t, "nx"), rapid.IntRange(1, 3).Draw(t, "ny")}
			n.P = []float64{step("sx"), step("sy")}
		default:
			n.I = []int{rapid.IntRange(1, 8).Draw(t, "n")}
			n.P = []float64{g.Angle(t, "theta")}
		}
		b, err := shape.Build(n)
		if err != nil {
			rec.Count("discarded:constructor-rejected", 1)
			rec.Case(false, "", "discarded")
			return
		}
		k := g.LogUniform(t, "k", 1e-2*S, 2*S)
		var eval func(p [3]float64) float64
		var c, h [3]float64
		if dim3 {
			s := b.SDF3()
			switch x := s.(type) {
			case *sdf.ArraySDF3:
				x.SetMin(sdf.PolyMin(k))
			case *sdf.RotateUnionSDF3:
				x.SetMin(sdf.PolyMin(k))
			}
			eval = func(p [3]float64) float64 { return s.Evaluate(v3.Vec{X: p[0], Y: p[1], Z: p[2]}) }
			bb := s.BoundingBox()
			c, h = [3]float64{bb.Center().X, bb.Center().Y, bb.Center().Z}, [3]float64{bb.Size().X, bb.Size().Y, bb.Size().Z}
		} else {
			s := b.SDF2()
			switch x := s.(type) {
			case *sdf.ArraySDF2:
				x.SetMin(sdf.PolyMin(k))
			case *sdf.RotateUnionSDF2:
				x.SetMin(sdf.PolyMin(k))
			}
			eval = func(p [3]float64) float64 { return s.Evaluate(v2.Vec{X: p[0], Y: p[1]}) }
			bb := s.BoundingBox()
			c, h = [3]float64{bb.Center().X, bb.Center().Y, 0}, [3]float64{bb.Size().X, bb.Size().Y, 0}
		}
		scale := math.Sqrt(h[0]*h[0]+h[1]*h[1]+h[2]*h[2]) + math.Sqrt(c[0]*c[0]+c[1]*c[1]+c[2]*c[2])
		npairs := rapid.IntRange(30, 80).Draw(t, "npairs")
		for i := 0; i < npairs; i++ {
			var p, q, d [3]float64
			for a := 0; a < 3; a++ {
				p[a] = c[a] + g.F(-0.8, 0.8).Draw(t, fmt.Sprintf("p%d.%d", i, a))*h[a]
				d[a] = g.F(-1, 1).Draw(t, fmt.Sprintf("d%d.%d", i, a))
			}
			if !dim3 {
				d[2] = 0
			}
			dl := math.Sqrt(d[0]*d[0] + d[1]*d[1] + d[2]*d[2])
			if dl < 1e-6 {
				continue
			}
			r := g.LogUniform(t, fmt.Sprintf("r%d", i), 1e-6, 3) * S
			for a := 0; a < 3; a++ {
				q[a] = p[a] + d[a]/dl*r
			}
			fp, fq := eval(p), eval(q)
			if !(math.Abs(fp-fq) <= r*(1+1e-9)+1e-9*scale) {
				rec.Violation(t, "C03:lipschitz:"+op+":polymin-blend", "%s with SetMin(PolyMin(%v)): |f(p)-f(q)| = |%v - %v| > |p-q| = %v for p=%v q=%v", n, k, fp, fq, r, p, q)
			}
		}
		rec.Case(true, ev.Key(n.String(), k), "pattern-blend:"+op)
		rec.Sample("pattern-blend:"+op, map[string]any{"program": n.String(), "k": k, "pairs": npairs})
	})
}
