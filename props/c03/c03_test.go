package c03

import (
	"fmt"
	"math"
	"sort"
	"testing"

	"github.com/deadsy/sdfx/sdf"
	v2 "github.com/deadsy/sdfx/vec/v2"
	v3 "github.com/deadsy/sdfx/vec/v3"
	"pgregory.net/rapid"

	"verif/internal/ev"
	"verif/internal/g"
	"verif/internal/oracle"
	"verif/internal/shape"
)

func TestMain(m *testing.M) { ev.Main(m) }

func opLabels(n *shape.Node) []string {
	var ls []string
	for op := range n.Ops() {
		ls = append(ls, "op:"+op)
	}
	sort.Strings(ls)
	return ls
}

// leafOf returns the leaf at the bottom of a wrapper chain.
func leafOf(n *shape.Node) *shape.Node {
	for len(n.K) > 0 {
		n = n.K[0]
	}
	return n
}

// featurePoint3 draws a point near a feature of the leaf primitive, expressed
// in the LEAF's own frame: profile vertices, edge normals, axes, medial planes.
func featurePoint3(t *rapid.T, leaf *shape.Node, i int, S float64) ([3]float64, string) {
	l := func(s string) string { return fmt.Sprintf("%s%d", s, i) }
	P := leaf.P
	phi := g.F(-math.Pi, math.Pi).Draw(t, l("phi"))
	spin := func(rho, z float64) [3]float64 { return [3]float64{rho * math.Cos(phi), rho * math.Sin(phi), z} }
	off := func() (float64, float64) {
		// offset from a feature: tiny to large, any direction
		d := g.LogUniform(t, l("fd"), 1e-6, 2) * S
		a := g.F(-math.Pi, math.Pi).Draw(t, l("fa"))
		if rapid.IntRange(0, 3).Draw(t, l("fax")) == 0 {
			a = float64(rapid.IntRange(-4, 4).Draw(t, l("faq"))) * math.Pi / 4
		}
		return d * math.Cos(a), d * math.Sin(a)
	}
	switch leaf.Op {
	case "cone":
		vs, ok := oracle.ConeProfile(P[0], P[1], P[2], P[3])
		if !ok {
			return [3]float64{}, "none"
		}
		// features: the two slope-end vertices, slope midpoint, cap centres
		feats := [][2]float64{vs[1], vs[2], {(vs[1][0] + vs[2][0]) / 2, (vs[1][1] + vs[2][1]) / 2}, {0, vs[1][1]}, {0, vs[2][1]}, {0, 0}}
		k := rapid.IntRange(0, len(feats)-1).Draw(t, l("feat"))
		dx, dz := off()
		rho := feats[k][0] + dx
		if rho < 0 {
			rho = -rho
		}
		return spin(rho, feats[k][1]+dz), fmt.Sprintf("cone-feature-%d", k)
	case "cyl", "capsule":
		h, r, rd := P[0], P[1], 0.0
		if leaf.Op == "cyl" {
			rd = P[2]
		} else {
			rd = r
		}
		feats := [][2]float64{{r - rd, h/2 - rd}, {r - rd, -(h/2 - rd)}, {r, 0}, {0, h / 2}, {0, 0}, {r - rd, 0}}
		k := rapid.IntRange(0, len(feats)-1).Draw(t, l("feat"))
		dx, dz := off()
		return spin(math.Abs(feats[k][0]+dx), feats[k][1]+dz), fmt.Sprintf("%s-feature-%d", leaf.Op, k)
	case "box3":
		hx, hy, hz, rd := P[0]/2, P[1]/2, P[2]/2, P[3]
		// a corner / edge / face of the inset box, plus an offset
		sgn := func(s string) float64 { return float64(rapid.IntRange(-1, 1).Draw(t, l(s))) }
		dx, dz := off()
		dy, _ := off()
		return [3]float64{sgn("cx")*(hx-rd) + dx, sgn("cy")*(hy-rd) + dy, sgn("cz")*(hz-rd) + dz}, "box3-feature"
	default: // sphere
		dx, dz := off()
		return spin(math.Abs(P[0]+dx), dz), "sphere-feature"
	}
}

func TestExact3(t *testing.T) {
	rec := ev.Get()
	rapid.Check(t, func(t *rapid.T) {
		S := rapid.SampledFrom([]float64{1, 10, 100}).Draw(t, "scale")
		depth := rapid.IntRange(0, 3).Draw(t, "depth")
		n := shape.GenExact3(t, S, depth)
		f, ok := oracle.Exact3(n)
		if !ok {
			rec.Count("discarded:no-closed-form", 1)
			rec.Case(false, "", "discarded")
			return
		}
		b, err := shape.Build(n)
		if err != nil {
			if _, dom := err.(shape.ErrDomain); dom {
				rec.Count("discarded:constructor-rejected", 1)
				rec.Case(false, "", "discarded")
				return
			}
			t.Fatalf("build: %v", err)
		}
		s := b.SDF3()
		bb := s.BoundingBox()
		c, h := bb.Center(), bb.Size().MulScalar(0.5)
		size := bb.Size().Length()
		leaf := leafOf(n)
		npts := rapid.IntRange(40, 120).Draw(t, "npts")
		nt := false
		for i := 0; i < npts; i++ {
			var p [3]float64
			class := "generic"
			switch rapid.IntRange(0, 5).Draw(t, fmt.Sprintf("k%d", i)) {
			case 0, 1:
				p = [3]float64{c.X + g.F(-1.5, 1.5).Draw(t, fmt.Sprintf("x%d", i))*h.X, c.Y + g.F(-1.5, 1.5).Draw(t, fmt.Sprintf("y%d", i))*h.Y, c.Z + g.F(-1.5, 1.5).Draw(t, fmt.Sprintf("z%d", i))*h.Z}
			case 2:
				class = "far"
				k := g.LogUniform(t, fmt.Sprintf("far%d", i), 10, 1000)
				p = [3]float64{c.X + g.F(-1, 1).Draw(t, fmt.Sprintf("x%d", i))*k*size, c.Y + g.F(-1, 1).Draw(t, fmt.Sprintf("y%d", i))*k*size, c.Z + g.F(-1, 1).Draw(t, fmt.Sprintf("z%d", i))*k*size}
			default:
				if n == leaf && leaf.Dim() == 3 {
					p, class = featurePoint3(t, leaf, i, S)
				} else {
					// feature point of the leaf mapped forward is not available analytically for wrappers: use axis-aligned slices through the box centre
					p = [3]float64{c.X, c.Y, c.Z}
					a := rapid.IntRange(0, 2).Draw(t, fmt.Sprintf("ax%d", i))
					p[a] += g.F(-2, 2).Draw(t, fmt.Sprintf("x%d", i)) * []float64{h.X, h.Y, h.Z}[a]
					class = "axis-line"
				}
			}
			want := f(p)
			if math.IsNaN(want) {
				rec.Add("points:oracle-undecided(level-with-a-polygon-vertex)", 1)
				continue
			}
			got := s.Evaluate(v3.Vec{X: p[0], Y: p[1], Z: p[2]})
			tol := 1e-9 * (1 + math.Abs(p[0]) + math.Abs(p[1]) + math.Abs(p[2]) + size)
			rec.Add("points:"+class, 1)
			if math.Abs(want) > tol && (class != "generic") {
				nt = true
			}
			if !(math.Abs(got-want) <= tol) {
				key := "C03:exact:" + n.Op
				if n != leaf {
					// is the leaf itself wrong at the mapped point? then blame the leaf
					key = "C03:exact:" + n.Op + "(wrapper)"
				}
				rec.Violation(t, key, "%s at p=%v [%s]: Evaluate=%v closed form=%v (diff %v, tol %v)", n, p, class, got, want, got-want, tol)
			}
		}
		rounded := (leaf.Op == "box3" && leaf.P[3] > 0) || (leaf.Op == "cyl" && leaf.P[2] > 0) || (leaf.Op == "cone" && leaf.P[3] > 0) || leaf.Op == "capsule"
		rec.Case(nt && (rounded || depth > 0 || leaf.Op == "cone"), n.String(), append(opLabels(n), fmt.Sprintf("exact3:rounded=%v", rounded))...)
		rec.Sample("exact3:"+leaf.Op, map[string]any{"program": n.String(), "points": npts})
	})
}

func TestExact2(t *testing.T) {
	rec := ev.Get()
	rapid.Check(t, func(t *rapid.T) {
		S := rapid.SampledFrom([]float64{1, 10, 100}).Draw(t, "scale")
		depth := rapid.IntRange(0, 3).Draw(t, "depth")
		n := shape.GenExact2(t, S, depth)
		f, ok := oracle.Exact2(n)
		if !ok {
			rec.Count("discarded:no-closed-form", 1)
			rec.Case(false, "", "discarded")
			return
		}
		b, err := shape.Build(n)
		if err != nil {
			rec.Count("discarded:constructor-rejected", 1)
			rec.Case(false, "", "discarded")
			return
		}
		s := b.SDF2()
		bb := s.BoundingBox()
		c, h := bb.Center(), bb.Size().MulScalar(0.5)
		size := bb.Size().Length()
		leaf := leafOf(n)
		npts := rapid.IntRange(40, 120).Draw(t, "npts")
		nt := false
		for i := 0; i < npts; i++ {
			var p [2]float64
			class := "generic"
			switch rapid.IntRange(0, 4).Draw(t, fmt.Sprintf("k%d", i)) {
			case 0, 1:
				p = [2]float64{c.X + g.F(-1.5, 1.5).Draw(t, fmt.Sprintf("x%d", i))*h.X, c.Y + g.F(-1.5, 1.5).Draw(t, fmt.Sprintf("y%d", i))*h.Y}
			case 2:
				class = "far"
				k := g.LogUniform(t, fmt.Sprintf("far%d", i), 10, 1000)
				p = [2]float64{c.X + g.F(-1, 1).Draw(t, fmt.Sprintf("x%d", i))*k*size, c.Y + g.F(-1, 1).Draw(t, fmt.Sprintf("y%d", i))*k*size}
			default:
				class = "axis-line"
				p = [2]float64{c.X, c.Y}
				a := rapid.IntRange(0, 1).Draw(t, fmt.Sprintf("ax%d", i))
				p[a] += g.F(-2, 2).Draw(t, fmt.Sprintf("x%d", i)) * []float64{h.X, h.Y}[a]
				if n == leaf && leaf.Op == "box2" && rapid.Bool().Draw(t, fmt.Sprintf("diag%d", i)) {
					// the diagonal of the inset box: boundary between the two interior branches
					class = "box2-diagonal"
					u := g.F(-1.5, 1.5).Draw(t, fmt.Sprintf("u%d", i))
					hx, hy := leaf.P[0]/2-leaf.P[2], leaf.P[1]/2-leaf.P[2]
					m := math.Min(hx, hy)
					p = [2]float64{(hx - m) + u*m, (hy - m) + u*m}
					if rapid.Bool().Draw(t, fmt.Sprintf("ulp%d", i)) {
						p[0] = g.Ulp(p[0], rapid.IntRange(-1, 1).Draw(t, fmt.Sprintf("ul%d", i)))
					}
				}
			}
			want := f(p)
			if math.IsNaN(want) {
				rec.Add("points2:oracle-undecided(level-with-a-polygon-vertex)", 1)
				continue
			}
			got := s.Evaluate(v2.Vec{X: p[0], Y: p[1]})
			tol := 1e-9 * (1 + math.Abs(p[0]) + math.Abs(p[1]) + size)
			rec.Add("points2:"+class, 1)
			if math.Abs(want) > tol && class != "generic" {
				nt = true
			}
			if !(math.Abs(got-want) <= tol) {
				rec.Violation(t, "C03:exact:"+n.Op, "%s at p=%v [%s]: Evaluate=%v closed form=%v (diff %v)", n, p, class, got, want, got-want)
			}
		}
		rec.Case(nt, n.String(), opLabels(n)...)
		rec.Sample("exact2:"+leaf.Op, map[string]any{"program": n.String(), "points": npts})
	})
}

// ---------------------------------------------------------------------------
// 1-Lipschitz compositions

type pair3 struct{ p, q [3]float64 }

func dist3(a, b [3]float64) float64 {
	return math.Sqrt((a[0]-b[0])*(a[0]-b[0]) + (a[1]-b[1])*(a[1]-b[1]) + (a[2]-b[2])*(a[2]-b[2]))
}

// lipCulprit walks the two reference traces in lock step and returns the
// bottom-most node whose BUILT object breaks the Lipschitz bound on the mapped pair.
func lipCulprit(b *shape.Built, p, q [3]float64, scale float64) (string, string) {
	tp, tq := b.Trace(p), b.Trace(q)
	if len(tp) != len(tq) {
		return "C03:lipschitz:" + b.Root.Op + ":unlocalised", ""
	}
	for i := range tp {
		if tp[i].N != tq[i].N {
			return "C03:lipschitz:" + b.Root.Op + ":unlocalised", ""
		}
		n := tp[i].N
		fp, fq := b.EvalNode(n, tp[i].P), b.EvalNode(n, tq[i].P)
		d := dist3(tp[i].P, tq[i].P)
		if n.Dim() == 2 {
			d = math.Hypot(tp[i].P[0]-tq[i].P[0], tp[i].P[1]-tq[i].P[1])
		}
		if math.Abs(fp-fq) > d*(1+1e-9)+1e-9*scale {
			key := "C03:lipschitz:" + n.Op
			if u, ok := b.S2[n].(*sdf.UnionSDF2); ok && n.Op == "union2" && n.S == "" {
				sp := u.EvaluateSlow(v2.Vec{X: tp[i].P[0], Y: tp[i].P[1]})
				sq := u.EvaluateSlow(v2.Vec{X: tq[i].P[0], Y: tq[i].P[1]})
				if math.Abs(sp-sq) <= d*(1+1e-9)+1e-9*scale {
					key = "Union2D:pruned-value-overestimates"
				}
			}
			return key, fmt.Sprintf("sub-program %s: |f(%v)-f(%v)| = |%v - %v| = %v > distance %v", n, tp[i].P, tq[i].P, fp, fq, math.Abs(fp-fq), d)
		}
	}
	return "C03:lipschitz:" + b.Root.Op + ":unlocalised", ""
}

func seamPool(n *shape.Node) []float64 {
	pool := []float64{0}
	n.Walk(func(x *shape.Node) {
		for _, p := range x.P {
			if math.Abs(p) < 1e6 {
				pool = append(pool, p, -p, p/2, -p/2)
			}
		}
	})
	return pool
}

func TestLipschitz3(t *testing.T) {
	rec := ev.Get()
	rapid.Check(t, func(t *rapid.T) {
		S := rapid.SampledFrom([]float64{1, 10, 100}).Draw(t, "scale")
		n := shape.Gen3(t, shape.Opts{S: S, Depth: rapid.IntRange(1, ev.Pick(3, 4)).Draw(t, "depth"), Grammar: shape.Lipschitz, SolidUnion2: true, UniformRoot: rapid.Bool().Draw(t, "uniform-root")})
		b, err := shape.Build(n)
		if err != nil {
			rec.Count("discarded:constructor-rejected", 1)
			rec.Case(false, "", "discarded")
			return
		}
		s := b.SDF3()
		bb := s.BoundingBox()
		if !shape.Finite(bb.Min.X, bb.Min.Y, bb.Min.Z, bb.Max.X, bb.Max.Y, bb.Max.Z) {
			rec.Case(false, "", "discarded")
			return
		}
		c, h := bb.Center(), bb.Size().MulScalar(0.5).AddScalar(0.05*S)
		scale := h.Length() + c.Length()
		pool := seamPool(n)
		ev3 := func(p [3]float64) float64 { return s.Evaluate(v3.Vec{X: p[0], Y: p[1], Z: p[2]}) }
		npairs := rapid.IntRange(30, 100).Draw(t, "npairs")
		straddle := 0
		for i := 0; i < npairs; i++ {
			var p, q [3]float64
			cc, hh := [3]float64{c.X, c.Y, c.Z}, [3]float64{h.X, h.Y, h.Z}
			onSeam := false
			for a := 0; a < 3; a++ {
				l := fmt.Sprintf("p%d.%d", i, a)
				if rapid.IntRange(0, 3).Draw(t, l+".k") == 0 {
					p[a] = rapid.SampledFrom(pool).Draw(t, l+".pool")
					onSeam = true
				} else {
					p[a] = cc[a] + g.F(-1.4, 1.4).Draw(t, l)*hh[a]
				}
			}
			// q: very close, close, or anywhere
			var r float64
			switch rapid.IntRange(0, 3).Draw(t, fmt.Sprintf("qk%d", i)) {
			case 0:
				r = g.LogUniform(t, fmt.Sprintf("qr%d", i), 1e-9, 1e-4) * S
			case 1, 2:
				r = g.LogUniform(t, fmt.Sprintf("qr%d", i), 1e-4, 1) * S
			default:
				r = g.LogUniform(t, fmt.Sprintf("qr%d", i), 1, 10) * S
			}
			d := [3]float64{g.F(-1, 1).Draw(t, fmt.Sprintf("qx%d", i)), g.F(-1, 1).Draw(t, fmt.Sprintf("qy%d", i)), g.F(-1, 1).Draw(t, fmt.Sprintf("qz%d", i))}
			if onSeam && rapid.Bool().Draw(t, fmt.Sprintf("qax%d", i)) {
				// step across the seam along one axis
				a := rapid.IntRange(0, 2).Draw(t, fmt.Sprintf("qa%d", i))
				d = [3]float64{}
				d[a] = 1
				if rapid.Bool().Draw(t, fmt.Sprintf("qs%d", i)) {
					d[a] = -1
				}
			}
			dl := math.Sqrt(d[0]*d[0] + d[1]*d[1] + d[2]*d[2])
			if dl < 1e-6 {
				continue
			}
			for a := 0; a < 3; a++ {
				q[a] = p[a] + d[a]/dl*r
			}
			if onSeam {
				straddle++
			}
			fp, fq := ev3(p), ev3(q)
			dist := dist3(p, q)
			if !(math.Abs(fp-fq) <= dist*(1+1e-9)+1e-9*scale) {
				key, detail := lipCulprit(b, p, q, scale)
				rec.Violation(t, key, "%s: |f(p)-f(q)| = |%v - %v| = %v > |p-q| = %v for p=%v q=%v; %s", n, fp, fq, math.Abs(fp-fq), dist, p, q, detail)
			}
			// empty ball: no sign change inside the open ball of radius |f(p)| about p
			if math.Abs(fp) > 1e-9*scale {
				rr := math.Abs(fp) * (1 - 1e-6) * g.F(0, 1).Draw(t, fmt.Sprintf("br%d", i))
				var w [3]float64
				for a := 0; a < 3; a++ {
					w[a] = p[a] + d[a]/dl*rr
				}
				if fw := ev3(w); (fw < 0) != (fp < 0) && math.Abs(fw) > 1e-9*scale {
					key, detail := lipCulprit(b, p, w, scale)
					rec.Violation(t, key, "%s: f(p)=%v at p=%v but f=%v at %v which is only %v away (sign change inside the ball of radius |f(p)|); %s", n, fp, p, fw, w, rr, detail)
				}
			}
		}
		rec.Add("pairs", int64(npairs))
		rec.Add("pairs-on-seam", int64(straddle))
		rec.Case(straddle > 0 && n.Combinators() >= 1, n.String(), opLabels(n)...)
		rec.Sample("lipschitz3", map[string]any{"program": n.String(), "pairs": npairs, "on_seam": straddle})
	})
}

func TestLipschitz2(t *testing.T) {
	rec := ev.Get()
	rapid.Check(t, func(t *rapid.T) {
		S := rapid.SampledFrom([]float64{1, 10, 100}).Draw(t, "scale")
		n := shape.Gen2(t, shape.Opts{S: S, Depth: rapid.IntRange(1, ev.Pick(3, 4)).Draw(t, "depth"), Grammar: shape.Lipschitz, SolidUnion2: true, UniformRoot: rapid.Bool().Draw(t, "uniform-root")})
		b, err := shape.Build(n)
		if err != nil {
			rec.Count("discarded:constructor-rejected", 1)
			rec.Case(false, "", "discarded")
			return
		}
		s := b.SDF2()
		bb := s.BoundingBox()
		if !shape.Finite(bb.Min.X, bb.Min.Y, bb.Max.X, bb.Max.Y) {
			rec.Case(false, "", "discarded")
			return
		}
		c, h := bb.Center(), bb.Size().MulScalar(0.5).AddScalar(0.05*S)
		scale := h.Length() + c.Length()
		pool := seamPool(n)
		ev2 := func(p [3]float64) float64 { return s.Evaluate(v2.Vec{X: p[0], Y: p[1]}) }
		npairs := rapid.IntRange(30, 100).Draw(t, "npairs")
		straddle := 0
		for i := 0; i < npairs; i++ {
			var p, q [3]float64
			cc, hh := [2]float64{c.X, c.Y}, [2]float64{h.X, h.Y}
			onSeam := false
			for a := 0; a < 2; a++ {
				l := fmt.Sprintf("p%d.%d", i, a)
				if rapid.IntRange(0, 3).Draw(t, l+".k") == 0 {
					p[a] = rapid.SampledFrom(pool).Draw(t, l+".pool")
					onSeam = true
				} else {
					p[a] = cc[a] + g.F(-1.4, 1.4).Draw(t, l)*hh[a]
				}
			}
			var r float64
			switch rapid.IntRange(0, 3).Draw(t, fmt.Sprintf("qk%d", i)) {
			case 0:
				r = g.LogUniform(t, fmt.Sprintf("qr%d", i), 1e-9, 1e-4) * S
			case 1, 2:
				r = g.LogUniform(t, fmt.Sprintf("qr%d", i), 1e-4, 1) * S
			default:
				r = g.LogUniform(t, fmt.Sprintf("qr%d", i), 1, 10) * S
			}
			a := g.F(-math.Pi, math.Pi).Draw(t, fmt.Sprintf("qa%d", i))
			if onSeam && rapid.Bool().Draw(t, fmt.Sprintf("qax%d", i)) {
				a = float64(rapid.IntRange(-2, 2).Draw(t, fmt.Sprintf("qq%d", i))) * math.Pi / 2
			}
			q = [3]float64{p[0] + r*math.Cos(a), p[1] + r*math.Sin(a), 0}
			if onSeam {
				straddle++
			}
			fp, fq := ev2(p), ev2(q)
			dist := math.Hypot(p[0]-q[0], p[1]-q[1])
			if !(math.Abs(fp-fq) <= dist*(1+1e-9)+1e-9*scale) {
				key, detail := lipCulprit(b, p, q, scale)
				rec.Violation(t, key, "%s: |f(p)-f(q)| = |%v - %v| = %v > |p-q| = %v for p=%v q=%v; %s", n, fp, fq, math.Abs(fp-fq), dist, p, q, detail)
			}
			if math.Abs(fp) > 1e-9*scale {
				rr := math.Abs(fp) * (1 - 1e-6) * g.F(0, 1).Draw(t, fmt.Sprintf("br%d", i))
				w := [3]float64{p[0] + rr*math.Cos(a), p[1] + rr*math.Sin(a), 0}
				if fw := ev2(w); (fw < 0) != (fp < 0) && math.Abs(fw) > 1e-9*scale {
					key, detail := lipCulprit(b, p, w, scale)
					rec.Violation(t, key, "%s: f(p)=%v at p=%v but f=%v at %v which is only %v away; %s", n, fp, p, fw, w, rr, detail)
				}
			}
		}
		rec.Add("pairs", int64(npairs))
		rec.Add("pairs-on-seam", int64(straddle))
		rec.Case(straddle > 0 && n.Combinators() >= 1, n.String(), opLabels(n)...)
		rec.Sample("lipschitz2", map[string]any{"program": n.String(), "pairs": npairs, "on_seam": straddle})
	})
}

// TestRegress keeps the known finding of this property visible: the box-pruned 2D union is not
// 1-Lipschitz when an operand has no material in its box (the main campaign excludes the class by
// construction: operands of 2D unions are generated without difference / intersection / cut).
func TestRegress(t *testing.T) {
	rec := ev.Get()
	c := func(r float64) sdf.SDF2 { s, _ := sdf.Circle2D(r); return s }
	empty := sdf.Intersect2D(sdf.Transform2D(c(0.5), sdf.Translate2d(v2.Vec{X: 5, Y: 1}).Mul(sdf.Rotate2d(1))), c(0.5))
	big := sdf.ScaleUniform2D(c(2.718281828459045), 1.2840254166877414)
	u := sdf.Union2D(big, empty)
	p, q := v2.Vec{X: 3.645579244638054, Y: 1.9951714787309205}, v2.Vec{X: 7.295670478157397, Y: 2.4538241911904817}
	fp, fq := u.Evaluate(p), u.Evaluate(q)
	rec.Case(true, "regress-pruned-union", "regress")
	if d := q.Sub(p).Length(); math.Abs(fp-fq) > d*(1+1e-9) {
		rec.FailCase(t, "TestRegress", "Union2D:pruned-value-overestimates", map[string]any{"p": p, "q": q}, "Union2D(scaled circle, empty intersection): f(p)=%v f(q)=%v, |p-q|=%v", fp, fq, d)
	}
}
