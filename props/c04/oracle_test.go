package c04

// Independent oracle for C04: exact predicates (math/big.Rat behind a float
// filter), exact simplicity test, crossing-number point location with the
// half-open rule, brute-force point-segment distance. Nothing in this file
// calls sdfx.

import (
	"math"
	"math/big"
	"sort"

	v2 "github.com/deadsy/sdfx/vec/v2"
)

func rat(x float64) *big.Rat { return new(big.Rat).SetFloat64(x) }

// orientExact returns the sign of (b-a) x (c-a) computed without rounding.
func orientExact(a, b, c v2.Vec) int {
	bax := new(big.Rat).Sub(rat(b.X), rat(a.X))
	bay := new(big.Rat).Sub(rat(b.Y), rat(a.Y))
	cax := new(big.Rat).Sub(rat(c.X), rat(a.X))
	cay := new(big.Rat).Sub(rat(c.Y), rat(a.Y))
	l := new(big.Rat).Mul(bax, cay)
	r := new(big.Rat).Mul(bay, cax)
	return l.Cmp(r)
}

var exactCalls int64 // how often the float filter fell through (reported as a counter)

// orient returns +1 when a,b,c turn counter-clockwise (c left of a->b), -1
// clockwise, 0 exactly collinear. Float evaluation with a forward error bound,
// exact rational arithmetic when the bound cannot decide.
func orient(a, b, c v2.Vec) int {
	l := (b.X - a.X) * (c.Y - a.Y)
	r := (b.Y - a.Y) * (c.X - a.X)
	det := l - r
	// each difference has relative error <= eps, each product <= 3 eps (to first
	// order), the final subtraction one more: 8 eps (|l|+|r|) is a safe bound.
	bound := 8 * 1.1102230246251565e-16 * (math.Abs(l) + math.Abs(r))
	if det > bound {
		return 1
	}
	if det < -bound {
		return -1
	}
	if math.IsInf(l, 0) || math.IsInf(r, 0) || math.IsNaN(det) {
		return orientExact(a, b, c)
	}
	exactCalls++
	return orientExact(a, b, c)
}

func inRange(x, a, b float64) bool {
	if a > b {
		a, b = b, a
	}
	return a <= x && x <= b
}

// onSegment: c is known collinear with a,b; is it within the closed segment?
func onSegment(a, b, c v2.Vec) bool {
	return inRange(c.X, a.X, b.X) && inRange(c.Y, a.Y, b.Y)
}

// segmentsTouch reports whether the closed segments ab and cd share a point (exact).
func segmentsTouch(a, b, c, d v2.Vec) bool {
	if math.Max(a.X, b.X) < math.Min(c.X, d.X) || math.Max(c.X, d.X) < math.Min(a.X, b.X) ||
		math.Max(a.Y, b.Y) < math.Min(c.Y, d.Y) || math.Max(c.Y, d.Y) < math.Min(a.Y, b.Y) {
		return false
	}
	d1 := orient(c, d, a)
	d2 := orient(c, d, b)
	d3 := orient(a, b, c)
	d4 := orient(a, b, d)
	if d1*d2 < 0 && d3*d4 < 0 {
		return true
	}
	if d1 == 0 && onSegment(c, d, a) {
		return true
	}
	if d2 == 0 && onSegment(c, d, b) {
		return true
	}
	if d3 == 0 && onSegment(a, b, c) {
		return true
	}
	if d4 == 0 && onSegment(a, b, d) {
		return true
	}
	return false
}

// sgn of an exact float difference (float subtraction never changes the sign).
func sgn(x float64) int {
	if x > 0 {
		return 1
	}
	if x < 0 {
		return -1
	}
	return 0
}

// isSimple decides with exact arithmetic whether the closed vertex loop vs is a
// simple polygon: >= 3 vertices, no zero-length edge, adjacent edges meet only in
// their common vertex, non-adjacent edges are disjoint. why names the first
// reason for rejection.
func isSimple(vs []v2.Vec) (ok bool, why string) {
	n := len(vs)
	if n < 3 {
		return false, "n<3"
	}
	for i := 0; i < n; i++ {
		a, b := vs[i], vs[(i+1)%n]
		if a == b {
			return false, "zero-length-edge"
		}
		if math.IsNaN(a.X) || math.IsNaN(a.Y) || math.IsInf(a.X, 0) || math.IsInf(a.Y, 0) {
			return false, "non-finite"
		}
	}
	// adjacent edges (a,b),(b,c): overlap iff collinear and c on a's side of b
	for i := 0; i < n; i++ {
		a, b, c := vs[i], vs[(i+1)%n], vs[(i+2)%n]
		if orient(a, b, c) == 0 {
			sx, sy := sgn(a.X-b.X), sgn(a.Y-b.Y)
			tx, ty := sgn(c.X-b.X), sgn(c.Y-b.Y)
			if sx == tx && sy == ty {
				return false, "fold-back"
			}
		}
	}
	if n == 3 {
		return true, ""
	}
	// non-adjacent edges; sweep over edges sorted by min x to cut the n^2
	type ed struct {
		i        int
		lo, hi   float64
		a, b     v2.Vec
		ylo, yhi float64
	}
	es := make([]ed, n)
	for i := 0; i < n; i++ {
		a, b := vs[i], vs[(i+1)%n]
		es[i] = ed{i, math.Min(a.X, b.X), math.Max(a.X, b.X), a, b, math.Min(a.Y, b.Y), math.Max(a.Y, b.Y)}
	}
	sort.Slice(es, func(i, j int) bool {
		if es[i].lo != es[j].lo {
			return es[i].lo < es[j].lo
		}
		return es[i].i < es[j].i
	})
	for x := 0; x < n; x++ {
		e := es[x]
		for y := x + 1; y < n && es[y].lo <= e.hi; y++ {
			f := es[y]
			if f.ylo > e.yhi || e.ylo > f.yhi {
				continue
			}
			i, j := e.i, f.i
			if i > j {
				i, j = j, i
			}
			if j == i+1 || (i == 0 && j == n-1) {
				continue
			}
			if segmentsTouch(e.a, e.b, f.a, f.b) {
				return false, "edges-intersect"
			}
		}
	}
	return true, ""
}

// signedArea2 is twice the signed area (float; only its sign/size class is used
// for labels, never for a verdict).
func signedArea2(vs []v2.Vec) float64 {
	s := 0.0
	n := len(vs)
	c := vs[0]
	for i := 0; i < n; i++ {
		a, b := vs[i], vs[(i+1)%n]
		s += (a.X-c.X)*(b.Y-c.Y) - (b.X-c.X)*(a.Y-c.Y)
	}
	return s
}

// segDist is the Euclidean distance from p to the closed segment ab: clamp the
// projection parameter, measure to the closest point (no normal vector, no unit
// vector: deliberately different arithmetic from lineInfo.minDistance2).
func segDist(p, a, b v2.Vec) float64 {
	dx, dy := b.X-a.X, b.Y-a.Y
	l2 := dx*dx + dy*dy
	if l2 == 0 {
		return math.Hypot(p.X-a.X, p.Y-a.Y)
	}
	t := ((p.X-a.X)*dx + (p.Y-a.Y)*dy) / l2
	if t <= 0 {
		return math.Hypot(p.X-a.X, p.Y-a.Y)
	}
	if t >= 1 {
		return math.Hypot(p.X-b.X, p.Y-b.Y)
	}
	// interior: |cross| / length is better conditioned than the distance to the
	// rounded foot point when p is far from a.
	cr := (p.X-a.X)*dy - (p.Y-a.Y)*dx
	return math.Abs(cr) / math.Sqrt(l2)
}

// oracle returns the distance from p to the polygon boundary, whether p is
// enclosed (odd crossing number of the ray towards +x, half-open rule: an edge
// counts when exactly one endpoint has y <= p.y and p is strictly left of it),
// and whether p lies exactly on the boundary (then `inside` is meaningless).
func oracle(vs []v2.Vec, p v2.Vec) (dist float64, inside bool, onBoundary bool) {
	n := len(vs)
	dist = math.Inf(1)
	cross := 0
	for i := 0; i < n; i++ {
		a, b := vs[i], vs[(i+1)%n]
		if d := segDist(p, a, b); d < dist {
			dist = d
		}
		aLow, bLow := a.Y <= p.Y, b.Y <= p.Y
		if aLow == bLow {
			// no crossing; but p may still lie on a horizontal edge
			if a.Y == p.Y && b.Y == p.Y && inRange(p.X, a.X, b.X) {
				onBoundary = true
			}
			continue
		}
		// p.y is in the half-open y-range of the edge
		if p.X > math.Max(a.X, b.X) {
			continue // edge entirely left of p
		}
		var o int
		if aLow { // upward edge: crossing right of p iff p left of a->b
			o = orient(a, b, p)
		} else {
			o = orient(b, a, p)
		}
		if o == 0 {
			onBoundary = true
		} else if o > 0 {
			cross++
		}
	}
	return dist, cross%2 == 1, onBoundary
}
