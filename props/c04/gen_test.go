package c04

// Generators of simple polygons by construction (DESIGN C04 "G"). Every
// generated loop is re-verified with the exact predicates of oracle_test.go;
// loops that fail are discarded and counted by the caller.

import (
	"fmt"
	"math"
	"sort"

	"github.com/deadsy/sdfx/sdf"
	v2 "github.com/deadsy/sdfx/vec/v2"
	"pgregory.net/rapid"

	"verif/internal/g"
)

type poly struct {
	kind   string   // generator class
	coords string   // "grid" (exact ties) or "generic"
	vs     []v2.Vec // vertex loop, first != last
	notes  []string // extra labels
}

// sizeClass selects the vertex-count distribution.
type sizeClass int

const (
	sizeSmall sizeClass = iota // 3..14 mostly, some up to 40
	sizeLarge                  // 40..400
)

func drawN(t *rapid.T, sc sizeClass, lo int) int {
	if sc == sizeLarge {
		return rapid.IntRange(40, 400).Draw(t, "n")
	}
	if rapid.IntRange(0, 5).Draw(t, "n.big") == 0 {
		return rapid.IntRange(15, 40).Draw(t, "n")
	}
	return rapid.IntRange(lo, 14).Draw(t, "n")
}

// gridStep returns an exactly representable step (power of two times a small
// integer) so that grid coordinates, their sums and midpoints are exact.
func gridStep(t *rapid.T) float64 {
	return rapid.SampledFrom([]float64{0.125, 0.25, 0.5, 1, 2, 3, 8, 12.5, 25, 128}).Draw(t, "grid.step")
}

func sortedAngles(t *rapid.T, n int) []float64 {
	// jittered stratification: gaps stay below pi for n >= 4 and above ~0.05*2pi/n
	a := make([]float64, n)
	for i := range a {
		u := rapid.Float64Range(0.05, 0.95).Draw(t, fmt.Sprintf("ang%d", i))
		a[i] = 2 * math.Pi * (float64(i) + u) / float64(n)
	}
	return a
}

// genConvex: generic = points of an ellipse at sorted angles, rotated;
// grid = strict convex hull of random lattice points.
func genConvex(t *rapid.T, sc sizeClass) poly {
	n := drawN(t, sc, 3)
	if rapid.Bool().Draw(t, "grid") {
		q := gridStep(t)
		R := 8
		if n > 14 {
			R = 64
		}
		if n > 40 {
			R = 1024
		}
		pts := make([]v2.Vec, 0, n+4)
		if n > 40 {
			// lattice points near a circle give hulls with many vertices
			for i := 0; i < n; i++ {
				a := rapid.Float64Range(0, 2*math.Pi).Draw(t, fmt.Sprintf("ha%d", i))
				pts = append(pts, v2.Vec{X: math.Round(float64(R) * math.Cos(a)), Y: math.Round(float64(R) * math.Sin(a))})
			}
		} else {
			for i := 0; i < n+4; i++ {
				pts = append(pts, v2.Vec{X: float64(rapid.IntRange(-R, R).Draw(t, fmt.Sprintf("hx%d", i))), Y: float64(rapid.IntRange(-R, R).Draw(t, fmt.Sprintf("hy%d", i)))})
			}
		}
		h := hull(pts)
		for i := range h {
			h[i] = v2.Vec{X: h[i].X * q, Y: h[i].Y * q}
		}
		return poly{kind: "convex", coords: "grid", vs: h}
	}
	S := g.Length(t, "S", 1e-1, 1e3)
	rx := S
	ry := S * rapid.Float64Range(0.05, 1).Draw(t, "aspect")
	phi := g.Angle(t, "phi")
	c, s := math.Cos(phi), math.Sin(phi)
	as := sortedAngles(t, n)
	vs := make([]v2.Vec, n)
	for i, a := range as {
		x, y := rx*math.Cos(a), ry*math.Sin(a)
		vs[i] = v2.Vec{X: c*x - s*y, Y: s*x + c*y}
	}
	return poly{kind: "convex", coords: "generic", vs: vs}
}

// hull: Andrew's monotone chain, strict (collinear points dropped). Inputs are
// small integers, so the float cross product is exact.
func hull(pts []v2.Vec) []v2.Vec {
	p := append([]v2.Vec(nil), pts...)
	sort.Slice(p, func(i, j int) bool {
		if p[i].X != p[j].X {
			return p[i].X < p[j].X
		}
		return p[i].Y < p[j].Y
	})
	u := p[:0]
	for i, v := range p {
		if i == 0 || v != p[i-1] {
			u = append(u, v)
		}
	}
	p = u
	if len(p) < 3 {
		return p
	}
	var h []v2.Vec
	for _, v := range p {
		for len(h) >= 2 && orient(h[len(h)-2], h[len(h)-1], v) <= 0 {
			h = h[:len(h)-1]
		}
		h = append(h, v)
	}
	lower := len(h) + 1
	for i := len(p) - 2; i >= 0; i-- {
		v := p[i]
		for len(h) >= lower && orient(h[len(h)-2], h[len(h)-1], v) <= 0 {
			h = h[:len(h)-1]
		}
		h = append(h, v)
	}
	return h[:len(h)-1]
}

// genStar: star-shaped about the origin: sorted angles, random radii.
func genStar(t *rapid.T, sc sizeClass) poly {
	n := drawN(t, sc, 4)
	grid := rapid.Bool().Draw(t, "grid")
	S := g.Length(t, "S", 1e-1, 1e3)
	q := 1.0
	if grid {
		q = gridStep(t)
		S = q * float64(rapid.SampledFrom([]int{8, 16, 64, 256}).Draw(t, "grid.R"))
		if n > 40 {
			S = q * 4096
		}
	}
	rmin := rapid.SampledFrom([]float64{0.05, 0.3, 0.7}).Draw(t, "rmin")
	as := sortedAngles(t, n)
	vs := make([]v2.Vec, n)
	for i, a := range as {
		r := S * rapid.Float64Range(rmin, 1).Draw(t, fmt.Sprintf("r%d", i))
		x, y := r*math.Cos(a), r*math.Sin(a)
		if grid {
			x, y = math.Round(x/q)*q, math.Round(y/q)*q
		}
		vs[i] = v2.Vec{X: x, Y: y}
	}
	if grid {
		vs = dropRepeats(vs)
		return poly{kind: "star", coords: "grid", vs: vs}
	}
	return poly{kind: "star", coords: "generic", vs: vs}
}

func dropRepeats(vs []v2.Vec) []v2.Vec {
	out := vs[:0:0]
	for i, v := range vs {
		if i > 0 && v == out[len(out)-1] {
			continue
		}
		out = append(out, v)
	}
	for len(out) > 1 && out[0] == out[len(out)-1] {
		out = out[:len(out)-1]
	}
	return out
}

// genRect: x-monotone rectilinear polygon: columns [x_i,x_i+1] x [lo_i,hi_i]
// whose y-intervals overlap pairwise. Variants: histogram (flat bottom),
// staircase (lo and hi both non-decreasing), monotone (free). Equal
// neighbouring lo/hi leave collinear vertices on horizontal runs; more collinear
// vertices are inserted at edge midpoints.
func genRect(t *rapid.T, sc sizeClass) poly {
	k := 0
	if sc == sizeLarge {
		k = rapid.IntRange(10, 100).Draw(t, "cols")
	} else {
		k = rapid.IntRange(1, 6).Draw(t, "cols")
	}
	variant := rapid.SampledFrom([]string{"histogram", "staircase", "monotone"}).Draw(t, "variant")
	grid := rapid.IntRange(0, 2).Draw(t, "grid") > 0
	q := 1.0
	if grid {
		q = gridStep(t)
	} else {
		q = g.Length(t, "unit", 1e-2, 1e2)
	}
	num := func(label string, lo, hi int) float64 {
		if grid {
			return float64(rapid.IntRange(lo, hi).Draw(t, label)) * q
		}
		return rapid.Float64Range(float64(lo), float64(hi)).Draw(t, label) * q
	}
	xs := make([]float64, k+1)
	xs[0] = num("x0", -8, 8)
	for i := 1; i <= k; i++ {
		w := num(fmt.Sprintf("w%d", i), 1, 4)
		if !grid && w < 0.05*q {
			w = 0.05 * q
		}
		xs[i] = xs[i-1] + w
	}
	lo := make([]float64, k)
	hi := make([]float64, k)
	switch variant {
	case "histogram":
		base := num("base", -4, 4)
		for i := 0; i < k; i++ {
			lo[i] = base
			hi[i] = base + num(fmt.Sprintf("h%d", i), 1, 6)
		}
	case "staircase":
		y := num("base", -4, 4)
		for i := 0; i < k; i++ {
			lo[i] = y
			hi[i] = y + num(fmt.Sprintf("h%d", i), 3, 6) // next step rises < 3: intervals overlap
			y += num(fmt.Sprintf("s%d", i), 0, 2)
		}
		for i := 1; i < k; i++ { // hi non-decreasing too
			if hi[i] < hi[i-1] {
				hi[i] = hi[i-1]
			}
		}
	default:
		mid := num("base", -4, 4)
		for i := 0; i < k; i++ {
			lo[i] = mid - num(fmt.Sprintf("d%d", i), 0, 5)
			hi[i] = mid + q + num(fmt.Sprintf("h%d", i), 0, 5) // lo <= mid < mid+q <= hi
		}
	}
	var vs []v2.Vec
	for i := 0; i < k; i++ { // bottom chain, left to right
		vs = append(vs, v2.Vec{X: xs[i], Y: lo[i]}, v2.Vec{X: xs[i+1], Y: lo[i]})
	}
	for i := k - 1; i >= 0; i-- { // top chain, right to left
		vs = append(vs, v2.Vec{X: xs[i+1], Y: hi[i]}, v2.Vec{X: xs[i], Y: hi[i]})
	}
	vs = dropRepeats(vs)
	// extra collinear vertices: exact midpoint in the one coordinate that varies
	extra := rapid.IntRange(0, 4).Draw(t, "extra")
	for e := 0; e < extra && len(vs) >= 3; e++ {
		i := rapid.IntRange(0, len(vs)-1).Draw(t, fmt.Sprintf("extra%d", e))
		a, b := vs[i], vs[(i+1)%len(vs)]
		f := rapid.SampledFrom([]float64{0.5, 0.25, 0.75}).Draw(t, fmt.Sprintf("extraf%d", e))
		m := v2.Vec{X: a.X + f*(b.X-a.X), Y: a.Y + f*(b.Y-a.Y)}
		if a.X == b.X {
			m.X = a.X
		}
		if a.Y == b.Y {
			m.Y = a.Y
		}
		if m == a || m == b {
			continue
		}
		vs = append(vs[:i+1], append([]v2.Vec{m}, vs[i+1:]...)...)
	}
	c := "generic"
	if grid {
		c = "grid"
	}
	return poly{kind: "rect-" + variant, coords: c, vs: vs}
}

// genSliver: thin shapes: needle triangle, thin rotated rectangle, thin
// axis-aligned rectangle, flattened star.
func genSliver(t *rapid.T, sc sizeClass) poly {
	L := g.Length(t, "L", 1, 1e3)
	w := L * g.LogUniform(t, "thin", 1e-6, 1e-2)
	phi := g.Angle(t, "phi")
	c, s := math.Cos(phi), math.Sin(phi)
	rot := func(x, y float64) v2.Vec { return v2.Vec{X: c*x - s*y, Y: s*x + c*y} }
	shape := rapid.SampledFrom([]string{"needle", "thin-rect", "thin-aligned", "flat-star"}).Draw(t, "shape")
	if sc == sizeLarge {
		shape = "flat-star"
	}
	switch shape {
	case "needle":
		f := rapid.Float64Range(-0.2, 1.2).Draw(t, "apex")
		return poly{kind: "sliver-needle", coords: "generic", vs: []v2.Vec{rot(0, 0), rot(L, 0), rot(f*L, w)}}
	case "thin-rect":
		return poly{kind: "sliver-rect", coords: "generic", vs: []v2.Vec{rot(0, 0), rot(L, 0), rot(L, w), rot(0, w)}}
	case "thin-aligned":
		x0, y0 := g.Coord(t, "x0", 100), g.Coord(t, "y0", 100)
		return poly{kind: "sliver-aligned", coords: "generic", vs: []v2.Vec{{X: x0, Y: y0}, {X: x0 + L, Y: y0}, {X: x0 + L, Y: y0 + w}, {X: x0, Y: y0 + w}}}
	default:
		n := drawN(t, sc, 4)
		as := sortedAngles(t, n)
		k := w / L
		if k < 1e-4 {
			k = 1e-4
		}
		vs := make([]v2.Vec, n)
		for i, a := range as {
			r := L * rapid.Float64Range(0.3, 1).Draw(t, fmt.Sprintf("r%d", i))
			vs[i] = rot(r*math.Cos(a), k*r*math.Sin(a))
		}
		return poly{kind: "sliver-flat-star", coords: "generic", vs: vs}
	}
}

// genRegular: regular n-gons: by direct trigonometry, or as the library's own
// Nagon() vertex list (iterated rotation: vertices that should have y == 0 get
// y = a few 1e-16*r instead, i.e. vertex levels that almost coincide).
func genRegular(t *rapid.T, sc sizeClass) poly {
	n := drawN(t, sc, 3)
	r := g.Length(t, "r", 1e-1, 1e3)
	if rapid.Bool().Draw(t, "nagon") {
		vs := sdf.Nagon(n, r)
		return poly{kind: "regular-nagon", coords: "generic", vs: append([]v2.Vec(nil), vs...)}
	}
	ph := rapid.SampledFrom([]float64{0, math.Pi / 2, math.Pi / 4, 0.1}).Draw(t, "phase")
	vs := make([]v2.Vec, n)
	for i := range vs {
		a := ph + 2*math.Pi*float64(i)/float64(n)
		vs[i] = v2.Vec{X: r * math.Cos(a), Y: r * math.Sin(a)}
	}
	return poly{kind: "regular-trig", coords: "generic", vs: vs}
}

// genDiagonal: outlines with edges at exactly 45 degrees whose bounding box is a square with generic (not
// binary) coordinates: a right-angled isosceles triangle, a diamond, a square with its corners cut off.
// The quadtree's centre lines cross such an edge exactly at cell corners (the clipped pieces of the edge
// in diagonally adjacent cells meet in a corner). The x and y coordinates are the same floats, so the
// relations are exact; place() then only applies symmetries of the square, no translation.
func genDiagonal(t *rapid.T, sc sizeClass) poly {
	a := g.Coord(t, "a", 100)
	L := g.Length(t, "side", 1e-1, 1e3)
	b := a + L
	var vs []v2.Vec
	kind := rapid.SampledFrom([]string{"right-isosceles", "diamond", "chamfered-square", "right-isosceles"}).Draw(t, "diagonal-kind")
	switch kind {
	case "right-isosceles":
		vs = []v2.Vec{{X: a, Y: a}, {X: b, Y: a}, {X: a, Y: b}}
	case "diamond":
		c, r := a, L
		vs = []v2.Vec{{X: c + r, Y: c}, {X: c, Y: c + r}, {X: c - r, Y: c}, {X: c, Y: c - r}}
	default:
		d := L * g.F(0.05, 0.45).Draw(t, "chamfer")
		vs = []v2.Vec{{X: a + d, Y: a}, {X: b - d, Y: a}, {X: b, Y: a + d}, {X: b, Y: b - d}, {X: b - d, Y: b}, {X: a + d, Y: b}, {X: a, Y: b - d}, {X: a, Y: a + d}}
	}
	return poly{kind: "diagonal-" + kind, coords: "generic", vs: vs, notes: []string{"no-shift"}}
}

// place applies an exact symmetry of the square (so rectilinear stays
// rectilinear and x-monotone also becomes y-monotone), a translation, an
// orientation reversal and a rotation of the start vertex.
func place(t *rapid.T, p poly) poly {
	vs := append([]v2.Vec(nil), p.vs...)
	sym := rapid.IntRange(0, 7).Draw(t, "sym")
	for i, v := range vs {
		if sym&1 != 0 {
			v.X = -v.X
		}
		if sym&2 != 0 {
			v.Y = -v.Y
		}
		if sym&4 != 0 {
			v.X, v.Y = v.Y, v.X
		}
		vs[i] = v
	}
	var d v2.Vec
	shiftKind := rapid.IntRange(0, 3).Draw(t, "shift")
	for _, nn := range p.notes {
		if nn == "no-shift" {
			shiftKind = 0
		}
	}
	switch shiftKind {
	case 0: // none
	case 1: // lattice shift
		q := 0.25
		d = v2.Vec{X: q * float64(rapid.IntRange(-400, 400).Draw(t, "shift.x")), Y: q * float64(rapid.IntRange(-400, 400).Draw(t, "shift.y"))}
	default:
		d = v2.Vec{X: g.Coord(t, "shift.x", 1000), Y: g.Coord(t, "shift.y", 1000)}
	}
	if d.X != 0 || d.Y != 0 {
		for i := range vs {
			vs[i] = v2.Vec{X: vs[i].X + d.X, Y: vs[i].Y + d.Y}
		}
		p.notes = append(p.notes, "shifted")
	}
	if rapid.Bool().Draw(t, "reverse") {
		for i, j := 0, len(vs)-1; i < j; i, j = i+1, j-1 {
			vs[i], vs[j] = vs[j], vs[i]
		}
	}
	if len(vs) > 0 {
		k := rapid.IntRange(0, len(vs)-1).Draw(t, "start")
		vs = append(append([]v2.Vec(nil), vs[k:]...), vs[:k]...)
	}
	p.vs = vs
	return p
}

func genPolygon(t *rapid.T, sc sizeClass) poly {
	var p poly
	switch rapid.SampledFrom([]string{"convex", "star", "star", "rect", "rect", "sliver", "regular", "diagonal"}).Draw(t, "kind") {
	case "diagonal":
		p = genDiagonal(t, sc)
	case "convex":
		p = genConvex(t, sc)
	case "star":
		p = genStar(t, sc)
	case "rect":
		p = genRect(t, sc)
	case "sliver":
		p = genSliver(t, sc)
	default:
		p = genRegular(t, sc)
	}
	if rapid.IntRange(0, 4).Draw(t, "short-edge") == 0 {
		p = withShortEdge(t, p)
	}
	return place(t, p)
}

// withShortEdge gives the polygon one edge far shorter than its other edges (1e-12 .. 2e-9 long, below and
// around the library's geometric tolerance of 1e-9): a near-repeated vertex on a side (a finely sampled
// curve whose samples almost coincide somewhere) or a tiny chamfer that replaces a corner. The polygon
// stays simple (re-verified exactly by the caller) and every edge is a genuine edge of the outline.
func withShortEdge(t *rapid.T, p poly) poly {
	n := len(p.vs)
	if n < 3 {
		return p
	}
	i := rapid.IntRange(0, n-1).Draw(t, "short-edge.at")
	d := rapid.SampledFrom([]float64{1e-10, 3e-10, 9e-10, 1e-11, 1e-12, 2e-9, 5e-10}).Draw(t, "short-edge.length")
	a, b, prev := p.vs[i], p.vs[(i+1)%n], p.vs[(i+n-1)%n]
	toward := func(from, to v2.Vec, d float64) v2.Vec {
		l := math.Hypot(to.X-from.X, to.Y-from.Y)
		return v2.Vec{X: from.X + (to.X-from.X)*(d/l), Y: from.Y + (to.Y-from.Y)*(d/l)}
	}
	var ins []v2.Vec
	if rapid.Bool().Draw(t, "short-edge.chamfer") {
		// the corner a is cut off: prev -> a1 -> a2 -> b with |a1 a2| ~ d
		a1, a2 := toward(a, prev, d), toward(a, b, d)
		if a1 == a2 || a1 == prev || a2 == b {
			return p
		}
		ins = []v2.Vec{a1, a2}
		p.notes = append(p.notes, "short-edge:chamfer")
	} else {
		// a second vertex d away from a on the edge a -> b
		a2 := toward(a, b, d)
		if a2 == a || a2 == b {
			return p
		}
		if a.X == b.X {
			a2.X = a.X
		}
		if a.Y == b.Y {
			a2.Y = a.Y
		}
		ins = []v2.Vec{a, a2}
		p.notes = append(p.notes, "short-edge:near-repeated-vertex")
	}
	vs := append([]v2.Vec(nil), p.vs[:i]...)
	vs = append(vs, ins...)
	vs = append(vs, p.vs[i+1:]...)
	p.vs = vs
	return p
}
