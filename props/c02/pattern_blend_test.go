package c02

import (
	"fmt"
	"math"
	"testing"

	"github.com/deadsy/sdfx/sdf"
	v2 "github.com/deadsy/sdfx/vec/v2"
	v3 "github.com/deadsy/sdfx/vec/v3"
	"pgregory.net/rapid"

	"verif/internal/ev"
	"verif/internal/g"
	"verif/internal/shape"
)

// Arrays and rotate-unions are unions of copies and take a blend function like a union does
// (ArraySDF2/3.SetMin, RotateUnionSDF2/3.SetMin). The statement's blend clauses are checked in a form that
// does not depend on the order in which the copies are folded:
//
//	finite;  result <= min over copies (a point inside a copy stays inside);
//	PolyMin(k): result >= min - (copies-1)*k/4, and result == min once every other copy exceeds the
//	smallest by k + (copies-1)*k/4.
//
// The copies' values are the operand's own values at the points the array / rotation maps to (the
// reference interpreter's mapping, written from the constructors' documentation).
func TestPatternBlends(t *testing.T) {
	rec := ev.Get()
	rapid.Check(t, func(t *rapid.T) {
		S := rapid.SampledFrom([]float64{1, 10}).Draw(t, "scale")
		op := rapid.SampledFrom([]string{"array3", "rotunion3", "array2", "rotunion2"}).Draw(t, "pattern")
		dim3 := op == "array3" || op == "rotunion3"
		var kid *shape.Node
		if dim3 {
			kid = shape.GenExact3(t, S, rapid.IntRange(0, 1).Draw(t, "depth"))
		} else {
			kid = shape.GenExact2(t, S, rapid.IntRange(0, 1).Draw(t, "depth"))
		}
		n := &shape.Node{Op: op, K: []*shape.Node{kid}}
		step := func(l string) float64 {
			return g.Length(t, l, 0.2*S, 3*S) * float64(1-2*rapid.IntRange(0, 1).Draw(t, l+".neg"))
		}
		copies := 0
		switch op {
		case "array3":
			n.I = []int{rapid.IntRange(1, 3).Draw(t, "nx"), rapid.IntRange(1, 3).Draw(t, "ny"), rapid.IntRange(1, 2).Draw(t, "nz")}
			n.P = []float64{step("sx"), step("sy"), step("sz")}
			copies = n.I[0] * n.I[1] * n.I[2]
		case "array2":
			n.I = []int{rapid.IntRange(1, 4).Draw(t, "nx"), rapid.IntRange(1, 3).Draw(t, "ny")}
			n.P = []float64{step("sx"), step("sy")}
			copies = n.I[0] * n.I[1]
		default:
			n.I = []int{rapid.IntRange(1, 8).Draw(t, "n")}
			n.P = []float64{g.Angle(t, "theta")}
			copies = n.I[0]
		}
		b, err := shape.Build(n)
		if err != nil {
			rec.Count("discarded:constructor-rejected", 1)
			rec.Case(false, "", "discarded")
			return
		}
		blendName := rapid.SampledFrom([]string{"PolyMin", "PolyMin", "RoundMin", "ChamferMin", "ExpMin"}).Draw(t, "blend")
		k := g.LogUniform(t, "k", 1e-2*S, 2*S)
		if blendName == "ExpMin" {
			k = g.LogUniform(t, "k-exp", 1/S, 32/S)
		}
		bf := shape.MinBlend(blendName, k)
		var eval func(p [3]float64) float64
		var bbc, bbh [3]float64
		if dim3 {
			s := b.SDF3()
			switch x := s.(type) {
			case *sdf.ArraySDF3:
				x.SetMin(bf)
			case *sdf.RotateUnionSDF3:
				x.SetMin(bf)
			default:
				t.Fatalf("%s built a %T", op, s)
			}
			eval = func(p [3]float64) float64 { return s.Evaluate(v3.Vec{X: p[0], Y: p[1], Z: p[2]}) }
			bb := s.BoundingBox()
			bbc, bbh = [3]float64{bb.Center().X, bb.Center().Y, bb.Center().Z}, [3]float64{bb.Size().X, bb.Size().Y, bb.Size().Z}
		} else {
			s := b.SDF2()
			switch x := s.(type) {
			case *sdf.ArraySDF2:
				x.SetMin(bf)
			case *sdf.RotateUnionSDF2:
				x.SetMin(bf)
			default:
				t.Fatalf("%s built a %T", op, s)
			}
			eval = func(p [3]float64) float64 { return s.Evaluate(v2.Vec{X: p[0], Y: p[1]}) }
			bb := s.BoundingBox()
			bbc, bbh = [3]float64{bb.Center().X, bb.Center().Y, 0}, [3]float64{bb.Size().X, bb.Size().Y, 0}
		}
		// the values of the individual copies at p
		copyVals := func(p [3]float64) ([]float64, bool) {
			var out []float64
			allOK := true
			add := func(v float64, ok bool) { out = append(out, v); allOK = allOK && ok }
			rot := func(x, y, a float64) (float64, float64) {
				return x*math.Cos(a) - y*math.Sin(a), x*math.Sin(a) + y*math.Cos(a)
			}
			switch op {
			case "array3":
				for i := 0; i < n.I[0]; i++ {
					for j := 0; j < n.I[1]; j++ {
						for l := 0; l < n.I[2]; l++ {
							add(b.Ref3(kid, [3]float64{p[0] - float64(i)*n.P[0], p[1] - float64(j)*n.P[1], p[2] - float64(l)*n.P[2]}))
						}
					}
				}
			case "array2":
				for i := 0; i < n.I[0]; i++ {
					for j := 0; j < n.I[1]; j++ {
						add(b.Ref2(kid, [2]float64{p[0] - float64(i)*n.P[0], p[1] - float64(j)*n.P[1]}))
					}
				}
			case "rotunion3":
				for i := 0; i < n.I[0]; i++ {
					x, y := rot(p[0], p[1], -float64(i)*n.P[0])
					add(b.Ref3(kid, [3]float64{x, y, p[2]}))
				}
			default:
				for i := 0; i < n.I[0]; i++ {
					x, y := rot(p[0], p[1], -float64(i)*n.P[0])
					add(b.Ref2(kid, [2]float64{x, y}))
				}
			}
			return out, allOK
		}
		active, inactive := 0, 0
		npts := rapid.IntRange(30, 80).Draw(t, "npts")
		for j := 0; j < npts; j++ {
			l := fmt.Sprintf("p%d", j)
			var p [3]float64
			for a := 0; a < 3; a++ {
				p[a] = bbc[a] + g.F(-1, 1).Draw(t, fmt.Sprintf("%s.%d", l, a))*bbh[a]*0.8
			}
			vals, ok := copyVals(p)
			if !ok {
				continue
			}
			min, second := math.Inf(1), math.Inf(1)
			for _, v := range vals {
				if v < min {
					min, second = v, min
				} else if v < second {
					second = v
				}
			}
			got := eval(p)
			tol := 1e-9 * (S + math.Abs(min))
			desc := func() string {
				return fmt.Sprintf("%s with SetMin(%s(%v)), %d copies, p=%v: copies %v", n, blendName, k, copies, p, vals)
			}
			if math.IsNaN(got) || math.IsInf(got, 0) {
				rec.Violation(t, "C02:"+op+":blend:not-finite", "%s: Evaluate = %v", desc(), got)
				continue
			}
			if got > min+tol {
				rec.Violation(t, "C02:"+op+":blend:result>min", "%s: Evaluate = %v exceeds the minimum over the copies %v", desc(), got, min)
			}
			if blendName == "PolyMin" {
				if got < min-float64(copies-1)*k/4-tol {
					rec.Violation(t, "C02:"+op+":blend:fillet-exceeds-k/4-per-copy", "%s: Evaluate = %v, minimum %v", desc(), got, min)
				}
				// (the other copies are folded among themselves first and may come down by k/4 per fold
				// step before they meet the smallest one)
				if second-min >= k*(1+float64(copies-1)/4)+tol {
					inactive++
					if math.Abs(got-min) > tol {
						rec.Violation(t, "C02:"+op+":blend:active-although-copies-differ-by-k", "%s: Evaluate = %v, minimum %v, next copy %v", desc(), got, min, second)
					}
				} else {
					active++
				}
			}
		}
		rec.Case(copies > 1, ev.Key(n.String(), blendName, k), "pattern-blend:"+op, "pattern-blend:"+blendName, fmt.Sprintf("pattern-blend:copies>1=%v", copies > 1))
		rec.Add("pattern-blend:points-with-active-blend", int64(active))
		rec.Add("pattern-blend:points-with-inactive-blend", int64(inactive))
		rec.Sample("pattern-blend:"+op, map[string]any{"program": n.String(), "blend": blendName, "k": k, "copies": copies})
	})
}
