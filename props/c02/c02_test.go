package c02

import (
	"fmt"
	"math"
	"sort"
	"testing"

	"github.com/deadsy/sdfx/sdf"
	v2 "github.com/deadsy/sdfx/vec/v2"
	v3 "github.com/deadsy/sdfx/vec/v3"
	"pgregory.net/rapid"

	"verif/internal/ev"
	"verif/internal/g"
	"verif/internal/shape"
)

func TestMain(m *testing.M) { ev.Main(m) }

// paramPool collects numbers of the program that mark seams (heights, steps, offsets ...).
func paramPool(n *shape.Node) []float64 {
	pool := []float64{0}
	n.Walk(func(x *shape.Node) {
		for _, p := range x.P {
			if math.Abs(p) < 1e6 {
				pool = append(pool, p, -p, p/2, -p/2)
			}
		}
	})
	return pool
}

func tolFor(p []float64, size, val float64) float64 {
	m := size + math.Abs(val)
	for _, x := range p {
		m += math.Abs(x)
	}
	return 1e-9 * (1 + m)
}

// culprit re-evaluates the failing point with a trace and returns the violation
// key of the bottom-most node whose BUILT object disagrees with the reference
// at the point the reference mapped to it.
func culprit(b *shape.Built, q [3]float64, size float64) (string, string) {
	for _, e := range b.Trace(q) {
		if !e.OK || e.N.IsLeaf() {
			continue
		}
		got := b.EvalNode(e.N, e.P)
		if math.Abs(got-e.Val) <= tolFor(e.P[:], size, e.Val) || (math.IsNaN(got) && math.IsNaN(e.Val)) {
			continue
		}
		detail := fmt.Sprintf("sub-program %s at mapped point %v: Evaluate=%v reference=%v", e.N, e.P, got, e.Val)
		if (e.N.Op == "union2" && e.N.S == "") || e.N.Op == "multi2" || e.N.Op == "lineof2" {
			// the 2D union (also behind Multi2D / LineOf2D) prunes operands by bounding-box distance:
			// recognise the class "a dropped operand would have been the minimum; inside/outside unaffected"
			var kidVals []float64
			switch e.N.Op {
			case "union2":
				for _, k := range e.N.K {
					kidVals = append(kidVals, b.EvalNode(k, e.P))
				}
			case "multi2":
				for i := 0; i+1 < len(e.N.P); i += 2 {
					kidVals = append(kidVals, b.EvalNode(e.N.K[0], [3]float64{e.P[0] - e.N.P[i], e.P[1] - e.N.P[i+1], 0}))
				}
			default:
				m := float64(len(e.N.S))
				for i, c := range e.N.S {
					if c == 'x' {
						f := float64(i) / m
						kidVals = append(kidVals, b.EvalNode(e.N.K[0], [3]float64{e.P[0] - (e.N.P[0] + f*(e.N.P[2]-e.N.P[0])), e.P[1] - (e.N.P[1] + f*(e.N.P[3]-e.N.P[1])), 0}))
					}
				}
			}
			isKid := false
			for _, kv := range kidVals {
				if math.Abs(kv-got) <= tolFor(e.P[:], size, kv) {
					isKid = true
				}
			}
			if isKid && got >= e.Val && (got < 0) == (e.Val < 0) {
				return "Union2D:pruned-value-overestimates", detail
			}
		}
		return "C02:" + e.N.Op, detail
	}
	return "C02:" + b.Root.Op + ":unlocalised", ""
}

func q3(q []float64) float64 {
	if len(q) > 2 {
		return q[2]
	}
	return 0
}

func opLabels(n *shape.Node) []string {
	var ls []string
	for op := range n.Ops() {
		ls = append(ls, "op:"+op)
	}
	sort.Strings(ls)
	return ls
}

func depthFor() int { return ev.Pick(3, 4) }

func TestRefAgreement3(t *testing.T) {
	rec := ev.Get()
	rapid.Check(t, func(t *rapid.T) {
		S := rapid.SampledFrom([]float64{1, 10, 100}).Draw(t, "scale")
		n := shape.Gen3(t, shape.Opts{S: S, Depth: rapid.IntRange(1, depthFor()).Draw(t, "depth"), Grammar: shape.Full, Special: true, NoText: true, UniformRoot: rapid.Bool().Draw(t, "uniform-root")})
		b, err := shape.Build(n)
		if err != nil {
			if _, ok := err.(shape.ErrDomain); ok {
				rec.Count("discarded:constructor-rejected", 1)
				rec.Case(false, "", "discarded")
				return
			}
			t.Fatalf("build: %v", err)
		}
		if n.Has("slice2") {
			n.Walk(func(x *shape.Node) {
				if x.Op == "slice2" {
					if e := b.SliceFrameError(x); e != nil {
						rec.Violation(t, "Slice2D:frame", "%s: %v", x, e)
					}
				}
			})
		}
		s := b.SDF3()
		bb := s.BoundingBox()
		if !shape.Finite(bb.Min.X, bb.Min.Y, bb.Min.Z, bb.Max.X, bb.Max.Y, bb.Max.Z) {
			rec.Count("discarded:non-finite-box", 1)
			rec.Case(false, "", "discarded")
			return
		}
		pool := paramPool(n)
		c, h := bb.Center(), bb.Size().MulScalar(0.5).AddScalar(0.05*S)
		npts := rapid.IntRange(30, 120).Draw(t, "npts")
		neg, pos, skipped := 0, 0, 0
		for i := 0; i < npts; i++ {
			var q [3]float64
			cc := [3]float64{c.X, c.Y, c.Z}
			hh := [3]float64{h.X, h.Y, h.Z}
			far := rapid.IntRange(0, 9).Draw(t, fmt.Sprintf("far%d", i)) == 0
			for a := 0; a < 3; a++ {
				l := fmt.Sprintf("p%d.%d", i, a)
				if rapid.IntRange(0, 3).Draw(t, l+".k") == 0 {
					q[a] = rapid.SampledFrom(pool).Draw(t, l+".pool")
				} else {
					w := 1.3
					if far {
						w = 6
					}
					q[a] = cc[a] + g.F(-w, w).Draw(t, l)*hh[a]
				}
			}
			want, ok := b.Ref3(n, q)
			if !ok {
				skipped++
				continue
			}
			got := s.Evaluate(v3.Vec{X: q[0], Y: q[1], Z: q[2]})
			if math.IsNaN(want) && math.IsNaN(got) {
				skipped++
				continue
			}
			if got < 0 {
				neg++
			} else {
				pos++
			}
			if !(math.Abs(got-want) <= tolFor(q[:], h.Length(), want)) {
				key, detail := culprit(b, [3]float64{q[0], q[1], q3(q[:])}, h.Length())
				rec.Violation(t, key, "program %s at p=%v: Evaluate=%v reference=%v; %s", n, q, got, want, detail)
			}
		}
		rec.Add("points", int64(neg+pos))
		rec.Add("points-on-unstable-seam-skipped", int64(skipped))
		nt := n.Combinators() >= 1 && neg > 0 && pos > 0
		ls := append(opLabels(n), fmt.Sprintf("depth3=%d", n.Size()))
		rec.Case(nt, n.String(), ls...)
		rec.Sample("program3", map[string]any{"program": n.String(), "points": npts, "negative": neg, "positive": pos})
	})
}

func TestRefAgreement2(t *testing.T) {
	rec := ev.Get()
	rapid.Check(t, func(t *rapid.T) {
		S := rapid.SampledFrom([]float64{1, 10, 100}).Draw(t, "scale")
		n := shape.Gen2(t, shape.Opts{S: S, Depth: rapid.IntRange(1, depthFor()).Draw(t, "depth"), Grammar: shape.Full, Special: true, NoText: true, UniformRoot: rapid.Bool().Draw(t, "uniform-root")})
		b, err := shape.Build(n)
		if err != nil {
			if _, ok := err.(shape.ErrDomain); ok {
				rec.Count("discarded:constructor-rejected", 1)
				rec.Case(false, "", "discarded")
				return
			}
			t.Fatalf("build: %v", err)
		}
		n.Walk(func(x *shape.Node) {
			if x.Op == "slice2" {
				if e := b.SliceFrameError(x); e != nil {
					rec.Violation(t, "Slice2D:frame", "%s: %v", x, e)
				}
			}
		})
		s := b.SDF2()
		bb := s.BoundingBox()
		if !shape.Finite(bb.Min.X, bb.Min.Y, bb.Max.X, bb.Max.Y) {
			rec.Count("discarded:non-finite-box", 1)
			rec.Case(false, "", "discarded")
			return
		}
		pool := paramPool(n)
		c, h := bb.Center(), bb.Size().MulScalar(0.5).AddScalar(0.05*S)
		npts := rapid.IntRange(30, 120).Draw(t, "npts")
		neg, pos, skipped := 0, 0, 0
		for i := 0; i < npts; i++ {
			var q [2]float64
			cc := [2]float64{c.X, c.Y}
			hh := [2]float64{h.X, h.Y}
			for a := 0; a < 2; a++ {
				l := fmt.Sprintf("p%d.%d", i, a)
				if rapid.IntRange(0, 3).Draw(t, l+".k") == 0 {
					q[a] = rapid.SampledFrom(pool).Draw(t, l+".pool")
				} else {
					q[a] = cc[a] + g.F(-1.5, 1.5).Draw(t, l)*hh[a]
				}
			}
			want, ok := b.Ref2(n, q)
			if !ok {
				skipped++
				continue
			}
			got := s.Evaluate(v2.Vec{X: q[0], Y: q[1]})
			if math.IsNaN(want) && math.IsNaN(got) {
				skipped++
				continue
			}
			if got < 0 {
				neg++
			} else {
				pos++
			}
			if !(math.Abs(got-want) <= tolFor(q[:], h.Length(), want)) {
				key, detail := culprit(b, [3]float64{q[0], q[1], q3(q[:])}, h.Length())
				rec.Violation(t, key, "program %s at p=%v: Evaluate=%v reference=%v; %s", n, q, got, want, detail)
			}
		}
		rec.Add("points", int64(neg+pos))
		rec.Add("points-on-unstable-seam-skipped", int64(skipped))
		nt := n.Combinators() >= 1 && neg > 0 && pos > 0
		rec.Case(nt, n.String(), opLabels(n)...)
		rec.Sample("program2", map[string]any{"program": n.String(), "points": npts, "negative": neg, "positive": pos})
	})
}

// ---------------------------------------------------------------------------
// blend laws (function level)

type minCtor struct {
	name string
	f    func(k float64) sdf.MinFunc
}

func drawAB(t *rapid.T, k float64) (float64, float64, string) {
	val := func(l string) float64 {
		m := g.LogUniform(t, l+".m", 1e-4, 1e3) * k
		if rapid.Bool().Draw(t, l+".neg") {
			m = -m
		}
		return m
	}
	a := val("a")
	switch rapid.IntRange(0, 5).Draw(t, "rel") {
	case 0:
		return a, a, "a=b"
	case 1:
		return a, a + k, "|a-b|=k"
	case 2:
		return a, a - k, "|a-b|=k"
	case 3:
		return a, a + g.F(-1, 1).Draw(t, "d")*k, "|a-b|<k"
	case 4:
		return 0, val("b"), "a=0"
	default:
		return a, val("b"), "generic"
	}
}

func TestBlendLaws(t *testing.T) {
	rec := ev.Get()
	mins := []minCtor{{"PolyMin", sdf.PolyMin}, {"RoundMin", sdf.RoundMin}, {"ChamferMin", sdf.ChamferMin}, {"ExpMin", sdf.ExpMin}, {"PowMin", sdf.PowMin}}
	rapid.Check(t, func(t *rapid.T) {
		mc := rapid.SampledFrom(mins).Draw(t, "blend")
		k := g.LogUniform(t, "k", 1e-3, 1e3)
		a, b, rel := drawAB(t, k)
		if mc.name == "ExpMin" {
			// the exponential form is only meaningful while exp(-k*x) neither overflows nor underflows
			if k*math.Max(math.Abs(a), math.Abs(b)) > 600 {
				rec.Count("excluded:ExpMin-exp-range", 1)
				rec.Case(false, "", "blend:ExpMin:excluded")
				return
			}
		}
		if mc.name == "PowMin" {
			k = float64(rapid.IntRange(2, 12).Draw(t, "powk"))
		}
		f := mc.f(k)
		m := f(a, b)
		mn := math.Min(a, b)
		tol := 1e-12 * (math.Abs(a) + math.Abs(b) + k)
		mixed := (a < 0) != (b < 0)
		rec.Case(mixed || rel != "generic", ev.Key(mc.name, k, a, b), "blend:"+mc.name, "blend-rel:"+rel)
		rec.Sample("blend:"+mc.name, map[string]any{"blend": mc.name, "k": k, "a": a, "b": b, "result": m, "min": mn})
		key := mc.name
		if !(m <= mn+tol) {
			what := "result>min"
			if mn < 0 && !(m < 0) {
				what = "inside-becomes-outside"
			}
			rec.Violation(t, key+":"+what, "%s(%v)(%v,%v)=%v > min %v", mc.name, k, a, b, m, mn)
			return
		}
		if m2 := f(b, a); !(math.Abs(m2-m) <= tol) {
			rec.Violation(t, key+":not-symmetric", "%s(%v): f(%v,%v)=%v f(b,a)=%v", mc.name, k, a, b, m, m2)
		}
		if mc.name == "PolyMin" {
			if !(m >= mn-k/4-tol) {
				rec.Violation(t, "PolyMin:below-min-k/4", "PolyMin(%v)(%v,%v)=%v < min-k/4=%v", k, a, b, m, mn-k/4)
			}
			if math.Abs(a-b) >= k && !(math.Abs(m-mn) <= tol) {
				rec.Violation(t, "PolyMin:not-min-beyond-k", "PolyMin(%v)(%v,%v)=%v, operands differ by >= k so expected min %v", k, a, b, m, mn)
			}
			// PolyMax is the mirror image
			M := sdf.PolyMax(k)(a, b)
			if !(math.Abs(M-(-sdf.PolyMin(k)(-a, -b))) <= tol) {
				rec.Violation(t, "PolyMax:not-mirror", "PolyMax(%v)(%v,%v)=%v, -PolyMin(-a,-b)=%v", k, a, b, M, -sdf.PolyMin(k)(-a, -b))
			}
			mx := math.Max(a, b)
			if !(M >= mx-tol && M <= mx+k/4+tol) {
				rec.Violation(t, "PolyMax:bounds", "PolyMax(%v)(%v,%v)=%v not in [max, max+k/4] = [%v,%v]", k, a, b, M, mx, mx+k/4)
			}
			if math.Abs(a-b) >= k && !(math.Abs(M-mx) <= tol) {
				rec.Violation(t, "PolyMax:not-max-beyond-k", "PolyMax(%v)(%v,%v)=%v expected max %v", k, a, b, M, mx)
			}
		}
	})
}

// shape level: a point inside an operand stays inside the blended union.
func TestBlendShape(t *testing.T) {
	rec := ev.Get()
	rapid.Check(t, func(t *rapid.T) {
		S := rapid.SampledFrom([]float64{1, 10}).Draw(t, "scale")
		o := shape.Opts{S: S, Depth: 1, Grammar: shape.Lipschitz}
		nk := rapid.IntRange(2, 4).Draw(t, "n")
		kids := make([]*shape.Node, nk)
		for i := range kids {
			kids[i] = shape.Gen3(t, o)
		}
		name := rapid.SampledFrom([]string{"PolyMin", "RoundMin", "ChamferMin", "ExpMin"}).Draw(t, "blend")
		k := g.LogUniform(t, "k", 1e-3*S, S)
		if name == "ExpMin" {
			k = g.LogUniform(t, "ke", 1/S, 32/S)
		}
		root := &shape.Node{Op: "union3", K: kids, S: name, P: []float64{k}}
		b, err := shape.Build(root)
		if err != nil {
			rec.Count("discarded:constructor-rejected", 1)
			rec.Case(false, "", "discarded")
			return
		}
		s := b.SDF3()
		inside := 0
		for i := 0; i < 60; i++ {
			j := rapid.IntRange(0, nk-1).Draw(t, fmt.Sprintf("op%d", i))
			kb := b.S3[kids[j]].BoundingBox()
			c, h := kb.Center(), kb.Size().MulScalar(0.5)
			p := v3.Vec{X: c.X + g.F(-1, 1).Draw(t, fmt.Sprintf("x%d", i))*h.X,
				Y: c.Y + g.F(-1, 1).Draw(t, fmt.Sprintf("y%d", i))*h.Y,
				Z: c.Z + g.F(-1, 1).Draw(t, fmt.Sprintf("z%d", i))*h.Z}
			mn := math.Inf(1)
			for _, kd := range kids {
				mn = math.Min(mn, b.S3[kd].Evaluate(p))
			}
			if name == "ExpMin" && k*math.Abs(mn) > 600 {
				continue
			}
			if mn < -1e-9*S {
				inside++
				if v := s.Evaluate(p); !(v < 0) {
					rec.Violation(t, name+":shape:inside-becomes-outside", "%s p=%v: an operand has value %v but blended union has %v", root, p, mn, v)
				}
			}
			if v := s.Evaluate(p); !(v <= mn+1e-9*(S+math.Abs(mn))) {
				rec.Violation(t, name+":shape:result>min", "%s p=%v: min of operands %v, blended union %v", root, p, mn, v)
			}
		}
		rec.Case(inside > 0, root.String(), "blendshape:"+name)
		rec.Sample("blendshape:"+name, map[string]any{"program": root.String(), "inside_points": inside})
	})
}

// ---------------------------------------------------------------------------
// caches

func TestCacheHistory(t *testing.T) {
	rec := ev.Get()
	rapid.Check(t, func(t *rapid.T) {
		S := rapid.SampledFrom([]float64{1, 10}).Draw(t, "scale")
		n := shape.Gen2(t, shape.Opts{S: S, Depth: rapid.IntRange(0, 2).Draw(t, "depth"), Grammar: shape.Lipschitz})
		b, err := shape.Build(n)
		if err != nil {
			rec.Count("discarded:constructor-rejected", 1)
			rec.Case(false, "", "discarded")
			return
		}
		s := b.SDF2()
		c := sdf.Cache2D(s)
		bb := s.BoundingBox()
		var hist []v2.Vec
		repeats, zeros, neighbours := 0, 0, 0
		t.Repeat(map[string]func(*rapid.T){
			"fresh": func(t *rapid.T) {
				cc, h := bb.Center(), bb.Size()
				p := v2.Vec{X: cc.X + g.F(-1, 1).Draw(t, "x")*h.X, Y: cc.Y + g.F(-1, 1).Draw(t, "y")*h.Y}
				hist = append(hist, p)
			},
			// points a zero-valued field of the cache would stand for: the origin, points on an axis, -0
			"zero-coordinates": func(t *rapid.T) {
				cc, h := bb.Center(), bb.Size()
				p := v2.Vec{}
				switch rapid.IntRange(0, 3).Draw(t, "which") {
				case 1:
					p.X = cc.X + g.F(-1, 1).Draw(t, "x")*h.X
				case 2:
					p.Y = cc.Y + g.F(-1, 1).Draw(t, "y")*h.Y
				case 3:
					p = v2.Vec{X: math.Copysign(0, -1), Y: 0}
				}
				hist = append(hist, p)
			},
			"repeat": func(t *rapid.T) {
				if len(hist) == 0 {
					t.Skip("empty history")
				}
				hist = append(hist, hist[rapid.IntRange(0, len(hist)-1).Draw(t, "i")])
				repeats++
			},
			"neighbour": func(t *rapid.T) {
				// a point a few units in the last place (or a relative 1e-12..1e-6) away from an earlier
				// query, or an earlier query with its coordinates swapped / one of them negated: distinct
				// points that a lossy cache key would identify
				if len(hist) == 0 {
					t.Skip("empty history")
				}
				p := hist[rapid.IntRange(0, len(hist)-1).Draw(t, "i")]
				nudge := func(x float64, l string) float64 {
					switch rapid.IntRange(0, 2).Draw(t, l+".how") {
					case 0:
						return g.Ulp(x, rapid.IntRange(-4, 4).Draw(t, l+".ulps"))
					case 1:
						return x * (1 + g.LogUniform(t, l+".rel", 1e-12, 1e-6)*float64(1-2*rapid.IntRange(0, 1).Draw(t, l+".sign")))
					}
					return x
				}
				switch rapid.IntRange(0, 3).Draw(t, "kind") {
				case 0:
					p = v2.Vec{X: nudge(p.X, "x"), Y: nudge(p.Y, "y")}
				case 1:
					p = v2.Vec{X: p.Y, Y: p.X}
				case 2:
					p = v2.Vec{X: -p.X, Y: p.Y}
				default:
					p = v2.Vec{X: p.X, Y: -p.Y}
				}
				hist = append(hist, p)
				neighbours++
			},
			"zero": func(t *rapid.T) {
				z := []float64{0, math.Copysign(0, -1)}
				p := v2.Vec{X: rapid.SampledFrom(z).Draw(t, "x"), Y: rapid.SampledFrom(z).Draw(t, "y")}
				if rapid.Bool().Draw(t, "offaxis") {
					p.X = g.F(-1, 1).Draw(t, "xx") * S
				}
				hist = append(hist, p)
				zeros++
			},
			"": func(t *rapid.T) {
				if len(hist) == 0 {
					return
				}
				p := hist[len(hist)-1]
				want := s.Evaluate(p)
				got := c.Evaluate(p)
				if !(math.Abs(got-want) <= 1e-12*(1+math.Abs(want))) {
					rec.Violation(t, "Cache2D:value", "%s: history of %d queries, p=%v: cache %v wrapped %v", n, len(hist), p, got, want)
				}
				if cb := c.BoundingBox(); cb != bb {
					rec.Violation(t, "Cache2D:box", "cache box %v wrapped %v", cb, bb)
				}
			},
		})
		rec.Case(repeats > 0, ev.Key(n.String(), len(hist), repeats, zeros, neighbours), "cache", fmt.Sprintf("cache:near-duplicate-queries=%v", neighbours > 0))
		rec.Sample("cache", map[string]any{"program": n.String(), "queries": len(hist), "repeats": repeats, "signed_zero_queries": zeros})
	})
}

type recorder struct {
	s   sdf.SDF3
	pts []v3.Vec
}

func (r *recorder) Evaluate(p v3.Vec) float64 { r.pts = append(r.pts, p); return r.s.Evaluate(p) }
func (r *recorder) BoundingBox() sdf.Box3     { return r.s.BoundingBox() }

func uniq(xs []float64) []float64 {
	sort.Float64s(xs)
	out := xs[:0]
	for i, x := range xs {
		if i == 0 || x != xs[i-1] {
			out = append(out, x)
		}
	}
	return out
}

func TestVoxel(t *testing.T) {
	rec := ev.Get()
	rapid.Check(t, func(t *rapid.T) {
		S := rapid.SampledFrom([]float64{1, 10}).Draw(t, "scale")
		n := shape.Gen3(t, shape.Opts{S: S, Depth: rapid.IntRange(0, 2).Draw(t, "depth"), Grammar: shape.Lipschitz})
		b, err := shape.Build(n)
		if err != nil {
			rec.Count("discarded:constructor-rejected", 1)
			rec.Case(false, "", "discarded")
			return
		}
		s := b.SDF3()
		bb := s.BoundingBox()
		sz := bb.Size()
		cells := rapid.IntRange(2, 12).Draw(t, "cells")
		// every axis must hold at least one voxel
		if math.Min(sz.X, math.Min(sz.Y, sz.Z)) < 1.01*sz.MaxComponent()/float64(cells) {
			rec.Count("discarded:box-thinner-than-a-voxel", 1)
			rec.Case(false, "", "discarded")
			return
		}
		r := &recorder{s: s}
		vx := sdf.NewVoxelSDF3(r, cells, nil)
		corners := r.pts
		var xs, ys, zs []float64
		val := map[v3.Vec]float64{}
		for _, p := range corners {
			xs, ys, zs = append(xs, p.X), append(ys, p.Y), append(zs, p.Z)
			val[p] = s.Evaluate(p)
		}
		xs, ys, zs = uniq(xs), uniq(ys), uniq(zs)
		if len(xs)*len(ys)*len(zs) != len(val) {
			t.Fatalf("recorded corners do not form a lattice: %d x %d x %d vs %d", len(xs), len(ys), len(zs), len(val))
		}
		scale := sz.Length()
		// corners: skip the max faces (the trilinear cell lookup there reads a neighbour cell that does not exist; p == bb.Max is the boundary of the domain)
		for _, p := range corners {
			if p.X >= xs[len(xs)-1] || p.Y >= ys[len(ys)-1] || p.Z >= zs[len(zs)-1] {
				continue
			}
			got, want := vx.Evaluate(p), val[p]
			if !(math.Abs(got-want) <= 1e-9*(scale+math.Abs(want))) {
				rec.Violation(t, "VoxelSDF3:corner", "%s cells %d corner %v: voxel %v wrapped %v", n, cells, p, got, want)
			}
		}
		cell := func(cs []float64, x float64) int {
			i := sort.SearchFloat64s(cs, x)
			if i < len(cs) && cs[i] == x {
				return i
			}
			return i - 1
		}
		for i := 0; i < 40; i++ {
			p := v3.Vec{X: bb.Min.X + g.F(0.001, 0.999).Draw(t, fmt.Sprintf("x%d", i))*sz.X,
				Y: bb.Min.Y + g.F(0.001, 0.999).Draw(t, fmt.Sprintf("y%d", i))*sz.Y,
				Z: bb.Min.Z + g.F(0.001, 0.999).Draw(t, fmt.Sprintf("z%d", i))*sz.Z}
			ix, iy, iz := cell(xs, p.X), cell(ys, p.Y), cell(zs, p.Z)
			if ix < 0 || iy < 0 || iz < 0 || ix+1 >= len(xs) || iy+1 >= len(ys) || iz+1 >= len(zs) {
				continue
			}
			// within 1e-9 of a cell face the library may pick the neighbouring cell: take both
			lo, hi := math.Inf(1), math.Inf(-1)
			for dx := -1; dx <= 2; dx++ {
				for dy := -1; dy <= 2; dy++ {
					for dz := -1; dz <= 2; dz++ {
						jx, jy, jz := ix+dx, iy+dy, iz+dz
						if jx < 0 || jy < 0 || jz < 0 || jx >= len(xs) || jy >= len(ys) || jz >= len(zs) {
							continue
						}
						near := func(cs []float64, j int, x float64, d int) bool {
							if d == 0 || d == 1 {
								return true
							}
							return math.Abs(cs[j]-x) <= 1e-9*scale || (d == -1 && math.Abs(cs[j+1]-x) <= 1e-9*scale) || (d == 2 && math.Abs(cs[j-1]-x) <= 1e-9*scale)
						}
						if !near(xs, jx, p.X, dx) || !near(ys, jy, p.Y, dy) || !near(zs, jz, p.Z, dz) {
							continue
						}
						v := val[v3.Vec{X: xs[jx], Y: ys[jy], Z: zs[jz]}]
						lo, hi = math.Min(lo, v), math.Max(hi, v)
					}
				}
			}
			got := vx.Evaluate(p)
			tol := 1e-9 * (scale + math.Abs(lo) + math.Abs(hi))
			if !(got >= lo-tol && got <= hi+tol) {
				rec.Violation(t, "VoxelSDF3:cell-range", "%s cells %d p %v: voxel %v outside corner range [%v,%v]", n, cells, p, got, lo, hi)
			}
		}
		if vb := vx.BoundingBox(); vb != bb {
			rec.Violation(t, "VoxelSDF3:box", "voxel box %v wrapped %v", vb, bb)
		}
		rec.Case(len(corners) >= 27, ev.Key(n.String(), cells), "voxel", fmt.Sprintf("voxel:lattice=%dx%dx%d", len(xs), len(ys), len(zs)))
		rec.Sample("voxel", map[string]any{"program": n.String(), "cells": cells, "lattice": []int{len(xs), len(ys), len(zs)}})
	})
}

// ---------------------------------------------------------------------------
// nil handling and regression cases

func TestRegress(t *testing.T) {
	rec := ev.Get()
	s3, _ := sdf.Sphere3D(1)
	c2, _ := sdf.Circle2D(1)
	check := func(name string, ok bool) {
		rec.Case(true, "nil:"+name, "regress")
		if !ok {
			rec.FailCase(t, "TestRegress", "C02:nil-handling", name, "nil handling: %s", name)
		}
	}
	check("Union3D(nil,s)==s", sdf.Union3D(nil, s3) == s3)
	check("Union3D(s)==s", sdf.Union3D(s3) == s3)
	check("Union3D()==nil", sdf.Union3D() == nil)
	check("Union3D(nil,nil)==nil", sdf.Union3D(nil, nil) == nil)
	check("Difference3D(s,nil)==s", sdf.Difference3D(s3, nil) == s3)
	check("Difference3D(nil,s)==nil", sdf.Difference3D(nil, s3) == nil)
	check("Intersect3D(nil,s)==nil", sdf.Intersect3D(nil, s3) == nil)
	check("Intersect3D(s,nil)==nil", sdf.Intersect3D(s3, nil) == nil)
	check("Union2D(nil,s)==s", sdf.Union2D(nil, c2) == c2)
	check("Union2D(s)==s", sdf.Union2D(c2) == c2)
	check("Union2D()==nil", sdf.Union2D() == nil)
	check("Difference2D(s,nil)==s", sdf.Difference2D(c2, nil) == c2)
	check("Difference2D(nil,s)==nil", sdf.Difference2D(nil, c2) == nil)
	check("Intersect2D(nil,s)==nil", sdf.Intersect2D(nil, c2) == nil)
	check("Intersect2D(s,nil)==nil", sdf.Intersect2D(c2, nil) == nil)
	// PowMin: a point inside an operand must stay inside
	{
		rec.Case(true, "powmin", "regress")
		if v := sdf.PowMin(8)(-0.5, 2); !(v < 0) {
			rec.FailCase(t, "TestRegress", "PowMin:inside-becomes-outside", map[string]any{"k": 8, "a": -0.5, "b": 2}, "PowMin(8)(-0.5,2)=%v: a point inside an operand is reported outside", v)
		}
	}
	// pruned 2D union with an operand that has no material in its box
	{
		c := func(r float64) sdf.SDF2 { s, _ := sdf.Circle2D(r); return s }
		empty := sdf.Intersect2D(sdf.Transform2D(c(0.25), sdf.Translate2d(v2.Vec{X: 0, Y: 1})), c(0.25))
		big := c(0.36787944117144233)
		u := sdf.Union2D(empty, big)
		p := v2.Vec{X: 0, Y: 1.7294698602928607}
		got, want := u.Evaluate(p), math.Min(empty.Evaluate(p), big.Evaluate(p))
		rec.Case(true, "pruned-union", "regress")
		if math.Abs(got-want) > 1e-12 {
			rec.FailCase(t, "TestRegress", "Union2D:pruned-value-overestimates", map[string]any{"p": p}, "Union2D(empty intersection, circle) at %v: Evaluate %v, min over operands %v", p, got, want)
		}
	}
}
