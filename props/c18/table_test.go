package c18

// (a) the thread table, exhaustively, against an independent list.
//
// The list below is written from the standards, not from sdf/screw.go:
//   - ASME B1.1 unified threads: number sizes #N have major diameter 0.060+0.013*N inch;
//     UNC / UNF threads-per-inch per size are the standard series values.
//   - ASME B1.20.1 NPT: pipe outside diameter and threads per inch per nominal size,
//     taper 1 in 16 on the diameter = half angle atan(1/32).
//   - ISO 261 / ISO 724 metric: "M<d>x<P>" carries d and P (mm); the coarse series
//     pitch per diameter is the standard one.
// Where the designation itself carries the numbers (M<d>x<P>, unc_<N>_<tpi>, fractions)
// they are ALSO parsed from the name and must agree with the embedded list.
//
// Completeness of the name list: there is no exported enumerator of the database, so
// the test parses the Go source of sdf/screw.go (go/parser) for the string literal that
// is the first argument of every UTSAdd / ISOAdd / NPTAdd call and requires that set
// to be equal to the embedded name set (only the NAMES are taken from the source).

import (
	"fmt"
	"go/ast"
	"go/parser"
	"go/token"
	"math"
	"os"
	"path/filepath"
	"sort"
	"strconv"
	"strings"
	"testing"

	"github.com/deadsy/sdfx/sdf"
	"pgregory.net/rapid"

	"verif/internal/ev"
	"verif/internal/g"
)

type stdThread struct {
	name   string
	series string  // unc, unf, npt, iso-coarse, iso-fine
	dia    float64 // major diameter (inch for unc/unf/npt, mm for iso)
	n      float64 // threads per inch (unc/unf/npt) or pitch in mm (iso)
}

func (s stdThread) inch() bool { return !strings.HasPrefix(s.series, "iso") }

// pitch in the entry's own unit
func (s stdThread) pitch() float64 {
	if s.inch() {
		return 1 / s.n
	}
	return s.n
}

func numberSize(n int) float64 { return 0.060 + 0.013*float64(n) }

var stdTable = []stdThread{
	// UNC (ASME B1.1 coarse series)
	{"unc_4_40", "unc", 0.112, 40},
	{"unc_6_32", "unc", 0.138, 32},
	{"unc_8_32", "unc", 0.164, 32},
	{"unc_10_24", "unc", 0.190, 24},
	{"unc_1/4", "unc", 0.25, 20},
	{"unc_5/16", "unc", 0.3125, 18},
	{"unc_3/8", "unc", 0.375, 16},
	{"unc_7/16", "unc", 0.4375, 14},
	{"unc_1/2", "unc", 0.5, 13},
	{"unc_9/16", "unc", 0.5625, 12},
	{"unc_5/8", "unc", 0.625, 11},
	{"unc_3/4", "unc", 0.75, 10},
	{"unc_7/8", "unc", 0.875, 9},
	{"unc_1", "unc", 1, 8},
	// UNF (ASME B1.1 fine series)
	{"unf_4_48", "unf", 0.112, 48},
	{"unf_6_40", "unf", 0.138, 40},
	{"unf_8_36", "unf", 0.164, 36},
	{"unf_10_32", "unf", 0.190, 32},
	{"unf_1/4", "unf", 0.25, 28},
	{"unf_5/16", "unf", 0.3125, 24},
	{"unf_3/8", "unf", 0.375, 24},
	{"unf_7/16", "unf", 0.4375, 20},
	{"unf_1/2", "unf", 0.5, 20},
	{"unf_9/16", "unf", 0.5625, 18},
	{"unf_5/8", "unf", 0.625, 18},
	{"unf_3/4", "unf", 0.75, 16},
	{"unf_7/8", "unf", 0.875, 14},
	{"unf_1", "unf", 1, 12},
	// NPT (ASME B1.20.1): outside diameter of pipe, threads per inch
	{"npt_1/8", "npt", 0.405, 27},
	{"npt_1/4", "npt", 0.540, 18},
	{"npt_3/8", "npt", 0.675, 18},
	{"npt_1/2", "npt", 0.840, 14},
	{"npt_3/4", "npt", 1.050, 14},
	{"npt_1", "npt", 1.315, 11.5},
	{"npt_1_1/4", "npt", 1.660, 11.5},
	{"npt_1_1/2", "npt", 1.900, 11.5},
	{"npt_2", "npt", 2.375, 11.5},
	{"npt_2_1/2", "npt", 2.875, 8},
	{"npt_3", "npt", 3.5, 8},
	{"npt_4", "npt", 4.5, 8},
	// ISO 261 coarse series
	{"M1x0.25", "iso-coarse", 1, 0.25},
	{"M1.2x0.25", "iso-coarse", 1.2, 0.25},
	{"M1.6x0.35", "iso-coarse", 1.6, 0.35},
	{"M2x0.4", "iso-coarse", 2, 0.4},
	{"M2.5x0.45", "iso-coarse", 2.5, 0.45},
	{"M3x0.5", "iso-coarse", 3, 0.5},
	{"M4x0.7", "iso-coarse", 4, 0.7},
	{"M5x0.8", "iso-coarse", 5, 0.8},
	{"M6x1", "iso-coarse", 6, 1},
	{"M8x1.25", "iso-coarse", 8, 1.25},
	{"M10x1.5", "iso-coarse", 10, 1.5},
	{"M12x1.75", "iso-coarse", 12, 1.75},
	{"M16x2", "iso-coarse", 16, 2},
	{"M20x2.5", "iso-coarse", 20, 2.5},
	{"M24x3", "iso-coarse", 24, 3},
	{"M30x3.5", "iso-coarse", 30, 3.5},
	{"M36x4", "iso-coarse", 36, 4},
	{"M42x4.5", "iso-coarse", 42, 4.5},
	{"M48x5", "iso-coarse", 48, 5},
	{"M56x5.5", "iso-coarse", 56, 5.5},
	{"M64x6", "iso-coarse", 64, 6},
	// ISO 261 fine series (first choice fine pitch per diameter)
	{"M1x0.2", "iso-fine", 1, 0.2},
	{"M1.2x0.2", "iso-fine", 1.2, 0.2},
	{"M1.6x0.2", "iso-fine", 1.6, 0.2},
	{"M2x0.25", "iso-fine", 2, 0.25},
	{"M2.5x0.35", "iso-fine", 2.5, 0.35},
	{"M3x0.35", "iso-fine", 3, 0.35},
	{"M4x0.5", "iso-fine", 4, 0.5},
	{"M5x0.5", "iso-fine", 5, 0.5},
	{"M6x0.75", "iso-fine", 6, 0.75},
	{"M8x1", "iso-fine", 8, 1},
	{"M10x1.25", "iso-fine", 10, 1.25},
	{"M12x1.5", "iso-fine", 12, 1.5},
	{"M16x1.5", "iso-fine", 16, 1.5},
	{"M20x2", "iso-fine", 20, 2},
	{"M24x2", "iso-fine", 24, 2},
	{"M30x2", "iso-fine", 30, 2},
	{"M36x3", "iso-fine", 36, 3},
	{"M42x3", "iso-fine", 42, 3},
	{"M48x3", "iso-fine", 48, 3},
	{"M56x4", "iso-fine", 56, 4},
	{"M64x4", "iso-fine", 64, 4},
}

// relative comparison for table numbers: a few ulps (pure transcription arithmetic)
func relEq(a, b float64) bool {
	return math.Abs(a-b) <= 4e-16*math.Max(math.Abs(a), math.Abs(b))
}

func parseFraction(s string) (float64, bool) {
	if i := strings.IndexByte(s, '/'); i >= 0 {
		a, e1 := strconv.ParseFloat(s[:i], 64)
		b, e2 := strconv.ParseFloat(s[i+1:], 64)
		if e1 != nil || e2 != nil || b == 0 {
			return 0, false
		}
		return a / b, true
	}
	v, err := strconv.ParseFloat(s, 64)
	return v, err == nil
}

// parseDesignation extracts what the designation itself says.
// returns diameter (0 = not carried), n = pitch mm / tpi (0 = not carried).
func parseDesignation(name string) (series string, dia, n float64, ok bool) {
	switch {
	case strings.HasPrefix(name, "M"):
		parts := strings.Split(name[1:], "x")
		if len(parts) != 2 {
			return "", 0, 0, false
		}
		d, e1 := strconv.ParseFloat(parts[0], 64)
		p, e2 := strconv.ParseFloat(parts[1], 64)
		if e1 != nil || e2 != nil {
			return "", 0, 0, false
		}
		return "iso", d, p, true
	case strings.HasPrefix(name, "unc_"), strings.HasPrefix(name, "unf_"):
		f := strings.Split(name[4:], "_")
		if len(f) == 2 { // number size: unc_<N>_<tpi>
			num, e1 := strconv.Atoi(f[0])
			tpi, e2 := strconv.ParseFloat(f[1], 64)
			if e1 != nil || e2 != nil {
				return "", 0, 0, false
			}
			return name[:3], numberSize(num), tpi, true
		}
		if len(f) == 1 { // fractional size: unc_<a/b>
			d, ok := parseFraction(f[0])
			return name[:3], d, 0, ok
		}
		return "", 0, 0, false
	case strings.HasPrefix(name, "npt_"):
		// the nominal pipe size is not the diameter: nothing numeric carried
		return "npt", 0, 0, true
	}
	return "", 0, 0, false
}

func repoDir() string {
	if r := os.Getenv("VERIF_REPO"); r != "" {
		return r
	}
	return "/repo"
}

// sourceNames lists the designations added in sdf/screw.go (names only).
func sourceNames() ([]string, error) {
	path := filepath.Join(repoDir(), "sdf", "screw.go")
	fset := token.NewFileSet()
	f, err := parser.ParseFile(fset, path, nil, 0)
	if err != nil {
		return nil, err
	}
	var names []string
	ast.Inspect(f, func(n ast.Node) bool {
		c, ok := n.(*ast.CallExpr)
		if !ok {
			return true
		}
		sel, ok := c.Fun.(*ast.SelectorExpr)
		if !ok {
			return true
		}
		switch sel.Sel.Name {
		case "UTSAdd", "ISOAdd", "NPTAdd":
		default:
			return true
		}
		if len(c.Args) == 0 {
			return true
		}
		if lit, ok := c.Args[0].(*ast.BasicLit); ok && lit.Kind == token.STRING {
			if s, err := strconv.Unquote(lit.Value); err == nil {
				names = append(names, s)
			}
		}
		return true
	})
	return names, nil
}

type tableFail struct {
	Name string `json:"name"`
	What string `json:"what"`
}

func TestTable(t *testing.T) {
	rec := ev.Get()
	fail := func(key, name, format string, args ...any) {
		msg := fmt.Sprintf(format, args...)
		rec.FailCase(t, "TestTable", key, tableFail{name, msg}, "%s: %s", name, msg)
	}

	// 0. the embedded list is self-consistent (designation vs embedded numbers)
	seen := map[string]bool{}
	coarse := map[float64]float64{}
	for _, s := range stdTable {
		if seen[s.name] {
			t.Fatalf("embedded list: duplicate %q", s.name)
		}
		seen[s.name] = true
		ser, d, n, ok := parseDesignation(s.name)
		if !ok {
			t.Fatalf("embedded list: cannot parse %q", s.name)
		}
		if !strings.HasPrefix(s.series, ser) {
			t.Fatalf("embedded list: %q parsed as %s, listed as %s", s.name, ser, s.series)
		}
		if d != 0 && math.Abs(d-s.dia) > 1e-12 {
			t.Fatalf("embedded list: %q designation diameter %v, listed %v", s.name, d, s.dia)
		}
		if n != 0 && n != s.n {
			t.Fatalf("embedded list: %q designation pitch/tpi %v, listed %v", s.name, n, s.n)
		}
		if s.series == "iso-coarse" {
			coarse[s.dia] = s.n
		}
	}
	for _, s := range stdTable {
		if s.series == "iso-fine" {
			if c, ok := coarse[s.dia]; !ok || !(s.n < c) {
				t.Fatalf("embedded list: fine %q is not finer than the coarse pitch %v", s.name, c)
			}
		}
	}

	// 1. completeness of the name list against the source text
	src, err := sourceNames()
	if err != nil {
		t.Fatalf("cannot enumerate the designations in %s/sdf/screw.go: %v", repoDir(), err)
	}
	srcSet := map[string]int{}
	for _, n := range src {
		srcSet[n]++
	}
	rec.Count("table:names-in-source", int64(len(src)))
	rec.Count("table:names-embedded", int64(len(stdTable)))
	var missing, extra []string
	for n := range srcSet {
		if !seen[n] {
			missing = append(missing, n)
		}
	}
	for n := range seen {
		if srcSet[n] == 0 {
			extra = append(extra, n)
		}
	}
	sort.Strings(missing)
	sort.Strings(extra)
	if len(missing) > 0 {
		// a designation exists that the independent list does not cover: check what the
		// designation itself carries, then demand that the list be extended.
		for _, n := range missing {
			checkParsedOnly(t, rec, n)
		}
		fail("ThreadLookup:designation-not-in-independent-list", missing[0], "designations in sdf/screw.go absent from the independent list: %v (extend stdTable from the standard)", missing)
	}
	if len(src) != len(srcSet) {
		t.Logf("note: %d Add calls but %d distinct names in screw.go", len(src), len(srcSet))
	}

	// 2. every listed designation resolves and agrees
	for _, s := range stdTable {
		tp, err := sdf.ThreadLookup(s.name)
		if err != nil || tp == nil {
			rec.Case(true, "table|"+s.name, "table:"+s.series, "table:missing")
			fail("ThreadLookup:standard-designation-missing", s.name, "ThreadLookup error: %v", err)
			continue
		}
		before := *tp
		rec.Case(true, "table|"+s.name, "table:"+s.series)
		rec.Sample("table:"+s.series, map[string]any{"name": s.name, "want_radius": s.dia / 2, "want_pitch": s.pitch(), "got": before})
		if tp.Name != s.name {
			fail("ThreadLookup:name", s.name, "Name field %q", tp.Name)
		}
		wantUnits := "mm"
		if s.inch() {
			wantUnits = "inch"
		}
		if tp.Units != wantUnits {
			fail("ThreadLookup:units", s.name, "Units %q want %q", tp.Units, wantUnits)
		}
		if !relEq(tp.Radius, s.dia/2) {
			fail("ThreadLookup:radius", s.name, "Radius %v want %v (d/2, %s)", tp.Radius, s.dia/2, wantUnits)
		}
		if !relEq(tp.Pitch, s.pitch()) {
			fail("ThreadLookup:pitch", s.name, "Pitch %v want %v (%s)", tp.Pitch, s.pitch(), wantUnits)
		}
		wantTaper := 0.0
		if s.series == "npt" {
			wantTaper = math.Atan(1.0 / 32.0)
		}
		if !relEq(tp.Taper, wantTaper) {
			fail("ThreadLookup:taper", s.name, "Taper %v want %v", tp.Taper, wantTaper)
		}
		if !(tp.HexFlat2Flat > 0) || math.IsInf(tp.HexFlat2Flat, 0) {
			fail("ThreadLookup:hex-flat-to-flat", s.name, "HexFlat2Flat %v", tp.HexFlat2Flat)
		}
		// what the designation carries, parsed now (not from the list)
		_, d, n, _ := parseDesignation(s.name)
		if d != 0 && math.Abs(tp.Radius-d/2) > 1e-12*d {
			fail("ThreadLookup:radius", s.name, "Radius %v, designation says d/2 = %v", tp.Radius, d/2)
		}
		if n != 0 {
			wp := n
			if s.inch() {
				wp = 1 / n
			}
			if !relEq(tp.Pitch, wp) {
				fail("ThreadLookup:pitch", s.name, "Pitch %v, designation says %v", tp.Pitch, wp)
			}
		}

		// unit conversion
		checkToMM(t, rec, "TestTable", s.name, tp)
		if *tp != before {
			fail("ToMillimetre:mutates-database-entry", s.name, "entry changed from %+v to %+v", before, *tp)
		}
		// a second lookup yields the same parameters
		tp2, err := sdf.ThreadLookup(s.name)
		if err != nil || *tp2 != before {
			fail("ThreadLookup:not-repeatable", s.name, "second lookup %+v err %v", tp2, err)
		}
	}
	if len(extra) > 0 {
		t.Logf("note: listed designations not found in the source text (resolved above through ThreadLookup anyway): %v", extra)
	}
	// unknown names are errors, not zero values
	for _, n := range []string{"", "M8", "M8x1.250", "unc_1/4 ", "UNC_1/4", "npt_5"} {
		if tp, err := sdf.ThreadLookup(n); err == nil {
			fail("ThreadLookup:unknown-name-accepted", n, "returned %+v", tp)
		}
	}
}

// checkParsedOnly checks a designation unknown to the list against its own text.
func checkParsedOnly(t *testing.T, rec *ev.Rec, name string) {
	tp, err := sdf.ThreadLookup(name)
	if err != nil {
		return
	}
	ser, d, n, ok := parseDesignation(name)
	if !ok {
		return
	}
	if d != 0 && math.Abs(tp.Radius-d/2) > 1e-12*d {
		rec.FailCase(t, "TestTable", "ThreadLookup:radius", tableFail{name, "unlisted"}, "%s: Radius %v, designation says %v", name, tp.Radius, d/2)
	}
	if n != 0 {
		wp := n
		if ser != "iso" {
			wp = 1 / n
		}
		if !relEq(tp.Pitch, wp) {
			rec.FailCase(t, "TestTable", "ThreadLookup:pitch", tableFail{name, "unlisted"}, "%s: Pitch %v, designation says %v", name, tp.Pitch, wp)
		}
	}
}

type failer interface {
	ev.TB
}

// checkToMM: ToMillimetre multiplies Radius, Pitch, HexFlat2Flat by 25.4 for inch
// entries, keeps taper and name, yields "mm", leaves mm entries alone, is idempotent.
func checkToMM(t failer, rec *ev.Rec, test, name string, tp *sdf.ThreadParameters) {
	report := func(key, format string, args ...any) {
		msg := fmt.Sprintf(format, args...)
		if tt, ok := t.(*testing.T); ok {
			rec.FailCase(tt, test, key, tableFail{name, msg}, "%s: %s", name, msg)
		} else {
			rec.Violation(t, key, "%s: %s", name, msg)
		}
	}
	in := *tp
	mm := tp.ToMillimetre()
	if mm == nil {
		report("ToMillimetre:nil", "nil result")
		return
	}
	k := 1.0
	if in.Units == "inch" {
		k = 25.4
	}
	if mm.Units != "mm" {
		report("ToMillimetre:units", "Units %q after conversion", mm.Units)
	}
	if mm.Name != in.Name {
		report("ToMillimetre:name", "Name %q -> %q", in.Name, mm.Name)
	}
	if mm.Taper != in.Taper {
		report("ToMillimetre:taper", "Taper %v -> %v (an angle must not be scaled)", in.Taper, mm.Taper)
	}
	if !relEq(mm.Radius, in.Radius*k) {
		report("ToMillimetre:radius", "Radius %v %s -> %v, want %v", in.Radius, in.Units, mm.Radius, in.Radius*k)
	}
	if !relEq(mm.Pitch, in.Pitch*k) {
		report("ToMillimetre:pitch", "Pitch %v %s -> %v, want %v", in.Pitch, in.Units, mm.Pitch, in.Pitch*k)
	}
	if !relEq(mm.HexFlat2Flat, in.HexFlat2Flat*k) {
		report("ToMillimetre:hex-flat-to-flat", "HexFlat2Flat %v %s -> %v, want %v", in.HexFlat2Flat, in.Units, mm.HexFlat2Flat, in.HexFlat2Flat*k)
	}
	if *tp != in {
		report("ToMillimetre:mutates-receiver", "receiver changed from %+v to %+v", in, *tp)
	}
	first := *mm
	again := mm.ToMillimetre()
	if again == nil || *again != first {
		report("ToMillimetre:not-idempotent", "second conversion gives %+v, first %+v", again, first)
	}
}

// TestToMillimetre: the conversion on generated parameter records (not only table rows).
func TestToMillimetre(t *testing.T) {
	rec := ev.Get()
	rapid.Check(t, func(t *rapid.T) {
		units := rapid.SampledFrom([]string{"inch", "mm"}).Draw(t, "units")
		tp := &sdf.ThreadParameters{
			Name:         rapid.StringMatching(`[A-Za-z0-9_/.]{0,12}`).Draw(t, "name"),
			Radius:       g.Length(t, "radius", 1e-2, 1e3),
			Pitch:        g.Length(t, "pitch", 1e-2, 1e2),
			HexFlat2Flat: g.Length(t, "ftof", 1e-2, 1e3),
			Units:        units,
		}
		switch rapid.IntRange(0, 2).Draw(t, "taperk") {
		case 0:
			tp.Taper = 0
		case 1:
			tp.Taper = math.Atan(1.0 / 32.0)
		default:
			tp.Taper = rapid.Float64Range(0, 0.5).Draw(t, "taper")
		}
		rec.Case(units == "inch", ev.Key("tomm", tp.Name, tp.Radius, tp.Pitch, tp.HexFlat2Flat, tp.Taper, units), "tomm:units="+units)
		rec.Sample("tomm:"+units, map[string]any{"in": *tp, "out": *tp.ToMillimetre()})
		checkToMM(t, rec, "TestToMillimetre", tp.Name, tp)
	})
}
