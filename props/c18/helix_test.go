package c18

// (b) helical invariance, z-periodicity and handedness of Screw3D (taper 0).

import (
	"fmt"
	"math"
	"os"
	"testing"

	"github.com/deadsy/sdfx/sdf"
	v3 "github.com/deadsy/sdfx/vec/v3"
	"pgregory.net/rapid"

	"verif/internal/ev"
	"verif/internal/g"
)

func TestMain(m *testing.M) { ev.Main(m) }

// C18_INCLUDE_SPLIT_LINES=1 puts the excluded class (radius on a quadtree cell border
// of the profile polygon, the known C04 finding) back into the campaign, to confirm a fix.
var includeSplitLines = os.Getenv("C18_INCLUDE_SPLIT_LINES") != ""

var profileKinds = []string{"iso-ext", "iso-int", "acme", "ansi-buttress", "plastic-buttress"}

func makeProfile(kind string, radius, pitch float64) (sdf.SDF2, error) {
	switch kind {
	case "iso-ext":
		return sdf.ISOThread(radius, pitch, true)
	case "iso-int":
		return sdf.ISOThread(radius, pitch, false)
	case "acme":
		return sdf.AcmeThread(radius, pitch)
	case "ansi-buttress":
		return sdf.ANSIButtressThread(radius, pitch)
	case "plastic-buttress":
		return sdf.PlasticButtressThread(radius, pitch)
	}
	return nil, fmt.Errorf("unknown profile %q", kind)
}

// symmetric profiles have f(-x,y) == f(x,y): the seam of the pitch fold is harmless.
func symmetricProfile(kind string) bool {
	return kind == "iso-ext" || kind == "iso-int" || kind == "acme"
}

// direction classes around the atan2 branch cut. Returns a (nearly) unit vector.
func drawDir(t *rapid.T, label string) (cx, cy float64, class string) {
	switch rapid.IntRange(0, 11).Draw(t, label+".k") {
	case 0:
		return -1, 0, "cut+pi"
	case 1:
		return -1, math.Copysign(0, -1), "cut-pi"
	case 2:
		d := g.LogUniform(t, label+".d", 1e-300, 1e-3)
		return -1, d, "cut+tiny"
	case 3:
		d := g.LogUniform(t, label+".d", 1e-300, 1e-3)
		return -1, -d, "cut-tiny"
	case 4:
		return 1, 0, "zero"
	case 5:
		d := g.LogUniform(t, label+".d", 1e-300, 1e-3)
		return 1, d * float64(rapid.SampledFrom([]int{-1, 1}).Draw(t, label+".s")), "zero-tiny"
	case 6:
		return 0, float64(rapid.SampledFrom([]int{-1, 1}).Draw(t, label+".s")), "quarter"
	default:
		th := rapid.Float64Range(-math.Pi, math.Pi).Draw(t, label+".th")
		return math.Cos(th), math.Sin(th), "generic"
	}
}

// own model of the fold: phase u = z/pitch - starts*theta/(2 pi); the library folds
// it into one pitch cell; dist to the seam of the fold in units of pitch.
func seamDist(z, theta, pitch float64, starts int) float64 {
	u := z/pitch - float64(starts)*theta/(2*math.Pi) + 0.5
	f := u - math.Floor(u)
	return math.Min(f, 1-f)
}

func drawZ(t *rapid.T, label string, half, pitch float64) (float64, string) {
	// strictly inside the length: |z| <= half - margin, margin >= 1e-6 pitch
	switch rapid.IntRange(0, 5).Draw(t, label+".k") {
	case 0:
		m := g.LogUniform(t, label+".m", 1e-6, 0.5) * pitch
		if m > half {
			m = half
		}
		return half - m, "near+end"
	case 1:
		m := g.LogUniform(t, label+".m", 1e-6, 0.5) * pitch
		if m > half {
			m = half
		}
		return -(half - m), "near-end"
	case 2:
		// on a multiple of pitch/2 (fold seam / crest for theta = 0)
		kmax := int(math.Floor((half - 1e-6*pitch) / (pitch / 2)))
		k := rapid.IntRange(-kmax, kmax).Draw(t, label+".h")
		return float64(k) * pitch / 2, "half-pitch-grid"
	default:
		lim := half - 1e-6*pitch
		return rapid.Float64Range(-lim, lim).Draw(t, label+".z"), "generic"
	}
}

func TestHelix(t *testing.T) {
	rec := ev.Get()
	rapid.Check(t, func(t *rapid.T) {
		kind := rapid.SampledFrom(profileKinds).Draw(t, "profile")
		pitch := g.Length(t, "pitch", 0.2, 6)
		ratio := g.LogUniform(t, "ratio", 1.5, 20)
		radius := ratio * pitch
		starts := rapid.IntRange(1, 5).Draw(t, "starts")
		if rapid.Bool().Draw(t, "left") {
			starts = -starts
		}
		nP := rapid.Float64Range(1, 20).Draw(t, "pitches")
		if rapid.IntRange(0, 2).Draw(t, "intlen") == 0 {
			nP = math.Round(nP)
		}
		length := nP * pitch
		half := length / 2
		prof, err := makeProfile(kind, radius, pitch)
		if err != nil {
			rec.Count("discarded:profile-error", 1)
			t.Skipf("profile: %v", err)
		}
		s, err := sdf.Screw3D(prof, length, 0, pitch, starts)
		if err != nil {
			t.Fatalf("Screw3D(%s r=%v p=%v, len=%v, starts=%d): %v", kind, radius, pitch, length, starts, err)
		}
		tol := 1e-9 * (pitch + radius)
		lead := float64(starts) * pitch
		desc := fmt.Sprintf("%s r=%s p=%s len=%s starts=%d", kind, ev.F(radius), ev.F(pitch), ev.F(length), starts)

		// compare two values of the field "within the length": with m = the smaller
		// depth of the two points below the end planes, max(f,-m) must agree.
		cmp := func(what string, p, q v3.Vec, seam bool) {
			fp, fq := s.Evaluate(p), s.Evaluate(q)
			m := math.Min(half-math.Abs(p.Z), half-math.Abs(q.Z))
			gp, gq := math.Max(fp, -m), math.Max(fq, -m)
			if seam && !symmetricProfile(kind) {
				// On the fold of the pitch sawtooth (profile x = +-pitch/2) rounding alone
				// decides which end of the one-period profile window is read. The two
				// ends of an asymmetric (buttress) window are different curves (the
				// 0.05*pitch rounding of PlasticButtressThread even leaves a step of
				// 0.0076*pitch there), so no value is claimed ON the fold; the motion
				// maps fold points to fold points, everything off the fold is compared.
				rec.Count("skipped:pair-on-fold-of-asymmetric-profile", 1)
				return
			}
			if math.Abs(gp-gq) > tol || math.IsNaN(gp) || math.IsNaN(gq) {
				// diagnosis: is one of the two values an outlier among its own radial
				// neighbours a few ulps away? (signature of the polygon quadtree
				// split-line defect, property C04, seen through the thread profile)
				for _, x := range []v3.Vec{p, q} {
					if isolatedJump(s, x, tol) {
						rec.Violation(t, "Screw3D:field-jumps-at-isolated-radius(profile-polygon-quadtree)", "%s: at %v f=%v but %v / %v a few ulps of radius away (found by %s against %v / %v)", desc, x, s.Evaluate(x), s.Evaluate(scaleXY(x, 1+0x1p-48)), s.Evaluate(scaleXY(x, 1-0x1p-48)), what, p, q)
						return
					}
				}
				rec.Violation(t, "Screw3D:"+what, "%s: p=%v f=%v, image=%v f=%v (depth below ends %v, tol %v)", desc, p, fp, q, fq, m, tol)
			}
		}
		splitY := quadtreeYs(prof)

		n := rapid.IntRange(6, 16).Draw(t, "npairs")
		ntCase := false
		var labels []string
		for i := 0; i < n; i++ {
			l := fmt.Sprintf("p%d", i)
			// radius of the point
			var rho float64
			switch rapid.IntRange(0, 9).Draw(t, l+".rk") {
			case 0:
				rho = rapid.Float64Range(0, 1.3).Draw(t, l+".rho") * radius
			case 1:
				rho = radius
			case 2:
				rho = g.LogUniform(t, l+".rho", 1e-9, 1e-1) * radius
			case 3:
				// exactly on / 1 ulp off a horizontal cell border of the profile quadtree
				if len(splitY) > 0 {
					rho = g.Ulp(rapid.SampledFrom(splitY).Draw(t, l+".split"), rapid.IntRange(-1, 1).Draw(t, l+".ulp"))
				} else {
					rho = radius / 2
				}
			default:
				rho = radius + rapid.Float64Range(-1.1, 0.2).Draw(t, l+".rho")*pitch
			}
			if rho < 0 {
				rho = 0
			}
			cx, cy, dclass := drawDir(t, l+".dir")
			z, zclass := drawZ(t, l+".z", half, pitch)
			p := v3.Vec{X: rho * cx, Y: rho * cy, Z: z}
			theta := math.Atan2(p.Y, p.X)
			rr := math.Hypot(p.X, p.Y)
			if onSplitLine(splitY, rr) && !includeSplitLines {
				// confirmed finding (C04 through the profile, see TestRegress): excluded
				// from the campaign so that the search goes on behind it
				rec.Count("excluded:radius-on-profile-quadtree-split-line(known C04 class)", 1)
				continue
			}

			// image under the helical motion
			var phi, z2 float64
			var q v3.Vec
			mode := "z-target"
			if rapid.IntRange(0, 3).Draw(t, l+".mode") == 0 {
				// land the image on a chosen direction (cut, zero, quarter)
				tx, ty, tclass := drawDir(t, l+".tdir")
				th2 := math.Atan2(ty, tx)
				phi0 := th2 - theta
				// z2 = z + lead*(phi0+2 pi k)/(2 pi) must stay inside: feasible k
				lim := half - 1e-6*pitch
				a := (-lim - z - lead*phi0/(2*math.Pi)) / lead
				b := (lim - z - lead*phi0/(2*math.Pi)) / lead
				if a > b {
					a, b = b, a
				}
				k0, k1 := int(math.Ceil(a)), int(math.Floor(b))
				if k0 <= k1 {
					k := rapid.IntRange(k0, k1).Draw(t, l+".turns")
					phi = phi0 + 2*math.Pi*float64(k)
					z2 = z + lead*phi/(2*math.Pi)
					h := math.Hypot(tx, ty)
					q = v3.Vec{X: rr * tx / h, Y: rr * ty / h, Z: z2}
					mode = "dir-target:" + tclass
				}
			}
			if mode == "z-target" {
				var zc string
				z2, zc = drawZ(t, l+".z2", half, pitch)
				_ = zc
				switch rapid.IntRange(0, 5).Draw(t, l+".phik") {
				case 0: // tiny motion
					phi = g.LogUniform(t, l+".phi", 1e-9, 1e-2) * float64(rapid.SampledFrom([]int{-1, 1}).Draw(t, l+".ps"))
					z2 = z + lead*phi/(2*math.Pi)
				default:
					phi = (z2 - z) * 2 * math.Pi / lead
				}
				if math.Abs(z2) > half-1e-7*pitch {
					rec.Count("discarded:image-outside-length", 1)
					continue
				}
				q = v3.Vec{X: rr * math.Cos(theta+phi), Y: rr * math.Sin(theta+phi), Z: z2}
			}
			theta2 := math.Atan2(q.Y, q.X)
			wraps := int(math.Round((theta + phi - theta2) / (2 * math.Pi)))
			cellP := math.Floor(p.Z/pitch + 0.5)
			cellQ := math.Floor(q.Z/pitch + 0.5)
			seam := seamDist(p.Z, theta, pitch, starts) < 1e-9 || seamDist(q.Z, theta2, pitch, starts) < 1e-9
			fp := s.Evaluate(p)
			m := math.Min(half-math.Abs(p.Z), half-math.Abs(q.Z))
			informative := fp > -m+tol
			if informative && (wraps != 0 || cellP != cellQ) {
				ntCase = true
			}
			rec.Add("helix:pairs", 1)
			if informative {
				rec.Add("helix:pairs-thread-term-visible", 1)
			}
			if wraps != 0 {
				rec.Add("helix:pairs-cross-atan2-cut", 1)
			}
			if cellP != cellQ {
				rec.Add("helix:pairs-cross-pitch-boundary", 1)
			}
			if seam {
				rec.Add("helix:pairs-on-fold-seam", 1)
			}
			if math.Abs(fp) < 0.05*pitch {
				rec.Add("helix:pairs-near-surface", 1)
			}
			labels = append(labels, "helix:dir="+dclass, "helix:z="+zclass, "helix:mode="+mode)
			cmp("helical-invariance", p, q, seam)

			// z-periodicity with the pitch at the same (x,y)
			kmaxUp := int(math.Floor((half - 1e-7*pitch - p.Z) / pitch))
			kmaxDn := int(math.Floor((half - 1e-7*pitch + p.Z) / pitch))
			if kmaxUp+kmaxDn > 0 {
				k := rapid.IntRange(-kmaxDn, kmaxUp).Draw(t, l+".per")
				if k != 0 {
					pz := v3.Vec{X: p.X, Y: p.Y, Z: p.Z + float64(k)*pitch}
					sm := seam || seamDist(pz.Z, theta, pitch, starts) < 1e-9
					rec.Add("helix:periodicity-pairs", 1)
					cmp("z-periodicity", p, pz, sm)
				}
			}
		}

		// the crest of an external ISO thread follows the right-handed helix through
		// (r,0,0): solid under the crest line, void half a pitch further (the profile is
		// "a single thread centered on the y-axis").
		if kind == "iso-ext" && half > 0.75*pitch {
			th := rapid.Float64Range(-math.Pi, math.Pi).Draw(t, "crest.th")
			zc := lead * th / (2 * math.Pi)
			// bring into the length by whole pitches, keeping half a pitch of room
			zc -= pitch * math.Round(zc/pitch)
			rho := radius - 0.3*pitch
			if math.Abs(zc)+0.5*pitch < half-0.01*pitch {
				pc := v3.Vec{X: rho * math.Cos(th), Y: rho * math.Sin(th), Z: zc}
				pv := v3.Vec{X: pc.X, Y: pc.Y, Z: zc + 0.5*pitch*sign(-zc)}
				fc, fv := s.Evaluate(pc), s.Evaluate(pv)
				rec.Add("helix:crest-tracking", 1)
				if !(fc < -tol) || !(fv > tol) {
					rec.Violation(t, "Screw3D:handedness:crest-not-on-right-handed-helix", "%s: under the crest at %v f=%v (want <0), half a pitch away at %v f=%v (want >0)", desc, pc, fc, pv, fv)
				}
			}
		}

		labels = append(labels, "helix:profile="+kind, fmt.Sprintf("helix:starts=%d", starts))
		rec.Case(ntCase, ev.Key("helix", desc, n, labels), labels...)
		rec.Sample("helix:"+kind, map[string]any{"screw": desc, "pairs": n})
	})
}

func sign(x float64) float64 {
	if x < 0 {
		return -1
	}
	return 1
}

func scaleXY(p v3.Vec, k float64) v3.Vec { return v3.Vec{X: p.X * k, Y: p.Y * k, Z: p.Z} }

// isolatedJump: the two radial neighbours (radius * (1 +- 2^-48)) agree with each other
// but not with the point itself. A distance field cannot do that.
func isolatedJump(s sdf.SDF3, p v3.Vec, tol float64) bool {
	f0 := s.Evaluate(p)
	fa := s.Evaluate(scaleXY(p, 1+0x1p-48))
	fb := s.Evaluate(scaleXY(p, 1-0x1p-48))
	return math.Abs(fa-fb) <= tol && math.Abs(f0-fa) > tol
}

// quadtreeYs lists the horizontal cell borders of the profile polygon's quadtree
// (public MeshSDF2.Boxes); used only to EXCLUDE the known C04 class from the campaign.
func quadtreeYs(prof sdf.SDF2) []float64 {
	m, ok := prof.(*sdf.MeshSDF2)
	if !ok {
		return nil
	}
	var ys []float64
	for _, b := range m.Boxes() {
		ys = append(ys, b.Min.Y, b.Max.Y)
	}
	return ys
}

func onSplitLine(ys []float64, y float64) bool {
	for _, s := range ys {
		if math.Abs(y-s) <= 8e-16*math.Abs(s) {
			return true
		}
	}
	return false
}
