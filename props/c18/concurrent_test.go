package c18

import (
	"fmt"
	"math"
	"sync"
	"testing"

	"github.com/deadsy/sdfx/sdf"
	v3 "github.com/deadsy/sdfx/vec/v3"
	"pgregory.net/rapid"

	"verif/internal/ev"
	"verif/internal/g"
)

// TestHelixManyCallers: the renderers evaluate ONE screw object from all their workers at once. Helical
// invariance, periodicity and mating are statements about the values the object returns - also then: the
// values eight goroutines get for a set of points (among them every point together with its image one lead
// further along the helix) must be the values a single caller gets.
func TestHelixManyCallers(t *testing.T) {
	rec := ev.Get()
	rapid.Check(t, func(t *rapid.T) {
		kind := rapid.SampledFrom(profileKinds).Draw(t, "profile")
		pitch := g.Length(t, "pitch", 0.2, 6)
		radius := g.LogUniform(t, "ratio", 1.5, 20) * pitch
		starts := rapid.IntRange(1, 4).Draw(t, "starts")
		if rapid.Bool().Draw(t, "left") {
			starts = -starts
		}
		length := math.Round(rapid.Float64Range(4, 20).Draw(t, "pitches")) * pitch
		taper := rapid.SampledFrom([]float64{0, 0, math.Atan(1.0 / 32)}).Draw(t, "taper")
		prof, err := makeProfile(kind, radius, pitch)
		if err != nil {
			rec.Count("discarded:profile-error", 1)
			t.Skipf("profile: %v", err)
		}
		s, err := sdf.Screw3D(prof, length, taper, pitch, starts)
		if err != nil {
			t.Fatalf("Screw3D: %v", err)
		}
		lead := float64(starts) * pitch
		var pts []v3.Vec
		n := rapid.IntRange(100, 400).Draw(t, "points")
		for i := 0; i < n; i++ {
			r := radius * g.F(0.6, 1.3).Draw(t, fmt.Sprintf("r%d", i))
			a := g.Angle(t, fmt.Sprintf("a%d", i))
			z := g.F(-0.4, 0.4).Draw(t, fmt.Sprintf("z%d", i)) * length
			p := v3.Vec{X: r * math.Cos(a), Y: r * math.Sin(a), Z: z}
			// the same column again (same x, y): one lead up
			pts = append(pts, p, v3.Vec{X: p.X, Y: p.Y, Z: z + lead/float64(absInt(starts))})
		}
		seq := make([]float64, len(pts))
		for i, p := range pts {
			seq[i] = s.Evaluate(p)
		}
		const G = 8
		got := make([][]float64, G)
		var wg sync.WaitGroup
		for gi := 0; gi < G; gi++ {
			wg.Add(1)
			go func(gi int) {
				defer wg.Done()
				out := make([]float64, len(pts))
				for k := range pts {
					i := (k + gi*13) % len(pts)
					out[i] = s.Evaluate(pts[i])
				}
				got[gi] = out
			}(gi)
		}
		wg.Wait()
		bad := 0
		example := ""
		for gi := range got {
			for i := range pts {
				if got[gi][i] != seq[i] && !(math.IsNaN(got[gi][i]) && math.IsNaN(seq[i])) {
					if bad == 0 {
						example = fmt.Sprintf("point %v: %v from goroutine %d, %v from a single caller", pts[i], got[gi][i], gi, seq[i])
					}
					bad++
				}
			}
		}
		rec.Case(true, ev.Key("many-callers", kind, pitch, radius, starts, length, taper, n), "many-callers:"+kind)
		if bad > 0 {
			rec.Violation(t, "Screw3D:value-depends-on-other-callers", "%s r=%v p=%v len=%v starts=%d taper=%v: %d of %d values differ when 8 goroutines evaluate the screw at once, e.g. %s", kind, radius, pitch, length, starts, taper, bad, G*len(pts), example)
		}
	})
}

func absInt(x int) int {
	if x < 0 {
		return -x
	}
	return x
}
