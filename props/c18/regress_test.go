package c18

// Plain fixed cases: hand-computed anchors of each part of the statement, and the
// minimal inputs on which the seeded changes (DESIGN.md C18 "M") were first seen.

import (
	"math"
	"testing"

	"github.com/deadsy/sdfx/sdf"
	v3 "github.com/deadsy/sdfx/vec/v3"

	"verif/internal/ev"
)

type regressCase struct {
	What string `json:"what"`
}

func TestRegress(t *testing.T) {
	rec := ev.Get()
	bad := func(key, what, format string, args ...any) {
		rec.FailCase(t, "TestRegress", key, regressCase{what}, format, args...)
	}

	// table anchors (numbers from the standards)
	for _, c := range []struct {
		name                 string
		radius, pitch, taper float64
		units                string
	}{
		{"M8x1.25", 4, 1.25, 0, "mm"},
		{"M1x0.2", 0.5, 0.2, 0, "mm"},
		{"M64x6", 32, 6, 0, "mm"},
		{"unc_1/4", 0.125, 0.05, 0, "inch"},
		{"unf_10_32", 0.095, 0.03125, 0, "inch"},
		{"npt_1/2", 0.42, 1.0 / 14, math.Atan(1.0 / 32), "inch"},
	} {
		rec.Case(true, "regress|table|"+c.name, "regress")
		tp, err := sdf.ThreadLookup(c.name)
		if err != nil {
			bad("ThreadLookup:standard-designation-missing", c.name, "%s: %v", c.name, err)
			continue
		}
		if !relEq(tp.Radius, c.radius) {
			bad("ThreadLookup:radius", c.name, "%s: Radius %v want %v", c.name, tp.Radius, c.radius)
		}
		if !relEq(tp.Pitch, c.pitch) {
			bad("ThreadLookup:pitch", c.name, "%s: Pitch %v want %v", c.name, tp.Pitch, c.pitch)
		}
		if !relEq(tp.Taper, c.taper) || tp.Units != c.units {
			bad("ThreadLookup:taper", c.name, "%s: Taper %v Units %q want %v %q", c.name, tp.Taper, tp.Units, c.taper, c.units)
		}
	}
	// conversion anchor: 1/4-20 UNC in millimetres
	if tp, err := sdf.ThreadLookup("unc_1/4"); err == nil {
		mm := tp.ToMillimetre()
		rec.Case(true, "regress|tomm|unc_1/4", "regress")
		if !relEq(mm.Radius, 3.175) || !relEq(mm.Pitch, 1.27) || !relEq(mm.HexFlat2Flat, 7.0/16.0*25.4) || mm.Units != "mm" || mm.Taper != 0 || mm.Name != "unc_1/4" {
			bad("ToMillimetre:radius", "unc_1/4", "unc_1/4 in mm: %+v, want radius 3.175 pitch 1.27 hex 11.1125", *mm)
		}
		if again := mm.ToMillimetre(); *again != *mm {
			bad("ToMillimetre:not-idempotent", "unc_1/4", "second conversion %+v, first %+v", *again, *mm)
		}
	}
	if tp, err := sdf.ThreadLookup("npt_1/8"); err == nil {
		mm := tp.ToMillimetre()
		rec.Case(true, "regress|tomm|npt_1/8", "regress")
		if mm.Taper != math.Atan(1.0/32) || !relEq(mm.Radius, 0.405/2*25.4) || !relEq(mm.HexFlat2Flat, tp.HexFlat2Flat*25.4) {
			bad("ToMillimetre:taper", "npt_1/8", "npt_1/8 in mm: %+v", *mm)
		}
	}

	// handedness anchors: M8x1.25 external, 8 pitches long. A point 0.3 pitch under the
	// crest radius, a quarter turn counter-clockwise (seen from +z) from the crest at
	// (r,0,0): a right-handed 1-start thread has its crest there at z=+pitch/4 and its
	// root at z=-pitch/4; left-handed the other way round; 2 starts: crest at z=pitch/2.
	{
		r, p := 4.0, 1.25
		prof, err := sdf.ISOThread(r, p, true)
		if err != nil {
			t.Fatalf("ISOThread: %v", err)
		}
		rho := r - 0.3*p
		for _, c := range []struct {
			starts        int
			zCrest, zRoot float64
		}{
			{1, p / 4, -p / 4},
			{-1, -p / 4, p / 4},
			{2, p / 2, 0},
			{-2, -p / 2, 0},
			{3, 3 * p / 4, p / 4},
			{4, 0, p / 2},
		} {
			s, err := sdf.Screw3D(prof, 8*p, 0, p, c.starts)
			if err != nil {
				t.Fatalf("Screw3D: %v", err)
			}
			fc := s.Evaluate(v3.Vec{X: 0, Y: rho, Z: c.zCrest})
			fr := s.Evaluate(v3.Vec{X: 0, Y: rho, Z: c.zRoot})
			rec.Case(true, ev.Key("regress|hand", c.starts), "regress")
			if !(fc < -0.1*p) || !(fr > 0.1*p) {
				bad("Screw3D:handedness:crest-not-on-right-handed-helix", "M8 quarter turn", "M8x1.25 external starts=%d at (0,%v,.): f(z=%v)=%v want <0 (crest), f(z=%v)=%v want >0 (root)", c.starts, rho, c.zCrest, fc, c.zRoot, fr)
			}
			// one full turn advances by starts*pitch: same value half a turn apart when
			// advanced by starts*pitch/2
			a := s.Evaluate(v3.Vec{X: rho, Y: 0, Z: 0.1 * p})
			b := s.Evaluate(v3.Vec{X: -rho, Y: 0, Z: 0.1*p + float64(c.starts)*p/2})
			if math.Abs(a-b) > 1e-9*(r+p) {
				bad("Screw3D:helical-invariance", "M8 half turn", "M8x1.25 external starts=%d: f(rho,0,0.1p)=%v but f(-rho,0,0.1p+starts*p/2)=%v", c.starts, a, b)
			}
			c2 := s.Evaluate(v3.Vec{X: rho, Y: 0, Z: 0.1*p + 2*p})
			if math.Abs(a-c2) > 1e-9*(r+p) {
				bad("Screw3D:z-periodicity", "M8 two pitches", "M8x1.25 external starts=%d: f(z)=%v f(z+2 pitch)=%v", c.starts, a, c2)
			}
		}
	}

	// mating anchors at tolerance 0 (flanks, crest and root coincide by design)
	for _, name := range []string{"M8x1.25", "M1x0.2", "unc_1/4", "npt_1/2", "npt_4"} {
		r, p, taper, _, err := lookup(name, false)
		if err != nil {
			continue
		}
		m, err := newPair(name, r, p, taper, 0, 0, 6*p, 6*p)
		if err != nil {
			t.Fatalf("%s: %v", name, err)
		}
		h := p / (2 * math.Tan(math.Pi/6))
		r0 := r - 7.0/8.0*h
		for _, pt := range []struct {
			what   string
			rho, z float64
		}{
			{"just under the crest flat", r - 1e-6*p, 0},
			{"crest corner", r - 1e-6*p, p / 16 * 0.999},
			{"mid flank, just inside", r - 0.4*h - 1e-6*p, p/16 + 0.4*h*math.Tan(math.Pi/6)},
			{"root fillet bottom (fold seam)", r0 + p/8/math.Cos(math.Pi/6) - 1e-6*p, p / 2},
			{"root fillet side", r0 + 0.2*p, 0.45 * p},
			{"other flank", r - 0.6*h - 1e-6*p, -(p/16 + 0.6*h*math.Tan(math.Pi/6))},
		} {
			// theta = 0; a tapered thread is evaluated at its own centre plane offsets too
			p3 := v3.Vec{X: pt.rho - pt.z*math.Atan(taper), Y: 0, Z: pt.z}
			rec.Case(true, ev.Key("regress|mate", name, pt.what), "regress")
			if badp, e, nm := m.interpenetrates(p3); badp {
				bad("thread-mating:external-intersects-nut-material:"+seriesClassByTaper(taper), name+" "+pt.what, "%s %s: p=%v ext=%v nutMaterial=%v", name, pt.what, p3, e, nm)
			}
		}
	}
	// FINDING (root cause: property C04, polygon quadtree of sdf/mesh2.go, seen through a
	// thread profile): on the cylinder radius == r/2 (the horizontal split line of the
	// profile polygon's root quadtree cell, which is 1 ulp above r/2 here) the winding
	// count loses the polygon edges x = +-pitch and the whole screw core reads OUTSIDE.
	// Found by TestHelix (helical invariance, seed 1). Subtests: each fails until fixed.
	t.Run("finding-quadtree-split-line", func(t *testing.T) {
		bad := func(key, what, format string, args ...any) {
			rec.FailCase(t, "TestRegress", key, regressCase{what}, format, args...)
		}
		r, p := 10.934140401840008, 1.0009770394924165
		prof, err := sdf.ANSIButtressThread(r, p)
		if err != nil {
			t.Fatalf("ANSIButtressThread: %v", err)
		}
		s, err := sdf.Screw3D(prof, p, 0, p, 1)
		if err != nil {
			t.Fatalf("Screw3D: %v", err)
		}
		pt := v3.Vec{X: -5.467070200920004, Y: 0, Z: 0.13224964583229332}
		img := v3.Vec{X: 0.48853862075746046, Y: 5.445198490212813, Z: -0.13224964583229332}
		f0, f1 := s.Evaluate(pt), s.Evaluate(img)
		rec.Case(true, "regress|quadtree-split-line", "regress")
		if math.Abs(f0-f1) > 1e-9*(r+p) {
			bad("Screw3D:field-jumps-at-isolated-radius(profile-polygon-quadtree)", "ansi-buttress r/2",
				"ANSIButtressThread(%v,%v), Screw3D(len=pitch, starts=1): f%v=%v but its helical image %v has f=%v (and so have the points 1 ulp of radius away: %v, %v)",
				r, p, pt, f0, img, f1, s.Evaluate(scaleXY(pt, 1+0x1p-52)), s.Evaluate(scaleXY(pt, 1-0x1p-52)))
		}
	})

	// FINDING (same root cause family, C04 "dropped pieces"): the internal profile that
	// obj.Nut / a user builds for M1.6x0.2 with tolerance 0.05168439571940547
	// (ISOThread(0.8516843957194055, 0.2, false)) loses the upper part of its right flank
	// in the quadtree (a polygon vertex lies within the library's 1e-9 snap distance of a
	// cell border), so between rMinor and the groove peak the groove reads OUTSIDE and the
	// nut material left of the groove reads INSIDE: the generated nut thread is garbage
	// in that band and the M1.6 external thread "intersects" it by 0.13 pitch.
	// Found by TestMating (thorough tier).
	t.Run("finding-dropped-flank-piece", func(t *testing.T) {
		name, tolI := "M1.6x0.2", 0.05168439571940547
		r, p, taper, _, err := lookup(name, false)
		if err != nil {
			t.Fatalf("%v", err)
		}
		m, err := newPair(name, r, p, taper, 0, tolI, 2*p, 2*p)
		if err != nil {
			t.Fatalf("%v", err)
		}
		pt := v3.Vec{X: -0.7758827305715199, Y: 0, Z: -0.12642411176571156}
		rec.Case(true, "regress|dropped-flank-piece", "regress")
		if badp, e, nm := m.interpenetrates(pt); badp {
			key := "thread-mating:external-intersects-nut-material:straight"
			why := ""
			if u, w := m.unstable(pt); u {
				key, why = keyProfileFlip, w
			}
			rec.FailCase(t, "TestRegress", key, regressCase{name + " tol_int " + ev.F(tolI)}, "%s: p=%v ext=%v nutMaterial=%v: %s", m, pt, e, nm, why)
		}
	})
}
