package c18

// (c) mating: the external thread of a designation never intersects the material that
// is left after cutting the matching internal thread.

import (
	"fmt"
	"math"
	"testing"

	"github.com/deadsy/sdfx/obj"
	"github.com/deadsy/sdfx/sdf"
	v3 "github.com/deadsy/sdfx/vec/v3"
	"pgregory.net/rapid"

	"verif/internal/ev"
	"verif/internal/g"
)

// pair is one external/internal thread pair of a designation.
type pair struct {
	name         string
	r, pitch     float64 // as used (native unit or mm)
	taper        float64
	tolE, tolI   float64
	lenE, lenN   float64 // thread length of the bolt, height of the nut
	ext, int_    sdf.SDF3
	bodyR        float64 // outer radius of the nut body
	alpha, shift float64 // nut frame = bolt frame rotated by alpha about z and moved by shift along z
	eps          float64
}

func (m *pair) String() string {
	return fmt.Sprintf("%s r=%s pitch=%s taper=%s tol_ext=%s tol_int=%s len_ext=%s len_nut=%s nut@(rot %s, z %s)",
		m.name, ev.F(m.r), ev.F(m.pitch), ev.F(m.taper), ev.F(m.tolE), ev.F(m.tolI), ev.F(m.lenE), ev.F(m.lenN), ev.F(m.alpha), ev.F(m.shift))
}

func newPair(name string, r, pitch, taper, tolE, tolI, lenE, lenN float64) (*pair, error) {
	pe, err := sdf.ISOThread(r-tolE, pitch, true)
	if err != nil {
		return nil, err
	}
	pi, err := sdf.ISOThread(r+tolI, pitch, false)
	if err != nil {
		return nil, err
	}
	e, err := sdf.Screw3D(pe, lenE, taper, pitch, 1)
	if err != nil {
		return nil, err
	}
	i, err := sdf.Screw3D(pi, lenN, taper, pitch, 1)
	if err != nil {
		return nil, err
	}
	return &pair{name: name, r: r, pitch: pitch, taper: taper, tolE: tolE, tolI: tolI, lenE: lenE, lenN: lenN,
		ext: e, int_: i, bodyR: 1.5*(r+tolI) + pitch + 0.04*math.Max(lenE, lenN), eps: 1e-9 * pitch}, nil
}

// toNut maps a bolt-frame point into the nut frame.
func (m *pair) toNut(p v3.Vec) v3.Vec {
	if m.alpha == 0 {
		return v3.Vec{X: p.X, Y: p.Y, Z: p.Z - m.shift}
	}
	c, s := math.Cos(-m.alpha), math.Sin(-m.alpha)
	return v3.Vec{X: c*p.X - s*p.Y, Y: s*p.X + c*p.Y, Z: p.Z - m.shift}
}

// nutMaterial = max(body, -internalThread); body = plain cylinder (own arithmetic,
// only its sign matters).
func (m *pair) nutMaterial(q v3.Vec) (float64, float64) {
	body := math.Max(math.Hypot(q.X, q.Y)-m.bodyR, math.Abs(q.Z)-m.lenN/2)
	in := m.int_.Evaluate(q)
	return math.Max(body, -in), in
}

// interpenetrates reports ext(p) < -eps and nutMaterial(p) < -eps.
func (m *pair) interpenetrates(p v3.Vec) (bool, float64, float64) {
	e := m.ext.Evaluate(p)
	n, _ := m.nutMaterial(m.toNut(p))
	return e < -m.eps && n < -m.eps, e, n
}

const keyProfileFlip = "thread-mating:profile-sign-unstable-under-1e-6-pitch-radius-change(profile-polygon-quadtree)"

// unstable diagnoses a mating failure: rebuild both threads with the nominal radius
// moved by 1e-6*pitch and evaluate them at the same point. A rigid shift of a profile
// changes its distance field by at most the shift; a change of more than 1e-4*pitch
// means the profile polygon flips sign there (dropped / untiled quadtree pieces, the
// C04 defect class) - the failure is then reported under keyProfileFlip.
func (m *pair) unstable(p v3.Vec) (bool, string) {
	d := 1e-6 * m.pitch
	for _, sgn := range []float64{1, -1} {
		m2, err := newPair(m.name, m.r+sgn*d, m.pitch, m.taper, m.tolE, m.tolI, m.lenE, m.lenN)
		if err != nil {
			continue
		}
		m2.alpha, m2.shift = m.alpha, m.shift
		q := m.toNut(p)
		e1, e2 := m.ext.Evaluate(p), m2.ext.Evaluate(p)
		i1, i2 := m.int_.Evaluate(q), m2.int_.Evaluate(q)
		if math.Abs(e1-e2) > 100*d {
			return true, fmt.Sprintf("external thread field %v becomes %v when the radius moves by %v", e1, e2, sgn*d)
		}
		if math.Abs(i1-i2) > 100*d {
			return true, fmt.Sprintf("internal thread field %v becomes %v when the radius moves by %v", i1, i2, sgn*d)
		}
	}
	return false, ""
}

// flankRho finds, on the radial ray (dir, z) of the bolt frame, the radius where the
// external thread surface is crossed (regula falsi with the Illinois rule on the
// library's own field; this only AIMS points, it decides nothing).
func (m *pair) flankRho(cx, cy, z float64) (float64, bool) {
	f := func(rho float64) float64 { return m.ext.Evaluate(v3.Vec{X: rho * cx, Y: rho * cy, Z: z}) }
	slack := 0.04 * math.Abs(z)
	a := math.Max(0.05*m.r, m.r-m.tolE-1.5*m.pitch-slack)
	b := m.r + 0.5*m.pitch + slack
	fa, fb := f(a), f(b)
	if !(fa < 0 && fb > 0) {
		return 0, false
	}
	side := 0
	for it := 0; it < 40 && b-a > 1e-13*m.r; it++ {
		c := (a*fb - b*fa) / (fb - fa)
		if !(c > a && c < b) {
			c = 0.5 * (a + b)
		}
		fc := f(c)
		if fc == 0 {
			return c, true
		}
		if fc < 0 {
			a, fa = c, fc
			if side == -1 {
				fb /= 2
			}
			side = -1
		} else {
			b, fb = c, fc
			if side == 1 {
				fa /= 2
			}
			side = 1
		}
		if math.Abs(fc) < 1e-13*m.pitch {
			return c, true
		}
	}
	return 0.5 * (a + b), true
}

// matePoint: one generated probe. Returns the point, its class, whether flank-aimed.
func (m *pair) drawPoint(t *rapid.T, l string) (v3.Vec, string) {
	cx, cy, _ := drawDir(t, l+".dir")
	// z range: the overlap of both threads in the bolt frame (plus a little outside)
	lo := math.Max(-m.lenE/2, m.shift-m.lenN/2)
	hi := math.Min(m.lenE/2, m.shift+m.lenN/2)
	var z float64
	switch rapid.IntRange(0, 7).Draw(t, l+".zk") {
	case 0:
		z = lo + g.LogUniform(t, l+".zm", 1e-9, 0.5)*m.pitch
	case 1:
		z = hi - g.LogUniform(t, l+".zm", 1e-9, 0.5)*m.pitch
	case 2:
		// a little outside the overlap
		ext := 0.6 * math.Max(m.lenE, m.lenN)
		z = rapid.Float64Range(-ext, ext).Draw(t, l+".z")
	default:
		z = lo + rapid.Float64Range(0, 1).Draw(t, l+".zf")*(hi-lo)
	}
	kind := rapid.IntRange(0, 9).Draw(t, l+".pk")
	if kind >= 2 {
		if rho, ok := m.flankRho(cx, cy, z); ok {
			var d float64
			switch rapid.IntRange(0, 5).Draw(t, l+".dk") {
			case 0:
				d = 0
			case 1:
				d = 2e-9 * m.pitch // just beyond eps inside the external thread
			case 2:
				d = -g.LogUniform(t, l+".d", 1e-9, 0.05) * m.pitch // outside
			default:
				d = g.LogUniform(t, l+".d", 1e-9, 0.05) * m.pitch // inside
			}
			rho -= d
			if rho < 0 {
				rho = 0
			}
			return v3.Vec{X: rho * cx, Y: rho * cy, Z: z}, "flank"
		}
		// no sign change on the ray (outside the length, ...): generic point instead
	}
	var rho float64
	if kind == 0 {
		rho = rapid.Float64Range(0, 1.1).Draw(t, l+".rho") * m.bodyR
	} else {
		rho = m.r + rapid.Float64Range(-1.5, 1).Draw(t, l+".rho")*m.pitch
		if rho < 0 {
			rho = 0
		}
	}
	return v3.Vec{X: rho * cx, Y: rho * cy, Z: z}, "generic"
}

// drawEntry picks a designation. rapid's single draws favour the ends of a range
// (measured: 20x between most and least frequent of 82); the sum of three draws
// modulo the table size is flat within 2x and still shrinks towards entry 0.
func drawEntry(t *rapid.T) stdThread {
	n := len(stdTable)
	i := rapid.IntRange(0, n-1).Draw(t, "designation.a") + rapid.IntRange(0, n-1).Draw(t, "designation.b") + rapid.IntRange(0, n-1).Draw(t, "designation.c")
	return stdTable[i%n]
}

var tolClasses = []string{"zero", "tiny", "small", "medium", "large"}

func drawTol(t *rapid.T, label string, pitch float64) (float64, string) {
	c := rapid.SampledFrom(tolClasses).Draw(t, label+".class")
	switch c {
	case "zero":
		return 0, c
	case "tiny":
		return g.LogUniform(t, label, 1e-3, 1e-2) * pitch, c
	case "small":
		return g.LogUniform(t, label, 1e-2, 5e-2) * pitch, c
	case "medium":
		return g.LogUniform(t, label, 5e-2, 0.2) * pitch, c
	default:
		return g.LogUniform(t, label, 0.2, 0.5) * pitch, c
	}
}

// lookup returns radius, pitch, taper of a designation, in native units or in mm.
func lookup(name string, mm bool) (r, pitch, taper float64, tp *sdf.ThreadParameters, err error) {
	tp, err = sdf.ThreadLookup(name)
	if err != nil {
		return
	}
	if mm {
		tp = tp.ToMillimetre()
	}
	return tp.Radius, tp.Pitch, tp.Taper, tp, nil
}

func TestMating(t *testing.T) {
	rec := ev.Get()
	rapid.Check(t, func(t *rapid.T) {
		std := drawEntry(t)
		mm := rapid.Bool().Draw(t, "mm")
		r, pitch, taper, _, err := lookup(std.name, mm)
		if err != nil {
			rec.Violation(t, "ThreadLookup:standard-designation-missing", "%s: %v", std.name, err)
			return
		}
		tolE, ce := drawTol(t, "tolE", pitch)
		tolI, ci := drawTol(t, "tolI", pitch)
		lenE := rapid.Float64Range(1, 20).Draw(t, "lenE") * pitch
		lenN := rapid.Float64Range(1, 20).Draw(t, "lenN") * pitch
		if rapid.IntRange(0, 3).Draw(t, "samelen") == 0 {
			lenN = lenE
		}
		m, err := newPair(std.name, r, pitch, taper, tolE, tolI, lenE, lenN)
		if err != nil {
			t.Fatalf("constructing the threads of %s (tolE %v tolI %v): %v", std.name, tolE, tolI, err)
		}
		place := "centred"
		if taper == 0 {
			// an untapered nut may sit anywhere along the bolt after being screwed on:
			// rotate by alpha and advance by pitch*alpha/(2 pi) (right-handed, 1 start)
			switch rapid.IntRange(0, 3).Draw(t, "place") {
			case 1:
				k := rapid.IntRange(-10, 10).Draw(t, "k")
				m.shift = float64(k) * pitch
				place = "whole-pitches"
			case 2:
				m.alpha = rapid.Float64Range(-4*math.Pi, 4*math.Pi).Draw(t, "alpha")
				m.shift = pitch * m.alpha / (2 * math.Pi)
				place = "screwed"
			}
			if math.Abs(m.shift) >= (lenE+lenN)/2-0.5*pitch {
				m.alpha, m.shift, place = 0, 0, "centred"
			}
		}
		n := rapid.IntRange(8, 32).Draw(t, "npoints")
		near := 0
		for i := 0; i < n; i++ {
			p, class := m.drawPoint(t, fmt.Sprintf("p%d", i))
			bad, e, nm := m.interpenetrates(p)
			rec.Add("mate:points", 1)
			rec.Add("mate:points-"+class, 1)
			if math.Abs(e) < 0.05*pitch && nm < 0.5*pitch {
				near++
				rec.Add("mate:points-within-0.05pitch-of-flank", 1)
			}
			if e < -m.eps {
				rec.Add("mate:points-inside-external", 1)
			}
			if bad {
				if u, why := m.unstable(p); u {
					rec.Violation(t, keyProfileFlip, "%s: p=%v ext=%v nutMaterial=%v: %s", m, p, e, nm, why)
					continue
				}
				rec.Violation(t, "thread-mating:external-intersects-nut-material:"+seriesClass(std.series), "%s: p=%v ext=%v nutMaterial=%v (eps %v)", m, p, e, nm, m.eps)
			}
		}
		rec.Case(near > 0, ev.Key("mate", m.String(), n, near),
			"mate:series="+std.series, "mate:tolE="+ce, "mate:tolI="+ci, "mate:place="+place, fmt.Sprintf("mate:mm=%v", mm))
		rec.Label("mate:entry=" + std.name)
		rec.Sample("mate:"+std.series, map[string]any{"pair": m.String(), "points": n, "near_flank": near})
	})
}

func seriesClass(series string) string {
	if series == "npt" {
		return "tapered"
	}
	return "straight"
}

// ---------------------------------------------------------------------------
// exhaustive: EVERY designation x fixed tolerance pairs x lengths x a deterministic
// (low-discrepancy, seed-rotated) set of flank-aimed rays. Plain test, sharded by entry.

type mateCase struct {
	Name       string  `json:"name"`
	MM         bool    `json:"mm"`
	TolE, TolI float64 // fractions of the pitch
	LenE, LenN float64 // in pitches
	P          v3.Vec  `json:"p"`
}

func vdc(i uint64, base uint64) float64 {
	f, r := 1.0, 0.0
	for i > 0 {
		f /= float64(base)
		r += f * float64(i%base)
		i /= base
	}
	return r
}

func frac(x float64) float64 { return x - math.Floor(x) }

var fixedTols = [][2]float64{{0, 0}, {0, 0.01}, {0.01, 0}, {0.1, 0.1}, {0.5, 1e-3}, {1e-3, 0.5}}
var fixedLens = [][2]float64{{1, 1}, {6, 3}, {3, 6}, {20, 20}}

func runMateCase(t *testing.T, rec *ev.Rec, c mateCase, count bool) {
	r, pitch, taper, _, err := lookup(c.Name, c.MM)
	if err != nil {
		rec.FailCase(t, "TestMatingAll", "ThreadLookup:standard-designation-missing", c, "%s: %v", c.Name, err)
		return
	}
	m, err := newPair(c.Name, r, pitch, taper, c.TolE*pitch, c.TolI*pitch, c.LenE*pitch, c.LenN*pitch)
	if err != nil {
		t.Fatalf("%s: %v", c.Name, err)
	}
	bad, e, nm := m.interpenetrates(c.P)
	if bad {
		if u, why := m.unstable(c.P); u {
			rec.FailCase(t, "TestMatingAll", keyProfileFlip, c, "%s: p=%v ext=%v nutMaterial=%v: %s", m, c.P, e, nm, why)
			return
		}
		rec.FailCase(t, "TestMatingAll", "thread-mating:external-intersects-nut-material:"+seriesClassByTaper(taper), c, "%s: p=%v ext=%v nutMaterial=%v", m, c.P, e, nm)
	}
}

func seriesClassByTaper(taper float64) string {
	if taper != 0 {
		return "tapered"
	}
	return "straight"
}

func TestMatingAll(t *testing.T) {
	rec := ev.Get()
	var rc mateCase
	if ev.LoadReplay("TestMatingAll", &rc) {
		runMateCase(t, rec, rc, false)
		return
	}
	shard, nshards := ev.Shard()
	rays := ev.Pick(800, 12000)
	seed := ev.Seed()
	rot1, rot2, rot3 := vdc(seed%1000003, 2), vdc(seed%1000033, 3), vdc(seed%1000037, 5)
	depths := []float64{2e-9, 1e-6, 1e-3, 0.02}
	for idx, std := range stdTable {
		if idx%nshards != shard {
			continue
		}
		for _, mm := range []bool{false, true} {
			if mm && !std.inch() {
				continue // identical to native
			}
			r, pitch, taper, _, err := lookup(std.name, mm)
			if err != nil {
				rec.FailCase(t, "TestMatingAll", "ThreadLookup:standard-designation-missing", mateCase{Name: std.name}, "%s: %v", std.name, err)
				continue
			}
			for ti, tl := range fixedTols {
				for li, ln := range fixedLens {
					m, err := newPair(std.name, r, pitch, taper, tl[0]*pitch, tl[1]*pitch, ln[0]*pitch, ln[1]*pitch)
					if err != nil {
						t.Fatalf("%s: %v", std.name, err)
					}
					overlap := math.Min(m.lenE, m.lenN)
					near, bracket := 0, 0
					for i := 0; i < rays; i++ {
						u := uint64(i + 1 + 7919*(ti*len(fixedLens)+li))
						th := (frac(vdc(u, 2)+rot1)*2 - 1) * math.Pi
						zf := frac(vdc(u, 3) + rot2)
						z := (zf - 0.5) * overlap * 0.999999
						switch i % 10 {
						case 0:
							th = math.Pi // on the branch cut
						case 1:
							th = 0
						case 2: // on the fold seam of the pitch sawtooth: z - pitch*th/2pi = pitch/2 (mod pitch)
							z = pitch*th/(2*math.Pi) + pitch/2
							z -= pitch * math.Round(z/pitch)
							if math.Abs(z) >= overlap/2 {
								z = 0
							}
						}
						cx, cy := math.Cos(th), math.Sin(th)
						if i%10 == 0 {
							cx, cy = -1, 0
							if i%20 == 0 {
								cy = math.Copysign(0, -1)
							}
						}
						rho, ok := m.flankRho(cx, cy, z)
						if !ok {
							continue
						}
						bracket++
						d := depths[int(frac(vdc(u, 5)+rot3)*float64(len(depths)))%len(depths)] * pitch
						p := v3.Vec{X: (rho - d) * cx, Y: (rho - d) * cy, Z: z}
						bad, e, nm := m.interpenetrates(p)
						if math.Abs(e) < 0.05*pitch {
							near++
						}
						if bad {
							c := mateCase{Name: std.name, MM: mm, TolE: tl[0], TolI: tl[1], LenE: ln[0], LenN: ln[1], P: p}
							if u, why := m.unstable(p); u {
								rec.FailCase(t, "TestMatingAll", keyProfileFlip, c, "%s: p=%v ext=%v nutMaterial=%v: %s", m, p, e, nm, why)
								continue
							}
							rec.FailCase(t, "TestMatingAll", "thread-mating:external-intersects-nut-material:"+seriesClassByTaper(taper), c, "%s: p=%v ext=%v nutMaterial=%v (eps %v)", m, p, e, nm, m.eps)
						}
					}
					rec.Add("mateall:rays", int64(rays))
					rec.Add("mateall:rays-with-flank", int64(bracket))
					rec.Add("mateall:points-within-0.05pitch-of-flank", int64(near))
					rec.Case(near > 0, ev.Key("mateall", std.name, mm, ti, li, seed), "mateall:series="+std.series, fmt.Sprintf("mateall:tol=%v/%v", tl[0], tl[1]))
				}
			}
		}
		rec.Label("mateall:entries")
	}
}

// ---------------------------------------------------------------------------
// the assembled objects: obj.Bolt and obj.Nut of the same designation, the nut moved
// onto the centre of the bolt's threaded part.

func TestBoltNut(t *testing.T) {
	rec := ev.Get()
	rapid.Check(t, func(t *rapid.T) {
		std := drawEntry(t)
		tp, err := sdf.ThreadLookup(std.name)
		if err != nil {
			rec.Violation(t, "ThreadLookup:standard-designation-missing", "%s: %v", std.name, err)
			return
		}
		before := *tp // the database entry as it is before the parts are built
		pitch, r := tp.Pitch, tp.Radius
		tolE, ce := drawTol(t, "tolE", pitch)
		tolI, ci := drawTol(t, "tolI", pitch)
		nutH := tp.HexHeight()
		// thread length >= nut height so that the whole nut sits on the threaded part
		threadLen := nutH * (1 + g.LogUniform(t, "extra", 1e-3, 3))
		if rapid.IntRange(0, 4).Draw(t, "exact") == 0 {
			threadLen = nutH
		}
		shank := 0.0
		if rapid.Bool().Draw(t, "shank") {
			shank = g.LogUniform(t, "shankLen", 0.1, 10) * pitch
		}
		bstyle := rapid.SampledFrom([]string{"hex", "knurl"}).Draw(t, "boltStyle")
		nstyle := rapid.SampledFrom([]string{"hex", "knurl"}).Draw(t, "nutStyle")
		bp := &obj.BoltParms{Thread: std.name, Style: bstyle, Tolerance: tolE, TotalLength: threadLen + shank, ShankLength: shank}
		np := &obj.NutParms{Thread: std.name, Style: nstyle, Tolerance: tolI}
		// other parts of the same designation may have been built first (a tapped block, with its own
		// tolerance): building parts must leave the database entry as it was
		if k := rapid.IntRange(0, 2).Draw(t, "tapped-blocks-first"); k > 0 {
			for i := 0; i < k; i++ {
				tc := &obj.ThreadedCylinderParms{Height: 2 * nutH, Diameter: 6 * r, Thread: std.name, Tolerance: tolI}
				if _, err := tc.Object(); err != nil {
					t.Fatalf("ThreadedCylinderParms.Object(%+v): %v", *tc, err)
				}
			}
			rec.Add("boltnut:tapped-blocks-built-first", 1)
			// the tapped hole itself (ThreadedCylinderParms works in millimetres whatever the units of the
			// designation): a block three thread radii in radius, cut at tolerance 0 - a point at
			// 0.6 of the nominal radius lies in the hole, a point at twice the nominal radius lies in the material
			mm := tp.ToMillimetre()
			blk, err := (&obj.ThreadedCylinderParms{Height: 12 * mm.Pitch, Diameter: 6 * mm.Radius, Thread: std.name, Tolerance: 0}).Object()
			if err != nil {
				t.Fatalf("ThreadedCylinderParms.Object (mm block) for %s: %v", std.name, err)
			}
			a := g.Angle(t, "tapped.angle")
			at := func(f float64) float64 {
				return blk.Evaluate(v3.Vec{X: f * mm.Radius * math.Cos(a), Y: f * mm.Radius * math.Sin(a), Z: 0.3 * mm.Pitch})
			}
			if v1, v2 := at(0.6), at(2); !(v1 > 0 && v2 < 0) {
				rec.Violation(t, "ThreadedCylinderParms:hole-does-not-have-the-thread-radius", "%s (nominal radius %v mm, pitch %v mm), block of radius %v mm tapped at tolerance 0: value %v at 0.6 of the radius (must be in the hole, > 0), %v at twice the radius (must be material, < 0)", std.name, mm.Radius, mm.Pitch, 3*mm.Radius, v1, v2)
			}
		}
		bolt, err := obj.Bolt(bp)
		if err != nil {
			t.Fatalf("obj.Bolt(%+v): %v", *bp, err)
		}
		nut, err := obj.Nut(np)
		if err != nil {
			t.Fatalf("obj.Nut(%+v): %v", *np, err)
		}
		if after, err := sdf.ThreadLookup(std.name); err != nil || *after != before {
			rec.Violation(t, "ThreadLookup:entry-changed-by-building-parts", "%s: entry was %+v before obj.Bolt / obj.Nut / ThreadedCylinderParms.Object (tolerances %v, %v) and is %+v afterwards (err %v)", std.name, before, tolE, tolI, after, err)
			*after = before // restore for the cases that follow in this process
		}
		// bolt.go: the head is centred on the origin, the shank spans [0, ShankLength+hh/2],
		// the thread of length TotalLength-ShankLength follows.
		actualThread := bp.TotalLength - bp.ShankLength
		centre := actualThread/2 + bp.ShankLength + tp.HexHeight()/2
		eps := 1e-9 * pitch
		// aim with a bare external thread of the same parameters (aiming only)
		aim, err := newPair(std.name, r, pitch, tp.Taper, tolE, tolI, actualThread, nutH)
		if err != nil {
			t.Fatalf("%v", err)
		}
		n := rapid.IntRange(8, 24).Draw(t, "npoints")
		near := 0
		for i := 0; i < n; i++ {
			q, class := aim.drawPoint(t, fmt.Sprintf("p%d", i)) // nut frame == thread frame
			if math.Abs(q.Z) > nutH/2 {
				q.Z = math.Copysign(nutH/2*rapid.Float64Range(0, 1).Draw(t, fmt.Sprintf("p%d.zc", i)), q.Z)
			}
			nv := nut.Evaluate(q)
			bv := bolt.Evaluate(v3.Vec{X: q.X, Y: q.Y, Z: q.Z + centre})
			rec.Add("boltnut:points", 1)
			rec.Add("boltnut:points-"+class, 1)
			if math.Abs(bv) < 0.05*pitch && nv < 0.5*pitch {
				near++
				rec.Add("boltnut:points-within-0.05pitch-of-flank", 1)
			}
			if bv < -eps && nv < -eps {
				if u, why := aim.unstable(q); u {
					rec.Violation(t, keyProfileFlip, "bolt %+v nut %+v: point %v (nut frame) bolt=%v nut=%v: bare threads: %s", *bp, *np, q, bv, nv, why)
					continue
				}
				rec.Violation(t, "obj.Bolt/obj.Nut:interpenetrate:"+seriesClass(std.series), "bolt %+v nut %+v (nut centred at z=%v of the bolt): point %v (nut frame) bolt=%v nut=%v eps=%v", *bp, *np, centre, q, bv, nv, eps)
			}
		}
		rec.Case(near > 0, ev.Key("boltnut", *bp, *np, n, near), "boltnut:series="+std.series, "boltnut:bolt="+bstyle, "boltnut:nut="+nstyle, "boltnut:tolE="+ce, "boltnut:tolI="+ci)
		rec.Label("boltnut:entry=" + std.name)
		rec.Sample("boltnut:"+std.series, map[string]any{"bolt": *bp, "nut": *np, "nut_centre_z": centre, "points": n})
	})
}
