package c14

// Structured generators of hostile STL file contents and the check's own
// (independent, encoding/binary by hand) binary STL writer.

import (
	"encoding/binary"
	"fmt"
	"math"
	"strings"

	"pgregory.net/rapid"
)

// ---------------------------------------------------------------------------
// own binary writer

func putF32(b []byte, bits uint32) { binary.LittleEndian.PutUint32(b, bits) }

// buildBinary assembles header(80) + count(4) + records(50 each).
func buildBinary(header []byte, count uint32, recs [][50]byte) []byte {
	out := make([]byte, 84, 84+50*len(recs))
	copy(out[:80], header)
	binary.LittleEndian.PutUint32(out[80:], count)
	for i := range recs {
		out = append(out, recs[i][:]...)
	}
	return out
}

var f32Specials = []uint32{
	0x00000000, 0x80000000, // +-0
	0x3f800000, 0xbf800000, // +-1
	0x7f800000, 0xff800000, // +-Inf
	0x7fc00000, 0xffc00001, 0x7f800001, // NaNs
	0x00000001, 0x807fffff, // subnormals
	0x7f7fffff, 0xff7fffff, // +-max
	0x00800000,             // min normal
	0x0a0a0a0a, 0x20202020, // text-like
}

func drawF32Bits(t *rapid.T, label string) uint32 {
	switch rapid.IntRange(0, 3).Draw(t, label+".k") {
	case 0:
		return math.Float32bits(float32(rapid.IntRange(-100, 100).Draw(t, label)))
	case 1:
		return rapid.SampledFrom(f32Specials).Draw(t, label)
	case 2:
		return math.Float32bits(float32(rapid.Float64Range(-1000, 1000).Draw(t, label)))
	default:
		return rapid.Uint32().Draw(t, label)
	}
}

func drawRecord(t *rapid.T, label string) [50]byte {
	var r [50]byte
	for k := 0; k < 12; k++ {
		putF32(r[4*k:], drawF32Bits(t, fmt.Sprintf("%s.f%d", label, k)))
	}
	if rapid.IntRange(0, 3).Draw(t, label+".attr") == 0 {
		binary.LittleEndian.PutUint16(r[48:], rapid.Uint16().Draw(t, label+".attrv"))
	}
	return r
}

func drawHeader(t *rapid.T) []byte {
	h := make([]byte, 80)
	switch rapid.IntRange(0, 4).Draw(t, "hdr") {
	case 0: // zeros
	case 1:
		copy(h, "solid binary-with-an-ascii-looking-header\n")
	case 2:
		copy(h, "vertex 1 2 3\nvertex 4 5 6\n")
	case 3:
		copy(h, rapid.SliceOfN(rapid.Byte(), 80, 80).Draw(t, "hdrbytes"))
	default:
		for i := range h {
			h[i] = ' '
		}
	}
	return h
}

// drawRecords draws n records: up to 24 individually, the rest by repeating
// them with the record index stamped into the first vertex.
func drawRecords(t *rapid.T, n int) [][50]byte {
	m := n
	if m > 24 {
		m = 24
	}
	recs := make([][50]byte, 0, n)
	for i := 0; i < m; i++ {
		recs = append(recs, drawRecord(t, fmt.Sprintf("r%d", i)))
	}
	for i := m; i < n; i++ {
		r := recs[i%m]
		putF32(r[12:], math.Float32bits(float32(i)))
		recs = append(recs, r)
	}
	return recs
}

// ---------------------------------------------------------------------------
// ASCII pieces

var goodNumbers = []string{"0", "1", "-1", "0.5", "1.5e3", "-2.25E-2", "1e30", "-1e-30", "3.4028235e38", "25.4", "+7", "1e-320", "0.000000e+00"}

var badNumbers = []string{"", "abc", "1.2.3", "1e", "e5", "--1", "+-1", "1,5", "0x1p-2", "0x10", "1_000", "NaN", "nan", "Inf", "-inf", "+Infinity",
	"1e999", "-1e999", "1e-999", "１", "1\x00", "\x00", "1f", "1d0", ".", "-", "+", "0e", "1e+", "9999999999999999999999999999999999999999999999999999999999999999999999", "1.0\xff", "∞", "1/2", "0b1", "0o7", "1e5e5", "infinit", "nano"}

var strayLines = []string{"", " ", "vertex", "vertex 1 2", "vertex 1 2 3 4", "vertex 1 2 3 # comment", "VERTEX 1 2 3", "Vertex 1 2 3", "vertexx 1 2 3", "vertex1 2 3", "vert ex 1 2 3",
	"facet", "facet normal", "facet normal 0 0", "endloop", "endloop endfacet", "outer loop outer loop", "endsolid", "solid again", "color 1 0 0", "# comment", "// comment",
	"\x00\x00\x00\x00", "\xff\xfe", "vertex 1 2 3", "vertex\v1\f2\u00853", "\ufeffvertex 1 2 3", "a b c d", "1 2 3 vertex", "vertex vertex vertex vertex", "\tvertex\t1\t2\t3\t"}

type asciiFile struct {
	lines   []string
	vertexI []int // indices of the vertex lines
}

func drawNumber(t *rapid.T, label string) string {
	if rapid.IntRange(0, 2).Draw(t, label+".k") == 0 {
		v := rapid.Float64Range(-1000, 1000).Draw(t, label)
		return fmt.Sprintf(rapid.SampledFrom([]string{"%g", "%e", "%f", "%.3f"}).Draw(t, label+".fmt"), v)
	}
	return rapid.SampledFrom(goodNumbers).Draw(t, label)
}

func drawAscii(t *rapid.T, facets int) asciiFile {
	var a asciiFile
	ind := rapid.SampledFrom([]string{"", " ", "  ", "\t"}).Draw(t, "indent")
	a.lines = append(a.lines, "solid "+rapid.SampledFrom([]string{"", "x", "part one", "vertex"}).Draw(t, "name"))
	for i := 0; i < facets; i++ {
		a.lines = append(a.lines, ind+"facet normal 0 0 1", ind+ind+"outer loop")
		for j := 0; j < 3; j++ {
			a.vertexI = append(a.vertexI, len(a.lines))
			a.lines = append(a.lines, fmt.Sprintf("%s%svertex %s %s %s", ind, ind,
				drawNumber(t, fmt.Sprintf("f%d.%d.x", i, j)), drawNumber(t, fmt.Sprintf("f%d.%d.y", i, j)), drawNumber(t, fmt.Sprintf("f%d.%d.z", i, j))))
		}
		a.lines = append(a.lines, ind+ind+"endloop", ind+"endfacet")
	}
	a.lines = append(a.lines, "endsolid")
	return a
}

func (a asciiFile) bytes(t *rapid.T) []byte {
	eol := rapid.SampledFrom([]string{"\n", "\n", "\r\n", "\r", "\n\n"}).Draw(t, "eol")
	s := strings.Join(a.lines, eol)
	if rapid.IntRange(0, 3).Draw(t, "final-eol") != 0 {
		s += eol
	}
	return []byte(s)
}

func insertLine(lines []string, at int, l string) []string {
	out := make([]string, 0, len(lines)+1)
	out = append(out, lines[:at]...)
	out = append(out, l)
	return append(out, lines[at:]...)
}

func removeLine(lines []string, at int) []string {
	out := make([]string, 0, len(lines))
	out = append(out, lines[:at]...)
	return append(out, lines[at+1:]...)
}

// hugeLine builds a line of exactly n bytes around the scanner's 64 KiB limit.
func hugeLine(t *rapid.T, n int) string {
	kind := rapid.SampledFrom([]string{"letters", "spaces", "digits", "vertex-long-number", "vertex-many-fields", "nul"}).Draw(t, "hugekind")
	switch kind {
	case "spaces":
		return strings.Repeat(" ", n)
	case "digits":
		return strings.Repeat("7", n)
	case "vertex-long-number":
		p := "vertex 1 2 0."
		if n <= len(p) {
			return p[:n]
		}
		return p + strings.Repeat("3", n-len(p))
	case "vertex-many-fields":
		s := "vertex" + strings.Repeat(" 1", n/2)
		for len(s) < n {
			s += " "
		}
		return s[:n]
	case "nul":
		return strings.Repeat("\x00", n)
	default:
		return strings.Repeat("a", n)
	}
}

var soupTokens = []string{"vertex", "vertex", "vertex ", " ", " ", "\n", "\n", "\n", "\r\n", "\t", "0", "1", "-1.5", "1e5", "1e999", "nan", "inf", "0x10", "abc",
	"solid", "facet normal", "outer loop", "endloop", "endfacet", "endsolid", "\x00", "\xff", ".", "-", "+", "e", " ", " ", "\v", "\f", "\r", "vertex 1 2 3\n", "vertex 0 0 0\n"}

// ---------------------------------------------------------------------------
// the generator: returns file content and the family it came from

var families = []string{
	// rapid's SampledFrom favours the front of the list: the families that aim at
	// the parsers' weak spots come first, plain valid files last
	"ascii-vertex-lines", "ascii-vertex-lines", "ascii-vertex-lines",
	"bin-count-rewritten", "bin-count-rewritten", "bin-count-rewritten",
	"ascii-bad-number", "ascii-bad-number",
	"ascii-huge-line", "ascii-huge-line",
	"ascii-count-stamped", "ascii-count-stamped",
	"bin-truncated", "bin-truncated",
	"ascii-stray", "ascii-stray",
	"ascii-bytes-injected", "ascii-bytes-injected",
	"token-soup", "token-soup", "token-soup",
	"bin-extended", "bin-extended",
	"raw", "raw", "raw",
	"short", "short",
	"bin-resized-count-consistent",
	"exactly-84",
	"bin-large",
	"bin-valid-round-counts",
	"ascii-large",
	"bin-valid",
	"ascii-valid",
}

func drawBinary(t *rapid.T, maxN int) ([]byte, int) {
	n := rapid.IntRange(0, maxN).Draw(t, "n")
	return buildBinary(drawHeader(t), uint32(n), drawRecords(t, n)), n
}

func genInput(t *rapid.T) ([]byte, string) {
	fam := rapid.SampledFrom(families).Draw(t, "family")
	switch fam {
	case "bin-valid":
		b, _ := drawBinary(t, 40)
		return b, fam

	case "bin-truncated":
		b, n := drawBinary(t, 40)
		var cut int
		switch rapid.IntRange(0, 7).Draw(t, "cutclass") {
		case 0:
			cut = 0
		case 1:
			cut = rapid.IntRange(1, 79).Draw(t, "cut")
		case 2:
			cut = rapid.IntRange(80, 83).Draw(t, "cut")
		case 3:
			cut = 84
		case 4:
			cut = 84 + rapid.IntRange(1, 49).Draw(t, "cut")
		case 5: // a record boundary
			cut = 84 + 50*rapid.IntRange(0, n).Draw(t, "cut")
		case 6: // one byte off a record boundary
			cut = 84 + 50*rapid.IntRange(0, n).Draw(t, "cut") + rapid.SampledFrom([]int{-1, 1}).Draw(t, "off")
		default:
			cut = len(b) - 1
		}
		if cut < 0 {
			cut = 0
		}
		if cut > len(b) {
			cut = len(b)
		}
		return b[:cut], fam

	case "bin-extended":
		b, _ := drawBinary(t, 40)
		k := rapid.SampledFrom([]int{1, 2, 49, 50, 51, 100, 150}).Draw(t, "extra")
		switch rapid.IntRange(0, 3).Draw(t, "extrakind") {
		case 0:
			b = append(b, make([]byte, k)...)
		case 1:
			b = append(b, rapid.SliceOfN(rapid.Byte(), k, k).Draw(t, "extrabytes")...)
		case 2:
			b = append(b, []byte(strings.Repeat("\n", k))...)
		default:
			b = append(b, []byte(strings.Repeat("vertex 1 2 3\n", rapid.IntRange(1, 7).Draw(t, "extralines")))...)
		}
		return b, fam

	case "bin-count-rewritten":
		b, n := drawBinary(t, 40)
		var c uint32
		switch rapid.IntRange(0, 10).Draw(t, "countclass") {
		case 0:
			c = 0
		case 1:
			c = uint32(n - 1) // wraps to 2^32-1 for n = 0
		case 2:
			c = uint32(n + 1)
		case 3:
			c = 0xffffffff
		case 4:
			c = 0x80000000
		case 5:
			c = 0x7fffffff
		case 6:
			c = uint32(2 * n)
		case 7:
			c = 0x0a0a0a0a
		case 8: // a count whose 50*count wraps around 32 bits
			c = uint32((1<<32)/50) + uint32(n)
		case 9: // moderately large: would cost megabytes if trusted before the size test
			c = rapid.SampledFrom([]uint32{1 << 16, 1 << 20, 1 << 24, 1 << 28, 600000}).Draw(t, "count")
		default:
			c = rapid.Uint32().Draw(t, "count")
		}
		binary.LittleEndian.PutUint32(b[80:], c)
		return b, fam

	case "bin-resized-count-consistent":
		b, n := drawBinary(t, 40)
		m := rapid.IntRange(0, n+3).Draw(t, "newn")
		if m <= n {
			b = b[:84+50*m]
		} else {
			b = append(b, rapid.SliceOfN(rapid.Byte(), 50*(m-n), 50*(m-n)).Draw(t, "more")...)
		}
		binary.LittleEndian.PutUint32(b[80:], uint32(m))
		return b, fam

	case "bin-valid-round-counts":
		// well-formed binary files whose triangle count is a power of two, a multiple of a plausible block
		// size, or one off (a reader that works in blocks meets its boundary exactly)
		n := rapid.SampledFrom([]int{256, 512, 1024, 255, 257, 128, 64, 100, 1000, 768, 2048, 4096, 1023, 1025, 16384, 65536, 65535}).Draw(t, "n")
		if rapid.IntRange(0, 3).Draw(t, "times") == 0 {
			n *= rapid.IntRange(2, 5).Draw(t, "k")
		}
		return buildBinary(drawHeader(t), uint32(n), drawRecords(t, n)), fam

	case "bin-large":
		// > 64 KiB of binary data: with a wrong count the text scanner meets it
		n := rapid.IntRange(1300, 3000).Draw(t, "n")
		b := buildBinary(drawHeader(t), uint32(n), drawRecords(t, n))
		switch rapid.IntRange(0, 3).Draw(t, "largekind") {
		case 0: // valid
		case 1:
			binary.LittleEndian.PutUint32(b[80:], uint32(n+1))
		case 2:
			b = b[:len(b)-rapid.IntRange(1, 60).Draw(t, "cut")]
		default: // wrong count and a few vertex lines in front of the long run
			binary.LittleEndian.PutUint32(b[80:], uint32(n-1))
			copy(b, strings.Repeat("vertex 1 2 3\n", rapid.IntRange(1, 6).Draw(t, "lines")))
		}
		return b, fam

	case "ascii-large":
		// many short lines: allocation must stay proportional to the size
		line := rapid.SampledFrom([]string{"vertex 0 0 0\n", "vertex 0 0 0\n", "a\n", "\n", " a b\n", "vertex 1e999 0 0\n", "vertex 1 2\r\n", "v 1 2 3\n"}).Draw(t, "line")
		n := rapid.IntRange(5000, 40000).Draw(t, "lines")
		n -= n % 3
		n += rapid.SampledFrom([]int{0, 0, 1, 2}).Draw(t, "extra")
		return []byte(strings.Repeat(line, n)), fam

	case "ascii-valid":
		return drawAscii(t, rapid.IntRange(1, 12).Draw(t, "facets")).bytes(t), fam

	case "ascii-vertex-lines":
		a := drawAscii(t, rapid.IntRange(0, 8).Draw(t, "facets"))
		ops := rapid.IntRange(1, 5).Draw(t, "ops")
		for o := 0; o < ops; o++ {
			// recompute the vertex line indices
			var vi []int
			for i, l := range a.lines {
				if strings.HasPrefix(strings.TrimSpace(l), "vertex ") {
					vi = append(vi, i)
				}
			}
			if len(vi) > 0 && rapid.Bool().Draw(t, fmt.Sprintf("op%d.del", o)) {
				a.lines = removeLine(a.lines, rapid.SampledFrom(vi).Draw(t, fmt.Sprintf("op%d.at", o)))
			} else {
				at := rapid.IntRange(0, len(a.lines)).Draw(t, fmt.Sprintf("op%d.at", o))
				a.lines = insertLine(a.lines, at, "vertex "+drawNumber(t, fmt.Sprintf("op%d.x", o))+" 2 3")
			}
		}
		b := a.bytes(t)
		// pad short files so that they pass the 84-byte header read
		if len(b) < 84 && rapid.IntRange(0, 4).Draw(t, "pad") != 0 {
			b = append(b, []byte(strings.Repeat(rapid.SampledFrom([]string{"\n", " ", "\r\n"}).Draw(t, "padwith"), 84))...)
		}
		return b, fam

	case "ascii-bad-number":
		a := drawAscii(t, rapid.IntRange(1, 6).Draw(t, "facets"))
		k := rapid.IntRange(1, 3).Draw(t, "bad")
		for i := 0; i < k; i++ {
			li := rapid.SampledFrom(a.vertexI).Draw(t, fmt.Sprintf("bad%d.line", i))
			f := strings.Fields(a.lines[li])
			if len(f) == 4 {
				f[1+rapid.IntRange(0, 2).Draw(t, fmt.Sprintf("bad%d.field", i))] = rapid.SampledFrom(badNumbers).Draw(t, fmt.Sprintf("bad%d.tok", i))
				a.lines[li] = strings.Join(f, " ")
			}
		}
		return a.bytes(t), fam

	case "ascii-stray":
		a := drawAscii(t, rapid.IntRange(0, 6).Draw(t, "facets"))
		k := rapid.IntRange(1, 6).Draw(t, "stray")
		for i := 0; i < k; i++ {
			at := rapid.IntRange(0, len(a.lines)).Draw(t, fmt.Sprintf("stray%d.at", i))
			a.lines = insertLine(a.lines, at, rapid.SampledFrom(strayLines).Draw(t, fmt.Sprintf("stray%d", i)))
		}
		b := a.bytes(t)
		if len(b) < 84 {
			b = append(b, []byte(strings.Repeat("\n", 84))...)
		}
		return b, fam

	case "ascii-bytes-injected":
		b := drawAscii(t, rapid.IntRange(1, 6).Draw(t, "facets")).bytes(t)
		k := rapid.IntRange(1, 8).Draw(t, "inj")
		for i := 0; i < k; i++ {
			var at int
			if rapid.IntRange(0, 3).Draw(t, fmt.Sprintf("inj%d.where", i)) == 0 && len(b) > 84 {
				at = rapid.IntRange(76, 84).Draw(t, fmt.Sprintf("inj%d.at", i)) // around the count field
			} else {
				at = rapid.IntRange(0, len(b)-1).Draw(t, fmt.Sprintf("inj%d.at", i))
			}
			v := rapid.SampledFrom([]byte{0, 0, 0, 0xff, 0x80, '\n', '\r', ' ', 0x0b, 0x1a, 1, 0xc2}).Draw(t, fmt.Sprintf("inj%d.v", i))
			if rapid.Bool().Draw(t, fmt.Sprintf("inj%d.ins", i)) {
				b = append(b[:at], append([]byte{v}, b[at:]...)...)
			} else {
				b[at] = v
			}
		}
		return b, fam

	case "ascii-huge-line":
		a := drawAscii(t, rapid.IntRange(0, 4).Draw(t, "facets"))
		n := rapid.SampledFrom([]int{65534, 65535, 65536, 65537, 65600, 70000, 131072, 200000}).Draw(t, "hugelen")
		at := rapid.IntRange(0, len(a.lines)).Draw(t, "hugeat")
		a.lines = insertLine(a.lines, at, hugeLine(t, n))
		if rapid.Bool().Draw(t, "also-odd-vertex") { // an unfinished facet in front of / behind the long line
			a.lines = insertLine(a.lines, rapid.IntRange(0, len(a.lines)).Draw(t, "oddat"), "vertex 1 2 3")
		}
		return a.bytes(t), fam

	case "ascii-count-stamped":
		// an ASCII body whose bytes 80..83 hold a count: made to agree with the size
		// (84+50*count == size -> the binary reader runs over text) or to be off by one
		b := drawAscii(t, rapid.IntRange(1, 8).Draw(t, "facets")).bytes(t)
		for len(b) < 84 || (len(b)-84)%50 != 0 {
			b = append(b, '\n')
		}
		c := (len(b) - 84) / 50
		c += rapid.SampledFrom([]int{0, 0, 0, 1, -1}).Draw(t, "stampoff")
		if c < 0 {
			c = 0
		}
		binary.LittleEndian.PutUint32(b[80:], uint32(c))
		return b, fam

	case "short":
		n := rapid.IntRange(0, 83).Draw(t, "len")
		switch rapid.IntRange(0, 3).Draw(t, "shortkind") {
		case 0:
			return rapid.SliceOfN(rapid.Byte(), n, n).Draw(t, "bytes"), fam
		case 1:
			b := drawAscii(t, 1).bytes(t)
			if n > len(b) {
				n = len(b)
			}
			return b[:n], fam
		case 2:
			s := strings.Repeat("vertex 1 2 3\n", 7)
			return []byte(s[:n]), fam
		default:
			return make([]byte, n), fam
		}

	case "exactly-84":
		b := make([]byte, 84)
		switch rapid.IntRange(0, 3).Draw(t, "k84") {
		case 0: // valid empty binary file
		case 1:
			copy(b, rapid.SliceOfN(rapid.Byte(), 84, 84).Draw(t, "bytes"))
		case 2:
			copy(b, strings.Repeat("vertex 1 2 3\n", 7))
		default:
			binary.LittleEndian.PutUint32(b[80:], rapid.SampledFrom([]uint32{1, 0xffffffff, 0x80000000}).Draw(t, "count"))
		}
		return b, fam

	case "raw":
		lo := rapid.SampledFrom([]int{0, 84, 84, 134}).Draw(t, "rawmin")
		return rapid.SliceOfN(rapid.Byte(), lo, lo+300).Draw(t, "bytes"), fam

	default: // token-soup
		k := rapid.IntRange(1, 120).Draw(t, "tokens")
		var sb strings.Builder
		for i := 0; i < k; i++ {
			sb.WriteString(rapid.SampledFrom(soupTokens).Draw(t, fmt.Sprintf("tok%d", i)))
		}
		for sb.Len() < 84 {
			sb.WriteString("\n")
		}
		return []byte(sb.String()), "token-soup"
	}
}
