package c14

import (
	"bytes"
	"encoding/base64"
	"encoding/binary"
	"fmt"
	"hash/fnv"
	"os"
	"os/exec"
	"path/filepath"
	"regexp"
	"runtime"
	"runtime/debug"
	"sort"
	"strconv"
	"strings"
	"testing"
	"time"

	"github.com/deadsy/sdfx/obj"
	"github.com/deadsy/sdfx/render"
	"github.com/deadsy/sdfx/sdf"
	"pgregory.net/rapid"

	"verif/internal/ev"
)

func TestMain(m *testing.M) { ev.Main(m) }

// Allocation bound of the statement ("never allocates memory out of proportion to
// the file size"), DESIGN C14: TotalAlloc delta <= 256*len(file) + 4 MiB.
const (
	allocFactor = 256
	allocSlack  = 4 << 20
	maxInput    = 1 << 20 // inputs are kept <= 1 MiB
)

const keyMod3 = "LoadSTL:ascii-vertex-count-not-multiple-of-3:panic"

// ---------------------------------------------------------------------------
// scratch file of this process

var scratchFile string

func scratchPath(tb ev.TB) string {
	if scratchFile == "" {
		d, err := os.MkdirTemp("", "c14-")
		if err != nil {
			tb.Fatalf("mkdtemp: %v", err)
		}
		scratchFile = filepath.Join(d, "in.stl")
	}
	return scratchFile
}

// ---------------------------------------------------------------------------
// a model of what the loader will look at (used for labels and for the
// signature of a failure, never to decide pass/fail)

type shape struct {
	path      string // "short" (< 84 bytes), "binary" (size == 84+50*count) or "ascii"
	count     uint32
	vertexN   int  // vertex lines a line scanner with a 64 KiB limit sees before it stops
	tooLong   bool // a line of >= 64 KiB stops the scan
	badNumber bool // a vertex line with a field that is not a float64
}

func modelOf(data []byte) shape {
	var s shape
	if len(data) < 84 {
		s.path = "short"
		return s
	}
	s.count = binary.LittleEndian.Uint32(data[80:84])
	if int64(len(data)) == 84+50*int64(s.count) {
		s.path = "binary"
		return s
	}
	s.path = "ascii"
	rest := data
	for len(rest) > 0 {
		var line []byte
		if i := bytes.IndexByte(rest, '\n'); i >= 0 {
			line, rest = rest[:i], rest[i+1:]
		} else {
			line, rest = rest, nil
		}
		if len(line) >= 65536 {
			s.tooLong = true
			break
		}
		f := strings.Fields(string(bytes.TrimSuffix(line, []byte("\r"))))
		if len(f) == 4 && f[0] == "vertex" {
			for _, x := range f[1:] {
				if _, err := strconv.ParseFloat(x, 64); err != nil {
					s.badNumber = true
				}
			}
			if s.badNumber {
				break
			}
			s.vertexN++
		}
	}
	return s
}

func dataKey(data []byte) string {
	h := fnv.New64a()
	h.Write(data)
	return fmt.Sprintf("%d:%016x", len(data), h.Sum64())
}

func quoteClip(data []byte, n int) string {
	if len(data) <= n {
		return strconv.Quote(string(data))
	}
	return strconv.Quote(string(data[:n/2])) + " ... " + strconv.Quote(string(data[len(data)-n/2:])) + fmt.Sprintf(" (%d bytes)", len(data))
}

// ---------------------------------------------------------------------------
// the oracle

type outcome struct {
	mesh  []*sdf.Triangle3
	s3    sdf.SDF3
	err   error
	pan   any
	stack string
	alloc uint64
}

// hangDeadline: see checkTotal. Generous against a machine that is busy with other checks.
const hangDeadline = 120 * time.Second

// measured runs f on this goroutine and reports panic and bytes allocated.
func measured(f func(o *outcome)) (o outcome) {
	var m0, m1 runtime.MemStats
	runtime.ReadMemStats(&m0)
	func() {
		defer func() {
			if r := recover(); r != nil {
				o.pan = r
				o.stack = string(debug.Stack())
			}
		}()
		f(&o)
	}()
	runtime.ReadMemStats(&m1)
	o.alloc = m1.TotalAlloc - m0.TotalAlloc
	return o
}

// checkTotal feeds data (as a file) to render.LoadSTL and obj.ImportSTL and
// reports every way in which the call is not "an error or a triangle list".
// It returns the labels describing the case.
func checkTotal(tb ev.TB, rec *ev.Rec, data []byte, family string) (labels []string, sh shape) {
	if len(data) > maxInput {
		data = data[:maxInput]
	}
	path := scratchPath(tb)
	if err := os.WriteFile(path, data, 0o644); err != nil {
		tb.Fatalf("harness: cannot write %s: %v", path, err)
	}
	sh = modelOf(data)
	labels = append(labels, "family="+family, "path="+sh.path)
	if sh.path == "ascii" {
		labels = append(labels, fmt.Sprintf("ascii:vertex-lines-mod-3=%d", sh.vertexN%3))
		if sh.tooLong {
			labels = append(labels, "ascii:line>=64KiB")
		}
		if sh.badNumber {
			labels = append(labels, "ascii:malformed-number")
		}
		if sh.vertexN == 0 {
			labels = append(labels, "ascii:no-vertex-lines")
		}
	}
	bound := uint64(allocFactor*len(data) + allocSlack)
	desc := func() string {
		return fmt.Sprintf("family %s, %d bytes, loader path %s (count field %d, vertex lines %d): %s", family, len(data), sh.path, sh.count, sh.vertexN, quoteClip(data, 400))
	}

	// --- render.LoadSTL
	// "never hangs": the loader runs under a watchdog. Inputs are at most maxInput bytes and load in
	// microseconds; if the call has not come back after hangDeadline the case is reported as a hang, the
	// input is saved as a replay file and the process ends at once (the spinning goroutine cannot be
	// stopped, and shrinking a hang would cost the deadline per attempt).
	var o outcome
	{
		done := make(chan outcome, 1)
		go func() { done <- measured(func(o *outcome) { o.mesh, o.err = render.LoadSTL(path) }) }()
		select {
		case o = <-done:
		case <-time.After(hangDeadline):
			msg := fmt.Sprintf("render.LoadSTL did not return within %v\n%s", hangDeadline, desc())
			rp := ev.WriteReplay("TestRegress", "LoadSTL:hang", mkCase("hang", data), msg)
			fmt.Printf("VIOLATION-KEY[LoadSTL:hang] %s\nREPLAY-FILE: %s\n", msg, rp)
			rec.Flush()
			os.Exit(1)
		}
	}
	switch {
	case o.pan != nil:
		labels = append(labels, "LoadSTL:panic")
		key := "LoadSTL:panic"
		if sh.path == "ascii" && sh.vertexN%3 != 0 && !sh.badNumber && strings.Contains(o.stack, "loadSTLAscii") && strings.Contains(fmt.Sprint(o.pan), "index out of range") {
			key = keyMod3
		}
		rec.Violation(tb, key, "render.LoadSTL panicked: %v\n%s\n%s", o.pan, desc(), clipStack(o.stack))
		return labels, sh // ImportSTL calls LoadSTL: same panic
	case o.err != nil:
		labels = append(labels, "LoadSTL:error", "error="+errClass(o.err))
	default:
		labels = append(labels, "LoadSTL:mesh")
		for i, tr := range o.mesh {
			if tr == nil {
				rec.Violation(tb, "LoadSTL:nil-triangle-in-mesh", "render.LoadSTL returned nil error and a list whose element %d of %d is nil\n%s", i, len(o.mesh), desc())
				break
			}
		}
	}
	if o.alloc > bound {
		rec.Violation(tb, "LoadSTL:allocation-out-of-proportion", "render.LoadSTL allocated %d bytes for a %d-byte file (bound 256*size+4MiB = %d)\n%s", o.alloc, len(data), bound, desc())
	}
	rec.Add("alloc-ratio:LoadSTL<="+ratioBucket(o.alloc, len(data)), 1)

	// --- obj.ImportSTL, second entry point (arguments as in the sdfx examples)
	o2 := measured(func(o *outcome) { o.s3, o.err = obj.ImportSTL(path, 20, 3, 5) })
	switch {
	case o2.pan != nil:
		labels = append(labels, "ImportSTL:panic")
		rec.Violation(tb, "ImportSTL:panic", "obj.ImportSTL panicked (render.LoadSTL did not): %v\n%s\n%s", o2.pan, desc(), clipStack(o2.stack))
	case o2.err != nil:
		labels = append(labels, "ImportSTL:error")
	default:
		labels = append(labels, "ImportSTL:sdf")
	}
	if (o2.err != nil) != (o.err != nil) && o2.pan == nil {
		rec.Violation(tb, "ImportSTL:disagrees-with-LoadSTL", "same file: LoadSTL err=%v, ImportSTL err=%v\n%s", o.err, o2.err, desc())
	}
	if o2.alloc > bound {
		rec.Violation(tb, "ImportSTL:allocation-out-of-proportion", "obj.ImportSTL allocated %d bytes for a %d-byte file (bound 256*size+4MiB = %d)\n%s", o2.alloc, len(data), bound, desc())
	}
	rec.Add("alloc-ratio:ImportSTL<="+ratioBucket(o2.alloc, len(data)), 1)
	return labels, sh
}

func ratioBucket(alloc uint64, size int) string {
	if alloc <= allocSlack/4 {
		return "1MiB-absolute"
	}
	r := float64(alloc) / float64(size+1)
	for _, b := range []float64{8, 32, 128, 256} {
		if r <= b {
			return fmt.Sprintf("%gx", b)
		}
	}
	return "more"
}

func clipStack(s string) string {
	lines := strings.Split(s, "\n")
	if len(lines) > 14 {
		lines = lines[:14]
	}
	return strings.Join(lines, "\n")
}

func errClass(err error) string {
	s := err.Error()
	for _, k := range []string{"unexpected EOF", "EOF", "token too long", "invalid syntax", "value out of range", "not a multiple", "vertex"} {
		if strings.Contains(s, k) {
			return k
		}
	}
	return "other"
}

func nontrivial(data []byte) bool {
	return len(data) >= 84 || bytes.Contains(data, []byte("vertex"))
}

// ---------------------------------------------------------------------------
// structured generation (rapid)

func TestStructured(t *testing.T) {
	rec := ev.Get()
	rapid.Check(t, func(t *rapid.T) {
		data, fam := genInput(t)
		labels, sh := checkTotal(t, rec, data, fam)
		rec.Case(nontrivial(data), dataKey(data), labels...)
		if len(data) <= 300 {
			rec.Sample(fam, map[string]any{"bytes": strconv.Quote(string(data)), "path": sh.path, "labels": labels})
		}
	})
}

// ---------------------------------------------------------------------------
// fixed inputs: regressions (inline) and the saved corpus (files)

type byteCase struct {
	Name    string `json:"name"`
	DataB64 string `json:"data_b64"`
	Quoted  string `json:"quoted,omitempty"` // for the reader; not decoded
}

func mkCase(name string, data []byte) byteCase {
	return byteCase{Name: name, DataB64: base64.StdEncoding.EncodeToString(data), Quoted: quoteClip(data, 300)}
}

// failer turns the first Violation of a plain test into a FailCase with a JSON replay.
type failer struct {
	t    *testing.T
	rec  *ev.Rec
	test string
	c    byteCase
}

func (f failer) Helper()                 {}
func (f failer) Logf(s string, a ...any) { f.t.Logf(s, a...) }
func (f failer) Fatalf(s string, a ...any) {
	msg := fmt.Sprintf(s, a...)
	key := "C14"
	if m := regexp.MustCompile(`VIOLATION-KEY\[([^\]]*)\]`).FindStringSubmatch(msg); m != nil {
		key = m[1]
		msg = strings.TrimPrefix(msg, m[0]+" ")
	}
	path := ev.WriteReplay(f.test, key, f.c, msg)
	f.t.Fatalf("VIOLATION-KEY[%s] %s: %s\nREPLAY-FILE: %s", key, f.c.Name, msg, path)
}

func runByteCases(t *testing.T, test string, cases []byteCase, label string) {
	rec := ev.Get()
	var rc byteCase
	if ev.LoadReplay(test, &rc) {
		cases = []byteCase{rc}
	}
	for _, c := range cases {
		data, err := base64.StdEncoding.DecodeString(c.DataB64)
		if err != nil {
			t.Fatalf("harness: case %s: %v", c.Name, err)
		}
		labels, _ := checkTotal(failer{t, rec, test, c}, rec, data, label)
		rec.Case(nontrivial(data), dataKey(data), append(labels, label+":"+c.Name)...)
	}
}

func pad84(s string, with string) []byte {
	for len(s) < 84 {
		s += with
	}
	return []byte(s)
}

// regressInputs are minimised inputs of defects found by this check.
func regressInputs() []byteCase {
	return []byteCase{
		// one vertex line (1 mod 3): loadSTLAscii indexes v[i+1] -> index out of range
		mkCase("ascii-one-vertex-line", pad84("vertex 0 0 0\n", "\n")),
		// two vertex lines (2 mod 3)
		mkCase("ascii-two-vertex-lines", pad84("vertex 0 0 0\nvertex 0 0 0\n", "\n")),
		// a facet with a missing vertex line
		mkCase("ascii-facet-missing-vertex", []byte("solid x\nfacet normal 0 0 1\nouter loop\nvertex 0 0 0\nvertex 1 0 0\nendloop\nendfacet\nendsolid x\n")),
		// a facet with an extra vertex line
		mkCase("ascii-facet-extra-vertex", []byte("solid x\nfacet normal 0 0 1\nouter loop\nvertex 0 0 0\nvertex 1 0 0\nvertex 0 1 0\nvertex 1 1 0\nendloop\nendfacet\nendsolid x\n")),
		// an unfinished facet followed by a line beyond the scanner limit
		mkCase("ascii-odd-vertex-then-long-line", []byte("vertex 1 2 3\n"+strings.Repeat("a", 70000)+"\n")),
		// binary file with the count one too large: read as text
		mkCase("binary-count-plus-one-with-vertex-header", func() []byte {
			h := make([]byte, 80)
			copy(h, "vertex 1 2 3\n")
			return buildBinary(h, 2, make([][50]byte, 1))
		}()),
	}
}

func TestRegress(t *testing.T) {
	runByteCases(t, "TestRegress", regressInputs(), "regress")
}

// corpusDir holds saved inputs (crashers of the native fuzzer in Go's corpus file
// format, or raw files): /verif/corpus/c14/.
func corpusDir() string { return filepath.Join(ev.Root(), "corpus", "c14") }

// decodeCorpusFile understands "go test fuzz v1" files with one []byte value;
// anything else is taken as raw file content.
func decodeCorpusFile(b []byte) ([]byte, error) {
	const magic = "go test fuzz v1"
	if !bytes.HasPrefix(b, []byte(magic)) {
		return b, nil
	}
	lines := strings.Split(strings.TrimSpace(string(b[len(magic):])), "\n")
	if len(lines) != 1 {
		return nil, fmt.Errorf("expected one value, found %d lines", len(lines))
	}
	l := strings.TrimSpace(lines[0])
	if !strings.HasPrefix(l, "[]byte(") || !strings.HasSuffix(l, ")") {
		return nil, fmt.Errorf("not a []byte value: %.40s", l)
	}
	s, err := strconv.Unquote(l[len("[]byte(") : len(l)-1])
	if err != nil {
		return nil, err
	}
	return []byte(s), nil
}

func TestCorpus(t *testing.T) {
	ents, err := os.ReadDir(corpusDir())
	if err != nil {
		t.Fatalf("harness: corpus directory %s: %v", corpusDir(), err)
	}
	var cases []byteCase
	for _, e := range ents {
		if e.IsDir() || strings.HasPrefix(e.Name(), ".") || strings.HasSuffix(e.Name(), ".md") {
			continue
		}
		b, err := os.ReadFile(filepath.Join(corpusDir(), e.Name()))
		if err != nil {
			t.Fatalf("harness: %v", err)
		}
		data, err := decodeCorpusFile(b)
		if err != nil {
			t.Fatalf("harness: corpus file %s: %v", e.Name(), err)
		}
		cases = append(cases, mkCase(e.Name(), data))
	}
	if len(cases) == 0 {
		t.Fatalf("harness: no corpus files in %s", corpusDir())
	}
	runByteCases(t, "TestCorpus", cases, "corpus")
}

// ---------------------------------------------------------------------------
// native coverage-guided fuzzing (thorough tier)

func fuzzSeeds() [][]byte {
	one := [50]byte{}
	putF32(one[8:], 0x3f800000)
	putF32(one[24:], 0x3f800000)
	putF32(one[40:], 0x3f800000)
	hdrCount := func(c uint32) []byte { return buildBinary(nil, c, nil) }
	ascii := "solid s\nfacet normal 0 0 1\nouter loop\nvertex 0 0 0\nvertex 1 0 0\nvertex 0 1 0\nendloop\nendfacet\nendsolid s\n"
	stamped := pad84(ascii, "\n")
	for (len(stamped)-84)%50 != 0 {
		stamped = append(stamped, '\n')
	}
	binary.LittleEndian.PutUint32(stamped[80:], uint32((len(stamped)-84)/50))
	return [][]byte{
		{},
		hdrCount(0),
		buildBinary(nil, 1, [][50]byte{one}),
		buildBinary([]byte("solid looks-like-ascii"), 2, [][50]byte{one, one}),
		[]byte(ascii),
		[]byte(strings.ReplaceAll(ascii, "\n", "\r\n")),
		hdrCount(0xffffffff), hdrCount(0x7fffffff), hdrCount(0x80000000), hdrCount(1),
		buildBinary(nil, 0xffffffff, [][50]byte{one}),
		buildBinary(nil, 0, [][50]byte{one}),
		stamped,
		pad84("vertex 1e999 0 0\nvertex nan inf -inf\nvertex 0x1p-2 1_0 .\n", " "),
		pad84("vertex 1 2 3 4\nvertex 1 2\nvertex\n", "\x00"),
		pad84("vertex 1 2 3\nvertex 4 5 6\nvertex 7 8 9\n", "\n"),
	}
}

func FuzzLoadSTL(f *testing.F) {
	if os.Getenv("VERIF_FUZZ_NOSEED") == "" {
		for _, s := range fuzzSeeds() {
			f.Add(s)
		}
	} else {
		f.Add([]byte{})
	}
	rec := ev.Get()
	f.Fuzz(func(t *testing.T, data []byte) {
		labels, _ := checkTotal(t, rec, data, "native-fuzz")
		rec.Case(nontrivial(data), dataKey(data), labels...)
	})
}

func listDir(dir string) map[string]bool {
	m := map[string]bool{}
	ents, _ := os.ReadDir(dir)
	for _, e := range ents {
		m[e.Name()] = true
	}
	return m
}

func copyFile(src, dst string) error {
	b, err := os.ReadFile(src)
	if err != nil {
		return err
	}
	os.MkdirAll(filepath.Dir(dst), 0o755)
	return os.WriteFile(dst, b, 0o644)
}

// inconclusive ends the process with exit status 2 and no failure marker: the
// driver reports an infrastructure problem, not a violation.
func inconclusive(format string, args ...any) {
	msg := fmt.Sprintf(format, args...)
	for _, w := range []string{"--- FAIL", "panic:", "fatal error:", "VIOLATION-KEY[", "DATA RACE"} {
		msg = strings.ReplaceAll(msg, w, "("+strings.Trim(w, "-[: ")+")")
	}
	fmt.Printf("[c14] INCONCLUSIVE (fuzz engine / infrastructure): %s\n", msg)
	ev.Get().Flush()
	os.Exit(2)
}

func tail(s string, n int) string {
	l := strings.Split(strings.TrimRight(s, "\n"), "\n")
	if len(l) > n {
		l = l[len(l)-n:]
	}
	return strings.Join(l, "\n")
}

// TestNativeFuzz runs `go test -fuzz FuzzLoadSTL` on this package: first with the
// seed corpus, then with an empty one. A crasher (new file under
// testdata/fuzz/FuzzLoadSTL) is a violation; it is moved to /verif/replays/C14/.
func TestNativeFuzz(t *testing.T) {
	rec := ev.Get()
	root := ev.Root()
	if _, err := exec.LookPath("go"); err != nil {
		inconclusive("go tool not found: %v", err)
	}
	fuzztime := os.Getenv("VERIF_FUZZTIME")
	if fuzztime == "" {
		fuzztime = "120s"
	}
	pkgDir := filepath.Join(root, "props", "c14")
	crashDir := filepath.Join(pkgDir, "testdata", "fuzz", "FuzzLoadSTL")
	tmp := t.TempDir()

	args := []string{"test", "-tags", "verif", "-vet=off"}
	if repo := os.Getenv("VERIF_REPO"); repo != "" {
		if abs, _ := filepath.Abs(repo); abs != "/repo" {
			mod, err := os.ReadFile(filepath.Join(root, "go.mod"))
			if err != nil {
				inconclusive("read go.mod: %v", err)
			}
			sum, _ := os.ReadFile(filepath.Join(root, "go.sum"))
			md := filepath.Join(tmp, "mod")
			os.MkdirAll(md, 0o755)
			os.WriteFile(filepath.Join(md, "go.mod"), []byte(strings.ReplaceAll(string(mod), "=> /repo", "=> "+abs)), 0o644)
			os.WriteFile(filepath.Join(md, "go.sum"), sum, 0o644)
			args = append(args, "-modfile="+filepath.Join(md, "go.mod"))
		}
	}
	par := runtime.NumCPU()
	args = append(args, "-run", "^$", "-fuzz", "^FuzzLoadSTL$", "-fuzztime", fuzztime, "-parallel", strconv.Itoa(par), "./props/c14")

	for phase, noseed := range []bool{false, true} {
		name := map[bool]string{false: "seeded", true: "empty-corpus"}[noseed]
		before := listDir(crashDir)
		cache := filepath.Join(tmp, "fuzzcache-"+name)
		ctmp := filepath.Join(tmp, "tmp-"+name)
		os.MkdirAll(cache, 0o755)
		os.MkdirAll(ctmp, 0o755)
		cmd := exec.Command("go", append(append([]string{}, args...), "-test.fuzzcachedir="+cache)...)
		cmd.Dir = root
		var env []string
		for _, kv := range os.Environ() {
			if strings.HasPrefix(kv, "VERIF_EVOUT=") || strings.HasPrefix(kv, "TMPDIR=") || strings.HasPrefix(kv, "VERIF_FUZZ_NOSEED=") || strings.HasPrefix(kv, "VERIF_REPLAY=") {
				continue
			}
			env = append(env, kv)
		}
		env = append(env, "GOFLAGS=-mod=mod", "GOPROXY=off", "GOSUMDB=off", "GOTOOLCHAIN=local", "TMPDIR="+ctmp, "VERIF_ROOT="+root)
		if noseed {
			env = append(env, "VERIF_FUZZ_NOSEED=1")
		}
		cmd.Env = env
		outb, err := cmd.CombinedOutput()
		out := string(outb)
		t.Logf("phase %d (%s): go %s\n%s", phase, name, strings.Join(cmd.Args[1:], " "), tail(strings.ReplaceAll(out, "--- FAIL", "--- (child) FAIL"), 12))
		execs := int64(0)
		if m := regexp.MustCompile(`execs: (\d+)`).FindAllStringSubmatch(out, -1); m != nil {
			execs, _ = strconv.ParseInt(m[len(m)-1][1], 10, 64)
		}
		rec.Add("native-fuzz:execs:"+name, execs)
		rec.Case(true, "native-fuzz:"+name, "native-fuzz:phase="+name)

		var fresh []string
		for n := range listDir(crashDir) {
			if !before[n] {
				fresh = append(fresh, n)
			}
		}
		sort.Strings(fresh)
		key := "FuzzLoadSTL:crasher"
		if m := regexp.MustCompile(`VIOLATION-KEY\[([^\]]*)\]`).FindStringSubmatch(out); m != nil {
			key = m[1]
		}
		if len(fresh) > 0 {
			// the crasher is the reproducible unit: move it out of the package
			dst := ""
			var data []byte
			for _, n := range fresh {
				src := filepath.Join(crashDir, n)
				d := filepath.Join(root, "replays", "C14", "FuzzLoadSTL-"+n)
				if copyFile(src, d) == nil {
					os.Remove(src)
					if dst == "" {
						dst = d
						if b, err := os.ReadFile(d); err == nil {
							data, _ = decodeCorpusFile(b)
						}
					}
				}
			}
			os.Remove(crashDir) // only succeeds when empty
			os.Remove(filepath.Dir(crashDir))
			os.Remove(filepath.Dir(filepath.Dir(crashDir)))
			js := ev.WriteReplay("TestCorpus", key, mkCase(filepath.Base(dst), data), "found by native fuzzing ("+name+")")
			rec.Violation(t, key, "native fuzzing (%s, %d execs) found a crasher; corpus entry moved to %s (copy it to %s to keep it as a regression input; JSON form for `./check C14 --replay`: %s)\n%s\nREPLAY-FILE: %s",
				name, execs, dst, corpusDir(), js, tail(strings.ReplaceAll(out, "--- FAIL", "--- (child) FAIL"), 30), dst)
			continue
		}
		if err == nil {
			continue
		}
		if strings.Contains(out, "VIOLATION-KEY[") {
			// a seed-corpus entry failed before fuzzing started: no new file is written
			logp := filepath.Join(root, "replays", "C14", "FuzzLoadSTL-"+name+".log")
			os.MkdirAll(filepath.Dir(logp), 0o755)
			os.WriteFile(logp, outb, 0o644)
			rec.Violation(t, key, "native fuzzing (%s): a seed corpus entry fails\n%s\nREPLAY-FILE: %s", name, tail(strings.ReplaceAll(out, "--- FAIL", "--- (child) FAIL"), 30), logp)
			continue
		}
		inconclusive("phase %s: go test -fuzz ended with %v and no crasher:\n%s", name, err, tail(out, 30))
	}
}
