package c06

import (
	"fmt"
	"math"
	"runtime"
	"sync"
	"sync/atomic"
	"testing"

	"github.com/deadsy/sdfx/render"
	"github.com/deadsy/sdfx/sdf"
	v3 "github.com/deadsy/sdfx/vec/v3"
	"pgregory.net/rapid"

	"verif/internal/ev"
	"verif/internal/g"
	"verif/internal/lat"
	"verif/internal/mesh"
	"verif/internal/oracle"
	"verif/internal/shape"
)

func TestMain(m *testing.M) { ev.Main(m) }

type renderer struct {
	name string
	mk   func(cells int) render.Render3
}

var renderers = []renderer{
	{"uniform", func(c int) render.Render3 { return render.NewMarchingCubesUniform(c) }},
	{"octree", func(c int) render.Render3 { return render.NewMarchingCubesOctree(c) }},
}

type plane struct {
	n  v3.Vec
	d  float64
	bb sdf.Box3
}

func (p plane) Evaluate(q v3.Vec) float64 { return p.n.Dot(q) - p.d }
func (p plane) BoundingBox() sdf.Box3     { return p.bb }

// sampled is a recorded render: the values at every evaluated point, indexed by exact coordinates.
type sampled struct {
	val   map[v3.Vec]float64
	ax    lat.Axes3
	h     float64 // cell edge (nominal)
	tris  []*sdf.Triangle3
	lo    v3.Vec
	hi    v3.Vec
	byX   map[[2]int][]sv // (iy,iz) -> samples along x
	byY   map[[2]int][]sv
	byZ   map[[2]int][]sv
	scale float64
}

type sv struct{ c, v float64 }

// busy: other renders (both renderer kinds, another shape far away) run in the same process while
// the judged render runs - a program that writes several parts in parallel. Drawn per case.
var busy atomic.Bool

func renderRecorded(s sdf.SDF3, r renderer, cells int) *sampled {
	rb := &lat.Recorder3{S: s}
	var stop chan struct{}
	var wg sync.WaitGroup
	if busy.Load() {
		stop = make(chan struct{})
		for i := 0; i < 2; i++ {
			wg.Add(1)
			go func(i int) {
				defer wg.Done()
				decoy, _ := sdf.Sphere3D(3)
				d := sdf.Transform3D(decoy, sdf.Translate3d(v3.Vec{X: 1e3, Y: -1e3, Z: 5e2}))
				for {
					select {
					case <-stop:
						return
					default:
						render.ToTriangles(d, renderers[i%len(renderers)].mk(14+i))
						runtime.Gosched()
					}
				}
			}(i)
		}
	}
	ts := render.ToTriangles(rb, r.mk(cells))
	if stop != nil {
		close(stop)
		wg.Wait()
	}
	sz := s.BoundingBox().Size()
	out := &sampled{val: map[v3.Vec]float64{}, tris: ts, h: sz.MaxComponent() / float64(cells)}
	out.ax = lat.AxesOf3(rb.Pts, 1e-9*out.h)
	out.byX, out.byY, out.byZ = map[[2]int][]sv{}, map[[2]int][]sv{}, map[[2]int][]sv{}
	for i, p := range rb.Pts {
		if _, dup := out.val[p]; dup {
			continue
		}
		out.val[p] = rb.Val[i]
		ix, iy, iz := lat.Nearest(out.ax.X, p.X), lat.Nearest(out.ax.Y, p.Y), lat.Nearest(out.ax.Z, p.Z)
		out.byX[[2]int{iy, iz}] = append(out.byX[[2]int{iy, iz}], sv{p.X, rb.Val[i]})
		out.byY[[2]int{ix, iz}] = append(out.byY[[2]int{ix, iz}], sv{p.Y, rb.Val[i]})
		out.byZ[[2]int{ix, iy}] = append(out.byZ[[2]int{ix, iy}], sv{p.Z, rb.Val[i]})
	}
	if len(out.ax.X) > 0 {
		out.lo = v3.Vec{X: out.ax.X[0], Y: out.ax.Y[0], Z: out.ax.Z[0]}
		out.hi = v3.Vec{X: out.ax.X[len(out.ax.X)-1], Y: out.ax.Y[len(out.ax.Y)-1], Z: out.ax.Z[len(out.ax.Z)-1]}
	}
	bb := s.BoundingBox()
	out.scale = math.Max(bb.Min.Length(), bb.Max.Length()) + sz.Length()
	return out
}

// around returns the nearest samples below and above x in a line of samples.
func around(l []sv, x, tol float64) (lo, hi *sv) {
	for i := range l {
		e := &l[i]
		if e.c <= x+tol && (lo == nil || e.c > lo.c) {
			lo = e
		}
		if e.c >= x-tol && (hi == nil || e.c < hi.c) {
			hi = e
		}
	}
	return
}

// vertexRule checks that v is the linear zero crossing on an edge between two
// adjacent samples that straddle zero. Returns "" or the name of the broken clause.
func (s *sampled) vertexRule(v v3.Vec) (string, string) {
	tol := 1e-9 * s.h
	ix, iy, iz := lat.Nearest(s.ax.X, v.X), lat.Nearest(s.ax.Y, v.Y), lat.Nearest(s.ax.Z, v.Z)
	onX, onY, onZ := math.Abs(s.ax.X[ix]-v.X) <= tol, math.Abs(s.ax.Y[iy]-v.Y) <= tol, math.Abs(s.ax.Z[iz]-v.Z) <= tol
	type cand struct {
		line []sv
		x    float64
	}
	var cs []cand
	if onY && onZ {
		cs = append(cs, cand{s.byX[[2]int{iy, iz}], v.X})
	}
	if onX && onZ {
		cs = append(cs, cand{s.byY[[2]int{ix, iz}], v.Y})
	}
	if onX && onY {
		cs = append(cs, cand{s.byZ[[2]int{ix, iy}], v.Z})
	}
	if len(cs) == 0 {
		return "vertex-off-lattice-edge", fmt.Sprintf("vertex %v has fewer than two coordinates on sampled lattice planes", v)
	}
	firstK, firstM := "", ""
	for _, c := range cs {
		lo, hi := around(c.line, c.x, tol)
		k, m := "", ""
		switch {
		case lo == nil || hi == nil:
			k, m = "vertex-off-lattice-edge", fmt.Sprintf("vertex %v: no sampled neighbours on its lattice line", v)
		case hi.c-lo.c <= tol:
			if math.Abs(lo.v) > 1e-9 {
				k, m = "vertex-on-node-with-nonzero-value", fmt.Sprintf("vertex %v sits on a lattice node whose value is %v", v, lo.v)
			}
		case hi.c-lo.c > 1.2*s.h || hi.c-lo.c < 0.4*s.h:
			k, m = "vertex-off-lattice-edge", fmt.Sprintf("vertex %v: neighbouring samples are %v apart (cell %v)", v, hi.c-lo.c, s.h)
		case !((lo.v < 0) != (hi.v < 0)):
			k, m = "vertex-on-edge-that-does-not-straddle", fmt.Sprintf("vertex %v lies on a lattice edge with end values %v, %v", v, lo.v, hi.v)
		case math.Abs(lo.v) < 1e-12 && math.Abs(hi.v) < 1e-12:
		default:
			want := lo.c + (0-lo.v)/(hi.v-lo.v)*(hi.c-lo.c)
			if math.Abs(c.x-want) > 1e-9*s.h+2e-12*s.h/math.Max(math.Abs(lo.v-hi.v), 1e-300)+4e-16*s.scale {
				k, m = "vertex-not-linear-zero-crossing", fmt.Sprintf("vertex %v on edge [%v,%v] with values %v,%v: expected crossing at %v", v, lo.c, hi.c, lo.v, hi.v, want)
			}
		}
		if k == "" {
			return "", ""
		}
		if firstK == "" {
			firstK, firstM = k, m
		}
	}
	return firstK, firstM
}

func inBox(v, lo, hi v3.Vec, e float64) bool {
	return v.X >= lo.X-e && v.Y >= lo.Y-e && v.Z >= lo.Z-e && v.X <= hi.X+e && v.Y <= hi.Y+e && v.Z <= hi.Z+e
}

// TestVertexRule: every vertex is the linear zero crossing of recorded lattice
// values; |f(v)| bounds for planes, spheres and 1-Lipschitz fields; nothing outside the sampled box.
func TestVertexRule(t *testing.T) {
	rec := ev.Get()
	rapid.Check(t, func(t *rapid.T) {
		r := rapid.SampledFrom(renderers).Draw(t, "renderer")
		cells := rapid.IntRange(4, ev.Pick(28, 64)).Draw(t, "cells")
		kind := rapid.SampledFrom([]string{"plane", "sphere", "exact", "lipschitz"}).Draw(t, "kind")
		busy.Store(rapid.IntRange(0, 3).Draw(t, "other-renders-running") == 0)
		defer busy.Store(false)
		var s sdf.SDF3
		desc := ""
		var sphereR float64
		var sphereC v3.Vec
		S := rapid.SampledFrom([]float64{1, 10, 100, 1e-7, 1e-4, 1e4}).Draw(t, "scale")
		switch kind {
		case "plane":
			n := v3.Vec{X: g.Coord(t, "nx", 1), Y: g.Coord(t, "ny", 1), Z: g.Coord(t, "nz", 1)}
			if n.Length() < 1e-3 {
				n = v3.Vec{Z: 1}
			}
			n = n.Normalize()
			c := v3.Vec{X: g.Coord(t, "cx", 10*S), Y: g.Coord(t, "cy", 10*S), Z: g.Coord(t, "cz", 10*S)}
			half := v3.Vec{X: S, Y: S, Z: S}
			d := n.Dot(c) + g.F(-0.5, 0.5).Draw(t, "off")*S
			s = plane{n, d, sdf.Box3{Min: c.Sub(half), Max: c.Add(half)}}
			desc = fmt.Sprintf("plane n=%v d=%v window %v+-%v", n, d, c, S)
		case "sphere":
			sphereR = g.Length(t, "R", 0.1*S, S)
			sphereC = v3.Vec{X: g.Coord(t, "cx", 10*S), Y: g.Coord(t, "cy", 10*S), Z: g.Coord(t, "cz", 10*S)}
			sp, _ := sdf.Sphere3D(sphereR)
			s = sdf.Transform3D(sp, sdf.Translate3d(sphereC))
			desc = fmt.Sprintf("sphere R=%v at %v", sphereR, sphereC)
		case "exact":
			n := shape.GenExact3(t, S, rapid.IntRange(0, 2).Draw(t, "depth"))
			b, err := shape.Build(n)
			if err != nil {
				rec.Count("discarded:constructor-rejected", 1)
				rec.Case(false, "", "discarded")
				return
			}
			s, desc = b.SDF3(), n.String()
		default:
			n := shape.Gen3(t, shape.Opts{S: S, Depth: rapid.IntRange(1, 2).Draw(t, "depth"), Grammar: shape.Lipschitz, NoPoly: true, SolidUnion2: true})
			b, err := shape.Build(n)
			if err != nil {
				rec.Count("discarded:constructor-rejected", 1)
				rec.Case(false, "", "discarded")
				return
			}
			s, desc = b.SDF3(), n.String()
		}
		sz := s.BoundingBox().Size()
		if !(sz.MinComponent() > 1e-6*S) || !shape.Finite(sz.X, sz.Y, sz.Z) || sz.MaxComponent() > 1e5*S {
			rec.Count("discarded:degenerate-box", 1)
			rec.Case(false, "", "discarded")
			return
		}
		sm := renderRecorded(s, r, cells)
		if len(sm.tris) == 0 {
			rec.Case(false, "", "vertex:"+kind+":empty")
			return
		}
		seen := map[v3.Vec]bool{}
		worst := 0.0
		for _, tr := range sm.tris {
			for _, v := range tr {
				if seen[v] {
					continue
				}
				seen[v] = true
				if !inBox(v, sm.lo, sm.hi, 1e-9*sm.h+4e-16*sm.scale) {
					rec.Violation(t, "MarchingCubes:"+r.name+":vertex-outside-sampled-box", "[%s] %s, %d cells: vertex %v outside sampled lattice %v..%v", kind, desc, cells, v, sm.lo, sm.hi)
				}
				if k, m := sm.vertexRule(v); k != "" {
					rec.Violation(t, "MarchingCubes:"+r.name+":"+k, "[%s] %s, %d cells: %s", kind, desc, cells, m)
				}
				fv := math.Abs(s.Evaluate(v))
				worst = math.Max(worst, fv)
				switch kind {
				case "plane":
					if fv > 1e-9*sm.scale+snapEps {
						rec.Violation(t, "MarchingCubes:"+r.name+":plane-vertex-off-plane", "%s, %d cells: |f(v)| = %v at vertex %v", desc, cells, fv, v)
					}
				case "sphere":
					if sphereR > 2*sm.h {
						if bound := sm.h*sm.h/(8*(sphereR-sm.h)) + 1e-9*sm.scale + snapEps; fv > bound {
							rec.Violation(t, "MarchingCubes:"+r.name+":sphere-vertex-bound", "%s, %d cells (h=%v): |f(v)| = %v > h^2/(8(R-h)) = %v at %v", desc, cells, sm.h, fv, bound, v)
						}
					}
				}
				if fv > sm.h*(1+1e-9)+1e-9*sm.scale+snapEps {
					rec.Violation(t, "MarchingCubes:"+r.name+":vertex-farther-than-one-cell", "[%s] %s, %d cells (h=%v): |f(v)| = %v at vertex %v", kind, desc, cells, sm.h, fv, v)
				}
			}
		}
		rec.Add("vertices-checked", int64(len(seen)))
		rec.Case(len(sm.tris) >= 20, ev.Key(r.name, kind, desc, cells), "vertex:"+kind, "vertex:"+r.name, fmt.Sprintf("vertex:unit=%g", S), fmt.Sprintf("vertex:other-renders-running=%v", busy.Load()))
		rec.Sample("vertex:"+kind, map[string]any{"renderer": r.name, "kind": kind, "scene": desc, "cells": cells, "h": sm.h, "triangles": len(sm.tris), "vertices": len(seen), "worst_abs_f": worst})
	})
}

// snapEps: mcInterpolate (render/march3.go:239) puts the vertex ON a lattice
// corner whose value is within 1e-12 (absolute) of the level; such a vertex is
// the zero crossing "to rounding" of that constant. It only matters for models
// in very small units (it is 1e-12 against 1e-9*scale otherwise).
const snapEps = 1.001e-12

// analytic shapes for the two-sided distance / normal checks
type analytic struct {
	s        sdf.SDF3
	f        func(oracle.V3) float64
	desc     string
	kind     string
	kindNote string
	surf     func(t *rapid.T, i int, diag float64) (v3.Vec, bool) // a resolvable surface point
	R        float64
	c        v3.Vec
	place    *shape.Node
}

func rot(n *shape.Node, p v3.Vec) v3.Vec {
	// forward map of the xform3 node: the inverse of InvXform3 is obtained by solving with three basis images
	o := shape.InvXform3(n, [3]float64{0, 0, 0})
	_ = o
	return p
}

func drawAnalytic(t *rapid.T, S float64, cells int) (*analytic, bool) {
	kind := rapid.SampledFrom([]string{"sphere", "box", "cylinder", "cone"}).Draw(t, "shape")
	wholeCells := rapid.IntRange(0, 3).Draw(t, "box-with-whole-cell-sides") == 0
	if wholeCells {
		kind = "box"
	}
	c := v3.Vec{X: g.Coord(t, "cx", 5*S), Y: g.Coord(t, "cy", 5*S), Z: g.Coord(t, "cz", 5*S)}
	// orthonormal frame for the placement (own construction)
	ax := v3.Vec{X: g.Coord(t, "ax", 1), Y: g.Coord(t, "ay", 1), Z: g.Coord(t, "az", 1)}
	if ax.Length() < 1e-3 {
		ax = v3.Vec{Z: 1}
	}
	ang := g.Angle(t, "ang")
	// a third of the solids keep the library's own orientation: flat faces and caps lie in the planes of the
	// bounding box, and the box is often not moved either
	aligned := rapid.IntRange(0, 2).Draw(t, "axis-aligned") == 0 || wholeCells
	if aligned {
		ax, ang = v3.Vec{Z: 1}, 0
		if rapid.Bool().Draw(t, "at-origin") {
			c = v3.Vec{}
		}
	}
	node := &shape.Node{Op: "xform3", I: []int{0, 0}, P: []float64{ax.X, ax.Y, ax.Z, ang, c.X, c.Y, c.Z}}
	// forward map: columns are the images of the basis vectors, obtained by inverting the inverse on a basis
	fwd := func(q v3.Vec) v3.Vec {
		m := sdf.Translate3d(c).Mul(sdf.Rotate3d(ax, ang))
		return m.MulPosition(q)
	}
	a := &analytic{kind: kind, c: c, place: node}
	var leaf *shape.Node
	switch kind {
	case "sphere":
		a.R = g.Length(t, "R", 0.2*S, S)
		leaf = &shape.Node{Op: "sphere", P: []float64{a.R}}
		a.surf = func(t *rapid.T, i int, diag float64) (v3.Vec, bool) {
			if a.R < diag {
				return v3.Vec{}, false
			}
			u := g.F(-1, 1).Draw(t, fmt.Sprintf("su%d", i))
			ph := g.F(-math.Pi, math.Pi).Draw(t, fmt.Sprintf("sp%d", i))
			rr := math.Sqrt(1 - u*u)
			return fwd(v3.Vec{X: a.R * rr * math.Cos(ph), Y: a.R * rr * math.Sin(ph), Z: a.R * u}), true
		}
	case "box":
		sx, sy, sz := g.Length(t, "sx", 0.3*S, 2*S), g.Length(t, "sy", 0.3*S, 2*S), g.Length(t, "sz", 0.3*S, 2*S)
		if wholeCells {
			// sides that are whole multiples of the cell (sizes like 1.2 x 0.72 x 0.48 at 25 cells): size / cell is
			// an integer up to rounding, on either side of it
			L := S * rapid.SampledFrom([]float64{1.2, 0.5, 4.4, 1, 0.3, 1.7, 2.25}).Draw(t, "longest-side")
			if rapid.Bool().Draw(t, "longest-side-free") {
				L = g.Length(t, "longest-side-length", 0.3*S, 2*S)
			}
			k := [3]int{cells, rapid.IntRange(cells/3+1, cells).Draw(t, "cells-2nd-side"), rapid.IntRange(cells/3+1, cells).Draw(t, "cells-3rd-side")}
			o := rapid.IntRange(0, 2).Draw(t, "longest-axis")
			sd := [3]float64{}
			for i := 0; i < 3; i++ {
				sd[(i+o)%3] = L * float64(k[i]) / float64(cells)
				if rapid.Bool().Draw(t, fmt.Sprintf("side-form%d", i)) {
					sd[(i+o)%3] = L / float64(cells) * float64(k[i])
				}
			}
			sx, sy, sz = sd[0], sd[1], sd[2]
			a.kindNote = "whole-cell-sides"
		}
		leaf = &shape.Node{Op: "box3", P: []float64{sx, sy, sz, 0}}
		a.surf = func(t *rapid.T, i int, diag float64) (v3.Vec, bool) {
			h := [3]float64{sx / 2, sy / 2, sz / 2}
			if h[0] < 2*diag || h[1] < 2*diag || h[2] < 2*diag {
				return v3.Vec{}, false
			}
			f := rapid.IntRange(0, 5).Draw(t, fmt.Sprintf("sf%d", i))
			var q [3]float64
			for k := 0; k < 3; k++ {
				q[k] = g.F(-1, 1).Draw(t, fmt.Sprintf("sq%d.%d", i, k)) * (h[k] - diag)
			}
			q[f/2] = h[f/2]
			if f%2 == 1 {
				q[f/2] = -h[f/2]
			}
			return fwd(v3.Vec{X: q[0], Y: q[1], Z: q[2]}), true
		}
	case "cylinder":
		hgt, rad := g.Length(t, "h", 0.3*S, 2*S), g.Length(t, "r", 0.2*S, S)
		leaf = &shape.Node{Op: "cyl", P: []float64{hgt, rad, 0}}
		a.surf = func(t *rapid.T, i int, diag float64) (v3.Vec, bool) {
			if rad < 2*diag || hgt/2 < 2*diag {
				return v3.Vec{}, false
			}
			ph := g.F(-math.Pi, math.Pi).Draw(t, fmt.Sprintf("sp%d", i))
			if rapid.Bool().Draw(t, fmt.Sprintf("cap%d", i)) {
				rr := g.F(0, 1).Draw(t, fmt.Sprintf("sr%d", i)) * (rad - diag)
				z := hgt / 2
				if rapid.Bool().Draw(t, fmt.Sprintf("bot%d", i)) {
					z = -z
				}
				return fwd(v3.Vec{X: rr * math.Cos(ph), Y: rr * math.Sin(ph), Z: z}), true
			}
			z := g.F(-1, 1).Draw(t, fmt.Sprintf("sz%d", i)) * (hgt/2 - diag)
			return fwd(v3.Vec{X: rad * math.Cos(ph), Y: rad * math.Sin(ph), Z: z}), true
		}
	default:
		hgt, r0 := g.Length(t, "h", 0.5*S, 2*S), g.Length(t, "r0", 0.3*S, S)
		r1 := r0 * g.F(0.3, 1).Draw(t, "r1f")
		leaf = &shape.Node{Op: "cone", P: []float64{hgt, r0, r1, 0}}
		a.surf = func(t *rapid.T, i int, diag float64) (v3.Vec, bool) {
			if r1 < 2*diag || hgt/2 < 2*diag {
				return v3.Vec{}, false
			}
			ph := g.F(-math.Pi, math.Pi).Draw(t, fmt.Sprintf("sp%d", i))
			// slope, away from both rims
			sl := math.Hypot(r1-r0, hgt)
			u := diag/sl + g.F(0, 1).Draw(t, fmt.Sprintf("su%d", i))*(1-2*diag/sl)
			rr, z := r0+u*(r1-r0), -hgt/2+u*hgt
			return fwd(v3.Vec{X: rr * math.Cos(ph), Y: rr * math.Sin(ph), Z: z}), true
		}
	}
	node.K = []*shape.Node{leaf}
	f, ok := oracle.Exact3(node)
	if !ok {
		return nil, false
	}
	b, err := shape.Build(node)
	if err != nil {
		return nil, false
	}
	a.s, a.f, a.desc = b.SDF3(), f, node.String()
	return a, true
}

func grad(f func(oracle.V3) float64, p v3.Vec, e float64) v3.Vec {
	d := func(a int) float64 {
		q1, q2 := oracle.V3{p.X, p.Y, p.Z}, oracle.V3{p.X, p.Y, p.Z}
		q1[a] += e
		q2[a] -= e
		return (f(q1) - f(q2)) / (2 * e)
	}
	return v3.Vec{X: d(0), Y: d(1), Z: d(2)}
}

// TestMeshNearSurface: two-sided distance between mesh and true surface, normals.
func TestMeshNearSurface(t *testing.T) {
	rec := ev.Get()
	rapid.Check(t, func(t *rapid.T) {
		r := rapid.SampledFrom(renderers).Draw(t, "renderer")
		S := rapid.SampledFrom([]float64{1, 10, 1e-7, 1e-4, 1e4}).Draw(t, "scale")
		cells := rapid.IntRange(6, ev.Pick(28, 48)).Draw(t, "cells")
		a, ok := drawAnalytic(t, S, cells)
		if !ok {
			rec.Count("discarded:constructor-rejected", 1)
			rec.Case(false, "", "discarded")
			return
		}
		if a.kindNote != "" {
			rec.Label("near:box:" + a.kindNote)
		}
		// the renderers work from the values at the lattice nodes, and linear interpolation does not change when
		// all values are multiplied by a constant: k*f has the surface of f. The uniform renderer takes any k
		// (it is not told that the field is a distance at all); the octree renderer needs a field that never
		// overestimates, k <= 1.
		var rs sdf.SDF3 = a.s
		amp := 1.0
		if rapid.IntRange(0, 2).Draw(t, "amplified-field") == 0 {
			amp = rapid.SampledFrom([]float64{3, 10, 0.25, 64, 0.5, 1.5}).Draw(t, "field-factor")
			if r.name == "octree" && amp > 1 {
				amp = 1 / amp
			}
			rs = lat.Scaled3{S: a.s, K: amp}
			rec.Label(fmt.Sprintf("near:field-times-%g", amp))
		}
		ts := render.ToTriangles(rs, r.mk(cells))
		h := a.s.BoundingBox().Size().MaxComponent() / float64(cells)
		diag := math.Sqrt(3) * h
		scale := a.c.Length() + a.s.BoundingBox().Size().Length()
		tol := 1e-9 * scale
		of := func(p v3.Vec) float64 { return a.f(oracle.V3{p.X, p.Y, p.Z}) }
		// mesh -> surface
		badNormal, checkedNormals := 0, 0
		for _, tr := range ts {
			cen := tr[0].Add(tr[1]).Add(tr[2]).DivScalar(3)
			pts := []v3.Vec{tr[0], tr[1], tr[2], cen, tr[0].Add(tr[1]).MulScalar(0.5), tr[1].Add(tr[2]).MulScalar(0.5), tr[2].Add(tr[0]).MulScalar(0.5)}
			for _, p := range pts {
				if d := math.Abs(of(p)); d > diag+tol {
					rec.Violation(t, "MarchingCubes:"+r.name+":mesh-point-far-from-surface", "%s, %d cells: mesh point %v is %v from the surface (cell diagonal %v)", a.desc, cells, p, d, diag)
				}
			}
			area := tr[1].Sub(tr[0]).Cross(tr[2].Sub(tr[0])).Length() / 2
			if area > 1e-6*h*h {
				n := tr.Normal()
				gv := grad(a.f, cen, 1e-4*h)
				// only where the field is smooth across the whole triangle: the gradients at the
				// three vertices and the centroid agree (near a sharp edge or rim the gradient jumps
				// between faces and "agrees with the gradient" has no meaning for a straddling triangle)
				smooth := true
				for _, q := range tr {
					gq := grad(a.f, q, 1e-4*h)
					if gq.Length() < 0.5 || gv.Length() < 0.5 || gq.Normalize().Dot(gv.Normalize()) < 0.9 {
						smooth = false
					}
				}
				// and only where the lattice can resolve the surface (the statement's own notion): a ball of
				// one cell diagonal fits against the surface point nearest to the centroid, inside and outside
				if smooth {
					gn := gv.Normalize()
					foot := cen.Sub(gn.MulScalar(of(cen)))
					in, out := of(foot.Sub(gn.MulScalar(diag))), of(foot.Add(gn.MulScalar(diag)))
					if math.Abs(in+diag) > 1e-3*diag || math.Abs(out-diag) > 1e-3*diag {
						smooth = false
					}
				}
				if !smooth {
					rec.Add("normals-skipped-unresolvable-or-sharp", 1)
				}
				if gl := gv.Length(); smooth && gl > 0.5 {
					checkedNormals++
					dot := n.Dot(gv.DivScalar(gl))
					// triangles straddling a sharp edge of a box/cylinder/cone legitimately average two faces: require outward (> 0)
					if !(dot > 0) {
						badNormal++
						rec.Violation(t, "MarchingCubes:"+r.name+":normal-against-gradient", "%s, %d cells: triangle %v has normal %v, field gradient at its centroid %v (dot %v)", a.desc, cells, *tr, n, gv, dot)
					}
					if a.kind == "sphere" && a.R >= 4*h && !(dot > 0.7) {
						rec.Violation(t, "MarchingCubes:"+r.name+":sphere-normal-deviates", "%s, %d cells: normal . gradient = %v <= 0.7 for triangle %v", a.desc, cells, dot, *tr)
					}
				}
			}
		}
		// surface -> mesh
		nsurf := 0
		for i := 0; i < 60; i++ {
			p, ok := a.surf(t, i, diag)
			if !ok {
				break
			}
			nsurf++
			if math.Abs(of(p)) > 1e-6*scale {
				t.Fatalf("harness: constructed surface point %v has oracle value %v", p, of(p))
			}
			if within, best := mesh.WithinOfMesh(p, ts, diag+tol); !within {
				rec.Violation(t, "MarchingCubes:"+r.name+":surface-point-far-from-mesh", "%s, %d cells: resolvable surface point %v is %v from the mesh (cell diagonal %v, %d triangles)", a.desc, cells, p, best, diag, len(ts))
			}
		}
		rec.Add("surface-points", int64(nsurf))
		rec.Add("normals-checked", int64(checkedNormals))
		rec.Case(len(ts) >= 20 && nsurf > 0, ev.Key(r.name, a.desc, cells), "near:"+a.kind, "near:"+r.name, fmt.Sprintf("near:unit=%g", S))
		rec.Sample("near:"+a.kind, map[string]any{"renderer": r.name, "shape": a.desc, "cells": cells, "triangles": len(ts), "surface_points": nsurf})
	})
}

func volume(ts []*sdf.Triangle3, c v3.Vec) float64 {
	v := 0.0
	for _, t := range ts {
		p0, p1, p2 := t[0].Sub(c), t[1].Sub(c), t[2].Sub(c)
		v += p0.Dot(p1.Cross(p2)) / 6
	}
	return v
}

// TestVolumeConvergence: second-order convergence of the enclosed volume for spheres.
func TestVolumeConvergence(t *testing.T) {
	rec := ev.Get()
	rapid.Check(t, func(t *rapid.T) {
		r := rapid.SampledFrom(renderers).Draw(t, "renderer")
		// the unit of length is the caller's: the same sphere in units of 1e-7 .. 1e4
		K := rapid.SampledFrom([]float64{1, 1, 1e-7, 1e-4, 1e4}).Draw(t, "unit")
		R := K * g.Length(t, "R", 0.1, 100)
		c := v3.Vec{X: g.Coord(t, "cx", 10*K), Y: g.Coord(t, "cy", 10*K), Z: g.Coord(t, "cz", 10*K)}
		sp, _ := sdf.Sphere3D(R)
		s := sdf.Transform3D(sp, sdf.Translate3d(c))
		n0 := rapid.IntRange(10, ev.Pick(20, 32)).Draw(t, "n0")
		want := 4.0 / 3 * math.Pi * R * R * R
		var errs []float64
		for _, cells := range []int{n0, 2 * n0} {
			errs = append(errs, math.Abs(volume(render.ToTriangles(s, r.mk(cells)), c)-want)/want)
		}
		h0 := 2 * R / float64(n0)
		for i, e := range errs {
			hh := h0 / math.Pow(2, float64(i))
			if bound := volC*(hh/R)*(hh/R) + 1e-9; e > bound {
				rec.Violation(t, "MarchingCubes:"+r.name+":volume-error", "sphere R=%v at %v, %d cells: relative volume error %v > %v", R, c, n0<<uint(i), e, bound)
			}
		}
		if errs[0] > 1e-6 && errs[1] > 0.4*errs[0] {
			rec.Violation(t, "MarchingCubes:"+r.name+":volume-not-second-order", "sphere R=%v at %v: relative volume errors %v at %d/%d cells: the finer error is not <= 0.4x the coarser", R, c, errs, n0, 2*n0)
		}
		rec.Case(true, ev.Key(r.name, R, c, n0), "volume:"+r.name, fmt.Sprintf("volume:unit=%g", K))
		rec.Sample("volume:"+r.name, map[string]any{"renderer": r.name, "R": R, "centre": c, "cells": []int{n0, 2 * n0}, "relative_volume_error": errs, "h_over_R_squared": []float64{(h0 / R) * (h0 / R), (h0 / R) * (h0 / R) / 4}})
	})
}

// volC: observed relative volume error of a sphere ~0.59*(h/R)^2 on the pinned tree (both renderers); bound with 2.2x margin
const volC = 1.3
