package c06

import (
	"fmt"
	"math"
	"testing"

	"github.com/deadsy/sdfx/render"
	"github.com/deadsy/sdfx/sdf"
	v3 "github.com/deadsy/sdfx/vec/v3"
	"pgregory.net/rapid"

	"verif/internal/ev"
	"verif/internal/g"
	"verif/internal/lat"
	"verif/internal/mesh"
)

// TestOctreeDeepLattice: the statement's bounds hold at EVERY resolution. A resolution of tens of
// thousands of cells along the longest axis (an octree of 16..18 levels, lattice indices beyond 2^16 and
// 2^17) is only affordable for a thin shape: a rod of 5..7 cells across, along x, y or z, placed
// anywhere. Oracle: the rod's distance function written here; every mesh vertex is within one cell
// diagonal of the true surface and inside the sampled box, and resolvable surface points all along the
// rod - the long faces from end to end, both end caps - are within one cell diagonal of the mesh.
func TestOctreeDeepLattice(t *testing.T) {
	rec := ev.Get()
	rapid.Check(t, func(t *rapid.T) {
		special := []int{33000, 32443, 32444, 32500, 40000, 66000, 64888, 65000, 70000, 16300, 16400, 20000}
		cells := rapid.SampledFrom(special).Draw(t, "cells")
		if rapid.IntRange(0, 2).Draw(t, "cells-kind") == 0 {
			cells = rapid.IntRange(9000, ev.Pick(70000, 140000)).Draw(t, "cells-free")
		}
		axis := rapid.IntRange(0, 2).Draw(t, "axis")
		L := g.Length(t, "length", 10, 1000)
		h := L / float64(cells)
		w1, w2 := g.F(5, 7).Draw(t, "width1")*h, g.F(5, 7).Draw(t, "width2")*h
		var size [3]float64
		size[axis], size[(axis+1)%3], size[(axis+2)%3] = L, w1, w2
		c := [3]float64{g.Coord(t, "cx", L), g.Coord(t, "cy", L), g.Coord(t, "cz", L)}
		if rapid.Bool().Draw(t, "centred") {
			c = [3]float64{}
		}
		box, err := sdf.Box3D(v3.Vec{X: size[0], Y: size[1], Z: size[2]}, 0)
		if err != nil {
			t.Fatalf("Box3D: %v", err)
		}
		s := sdf.Transform3D(box, sdf.Translate3d(v3.Vec{X: c[0], Y: c[1], Z: c[2]}))
		// own distance function of the rod
		f := func(p v3.Vec) float64 {
			q := [3]float64{math.Abs(p.X-c[0]) - size[0]/2, math.Abs(p.Y-c[1]) - size[1]/2, math.Abs(p.Z-c[2]) - size[2]/2}
			out := math.Sqrt(sq(math.Max(q[0], 0)) + sq(math.Max(q[1], 0)) + sq(math.Max(q[2], 0)))
			return out + math.Min(math.Max(q[0], math.Max(q[1], q[2])), 0)
		}
		ts := render.ToTriangles(s, render.NewMarchingCubesOctree(cells))
		bb := s.BoundingBox()
		hh := bb.Size().MaxComponent() / float64(cells)
		diag := math.Sqrt(3) * hh
		tol := 1e-9 * (L + math.Abs(c[0]) + math.Abs(c[1]) + math.Abs(c[2]))
		desc := fmt.Sprintf("rod %v x %v x %v centred at %v, octree, %d cells (cell %v)", size[0], size[1], size[2], c, cells, hh)
		// the octree's root cube: the 1% padded box rounded up to a power of two of cells, from its minimum
		lo := [3]float64{bb.Min.X - 0.006*bb.Size().X - hh, bb.Min.Y - 0.006*bb.Size().Y - hh, bb.Min.Z - 0.006*bb.Size().Z - hh}
		far, outside := 0, 0
		var worst float64
		var example v3.Vec
		for _, tr := range ts {
			for _, p := range tr {
				if d := math.Abs(f(p)); d > diag+tol {
					far++
					if d > worst {
						worst, example = d, p
					}
				}
				if p.X < lo[0] || p.Y < lo[1] || p.Z < lo[2] {
					outside++
				}
			}
		}
		if far > 0 {
			rec.Violation(t, "MarchingCubes:octree:deep:mesh-point-far-from-surface", "%s: %d mesh vertices are more than one cell diagonal (%v) from the surface, e.g. %v at %v", desc, far, diag, example, worst)
		}
		if outside > 0 {
			rec.Violation(t, "MarchingCubes:octree:deep:vertex-outside-sampled-box", "%s: %d vertices below the minimum corner of the sampled box", desc, outside)
		}
		// surface -> mesh: triangles bucketed along the rod
		bw := 8 * hh
		nb := int(L/bw) + 3
		buckets := make([][]*sdf.Triangle3, nb)
		coord := func(p v3.Vec) float64 { return [3]float64{p.X, p.Y, p.Z}[axis] - (c[axis] - L/2) }
		bidx := func(x float64) int {
			i := int(math.Floor(x/bw)) + 1
			if i < 0 {
				i = 0
			}
			if i >= nb {
				i = nb - 1
			}
			return i
		}
		for _, tr := range ts {
			a, b := bidx(math.Min(coord(tr[0]), math.Min(coord(tr[1]), coord(tr[2])))), bidx(math.Max(coord(tr[0]), math.Max(coord(tr[1]), coord(tr[2]))))
			for i := a; i <= b; i++ {
				buckets[i] = append(buckets[i], tr)
			}
		}
		near := func(p v3.Vec) (bool, float64) {
			i := bidx(coord(p))
			best := math.Inf(1)
			for k := i - 1; k <= i+1; k++ {
				if k < 0 || k >= nb {
					continue
				}
				ok, d := mesh.WithinOfMesh(p, buckets[k], diag+tol)
				if ok {
					return true, d
				}
				best = math.Min(best, d)
			}
			return false, best
		}
		missing := 0
		var where v3.Vec
		var dist float64
		probe := func(q [3]float64) {
			p := v3.Vec{X: c[0] + q[0], Y: c[1] + q[1], Z: c[2] + q[2]}
			if ok, d := near(p); !ok {
				missing++
				where, dist = p, d
			}
		}
		a1, a2 := (axis+1)%3, (axis+2)%3
		npts := 0
		// long faces: 400 stations from end to end (both ends included), 4 faces each, on the face's centre line
		for k := 0; k <= 400; k++ {
			x := -L/2 + 2*diag + (L-4*diag)*float64(k)/400
			for _, fc := range [][2]float64{{1, 0}, {-1, 0}, {0, 1}, {0, -1}} {
				var q [3]float64
				q[axis], q[a1], q[a2] = x, fc[0]*size[a1]/2, fc[1]*size[a2]/2
				probe(q)
				npts++
			}
		}
		// end caps: centre point
		for _, e := range []float64{-1, 1} {
			var q [3]float64
			q[axis] = e * L / 2
			probe(q)
			npts++
		}
		if missing > 0 {
			rec.Violation(t, "MarchingCubes:octree:deep:surface-point-far-from-mesh", "%s: %d of %d resolvable surface points (face centre lines from end to end, end caps) are more than one cell diagonal from the mesh, e.g. %v at %v; %d triangles", desc, missing, npts, where, dist, len(ts))
		}
		levels := 0
		for n := 1; n < cells; n *= 2 {
			levels++
		}
		rec.Add("deep:surface-points", int64(npts))
		rec.Add("deep:vertices-checked", int64(3*len(ts)))
		rec.Case(len(ts) > 1000, ev.Key("deep", size, c, cells), fmt.Sprintf("deep:octree-levels=%d", levels+1), fmt.Sprintf("deep:axis=%d", axis),
			fmt.Sprintf("deep:half-cell-indices-beyond-2^16=%v", 2.02*float64(cells) > 65536), fmt.Sprintf("deep:half-cell-indices-beyond-2^17=%v", 2.02*float64(cells) > 131072))
		rec.Sample("deep", map[string]any{"size": size, "centre": c, "cells": cells, "triangles": len(ts)})
	})
}

func sq(x float64) float64 { return x * x }

// TestUniformLargeLayers: the vertex bounds at resolutions where one lattice layer of the uniform renderer
// has more than 10 000 points (100+ cells along y and z: the renderer's evaluation queue runs full, all of
// its workers are busy), for a field whose evaluations take a varying time. Oracle: |f(v)| <= h for the
// exact distance fields of a sphere and a box (for the sphere h^2/(8(R-h))), every vertex inside the
// sampled box, the two end faces of the slab within one cell diagonal of the mesh.
func TestUniformLargeLayers(t *testing.T) {
	rec := ev.Get()
	rapid.Check(t, func(t *rapid.T) {
		kind := rapid.SampledFrom([]string{"sphere", "slab", "slab"}).Draw(t, "kind")
		cells := rapid.IntRange(100, ev.Pick(170, 260)).Draw(t, "cells")
		var s sdf.SDF3
		R := 0.0
		switch kind {
		case "sphere":
			R = g.Length(t, "R", 0.5, 5)
			s, _ = sdf.Sphere3D(R)
		default:
			a := g.Length(t, "a", 1, 5)
			s, _ = sdf.Box3D(v3.Vec{X: a * g.F(0.05, 0.2).Draw(t, "thin"), Y: a, Z: a * g.F(0.7, 1).Draw(t, "zy")}, 0)
		}
		c := v3.Vec{X: g.Coord(t, "cx", 10), Y: g.Coord(t, "cy", 10), Z: g.Coord(t, "cz", 10)}
		s = sdf.Transform3D(s, sdf.Translate3d(c))
		bb := s.BoundingBox()
		sz := bb.Size()
		h := sz.MaxComponent() / float64(cells)
		layer := (int(sz.Y/h) + 2) * (int(sz.Z/h) + 2)
		mode := rapid.SampledFrom([]int{2, 1, 0}).Draw(t, "evaluation-cost")
		ts := render.ToTriangles(&lat.Perturb3{S: s, Mode: mode}, render.NewMarchingCubesUniform(cells))
		desc := fmt.Sprintf("%s of size %v at %v, uniform, %d cells (layers of ~%d points)", kind, sz, c, cells, layer)
		bound := h*(1+1e-9) + 1e-9*c.Length()
		if kind == "sphere" && R > 2*h {
			bound = h*h/(8*(R-h)) + 1e-9*(R+c.Length())
		}
		bad, outside := 0, 0
		worst := 0.0
		var where v3.Vec
		seen := map[v3.Vec]bool{}
		for _, tr := range ts {
			for _, v := range tr {
				if seen[v] {
					continue
				}
				seen[v] = true
				if d := math.Abs(s.Evaluate(v)); d > bound {
					bad++
					if d > worst {
						worst, where = d, v
					}
				}
				if !inBox(v, bb.Min.SubScalar(1.01*h), bb.Max.AddScalar(1.01*h), 1e-9*h) {
					outside++
				}
			}
		}
		if len(ts) == 0 {
			rec.Violation(t, "MarchingCubes:uniform:large-layers:empty-mesh", "%s: no triangles", desc)
		}
		if bad > 0 {
			rec.Violation(t, "MarchingCubes:uniform:large-layers:vertex-off-surface", "%s: %d of %d vertices have |f(v)| above what the lattice allows (%v), worst %v at %v", desc, bad, len(seen), bound, worst, where)
		}
		if outside > 0 {
			rec.Violation(t, "MarchingCubes:uniform:large-layers:vertex-outside-sampled-box", "%s: %d vertices outside the padded box", desc, outside)
		}
		rec.Add("large-layers:vertices-checked", int64(len(seen)))
		rec.Case(layer > 10100, ev.Key("large", desc, mode), "large-layers:"+kind, fmt.Sprintf("large-layers:layer>10100=%v", layer > 10100), fmt.Sprintf("large-layers:evaluation-cost-mode=%d", mode))
	})
}
