package c08

import (
	"fmt"
	"math"
	"sync"
	"testing"

	"github.com/deadsy/sdfx/render"
	"github.com/deadsy/sdfx/sdf"
	v2 "github.com/deadsy/sdfx/vec/v2"
	"pgregory.net/rapid"

	"verif/internal/ev"
	"verif/internal/g"
	"verif/internal/lat"
	"verif/internal/mesh"
	"verif/internal/shape"
)

func TestMain(m *testing.M) { ev.Main(m) }

type renderer struct {
	name string
	mk   func(cells int) render.Render2
}

var renderers = []renderer{
	{"uniform", func(c int) render.Render2 { return render.NewMarchingSquaresUniform(c) }},
	{"quadtree", func(c int) render.Render2 { return render.NewMarchingSquaresQuadtree(c) }},
}

// collect runs a Render2 and gathers its segments through sdf.NewLine2Buffer
// and an own channel reader (there is no render.ToLines).
func collect(s sdf.SDF2, r render.Render2) []*sdf.Line2 {
	ch := make(chan []*sdf.Line2)
	var out []*sdf.Line2
	var wg sync.WaitGroup
	wg.Add(1)
	go func() {
		defer wg.Done()
		for ls := range ch {
			out = append(out, ls...)
		}
	}()
	r.Render(s, sdf.NewLine2Buffer(ch))
	close(ch)
	wg.Wait()
	return out
}

type calib struct {
	all, nodes lat.Axes2
	step       float64
}

var (
	calMu sync.Mutex
	cals  = map[string]*calib{}
)

func boxN(n int) sdf.Box2 {
	return sdf.Box2{Min: v2.Vec{}, Max: v2.Vec{X: float64(n), Y: float64(n)}}
}

func calibrate(r renderer, n int) *calib {
	calMu.Lock()
	defer calMu.Unlock()
	k := fmt.Sprintf("%s/%d", r.name, n)
	if c, ok := cals[k]; ok {
		return c
	}
	rec := &lat.Recorder2{S: lat.Const2{V: 1e-3, BB: boxN(n)}}
	if ls := collect(rec, r.mk(n)); len(ls) != 0 {
		panic("calibration render of a positive constant field produced segments")
	}
	c := &calib{all: lat.AxesOf2(rec.Pts, 1e-9)}
	if r.name == "quadtree" {
		pick := func(cs []float64) []float64 {
			var out []float64
			for i := 0; i < len(cs); i += 2 {
				out = append(out, cs[i])
			}
			return out
		}
		c.nodes = lat.Axes2{X: pick(c.all.X), Y: pick(c.all.Y)}
	} else {
		c.nodes = c.all
	}
	c.step = c.nodes.X[1] - c.nodes.X[0]
	cals[k] = c
	return c
}

type field struct {
	c  *calib
	l  *lat.Lookup2
	qt bool
}

func newField(c *calib, n int, qt bool, def float64) *field {
	return &field{c: c, l: lat.NewLookup2(c.all, boxN(n), def), qt: qt}
}

func (f *field) set(i, j int, v float64) {
	if f.qt {
		f.l.Set(2*i, 2*j, v)
	} else {
		f.l.Set(i, j, v)
	}
}

func (f *field) at(i, j int) float64 {
	if f.qt {
		return f.l.At(2*i, 2*j)
	}
	return f.l.At(i, j)
}

var posClasses = []string{"generic", "equal", "zero", "tiny13", "small11", "ratio-lo", "ratio-hi"}
var negClasses = []string{"generic", "equal", "tiny13", "small11", "ratio-lo", "ratio-hi"}

func magnitude(class string, u float64) float64 {
	switch class {
	case "equal":
		return 0.5
	case "zero":
		return 0
	case "tiny13":
		return 1e-13
	case "small11":
		return 1e-11
	case "ratio-lo":
		return 1e-6 * (0.5 + u)
	case "ratio-hi":
		return 0.6
	}
	return 0.05 + 0.55*u
}

// cand is a lattice edge an endpoint may lie on: the coordinate along the edge
// runs from c1 to c2 with sampled values v1, v2; x is the endpoint's coordinate
// along the edge. node=true: the endpoint coincides with a sampled node of value v1.
type cand struct {
	c1, c2, v1, v2, x float64
	node              bool
}

// edgeFinder proposes the lattice edges / nodes an endpoint lies on.
type edgeFinder func(p v2.Vec) []cand

// calibratedFinder works on a fully known lattice (lookup-field tests).
func calibratedFinder(xs, ys []float64, val func(i, j int) float64, step float64) edgeFinder {
	tol := 1e-9 * step
	near := func(cs []float64, x float64) (int, bool) {
		i := lat.Nearest(cs, x)
		return i, math.Abs(cs[i]-x) <= tol
	}
	between := func(cs []float64, x float64) int {
		i := lat.Nearest(cs, x)
		if cs[i] > x && i > 0 {
			i--
		}
		if i >= len(cs)-1 {
			i = len(cs) - 2
		}
		return i
	}
	return func(p v2.Vec) []cand {
		ix, onX := near(xs, p.X)
		iy, onY := near(ys, p.Y)
		var out []cand
		if onX && onY {
			return []cand{{node: true, v1: val(ix, iy)}}
		}
		if onX {
			j := between(ys, p.Y)
			out = append(out, cand{c1: ys[j], c2: ys[j+1], v1: val(ix, j), v2: val(ix, j+1), x: p.Y})
		}
		if onY {
			i := between(xs, p.X)
			out = append(out, cand{c1: xs[i], c2: xs[i+1], v1: val(i, iy), v2: val(i+1, iy), x: p.X})
		}
		return out
	}
}

// recordedFinder works from the points a renderer evaluated (scene tests): the
// neighbours of p among the samples that share its x (or y) coordinate.
func recordedFinder(rb *lat.Recorder2, h float64) edgeFinder {
	tol := 1e-9 * h
	type sv struct{ c, v float64 }
	xs := lat.Uniq(func() []float64 {
		o := make([]float64, len(rb.Pts))
		for i, p := range rb.Pts {
			o[i] = p.X
		}
		return o
	}(), tol)
	ys := lat.Uniq(func() []float64 {
		o := make([]float64, len(rb.Pts))
		for i, p := range rb.Pts {
			o[i] = p.Y
		}
		return o
	}(), tol)
	col := map[int][]sv{}
	row := map[int][]sv{}
	for i, p := range rb.Pts {
		ix, iy := lat.Nearest(xs, p.X), lat.Nearest(ys, p.Y)
		col[ix] = append(col[ix], sv{p.Y, rb.Val[i]})
		row[iy] = append(row[iy], sv{p.X, rb.Val[i]})
	}
	around := func(l []sv, x float64) (lo, hi *sv) {
		for i := range l {
			e := &l[i]
			if e.c <= x+tol && (lo == nil || e.c > lo.c) {
				lo = e
			}
			if e.c >= x-tol && (hi == nil || e.c < hi.c) {
				hi = e
			}
		}
		return
	}
	return func(p v2.Vec) []cand {
		var out []cand
		ix, iy := lat.Nearest(xs, p.X), lat.Nearest(ys, p.Y)
		if math.Abs(xs[ix]-p.X) <= tol {
			if lo, hi := around(col[ix], p.Y); lo != nil && hi != nil {
				if hi.c-lo.c <= tol {
					out = append(out, cand{node: true, v1: lo.v})
				} else if hi.c-lo.c >= 0.4*h && hi.c-lo.c <= 1.2*h {
					out = append(out, cand{c1: lo.c, c2: hi.c, v1: lo.v, v2: hi.v, x: p.Y})
				}
			}
		}
		if math.Abs(ys[iy]-p.Y) <= tol {
			if lo, hi := around(row[iy], p.X); lo != nil && hi != nil {
				if hi.c-lo.c <= tol {
					out = append(out, cand{node: true, v1: lo.v})
				} else if hi.c-lo.c >= 0.4*h && hi.c-lo.c <= 1.2*h {
					out = append(out, cand{c1: lo.c, c2: hi.c, v1: lo.v, v2: hi.v, x: p.X})
				}
			}
		}
		return out
	}
}

// checkContour verifies closedness and the endpoint rule.
func checkContour(fail func(key, msg string), name string, ls []*sdf.Line2, find edgeFinder, step float64) mesh.Report2 {
	tolW := 1e-6 * step
	r := mesh.Analyze2(ls, tolW)
	if r.ZeroLen > 0 {
		fail("MarchingSquares:"+name+":zero-length-segment", fmt.Sprintf("%d segments with identical endpoints", r.ZeroLen))
	}
	if r.OddPoints > 0 {
		fail("MarchingSquares:"+name+":odd-degree", fmt.Sprintf("%d welded endpoints with odd degree, e.g. %v (%d segments)", r.OddPoints, r.FirstOdd, r.Segs))
	}
	for id, p := range r.Pts {
		if id >= len(r.Degree) || r.Degree[id] == 0 {
			continue
		}
		cs := find(p)
		if len(cs) == 0 {
			fail("MarchingSquares:"+name+":endpoint-off-lattice", fmt.Sprintf("endpoint %v is not on an edge between two adjacent sampled lattice nodes", p))
			continue
		}
		// the endpoint is fine if ANY candidate edge explains it
		var firstKey, firstMsg string
		ok := false
		for _, c := range cs {
			key, msg := "", ""
			switch {
			case c.node:
				// snapped to a lattice node: allowed only where the node value is (numerically) zero
				if math.Abs(c.v1) > 1e-9 {
					key, msg = "endpoint-on-node-with-nonzero-value", fmt.Sprintf("endpoint %v sits on a lattice node whose value is %v", p, c.v1)
				}
			case !((c.v1 < 0) != (c.v2 < 0)):
				key, msg = "endpoint-on-edge-that-does-not-straddle", fmt.Sprintf("endpoint %v lies on a lattice edge with end values %v, %v", p, c.v1, c.v2)
			case math.Abs(c.v1) < 1e-12 && math.Abs(c.v2) < 1e-12:
				// both ends inside the renderer's epsilon: the crossing is numerically undefined
			default:
				want := c.c1 + (0-c.v1)/(c.v2-c.v1)*(c.c2-c.c1)
				if math.Abs(c.x-want) > 1e-9*step+2e-12*step/math.Max(math.Abs(c.v1-c.v2), 1e-300) {
					key, msg = "endpoint-not-linear-zero-crossing", fmt.Sprintf("endpoint %v on edge [%v,%v] with values %v,%v: expected crossing at %v", p, c.c1, c.c2, c.v1, c.v2, want)
				} else if math.Min(math.Abs(c.x-c.c1), math.Abs(c.x-c.c2)) > 2*tolW && r.Degree[id] != 2 {
					// strictly inside a lattice edge: exactly two segments meet here
					key, msg = "degree-not-2-inside-lattice-edge", fmt.Sprintf("endpoint %v strictly inside a lattice edge has degree %d", p, r.Degree[id])
				}
			}
			if key == "" {
				ok = true
				break
			}
			if firstKey == "" {
				firstKey, firstMsg = key, msg
			}
		}
		if !ok {
			fail("MarchingSquares:"+name+":"+firstKey, firstMsg)
		}
	}
	return r
}

// TestAdjacentPairs: all sign assignments to the 6 corners of two edge-adjacent
// cells (2 axes x 64) and, as sub-cases, all 16 single-cell configurations.
func TestAdjacentPairs(t *testing.T) {
	rec := ev.Get()
	const n = 3
	rapid.Check(t, func(t *rapid.T) {
		r := rapid.SampledFrom(renderers).Draw(t, "renderer")
		c := calibrate(r, n)
		var posC, negC [6]string
		var u [6]float64
		for i := 0; i < 6; i++ {
			posC[i] = rapid.SampledFrom(posClasses).Draw(t, fmt.Sprintf("pos%d", i))
			negC[i] = rapid.SampledFrom(negClasses).Draw(t, fmt.Sprintf("neg%d", i))
			u[i] = g.F(0, 1).Draw(t, fmt.Sprintf("u%d", i))
		}
		bg := rapid.SampledFrom([]float64{0.5, 0.05, 1e-6, 0.6}).Draw(t, "background")
		f := newField(c, n, r.name == "quadtree", bg)
		withSegs := 0
		configs := map[int]bool{}
		for axis := 0; axis < 2; axis++ {
			for i := 1; i <= 3; i++ {
				for j := 1; j <= 3; j++ {
					f.set(i, j, bg)
				}
			}
			for word := 0; word < 64; word++ {
				var cellA, cellB int
				for m := 0; m < 6; m++ {
					a, l := m&1, m>>1
					i, j := 1+l, 1+a
					if axis == 1 {
						i, j = 1+a, 1+l
					}
					v := magnitude(posC[m], u[m])
					if word&(1<<uint(m)) != 0 {
						v = -magnitude(negC[m], u[m])
						if l <= 1 {
							cellA |= 1 << uint(a+2*l)
						}
						if l >= 1 {
							cellB |= 1 << uint(a+2*(l-1))
						}
					}
					f.set(i, j, v)
				}
				configs[cellA], configs[cellB] = true, true
				ls := collect(f.l, r.mk(n))
				if len(ls) > 0 {
					withSegs++
				}
				checkContour(func(key, msg string) {
					rec.Violation(t, key, "%s renderer, axis %d, sign word %06b, classes +%v -%v background %v: %s", r.name, axis, word, posC, negC, bg, msg)
				}, r.name, ls, calibratedFinder(c.nodes.X, c.nodes.Y, f.at, c.step), c.step)
			}
		}
		rec.Add("adjacent-pair-renders:"+r.name, 128)
		rec.Add("adjacent-pair-renders-with-segments:"+r.name, int64(withSegs))
		rec.Add("distinct-cell-configurations-in-last-case", int64(len(configs)))
		rec.Case(true, ev.Key(r.name, posC, negC, u, bg), "pairs:"+r.name)
		rec.Sample("adjacent-pairs:"+r.name, map[string]any{"renderer": r.name, "pos_classes": posC, "neg_classes": negC, "background": bg, "renders": 128, "with_segments": withSegs, "cell_configs_seen": len(configs)})
	})
}

func TestRandomFields(t *testing.T) {
	rec := ev.Get()
	rapid.Check(t, func(t *rapid.T) {
		r := rapid.SampledFrom(renderers).Draw(t, "renderer")
		n := rapid.IntRange(2, 9).Draw(t, "n")
		c := calibrate(r, n)
		bg := rapid.SampledFrom([]float64{0.5, 0.05, 1e-6}).Draw(t, "background")
		f := newField(c, n, r.name == "quadtree", bg)
		nx, ny := len(c.nodes.X), len(c.nodes.Y)
		pneg := g.F(0.05, 0.95).Draw(t, "pneg")
		negs := 0
		for i := 1; i < nx-1; i++ {
			for j := 1; j < ny-1; j++ {
				l := fmt.Sprintf("n%d.%d", i, j)
				u := g.F(0, 1).Draw(t, l+".u")
				if g.F(0, 1).Draw(t, l+".s") < pneg {
					f.set(i, j, -magnitude(rapid.SampledFrom(negClasses).Draw(t, l+".c"), u))
					negs++
				} else {
					f.set(i, j, magnitude(rapid.SampledFrom(posClasses).Draw(t, l+".c"), u))
				}
			}
		}
		ls := collect(f.l, r.mk(n))
		checkContour(func(key, msg string) {
			rec.Violation(t, key, "%s renderer, random field n=%d (%d negative nodes) values %v: %s", r.name, n, negs, f.l.V, msg)
		}, r.name, ls, calibratedFinder(c.nodes.X, c.nodes.Y, f.at, c.step), c.step)
		rec.Case(len(ls) > 0, ev.Key(r.name, n, f.l.V), "random-field:"+r.name, fmt.Sprintf("random-field:n=%d", n))
		rec.Sample("random-field:"+r.name, map[string]any{"renderer": r.name, "n": n, "negative_nodes": negs, "segments": len(ls)})
	})
}

// cellSize is the nominal cell edge (longest side / cells). The uniform renderer
// stretches ceil(1.01*size/res) cells over the 1%-enlarged box, so its real
// increments lie in (res/2, res]; the finder accepts adjacent samples 0.4..1.2 res apart.
func cellSize(name string, bb sdf.Box2, cells int) float64 {
	sz := bb.Size()
	return math.Max(sz.X, sz.Y) / float64(cells)
}

// recorded lattice of a scene render
type recLattice struct {
	xs, ys []float64
	val    map[[2]int]float64
	step   float64
}

func latticeOf(rb *lat.Recorder2, quadtree bool, h float64) (*recLattice, bool) {
	ax := lat.AxesOf2(rb.Pts, 1e-9*h)
	if len(ax.X) < 2 || len(ax.Y) < 2 {
		return nil, false
	}
	rl := &recLattice{xs: ax.X, ys: ax.Y, val: map[[2]int]float64{}}
	for i, p := range rb.Pts {
		rl.val[[2]int{lat.Nearest(ax.X, p.X), lat.Nearest(ax.Y, p.Y)}] = rb.Val[i]
	}
	rl.step = (ax.X[len(ax.X)-1] - ax.X[0]) / float64(len(ax.X)-1)
	return rl, true
}

func TestScenes(t *testing.T) {
	rec := ev.Get()
	rapid.Check(t, func(t *rapid.T) {
		r := rapid.SampledFrom(renderers).Draw(t, "renderer")
		S := rapid.SampledFrom([]float64{1, 10, 1, 10, 1e-7, 1e-4, 1e4}).Draw(t, "scale")
		n := shape.Gen2(t, shape.Opts{S: S, Depth: rapid.IntRange(0, 2).Draw(t, "depth"), Grammar: shape.Lipschitz, NoBlend: true, NoPoly: true, SolidUnion2: true})
		b, err := shape.Build(n)
		if err != nil {
			rec.Count("discarded:constructor-rejected", 1)
			rec.Case(false, "", "discarded")
			return
		}
		s := b.SDF2()
		bb := s.BoundingBox()
		sz := bb.Size()
		if !(math.Min(sz.X, sz.Y) > 1e-6*S) || math.Max(sz.X, sz.Y) > 1e4*S {
			rec.Count("discarded:degenerate-box", 1)
			rec.Case(false, "", "discarded")
			return
		}
		cells := rapid.IntRange(4, ev.Pick(100, 200)).Draw(t, "cells")
		h := math.Max(sz.X, sz.Y) / float64(cells)
		margin := rapid.SampledFrom([]float64{0.02, 0.3, 1, 1.5}).Draw(t, "margin") * h
		shift := v2.Vec{X: g.F(-0.5, 0.5).Draw(t, "shx") * h, Y: g.F(-0.5, 0.5).Draw(t, "shy") * h}
		if rapid.Bool().Draw(t, "noshift") {
			shift = v2.Vec{}
		}
		m := margin + math.Max(math.Abs(shift.X), math.Abs(shift.Y))
		nb := sdf.Box2{Min: bb.Min.SubScalar(m).Add(shift), Max: bb.Max.AddScalar(m).Add(shift)}
		rb := &lat.Recorder2{S: lat.Rebox2{S: s, BB: nb}}
		ls := collect(rb, r.mk(cells))
		if _, ok := latticeOf(rb, r.name == "quadtree", h); !ok {
			if len(ls) != 0 {
				t.Fatalf("segments from a render that sampled a single coordinate")
			}
			rec.Case(false, "", "scene:empty-solid")
			return
		}
		// precondition: the boundary lies inside the bounding box, decided on the box itself (samples on
		// or outside the box, plus 64 points per box side), not on the lattice the renderer chose
		reaches := false
		for i, p := range rb.Pts {
			e := 1e-9 * h
			if rb.Val[i] < 0 && !(p.X > nb.Min.X+e && p.Y > nb.Min.Y+e && p.X < nb.Max.X-e && p.Y < nb.Max.Y-e) {
				reaches = true
			}
		}
		nsz := nb.Size()
		for i := 0; i <= 64 && !reaches; i++ {
			u := float64(i) / 64
			for _, p := range []v2.Vec{{X: nb.Min.X + u*nsz.X, Y: nb.Min.Y}, {X: nb.Min.X + u*nsz.X, Y: nb.Max.Y}, {X: nb.Min.X, Y: nb.Min.Y + u*nsz.Y}, {X: nb.Max.X, Y: nb.Min.Y + u*nsz.Y}} {
				if s.Evaluate(p) < 0 {
					reaches = true
				}
			}
		}
		if reaches {
			rec.Count("discarded:solid-reaches-its-bounding-box", 1)
			rec.Case(false, "", "discarded")
			return
		}
		// the lattice must cover the bounding box (a pruning renderer samples only part of it: take the
		// extent from a calibration render of a small positive constant field in the same box)
		{
			cal := &lat.Recorder2{S: lat.Const2{V: 1e-6 * h, BB: nb}}
			collect(cal, r.mk(cells))
			cx := lat.AxesOf2(cal.Pts, 1e-9*h)
			if e := 1e-9 * h; cx.X[0] > nb.Min.X+e || cx.Y[0] > nb.Min.Y+e || cx.X[len(cx.X)-1] < nb.Max.X-e || cx.Y[len(cx.Y)-1] < nb.Max.Y-e {
				rec.Violation(t, "MarchingSquares:"+r.name+":lattice-does-not-cover-bounding-box", "%s renderer, %d cells: the sampled lattice %v..%v does not cover the bounding box %v", r.name, cells, v2.Vec{X: cx.X[0], Y: cx.Y[0]}, v2.Vec{X: cx.X[len(cx.X)-1], Y: cx.Y[len(cx.Y)-1]}, nb)
			}
		}
		checkContour(func(key, msg string) {
			rec.Violation(t, key, "%s renderer, %d cells, scene %s box %v: %s", r.name, cells, n, nb, msg)
		}, r.name, ls, recordedFinder(rb, cellSize(r.name, nb, cells)), h)
		rec.Case(len(ls) > 0, ev.Key(r.name, cells, n.String(), margin, shift), "scene:"+r.name)
		rec.Add("scene-segments", int64(len(ls)))
		rec.Sample("scene:"+r.name, map[string]any{"renderer": r.name, "cells": cells, "program": n.String(), "segments": len(ls)})
	})
}

// TestAccuracy: circles (endpoint bound h^2/(8(R-h)), perimeter convergence) and
// straight boundaries (a linear field: endpoints exactly on the line).
func TestAccuracy(t *testing.T) {
	rec := ev.Get()
	rapid.Check(t, func(t *rapid.T) {
		r := rapid.SampledFrom(renderers).Draw(t, "renderer")
		R := g.Length(t, "R", 0.1, 100)
		cx, cy := g.Coord(t, "cx", 100), g.Coord(t, "cy", 100)
		cells := rapid.IntRange(8, ev.Pick(120, 300)).Draw(t, "cells")
		circ, err := sdf.Circle2D(R)
		if err != nil {
			t.Fatalf("Circle2D: %v", err)
		}
		s := sdf.Transform2D(circ, sdf.Translate2d(v2.Vec{X: cx, Y: cy}))
		frac := func(l string) float64 { return g.F(0, 1).Draw(t, l) }
		run := func(cells int, shx, shy float64) (float64, float64, int) {
			bb := s.BoundingBox()
			h0 := bb.Size().X / float64(cells)
			nb := sdf.Box2{Min: bb.Min.Sub(v2.Vec{X: (0.3 + shx) * h0, Y: (0.3 + shy) * h0}), Max: bb.Max.Add(v2.Vec{X: (1.3 - shx) * h0, Y: (1.3 - shy) * h0})}
			rb := &lat.Recorder2{S: lat.Rebox2{S: s, BB: nb}}
			ls := collect(rb, r.mk(cells))
			rl, ok := latticeOf(rb, r.name == "quadtree", h0)
			if !ok {
				t.Fatalf("no lattice recorded for a circle")
			}
			h := rl.step
			if r.name == "quadtree" {
				h = 2 * rl.step // recorded coordinates include cube centres at half the cell size
				// verify: adjacent recorded coordinates alternate node / centre; the segment endpoints tell the cell size
			}
			rep := mesh.Analyze2(ls, 1e-6*h)
			if rep.OddPoints > 0 || rep.ZeroLen > 0 {
				rec.Violation(t, "MarchingSquares:"+r.name+":circle-not-closed", "circle R=%v at (%v,%v), %d cells: %d odd points, %d zero-length segments", R, cx, cy, cells, rep.OddPoints, rep.ZeroLen)
			}
			worst := 0.0
			for _, l := range ls {
				for _, p := range l {
					worst = math.Max(worst, math.Abs(math.Hypot(p.X-cx, p.Y-cy)-R))
				}
			}
			return h, worst, len(ls)
		}
		shx, shy := frac("shx"), frac("shy")
		h, worst, nseg := run(cells, shx, shy)
		scaleTol := 1e-9 * (R + math.Abs(cx) + math.Abs(cy))
		if R > 2*h {
			if bound := h*h/(8*(R-h)) + scaleTol; worst > bound {
				rec.Violation(t, "MarchingSquares:"+r.name+":circle-endpoint-bound", "circle R=%v at (%v,%v), %d cells (h=%v): an endpoint is %v from the circle, bound h^2/(8(R-h)) = %v", R, cx, cy, cells, h, worst, bound)
			}
		}
		rec.Case(R > 3*h && nseg >= 8, ev.Key(r.name, R, cx, cy, cells, shx, shy), "circle:"+r.name)
		rec.Sample("circle:"+r.name, map[string]any{"renderer": r.name, "R": R, "centre": []float64{cx, cy}, "cells": cells, "h": h, "worst_endpoint_error": worst, "segments": nseg})
	})
}

func perimeter(ls []*sdf.Line2) float64 {
	l := 0.0
	for _, s := range ls {
		l += s[1].Sub(s[0]).Length()
	}
	return l
}

// TestConvergence: total length -> perimeter with second-order error for a circle.
func TestConvergence(t *testing.T) {
	rec := ev.Get()
	rapid.Check(t, func(t *rapid.T) {
		r := rapid.SampledFrom(renderers).Draw(t, "renderer")
		R := g.Length(t, "R", 0.1, 100)
		cx, cy := g.Coord(t, "cx", 10), g.Coord(t, "cy", 10)
		circ, _ := sdf.Circle2D(R)
		s := sdf.Transform2D(circ, sdf.Translate2d(v2.Vec{X: cx, Y: cy}))
		n0 := rapid.IntRange(16, 40).Draw(t, "n0")
		want := 2 * math.Pi * R
		var errs []float64
		for _, cells := range []int{n0, 2 * n0, 4 * n0} {
			ls := collect(s, r.mk(cells))
			errs = append(errs, math.Abs(perimeter(ls)-want)/want)
		}
		h0 := 2 * R / float64(n0)
		// calibrated on the pinned tree: relative length error observed ~0.061*(h/R)^2, bound 0.15*(h/R)^2;
		// it falls ~4x per halving of h (second order): require >= 10x over two halvings while above rounding level
		for i, e := range errs {
			hh := h0 / math.Pow(2, float64(i))
			if bound := 0.15*(hh/R)*(hh/R) + 1e-9; e > bound {
				rec.Violation(t, "MarchingSquares:"+r.name+":perimeter-error", "circle R=%v at (%v,%v), %d cells: relative length error %v > %v", R, cx, cy, n0<<uint(i), e, bound)
			}
		}
		if errs[0] > 1e-6 && errs[2] > errs[0]/10 {
			rec.Violation(t, "MarchingSquares:"+r.name+":perimeter-not-second-order", "circle R=%v at (%v,%v): relative length errors %v at %d/%d/%d cells do not fall 10x over two halvings", R, cx, cy, errs, n0, 2*n0, 4*n0)
		}
		rec.Case(true, ev.Key(r.name, R, cx, cy, n0), "convergence:"+r.name)
		rec.Sample("convergence:"+r.name, map[string]any{"renderer": r.name, "R": R, "cells": []int{n0, 2 * n0, 4 * n0}, "relative_length_error": errs})
	})
}

// TestStraight: a linear field (half plane through the window): endpoints lie on the line to rounding.
func TestStraight(t *testing.T) {
	rec := ev.Get()
	rapid.Check(t, func(t *rapid.T) {
		r := rapid.SampledFrom(renderers).Draw(t, "renderer")
		a := g.Angle(t, "angle")
		nx, ny := math.Cos(a), math.Sin(a)
		S := rapid.SampledFrom([]float64{1, 10, 100, 1, 10, 1e-7, 1e-4, 1e4}).Draw(t, "scale")
		off := g.F(-0.4, 0.4).Draw(t, "offset") * S
		cells := rapid.IntRange(4, 80).Draw(t, "cells")
		bb := sdf.Box2{Min: v2.Vec{X: -S, Y: -S}, Max: v2.Vec{X: S, Y: S}}
		hp := halfPlane{nx, ny, off, bb}
		ls := collect(hp, r.mk(cells))
		worst := 0.0
		for _, l := range ls {
			for _, p := range l {
				worst = math.Max(worst, math.Abs(hp.Evaluate(p)))
			}
		}
		// 1.001e-12: msInterpolate (render/march2.go:199) puts an endpoint ON a lattice corner whose value is
		// within 1e-12 (absolute) of the level; visible only for models in very small units
		if worst > 1e-9*S+1.001e-12 {
			rec.Violation(t, "MarchingSquares:"+r.name+":straight-boundary-endpoint-off-line", "half plane normal (%v,%v) offset %v, %d cells: an endpoint is %v from the line", nx, ny, off, cells, worst)
		}
		rec.Case(len(ls) > 0, ev.Key(r.name, a, off, cells, S), "straight:"+r.name)
		rec.Sample("straight:"+r.name, map[string]any{"renderer": r.name, "normal": []float64{nx, ny}, "offset": off, "cells": cells, "worst": worst, "segments": len(ls)})
	})
}

type halfPlane struct {
	nx, ny, d float64
	bb        sdf.Box2
}

func (h halfPlane) Evaluate(p v2.Vec) float64 { return h.nx*p.X + h.ny*p.Y - h.d }
func (h halfPlane) BoundingBox() sdf.Box2     { return h.bb }

// ---------------------------------------------------------------------------
// all resolutions: a thin capsule across a 100-unit box through the quadtree renderer at up to 40 000
// cells (lattice indices beyond 2^16; the uniform renderer would need 10^9 samples there)

type fineCapsule struct {
	a, b v2.Vec
	r    float64
	bb   sdf.Box2
}

func (c fineCapsule) Evaluate(p v2.Vec) float64 {
	ab, ap := c.b.Sub(c.a), p.Sub(c.a)
	t := math.Max(0, math.Min(1, ap.Dot(ab)/ab.Length2()))
	return p.Sub(c.a.Add(ab.MulScalar(t))).Length() - c.r
}
func (c fineCapsule) BoundingBox() sdf.Box2 { return c.bb }

func TestFineResolution(t *testing.T) {
	rec := ev.Get()
	rapid.Check(t, func(t *rapid.T) {
		var cells int
		switch rapid.IntRange(0, 2).Draw(t, "class") {
		case 0:
			cells = rapid.IntRange(300, 6000).Draw(t, "cells")
		case 1:
			cells = rapid.IntRange(6000, 32000).Draw(t, "cells-fine")
		default:
			cells = rapid.IntRange(32000, ev.Pick(40000, 70000)).Draw(t, "cells-beyond-2^15")
		}
		L := 100.0
		h := L / float64(cells)
		a := g.F(-math.Pi, math.Pi).Draw(t, "angle")
		if rapid.IntRange(0, 2).Draw(t, "axis-aligned") == 0 {
			a = float64(rapid.IntRange(0, 3).Draw(t, "axis")) * math.Pi / 2
		}
		dir := v2.Vec{X: math.Cos(a), Y: math.Sin(a)}
		r := h * g.F(1.2, 3).Draw(t, "radius-in-cells")
		c := v2.Vec{X: g.F(-2, 2).Draw(t, "cx"), Y: g.F(-2, 2).Draw(t, "cy")}
		half := 0.45*L/math.Max(math.Abs(dir.X), math.Abs(dir.Y)) - r - 3
		s := fineCapsule{a: c.Sub(dir.MulScalar(half)), b: c.Add(dir.MulScalar(half)), r: r, bb: sdf.Box2{Min: v2.Vec{X: -L / 2, Y: -L / 2}, Max: v2.Vec{X: L / 2, Y: L / 2}}}
		ls := collect(s, render.NewMarchingSquaresQuadtree(cells))
		desc := fmt.Sprintf("capsule %v..%v radius %v in a %v box", s.a, s.b, r, L)
		worst, length := 0.0, 0.0
		zero := 0
		for _, l := range ls {
			for _, v := range l {
				worst = math.Max(worst, math.Abs(s.Evaluate(v)))
			}
			if l[0] == l[1] {
				zero++
			}
			length += l[1].Sub(l[0]).Length()
		}
		rep := mesh.Analyze2(ls, 1e-4*h)
		if len(ls) == 0 || rep.OddPoints > 0 {
			rec.Violation(t, "MarchingSquares:quadtree:fine:odd-degree", "%d cells, %s: %d segments, %d end points of odd degree", cells, desc, len(ls), rep.OddPoints)
		}
		if zero > 0 {
			rec.Violation(t, "MarchingSquares:quadtree:fine:zero-length-segment", "%d cells, %s: %d zero-length segments", cells, desc, zero)
		}
		if worst > h*(1+1e-9) {
			rec.Violation(t, "MarchingSquares:quadtree:fine:endpoint-off-boundary", "%d cells (h=%v), %s: an end point is %v from the boundary", cells, h, desc, worst)
		}
		want := 4*half + 2*math.Pi*r
		if math.Abs(length-want) > 0.05*want {
			rec.Violation(t, "MarchingSquares:quadtree:fine:length", "%d cells, %s: contour length %v, perimeter %v", cells, desc, length, want)
		}
		rec.Case(len(ls) > 0, ev.Key("fine", cells, desc), "fine:quadtree", fmt.Sprintf("fine:cells>32768=%v", cells > 32768))
		rec.Sample("fine:quadtree", map[string]any{"cells": cells, "scene": desc, "segments": len(ls), "length": length, "perimeter": want})
	})
}
