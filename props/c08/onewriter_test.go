package c08

import (
	"fmt"
	"math"
	"sync"
	"testing"

	"github.com/deadsy/sdfx/sdf"
	v2 "github.com/deadsy/sdfx/vec/v2"
	"pgregory.net/rapid"

	"verif/internal/ev"
	"verif/internal/g"
	"verif/internal/mesh"
)

// TestShapesIntoOneWriter: several outlines rendered into ONE Line2Buffer (a drawing made of several
// parts: each renderer closes the writer when it is done, the caller closes it once more at the end), one
// after the other or side by side. The drawing is still a set of closed curves: every endpoint has even
// degree, as many segments arrive as the parts give alone, and the total length is the sum of theirs.
func TestShapesIntoOneWriter(t *testing.T) {
	rec := ev.Get()
	rapid.Check(t, func(t *rapid.T) {
		r := rapid.SampledFrom(renderers).Draw(t, "renderer")
		mixed := rapid.IntRange(0, 3).Draw(t, "mixed-renderers") == 0
		np := rapid.IntRange(2, 4).Draw(t, "parts")
		together := rapid.Bool().Draw(t, "side-by-side")
		cells := rapid.IntRange(8, ev.Pick(120, 300)).Draw(t, "cells")
		var parts []sdf.SDF2
		var rs []renderer
		desc := ""
		for i := 0; i < np; i++ {
			var s sdf.SDF2
			c := v2.Vec{X: 10 * float64(i), Y: g.Coord(t, fmt.Sprintf("y%d", i), 3)}
			if rapid.Bool().Draw(t, fmt.Sprintf("box%d", i)) {
				a, b := g.Length(t, fmt.Sprintf("a%d", i), 0.5, 3), g.Length(t, fmt.Sprintf("b%d", i), 0.5, 3)
				s = sdf.Box2D(v2.Vec{X: a, Y: b}, 0.2*math.Min(a, b))
				desc += fmt.Sprintf("box(%g x %g)@%v ", a, b, c)
			} else {
				rad := g.Length(t, fmt.Sprintf("r%d", i), 0.5, 3)
				s, _ = sdf.Circle2D(rad)
				desc += fmt.Sprintf("circle(%g)@%v ", rad, c)
			}
			parts = append(parts, sdf.Transform2D(s, sdf.Translate2d(c)))
			ri := r
			if mixed {
				ri = renderers[(i+rapid.IntRange(0, 1).Draw(t, fmt.Sprintf("r%d.kind", i)))%2]
			}
			rs = append(rs, ri)
		}
		ch := make(chan []*sdf.Line2)
		var all []*sdf.Line2
		done := make(chan struct{})
		go func() {
			defer close(done)
			for ls := range ch {
				all = append(all, ls...)
			}
		}()
		w := sdf.NewLine2Buffer(ch)
		if together {
			var wg sync.WaitGroup
			for i, p := range parts {
				wg.Add(1)
				go func(i int, p sdf.SDF2) { defer wg.Done(); rs[i].mk(cells).Render(p, w) }(i, p)
			}
			wg.Wait()
		} else {
			// one after the other; half the time ONE renderer object renders all parts (they differ in size)
			one := r.mk(cells)
			same := !mixed && rapid.Bool().Draw(t, "one-renderer-object")
			for i, p := range parts {
				if same {
					one.Render(p, w)
				} else {
					rs[i].mk(cells).Render(p, w)
				}
			}
		}
		w.Close()
		close(ch)
		<-done
		wantSegs, wantLen := 0, 0.0
		h := math.Inf(1)
		for i, p := range parts {
			ls := collect(p, rs[i].mk(cells))
			wantSegs += len(ls)
			wantLen += mesh.Analyze2(ls, 1e-9).Length
			sz := p.BoundingBox().Size()
			h = math.Min(h, math.Max(sz.X, sz.Y)/float64(cells))
		}
		for _, l := range all {
			if l == nil {
				rec.Violation(t, "MarchingSquares:"+r.name+":shared-writer:nil-segment", "%d parts (%s), side by side=%v: the writer delivered a nil segment", np, desc, together)
				return
			}
		}
		rep := mesh.Analyze2(all, 1e-6*h)
		name := r.name
		if mixed {
			name = "mixed"
		}
		if len(all) != wantSegs {
			rec.Violation(t, "MarchingSquares:"+name+":shared-writer:segment-count", "%d parts (%s), side by side=%v, %d cells: %d segments arrived, the parts alone give %d", np, desc, together, cells, len(all), wantSegs)
		} else if rep.OddPoints > 0 {
			rec.Violation(t, "MarchingSquares:"+name+":shared-writer:odd-degree", "%d parts (%s), side by side=%v, %d cells: %d endpoints of odd degree, e.g. %v", np, desc, together, cells, rep.OddPoints, rep.FirstOdd)
		} else if math.Abs(rep.Length-wantLen) > 1e-9*wantLen {
			rec.Violation(t, "MarchingSquares:"+name+":shared-writer:length", "%d parts (%s), side by side=%v: total length %v, sum over the parts %v", np, desc, together, rep.Length, wantLen)
		}
		rec.Case(true, ev.Key("one-writer", name, desc, cells, together), "one-writer:"+name, fmt.Sprintf("one-writer:side-by-side=%v", together))
	})
}
