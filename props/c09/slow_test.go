package c09

import (
	"math"
	"testing"
	"time"

	"github.com/deadsy/sdfx/render"
	"github.com/deadsy/sdfx/sdf"
	v3 "github.com/deadsy/sdfx/vec/v3"

	"verif/internal/ev"
)

// slowSlab returns the values of S, but evaluations inside one thin slab of x take a long time (a model
// with an expensive region: an imported mesh, text, a deep CSG tree): one lattice layer of the uniform
// renderer takes seconds instead of milliseconds. "Independent of ... the time individual evaluations take".
type slowSlab struct {
	S      sdf.SDF3
	x0, dx float64
	d      time.Duration
}

func (s slowSlab) Evaluate(p v3.Vec) float64 {
	if math.Abs(p.X-s.x0) < s.dx {
		time.Sleep(s.d)
	}
	return s.S.Evaluate(p)
}
func (s slowSlab) BoundingBox() sdf.Box3 { return s.S.BoundingBox() }

func TestSlowEvaluations(t *testing.T) {
	rec := ev.Get()
	sp, _ := sdf.Sphere3D(1)
	for _, r := range []struct {
		name string
		mk   func() render.Render3
		d    time.Duration
	}{
		{"mcu", func() render.Render3 { return render.NewMarchingCubesUniform(24) }, 50 * time.Millisecond},
		// (the octree renderer evaluates one point after the other: a shorter delay, same idea)
		{"mco", func() render.Render3 { return render.NewMarchingCubesOctree(24) }, 2 * time.Millisecond},
	} {
		fast := render.ToTriangles(sp, r.mk())
		// one layer of 26 x 26 lattice points at about 50 ms each, spread over the renderer's workers
		slow := render.ToTriangles(slowSlab{S: sp, x0: 0.3, dx: 0.03, d: r.d}, r.mk())
		rec.Case(true, "slow:"+r.name, "slow-evaluations:"+r.name)
		same := len(fast) == len(slow)
		for i := 0; same && i < len(fast); i++ {
			same = *fast[i] == *slow[i]
		}
		if !same {
			rec.FailCase(t, "TestSlowEvaluations", "C09:"+r.name+":triangles-depend-on-evaluation-time", map[string]any{"renderer": r.name},
				"%s, sphere at 24 cells: %d triangles when every evaluation is fast, %d (or other coordinates) when the evaluations in one slab of x take %v each", r.name, len(fast), len(slow), r.d)
		}
	}
}
