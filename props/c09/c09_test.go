package c09

import (
	"bytes"
	"crypto/sha256"
	"encoding/json"
	"fmt"
	"math"
	"os"
	"os/exec"
	"path/filepath"
	"runtime"
	"strings"
	"sync"
	"sync/atomic"
	"testing"
	"time"

	"github.com/deadsy/sdfx/render"
	"github.com/deadsy/sdfx/render/dc"
	"github.com/deadsy/sdfx/sdf"
	v2 "github.com/deadsy/sdfx/vec/v2"
	v3 "github.com/deadsy/sdfx/vec/v3"
	"pgregory.net/rapid"

	"verif/internal/detsig"
	"verif/internal/ev"
	"verif/internal/fmtread"
	"verif/internal/g"
	"verif/internal/lat"
	"verif/internal/pin"
	"verif/internal/shape"
)

func TestMain(m *testing.M) { ev.Main(m) }

// usedRenderer: the renderer object of the measured render has rendered another model before (a program
// that keeps one renderer for all its parts). Set per configuration.
var usedRenderer atomic.Bool

type discard3 struct{}

func (discard3) Write([]*sdf.Triangle3) error { return nil }
func (discard3) Close() error                 { return nil }

type discard2 struct{}

func (discard2) Write([]*sdf.Line2) error { return nil }
func (discard2) Close() error             { return nil }

func render3(name string, cells int) render.Render3 {
	r := newRender3(name, cells)
	if usedRenderer.Load() {
		big, _ := sdf.Box3D(v3.Vec{X: 9, Y: 2, Z: 0.7}, 0.1)
		r.Render(sdf.Transform3D(big, sdf.Translate3d(v3.Vec{X: 40, Y: -3, Z: 7})), discard3{})
	}
	return r
}

func newRender3(name string, cells int) render.Render3 {
	if name == "mco" {
		return render.NewMarchingCubesOctree(cells)
	}
	return render.NewMarchingCubesUniform(cells)
}

func render2(name string, cells int) render.Render2 {
	r := newRender2(name, cells)
	if usedRenderer.Load() {
		r.Render(sdf.Transform2D(sdf.Box2D(v2.Vec{X: 9, Y: 0.7}, 0.1), sdf.Translate2d(v2.Vec{X: 40, Y: -3})), discard2{})
	}
	return r
}

func newRender2(name string, cells int) render.Render2 {
	switch name {
	case "msq":
		return render.NewMarchingSquaresQuadtree(cells)
	case "dc2":
		return render.NewDualContouring2D(cells)
	}
	return render.NewMarchingSquaresUniform(cells)
}

// the dual-contouring renderers of render/dc have their own channel interface
func dcTriangles(s sdf.SDF3, name string, cells int) []*sdf.Triangle3 {
	var out []*sdf.Triangle3
	var wg sync.WaitGroup
	wg.Add(1)
	if name == "dcv1" {
		ch := make(chan *sdf.Triangle3)
		go func() {
			defer wg.Done()
			for t := range ch {
				out = append(out, t)
			}
		}()
		dc.NewDualContouringV1(-1, 0, true).Render(s, cells, ch)
		close(ch)
	} else {
		ch := make(chan []*sdf.Triangle3)
		go func() {
			defer wg.Done()
			for ts := range ch {
				out = append(out, ts...)
			}
		}()
		dc.NewDualContouringDefault(cells).Render(s, ch)
		close(ch)
	}
	wg.Wait()
	return out
}

func collect2(s sdf.SDF2, r render.Render2) []*sdf.Line2 {
	ch := make(chan []*sdf.Line2)
	var out []*sdf.Line2
	var wg sync.WaitGroup
	wg.Add(1)
	go func() {
		defer wg.Done()
		for ls := range ch {
			out = append(out, ls...)
		}
	}()
	r.Render(s, sdf.NewLine2Buffer(ch))
	close(ch)
	wg.Wait()
	return out
}

func fileHash(t *rapid.T, path string) string {
	b, err := os.ReadFile(path)
	if err != nil {
		t.Fatalf("reading render output: %v", err)
	}
	return fmt.Sprintf("%d bytes %x", len(b), sha256.Sum256(b))
}

// signature of one render of a 3D model through a sink
func out3(t *rapid.T, s sdf.SDF3, rname string, cells int, sink, dir string) string {
	switch sink {
	case "triangles":
		var ts []*sdf.Triangle3
		if strings.HasPrefix(rname, "dcv") {
			ts = dcTriangles(s, rname, cells)
		} else {
			ts = render.ToTriangles(s, render3(rname, cells))
		}
		h := sha256.New()
		for _, tr := range ts {
			for _, v := range tr {
				fmt.Fprintf(h, "%x %x %x\n", math.Float64bits(v.X), math.Float64bits(v.Y), math.Float64bits(v.Z))
			}
		}
		return fmt.Sprintf("%d triangles %x", len(ts), h.Sum(nil))
	case "stl":
		p := filepath.Join(dir, "o.stl")
		render.ToSTL(s, p, render3(rname, cells))
		return fileHash(t, p)
	default:
		p := filepath.Join(dir, "o.3mf")
		render.To3MF(s, p, render3(rname, cells))
		m, err := fmtread.Read3MFRaw(p)
		if err != nil {
			t.Fatalf("reading 3MF back: %v", err)
		}
		j, _ := json.Marshal(m)
		return fmt.Sprintf("decoded 3mf %x", sha256.Sum256(j))
	}
}

func out2(t *rapid.T, s sdf.SDF2, rname string, cells int, sink, dir string) string {
	switch sink {
	case "lines":
		ls := collect2(s, render2(rname, cells))
		h := sha256.New()
		for _, l := range ls {
			fmt.Fprintf(h, "%x %x %x %x\n", math.Float64bits(l[0].X), math.Float64bits(l[0].Y), math.Float64bits(l[1].X), math.Float64bits(l[1].Y))
		}
		return fmt.Sprintf("%d segments %x", len(ls), h.Sum(nil))
	case "dxf":
		p := filepath.Join(dir, "o.dxf")
		render.ToDXF(s, p, render2(rname, cells))
		return fileHash(t, p)
	default:
		p := filepath.Join(dir, "o.svg")
		render.ToSVG(s, p, render2(rname, cells))
		return fileHash(t, p)
	}
}

// other renders executed before / concurrently: different models, resolutions and ALL renderer
// kinds (uniform and octree marching cubes, uniform and quadtree marching squares) - they share the
// global evaluation workers and whatever package-level state a renderer keeps.
func otherModel(i int) sdf.SDF3 {
	switch i % 3 {
	case 0:
		s, _ := sdf.Sphere3D(1 + float64(i%5))
		return s
	case 1:
		s, _ := sdf.Box3D(v3.Vec{X: 2, Y: 3 + float64(i%4), Z: 1.5}, 0.2)
		return s
	default:
		c, _ := sdf.Cylinder3D(4, 1.5, 0.3)
		b, _ := sdf.Sphere3D(1.2)
		return sdf.Union3D(c, sdf.Transform3D(b, sdf.Translate3d(v3.Vec{X: 1.5})))
	}
}

// otherDir: when set, half of the other renders write a file of their own there (STL, 3MF, DXF, SVG)
// instead of collecting in memory: several file writers at work in the process at once.
var otherDir atomic.Value

func otherRender(i int) {
	if d, _ := otherDir.Load().(string); d != "" && (i/4)%2 == 0 {
		name := filepath.Join(d, fmt.Sprintf("other-%d", i%64))
		quietly(func() {
			switch i % 4 {
			case 0:
				render.ToSTL(otherModel(i), name+".stl", render.NewMarchingCubesUniform(8+i%7))
			case 1:
				render.To3MF(otherModel(i/2), name+".3mf", render.NewMarchingCubesOctree(8+2*(i%5)))
			case 2:
				// (not ToDXF: DXF files written while another DXF drawing is created or saved differ in their
				// line type records - known finding C09:dxf:bytes-depend-on-concurrent-dxf-writers, reproduced
				// by TestConcurrentDXFWriters; excluded here by construction so that the search goes on)
				c, _ := sdf.Circle2D(1 + float64(i%4))
				render.ToSVG(c, name+".b.svg", render.NewMarchingSquaresQuadtree(20+5*(i%9)))
				ev.Get().Count("excluded:concurrent-dxf-writer(known finding)", 1)
			default:
				render.ToSVG(sdf.Box2D(v2.Vec{X: 2 + float64(i%3), Y: 1}, 0.2), name+".svg", render.NewMarchingSquaresUniform(15+i%10))
			}
		})
		return
	}
	switch i % 4 {
	case 0:
		render.ToTriangles(otherModel(i), render.NewMarchingCubesUniform(8+i%7))
	case 1:
		render.ToTriangles(otherModel(i/2), render.NewMarchingCubesOctree(8+2*(i%5)))
	case 2:
		c, _ := sdf.Circle2D(1 + float64(i%4))
		collect2(sdf.Union2D(c, sdf.Transform2D(sdf.Box2D(v2.Vec{X: 3, Y: 1}, 0.1), sdf.Translate2d(v2.Vec{X: float64(i % 3)}))), render.NewMarchingSquaresQuadtree(20+5*(i%9)))
	default:
		collect2(sdf.Box2D(v2.Vec{X: 2 + float64(i%3), Y: 1}, 0.2), render.NewMarchingSquaresUniform(15+i%10))
	}
}

func modelDesc(n *shape.Node, many string) string {
	if many != "" {
		return many
	}
	return n.String()
}

func TestDeterministicAcrossConfigurations(t *testing.T) {
	rec := ev.Get()
	defer runtime.GOMAXPROCS(runtime.GOMAXPROCS(0))
	rapid.Check(t, func(t *rapid.T) {
		dim := rapid.SampledFrom([]int{3, 3, 2}).Draw(t, "dim")
		S := rapid.SampledFrom([]float64{1, 10}).Draw(t, "scale")
		dir, err := os.MkdirTemp("", "c09")
		if err != nil {
			t.Fatalf("tempdir: %v", err)
		}
		defer os.RemoveAll(dir)
		otherDir.Store(dir)
		defer otherDir.Store("")
		var n *shape.Node
		var run func(mode int) string
		var rname, sink string
		var cells int
		manyDesc := ""
		if dim == 3 && rapid.IntRange(0, 4).Draw(t, "many-parts") == 0 {
			// a model made of many small parts (an extruded / revolved 2D union of dozens of operands
			// with touching or overlapping boxes) at a fine resolution: every evaluation walks shared
			// structure of the model while all the CPU workers are busy
			np := rapid.IntRange(8, 60).Draw(t, "parts")
			pitch := g.F(1.2, 2.2).Draw(t, "pitch")
			round := rapid.Bool().Draw(t, "round-parts")
			var parts []sdf.SDF2
			for i := 0; i < np; i++ {
				var part sdf.SDF2
				if round {
					part, _ = sdf.Circle2D(1)
				} else {
					part = sdf.Box2D(v2.Vec{X: 1.6, Y: 1.4}, 0.2)
				}
				y := pitch * float64(i)
				parts = append(parts, sdf.Transform2D(part, sdf.Translate2d(v2.Vec{X: 3, Y: y})), sdf.Transform2D(part, sdf.Translate2d(v2.Vec{X: 3 + pitch, Y: y + pitch/2})))
			}
			how := rapid.SampledFrom([]string{"extrude", "extrude", "revolve", "plate"}).Draw(t, "how")
			// the model is built anew for every render (mkModel): a cached profile starts cold each time
			cached := rapid.Bool().Draw(t, "cached-profile")
			var plate sdf.SDF3
			if how == "plate" {
				// a plate that is wide in y and z and thin in x: few lattice layers, each of more than ten
				// thousand samples (the uniform renderer's batch queue runs full within one layer)
				side := g.F(20, 40).Draw(t, "plate-side")
				pl, _ := sdf.Box3D(v3.Vec{X: side * g.F(0.04, 0.1).Draw(t, "plate-thickness"), Y: side, Z: side * g.F(0.8, 1).Draw(t, "plate-zy")}, 0.3)
				hole, _ := sdf.Cylinder3D(side, side/7, 0)
				plate = sdf.Difference3D(pl, sdf.Transform3D(hole, sdf.RotateY(math.Pi/2)))
			}
			mkModel := func() sdf.SDF3 {
				if how == "plate" {
					return plate
				}
				var profile sdf.SDF2 = sdf.Union2D(append([]sdf.SDF2(nil), parts...)...)
				if cached {
					profile = sdf.Cache2D(profile) // an evaluation cache in front of the profile
				}
				if how == "extrude" {
					return sdf.Extrude3D(profile, 0.5)
				}
				m, _ := sdf.Revolve3D(profile)
				return m
			}
			n = &shape.Node{Op: "sphere", P: []float64{float64(np), pitch}} // stands for the description only
			rname = rapid.SampledFrom([]string{"mcu", "mcu", "mco"}).Draw(t, "many-renderer")
			sink = rapid.SampledFrom([]string{"triangles", "stl", "3mf"}).Draw(t, "sink")
			cells = rapid.IntRange(60, ev.Pick(200, 300)).Draw(t, "fine-cells")
			if how == "revolve" {
				cells = rapid.IntRange(40, ev.Pick(90, 160)).Draw(t, "fine-cells-revolve")
			}
			if how == "plate" {
				rname = "mcu"
				cells = rapid.IntRange(110, ev.Pick(170, 260)).Draw(t, "plate-cells")
			}
			if rname == "mco" && how != "plate" {
				// deep octrees (9..10 levels): the strip is sparse, most cubes are pruned
				cells = rapid.IntRange(100, ev.Pick(300, 400)).Draw(t, "deep-octree-cells")
				if how == "revolve" {
					cells = rapid.IntRange(100, ev.Pick(200, 240)).Draw(t, "deep-octree-cells-revolve")
				}
			}
			manyDesc = fmt.Sprintf("%s of a 2D union of %d parts (round=%v, pitch %v, cached profile=%v)", how, 2*np, round, pitch, cached)
			run = func(mode int) string {
				return out3(t, &lat.Perturb3{S: mkModel(), Mode: mode}, rname, cells, sink, dir)
			}
		} else if dim == 3 {
			n = shape.Gen3(t, shape.Opts{S: S, Depth: rapid.IntRange(0, 2).Draw(t, "depth"), Grammar: shape.Lipschitz, NoPoly: true, SolidUnion2: true})
			b, err := shape.Build(n)
			if err != nil {
				rec.Count("discarded:constructor-rejected", 1)
				rec.Case(false, "", "discarded")
				return
			}
			sz := b.SDF3().BoundingBox().Size()
			if !shape.Finite(sz.X, sz.Y, sz.Z) || !(sz.MinComponent() > 0) {
				rec.Case(false, "", "discarded")
				return
			}
			rname = rapid.SampledFrom([]string{"mcu", "mcu", "mcu", "mco", "mco", "dcv1", "dcv2"}).Draw(t, "renderer")
			sink = rapid.SampledFrom([]string{"triangles", "stl", "3mf"}).Draw(t, "sink")
			cells = rapid.IntRange(8, ev.Pick(24, 40)).Draw(t, "cells")
			if strings.HasPrefix(rname, "dcv") {
				// render/dc has no file front end of its own: the triangle sequence is the output
				sink = "triangles"
				cells = rapid.IntRange(6, 16).Draw(t, "dc-cells")
			}
			run = func(mode int) string {
				return out3(t, &lat.Perturb3{S: b.SDF3(), Mode: mode}, rname, cells, sink, dir)
			}
		} else {
			chainCells := 0
			if rapid.IntRange(0, 2).Draw(t, "diagonal-chain") == 0 {
				n, chainCells = diagonalChain(t, S)
				rec.Label("det:diagonal-chain-of-discs")
			} else {
				n = shape.Gen2(t, shape.Opts{S: S, Depth: rapid.IntRange(0, 2).Draw(t, "depth"), Grammar: shape.Lipschitz, NoPoly: true, SolidUnion2: true})
			}
			b, err := shape.Build(n)
			if err != nil {
				rec.Count("discarded:constructor-rejected", 1)
				rec.Case(false, "", "discarded")
				return
			}
			sz := b.SDF2().BoundingBox().Size()
			if !shape.Finite(sz.X, sz.Y) || !(math.Min(sz.X, sz.Y) > 0) {
				rec.Case(false, "", "discarded")
				return
			}
			rname = rapid.SampledFrom([]string{"msu", "msq", "dc2"}).Draw(t, "renderer")
			sink = rapid.SampledFrom([]string{"lines", "dxf", "svg"}).Draw(t, "sink")
			cells = rapid.IntRange(8, ev.Pick(80, 200)).Draw(t, "cells")
			if chainCells > 0 {
				cells = chainCells
			}
			run = func(mode int) string { return out2(t, b.SDF2(), rname, cells, sink, dir) }
		}
		// baseline: one CPU, no perturbation, empty history
		runtime.GOMAXPROCS(1)
		base := run(0)
		nconf := rapid.IntRange(2, 4).Draw(t, "configs")
		for ci := 0; ci < nconf; ci++ {
			l := fmt.Sprintf("c%d.", ci)
			procs := rapid.SampledFrom([]int{1, 2, 3, runtime.NumCPU()}).Draw(t, l+"gomaxprocs")
			mode := rapid.IntRange(0, 3).Draw(t, l+"perturb")
			before := rapid.IntRange(0, 3).Draw(t, l+"preceding")
			during := rapid.IntRange(0, 3).Draw(t, l+"concurrent")
			runtime.GOMAXPROCS(procs)
			usedRenderer.Store(rapid.IntRange(0, 3).Draw(t, l+"renderer-object-used-before") == 0)
			hist := rapid.IntRange(0, 1000).Draw(t, l+"history-kind")
			for i := 0; i < before; i++ {
				otherRender(hist + 5*i + ci)
			}
			// an earlier render may have gone to the very file the measured render writes: another,
			// larger model under the same name (re-running a changed design)
			if sink != "triangles" && sink != "lines" && rapid.IntRange(0, 2).Draw(t, l+"earlier-render-to-the-same-file") == 0 {
				switch sink {
				case "stl":
					sp, _ := sdf.Sphere3D(3)
					render.ToSTL(sp, filepath.Join(dir, "o.stl"), render.NewMarchingCubesOctree(cells+30))
				case "3mf":
					sp, _ := sdf.Sphere3D(3)
					render.To3MF(sp, filepath.Join(dir, "o.3mf"), render.NewMarchingCubesOctree(cells+30))
				case "dxf":
					c, _ := sdf.Circle2D(3)
					render.ToDXF(c, filepath.Join(dir, "o.dxf"), render.NewMarchingSquaresUniform(2*cells+50))
				case "svg":
					c, _ := sdf.Circle2D(3)
					render.ToSVG(c, filepath.Join(dir, "o.svg"), render.NewMarchingSquaresUniform(2*cells+50))
				}
				rec.Add("config:earlier-render-to-the-same-file", 1)
			}
			var wg sync.WaitGroup
			stop := make(chan struct{})
			for i := 0; i < during; i++ {
				wg.Add(1)
				go func(i int) {
					defer wg.Done()
					for {
						select {
						case <-stop:
							return
						default:
							otherRender(hist + 3*i + 1)
							// the 2D renders never block: without a yield a single-P schedule would let each
							// of these goroutines run out its 10 ms slice at every Gosched of the measured render
							runtime.Gosched()
						}
					}
				}(i)
			}
			got := run(mode)
			usedRenderer.Store(false)
			close(stop)
			wg.Wait()
			if got != base {
				rec.Violation(t, "C09:"+rname+":"+sink+":differs-from-baseline", "model %s, renderer %s, %d cells, sink %s: baseline (GOMAXPROCS=1, no perturbation, no history) gave [%s]; with GOMAXPROCS=%d perturbation mode %d, %d preceding and %d concurrent renders it gave [%s]", modelDesc(n, manyDesc), rname, cells, sink, base, procs, mode, before, during, got)
			}
			rec.Add(fmt.Sprintf("config:gomaxprocs=%d", procs), 1)
			rec.Add(fmt.Sprintf("config:concurrent=%d", during), 1)
		}
		descr := n.String()
		if manyDesc != "" {
			descr = manyDesc
			rec.Label("det:many-part-model")
		}
		rec.Case(true, ev.Key(descr, rname, cells, sink), "det:"+rname, "det:"+sink)
		rec.Sample("det:"+rname+":"+sink, map[string]any{"program": descr, "renderer": rname, "cells": cells, "sink": sink, "configurations": nconf, "baseline": base})
	})
}

// TestFreshProcesses: the same program (model construction + render) in fresh
// processes under different GOMAXPROCS / GOGC must print identical outputs.
var inProcCases int

// TestConcurrentDXFWriters reproduces the one recorded finding of this property: a DXF file written while
// other DXF drawings are being created / saved in the same process differs from the same render on its own
// (github.com/yofu/dxf shares its default line type objects between drawings; their owner handle, group
// code 330, comes out as 0 instead of the LTYPE table's handle). Sequential earlier DXF renders do not
// disturb it.
func TestConcurrentDXFWriters(t *testing.T) {
	rec := ev.Get()
	dir := t.TempDir()
	model := sdf.Box2D(v2.Vec{X: 0.25, Y: 1.5}, 0.1)
	other, _ := sdf.Circle2D(3)
	hash := func(p string) string {
		b, err := os.ReadFile(p)
		if err != nil {
			t.Fatalf("reading %s: %v", p, err)
		}
		return fmt.Sprintf("%d bytes %x", len(b), sha256.Sum256(b))
	}
	var solo, after string
	quietly(func() {
		render.ToDXF(model, filepath.Join(dir, "solo.dxf"), render.NewMarchingSquaresUniform(45))
		solo = hash(filepath.Join(dir, "solo.dxf"))
		render.ToDXF(other, filepath.Join(dir, "other.dxf"), render.NewMarchingSquaresUniform(60))
		render.ToDXF(model, filepath.Join(dir, "after.dxf"), render.NewMarchingSquaresUniform(45))
		after = hash(filepath.Join(dir, "after.dxf"))
	})
	rec.Case(true, "dxf:sequential", "dxf-writers:sequential")
	if after != solo {
		rec.Violation(t, "C09:dxf:bytes-depend-on-earlier-dxf-render", "ToDXF of the same model: alone [%s], after another DXF render [%s]", solo, after)
	}
	stop := make(chan struct{})
	var wg sync.WaitGroup
	for i := 0; i < 4; i++ {
		wg.Add(1)
		go func(i int) {
			defer wg.Done()
			for {
				select {
				case <-stop:
					return
				default:
					quietly(func() {
						render.ToDXF(other, filepath.Join(dir, fmt.Sprintf("busy%d.dxf", i)), render.NewMarchingSquaresUniform(60))
					})
				}
			}
		}(i)
	}
	differ := 0
	var example string
	for k := 0; k < 12; k++ {
		p := filepath.Join(dir, "conc.dxf")
		quietly(func() { render.ToDXF(model, p, render.NewMarchingSquaresUniform(45)) })
		if h := hash(p); h != solo {
			differ++
			example = h
		}
	}
	close(stop)
	wg.Wait()
	rec.Case(true, "dxf:concurrent", "dxf-writers:concurrent")
	if differ > 0 {
		rec.Violation(t, "C09:dxf:bytes-depend-on-concurrent-dxf-writers", "ToDXF of the same model: alone [%s]; %d of 12 renders made while four other goroutines wrote DXF files differ, e.g. [%s]", solo, differ, example)
	}
}

// the To* functions print "rendering <path>" on stdout. Calls may overlap (concurrent histories): the
// first one in redirects stdout, the last one out restores it.
var (
	quietMu    sync.Mutex
	quietDepth int
	quietSaved *os.File
	quietNull  *os.File
)

func quietly(f func()) {
	quietMu.Lock()
	if quietDepth == 0 {
		if dn, err := os.OpenFile(os.DevNull, os.O_WRONLY, 0); err == nil {
			quietSaved, quietNull = os.Stdout, dn
			os.Stdout = dn
		}
	}
	quietDepth++
	quietMu.Unlock()
	defer func() {
		quietMu.Lock()
		quietDepth--
		if quietDepth == 0 && quietNull != nil {
			os.Stdout = quietSaved
			quietNull.Close()
			quietNull = nil
		}
		quietMu.Unlock()
	}()
	f()
}

var pinNext atomic.Int64

// diagonalChain: discs of about half a cell in radius whose centres step one cell in x AND y - features
// that touch a lattice square at two opposite corners only (the ambiguous "saddle" squares of marching
// squares, with the square's middle outside the solid). Returns the program and the cell count at
// which the discs are a cell apart; the chain's position relative to the lattice drifts along its length
// (the renderers pad the box), so every alignment of disc and lattice point occurs somewhere.
func diagonalChain(t *rapid.T, S float64) (*shape.Node, int) {
	k := rapid.IntRange(6, 40).Draw(t, "chain-discs")
	d := S * g.F(0.05, 0.5).Draw(t, "chain-step")
	r := d * g.F(0.35, 0.7).Draw(t, "chain-radius-in-cells")
	dy := d
	if rapid.Bool().Draw(t, "chain-descending") {
		dy = -d
	}
	var pos []float64
	for i := 0; i < k; i++ {
		pos = append(pos, float64(i)*d, float64(i)*dy)
	}
	// bounding box side (k-1)*d + 2r = cells * h with h = d
	cells := int(math.Round(float64(k-1) + 2*r/d))
	cells += rapid.IntRange(-1, 1).Draw(t, "chain-cells-off")
	return &shape.Node{Op: "multi2", P: pos, K: []*shape.Node{{Op: "circle", P: []float64{r}}}}, cells
}

func TestFreshProcesses(t *testing.T) {
	rec := ev.Get()
	bin := filepath.Join(os.Getenv("VERIF_BIN"), "detchild"+os.Getenv("VERIF_BIN_SUFFIX"))
	if _, err := os.Stat(bin); err != nil {
		t.Fatalf("detchild binary missing: %v", err)
	}
	rapid.Check(t, func(t *rapid.T) {
		dim := rapid.SampledFrom([]int{3, 2}).Draw(t, "dim")
		S := rapid.SampledFrom([]float64{1, 10}).Draw(t, "scale")
		c := map[string]any{}
		var n *shape.Node
		// a third of the programs have only leaves whose construction draws from the library's random source
		randLeaf := rapid.IntRange(0, 2).Draw(t, "random-source-leaves") == 0
		if dim == 3 {
			n = shape.Gen3(t, shape.Opts{S: S, Depth: rapid.IntRange(1, 2).Draw(t, "depth"), Grammar: shape.Full, Special: true, Bezier: true, NoPoly: true, SolidUnion2: true, RandLeaf: randLeaf, NoText: rapid.IntRange(0, 2).Draw(t, "text") != 0})
			c["renderer"] = rapid.SampledFrom([]string{"mcu", "mco", "mcu", "mco", "dcv1", "dcv2"}).Draw(t, "renderer")
			c["sinks"] = []string{"triangles", "stl", "3mf"}
			c["cells"] = rapid.IntRange(8, 20).Draw(t, "cells")
			if strings.HasPrefix(c["renderer"].(string), "dcv") {
				c["sinks"] = []string{"triangles"}
				c["cells"] = rapid.IntRange(6, 14).Draw(t, "dc-cells")
			}
		} else {
			n = shape.Gen2(t, shape.Opts{S: S, Depth: rapid.IntRange(0, 2).Draw(t, "depth"), Grammar: shape.Full, Special: true, Bezier: true, NoPoly: true, SolidUnion2: true, RandLeaf: randLeaf, NoText: rapid.IntRange(0, 2).Draw(t, "text") != 0})
			c["renderer"] = rapid.SampledFrom([]string{"msu", "msq", "dc2"}).Draw(t, "renderer")
			c["sinks"] = []string{"lines", "dxf", "svg"}
			c["cells"] = rapid.IntRange(8, 60).Draw(t, "cells")
			if rapid.IntRange(0, 2).Draw(t, "diagonal-chain") == 0 {
				n, c["cells"] = diagonalChain(t, S)
				rec.Label("fresh:diagonal-chain-of-discs")
			}
		}
		c["program"] = n
		dir, err := os.MkdirTemp("", "c09f")
		if err != nil {
			t.Fatalf("tempdir: %v", err)
		}
		defer os.RemoveAll(dir)
		cj, _ := json.Marshal(c)
		cpath := filepath.Join(dir, "case.json")
		os.WriteFile(cpath, cj, 0o644)
		envs := [][]string{{"GOMAXPROCS=1", "GOGC=100"}, {"GOMAXPROCS=" + fmt.Sprint(runtime.NumCPU()), "GOGC=10"}, {"GOMAXPROCS=3", "GOGC=off"}}
		// a host with fewer processors (single-core VM, one-CPU cpuset): the child is confined to that many
		// CPUs, its runtime.NumCPU() - the size of the uniform renderer's worker pool - is the number drawn
		cpus := []int{0, 0, 0}
		if k := rapid.SampledFrom([]int{0, 1, 2, 3}).Draw(t, "host-cpus"); k > 0 && k < runtime.NumCPU() {
			envs = append(envs, []string{"GOGC=100", fmt.Sprintf("VERIF_NOTE=confined-to-%d-cpus", k)})
			cpus = append(cpus, k)
			rec.Label(fmt.Sprintf("fresh:also-on-a-host-with-%d-cpus", k))
		}
		var first string
		for i, e := range envs {
			od := filepath.Join(dir, fmt.Sprintf("run%d", i))
			os.MkdirAll(od, 0o755)
			cmd := exec.Command(bin, cpath, od)
			cmd.Env = append(os.Environ(), e...)
			var ob bytes.Buffer
			cmd.Stdout, cmd.Stderr = &ob, &ob
			var err error
			if cpus[i] > 0 {
				_, err = pin.Start(cmd, int(pinNext.Add(1)), cpus[i])
			} else {
				err = cmd.Start()
			}
			if err == nil {
				done := make(chan error, 1)
				go func() { done <- cmd.Wait() }()
				select {
				case err = <-done:
				case <-time.After(10 * time.Minute):
					cmd.Process.Kill()
					<-done
					err = fmt.Errorf("no result after 10 minutes (the renders take well under a second)")
				}
			}
			out := ob.Bytes()
			if err != nil {
				t.Fatalf("detchild failed under %v: %v\n%s", e, err, out)
			}
			var lines []string
			for _, ln := range strings.Split(string(out), "\n") {
				if strings.HasPrefix(ln, "out ") || strings.HasPrefix(ln, "domain:") {
					lines = append(lines, ln)
				}
			}
			sig := strings.Join(lines, "\n")
			if strings.HasPrefix(sig, "domain:") {
				rec.Count("discarded:constructor-rejected", 1)
				rec.Case(false, "", "discarded")
				return
			}
			if i == 0 {
				first = sig
			} else if sig != first {
				rec.Violation(t, "C09:fresh-process-output-differs", "program %s renderer %v cells %v: run under %v printed\n%s\nrun under %v printed\n%s", n, c["renderer"], c["cells"], envs[0], first, e, sig)
			}
		}
		// the same job in THIS process, which has rendered many other models before: the output must be
		// that of the fresh processes (a render does not depend on what the process rendered earlier).
		// Programs that draw from the library's process-wide random source are exempt: their geometry
		// legitimately depends on how much of the stream earlier constructions consumed.
		if !n.Has("bezier", "text") {
			var dc detsig.Case
			if err := json.Unmarshal(cj, &dc); err != nil {
				t.Fatalf("case json: %v", err)
			}
			od := filepath.Join(dir, "inproc")
			os.MkdirAll(od, 0o755)
			var lines []string
			quietly(func() { lines = detsig.Lines(dc, od) })
			if sig := strings.Join(lines, "\n"); sig != first {
				rec.Violation(t, "C09:in-process-output-differs-from-fresh-process", "program %s renderer %v cells %v: a fresh process printed\n%s\nthis process (after %d earlier cases) printed\n%s", n, c["renderer"], c["cells"], first, inProcCases, sig)
			}
			inProcCases++
			rec.Add("fresh:compared-with-in-process-render", 1)
		}
		usesRand := n.Has("bezier", "text")
		rec.Case(true, ev.Key(n.String(), c["renderer"], c["cells"]), "fresh:"+fmt.Sprint(c["renderer"]), fmt.Sprintf("fresh:uses-library-random-source=%v", usesRand))
		rec.Sample("fresh", map[string]any{"program": n.String(), "renderer": c["renderer"], "cells": c["cells"], "outputs": strings.Split(first, "\n")})
	})
}
