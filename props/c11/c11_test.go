package c11

import (
	"fmt"
	"math"
	"os"
	"path/filepath"
	"runtime"
	"sort"
	"strconv"
	"sync"
	"sync/atomic"
	"testing"

	"github.com/deadsy/sdfx/render"
	"github.com/deadsy/sdfx/sdf"
	v2 "github.com/deadsy/sdfx/vec/v2"
	v3 "github.com/deadsy/sdfx/vec/v3"
	"pgregory.net/rapid"

	"verif/internal/ev"
	"verif/internal/fmtread"
)

func TestMain(m *testing.M) { ev.Main(m) }

// ---------------------------------------------------------------------------
// numbered items. Item i carries i in small integer coordinates (all below
// 1001, exact in float32, in 3MF's 4 decimals, DXF's 16 and SVG's 2).

func triOf(id int) *sdf.Triangle3 {
	a, b := float64(id%1000), float64(id/1000)
	return &sdf.Triangle3{v3.Vec{X: a, Y: b, Z: 0}, v3.Vec{X: a + 1, Y: b, Z: 0}, v3.Vec{X: a, Y: b + 1, Z: 1}}
}

// sliverOf is item id as a needle: its second vertex differs from the first
// by 2^-30 in X (kind 1: distinct in float64, the same point in float32, as
// the facets of a finely meshed part far from the origin are) or not at all
// (kind 2). It is still a triangle the renderer wrote, and it still carries
// its id in vertices 0 and 2.
func sliverOf(id, kind int) *sdf.Triangle3 {
	a, b := float64(id%1000), float64(id/1000)
	e := 0.0
	if kind == 1 {
		e = 1.0 / (1 << 30)
	}
	return &sdf.Triangle3{v3.Vec{X: a + 1, Y: b, Z: 0}, v3.Vec{X: a + 1 + e, Y: b, Z: 0}, v3.Vec{X: a + 1, Y: b + 1, Z: 1}}
}

// isSliver: every Sliver-th item of a script is a needle.
func (s *script) item(id int) *sdf.Triangle3 {
	if s.Sliver > 0 && id%s.Sliver == 0 {
		return sliverOf(id, 1+(id/s.Sliver)%2)
	}
	if s.Fan > 0 && id%s.Fan == s.Fan-1 {
		// a fan triangle: its first vertex is the very first vertex of the stream (a mesh whose triangles share
		// vertices with much earlier ones); the id is still carried by the other two vertices
		t := triOf(id)
		t[0] = v3.Vec{}
		return t
	}
	return triOf(id)
}

// ident: the identity carried by the i-th item a producer emits (base = index of the producer's first
// item). With Repeat = r every r-th item of a producer is the SAME item as the one before it (a renderer
// may emit one triangle / segment twice - a shared cell edge, a re-traced outline); it has to arrive twice.
func (s *script) ident(i, base int) int {
	if j := i - base; s.Repeat > 1 && j > 0 && j%s.Repeat == s.Repeat-1 {
		return i - 1
	}
	return i
}

// triID decodes a triangle read back from a sink; ok=false: not one of ours.
func triID(v [3][3]float64) (int, bool) {
	a, b := v[0][0], v[0][1]
	if a != math.Trunc(a) || b != math.Trunc(b) || a < 0 || a > 1000 || b < 0 || b > 1e6 {
		return 0, false
	}
	if v[0] == [3]float64{0, 0, 0} && v[2][2] == 1 && v[1] == [3]float64{v[2][0] + 1, v[2][1] - 1, 0} {
		// a fan triangle (or item 0 itself): the id is in vertices 1 and 2
		a, b = v[2][0], v[2][1]-1
		if a != math.Trunc(a) || b != math.Trunc(b) || a < 0 || a > 1000 || b < 0 || b > 1e6 {
			return 0, false
		}
		return int(a) + 1000*int(b), true
	}
	if v[0][2] != 0 || v[2] != [3]float64{a, b + 1, 1} {
		return 0, false
	}
	if v[1] == [3]float64{a + 1, b, 0} {
		return int(a) + 1000*int(b), true
	}
	// a needle (sliverOf): X is shifted by one
	if a >= 1 && (v[1] == [3]float64{a, b, 0} || v[1] == [3]float64{a + 1.0/(1<<30), b, 0}) {
		return int(a) - 1 + 1000*int(b), true
	}
	return 0, false
}

// the segment carries its id in its extent only, so that the SVG origin shift
// cannot disturb the decoding.
func segOf(id int) *sdf.Line2 {
	a, b := float64(id%1000), float64(id/1000)
	return &sdf.Line2{v2.Vec{X: 0, Y: 0}, v2.Vec{X: a + 1, Y: b + 1}}
}

func segID(dx, dy float64) (int, bool) {
	a, b := dx-1, dy-1
	if a != math.Trunc(a) || b != math.Trunc(b) || a < 0 || a > 999 || b < 0 || b > 1e6 {
		return 0, false
	}
	return int(a) + 1000*int(b), true
}

// ---------------------------------------------------------------------------
// threshold calibration: the buffer sizes are not imported; they are found by
// writing single items into a fresh buffer until the first channel send.

var (
	calOnce sync.Once
	calT3   int
	calT2   int
)

func calibrate() (int, int) {
	calOnce.Do(func() {
		{
			ch := make(chan []*sdf.Triangle3)
			var sends atomic.Int64
			done := make(chan struct{})
			go func() {
				for range ch {
					sends.Add(1)
				}
				close(done)
			}()
			w := sdf.NewTriangle3Buffer(ch)
			n := 0
			for sends.Load() == 0 && n < 1<<20 {
				w.Write([]*sdf.Triangle3{triOf(n % 1000)})
				n++
			}
			w.Close()
			close(ch)
			<-done
			calT3 = n
		}
		{
			ch := make(chan []*sdf.Line2)
			var sends atomic.Int64
			done := make(chan struct{})
			go func() {
				for range ch {
					sends.Add(1)
				}
				close(done)
			}()
			w := sdf.NewLine2Buffer(ch)
			n := 0
			for sends.Load() == 0 && n < 1<<20 {
				w.Write([]*sdf.Line2{segOf(n % 1000)})
				n++
			}
			w.Close()
			close(ch)
			<-done
			calT2 = n
		}
	})
	return calT3, calT2
}

// ---------------------------------------------------------------------------
// the script: per producer a list of batch sizes; producer p owns the ids
// base[p] .. base[p]+sum(batches[p])-1 and emits them in increasing order.

type script struct {
	Dim      int     `json:"dim"` // 3: triangles, 2: segments
	Sink     string  `json:"sink"`
	Batches  [][]int `json:"batches"`
	Yield    []int   `json:"yield"`     // producer p yields the processor after every Yield[p]-th write (0: never)
	NilEmpty bool    `json:"nil_empty"` // empty batches are nil slices (as mcToTriangles returns) rather than empty ones
	// EachCloses: with several producers, every producer flushes with Close when IT has finished (while the
	// others may still be writing) in addition to the final Close after all have finished
	EachCloses bool `json:"each_closes,omitempty"`
	// ReuseSlice: every producer fills ONE scratch slice again and again and hands sub-slices of it to Write
	// (Write copies what it is given; the slice is the caller's to reuse once Write has returned)
	ReuseSlice bool   `json:"reuse_slice,omitempty"`
	Path       string `json:"-"`                // output path chosen by the caller (concurrent sinks); "" = tmpPath
	Sliver     int    `json:"sliver,omitempty"` // triangles only: every Sliver-th item is a needle (see sliverOf); 0: none
	Repeat     int    `json:"repeat,omitempty"` // > 1: every Repeat-th item of a producer is the preceding item once more (see ident)
	Fan        int    `json:"fan,omitempty"`    // triangles only, > 0: every Fan-th item has the stream's first vertex as its first vertex
}

func (s *script) totals() (bases []int, total int) {
	for _, bs := range s.Batches {
		bases = append(bases, total)
		for _, b := range bs {
			total += b
		}
	}
	return
}

// producerOf maps id -> producer index.
func (s *script) producerOf() []int {
	bases, total := s.totals()
	out := make([]int, total)
	for p := range s.Batches {
		end := total
		if p+1 < len(bases) {
			end = bases[p+1]
		}
		for i := bases[p]; i < end; i++ {
			out[i] = p
		}
	}
	return out
}

// scripted3 is the harness-owned Render3. It uses the writer the way the real
// renderers do (march3.go, march3x.go): a fresh slice per Write, results of
// Write ignored, Close exactly once at the end of Render.
type scripted3 struct {
	s      *script
	writes atomic.Int64
	closes atomic.Int64
}

func (r *scripted3) Info(sdf.SDF3) string { return "scripted" }
func (r *scripted3) Render(_ sdf.SDF3, out sdf.Triangle3Writer) {
	bases, _ := r.s.totals()
	run := func(p int) {
		var scratch []*sdf.Triangle3
		id := bases[p]
		for j, b := range r.s.Batches[p] {
			var batch []*sdf.Triangle3
			if b > 0 || !r.s.NilEmpty {
				batch = make([]*sdf.Triangle3, b)
				if r.s.ReuseSlice {
					if cap(scratch) < b {
						scratch = make([]*sdf.Triangle3, b)
					}
					batch = scratch[:b]
				}
			}
			for k := range batch {
				batch[k] = r.s.item(r.s.ident(id, bases[p]))
				id++
			}
			out.Write(batch)
			r.writes.Add(1)
			if y := r.s.Yield[p]; y > 0 && (j+1)%y == 0 {
				runtime.Gosched()
			}
		}
		if r.s.EachCloses && len(r.s.Batches) > 1 {
			out.Close()
		}
	}
	if len(r.s.Batches) == 1 {
		run(0)
	} else {
		var wg sync.WaitGroup
		for p := range r.s.Batches {
			wg.Add(1)
			go func(p int) { defer wg.Done(); run(p) }(p)
		}
		wg.Wait()
	}
	out.Close()
	r.closes.Add(1)
}

type scripted2 struct {
	s      *script
	writes atomic.Int64
	closes atomic.Int64
}

func (r *scripted2) Info(sdf.SDF2) string { return "scripted" }
func (r *scripted2) Render(_ sdf.SDF2, out sdf.Line2Writer) {
	bases, _ := r.s.totals()
	run := func(p int) {
		var scratch []*sdf.Line2
		id := bases[p]
		for j, b := range r.s.Batches[p] {
			var batch []*sdf.Line2
			if b > 0 || !r.s.NilEmpty {
				batch = make([]*sdf.Line2, b)
				if r.s.ReuseSlice {
					if cap(scratch) < b {
						scratch = make([]*sdf.Line2, b)
					}
					batch = scratch[:b]
				}
			}
			for k := range batch {
				batch[k] = segOf(r.s.ident(id, bases[p]))
				id++
			}
			out.Write(batch)
			r.writes.Add(1)
			if y := r.s.Yield[p]; y > 0 && (j+1)%y == 0 {
				runtime.Gosched()
			}
		}
		if r.s.EachCloses && len(r.s.Batches) > 1 {
			out.Close()
		}
	}
	if len(r.s.Batches) == 1 {
		run(0)
	} else {
		var wg sync.WaitGroup
		for p := range r.s.Batches {
			wg.Add(1)
			go func(p int) { defer wg.Done(); run(p) }(p)
		}
		wg.Wait()
	}
	out.Close()
	r.closes.Add(1)
}

// ---------------------------------------------------------------------------
// running a script through a sink; result = the ids found at the sink in the
// order the sink holds them.

var devnull, _ = os.OpenFile(os.DevNull, os.O_WRONLY, 0)

// the To* functions print "rendering <path>" for every file. Calls may overlap (concurrent sinks): the first
// one in redirects stdout, the last one out restores it.
var (
	quietMu    sync.Mutex
	quietDepth int
	quietSaved *os.File
)

func quiet(f func()) {
	quietMu.Lock()
	if quietDepth == 0 && devnull != nil {
		quietSaved = os.Stdout
		os.Stdout = devnull
	}
	quietDepth++
	quietMu.Unlock()
	defer func() {
		quietMu.Lock()
		quietDepth--
		if quietDepth == 0 && quietSaved != nil {
			os.Stdout = quietSaved
			quietSaved = nil
		}
		quietMu.Unlock()
	}()
	f()
}

var caseDir string
var caseSeq int

func pathFor(s *script, ext string) string {
	if s.Path != "" {
		return s.Path
	}
	return tmpPath(ext)
}

func tmpPath(ext string) string {
	if caseDir == "" {
		d, err := os.MkdirTemp("", "c11")
		if err != nil {
			panic(err)
		}
		caseDir = d
	}
	caseSeq++
	// four paths per format, reused round robin and NOT removed: most renders go to a path that still
	// holds the output of an earlier case (longer or shorter), as re-running a model does
	p := filepath.Join(caseDir, fmt.Sprintf("f%d.%s", caseSeq%4, ext))
	if _, err := os.Stat(p); err == nil {
		ev.Get().Add("sink-file-existed-before-the-render", 1)
	}
	return p
}

type delivery struct {
	ids     []int    // decoded items in sink order
	foreign []string // items that are not numbered items of this harness
	sends   []int    // sizes of the channel sends (bare buffers only)
	note    string   // file-level disagreement (count field, unreadable ...), "" if none
	noteKey string
}

func f64(v [3]float32) [3]float64 { return [3]float64{float64(v[0]), float64(v[1]), float64(v[2])} }

func (d *delivery) addTri(v [3][3]float64) {
	if id, ok := triID(v); ok {
		d.ids = append(d.ids, id)
	} else if len(d.foreign) < 5 {
		d.foreign = append(d.foreign, fmt.Sprint(v))
	} else {
		d.foreign = append(d.foreign[:5], "...")
	}
}

func (d *delivery) addSeg(dx, dy float64, what string) {
	if id, ok := segID(dx, dy); ok {
		d.ids = append(d.ids, id)
	} else if len(d.foreign) < 5 {
		d.foreign = append(d.foreign, what)
	}
}

func triVals(t *sdf.Triangle3) [3][3]float64 {
	return [3][3]float64{{t[0].X, t[0].Y, t[0].Z}, {t[1].X, t[1].Y, t[1].Z}, {t[2].X, t[2].Y, t[2].Z}}
}

func run3(s *script) *delivery {
	d := &delivery{}
	r := &scripted3{s: s}
	switch s.Sink {
	case "ToTriangles":
		for _, t := range render.ToTriangles(nil, r) {
			d.addTri(triVals(t))
		}
	case "ToSTL":
		path := pathFor(s, "stl")
		quiet(func() { render.ToSTL(nil, path, r) })
		f, err := fmtread.ReadSTL(path)
		if err != nil {
			d.note, d.noteKey = fmt.Sprintf("cannot read the file back: %v", err), "unreadable"
			return d
		}
		for _, t := range f.Tris {
			d.addTri([3][3]float64{f64(t.V[0]), f64(t.V[1]), f64(t.V[2])})
		}
		if !f.WellFormed() {
			d.note = fmt.Sprintf("count field %d, %d records in the file, size %d (84+50*count = %d), %d trailing bytes", f.Count, len(f.Tris), f.Size, 84+50*int64(f.Count), f.Trailing)
			d.noteKey = "count-field"
		}
	case "To3MF":
		path := pathFor(s, "3mf")
		quiet(func() { render.To3MF(nil, path, r) })
		m, err := fmtread.Read3MF(path)
		if err != nil {
			d.note, d.noteKey = fmt.Sprintf("cannot read the file back: %v", err), "unreadable"
			return d
		}
		if len(m.Objects) != 1 {
			d.note, d.noteKey = fmt.Sprintf("%d objects in the file", len(m.Objects)), "unreadable"
			return d
		}
		o := m.Objects[0]
		for i, t := range o.Triangles {
			var v [3][3]float64
			for k := 0; k < 3; k++ {
				if int(t[k]) >= len(o.Vertices) {
					d.note, d.noteKey = fmt.Sprintf("triangle %d refers to vertex %d of %d", i, t[k], len(o.Vertices)), "unreadable"
					return d
				}
				v[k] = f64(o.Vertices[t[k]])
			}
			d.addTri(v)
		}
	case "buffer3-eager", "buffer3-lazy":
		// the bare buffer with the harness's own channel reader. eager: the
		// reader copies the items out as they arrive (as WriteTriangles does);
		// lazy: it keeps the slices it was sent and looks into them at the end.
		ch := make(chan []*sdf.Triangle3)
		done := make(chan struct{})
		var kept [][]*sdf.Triangle3
		var vals [][3][3]float64
		go func() {
			defer close(done)
			for ts := range ch {
				d.sends = append(d.sends, len(ts))
				if s.Sink == "buffer3-lazy" {
					kept = append(kept, ts)
					continue
				}
				for _, t := range ts {
					vals = append(vals, triVals(t))
				}
			}
		}()
		r.Render(nil, sdf.NewTriangle3Buffer(ch))
		close(ch)
		<-done
		for _, ts := range kept {
			for _, t := range ts {
				if t == nil {
					d.foreign = append(d.foreign, "nil")
					continue
				}
				vals = append(vals, triVals(t))
			}
		}
		for _, v := range vals {
			d.addTri(v)
		}
	default:
		panic("sink " + s.Sink)
	}
	if c := r.closes.Load(); c != 1 {
		panic(fmt.Sprintf("harness: Render ran %d times", c))
	}
	return d
}

func run2(s *script) *delivery {
	d := &delivery{}
	r := &scripted2{s: s}
	switch s.Sink {
	case "ToDXF":
		path := pathFor(s, "dxf")
		quiet(func() { render.ToDXF(nil, path, r) })
		f, err := fmtread.ReadDXF(path)
		if err != nil {
			d.note, d.noteKey = fmt.Sprintf("cannot read the file back: %v", err), "unreadable"
			return d
		}
		for _, o := range f.Other {
			d.foreign = append(d.foreign, o)
		}
		for _, l := range f.Lines {
			what := fmt.Sprint(l.Start, l.End)
			if l.Start != [3]float64{} || l.End[2] != 0 {
				d.foreign = append(d.foreign, what)
				continue
			}
			d.addSeg(l.End[0]-l.Start[0], l.End[1]-l.Start[1], what)
		}
	case "ToSVG":
		path := pathFor(s, "svg")
		quiet(func() { render.ToSVG(nil, path, r) })
		f, err := fmtread.ReadSVG(path)
		if err != nil {
			d.note, d.noteKey = fmt.Sprintf("cannot read the file back: %v", err), "unreadable"
			return d
		}
		for _, o := range f.Other {
			d.foreign = append(d.foreign, "<"+o+">")
		}
		for _, l := range f.Lines {
			what := fmt.Sprintf("(%s,%s)-(%s,%s)", l.X1, l.Y1, l.X2, l.Y2)
			var c [4]float64
			bad := false
			for k, sv := range [4]string{l.X1, l.Y1, l.X2, l.Y2} {
				f, err := strconv.ParseFloat(sv, 64)
				if err != nil {
					bad = true
				}
				c[k] = f
			}
			if bad {
				d.foreign = append(d.foreign, what)
				continue
			}
			// y axis points down in the file
			d.addSeg(c[2]-c[0], c[1]-c[3], what)
		}
	case "buffer2-eager", "buffer2-lazy":
		ch := make(chan []*sdf.Line2)
		done := make(chan struct{})
		var kept [][]*sdf.Line2
		var vals []sdf.Line2
		go func() {
			defer close(done)
			for ls := range ch {
				d.sends = append(d.sends, len(ls))
				if s.Sink == "buffer2-lazy" {
					kept = append(kept, ls)
					continue
				}
				for _, l := range ls {
					vals = append(vals, *l)
				}
			}
		}()
		r.Render(nil, sdf.NewLine2Buffer(ch))
		close(ch)
		<-done
		for _, ls := range kept {
			for _, l := range ls {
				if l == nil {
					d.foreign = append(d.foreign, "nil")
					continue
				}
				vals = append(vals, *l)
			}
		}
		for _, l := range vals {
			what := fmt.Sprint(l)
			if l[0] != (v2.Vec{}) {
				d.foreign = append(d.foreign, what)
				continue
			}
			d.addSeg(l[1].X-l[0].X, l[1].Y-l[0].Y, what)
		}
	default:
		panic("sink " + s.Sink)
	}
	if c := r.closes.Load(); c != 1 {
		panic(fmt.Sprintf("harness: Render ran %d times", c))
	}
	return d
}

// ---------------------------------------------------------------------------
// the oracle: model = the emitted list.

func short(xs []int) string {
	if len(xs) <= 12 {
		return fmt.Sprint(xs)
	}
	return fmt.Sprintf("%v ... (%d in all, last %d)", xs[:12], len(xs), xs[len(xs)-1])
}

// judge returns "" or (key suffix, message) of the first disagreement.
func judge(s *script, d *delivery) (string, string) {
	if d.noteKey == "unreadable" {
		return "unreadable", d.note
	}
	_, total := s.totals()
	if len(d.foreign) > 0 {
		return "foreign-item", fmt.Sprintf("the sink holds items that were never emitted: %v", d.foreign)
	}
	count := make([]int, total)
	var foreign []int
	for _, id := range d.ids {
		if id < 0 || id >= total {
			foreign = append(foreign, id)
			continue
		}
		count[id]++
	}
	if len(foreign) > 0 {
		return "foreign-item", fmt.Sprintf("the sink holds ids that were never emitted (emitted 0..%d): %s", total-1, short(foreign))
	}
	// how often every identity was emitted (1, or with Repeat 0 / 2)
	bases, _ := s.totals()
	prodOf := s.producerOf()
	want := make([]int, total)
	for i := 0; i < total; i++ {
		want[s.ident(i, bases[prodOf[i]])]++
	}
	var lost, dup []int
	for id, c := range count {
		if c < want[id] {
			lost = append(lost, id)
		}
		if c > want[id] {
			dup = append(dup, id)
		}
	}
	if len(lost) > 0 && len(dup) > 0 {
		return "lost-and-duplicated", fmt.Sprintf("emitted %d items, sink holds %d: lost %s, more than once %s", total, len(d.ids), short(lost), short(dup))
	}
	if len(lost) > 0 {
		return "lost", fmt.Sprintf("emitted %d items, sink holds %d: lost %s", total, len(d.ids), short(lost))
	}
	if len(dup) > 0 {
		return "duplicated", fmt.Sprintf("emitted %d items, sink holds %d: more than once %s", total, len(d.ids), short(dup))
	}
	// same multiset. order: every producer emitted its ids in non-decreasing order.
	prod := prodOf
	last := make([]int, len(s.Batches))
	for i := range last {
		last[i] = -1
	}
	for pos, id := range d.ids {
		p := prod[id]
		if id < last[p] {
			if len(s.Batches) == 1 {
				return "reordered", fmt.Sprintf("single producer emitted 0..%d in order; sink position %d holds %d after %d", total-1, pos, id, last[p])
			}
			return "producer-order", fmt.Sprintf("producer %d emitted %d before %d; the sink holds them the other way round (position %d)", p, id, last[p], pos)
		}
		last[p] = id
	}
	if d.noteKey != "" {
		return d.noteKey, d.note
	}
	return "", ""
}

// ---------------------------------------------------------------------------
// generator

var sinks3 = []string{"ToTriangles", "ToSTL", "To3MF", "buffer3-eager", "buffer3-lazy"}
var sinks2 = []string{"ToDXF", "ToSVG", "buffer2-eager", "buffer2-lazy"}

func maxTotal() int { return 20000 }

// drawTotal picks how many items one producer emits, by class relative to T.
func drawTotal(t *rapid.T, label string, T, budget int) (int, string) {
	var n int
	var class string
	switch rapid.IntRange(0, 11).Draw(t, label+".class") {
	case 0:
		n, class = 0, "0"
	case 1:
		n, class = rapid.IntRange(1, 5).Draw(t, label+".few"), "1..5"
	case 2:
		n, class = T-1, "T-1"
	case 3:
		n, class = T, "T"
	case 4:
		n, class = T+1, "T+1"
	case 5:
		k := rapid.IntRange(2, 8).Draw(t, label+".k")
		n, class = k*T+rapid.IntRange(-1, 1).Draw(t, label+".d"), "kT-1..kT+1"
	case 6, 7:
		n, class = rapid.IntRange(0, 4*T).Draw(t, label+".n"), "0..4T"
	case 8:
		k := rapid.IntRange(1, 8).Draw(t, label+".k")
		n, class = k*T+rapid.IntRange(2, 9).Draw(t, label+".r"), "kT+2..9"
	case 9:
		n, class = rapid.IntRange(4*T, 16*T).Draw(t, label+".n"), "4T..16T"
	case 10:
		k := rapid.IntRange(9, 60).Draw(t, label+".k")
		n, class = k*T+rapid.IntRange(-1, 1).Draw(t, label+".d"), "large kT-1..kT+1"
	default:
		n, class = rapid.IntRange(16*T, maxTotal()).Draw(t, label+".n"), "large"
	}
	if n < 0 {
		n = 0
	}
	if n > budget {
		n, class = budget, "rest-of-budget"
	}
	return n, class
}

// drawPartition splits n into batches.
func drawPartition(t *rapid.T, label string, T, n int) ([]int, string) {
	style := rapid.SampledFrom([]string{"marching", "marching", "mixed", "mixed", "one-batch", "threshold-sized", "singles"}).Draw(t, label+".style")
	if style == "marching" && n > 6*T {
		style = "mixed"
	}
	if style == "singles" && n > 3*T {
		style = "mixed"
	}
	menu := []int{0, 1, 2, 5, T - 1, T, T + 1, 2*T - 1, 2 * T, 2*T + 1, 3*T + 7, 0}
	var out []int
	left := n
	lead := rapid.IntRange(0, 2).Draw(t, label+".leading-empties")
	for i := 0; i < lead; i++ {
		out = append(out, 0)
	}
	for left > 0 {
		var b int
		switch style {
		case "marching": // what marching cubes / squares hand over: 0..5 items per cell
			b = rapid.IntRange(0, 5).Draw(t, label+".b")
		case "mixed":
			i := rapid.IntRange(0, len(menu)-1).Draw(t, label+".m")
			b = menu[i]
			if i == len(menu)-1 {
				b = rapid.IntRange(4*T, 4*T+maxTotal()/2).Draw(t, label+".big")
			}
		case "one-batch":
			b = left
		case "threshold-sized":
			b = T + rapid.IntRange(-1, 1).Draw(t, label+".d")
		default:
			b = 1
		}
		if b < 0 {
			b = 0
		}
		if b > left {
			b = left
		}
		out = append(out, b)
		left -= b
	}
	trail := rapid.IntRange(0, 2).Draw(t, label+".trailing-empties")
	for i := 0; i < trail; i++ {
		out = append(out, 0)
	}
	return out, style
}

func drawScript(t *rapid.T, dim int) (*script, []string) {
	T3, T2 := calibrate()
	T := T3
	sinks := sinks3
	if dim == 2 {
		T, sinks = T2, sinks2
	}
	s := &script{Dim: dim}
	s.Sink = rapid.SampledFrom(sinks).Draw(t, "sink")
	np := 1
	if rapid.IntRange(0, 2).Draw(t, "multi") == 0 {
		np = rapid.IntRange(2, 8).Draw(t, "producers")
	}
	s.NilEmpty = rapid.Bool().Draw(t, "nil-empty")
	s.ReuseSlice = rapid.IntRange(0, 3).Draw(t, "producer-reuses-its-slice") == 0
	if np > 1 {
		s.EachCloses = rapid.IntRange(0, 2).Draw(t, "each-producer-closes") == 0
	}
	if dim == 3 && rapid.IntRange(0, 2).Draw(t, "needles") == 0 {
		s.Sliver = rapid.SampledFrom([]int{1, 2, 3, 7, 50}).Draw(t, "every")
	}
	if rapid.IntRange(0, 3).Draw(t, "repeated-items") == 0 {
		s.Repeat = rapid.SampledFrom([]int{2, 3, 5, 40, 300}).Draw(t, "repeat-every")
	}
	if dim == 3 && rapid.IntRange(0, 3).Draw(t, "fan-triangles") == 0 {
		s.Fan = rapid.SampledFrom([]int{2, 3, 5, 17, 100}).Draw(t, "fan-every")
	}
	budget := maxTotal()
	var labels []string
	for p := 0; p < np; p++ {
		n, class := drawTotal(t, fmt.Sprintf("p%d.total", p), T, budget)
		budget -= n
		bs, style := drawPartition(t, fmt.Sprintf("p%d", p), T, n)
		s.Batches = append(s.Batches, bs)
		y := 0
		if np > 1 {
			y = rapid.SampledFrom([]int{0, 1, 2, 7, 50}).Draw(t, fmt.Sprintf("p%d.yield", p))
		}
		s.Yield = append(s.Yield, y)
		labels = append(labels, "producer-total:"+class, "partition:"+style)
	}
	return s, labels
}

// nontrivial: total not a multiple of T, or some batch straddles a multiple of
// T (single producer: position in the stream), or >= 2 producers.
func classify(s *script, T int) (nt bool, labels []string) {
	_, total := s.totals()
	if total%T != 0 {
		nt = true
		labels = append(labels, "total-not-multiple-of-T")
	} else {
		labels = append(labels, "total-multiple-of-T")
	}
	switch {
	case total == 0:
		labels = append(labels, "total=0")
	case total < T:
		labels = append(labels, "total<T")
	case total == T:
		labels = append(labels, "total=T")
	case total%T == 1:
		labels = append(labels, "total=kT+1")
	case total%T == T-1:
		labels = append(labels, "total=kT-1")
	case total%T == 0:
		labels = append(labels, "total=kT(k>=2)")
	default:
		labels = append(labels, "total=other")
	}
	if total >= 16*T {
		labels = append(labels, "total>=16T")
	}
	straddle, empties, exact := false, false, false
	for _, bs := range s.Batches {
		pos := 0
		for _, b := range bs {
			if b == 0 {
				empties = true
			}
			if b > 0 && pos/T != (pos+b)/T && (pos+b)%T != 0 {
				straddle = true
			}
			if b > 0 && (pos+b)%T == 0 {
				exact = true
			}
			pos += b
		}
	}
	if straddle {
		nt = true
		labels = append(labels, "batch-straddles-multiple-of-T")
	}
	if exact {
		labels = append(labels, "batch-ends-on-multiple-of-T")
	}
	if empties {
		labels = append(labels, "has-empty-batch")
	}
	if len(s.Batches) >= 2 {
		nt = true
	}
	labels = append(labels, fmt.Sprintf("producers=%d", len(s.Batches)), fmt.Sprintf("producer-reuses-its-slice=%v", s.ReuseSlice))
	if len(s.Batches) > 1 {
		labels = append(labels, fmt.Sprintf("each-producer-closes=%v", s.EachCloses))
	}
	if s.Dim == 3 {
		labels = append(labels, fmt.Sprintf("has-needle-triangles=%v", s.Sliver > 0 && total > 0))
		labels = append(labels, fmt.Sprintf("has-fan-triangles=%v", s.Fan > 0 && total > s.Fan))
	}
	labels = append(labels, fmt.Sprintf("has-repeated-items=%v", s.Repeat > 1 && total > s.Repeat))
	return
}

func runScript(t ev.TB, rec *ev.Rec, s *script, extra []string) {
	T3, T2 := calibrate()
	T := T3
	if s.Dim == 2 {
		T = T2
	}
	nt, labels := classify(s, T)
	labels = append(labels, "sink:"+s.Sink)
	labels = append(labels, extra...)
	pre := fmt.Sprintf("dim%d:", s.Dim)
	for i := range labels {
		labels[i] = pre + labels[i]
	}
	rec.Case(nt, ev.Key(s.Dim, s.Sink, s.Batches, s.Yield, s.NilEmpty, s.Sliver, s.EachCloses, s.ReuseSlice, s.Repeat, s.Fan), labels...)
	_, total := s.totals()
	if total <= 600 {
		rec.Sample(pre+s.Sink, s)
	}
	var d *delivery
	if s.Dim == 3 {
		d = run3(s)
	} else {
		d = run2(s)
	}
	if len(d.sends) > 0 {
		rec.Add(pre+"channel-sends", int64(len(d.sends)))
	}
	if key, msg := judge(s, d); key != "" {
		what := fmt.Sprintf("%d producer(s), batches %s", len(s.Batches), describeBatches(s.Batches))
		rec.Violation(t, s.Sink+":"+key, "%s: %s [T=%d; %s]", s.Sink, msg, T, what)
	}
}

func describeBatches(bs [][]int) string {
	out := ""
	for p, b := range bs {
		if p > 0 {
			out += " | "
		}
		if len(b) > 24 {
			out += fmt.Sprintf("%v...(%d writes)", b[:24], len(b))
		} else {
			out += fmt.Sprint(b)
		}
	}
	return out
}

func TestCalibration(t *testing.T) {
	rec := ev.Get()
	T3, T2 := calibrate()
	rec.Case(true, ev.Key("calibration", T3, T2), fmt.Sprintf("calibrated:T3=%d", T3), fmt.Sprintf("calibrated:T2=%d", T2))
	t.Logf("calibrated thresholds: triangles %d, segments %d", T3, T2)
	if T3 < 1 || T3 >= 1<<20 || T2 < 1 || T2 >= 1<<20 {
		t.Fatalf("calibration found no buffer threshold (triangles %d, segments %d): infrastructure problem, the generator cannot aim at the thresholds", T3, T2)
	}
}

func TestTriangleStreams(t *testing.T) {
	rec := ev.Get()
	rapid.Check(t, func(t *rapid.T) {
		s, labels := drawScript(t, 3)
		runScript(t, rec, s, labels)
	})
}

func TestLineStreams(t *testing.T) {
	rec := ev.Get()
	rapid.Check(t, func(t *rapid.T) {
		s, labels := drawScript(t, 2)
		runScript(t, rec, s, labels)
	})
}

// ---------------------------------------------------------------------------
// the real renderers: whatever they write to their output must arrive. A tee
// between the renderer and the library's buffer records every Write/Close.

type tee3 struct {
	inner   render.Render3
	mu      sync.Mutex
	written [][3][3]float64
	writes  int
	closes  int
	late    int // writes after Close
}

type tee3w struct {
	t   *tee3
	out sdf.Triangle3Writer
}

func (w tee3w) Write(in []*sdf.Triangle3) error {
	w.t.mu.Lock()
	defer w.t.mu.Unlock()
	w.t.writes++
	if w.t.closes > 0 {
		w.t.late++
	}
	for _, t := range in {
		w.t.written = append(w.t.written, triVals(t))
	}
	return w.out.Write(in)
}

func (w tee3w) Close() error {
	w.t.mu.Lock()
	defer w.t.mu.Unlock()
	w.t.closes++
	return w.out.Close()
}

func (r *tee3) Info(s sdf.SDF3) string { return r.inner.Info(s) }
func (r *tee3) Render(s sdf.SDF3, out sdf.Triangle3Writer) {
	r.inner.Render(s, tee3w{r, out})
}

type tee2 struct {
	inner   render.Render2
	mu      sync.Mutex
	written []sdf.Line2
	writes  int
	closes  int
	late    int
}

type tee2w struct {
	t   *tee2
	out sdf.Line2Writer
}

func (w tee2w) Write(in []*sdf.Line2) error {
	w.t.mu.Lock()
	defer w.t.mu.Unlock()
	w.t.writes++
	if w.t.closes > 0 {
		w.t.late++
	}
	for _, l := range in {
		w.t.written = append(w.t.written, *l)
	}
	return w.out.Write(in)
}

func (w tee2w) Close() error {
	w.t.mu.Lock()
	defer w.t.mu.Unlock()
	w.t.closes++
	return w.out.Close()
}

func (r *tee2) Info(s sdf.SDF2) string { return r.inner.Info(s) }
func (r *tee2) Render(s sdf.SDF2, out sdf.Line2Writer) {
	r.inner.Render(s, tee2w{r, out})
}

func f32round(v [3][3]float64) [3][3]float64 {
	for i := range v {
		for k := range v[i] {
			v[i][k] = float64(float32(v[i][k]))
		}
	}
	return v
}

func TestRealRenderers(t *testing.T) {
	rec := ev.Get()
	T3, T2 := calibrate()
	rapid.Check(t, func(t *rapid.T) {
		kind := rapid.SampledFrom([]string{"MarchingCubesUniform", "MarchingCubesOctree", "MarchingSquaresUniform", "MarchingSquaresQuadtree", "DualContouring2D"}).Draw(t, "renderer")
		cells := rapid.IntRange(3, 28).Draw(t, "cells")
		a := float64(rapid.IntRange(4, 40).Draw(t, "a")) / 8
		b := float64(rapid.IntRange(4, 40).Draw(t, "b")) / 8
		c := float64(rapid.IntRange(4, 40).Draw(t, "c")) / 8
		round := rapid.Bool().Draw(t, "round")
		switch kind {
		case "MarchingCubesUniform", "MarchingCubesOctree":
			var s sdf.SDF3
			var err error
			if round {
				s, err = sdf.Sphere3D(a)
			} else {
				s, err = sdf.Box3D(v3.Vec{X: a, Y: b, Z: c}, 0)
			}
			if err != nil {
				rec.Count("discarded:constructor-error", 1)
				t.Skip("constructor refused")
			}
			var inner render.Render3
			if kind == "MarchingCubesUniform" {
				inner = render.NewMarchingCubesUniform(cells)
			} else {
				inner = render.NewMarchingCubesOctree(cells)
			}
			sink := rapid.SampledFrom([]string{"ToTriangles", "ToSTL"}).Draw(t, "sink")
			r := &tee3{inner: inner}
			var got [][3][3]float64
			want := func() [][3][3]float64 { return r.written }
			note := ""
			if sink == "ToTriangles" {
				for _, tr := range render.ToTriangles(s, r) {
					got = append(got, triVals(tr))
				}
			} else {
				path := tmpPath("stl")
				quiet(func() { render.ToSTL(s, path, r) })
				f, err := fmtread.ReadSTL(path)
				if err != nil {
					rec.Violation(t, sink+":unreadable", "%s: %v", kind, err)
					return
				}
				for _, tr := range f.Tris {
					got = append(got, [3][3]float64{f64(tr.V[0]), f64(tr.V[1]), f64(tr.V[2])})
				}
				if !f.WellFormed() {
					note = fmt.Sprintf("count field %d, %d records, size %d", f.Count, len(f.Tris), f.Size)
				}
				w := r.written
				want = func() [][3][3]float64 {
					out := make([][3][3]float64, len(w))
					for i := range w {
						out[i] = f32round(w[i])
					}
					return out
				}
			}
			n := len(r.written)
			rec.Case(n%T3 != 0, ev.Key(kind, sink, cells, a, b, c, round), "real:"+kind, "real:sink:"+sink, fmt.Sprintf("real:items-mod-T-nonzero=%v", n%T3 != 0), fmt.Sprintf("real:items>=T=%v", n >= T3), fmt.Sprintf("real:items=0:%v", n == 0))
			if r.closes != 1 || r.late != 0 {
				rec.Count(fmt.Sprintf("real:%s:closes=%d,writes-after-close=%d", kind, r.closes, r.late), 1)
			}
			w := want()
			if len(got) != len(w) {
				key := sink + ":real-renderer:count"
				if r.closes == 0 {
					key = kind + ":output-never-closed:items-lost"
				}
				rec.Violation(t, key, "%s(%d cells) wrote %d triangles to its output in %d writes and closed it %d times, %s holds %d", kind, cells, len(w), r.writes, r.closes, sink, len(got))
				return
			}
			for i := range w {
				if got[i] != w[i] {
					rec.Violation(t, sink+":real-renderer:sequence", "%s(%d cells): item %d written as %v, %s holds %v", kind, cells, i, w[i], sink, got[i])
					return
				}
			}
			if note != "" {
				rec.Violation(t, sink+":count-field", "%s(%d cells): %s", kind, cells, note)
			}
		default:
			var s sdf.SDF2
			var err error
			if round {
				s, err = sdf.Circle2D(a)
			} else {
				s = sdf.Box2D(v2.Vec{X: a, Y: b}, 0)
			}
			if err != nil {
				rec.Count("discarded:constructor-error", 1)
				t.Skip("constructor refused")
			}
			var inner render.Render2
			switch kind {
			case "MarchingSquaresUniform":
				inner = render.NewMarchingSquaresUniform(cells * 8)
			case "MarchingSquaresQuadtree":
				inner = render.NewMarchingSquaresQuadtree(cells * 8)
			default:
				inner = render.NewDualContouring2D(cells * 8)
			}
			r := &tee2{inner: inner}
			sink := rapid.SampledFrom([]string{"ToDXF", "buffer"}).Draw(t, "sink")
			var got []sdf.Line2
			var want []sdf.Line2
			if sink == "ToDXF" {
				path := tmpPath("dxf")
				quiet(func() { render.ToDXF(s, path, r) })
				f, err := fmtread.ReadDXF(path)
				if err != nil {
					rec.Violation(t, sink+":unreadable", "%s: %v", kind, err)
					return
				}
				for _, l := range f.Lines {
					got = append(got, sdf.Line2{v2.Vec{X: l.Start[0], Y: l.Start[1]}, v2.Vec{X: l.End[0], Y: l.End[1]}})
				}
				// the file carries 16 fixed decimals
				rd := func(x float64) float64 {
					v, _ := strconv.ParseFloat(strconv.FormatFloat(x, 'f', 16, 64), 64)
					return v
				}
				for _, l := range r.written {
					want = append(want, sdf.Line2{v2.Vec{X: rd(l[0].X), Y: rd(l[0].Y)}, v2.Vec{X: rd(l[1].X), Y: rd(l[1].Y)}})
				}
			} else {
				ch := make(chan []*sdf.Line2)
				done := make(chan struct{})
				go func() {
					defer close(done)
					for ls := range ch {
						for _, l := range ls {
							got = append(got, *l)
						}
					}
				}()
				r.Render(s, sdf.NewLine2Buffer(ch))
				close(ch)
				<-done
				want = r.written
			}
			n := len(r.written)
			rec.Case(n%T2 != 0, ev.Key(kind, sink, cells, a, b, round), "real:"+kind, "real:sink:"+sink, fmt.Sprintf("real:items-mod-T-nonzero=%v", n%T2 != 0), fmt.Sprintf("real:items>=T=%v", n >= T2), fmt.Sprintf("real:items=0:%v", n == 0))
			if r.closes != 1 || r.late != 0 {
				rec.Count(fmt.Sprintf("real:%s:closes=%d,writes-after-close=%d", kind, r.closes, r.late), 1)
			}
			if len(got) != len(want) {
				key := sink + ":real-renderer:count"
				if r.closes == 0 {
					key = kind + ":output-never-closed:items-lost"
				}
				rec.Violation(t, key, "%s(%d cells) wrote %d segments to its output in %d writes and closed it %d times, %s holds %d", kind, cells*8, len(want), r.writes, r.closes, sink, len(got))
				return
			}
			for i := range want {
				if got[i] != want[i] {
					rec.Violation(t, sink+":real-renderer:sequence", "%s(%d cells): item %d written as %v, %s holds %v", kind, cells*8, i, want[i], sink, got[i])
					return
				}
			}
		}
	})
}

// ---------------------------------------------------------------------------
// regression / fixed sweep (plain): every total 0..3T+2 written item by item,
// and in one batch, through the in-memory sinks; the threshold counts through
// every sink.

func TestRegress(t *testing.T) {
	rec := ev.Get()
	T3, T2 := calibrate()
	var replay script
	if ev.LoadReplay("TestRegress", &replay) {
		runPlain(t, rec, &replay)
		return
	}
	for _, dim := range []int{3, 2} {
		T, sinks := T3, sinks3
		if dim == 2 {
			T, sinks = T2, sinks2
		}
		for n := 0; n <= 3*T+2; n++ {
			ones := make([]int, n)
			for i := range ones {
				ones[i] = 1
			}
			for _, sink := range sinks {
				file := sink[:2] == "To" && sink != "ToTriangles"
				edge := n <= 2 || n%T <= 1 || n%T == T-1
				if file && !edge {
					continue
				}
				runPlain(t, rec, &script{Dim: dim, Sink: sink, Batches: [][]int{ones}, Yield: []int{0}})
				runPlain(t, rec, &script{Dim: dim, Sink: sink, Batches: [][]int{{n}}, Yield: []int{0}})
			}
		}
		// two and three producers around the threshold
		for _, sink := range sinks {
			for _, split := range [][]int{{T - 1, 1}, {T, 1}, {1, T}, {T/2 + 1, T / 2, 1}, {2*T + 1, T - 1, 3}} {
				var bs [][]int
				var ys []int
				for i, n := range split {
					if i%2 == 0 {
						bs = append(bs, []int{n})
					} else {
						ones := make([]int, n)
						for k := range ones {
							ones[k] = 1
						}
						bs = append(bs, ones)
					}
					ys = append(ys, i)
				}
				runPlain(t, rec, &script{Dim: dim, Sink: sink, Batches: bs, Yield: ys, NilEmpty: true})
			}
		}
	}
}

type plainTB struct {
	t   *testing.T
	rec *ev.Rec
	s   *script
}

func (p plainTB) Helper()                      { p.t.Helper() }
func (p plainTB) Logf(format string, a ...any) { p.t.Logf(format, a...) }
func (p plainTB) Fatalf(format string, a ...any) {
	p.t.Helper()
	msg := fmt.Sprintf(format, a...)
	path := ev.WriteReplay("TestRegress", "", p.s, msg)
	p.t.Fatalf("%s\nREPLAY-FILE: %s", msg, path)
}

func runPlain(t *testing.T, rec *ev.Rec, s *script) {
	t.Helper()
	runScript(plainTB{t, rec, s}, rec, s, []string{"regress"})
}

var _ = sort.Ints
