package c11

import (
	"fmt"
	"os"
	"path/filepath"
	"sync"
	"testing"

	"github.com/deadsy/sdfx/render"
	"github.com/deadsy/sdfx/sdf"
	"pgregory.net/rapid"

	"verif/internal/ev"
	"verif/internal/fmtread"
)

// ---------------------------------------------------------------------------
// histories on ONE writer object. A composite renderer (two solids into one
// file, a renderer that delegates to sub-renderers each of which closes the
// output, a caller that closes once more after Render returned) calls
// Write... Close Write... Close [Close] on the same buffer. What it wrote, in
// order, is still the model: every item once, in sequence.

type pass struct {
	Batches []int `json:"batches"`
	Closes  int   `json:"closes"` // Close calls at the end of the pass (1 or 2)
}

type history struct {
	Dim    int    `json:"dim"`
	Sink   string `json:"sink"`
	Passes []pass `json:"passes"`
}

func (h *history) total() int {
	n := 0
	for _, p := range h.Passes {
		for _, b := range p.Batches {
			n += b
		}
	}
	return n
}

type hist3 struct{ h *history }

func (r hist3) Info(sdf.SDF3) string { return "history" }
func (r hist3) Render(_ sdf.SDF3, out sdf.Triangle3Writer) {
	id := 0
	for _, p := range r.h.Passes {
		for _, b := range p.Batches {
			batch := make([]*sdf.Triangle3, b)
			for k := range batch {
				batch[k] = triOf(id)
				id++
			}
			out.Write(batch)
		}
		for c := 0; c < p.Closes; c++ {
			out.Close()
		}
	}
}

type hist2 struct{ h *history }

func (r hist2) Info(sdf.SDF2) string { return "history" }
func (r hist2) Render(_ sdf.SDF2, out sdf.Line2Writer) {
	id := 0
	for _, p := range r.h.Passes {
		for _, b := range p.Batches {
			batch := make([]*sdf.Line2, b)
			for k := range batch {
				batch[k] = segOf(id)
				id++
			}
			out.Write(batch)
		}
		for c := 0; c < p.Closes; c++ {
			out.Close()
		}
	}
}

func runHistory(h *history) *delivery {
	d := &delivery{}
	switch h.Sink {
	case "ToTriangles":
		for _, t := range render.ToTriangles(nil, hist3{h}) {
			d.addTri(triVals(t))
		}
	case "ToSTL":
		path := tmpPath("stl")
		quiet(func() { render.ToSTL(nil, path, hist3{h}) })
		f, err := fmtread.ReadSTL(path)
		if err != nil {
			d.note, d.noteKey = fmt.Sprintf("cannot read the file back: %v", err), "unreadable"
			return d
		}
		for _, t := range f.Tris {
			d.addTri([3][3]float64{f64(t.V[0]), f64(t.V[1]), f64(t.V[2])})
		}
		if !f.WellFormed() {
			d.note = fmt.Sprintf("count field %d, %d records in the file, size %d", f.Count, len(f.Tris), f.Size)
			d.noteKey = "count-field"
		}
	case "buffer3":
		ch := make(chan []*sdf.Triangle3)
		done := make(chan struct{})
		var kept [][]*sdf.Triangle3
		go func() {
			defer close(done)
			for ts := range ch {
				d.sends = append(d.sends, len(ts))
				kept = append(kept, ts)
			}
		}()
		hist3{h}.Render(nil, sdf.NewTriangle3Buffer(ch))
		close(ch)
		<-done
		for _, ts := range kept {
			for _, t := range ts {
				if t == nil {
					d.foreign = append(d.foreign, "nil")
					continue
				}
				d.addTri(triVals(t))
			}
		}
	case "collector3":
		// sdf.WriteTriangles, the in-memory collector behind ToTriangles, used directly: every pass is a
		// stream of its own (channel, buffer, wait group) into the SAME slice - a mesh assembled from
		// several parts; the slice may already hold items when the first stream is opened
		var mesh []*sdf.Triangle3
		id := 0
		for pi, p := range h.Passes {
			if pi == 0 && p.Closes > 1 {
				// pre-filled by the caller: the first pass's items are put there directly
				for _, b := range p.Batches {
					for k := 0; k < b; k++ {
						mesh = append(mesh, triOf(id))
						id++
					}
				}
				continue
			}
			var wg sync.WaitGroup
			ch := sdf.WriteTriangles(&wg, &mesh)
			w := sdf.NewTriangle3Buffer(ch)
			for _, b := range p.Batches {
				batch := make([]*sdf.Triangle3, b)
				for k := range batch {
					batch[k] = triOf(id)
					id++
				}
				w.Write(batch)
			}
			w.Close()
			close(ch)
			wg.Wait()
		}
		for _, t := range mesh {
			if t == nil {
				d.foreign = append(d.foreign, "nil")
				continue
			}
			d.addTri(triVals(t))
		}
	case "ToDXF":
		path := tmpPath("dxf")
		quiet(func() { render.ToDXF(nil, path, hist2{h}) })
		f, err := fmtread.ReadDXF(path)
		if err != nil {
			d.note, d.noteKey = fmt.Sprintf("cannot read the file back: %v", err), "unreadable"
			return d
		}
		for _, o := range f.Other {
			d.foreign = append(d.foreign, o)
		}
		for _, l := range f.Lines {
			d.addSeg(l.End[0]-l.Start[0], l.End[1]-l.Start[1], fmt.Sprint(l.Start, l.End))
		}
	case "buffer2":
		ch := make(chan []*sdf.Line2)
		done := make(chan struct{})
		var kept [][]*sdf.Line2
		go func() {
			defer close(done)
			for ls := range ch {
				d.sends = append(d.sends, len(ls))
				kept = append(kept, ls)
			}
		}()
		hist2{h}.Render(nil, sdf.NewLine2Buffer(ch))
		close(ch)
		<-done
		for _, ls := range kept {
			for _, l := range ls {
				if l == nil {
					d.foreign = append(d.foreign, "nil")
					continue
				}
				d.addSeg(l[1].X-l[0].X, l[1].Y-l[0].Y, fmt.Sprint(*l))
			}
		}
	default:
		panic("sink " + h.Sink)
	}
	return d
}

func checkHistory(t ev.TB, rec *ev.Rec, h *history, T int) {
	tails, doubles := 0, 0
	pos := 0
	for i, p := range h.Passes {
		for _, b := range p.Batches {
			pos += b
		}
		// the buffer holds a partial tail at a Close that is not the last one,
		// or is closed more than once while holding one
		n := 0
		for _, b := range p.Batches {
			n += b
		}
		if n > 0 && n%T != 0 {
			if i+1 < len(h.Passes) {
				tails++
			}
			if p.Closes > 1 {
				doubles++
			}
		}
	}
	nt := tails > 0 || doubles > 0
	pre := fmt.Sprintf("reuse:dim%d:", h.Dim)
	rec.Case(nt, ev.Key("reuse", h), pre+"sink:"+h.Sink, fmt.Sprintf(pre+"passes=%d", len(h.Passes)),
		fmt.Sprintf(pre+"close-with-partial-tail-then-more-writes=%v", tails > 0), fmt.Sprintf(pre+"double-close-on-partial-tail=%v", doubles > 0))
	if h.total() <= 600 {
		rec.Sample(pre+h.Sink, h)
	}
	d := runHistory(h)
	// single producer: judge with the one-producer script of the same total
	s := &script{Dim: h.Dim, Sink: h.Sink, Batches: [][]int{{h.total()}}, Yield: []int{0}}
	if key, msg := judge(s, d); key != "" {
		rec.Violation(t, h.Sink+":reuse:"+key, "%s, one writer over %d passes (Write... Close per pass): %s [T=%d; passes %+v]", h.Sink, len(h.Passes), msg, T, h.Passes)
	}
}

func TestWriterReuse(t *testing.T) {
	rec := ev.Get()
	T3, T2 := calibrate()
	var replay history
	if ev.LoadReplay("TestWriterReuse", &replay) {
		T := T3
		if replay.Dim == 2 {
			T = T2
		}
		checkHistory(t, rec, &replay, T)
		return
	}
	rapid.Check(t, func(t *rapid.T) {
		h := &history{}
		h.Sink = rapid.SampledFrom([]string{"ToTriangles", "ToSTL", "buffer3", "collector3", "ToDXF", "buffer2"}).Draw(t, "sink")
		h.Dim = 3
		T := T3
		if h.Sink == "ToDXF" || h.Sink == "buffer2" {
			h.Dim, T = 2, T2
		}
		np := rapid.IntRange(1, 4).Draw(t, "passes")
		budget := 6000
		for i := 0; i < np; i++ {
			n, _ := drawTotal(t, fmt.Sprintf("pass%d.total", i), T, budget)
			budget -= n
			bs, _ := drawPartition(t, fmt.Sprintf("pass%d", i), T, n)
			c := 1
			if rapid.IntRange(0, 3).Draw(t, fmt.Sprintf("pass%d.double-close", i)) == 0 {
				c = 2
			}
			h.Passes = append(h.Passes, pass{Batches: bs, Closes: c})
		}
		checkHistory(t, rec, h, T)
	})
}

// TestConcurrentSinks: several renders at once in one process, each with its own producer, writer and sink
// (a program that exports its parts in parallel). Every sink must hold exactly what ITS renderer wrote.
func TestConcurrentSinks(t *testing.T) {
	rec := ev.Get()
	T3, T2 := calibrate()
	rapid.Check(t, func(t *rapid.T) {
		k := rapid.IntRange(2, 6).Draw(t, "renders")
		dir, err := os.MkdirTemp("", "c11conc")
		if err != nil {
			t.Fatalf("tempdir: %v", err)
		}
		defer os.RemoveAll(dir)
		scripts := make([]*script, k)
		kinds := ""
		for i := range scripts {
			l := fmt.Sprintf("r%d", i)
			// (no DXF sink here: known finding C09:dxf:bytes-depend-on-concurrent-dxf-writers concerns the
			// dxf package's shared state under concurrent drawings)
			sink := rapid.SampledFrom([]string{"ToSTL", "ToSTL", "To3MF", "ToTriangles", "ToSVG"}).Draw(t, l+".sink")
			dim, T := 3, T3
			if sink == "ToSVG" {
				dim, T = 2, T2
			}
			n, _ := drawTotal(t, l+".total", T, 6000)
			if n < 3*T {
				n += 3 * T // several channel sends per render, so that the renders really overlap
			}
			bs, _ := drawPartition(t, l, T, n)
			ext := map[string]string{"ToSTL": "stl", "To3MF": "3mf", "ToSVG": "svg", "ToTriangles": "mem"}[sink]
			scripts[i] = &script{Dim: dim, Sink: sink, Batches: [][]int{bs}, Yield: []int{rapid.SampledFrom([]int{0, 1, 7}).Draw(t, l+".yield")}, Path: filepath.Join(dir, fmt.Sprintf("out%d.%s", i, ext))}
			kinds += sink + " "
		}
		out := make([]*delivery, k)
		var wg sync.WaitGroup
		quiet(func() {
			for i := range scripts {
				wg.Add(1)
				go func(i int) {
					defer wg.Done()
					if scripts[i].Dim == 3 {
						out[i] = run3(scripts[i])
					} else {
						out[i] = run2(scripts[i])
					}
				}(i)
			}
			wg.Wait()
		})
		rec.Case(true, ev.Key("concurrent-sinks", kinds, scripts), fmt.Sprintf("concurrent-sinks:renders=%d", k))
		for i, s := range scripts {
			rec.Label("concurrent-sinks:sink:" + s.Sink)
			if key, msg := judge(s, out[i]); key != "" {
				rec.Violation(t, s.Sink+":concurrent-sinks:"+key, "%d renders at once (%s); render %d into %s: %s", k, kinds, i, s.Sink, msg)
			}
		}
	})
}
