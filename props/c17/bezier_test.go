package c17

import (
	"fmt"
	"math"
	"sort"
	"testing"

	"github.com/deadsy/sdfx/sdf"
	v2 "github.com/deadsy/sdfx/vec/v2"
	"pgregory.net/rapid"

	"verif/internal/ev"
)

// ---------------------------------------------------------------------------
// Bezier specification = the list of builder calls

type bvert struct {
	X        float64 `json:"x"`
	Y        float64 `json:"y"`
	UseV2    bool    `json:"usev2,omitempty"`
	Mid      bool    `json:"mid,omitempty"`
	H        string  `json:"h,omitempty"` // "" | fwd | rev | both | handle
	FwdTheta float64 `json:"fwd_theta,omitempty"`
	FwdR     float64 `json:"fwd_r,omitempty"`
	RevTheta float64 `json:"rev_theta,omitempty"`
	RevR     float64 `json:"rev_r,omitempty"`
}

type bspec struct {
	V      []bvert `json:"v"`
	Closed bool    `json:"closed"`
	// Before counts renderings of the same Bezier object (Polygon / Mesh2D calls) made BEFORE the one
	// that is checked: the curve an object describes must not depend on how often it was rendered.
	Before int `json:"before,omitempty"`
}

func (s bspec) run() ([]pt, error) {
	b := sdf.NewBezier()
	for _, v := range s.V {
		var bv *sdf.BezierVertex
		if v.UseV2 {
			bv = b.AddV2(v2.Vec{X: v.X, Y: v.Y})
		} else {
			bv = b.Add(v.X, v.Y)
		}
		if v.Mid {
			bv.Mid()
		}
		switch v.H {
		case "fwd":
			bv.HandleFwd(v.FwdTheta, v.FwdR)
		case "rev":
			bv.HandleRev(v.RevTheta, v.RevR)
		case "both":
			bv.HandleFwd(v.FwdTheta, v.FwdR)
			bv.HandleRev(v.RevTheta, v.RevR)
		case "handle":
			bv.Handle(v.FwdTheta, v.FwdR, v.RevR)
		}
	}
	if s.Closed {
		b.Close()
	}
	for i := 0; i < s.Before; i++ {
		if i%2 == 0 {
			if _, err := b.Polygon(); err != nil {
				return nil, err
			}
		} else {
			// Mesh2D renders the curve and then builds a polygon shape from it; the latter legitimately
			// fails for open or two-vertex outlines, which is not this check's subject
			b.Mesh2D()
		}
	}
	p, err := b.Polygon()
	if err != nil {
		return nil, err
	}
	return fromV2(p.Vertices()), nil
}

// controlPolygons derives the control points of every span from the meaning of
// the builder calls: Add = end point of a span (joint), Mid = control point
// between two end points, HandleFwd(theta,r) = control point at polar offset
// (r,theta) from its end point, belonging to the span that leaves it,
// HandleRev = same for the span that arrives, Handle(theta,f,r) = forward at
// theta and reverse at theta+pi; Close = the curve returns to its first end
// point (control points given before the first end point belong to the closing
// span).
func (s bspec) controlPolygons() ([][]pt, error) {
	type item struct {
		p   pt
		mid bool
	}
	var items []item
	for i, v := range s.V {
		p := pt{v.X, v.Y}
		hasFwd := (v.H == "fwd" || v.H == "both" || v.H == "handle") && v.FwdR != 0
		hasRev := (v.H == "rev" || v.H == "both" || v.H == "handle") && v.RevR != 0
		if v.Mid && v.H != "" {
			return nil, fmt.Errorf("vertex %d: handle on a mid point", i)
		}
		revTheta := v.RevTheta
		if v.H == "handle" {
			revTheta = v.FwdTheta + math.Pi
		}
		if hasRev {
			items = append(items, item{p.add(polar(math.Abs(v.RevR), revTheta)), true})
		}
		items = append(items, item{p, v.Mid})
		if hasFwd {
			items = append(items, item{p.add(polar(math.Abs(v.FwdR), v.FwdTheta)), true})
		}
	}
	k := 0
	for k < len(items) && items[k].mid {
		k++
	}
	if k == len(items) {
		return nil, fmt.Errorf("no end point")
	}
	if k > 0 {
		if !s.Closed {
			return nil, fmt.Errorf("open curve starts with a control point")
		}
		items = append(append([]item{}, items[k:]...), items[:k]...)
	}
	last := items[len(items)-1]
	if s.Closed {
		d := last.p.dist(items[0].p)
		if last.mid || d != 0 || len(items) == 1 {
			if !last.mid && d <= 1e-6*math.Max(1, items[0].p.maxAbs()) && len(items) > 1 {
				return nil, fmt.Errorf("last end point almost equal to the first")
			}
			items = append(items, items[0])
		}
	} else if last.mid {
		return nil, fmt.Errorf("open curve ends with a control point")
	}
	var spans [][]pt
	cur := []pt{items[0].p}
	for _, it := range items[1:] {
		cur = append(cur, it.p)
		if !it.mid {
			if len(cur) > 5 {
				return nil, fmt.Errorf("span of degree %d", len(cur)-1)
			}
			deg := false
			for _, q := range cur[1:] {
				if q != cur[0] {
					deg = true
				}
			}
			if !deg {
				return nil, fmt.Errorf(errDegenerate)
			}
			spans = append(spans, cur)
			cur = []pt{it.p}
		}
	}
	if len(spans) == 0 {
		return nil, fmt.Errorf("no span")
	}
	return spans, nil
}

const errDegenerate = "span whose control points all coincide"

// deCasteljau evaluates the Bezier curve with the given control points.
func deCasteljau(cp []pt, t float64) pt {
	var w [5]pt
	n := copy(w[:], cp)
	for k := n - 1; k > 0; k-- {
		for i := 0; i < k; i++ {
			w[i] = pt{(1-t)*w[i].X + t*w[i+1].X, (1-t)*w[i].Y + t*w[i+1].Y}
		}
	}
	return w[0]
}

// dyadic depth of the oracle grid: the sampler only ever bisects [0,1]
// (its recursion stops at width 2^-9); one more level is allowed for.
const gridBits = 10
const gridN = 1 << gridBits

type gridPt struct {
	x, y float64
	g    int // global parameter index: span*gridN + j
}

// checkBezier: every output vertex is a point C_s(t) of some span (t = j/2^gridBits
// is tried first; a vertex that is on no grid point is projected onto the curve
// numerically, so a sampler that does not bisect is not reported), the
// parameters strictly increase along the output, every joint between spans is
// present, a straight span contributes only its end points, the first / last
// vertices are the first / last control points.
// Parameters are global: u = span + t.
// The int result counts vertices matched off the dyadic grid.
func checkBezier(spans [][]pt, out []pt) (verdict, float64, int) {
	S := len(spans)
	scale := 0.0
	for _, cp := range spans {
		for _, p := range cp {
			scale = math.Max(scale, p.maxAbs())
		}
	}
	tol := relTol * scale
	if len(out) < 2 {
		return violation("Bezier.Polygon:count", "polyline has %d vertices", len(out)), tol, 0
	}
	if !finite(out) {
		return violation("Bezier.Polygon:non-finite", "polyline contains NaN/Inf"), tol, 0
	}
	first, end := spans[0][0], spans[S-1][len(spans[S-1])-1]
	if d := out[0].dist(first); d > tol {
		return violation("Bezier.Polygon:first-vertex-not-first-control-point", "first vertex %v, first control point %v (off by %.3g, tol %.3g)", out[0], first, d, tol), tol, 0
	}
	if d := out[len(out)-1].dist(end); d > tol {
		return violation("Bezier.Polygon:last-vertex-not-end-control-point", "last vertex %v, end control point %v (off by %.3g, tol %.3g)", out[len(out)-1], end, d, tol), tol, 0
	}
	curve := make([]pt, 0, S*gridN+1) // curve[g], g = span*gridN + j
	for _, cp := range spans {
		for j := 0; j < gridN; j++ {
			curve = append(curve, deCasteljau(cp, float64(j)/gridN))
		}
	}
	curve = append(curve, end)
	grid := make([]gridPt, len(curve))
	for g, p := range curve {
		grid[g] = gridPt{p.X, p.Y, g}
	}
	sort.Slice(grid, func(i, j int) bool {
		if grid[i].x != grid[j].x {
			return grid[i].x < grid[j].x
		}
		return grid[i].g < grid[j].g
	})
	eval := func(u float64) pt {
		s := int(math.Floor(u))
		if s >= S {
			return end
		}
		return deCasteljau(spans[s], u-float64(s))
	}
	cand := make([][]float64, len(out))
	offGrid := 0
	for k, v := range out {
		lo := sort.Search(len(grid), func(i int) bool { return grid[i].x >= v.X-tol })
		for i := lo; i < len(grid) && grid[i].x <= v.X+tol; i++ {
			if math.Hypot(grid[i].x-v.X, grid[i].y-v.Y) <= tol {
				cand[k] = append(cand[k], float64(grid[i].g)/gridN)
			}
		}
		if len(cand[k]) == 0 {
			// not a dyadic parameter: project onto the curve inside every grid interval that passes nearby
			best, bg := math.Inf(1), 0
			for g := 0; g+1 < len(curve); g++ {
				d0, d1 := curve[g].dist(v), curve[g+1].dist(v)
				if d0 < best {
					best, bg = d0, g
				}
				if math.Min(d0, d1) > 2*curve[g].dist(curve[g+1])+tol {
					continue
				}
				a, b := float64(g)/gridN, float64(g+1)/gridN
				for it := 0; it < 80; it++ { // golden section on the distance
					m1, m2 := b-(b-a)*0.6180339887498949, a+(b-a)*0.6180339887498949
					if eval(m1).dist(v) < eval(m2).dist(v) {
						b = m2
					} else {
						a = m1
					}
				}
				if u := (a + b) / 2; eval(u).dist(v) <= tol {
					cand[k] = append(cand[k], u)
				}
			}
			if len(cand[k]) == 0 {
				return violation("Bezier.Polygon:vertex-not-on-curve", "vertex %d %v is on no span: nearest grid point is span %d t=%d/%d at distance %.3g (tol %.3g)", k, v, bg/gridN, bg%gridN, gridN, best, tol), tol, 0
			}
			offGrid++
		}
		sort.Float64s(cand[k])
	}
	linear := make([]bool, S)
	for s, cp := range spans {
		linear[s] = len(cp) == 2
	}
	// level 0: strictly increasing parameters; 1: + no joint skipped; 2: + nothing inside a straight span
	feasible := func(level int) (int, bool) {
		var reach []float64
		for _, u := range cand[0] {
			if u == 0 {
				reach = []float64{0}
			}
		}
		if reach == nil {
			return 0, false
		}
		for k := 1; k < len(out); k++ {
			var next []float64
			for _, u := range cand[k] {
				if level >= 2 && u != math.Floor(u) && linear[int(math.Floor(u))] {
					continue
				}
				for _, up := range reach {
					if up >= u {
						break
					}
					if level >= 1 && math.Floor(up)+1 < u {
						continue // a joint lies strictly between up and u
					}
					next = append(next, u)
					break
				}
			}
			if len(next) == 0 {
				return k, false
			}
			reach = next
		}
		for _, u := range reach {
			if u == float64(S) {
				return 0, true
			}
		}
		return len(out) - 1, false
	}
	keys := []string{
		"Bezier.Polygon:parameters-not-strictly-increasing",
		"Bezier.Polygon:joint-between-spans-missing",
		"Bezier.Polygon:straight-span-subdivided",
	}
	for level, key := range keys {
		if k, ok := feasible(level); !ok {
			return violation(key, "no assignment of curve parameters to the %d vertices satisfies the rule; first conflict at vertex %d %v (candidate parameters span+t: %v, previous vertex: %v)", len(out), k, out[k], cand[k], cand[max(k-1, 0)]), tol, offGrid
		}
	}
	return verdict{}, tol, offGrid
}

// ---------------------------------------------------------------------------
// generator

func TestBezier(t *testing.T) {
	rec := ev.Get()
	rapid.Check(t, func(t *rapid.T) {
		S := length(t, "S", 0.1, 100)
		nsp := rapid.SampledFrom([]int{1, 1, 2, 2, 3, 3, 4, 5, 6}).Draw(t, "spans")
		mode := rapid.SampledFrom([]string{"open", "open", "closed-implicit", "closed-explicit", "closed-leading-mid"}).Draw(t, "mode")
		closed := mode != "open"
		// end points
		nE := nsp + 1
		if closed {
			nE = nsp
		}
		E := make([]pt, nE)
		E[0] = pt{coord(t, "e0.x", 5*S), coord(t, "e0.y", 5*S)}
		for i := 1; i < nE; i++ {
			l := fmt.Sprintf("e%d", i)
			E[i] = E[i-1].add(polar(S*logUni(t, l+".len", 0.1, 5), angle(t, l+".dir")))
		}
		if closed && nE > 1 && E[nE-1].dist(E[0]) < 0.01*S {
			rec.Count("discarded:bezier:closing-span-too-short", 1)
			t.Skip("closing span too short")
		}
		endOf := func(s int) int { // index of the end point object of span s
			if closed {
				return (s + 1) % nE
			}
			return s + 1
		}
		// degree and style of every span
		type spanPlan struct {
			deg      int
			fwd, rev bool
			mids     []pt
			style    string
		}
		plans := make([]spanPlan, nsp)
		for s := range plans {
			l := fmt.Sprintf("s%d", s)
			p := &plans[s]
			p.deg = rapid.SampledFrom([]int{1, 2, 2, 3, 3, 3, 4, 4}).Draw(t, l+".deg")
			if closed && nsp == 1 && p.deg < 2 {
				p.deg = 2 + rapid.IntRange(0, 2).Draw(t, l+".loopdeg")
			}
			inner := p.deg - 1
			style := "mids"
			if inner > 0 {
				style = rapid.SampledFrom([]string{"mids", "handles", "handles", "mixed"}).Draw(t, l+".style")
			}
			switch style {
			case "handles":
				switch inner {
				case 1:
					if rapid.Bool().Draw(t, l+".which") {
						p.fwd = true
					} else {
						p.rev = true
					}
				case 2:
					p.fwd, p.rev = true, true
				default: // a quartic cannot be given by handles alone
					p.fwd, p.rev = true, true
					style = "mixed"
				}
			case "mixed":
				switch inner {
				case 1:
					style = "mids"
				default:
					switch rapid.IntRange(0, 2).Draw(t, l+".mix") {
					case 0:
						p.fwd = true
					case 1:
						p.rev = true
					default:
						if inner >= 3 {
							p.fwd, p.rev = true, true
						} else {
							p.fwd = true
						}
					}
				}
			}
			nm := inner
			if p.fwd {
				nm--
			}
			if p.rev {
				nm--
			}
			a, b := E[s], E[endOf(s)%nE]
			span := math.Max(a.dist(b), 0.2*S)
			for j := 0; j < nm; j++ {
				ml := fmt.Sprintf("%s.m%d", l, j)
				c := a.add(b.sub(a).mul(float64(j+1) / float64(nm+1)))
				p.mids = append(p.mids, c.add(pt{coord(t, ml+".x", 1.5*span), coord(t, ml+".y", 1.5*span)}))
			}
			if p.deg == 1 {
				style = "linear"
			}
			p.style = style
		}
		// vertex objects handed to the builder
		nObj := nE
		if mode == "closed-explicit" || !closed {
			nObj = nsp + 1
		}
		objs := make([]bvert, nObj)
		fwdOf := make([]bool, nObj)
		revOf := make([]bool, nObj)
		for i := range objs {
			e := E[i%nE]
			objs[i] = bvert{X: e.X, Y: e.Y, UseV2: rapid.Bool().Draw(t, fmt.Sprintf("o%d.usev2", i))}
		}
		for s, p := range plans {
			if p.fwd {
				fwdOf[s] = true
			}
			if p.rev {
				eo := s + 1
				if nObj == nE && closed {
					eo = (s + 1) % nE
				}
				revOf[eo] = true
			}
		}
		for i := range objs {
			l := fmt.Sprintf("o%d", i)
			o := &objs[i]
			hr := func(l string) float64 { return S * logUni(t, l, 0.01, 5) }
			switch {
			case fwdOf[i] && revOf[i]:
				if rapid.Bool().Draw(t, l+".collinear") {
					o.H, o.FwdTheta, o.FwdR, o.RevR = "handle", angle(t, l+".theta"), hr(l+".fr"), hr(l+".rr")
				} else {
					o.H, o.FwdTheta, o.FwdR, o.RevTheta, o.RevR = "both", angle(t, l+".ftheta"), hr(l+".fr"), angle(t, l+".rtheta"), hr(l+".rr")
				}
			case fwdOf[i]:
				// one-sided: through HandleFwd alone, or through the two-sided calls with a ZERO-LENGTH
				// handle on the other side (documented as "no handle", whatever angle it carries)
				switch rapid.IntRange(0, 3).Draw(t, l+".one-sided-via") {
				case 0:
					o.H, o.FwdTheta, o.FwdR, o.RevR = "handle", angle(t, l+".theta"), hr(l+".fr"), 0
				case 1:
					o.H, o.FwdTheta, o.FwdR, o.RevTheta, o.RevR = "both", angle(t, l+".ftheta"), hr(l+".fr"), angle(t, l+".rtheta"), 0
				default:
					o.H, o.FwdTheta, o.FwdR = "fwd", angle(t, l+".ftheta"), hr(l+".fr")
				}
			case revOf[i]:
				switch rapid.IntRange(0, 3).Draw(t, l+".one-sided-via") {
				case 0:
					o.H, o.FwdTheta, o.FwdR, o.RevR = "handle", angle(t, l+".theta"), 0, hr(l+".rr")
				case 1:
					o.H, o.FwdTheta, o.FwdR, o.RevTheta, o.RevR = "both", angle(t, l+".ftheta"), 0, angle(t, l+".rtheta"), hr(l+".rr")
				default:
					o.H, o.RevTheta, o.RevR = "rev", angle(t, l+".rtheta"), hr(l+".rr")
				}
			default:
				// no handle at all: sometimes said with zero-length handles at some angle
				if rapid.IntRange(0, 5).Draw(t, l+".zero-handles") == 0 {
					o.H, o.FwdTheta, o.FwdR, o.RevTheta, o.RevR = "both", angle(t, l+".ftheta"), 0, angle(t, l+".rtheta"), 0
				}
			}
		}
		// expected control polygons, straight from the plan
		fwdCP := func(o bvert) pt { return pt{o.X, o.Y}.add(polar(o.FwdR, o.FwdTheta)) }
		revCP := func(o bvert) pt {
			th := o.RevTheta
			if o.H == "handle" {
				th = o.FwdTheta + math.Pi
			}
			return pt{o.X, o.Y}.add(polar(o.RevR, th))
		}
		want := make([][]pt, nsp)
		for s, p := range plans {
			eo := s + 1
			if nObj == nE && closed {
				eo = (s + 1) % nE
			}
			cp := []pt{E[s]}
			if p.fwd {
				cp = append(cp, fwdCP(objs[s]))
			}
			cp = append(cp, p.mids...)
			if p.rev {
				cp = append(cp, revCP(objs[eo]))
			}
			cp = append(cp, E[eo%nE])
			want[s] = cp
			ext := 0.0
			for _, q := range cp[1:] {
				ext = math.Max(ext, q.dist(cp[0]))
			}
			if ext < 1e-3*S {
				// all control points within 1e-3 of the model size: the span is a point for CAD purposes
				rec.Count("discarded:bezier:span-is-a-point", 1)
				t.Skip("degenerate span")
			}
		}
		// builder call list
		var spec bspec
		spec.Closed = closed
		mid := func(p pt) bvert { return bvert{X: p.X, Y: p.Y, Mid: true} }
		lead := 0
		closing := plans[nsp-1].mids
		if mode == "closed-leading-mid" && len(closing) > 0 {
			lead = rapid.IntRange(1, len(closing)).Draw(t, "leading")
			for _, m := range closing[len(closing)-lead:] {
				spec.V = append(spec.V, mid(m))
			}
		}
		for i := range objs {
			spec.V = append(spec.V, objs[i])
			if i < nsp {
				ms := plans[i].mids
				if i == nsp-1 && lead > 0 {
					ms = ms[:len(ms)-lead]
				}
				for _, m := range ms {
					spec.V = append(spec.V, mid(m))
				}
			}
		}
		// the object may already have been rendered (Polygon / Mesh2D) before the rendering that is checked
		spec.Before = []int{0, 0, 1, 2}[rapid.IntRange(0, 3).Draw(t, "rendered-before")]
		rec.Add(fmt.Sprintf("bezier:rendered-before=%d", spec.Before), 1)
		runBezierCase(t, rec, spec, want, mode, func(s int) string { return plans[s].style })
	})
}

func runBezierCase(t *rapid.T, rec *ev.Rec, spec bspec, want [][]pt, mode string, style func(int) string) {
	spans, err := spec.controlPolygons()
	if err != nil && err.Error() == errDegenerate {
		rec.Count("discarded:bezier:span-is-a-point", 1)
		t.Skip(errDegenerate)
	}
	if err != nil {
		t.Fatalf("ORACLE-BUG: generated spec is out of the interpreter's domain: %v\n%+v", err, spec)
	}
	// the two derivations of the control polygons (generator plan, interpreter of the calls) must agree
	if len(spans) != len(want) {
		t.Fatalf("ORACLE-BUG: interpreter found %d spans, plan has %d\n%+v", len(spans), len(want), spec)
	}
	for s := range spans {
		if len(spans[s]) != len(want[s]) {
			t.Fatalf("ORACLE-BUG: span %d: interpreter degree %d, plan %d\n%+v", s, len(spans[s])-1, len(want[s])-1, spec)
		}
		for i := range spans[s] {
			if spans[s][i].dist(want[s][i]) > 1e-12*math.Max(1, want[s][i].maxAbs()) {
				t.Fatalf("ORACLE-BUG: span %d control point %d: interpreter %v, plan %v\n%+v", s, i, spans[s][i], want[s][i], spec)
			}
		}
	}
	out, err := spec.run()
	if err != nil {
		rec.Violation(t, "Bezier.Polygon:error-on-valid-curve", "Polygon() = %v for %+v", err, spec)
		return
	}
	v, tol, offGrid := checkBezier(spans, out)
	if offGrid > 0 {
		rec.Add("bezier:vertices-at-non-dyadic-parameter", int64(offGrid))
	}
	if v.key != "" {
		rec.Violation(t, v.key, "%s\nspec: %+v\ncontrol polygons: %v\noutput (%d): %v", v.msg, spec, spans, len(out), out)
		return
	}
	labels := []string{"bezier:mode=" + mode, fmt.Sprintf("bezier:spans=%d", len(spans))}
	curved := 0
	for s, cp := range spans {
		labels = append(labels, fmt.Sprintf("bezier:span:degree=%d", len(cp)-1), "bezier:span:given-by="+style(s))
		if len(cp) > 2 {
			curved++
		}
	}
	per := float64(len(out)-1) / float64(len(spans))
	switch {
	case per <= 1:
		labels = append(labels, "bezier:vertices-per-span=1")
	case per <= 8:
		labels = append(labels, "bezier:vertices-per-span=1-8")
	case per <= 64:
		labels = append(labels, "bezier:vertices-per-span=8-64")
	default:
		labels = append(labels, "bezier:vertices-per-span>64")
	}
	nt := len(out) > len(spans)+1
	rec.Case(nt, fmt.Sprintf("%+v", spec), labels...)
	rec.Sample("bezier:"+mode, map[string]any{"spec": spec, "vertices_out": len(out), "tolerance": tol})
}
