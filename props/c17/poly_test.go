package c17

import (
	"fmt"
	"math"
	"testing"

	"github.com/deadsy/sdfx/sdf"
	v2 "github.com/deadsy/sdfx/vec/v2"
	"pgregory.net/rapid"

	"verif/internal/ev"
)

// ---------------------------------------------------------------------------
// polygon specification = the list of builder calls

type vspec struct {
	Kind       string  `json:"kind"`                 // abs | rel | polar | relpolar
	A          float64 `json:"a"`                    // x | dx | r
	B          float64 `json:"b"`                    // y | dy | theta
	UseV2      bool    `json:"usev2,omitempty"`      // AddV2 instead of Add
	PolarFirst bool    `json:"polarfirst,omitempty"` // Polar().Rel() instead of Rel().Polar()
	Mod        string  `json:"mod,omitempty"`        // "" | smooth | chamfer | arc
	R          float64 `json:"r,omitempty"`          // radius (smooth, arc) or size (chamfer)
	Facets     int     `json:"facets,omitempty"`
}

type pspec struct {
	V       []vspec `json:"v"`
	Closed  bool    `json:"closed"`
	Reverse bool    `json:"reverse"`
}

// run feeds the specification to the library and returns Vertices().
func (s pspec) run() []pt {
	p := sdf.NewPolygon()
	for _, v := range s.V {
		var pv *sdf.PolygonVertex
		if v.UseV2 {
			pv = p.AddV2(v2.Vec{X: v.A, Y: v.B})
		} else {
			pv = p.Add(v.A, v.B)
		}
		switch v.Kind {
		case "rel":
			pv.Rel()
		case "polar":
			pv.Polar()
		case "relpolar":
			if v.PolarFirst {
				pv.Polar().Rel()
			} else {
				pv.Rel().Polar()
			}
		}
		switch v.Mod {
		case "smooth":
			pv.Smooth(v.R, v.Facets)
		case "chamfer":
			pv.Chamfer(v.R)
		case "arc":
			pv.Arc(v.R, v.Facets)
		}
	}
	if s.Closed {
		p.Close()
	}
	if s.Reverse {
		p.Reverse()
	}
	// reading the vertices twice must give the same list: the builder's state after the first
	// expansion (smoothing, arcs, relative -> absolute) must not leak into the second
	first := fromV2(p.Vertices())
	second := fromV2(p.Vertices())
	if len(first) != len(second) {
		return second
	}
	for i := range first {
		if first[i] != second[i] {
			return second
		}
	}
	return first
}

// ---------------------------------------------------------------------------
// reference model

const (
	stNone   = iota // ordinary vertex
	stKeep          // fillet does not fit the original edges: must stay
	stFillet        // fits whatever the neighbours do: must be replaced
	stEither        // competes with a neighbouring fillet for an edge
)

// qv is one element of the polygon after relative/polar resolution and arc
// expansion: a specified vertex or an interior point of an arc.
type qv struct {
	p    pt
	src  int    // index of the specifying vertex
	what string // "vertex" | "arc"
	api  string // API named in violation keys for a wrong position
	// arc interior point: circle it must lie on
	ac pt
	ar float64
	// smoothing request
	smooth bool
	sapi   string // Polygon.Smooth | Polygon.Chamfer
	r      float64
	facets int
	// derived corner geometry
	hasNb     bool
	theta     float64 // corner angle between the adjacent edges
	d         float64 // vertex -> tangent point, r/tan(theta/2)
	lp, ln    float64 // adjacent edge lengths
	c, t0, t1 pt      // centre and tangent points
	left      bool    // path turns left at this vertex
	status    int
	shortPrev bool
	shortNext bool
}

type polyModel struct {
	spec  pspec
	P     []pt // resolved absolute positions of the specified vertices
	Q     []qv
	alt   int // >0: Q rotated left by alt is an equally valid order (arc into vertex 0 of a closed polygon)
	scale float64
	tol   float64
}

// resolve computes absolute vertex positions by own accumulation.
func (s pspec) resolve() ([]pt, error) {
	P := make([]pt, len(s.V))
	for i, v := range s.V {
		var q pt
		switch v.Kind {
		case "abs", "rel":
			q = pt{v.A, v.B}
		case "polar", "relpolar":
			q = polar(v.A, v.B)
		default:
			return nil, fmt.Errorf("bad kind %q", v.Kind)
		}
		if v.Kind == "rel" || v.Kind == "relpolar" {
			if i == 0 {
				return nil, fmt.Errorf("first vertex is relative (no reference): out of domain")
			}
			q = P[i-1].add(q)
		}
		P[i] = q
	}
	return P, nil
}

// arcInterior returns the facets-1 interior points of the circular arc from a
// to b with radius |r|: the centre lies on the right of a->b for r>0 (left for
// r<0), the arc is the minor one, the points divide it into equal angles.
func arcInterior(a, b pt, r float64, facets int) (pts []pt, centre pt, err error) {
	w := b.sub(a)
	h := w.norm() / 2
	R := math.Abs(r)
	// (R == h exactly is the semicircle: centre in the middle of the chord, no square root of a difference)
	if !(R >= h*(1+1e-7) || R == h) || h == 0 {
		return nil, pt{}, fmt.Errorf("arc radius %v below half chord %v: out of domain", R, h)
	}
	side := 1.0
	if r < 0 {
		side = -1
	}
	m := a.add(b).mul(0.5)
	nR := pt{w.Y, -w.X}.unit() // right-hand normal of a->b
	centre = m.add(nR.mul(side * math.Sqrt((R-h)*(R+h))))
	// centre on the right => the minor arc from a to b runs clockwise
	sweep := -side * 2 * math.Asin(h/R)
	ra := a.sub(centre)
	for j := 1; j < facets; j++ {
		pts = append(pts, centre.add(rot(ra, sweep*float64(j)/float64(facets))))
	}
	return pts, centre, nil
}

func buildModel(s pspec) (*polyModel, verdict) {
	m := &polyModel{spec: s}
	P, err := s.resolve()
	if err != nil {
		return nil, verdict{skip: "domain:" + err.Error()}
	}
	m.P = P
	n := len(P)
	scale := 0.0
	for _, p := range P {
		scale = math.Max(scale, p.maxAbs())
	}
	for i, v := range s.V {
		api := "Polygon.Add"
		switch v.Kind {
		case "rel":
			api = "Polygon.Rel"
		case "polar":
			api = "Polygon.Polar"
		case "relpolar":
			api = "Polygon.RelPolar"
		}
		if v.Mod == "arc" && v.R != 0 && v.Facets != 0 && (i > 0 || s.Closed) {
			a, b := P[(i-1+n)%n], P[i]
			pts, c, err := arcInterior(a, b, v.R, v.Facets)
			if err != nil {
				return nil, verdict{skip: "domain:arc-radius"}
			}
			scale = math.Max(scale, math.Abs(v.R))
			scale = math.Max(scale, c.maxAbs())
			for _, q := range pts {
				m.Q = append(m.Q, qv{p: q, src: i, what: "arc", api: "Polygon.Arc", ac: c, ar: math.Abs(v.R)})
			}
			if i == 0 {
				m.alt = len(pts)
			}
		}
		e := qv{p: P[i], src: i, what: "vertex", api: api}
		switch v.Mod {
		case "smooth":
			if v.R != 0 && v.Facets != 0 {
				e.smooth, e.sapi, e.r, e.facets = true, "Polygon.Smooth", v.R, v.Facets
			}
		case "chamfer":
			if v.R != 0 {
				e.smooth, e.sapi, e.r, e.facets = true, "Polygon.Chamfer", v.R/math.Sqrt2, 1
			}
		}
		m.Q = append(m.Q, e)
	}
	// corner geometry of every smoothing request
	nq := len(m.Q)
	nb := func(i int) (int, int, bool) {
		if s.Closed {
			return (i - 1 + nq) % nq, (i + 1) % nq, true
		}
		if i == 0 || i == nq-1 {
			return 0, 0, false
		}
		return i - 1, i + 1, true
	}
	for i := range m.Q {
		e := &m.Q[i]
		if !e.smooth {
			continue
		}
		ip, in, ok := nb(i)
		if !ok {
			// end of an open polygon: no adjacent edges, nothing to be tangent to
			return nil, verdict{skip: "domain:smooth-at-open-end"}
		}
		e.hasNb = true
		ep, en := m.Q[ip].p.sub(e.p), m.Q[in].p.sub(e.p)
		e.lp, e.ln = ep.norm(), en.norm()
		if e.lp == 0 || e.ln == 0 {
			return nil, verdict{skip: "domain:zero-length-edge"}
		}
		u0, u1 := ep.unit(), en.unit()
		e.theta = math.Abs(angleBetween(u0, u1))
		if e.theta < rad(0.5)*(1-1e-9) || e.theta > rad(179.5)*(1+1e-9) {
			return nil, verdict{skip: "domain:corner-angle"}
		}
		e.left = ep.mul(-1).cross(en) > 0
		e.d = e.r / math.Tan(e.theta/2)
		e.c = e.p.add(u0.add(u1).unit().mul(e.r / math.Sin(e.theta/2)))
		e.t0 = e.p.add(u0.mul(e.d))
		e.t1 = e.p.add(u1.mul(e.d))
		// is the request decidable with respect to the full edges?
		e.shortPrev = e.d > e.lp*(1+fitBand)
		e.shortNext = e.d > e.ln*(1+fitBand)
		if e.shortPrev || e.shortNext {
			e.status = stKeep
			continue
		}
		if e.d > e.lp*(1-fitBand) || e.d > e.ln*(1-fitBand) {
			return nil, verdict{skip: "band:fit-boundary"}
		}
		e.status = stFillet // refined below
		scale = math.Max(scale, math.Max(e.d, e.r))
		scale = math.Max(scale, e.c.maxAbs())
	}
	// competition: a neighbouring request that may be honoured consumes its
	// tangent distance of the shared edge
	for i := range m.Q {
		e := &m.Q[i]
		if e.status != stFillet {
			continue
		}
		ip, in, _ := nb(i)
		cp, cn := 0.0, 0.0
		if q := m.Q[ip]; q.smooth && q.status != stKeep {
			cp = q.d
		}
		if q := m.Q[in]; q.smooth && q.status != stKeep {
			cn = q.d
		}
		if cp == 0 && cn == 0 {
			continue
		}
		// when a neighbour's fillet ends close to this vertex the direction of the
		// shortened edge (hence theta and d) is only known to relErr
		if !(e.d*(1+m.relErr(e, e.lp-cp, e.ln-cn, scale)) <= (e.lp-cp)*(1-fitBand) && e.d*(1+m.relErr(e, e.lp-cp, e.ln-cn, scale)) <= (e.ln-cn)*(1-fitBand)) {
			e.status = stEither
		}
	}
	// oracle self-consistency: tangent points at distance r from the centre, radius perpendicular to the edge
	for i := range m.Q {
		e := &m.Q[i]
		if !e.smooth || e.status == stKeep {
			continue
		}
		for k, tp := range []pt{e.t0, e.t1} {
			u := tp.sub(e.p).unit()
			if math.Abs(tp.dist(e.c)-e.r) > 1e-11*scale || math.Abs(tp.sub(e.c).dot(u)) > 1e-11*scale {
				return nil, violation("ORACLE-BUG", "tangent point %d of vertex %d inconsistent: |t-c|=%v r=%v (t-c).u=%v", k, e.src, tp.dist(e.c), e.r, tp.sub(e.c).dot(u))
			}
		}
	}
	m.scale = scale
	m.tol = relTol * scale
	return m, verdict{}
}

// relErr bounds the relative error of the tangent distance of e when its
// neighbours sit at distances remP / remN (tangent points of neighbouring
// fillets): their coordinates carry ~1e-15*scale of rounding, which tilts the
// edge direction by that over the distance, and d'(theta)/d = -1/sin(theta).
func (m *polyModel) relErr(e *qv, remP, remN, scale float64) float64 {
	inv := 0.0
	if remP > 0 {
		inv += 1 / remP
	}
	if remN > 0 {
		inv += 1 / remN
	}
	return 1e-14 * scale * inv / math.Sin(e.theta)
}

// matchFillet checks that seg is the fillet of e: facets+1 points on the circle,
// first and last the tangent points, monotone in angle.
func (e *qv) matchFillet(seg []pt, tol float64) verdict {
	if d := seg[0].dist(e.t0); d > tol {
		return violation(e.sapi+":first-point-not-tangent-point", "vertex %d %v r=%v facets=%d theta=%.6g deg: first point %v, tangent point on previous edge %v (off by %.3g, tol %.3g)", e.src, e.p, e.r, e.facets, deg(e.theta), seg[0], e.t0, d, tol)
	}
	k := len(seg) - 1
	if d := seg[k].dist(e.t1); d > tol {
		return violation(e.sapi+":last-point-not-tangent-point", "vertex %d %v r=%v facets=%d theta=%.6g deg: last point %v, tangent point on next edge %v (off by %.3g, tol %.3g)", e.src, e.p, e.r, e.facets, deg(e.theta), seg[k], e.t1, d, tol)
	}
	for j, q := range seg {
		if d := math.Abs(q.dist(e.c) - e.r); d > tol {
			return violation(e.sapi+":point-off-circle", "vertex %d %v r=%v facets=%d theta=%.6g deg: point %d %v at distance %v from centre %v (off by %.3g, tol %.3g)", e.src, e.p, e.r, e.facets, deg(e.theta), j, q, q.dist(e.c), e.c, d, tol)
		}
	}
	// angular order: every step turns the same way as the whole sweep t0 -> t1
	sweep := angleBetween(e.t0.sub(e.c), e.t1.sub(e.c))
	dir := 1.0
	if sweep < 0 {
		dir = -1
	}
	sum := 0.0
	for j := 0; j < k; j++ {
		st := angleBetween(seg[j].sub(e.c), seg[j+1].sub(e.c))
		if !(st*dir > 0) {
			return violation(e.sapi+":angular-order", "vertex %d %v r=%v facets=%d: step %d turns by %v rad, sweep is %v rad", e.src, e.p, e.r, e.facets, j, st, sweep)
		}
		sum += st
	}
	// the end points were matched as points; the only thing left to exclude is a detour by whole turns
	if math.Abs(sum-sweep) > 0.5 {
		return violation(e.sapi+":angular-order", "vertex %d %v r=%v facets=%d: steps add to %v rad, sweep is %v rad", e.src, e.p, e.r, e.facets, sum, sweep)
	}
	return verdict{}
}

// walk compares the library output with the model taken in the given order.
// filleted[i] reports what happened to Q[i].
func (m *polyModel) walk(order []int, out []pt) (verdict, []bool) {
	tol := m.tol
	filleted := make([]bool, len(m.Q))
	idx := 0
	for _, qi := range order {
		e := &m.Q[qi]
		expectFillet := e.smooth && (e.status == stFillet || e.status == stEither)
		if e.smooth && e.status == stEither && idx < len(out) && out[idx].dist(e.p) <= tol {
			expectFillet = false
		}
		if !expectFillet {
			if idx >= len(out) {
				return violation("Polygon.Vertices:count", "output has %d vertices, model expects more (next: %s of spec vertex %d)", len(out), e.what, e.src), nil
			}
			if d := out[idx].dist(e.p); d > tol {
				switch {
				case e.what == "arc":
					if off := math.Abs(out[idx].dist(e.ac) - e.ar); off > tol {
						return violation("Polygon.Arc:point-off-circle", "arc into spec vertex %d: output[%d]=%v at distance %v from centre %v, radius %v", e.src, idx, out[idx], out[idx].dist(e.ac), e.ac, e.ar), nil
					}
					return violation("Polygon.Arc:point-position-on-circle", "arc into spec vertex %d: output[%d]=%v, expected %v (off by %.3g, tol %.3g)", e.src, idx, out[idx], e.p, d, tol), nil
				case e.smooth:
					return violation(e.sapi+":changed-although-fillet-does-not-fit", "vertex %d %v r=%v theta=%.6g deg d=%v edges %v %v: output[%d]=%v", e.src, e.p, e.r, deg(e.theta), e.d, e.lp, e.ln, idx, out[idx]), nil
				default:
					return violation(e.api+":position", "spec vertex %d: output[%d]=%v, expected %v (off by %.3g, tol %.3g)", e.src, idx, out[idx], e.p, d, tol), nil
				}
			}
			idx++
			continue
		}
		if idx < len(out) && out[idx].dist(e.p) <= tol {
			return violation(e.sapi+":unchanged-although-fillet-fits", "vertex %d %v r=%v facets=%d theta=%.6g deg tangent distance %v, edges %v %v: vertex left as is", e.src, e.p, e.r, e.facets, deg(e.theta), e.d, e.lp, e.ln), nil
		}
		if idx+e.facets+1 > len(out) {
			return violation("Polygon.Vertices:count", "output has %d vertices, fillet of spec vertex %d (facets %d) starting at %d does not fit in it", len(out), e.src, e.facets, idx), nil
		}
		if v := e.matchFillet(out[idx:idx+e.facets+1], tol); v.key != "" {
			return v, nil
		}
		filleted[qi] = true
		idx += e.facets + 1
	}
	if idx != len(out) {
		return violation("Polygon.Vertices:count", "output has %d vertices, model accounts for %d", len(out), idx), nil
	}
	return verdict{}, filleted
}

// check is the complete polygon oracle.
func (m *polyModel) check(out []pt) (verdict, []bool) {
	if !finite(out) {
		return violation("Polygon.Vertices:non-finite", "output contains NaN/Inf: %v", out), nil
	}
	nq := len(m.Q)
	orders := [][]int{make([]int, nq)}
	for i := range orders[0] {
		orders[0][i] = i
	}
	if m.alt > 0 && m.spec.Closed {
		o := make([]int, nq)
		for i := range o {
			o[i] = (i + m.alt) % nq
		}
		orders = append(orders, o)
	}
	fwd := out
	if m.spec.Reverse {
		fwd = make([]pt, len(out))
		for i, p := range out {
			fwd[len(out)-1-i] = p
		}
	}
	var first verdict
	var fil []bool
	ok := false
	for k, o := range orders {
		v, f := m.walk(o, fwd)
		if v.key == "" {
			ok, fil = true, f
			break
		}
		if k == 0 {
			first = v
		}
	}
	if !ok {
		if m.spec.Reverse {
			// does the output match when it is not un-reversed?
			for _, o := range orders {
				if v, _ := m.walk(o, out); v.key == "" {
					return violation("Polygon.Reverse:order", "Reverse() requested but the vertices come in forward order"), nil
				}
			}
		}
		return first, nil
	}
	// fillets that compete for an edge: order-independent conditions
	nb := func(i int) (int, int) {
		return (i - 1 + nq) % nq, (i + 1) % nq
	}
	for i := range m.Q {
		e := &m.Q[i]
		if !e.smooth || e.status != stEither {
			continue
		}
		ip, in := nb(i)
		remP, remN := e.lp, e.ln
		if fil[ip] {
			remP -= m.Q[ip].d
		}
		if fil[in] {
			remN -= m.Q[in].d
		}
		rel := m.relErr(e, remP, remN, m.scale)
		slackP, slackN := fitBand*e.lp+rel*e.d, fitBand*e.ln+rel*e.d
		if fil[i] {
			// honoured: must not overlap an honoured neighbour
			if e.d > remP+slackP || e.d > remN+slackN {
				return violation(e.sapi+":fillets-overlap-on-shared-edge", "vertex %d: tangent distance %v, remaining edge prev %v next %v", e.src, e.d, remP, remN), nil
			}
		} else {
			// left alone: only allowed if it does not fit in what the neighbours left
			if !(e.d > remP-slackP || e.d > remN-slackN) {
				return violation(e.sapi+":unchanged-although-fillet-fits", "vertex %d %v r=%v theta=%.6g deg tangent distance %v fits the remaining edges %v %v", e.src, e.p, e.r, deg(e.theta), e.d, remP, remN), nil
			}
		}
	}
	return verdict{}, fil
}

// ---------------------------------------------------------------------------
// labels

func thetaClass(th float64) string {
	d := deg(th)
	switch {
	case d < 5:
		return "0.5-5"
	case d < 45:
		return "5-45"
	case d < 89.999:
		return "45-90"
	case d <= 90.001:
		return "90"
	case d < 135:
		return "90-135"
	case d < 175:
		return "135-175"
	default:
		return "175-179.5"
	}
}

func facetClass(f int) string {
	switch {
	case f == 1:
		return "1"
	case f == 2:
		return "2"
	case f <= 4:
		return "3-4"
	case f <= 8:
		return "5-8"
	case f <= 16:
		return "9-16"
	case f < 32:
		return "17-31"
	default:
		return "32"
	}
}

// record labels the case and returns whether it is non-trivial.
func (m *polyModel) record(rec *ev.Rec, prefix string, fil []bool) (bool, []string) {
	var labels []string
	add := func(l string) { labels = append(labels, prefix+":"+l) }
	nt := false
	nSm, nArc := 0, 0
	for i := range m.Q {
		e := &m.Q[i]
		if !e.smooth {
			continue
		}
		nSm++
		kind := "smooth"
		if e.sapi == "Polygon.Chamfer" {
			kind = "chamfer"
		}
		add(kind + ":theta=" + thetaClass(e.theta))
		if e.left {
			add(kind + ":turn=left")
		} else {
			add(kind + ":turn=right")
		}
		if kind == "smooth" {
			add("smooth:facets=" + facetClass(e.facets))
		}
		switch e.status {
		case stKeep:
			switch {
			case e.shortPrev && e.shortNext:
				add(kind + ":does-not-fit:both-edges")
			case e.shortPrev:
				add(kind + ":does-not-fit:prev-edge-only")
			default:
				add(kind + ":does-not-fit:next-edge-only")
			}
		case stFillet:
			ratio := e.d / math.Min(e.lp, e.ln)
			switch {
			case ratio < 0.05:
				add(kind + ":fits:tiny(<5% of edge)")
			case ratio < 0.9:
				add(kind + ":fits:5-90% of edge")
			default:
				add(kind + ":fits:>90% of edge")
			}
		case stEither:
			if fil[i] {
				add(kind + ":competing:honoured")
			} else {
				add(kind + ":competing:left-alone")
			}
		}
		if fil[i] {
			nt = true
		}
	}
	for _, v := range m.spec.V {
		switch v.Kind {
		case "rel":
			add("vertex:rel")
		case "polar":
			add("vertex:polar")
		case "relpolar":
			add("vertex:rel+polar")
		}
	}
	for i, v := range m.spec.V {
		if v.Mod != "arc" || (i == 0 && !m.spec.Closed) {
			continue
		}
		nArc++
		if v.R > 0 {
			add("arc:sign=+")
		} else {
			add("arc:sign=-")
		}
		add("arc:facets=" + facetClass(v.Facets))
		n := len(m.P)
		k := math.Abs(v.R) / (m.P[i].dist(m.P[(i-1+n)%n]) / 2)
		switch {
		case k < 1.01:
			add("arc:r/halfchord<1.01")
		case k < 3:
			add("arc:r/halfchord=1.01-3")
		default:
			add("arc:r/halfchord>3")
		}
		if i == 0 {
			add("arc:into-vertex-0-of-closed")
		}
		if v.Facets >= 2 {
			nt = true
		}
	}
	if m.spec.Closed {
		add("closed")
	} else {
		add("open")
	}
	if m.spec.Reverse {
		add("reverse")
	}
	add(fmt.Sprintf("requests:smooth=%d,arc=%d", min(nSm, 4), min(nArc, 3)))
	return nt, labels
}

// ---------------------------------------------------------------------------
// generators

func drawTheta(t *rapid.T, label string) float64 {
	switch rapid.IntRange(0, 7).Draw(t, label+".class") {
	case 0:
		return rad(uniRange(t, label, 0.5, 5))
	case 1:
		return rad(uniRange(t, label, 175, 179.5))
	case 2:
		return rad(rapid.SampledFrom([]float64{0.5, 1, 30, 45, 60, 90, 90, 120, 135, 150, 179, 179.5}).Draw(t, label))
	default:
		return rad(uniRange(t, label, 0.5, 179.5))
	}
}

func drawFacets(t *rapid.T, label string) int {
	if rapid.Bool().Draw(t, label+".k") {
		return rapid.SampledFrom([]int{1, 1, 2, 3, 4, 5, 8, 16, 32, 32}).Draw(t, label)
	}
	return rapid.IntRange(1, 32).Draw(t, label)
}

// drawRho draws tangent distance / reference edge length.
func drawRho(t *rapid.T, label string, maxClass int) float64 {
	switch rapid.IntRange(0, maxClass).Draw(t, label+".class") {
	case 0:
		return logUni(t, label, 1e-3, 0.05)
	case 1, 2:
		return uniRange(t, label, 0.05, 0.45)
	case 3:
		return uniRange(t, label, 0.45, 0.9)
	case 4:
		return 1 - logUni(t, label, 1e-6, 0.1)
	case 5:
		return 1 + logUni(t, label, 1e-6, 0.1)
	case 6:
		return logUni(t, label, 1.1, 10)
	default:
		// on the boundary (+- a few ulp): must be skipped by the band rule
		return 1 + float64(rapid.IntRange(-4, 4).Draw(t, label))*1e-16
	}
}

// TestSmoothCorner: one corner built from its angle, turning direction, edge
// lengths, radius and facet count.
func TestSmoothCorner(t *testing.T) {
	rec := ev.Get()
	rapid.Check(t, func(t *rapid.T) {
		S := length(t, "S", 0.1, 100)
		V := pt{coord(t, "vx", 10*S), coord(t, "vy", 10*S)}
		u0 := polar(1, angle(t, "heading"))
		theta := drawTheta(t, "theta")
		turn := rapid.SampledFrom([]float64{-1, 1}).Draw(t, "turn")
		L0 := S * logUni(t, "L0", 0.1, 10)
		L1 := S * logUni(t, "L1", 0.1, 10)
		if rapid.IntRange(0, 5).Draw(t, "equal-edges") == 0 {
			L1 = L0
		}
		u1 := rot(u0, turn*theta)
		A, B := V.add(u0.mul(L0)), V.add(u1.mul(L1))
		rho := drawRho(t, "rho", 7)
		r := rho * math.Min(L0, L1) * math.Tan(theta/2)
		vs := func(p pt) vspec { return vspec{Kind: "abs", A: p.X, B: p.Y, UseV2: rapid.Bool().Draw(t, "usev2")} }
		corner := vs(V)
		if rapid.IntRange(0, 3).Draw(t, "chamfer") == 0 {
			corner.Mod, corner.R = "chamfer", r*math.Sqrt2
		} else {
			corner.Mod, corner.R, corner.Facets = "smooth", r, drawFacets(t, "facets")
		}
		extra := func(l string) vspec {
			return vs(pt{coord(t, l+".x", 10*S), coord(t, l+".y", 10*S)})
		}
		var s pspec
		switch rapid.IntRange(0, 5).Draw(t, "layout") {
		case 0:
			s = pspec{V: []vspec{vs(A), corner, vs(B)}}
		case 1:
			s = pspec{V: []vspec{vs(A), corner, vs(B)}, Closed: true}
		case 2:
			s = pspec{V: []vspec{corner, vs(B), vs(A)}, Closed: true}
		case 3:
			s = pspec{V: []vspec{vs(B), vs(A), corner}, Closed: true}
		case 4:
			s = pspec{V: []vspec{extra("x0"), vs(A), corner, vs(B), extra("x1")}}
		default:
			s = pspec{V: []vspec{vs(A), corner, vs(B), extra("x0")}, Closed: true}
		}
		s.Reverse = rapid.IntRange(0, 3).Draw(t, "reverse") == 0
		runPolygonCase(t, rec, "corner", s)
	})
}

// TestPolygonChain: polygons of 3..10 vertices given as absolute / relative /
// polar vertices with several smoothing, chamfer and arc requests.
func TestPolygonChain(t *testing.T) {
	rec := ev.Get()
	rapid.Check(t, func(t *rapid.T) {
		S := length(t, "S", 0.1, 100)
		n := rapid.IntRange(3, 10).Draw(t, "n")
		closed := rapid.Bool().Draw(t, "closed")
		// turtle walk: positions, headings, edge lengths
		P := make([]pt, n)
		P[0] = pt{coord(t, "x0", 10*S), coord(t, "y0", 10*S)}
		head := angle(t, "heading")
		heads := make([]float64, n)
		lens := make([]float64, n) // lens[i]: edge into vertex i
		for i := 1; i < n; i++ {
			l := fmt.Sprintf("v%d", i)
			if i > 1 {
				th := drawTheta(t, l+".theta")
				head += rapid.SampledFrom([]float64{-1, 1}).Draw(t, l+".turn") * (math.Pi - th)
			}
			heads[i] = head
			lens[i] = S * logUni(t, l+".len", 0.1, 10)
			P[i] = P[i-1].add(polar(lens[i], head))
		}
		lens[0] = P[0].dist(P[n-1])
		if lens[0] < 0.01*S {
			rec.Count("discarded:closing-edge-too-short", 1)
			t.Skip("closing edge too short")
		}
		// how each vertex is handed to the builder
		s := pspec{Closed: closed, Reverse: rapid.IntRange(0, 3).Draw(t, "reverse") == 0}
		for i := 0; i < n; i++ {
			l := fmt.Sprintf("v%d", i)
			v := vspec{Kind: "abs", A: P[i].X, B: P[i].Y}
			if i > 0 {
				switch rapid.IntRange(0, 4).Draw(t, l+".kind") {
				case 0, 1:
					v = vspec{Kind: "rel", A: P[i].X - P[i-1].X, B: P[i].Y - P[i-1].Y}
				case 2:
					v = vspec{Kind: "relpolar", A: lens[i], B: heads[i], PolarFirst: rapid.Bool().Draw(t, l+".polarfirst")}
				case 3:
					v = vspec{Kind: "polar", A: P[i].norm(), B: math.Atan2(P[i].Y, P[i].X)}
				}
			}
			s.V = append(s.V, v)
		}
		// the model's own positions are what the requests are sized against
		Pm, _ := s.resolve()
		// requests
		mods := make([]string, n)
		for i := 0; i < n; i++ {
			l := fmt.Sprintf("v%d", i)
			switch k := rapid.IntRange(0, 9).Draw(t, l+".mod"); {
			case k <= 3:
				mods[i] = "smooth"
			case k == 4:
				mods[i] = "chamfer"
			case k <= 6:
				mods[i] = "arc"
			}
		}
		for i := 0; i < n; i++ {
			end := !closed && (i == 0 || i == n-1)
			if (mods[i] == "smooth" || mods[i] == "chamfer") && end {
				mods[i] = ""
			}
			if mods[i] == "arc" && !closed && i == 0 {
				mods[i] = ""
			}
		}
		for i := 0; i < n; i++ {
			// a fillet next to an arc would have to be tangent to a facet of that arc:
			// the statement does not say which edge is meant, keep them apart
			nx := (i + 1) % n
			if (mods[i] == "smooth" || mods[i] == "chamfer") && mods[nx] == "arc" && (closed || i+1 < n) {
				mods[i] = ""
				rec.Count("generator:fillet-before-arc-dropped", 1)
			}
		}
		for i := 0; i < n; i++ {
			l := fmt.Sprintf("v%d", i)
			v := &s.V[i]
			ip, in := (i-1+n)%n, (i+1)%n
			switch mods[i] {
			case "smooth", "chamfer":
				ep, en := Pm[ip].sub(Pm[i]), Pm[in].sub(Pm[i])
				th := math.Abs(angleBetween(ep, en))
				if th < rad(0.5)*(1-1e-9) || th > rad(179.5)*(1+1e-9) {
					rec.Count("generator:fillet-dropped-corner-angle-out-of-domain", 1)
					continue
				}
				rho := drawRho(t, l+".rho", 6)
				r := rho * math.Min(ep.norm(), en.norm()) * math.Tan(th/2)
				if mods[i] == "chamfer" {
					v.Mod, v.R = "chamfer", r*math.Sqrt2
				} else {
					v.Mod, v.R, v.Facets = "smooth", r, drawFacets(t, l+".facets")
				}
			case "arc":
				h := Pm[i].dist(Pm[ip]) / 2
				var k float64
				switch rapid.IntRange(0, 3).Draw(t, l+".rk") {
				case 0:
					k = 1 + logUni(t, l+".k", 1e-6, 1e-2)
				case 1, 2:
					k = uniRange(t, l+".k", 1.01, 3)
				default:
					k = logUni(t, l+".k", 3, 100)
				}
				v.Mod, v.R, v.Facets = "arc", h*k*rapid.SampledFrom([]float64{-1, 1}).Draw(t, l+".side"), drawFacets(t, l+".facets")
			}
		}
		runPolygonCase(t, rec, "chain", s)
	})
}

func runPolygonCase(t *rapid.T, rec *ev.Rec, prefix string, s pspec) {
	m, v := buildModel(s)
	if v.key != "" {
		t.Fatalf("%s: %s", v.key, v.msg)
	}
	if v.skip != "" {
		rec.Count("skipped:"+prefix+":"+v.skip, 1)
		rec.Case(false, "", prefix+":skipped")
		return
	}
	out := s.run()
	v, fil := m.check(out)
	if v.skip != "" {
		rec.Count("skipped:"+prefix+":"+v.skip, 1)
		rec.Case(false, "", prefix+":skipped")
		return
	}
	if v.key != "" {
		rec.Violation(t, v.key, "%s\nspec: %+v\noutput: %v", v.msg, s, out)
		return
	}
	nt, labels := m.record(rec, prefix, fil)
	rec.Case(nt, fmt.Sprintf("%+v", s), labels...)
	rec.Sample(prefix, map[string]any{"spec": s, "vertices_out": len(out), "tolerance": m.tol})
}

// ---------------------------------------------------------------------------
// N-gons

func checkNagon(n int, r float64, out []pt) verdict {
	if len(out) != n {
		return violation("Nagon:count", "Nagon(%d,%v) has %d vertices", n, r, len(out))
	}
	if !finite(out) {
		return violation("Nagon:non-finite", "Nagon(%d,%v) = %v", n, r, out)
	}
	tol := relTol * r
	for i, p := range out {
		if d := math.Abs(p.norm() - r); d > tol {
			return violation("Nagon:vertex-off-circle", "Nagon(%d,%v) vertex %d %v at distance %v from the origin", n, r, i, p, p.norm())
		}
	}
	// equal central angles, all in the same direction, one revolution in total
	want := 2 * math.Pi / float64(n)
	first := angleBetween(out[0], out[1])
	for i := range out {
		st := angleBetween(out[i], out[(i+1)%n])
		if math.Abs(math.Abs(st)-want) > 1e-9 || (st > 0) != (first > 0) {
			return violation("Nagon:central-angle", "Nagon(%d,%v) central angle %d -> %d is %v, want +-%v", n, r, i, (i+1)%n, st, want)
		}
	}
	// regular: equal sides follow from the above; check them anyway (chord 2 r sin(pi/n))
	side := 2 * r * math.Sin(math.Pi/float64(n))
	for i := range out {
		if d := math.Abs(out[i].dist(out[(i+1)%n]) - side); d > tol {
			return violation("Nagon:side-length", "Nagon(%d,%v) side %d has length %v, want %v", n, r, i, out[i].dist(out[(i+1)%n]), side)
		}
	}
	return verdict{}
}

func TestNagon(t *testing.T) {
	rec := ev.Get()
	rapid.Check(t, func(t *rapid.T) {
		n := rapid.IntRange(3, 64).Draw(t, "n")
		r := length(t, "r", 1e-2, 1e3)
		out := fromV2(sdf.Nagon(n, r))
		if v := checkNagon(n, r, out); v.key != "" {
			rec.Violation(t, v.key, "%s", v.msg)
		}
		cl := "n=3-6"
		switch {
		case n > 32:
			cl = "n=33-64"
		case n > 12:
			cl = "n=13-32"
		case n > 6:
			cl = "n=7-12"
		}
		rec.Case(true, ev.Key("nagon", n, r), "nagon:"+cl)
		rec.Sample("nagon", map[string]any{"n": n, "r": r})
	})
}

// TestSemicircleArcs: an arc whose radius is exactly half its chord (the end cap of a slot): chords along an
// axis or along a 3-4-5 direction on a binary grid, so that the half chord is an exact float and "radius
// equals half the chord" holds for the library's arithmetic as for the caller's.
func TestSemicircleArcs(t *testing.T) {
	rec := ev.Get()
	rapid.Check(t, func(t *rapid.T) {
		q := rapid.SampledFrom([]float64{1, 0.25, 0.5, 8, 0.03125}).Draw(t, "grid")
		R := float64(rapid.IntRange(1, 40).Draw(t, "radius-in-grid-units")) * q
		x0, y0 := float64(rapid.IntRange(-50, 50).Draw(t, "x0"))*q, float64(rapid.IntRange(-50, 50).Draw(t, "y0"))*q
		// chord direction with exact length: axis, or (3,4)/5
		var dx, dy float64
		// (3-4-5 chords are left out: the library normalises the chord direction, and r*r - d*d comes out a
		// rounding error below zero for some of them - square root of a negative number, NaN vertices; a radius
		// that is not safely above half the chord is outside the domain there as everywhere else in this file)
		switch rapid.IntRange(0, 3).Draw(t, "direction") {
		case 0:
			dx = 2 * R
		case 1:
			dx = -2 * R
		case 2:
			dy = 2 * R
		case 3:
			dy = -2 * R
		case 4:
			R *= 5
			dx, dy = 2*R*3/5, 2*R*4/5
		default:
			R *= 5
			dx, dy = -2*R*4/5, 2*R*3/5
		}
		side := rapid.SampledFrom([]float64{1, -1}).Draw(t, "side")
		facets := drawFacets(t, "facets")
		s := pspec{Closed: rapid.Bool().Draw(t, "closed"), Reverse: rapid.Bool().Draw(t, "reverse")}
		// a lead-in vertex, the chord start, the chord end with the arc, a lead-out vertex (well away from the cap)
		nx, ny := -dy, dx // left normal of the chord (length 2R)
		s.V = append(s.V,
			vspec{Kind: "abs", A: x0 - 3*nx*side - dx, B: y0 - 3*ny*side - dy},
			vspec{Kind: "abs", A: x0, B: y0},
			vspec{Kind: "abs", A: x0 + dx, B: y0 + dy, Mod: "arc", R: side * R, Facets: facets},
			vspec{Kind: "abs", A: x0 + 2*dx - 3*nx*side, B: y0 + 2*dy - 3*ny*side})
		rec.Label("semicircle:facets=" + facetClass(facets))
		runPolygonCase(t, rec, "semicircle", s)
	})
}
