package c17

import (
	"math"
	"testing"

	"github.com/deadsy/sdfx/sdf"

	"verif/internal/ev"
)

// Fixed cases: profiles taken from callers in /repo (examples/challenge/cc18.go,
// obj/chamfer.go, obj/angle.go, examples/bezier) and hand-computed expectations
// that do not go through the model at all.

type regressCase struct {
	Name string `json:"name"`
	Poly *pspec `json:"poly,omitempty"`
	Bez  *bspec `json:"bezier,omitempty"`
	// optional literal expectation
	Want []pt `json:"want,omitempty"`
}

func abs(x, y float64) vspec                  { return vspec{Kind: "abs", A: x, B: y} }
func rel(x, y float64) vspec                  { return vspec{Kind: "rel", A: x, B: y} }
func relpolar(r, th float64) vspec            { return vspec{Kind: "relpolar", A: r, B: th, PolarFirst: true} }
func (v vspec) smooth(r float64, f int) vspec { v.Mod, v.R, v.Facets = "smooth", r, f; return v }
func (v vspec) chamfer(s float64) vspec       { v.Mod, v.R = "chamfer", s; return v }
func (v vspec) arc(r float64, f int) vspec    { v.Mod, v.R, v.Facets = "arc", r, f; return v }

func regressCases() []regressCase {
	h := math.Sqrt(0.5)
	return []regressCase{
		{Name: "right-angle-fillet-literal",
			Poly: &pspec{V: []vspec{abs(5, 0), abs(0, 0).smooth(1, 2), abs(0, 5)}},
			Want: []pt{{5, 0}, {1, 0}, {1 - h, 1 - h}, {0, 1}, {0, 5}}},
		{Name: "right-angle-fillet-other-turn-literal",
			Poly: &pspec{V: []vspec{abs(0, 5), abs(0, 0).smooth(1, 2), abs(5, 0)}},
			Want: []pt{{0, 5}, {0, 1}, {1 - h, 1 - h}, {1, 0}, {5, 0}}},
		{Name: "fillet-does-not-fit-literal",
			Poly: &pspec{V: []vspec{abs(5, 0), abs(0, 0).smooth(1.5, 4), abs(0, 1)}},
			Want: []pt{{5, 0}, {0, 0}, {0, 1}}},
		{Name: "right-angle-chamfer-literal",
			Poly: &pspec{V: []vspec{abs(5, 0), abs(0, 0).chamfer(1), abs(0, 5)}},
			Want: []pt{{5, 0}, {h, 0}, {0, h}, {0, 5}}},
		{Name: "arc-positive-radius-literal", // centre (1,-1) right of a->b, arc bulges left
			Poly: &pspec{V: []vspec{abs(0, 0), abs(2, 0).arc(math.Sqrt2, 2), abs(2, -3)}},
			Want: []pt{{0, 0}, {1, math.Sqrt2 - 1}, {2, 0}, {2, -3}}},
		{Name: "arc-negative-radius-literal",
			Poly: &pspec{V: []vspec{abs(0, 0), abs(2, 0).arc(-math.Sqrt2, 2), abs(2, -3)}},
			Want: []pt{{0, 0}, {1, 1 - math.Sqrt2}, {2, 0}, {2, -3}}},
		{Name: "rel-polar-literal",
			Poly: &pspec{V: []vspec{abs(1, 1), rel(2, 0), relpolar(2, math.Pi/2), {Kind: "polar", A: 2, B: math.Pi}}, Closed: true, Reverse: true},
			Want: []pt{{-2, 0}, {3, 3}, {3, 1}, {1, 1}}},
		{Name: "cc18b-vertical-pipe",
			Poly: &pspec{V: []vspec{abs(0, 0), abs(6, 0), abs(6, 19).smooth(0.5, 5), abs(8, 19), abs(8, 21), abs(6, 21), abs(6, 20), abs(0, 20)}}},
		{Name: "chamfered-cylinder",
			Poly: &pspec{V: []vspec{abs(0, -10), abs(4, -10).chamfer(4 * 0.3), abs(4, 10).chamfer(4 * 0.2), abs(0, 10)}}},
		{Name: "angle-root-radius",
			Poly: &pspec{V: []vspec{abs(0, 0), abs(30, 0), abs(30, 3).smooth(1, 6), abs(3, 3).smooth(2, 6), abs(3, 40).smooth(1, 6), abs(0, 40)}, Closed: true}},
		{Name: "cc18a-outline",
			Poly: &pspec{Closed: true, V: []vspec{abs(0, 0), relpolar(175, rad(-15)), rel(130, 0), rel(0, -25), rel(80, 0), rel(0, 25), rel(75, 0), rel(0, -75),
				relpolar(115, rad(-105)), rel(-50, 0), relpolar(150, rad(-195)).arc(-120, 15), relpolar(100, rad(-150)), rel(-60, 0), rel(-10, 0), rel(-30, 0), rel(0, 135), rel(-60, 0)}}},
		{Name: "bezier-straight-literal",
			Bez:  &bspec{V: []bvert{{X: 0, Y: 0}, {X: 3, Y: 4}}},
			Want: []pt{{0, 0}, {3, 4}}},
		{Name: "bezier-bowling-pin",
			Bez: &bspec{Closed: true, V: []bvert{{X: 0, Y: 0},
				{X: 2.031 / 2.0, Y: 0, H: "fwd", FwdTheta: rad(45), FwdR: 2},
				{X: 4.766 / 2.0, Y: 4.5, H: "handle", FwdTheta: rad(90), FwdR: 2, RevR: 2},
				{X: 1.797 / 2.0, Y: 10, H: "handle", FwdTheta: rad(90), FwdR: 3, RevR: 3},
				{X: 2.547 / 2.0, Y: 13.5, H: "handle", FwdTheta: rad(90), FwdR: 1, RevR: 1},
				{X: 0, Y: 15, H: "rev", RevTheta: rad(0), RevR: 1}}}},
		{Name: "bezier-egg",
			Bez: &bspec{Closed: true, V: []bvert{{X: 0, Y: 0, H: "fwd", FwdTheta: 0, FwdR: 10}, {X: 0, Y: 16, H: "rev", RevTheta: 0, RevR: 5}}}},
		{Name: "bezier-mid-points-closed-leading-mid", // a glyph-like outline starting with an off-curve point
			Bez: &bspec{Closed: true, V: []bvert{{X: 0, Y: 10, Mid: true}, {X: 5, Y: 10}, {X: 10, Y: 10, Mid: true}, {X: 10, Y: 5}, {X: 10, Y: 0, Mid: true}, {X: 5, Y: 0}, {X: 0, Y: 0, Mid: true}, {X: 0, Y: 5}}}},
		{Name: "bezier-quartic",
			Bez: &bspec{V: []bvert{{X: 0, Y: 0}, {X: 1, Y: 3, Mid: true}, {X: 4, Y: -2, Mid: true}, {X: 6, Y: 5, Mid: true}, {X: 8, Y: 0}}}},
	}
}

func runRegress(c regressCase) verdict {
	if c.Poly != nil {
		m, v := buildModel(*c.Poly)
		if v.key != "" || v.skip != "" {
			return violation("ORACLE-BUG", "fixed case not decidable: %s %s %s", v.skip, v.key, v.msg)
		}
		out := c.Poly.run()
		if c.Want != nil {
			if len(out) != len(c.Want) {
				return violation("Polygon.Vertices:count", "%d vertices, literal expectation has %d: %v", len(out), len(c.Want), out)
			}
			for i := range out {
				if out[i].dist(c.Want[i]) > relTol*10 {
					return violation("Polygon.Vertices:literal", "vertex %d = %v, expected %v", i, out[i], c.Want[i])
				}
			}
		}
		v, _ = m.check(out)
		if v.skip != "" {
			return violation("ORACLE-BUG", "fixed case skipped: %s", v.skip)
		}
		return v
	}
	spans, err := c.Bez.controlPolygons()
	if err != nil {
		return violation("ORACLE-BUG", "fixed bezier case: %v", err)
	}
	out, err := c.Bez.run()
	if err != nil {
		return violation("Bezier.Polygon:error-on-valid-curve", "%v", err)
	}
	if c.Want != nil {
		if len(out) != len(c.Want) {
			return violation("Bezier.Polygon:count", "%d vertices, literal expectation has %d: %v", len(out), len(c.Want), out)
		}
		for i := range out {
			if out[i].dist(c.Want[i]) > relTol*10 {
				return violation("Bezier.Polygon:literal", "vertex %d = %v, expected %v", i, out[i], c.Want[i])
			}
		}
	}
	v, _, _ := checkBezier(spans, out)
	return v
}

func TestRegress(t *testing.T) {
	rec := ev.Get()
	var rc regressCase
	if ev.LoadReplay("TestRegress", &rc) {
		if v := runRegress(rc); v.key != "" {
			rec.FailCase(t, "TestRegress", v.key, rc, "%s: %s", rc.Name, v.msg)
		}
		return
	}
	for _, c := range regressCases() {
		rec.Case(true, ev.Key("regress", c.Name), "regress")
		if v := runRegress(c); v.key != "" {
			rec.FailCase(t, "TestRegress", v.key, c, "%s: %s", c.Name, v.msg)
		}
	}
	// N-gons used by callers
	for _, c := range []struct {
		n int
		r float64
	}{{4, 10 * math.Sqrt(0.5)}, {5, 1}, {6, 20}, {12, 10}} {
		rec.Case(true, ev.Key("regress-nagon", c.n, c.r), "regress")
		if v := checkNagon(c.n, c.r, fromV2(sdf.Nagon(c.n, c.r))); v.key != "" {
			rec.FailCase(t, "TestRegress", v.key, c, "%s", v.msg)
		}
	}
}
