// Package c17 checks property C17: "Profile builders produce the geometry they
// specify" (sdf/poly.go, sdf/bezier.go).
//
// Every oracle in this package is written from plane geometry (bisector /
// tangent construction of a fillet, chord construction of an arc, de Casteljau
// evaluation of a Bezier span) and from the builder semantics stated by the
// doc comments; nothing of the library is called to compute an expectation.
package c17

import (
	"fmt"
	"math"
	"testing"

	v2 "github.com/deadsy/sdfx/vec/v2"

	"pgregory.net/rapid"
	"verif/internal/ev"
)

func TestMain(m *testing.M) { ev.Main(m) }

// relTol: positions are compared with tolerance relTol*scale, scale = largest
// coordinate / length / radius that takes part in the construction.
const relTol = 1e-9

// fitBand: a fillet whose tangent distance is within this relative distance of
// an edge length is neither asserted smoothed nor unchanged (skipped, counted).
const fitBand = 1e-9

// ---------------------------------------------------------------------------
// plane vectors (own arithmetic, not the library's)

type pt struct {
	X float64 `json:"x"`
	Y float64 `json:"y"`
}

func (a pt) add(b pt) pt           { return pt{a.X + b.X, a.Y + b.Y} }
func (a pt) sub(b pt) pt           { return pt{a.X - b.X, a.Y - b.Y} }
func (a pt) mul(k float64) pt      { return pt{a.X * k, a.Y * k} }
func (a pt) dot(b pt) float64      { return a.X*b.X + a.Y*b.Y }
func (a pt) cross(b pt) float64    { return a.X*b.Y - a.Y*b.X }
func (a pt) norm() float64         { return math.Hypot(a.X, a.Y) }
func (a pt) dist(b pt) float64     { return math.Hypot(a.X-b.X, a.Y-b.Y) }
func (a pt) unit() pt              { n := a.norm(); return pt{a.X / n, a.Y / n} }
func (a pt) maxAbs() float64       { return math.Max(math.Abs(a.X), math.Abs(a.Y)) }
func (a pt) String() string        { return fmt.Sprintf("(%s,%s)", ev.F(a.X), ev.F(a.Y)) }
func polar(r, theta float64) pt    { return pt{r * math.Cos(theta), r * math.Sin(theta)} }
func rot(a pt, phi float64) pt     { s, c := math.Sincos(phi); return pt{c*a.X - s*a.Y, s*a.X + c*a.Y} }
func angleBetween(a, b pt) float64 { return math.Atan2(a.cross(b), a.dot(b)) } // signed, (-pi,pi]

func fromV2(vs []v2.Vec) []pt {
	out := make([]pt, len(vs))
	for i, v := range vs {
		out[i] = pt{v.X, v.Y}
	}
	return out
}

func finite(ps []pt) bool {
	for _, p := range ps {
		if math.IsNaN(p.X) || math.IsNaN(p.Y) || math.IsInf(p.X, 0) || math.IsInf(p.Y, 0) {
			return false
		}
	}
	return true
}

// verdict of an oracle: skip != "" -> case not decidable (counted, not asserted);
// key != "" -> violation with that signature.
type verdict struct {
	skip string
	key  string
	msg  string
}

func violation(key, format string, args ...any) verdict {
	return verdict{key: key, msg: fmt.Sprintf(format, args...)}
}

func deg(rad float64) float64 { return rad * 180 / math.Pi }
func rad(d float64) float64   { return d * math.Pi / 180 }

// ---------------------------------------------------------------------------
// draws. rapid.Float64Range is strongly biased towards the low end of a range
// that spans several binades (the exponent is drawn with a small-value bias:
// measured 80% of [0.5,179.5] in the first decile), which would starve most
// angle / ratio classes. Inside one binade the significand is drawn
// uniformly, so every continuous quantity here is derived from [1,2).

var cadNumbers = []float64{0.25, 0.5, 1, 1.5, 2, 2.5, 3, 4, 5, 8, 10, 12.5, 16, 20, 25.4, 50, 100}

func uni(t *rapid.T, label string) float64 {
	return rapid.Float64Range(1, 1.9999999999999998).Draw(t, label) - 1
}

func uniRange(t *rapid.T, label string, lo, hi float64) float64 {
	return lo + (hi-lo)*uni(t, label)
}

func logUni(t *rapid.T, label string, lo, hi float64) float64 {
	x := math.Exp(uniRange(t, label, math.Log(lo), math.Log(hi)))
	return math.Max(lo, math.Min(hi, x))
}

// length: CAD-ish round numbers or log-uniform in [lo,hi].
func length(t *rapid.T, label string, lo, hi float64) float64 {
	if rapid.IntRange(0, 3).Draw(t, label+".k") == 0 {
		var ok []float64
		for _, c := range cadNumbers {
			if c >= lo && c <= hi {
				ok = append(ok, c)
			}
		}
		if len(ok) > 0 {
			return rapid.SampledFrom(ok).Draw(t, label+".cad")
		}
	}
	return logUni(t, label, lo, hi)
}

// coord: grid values (exact ties) or uniform in [-r,r].
func coord(t *rapid.T, label string, r float64) float64 {
	if rapid.IntRange(0, 3).Draw(t, label+".k") == 0 {
		return float64(rapid.IntRange(-8, 8).Draw(t, label+".g")) * r / 8
	}
	return uniRange(t, label, -r, r)
}

// angle in [-pi,pi], multiples of pi/4 made likely.
func angle(t *rapid.T, label string) float64 {
	if rapid.IntRange(0, 3).Draw(t, label+".k") == 0 {
		return float64(rapid.IntRange(-4, 4).Draw(t, label+".q")) * math.Pi / 4
	}
	return uniRange(t, label, -math.Pi, math.Pi)
}
