package c16

import (
	"fmt"
	"math"
	"sync"
	"testing"

	"github.com/deadsy/sdfx/sdf"
	v2 "github.com/deadsy/sdfx/vec/v2"
	"github.com/deadsy/sdfx/vec/v2i"
	v3 "github.com/deadsy/sdfx/vec/v3"
	"pgregory.net/rapid"

	"verif/internal/ev"
	"verif/internal/g"
)

func TestMain(m *testing.M) { ev.Main(m) }

// ---------------------------------------------------------------------------
// point-to-box distance interval

// axisPoint draws a coordinate relative to [lo,hi] by position class.
// returns the coordinate and the class: -1 below, 0 within (closed), +1 above.
func axisPoint(t *rapid.T, label string, lo, hi float64) (float64, int, string) {
	span := hi - lo
	ext := span
	if ext == 0 {
		ext = math.Max(math.Abs(lo), 1)
	}
	k := rapid.IntRange(0, 8).Draw(t, label+".class")
	var x float64
	var name string
	switch k {
	case 0:
		x, name = lo-g.LogUniform(t, label+".d", 1e-6, 10)*ext, "below"
	case 1:
		x, name = lo, "at-min"
	case 2:
		x, name = g.Ulp(lo, rapid.SampledFrom([]int{-1, 1}).Draw(t, label+".u")), "min-ulp"
	case 3, 4:
		x, name = lo+g.F(0, 1).Draw(t, label+".f")*span, "within"
	case 5:
		x, name = hi, "at-max"
	case 6:
		x, name = g.Ulp(hi, rapid.SampledFrom([]int{-1, 1}).Draw(t, label+".u")), "max-ulp"
	case 7:
		x, name = hi+g.LogUniform(t, label+".d", 1e-6, 10)*ext, "above"
	default:
		x, name = (lo+hi)/2, "centre"
	}
	c := 0
	if x < lo {
		c = -1
	} else if x > hi {
		c = 1
	}
	return x, c, name
}

func drawRange(t *rapid.T, label string) (float64, float64) {
	c := g.Coord(t, label+".c", 1000)
	var h float64
	switch rapid.IntRange(0, 5).Draw(t, label+".hk") {
	case 0:
		h = 0 // zero thickness
	default:
		h = g.Length(t, label+".h", 1e-2, 1e3)
	}
	return c - h, c + h
}

// oracle: clamp for the nearest point, farthest corner per axis.
func axisMinMax(p, lo, hi float64) (float64, float64) {
	q := math.Max(lo, math.Min(hi, p))
	dmin := p - q
	dmax := math.Max(math.Abs(p-lo), math.Abs(p-hi))
	return dmin * dmin, dmax * dmax
}

func tolD2(M, D float64) float64 { return 1e-13*M*D + 1e-26*M*M }

func TestBox2MinMaxDist2(t *testing.T) {
	rec := ev.Get()
	rapid.Check(t, func(t *rapid.T) {
		x0, x1 := drawRange(t, "x")
		y0, y1 := drawRange(t, "y")
		px, cx, nx := axisPoint(t, "px", x0, x1)
		py, cy, ny := axisPoint(t, "py", y0, y1)
		b := sdf.Box2{Min: v2.Vec{X: x0, Y: y0}, Max: v2.Vec{X: x1, Y: y1}}
		p := v2.Vec{X: px, Y: py}
		mnx, mxx := axisMinMax(px, x0, x1)
		mny, mxy := axisMinMax(py, y0, y1)
		wantMin, wantMax := mnx+mny, mxx+mxy
		got := b.MinMaxDist2(p)
		M := maxAbs(x0, x1, y0, y1, px, py)
		tol := tolD2(M, math.Sqrt(wantMax))
		outside := abs(cx) + abs(cy)
		nt := outside >= 1 && outside < 2
		rec.Case(nt, ev.Key(x0, x1, y0, y1, px, py), "box2:"+nx, "box2:"+ny, fmt.Sprintf("box2:outside-axes=%d", outside))
		rec.Sample("box2", map[string]any{"box": b, "p": p, "got": got, "want": []float64{wantMin, wantMax}})
		if math.Abs(got[0]-wantMin) > tol {
			rec.Violation(t, "Box2.MinMaxDist2:min", "box %v p %v: min2 got %v want %v (outside on %d axes)", b, p, got[0], wantMin, outside)
		}
		if math.Abs(got[1]-wantMax) > tol {
			rec.Violation(t, "Box2.MinMaxDist2:max", "box %v p %v: max2 got %v want %v", b, p, got[1], wantMax)
		}
	})
}

func TestBox3MinMaxDist2(t *testing.T) {
	rec := ev.Get()
	rapid.Check(t, func(t *rapid.T) {
		x0, x1 := drawRange(t, "x")
		y0, y1 := drawRange(t, "y")
		z0, z1 := drawRange(t, "z")
		px, cx, nx := axisPoint(t, "px", x0, x1)
		py, cy, ny := axisPoint(t, "py", y0, y1)
		pz, cz, nz := axisPoint(t, "pz", z0, z1)
		b := sdf.Box3{Min: v3.Vec{X: x0, Y: y0, Z: z0}, Max: v3.Vec{X: x1, Y: y1, Z: z1}}
		p := v3.Vec{X: px, Y: py, Z: pz}
		mnx, mxx := axisMinMax(px, x0, x1)
		mny, mxy := axisMinMax(py, y0, y1)
		mnz, mxz := axisMinMax(pz, z0, z1)
		wantMin, wantMax := mnx+mny+mnz, mxx+mxy+mxz
		got := b.MinMaxDist2(p)
		M := maxAbs(x0, x1, y0, y1, z0, z1, px, py, pz)
		tol := tolD2(M, math.Sqrt(wantMax))
		outside := abs(cx) + abs(cy) + abs(cz)
		nt := outside >= 1 && outside < 3
		rec.Case(nt, ev.Key(x0, x1, y0, y1, z0, z1, px, py, pz), "box3:"+nx, "box3:"+ny, "box3:"+nz, fmt.Sprintf("box3:outside-axes=%d", outside))
		rec.Sample("box3", map[string]any{"box": b, "p": p, "got": got, "want": []float64{wantMin, wantMax}})
		if math.Abs(got[0]-wantMin) > tol {
			rec.Violation(t, "Box3.MinMaxDist2:min", "box %v p %v: min2 got %v want %v (outside on %d axes)", b, p, got[0], wantMin, outside)
		}
		if math.Abs(got[1]-wantMax) > tol {
			rec.Violation(t, "Box3.MinMaxDist2:max", "box %v p %v: max2 got %v want %v", b, p, got[1], wantMax)
		}
	})
}

func abs(i int) int {
	if i < 0 {
		return -i
	}
	return i
}

func maxAbs(xs ...float64) float64 {
	m := 0.0
	for _, x := range xs {
		m = math.Max(m, math.Abs(x))
	}
	return m
}

// ---------------------------------------------------------------------------
// interval overlap

func TestIntervalOverlap(t *testing.T) {
	rec := ev.Get()
	rapid.Check(t, func(t *rapid.T) {
		drawIv := func(label string, anchor []float64) sdf.Interval {
			pick := func(l string) float64 {
				if len(anchor) > 0 && rapid.IntRange(0, 2).Draw(t, l+".k") > 0 {
					a := rapid.SampledFrom(anchor).Draw(t, l+".a")
					return g.Ulp(a, rapid.IntRange(-1, 1).Draw(t, l+".u"))
				}
				return g.Coord(t, l, 100)
			}
			a, b := pick(label+".0"), pick(label+".1")
			if rapid.IntRange(0, 5).Draw(t, label+".deg") == 0 {
				b = a
			}
			if a > b {
				a, b = b, a
			}
			return sdf.Interval{a, b}
		}
		a := drawIv("a", nil)
		b := drawIv("b", []float64{a[0], a[1]})
		want := math.Max(a[0], b[0]) <= math.Min(a[1], b[1])
		touch := a[1] == b[0] || a[0] == b[1] || g.Ulp(a[1], 1) == b[0] || g.Ulp(b[1], 1) == a[0]
		rec.Case(touch, ev.Key(a, b), fmt.Sprintf("interval:overlap=%v", want), fmt.Sprintf("interval:touch=%v", touch))
		rec.Sample("interval", map[string]any{"a": a, "b": b, "share_a_value": want})
		if a.Overlap(b) != want {
			rec.Violation(t, "Interval.Overlap", "a=%v b=%v Overlap=%v, share a value=%v", a, b, a.Overlap(b), want)
		}
		if b.Overlap(a) != want {
			rec.Violation(t, "Interval.Overlap", "b=%v a=%v Overlap=%v, share a value=%v", b, a, b.Overlap(a), want)
		}
	})
}

// ---------------------------------------------------------------------------
// pruned union

type counted struct {
	s sdf.SDF2
	n *int
}

func (c counted) Evaluate(p v2.Vec) float64 { *c.n++; return c.s.Evaluate(p) }
func (c counted) BoundingBox() sdf.Box2     { return c.s.BoundingBox() }

type blend struct {
	name string
	k    float64
	f    sdf.MinFunc
}

func drawLeaf(t *rapid.T, label string, S float64) (sdf.SDF2, string) {
	size := func(l string) float64 { return g.Length(t, label+l, 0.01*S, S) }
	// a quarter of the operands are derived shapes whose bounding box the library computes from another
	// box: an outward offset, a partial ring of rotated copies, a grid of copies (of a circle or a box: the
	// fields stay exact outside the material, so pruning by box distance is sound for them)
	if rapid.IntRange(0, 3).Draw(t, label+".derived") == 0 {
		var base sdf.SDF2
		var bd string
		if rapid.Bool().Draw(t, label+".base-box") {
			w, h := size(".bw"), size(".bh")
			base, bd = sdf.Box2D(v2.Vec{X: w, Y: h}, 0), fmt.Sprintf("box(%s,%s)", ev.F(w), ev.F(h))
		} else {
			r := size(".br")
			base, _ = sdf.Circle2D(r)
			bd = fmt.Sprintf("circle(%s)", ev.F(r))
		}
		switch rapid.IntRange(0, 3).Draw(t, label+".derived-kind") {
		case 3:
			// the common part of two long bars that cross (or meet in an L): an intersection whose operands
			// reach far beyond it. It has material (the crossing), so its value is bounded by the distances to
			// its box like any other operand's; its value max(d0, d1) is a LOWER bound of the distance only.
			l, w := size(".bar-length")*3, size(".bar-width")
			shift := 0.0
			if rapid.Bool().Draw(t, label+".L") {
				shift = (l - w) / 2
			}
			b0 := sdf.Box2D(v2.Vec{X: l, Y: w}, 0)
			b1 := sdf.Transform2D(sdf.Box2D(v2.Vec{X: w, Y: l}, 0), sdf.Translate2d(v2.Vec{X: -shift, Y: shift}))
			if rapid.Bool().Draw(t, label+".swap") {
				b0, b1 = b1, b0
			}
			return sdf.Intersect2D(b0, b1), fmt.Sprintf("isect(bar %s x %s, bar crossing at shift %s)", ev.F(l), ev.F(w), ev.F(shift))
		case 0:
			d := size(".offset")
			return sdf.Offset2D(base, d), fmt.Sprintf("offset(%s,%s)", bd, ev.F(d))
		case 1:
			// copies on an arc about the origin: the operand is moved off-centre first
			off := v2.Vec{X: size(".ox") * 3, Y: g.Coord(t, label+".oy", S)}
			k := rapid.IntRange(1, 7).Draw(t, label+".copies")
			step := g.F(-1.2, 1.2).Draw(t, label+".step")
			return sdf.RotateUnion2D(sdf.Transform2D(base, sdf.Translate2d(off)), k, sdf.Rotate2d(step)), fmt.Sprintf("rotunion(%s@(%s,%s),%d,%s)", bd, ev.F(off.X), ev.F(off.Y), k, ev.F(step))
		default:
			nx, ny := rapid.IntRange(1, 4).Draw(t, label+".nx"), rapid.IntRange(1, 3).Draw(t, label+".ny")
			st := v2.Vec{X: g.Coord(t, label+".sx", 3*S), Y: g.Coord(t, label+".sy", 3*S)}
			return sdf.Array2D(base, v2i.Vec{X: nx, Y: ny}, st), fmt.Sprintf("array(%s,%dx%d,(%s,%s))", bd, nx, ny, ev.F(st.X), ev.F(st.Y))
		}
	}
	switch rapid.IntRange(0, 4).Draw(t, label+".kind") {
	case 0:
		r := size(".r")
		s, err := sdf.Circle2D(r)
		if err != nil {
			t.Fatalf("Circle2D(%v): %v", r, err)
		}
		return s, fmt.Sprintf("circle(%s)", ev.F(r))
	case 1:
		w, h := size(".w"), size(".h")
		rd := 0.0
		if rapid.Bool().Draw(t, label+".rounded") {
			rd = g.F(0, 1).Draw(t, label+".rd") * math.Min(w, h) / 2
		}
		return sdf.Box2D(v2.Vec{X: w, Y: h}, rd), fmt.Sprintf("box(%s,%s,r%s)", ev.F(w), ev.F(h), ev.F(rd))
	case 2:
		l, rd := size(".l"), size(".rd")/4
		if rapid.IntRange(0, 2).Draw(t, label+".stroke") == 0 {
			rd = 0 // a stroke: a line segment without thickness (its bounding box has no area)
		}
		return sdf.Line2D(l, rd), fmt.Sprintf("line(%s,r%s)", ev.F(l), ev.F(rd))
	case 3:
		// capsule-like: a line with generous rounding
		l, rd := size(".l"), size(".rd")
		return sdf.Line2D(l, rd), fmt.Sprintf("line(%s,r%s)", ev.F(l), ev.F(rd))
	default:
		// regular polygon (exact since the polygon quadtree repairs, see C04)
		n := rapid.IntRange(3, 9).Draw(t, label+".n")
		r := size(".r")
		s, err := sdf.Polygon2D(sdf.Nagon(n, r))
		if err != nil {
			t.Fatalf("Polygon2D(nagon %d %v): %v", n, r, err)
		}
		return s, fmt.Sprintf("nagon(%d,%s)", n, ev.F(r))
	}
}

func TestUnionPruned(t *testing.T) {
	rec := ev.Get()
	rapid.Check(t, func(t *rapid.T) {
		S := rapid.SampledFrom([]float64{1, 10, 100}).Draw(t, "scale")
		n := rapid.IntRange(2, 12).Draw(t, "n")
		layout := rapid.SampledFrom([]string{"spread", "clustered", "nested", "far"}).Draw(t, "layout")
		ops := make([]sdf.SDF2, n)
		counts := make([]int, n)
		centres := make([]v2.Vec, n)
		desc := make([]string, n)
		nestedOps := 0
		for i := 0; i < n; i++ {
			leaf, d := drawLeaf(t, fmt.Sprintf("op%d", i), S)
			var c v2.Vec
			switch layout {
			case "spread":
				c = v2.Vec{X: g.Coord(t, fmt.Sprintf("c%d.x", i), 5*S), Y: g.Coord(t, fmt.Sprintf("c%d.y", i), 5*S)}
			case "clustered":
				c = v2.Vec{X: g.Coord(t, fmt.Sprintf("c%d.x", i), S), Y: g.Coord(t, fmt.Sprintf("c%d.y", i), S)}
			case "nested":
				c = v2.Vec{X: g.Coord(t, fmt.Sprintf("c%d.x", i), 0.05*S), Y: g.Coord(t, fmt.Sprintf("c%d.y", i), 0.05*S)}
			default:
				c = v2.Vec{X: g.Coord(t, fmt.Sprintf("c%d.x", i), 100*S), Y: g.Coord(t, fmt.Sprintf("c%d.y", i), 100*S)}
			}
			a := g.Angle(t, fmt.Sprintf("a%d", i))
			m := sdf.Translate2d(c).Mul(sdf.Rotate2d(a))
			ops[i] = counted{sdf.Transform2D(leaf, m), &counts[i]}
			centres[i] = c
			desc[i] = fmt.Sprintf("%s@(%s,%s)rot%s", d, ev.F(c.X), ev.F(c.Y), ev.F(a))
			// an operand may itself be a union (plain or blended), handed over as the *UnionSDF2 the
			// constructor returned; its leaves share the operand's evaluation counter
			if rapid.IntRange(0, 4).Draw(t, fmt.Sprintf("op%d.nested-union", i)) == 0 {
				leaf2, d2 := drawLeaf(t, fmt.Sprintf("op%d.second", i), S)
				off := v2.Vec{X: g.Coord(t, fmt.Sprintf("o%d.x", i), 0.7*S), Y: g.Coord(t, fmt.Sprintf("o%d.y", i), 0.7*S)}
				m2 := sdf.Translate2d(c.Add(off)).Mul(sdf.Rotate2d(a))
				inner := sdf.Union2D(ops[i], counted{sdf.Transform2D(leaf2, m2), &counts[i]})
				// the nested union keeps the plain minimum: a blended union's fillet can lie outside its
				// bounding box (known finding C01:blend-fillet-outside-box), which breaks the premise of
				// any box-based pruning above it - excluded by construction, see DESIGN.md 8.3
				ib := "min"
				ops[i] = inner
				desc[i] = fmt.Sprintf("union[%s](%s, %s+(%s,%s))", ib, desc[i], d2, ev.F(off.X), ev.F(off.Y))
				nestedOps++
			}
		}
		bl := blend{name: "min"}
		switch rapid.IntRange(0, 7).Draw(t, "blend") {
		case 4:
			k := g.LogUniform(t, "k", 1e-3*S, 2*S)
			bl = blend{"PolyMin", k, sdf.PolyMin(k)}
		case 5:
			k := g.LogUniform(t, "k", 1e-3*S, 2*S)
			bl = blend{"RoundMin", k, sdf.RoundMin(k)}
		case 6:
			k := g.LogUniform(t, "k", 1e-3*S, 2*S)
			bl = blend{"ChamferMin", k, sdf.ChamferMin(k)}
		case 7:
			k := g.LogUniform(t, "k", 1/S, 32/S)
			bl = blend{"ExpMin", k, sdf.ExpMin(k)}
		}
		// the operand list as callers build it: an existing slice that may hold nil entries (documented as
		// stripped); it is scribbled over after the constructor returned
		var args []sdf.SDF2
		nilAt := rapid.IntRange(-1, n).Draw(t, "nil-entry-at")
		for i, o := range ops {
			if i == nilAt {
				args = append(args, nil)
			}
			args = append(args, o)
		}
		if nilAt == n {
			args = append(args, nil)
		}
		us := sdf.Union2D(args...)
		for i := range args {
			args[i] = nil
		}
		rec.Add(fmt.Sprintf("union:nil-entry=%v", nilAt >= 0), 1)
		u, ok := us.(*sdf.UnionSDF2)
		if !ok {
			t.Fatalf("Union2D of %d operands did not return *UnionSDF2", n)
		}
		if bl.f != nil {
			u.SetMin(bl.f)
		}
		bb := u.BoundingBox()
		npts := rapid.IntRange(20, 60).Draw(t, "npts")
		prunedSomewhere := false
		for j := 0; j < npts; j++ {
			var p v2.Vec
			lbl := fmt.Sprintf("p%d", j)
			switch rapid.IntRange(0, 4).Draw(t, lbl+".kind") {
			case 0: // generic in the enlarged box
				c, h := bb.Center(), bb.Size().MulScalar(1.5)
				p = v2.Vec{X: c.X + g.F(-1, 1).Draw(t, lbl+".x")*h.X, Y: c.Y + g.F(-1, 1).Draw(t, lbl+".y")*h.Y}
			case 1: // near / inside an operand
				i := rapid.IntRange(0, n-1).Draw(t, lbl+".op")
				ob := ops[i].BoundingBox()
				h := ob.Size()
				p = v2.Vec{X: centres[i].X + g.F(-1, 1).Draw(t, lbl+".x")*h.X, Y: centres[i].Y + g.F(-1, 1).Draw(t, lbl+".y")*h.Y}
			case 2: // on a corner / edge of an operand box
				i := rapid.IntRange(0, n-1).Draw(t, lbl+".op")
				ob := ops[i].BoundingBox()
				xs := []float64{ob.Min.X, ob.Max.X, (ob.Min.X + ob.Max.X) / 2}
				ys := []float64{ob.Min.Y, ob.Max.Y, (ob.Min.Y + ob.Max.Y) / 2}
				p = v2.Vec{X: rapid.SampledFrom(xs).Draw(t, lbl+".x"), Y: rapid.SampledFrom(ys).Draw(t, lbl+".y")}
			case 3: // between two operands
				i := rapid.IntRange(0, n-1).Draw(t, lbl+".i")
				k := rapid.IntRange(0, n-1).Draw(t, lbl+".j")
				f := g.F(0, 1).Draw(t, lbl+".f")
				p = centres[i].MulScalar(1 - f).Add(centres[k].MulScalar(f))
			default: // far away
				c, h := bb.Center(), bb.Size().MulScalar(20)
				p = v2.Vec{X: c.X + g.F(-1, 1).Draw(t, lbl+".x")*h.X, Y: c.Y + g.F(-1, 1).Draw(t, lbl+".y")*h.Y}
			}
			for i := range counts {
				counts[i] = 0
			}
			fast := u.Evaluate(p)
			evaluated := make([]bool, n)
			nEval := 0
			for i := range counts {
				if counts[i] > 0 {
					evaluated[i] = true
					nEval++
				}
			}
			slow := u.EvaluateSlow(p)
			// the harness's own exhaustive evaluation: every operand's own Evaluate, folded in operand
			// order with the installed function (the plain minimum by default)
			ref := 0.0
			for i := range ops {
				x := ops[i].Evaluate(p)
				switch {
				case i == 0:
					ref = x
				case bl.f != nil:
					ref = bl.f(ref, x)
				default:
					ref = math.Min(ref, x)
				}
			}
			if bl.f == nil && slow != ref && !(math.IsNaN(slow) && math.IsNaN(ref)) {
				rec.Violation(t, "Union2D:EvaluateSlow-is-not-the-minimum-over-operands", "ops %v p %v: EvaluateSlow=%v, minimum of the operands' own values %v", desc, p, slow, ref)
			}
			if bl.f != nil && math.Abs(slow) > 1e-9*S && math.Abs(ref) > 1e-9*S && (slow < 0) != (ref < 0) {
				rec.Violation(t, "Union2D:EvaluateSlow-sign-differs-from-fold-over-operands", "ops %v blend %s(%v) p %v: EvaluateSlow=%v, %s folded over the operands' own values %v", desc, bl.name, bl.k, p, slow, bl.name, ref)
			}
			if nEval < n {
				prunedSomewhere = true
				rec.Add("union:points-with-pruning", 1)
			}
			rec.Add("union:points", 1)
			if bl.f == nil {
				if fast != slow && !(math.IsNaN(fast) && math.IsNaN(slow)) {
					rec.Violation(t, "Union2D:min-value", "ops %v p %v: Evaluate=%v EvaluateSlow=%v (evaluated %d of %d)", desc, p, fast, slow, nEval, n)
				}
				continue
			}
			tol := 1e-9 * S
			if math.Abs(fast) <= tol || math.Abs(slow) <= tol || (fast < 0) == (slow < 0) {
				continue
			}
			// sign disagreement under a blend: classify by what the pruned operands are
			prunedInside := false
			for i := 0; i < n; i++ {
				if !evaluated[i] && ops[i].Evaluate(p) < 0 {
					prunedInside = true
				}
			}
			if prunedInside {
				rec.Violation(t, "Union2D:pruned-operand-contains-point", "ops %v blend %s(%v) p %v: fast %v slow %v", desc, bl.name, bl.k, p, fast, slow)
			} else {
				rec.Violation(t, "Union2D:blend-reaches-pruned-operand", "ops %v blend %s(%v) p %v: fast %v slow %v (evaluated %d of %d)", desc, bl.name, bl.k, p, fast, slow, nEval, n)
			}
		}
		// the same queries from several goroutines at once (the uniform marching-cubes renderer evaluates an
		// extruded union that way): the pruned evaluation must not depend on who else is evaluating
		if rapid.IntRange(0, 3).Draw(t, "concurrent-callers") == 0 {
			var qs []v2.Vec
			c, h := bb.Center(), bb.Size().MulScalar(1.5)
			for j := 0; j < 64; j++ {
				qs = append(qs, v2.Vec{X: c.X + g.F(-1, 1).Draw(t, fmt.Sprintf("cq%d.x", j))*h.X, Y: c.Y + g.F(-1, 1).Draw(t, fmt.Sprintf("cq%d.y", j))*h.Y})
			}
			want := make([]float64, len(qs))
			for j, q := range qs {
				want[j] = u.EvaluateSlow(q)
			}
			const G = 8
			got := make([][]float64, G)
			var wg sync.WaitGroup
			for gi := 0; gi < G; gi++ {
				wg.Add(1)
				go func(gi int) {
					defer wg.Done()
					out := make([]float64, len(qs))
					for rep := 0; rep < 20; rep++ {
						for j := range qs {
							jj := (j*7 + gi*13 + rep) % len(qs)
							out[jj] = u.Evaluate(qs[jj])
						}
					}
					got[gi] = out
				}(gi)
			}
			wg.Wait()
			for gi := range got {
				for j := range qs {
					a, b := got[gi][j], want[j]
					bad := a != b && !(math.IsNaN(a) && math.IsNaN(b))
					if bl.f != nil {
						bad = math.Abs(a) > 1e-9*S && math.Abs(b) > 1e-9*S && (a < 0) != (b < 0)
					}
					if bad {
						rec.Violation(t, "Union2D:value-under-concurrent-callers", "ops %v blend %s p %v: Evaluate from goroutine %d of %d gave %v, exhaustive evaluation %v", desc, bl.name, qs[j], gi, G, a, b)
					}
				}
			}
			rec.Add("union:concurrent-caller-cases", 1)
		}
		rec.Case(prunedSomewhere, ev.Key(desc, bl.name, bl.k), "union:layout="+layout, "union:blend="+bl.name, fmt.Sprintf("union:n=%d", n), fmt.Sprintf("union:has-nested-union-operand=%v", nestedOps > 0))
		rec.Sample("union:"+bl.name, map[string]any{"operands": desc, "blend": bl.name, "k": bl.k, "points": npts, "pruned_somewhere": prunedSomewhere})
	})
}

// ---------------------------------------------------------------------------
// regression cases (plain, no rapid): shrunk failures found earlier

func TestRegress(t *testing.T) {
	rec := ev.Get()
	// Box3 edge class: within on exactly one axis
	b := sdf.Box3{Min: v3.Vec{}, Max: v3.Vec{X: 1, Y: 1, Z: 1}}
	for _, c := range []struct {
		p        v3.Vec
		min, max float64
	}{
		{v3.Vec{X: 1, Y: 1, Z: 0.5}, 0, 2.25},
		{v3.Vec{X: 2, Y: 2, Z: 0.5}, 2, 8.25},
		{v3.Vec{X: -1, Y: 0.5, Z: 3}, 5, 4 + 0.25 + 9},
		{v3.Vec{X: 0.5, Y: -2, Z: -2}, 8, 0.25 + 9 + 9},
	} {
		got := b.MinMaxDist2(c.p)
		rec.Case(true, ev.Key("regress-box3", c.p), "regress")
		if math.Abs(got[0]-c.min) > 1e-12 || math.Abs(got[1]-c.max) > 1e-12 {
			rec.FailCase(t, "TestRegress", "Box3.MinMaxDist2:min", c, "box [0,1]^3 p %v: got %v want [%v %v]", c.p, got, c.min, c.max)
		}
	}
	// union with a blend whose radius reaches an operand that box pruning skips
	{
		c0 := sdf.Box2D(v2.Vec{X: 0.25, Y: 0.25}, 0)
		c1, _ := sdf.Circle2D(0.25)
		u := sdf.Union2D(c0, sdf.Transform2D(c1, sdf.Translate2d(v2.Vec{X: 0, Y: 1}))).(*sdf.UnionSDF2)
		for _, bl := range []struct {
			name string
			f    sdf.MinFunc
		}{{"PolyMin(2)", sdf.PolyMin(2)}, {"ChamferMin(2)", sdf.ChamferMin(2)}, {"RoundMin(2)", sdf.RoundMin(2)}} {
			u.SetMin(bl.f)
			for _, p := range []v2.Vec{{X: 0.25, Y: 0.125}, {X: 0.3, Y: 0.5}, {X: -0.3, Y: 0.4}} {
				fast, slow := u.Evaluate(p), u.EvaluateSlow(p)
				rec.Case(true, ev.Key("regress-union", bl.name, p), "regress")
				if (fast < 0) != (slow < 0) {
					rec.FailCase(t, "TestRegress", "Union2D:blend-reaches-pruned-operand", map[string]any{"blend": bl.name, "p": p}, "%s p %v: Evaluate %v EvaluateSlow %v", bl.name, p, fast, slow)
				}
			}
		}
	}
}
