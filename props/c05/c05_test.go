package c05

import (
	"fmt"
	"math"
	"runtime"
	"sync"
	"testing"

	"github.com/deadsy/sdfx/render"
	"github.com/deadsy/sdfx/sdf"
	v2 "github.com/deadsy/sdfx/vec/v2"
	v3 "github.com/deadsy/sdfx/vec/v3"
	"pgregory.net/rapid"

	"verif/internal/ev"
	"verif/internal/g"
	"verif/internal/lat"
	"verif/internal/mesh"
	"verif/internal/shape"
)

func TestMain(m *testing.M) { ev.Main(m) }

type renderer struct {
	name string
	mk   func(cells int) render.Render3
}

var renderers = []renderer{
	{"uniform", func(c int) render.Render3 { return render.NewMarchingCubesUniform(c) }},
	{"octree", func(c int) render.Render3 { return render.NewMarchingCubesOctree(c) }},
}

// calibration: the lattice a renderer really samples for box [0,n]^3 with n cells,
// recorded with a small positive constant field (nothing pruned, nothing emitted).
type calib struct {
	all   lat.Axes3 // every sampled coordinate
	nodes lat.Axes3 // cell-corner coordinates
	step  float64
}

var (
	calMu sync.Mutex
	cals  = map[string]*calib{}
)

func boxN(n int) sdf.Box3 {
	return sdf.Box3{Min: v3.Vec{}, Max: v3.Vec{X: float64(n), Y: float64(n), Z: float64(n)}}
}

func calibrate(r renderer, n int) *calib {
	calMu.Lock()
	defer calMu.Unlock()
	k := fmt.Sprintf("%s/%d", r.name, n)
	if c, ok := cals[k]; ok {
		return c
	}
	rec := &lat.Recorder3{S: lat.Const3{V: 1e-3, BB: boxN(n)}}
	if ts := render.ToTriangles(rec, r.mk(n)); len(ts) != 0 {
		panic("calibration render of a positive constant field produced triangles")
	}
	c := &calib{all: lat.AxesOf3(rec.Pts, 1e-9)}
	if r.name == "octree" {
		// the octree also samples cube centres: corner nodes are every second coordinate
		pick := func(cs []float64) []float64 {
			var out []float64
			for i := 0; i < len(cs); i += 2 {
				out = append(out, cs[i])
			}
			return out
		}
		c.nodes = lat.Axes3{X: pick(c.all.X), Y: pick(c.all.Y), Z: pick(c.all.Z)}
	} else {
		c.nodes = c.all
	}
	c.step = c.nodes.X[1] - c.nodes.X[0]
	cals[k] = c
	return c
}

// field builds a lookup field on ALL sampled coordinates; node values are set
// through node indices (i,j,k of calib.nodes); every other coordinate (octree
// cube centres) keeps the small positive default so that no cube is pruned.
type field struct {
	c  *calib
	l  *lat.Lookup3
	oc bool
}

func newField(c *calib, n int, oct bool, def float64) *field {
	return &field{c: c, l: lat.NewLookup3(c.all, boxN(n), def), oc: oct}
}

func (f *field) set(i, j, k int, v float64) {
	if f.oc {
		f.l.Set(2*i, 2*j, 2*k, v)
	} else {
		f.l.Set(i, j, k, v)
	}
}

// magnitude classes
var posClasses = []string{"generic", "equal", "zero", "tiny13", "small11", "ratio-lo", "ratio-hi"}
var negClasses = []string{"generic", "equal", "tiny13", "small11", "ratio-lo", "ratio-hi"}

func magnitude(class string, u float64) float64 {
	switch class {
	case "equal":
		return 0.5
	case "zero":
		return 0
	case "tiny13":
		return 1e-13
	case "small11":
		return 1e-11
	case "ratio-lo":
		return 1e-6 * (0.5 + u)
	case "ratio-hi":
		return 0.75
	}
	return 0.05 + 0.7*u
}

func checkMesh(rec *ev.Rec, t ev.TB, fail func(key, msg string), name string, ts []*sdf.Triangle3, step float64, anyNeg bool, lo, hi v3.Vec) mesh.Report3 {
	r := mesh.Analyze3(ts, 1e-6*step)
	if r.OpenEdges > 0 {
		fail("MarchingCubes:"+name+":open-edge", fmt.Sprintf("%d directed edges without a matching reverse edge, e.g. %v -> %v (%d triangles)", r.OpenEdges, r.FirstOpen[0], r.FirstOpen[1], r.Tris))
	}
	if r.ExactDupTris > 0 {
		fail("MarchingCubes:"+name+":triangle-with-identical-vertices", fmt.Sprintf("%d triangles with two identical vertices, e.g. %v", r.ExactDupTris, *r.FirstDup))
	}
	vtol := 1e-9 * step * step * step * float64(1+r.Tris)
	if anyNeg && r.Tris > 0 && !(r.Volume > -vtol) {
		fail("MarchingCubes:"+name+":negative-volume", fmt.Sprintf("signed volume %v (normals point into the solid)", r.Volume))
	}
	if r.Tris > 0 {
		e := 1e-9 * step
		if r.Min.X < lo.X-e || r.Min.Y < lo.Y-e || r.Min.Z < lo.Z-e || r.Max.X > hi.X+e || r.Max.Y > hi.Y+e || r.Max.Z > hi.Z+e {
			fail("MarchingCubes:"+name+":vertex-outside-sampled-box", fmt.Sprintf("vertex bounds %v..%v outside sampled lattice %v..%v", r.Min, r.Max, lo, hi))
		}
	}
	return r
}

// TestAdjacentPairs: every sign assignment to the 12 corners of two
// face-adjacent cells (3 axes x 4096), with rapid-drawn magnitudes.
func TestAdjacentPairs(t *testing.T) {
	rec := ev.Get()
	const n = 3
	rapid.Check(t, func(t *rapid.T) {
		r := rapid.SampledFrom(renderers).Draw(t, "renderer")
		c := calibrate(r, n)
		var posC, negC [12]string
		var u [12]float64
		for i := 0; i < 12; i++ {
			posC[i] = rapid.SampledFrom(posClasses).Draw(t, fmt.Sprintf("pos%d", i))
			negC[i] = rapid.SampledFrom(negClasses).Draw(t, fmt.Sprintf("neg%d", i))
			u[i] = g.F(0, 1).Draw(t, fmt.Sprintf("u%d", i))
		}
		bg := rapid.SampledFrom([]float64{0.5, 0.05, 1e-6, 0.75}).Draw(t, "background")
		lo := v3.Vec{X: c.nodes.X[0], Y: c.nodes.Y[0], Z: c.nodes.Z[0]}
		hi := v3.Vec{X: c.nodes.X[len(c.nodes.X)-1], Y: c.nodes.Y[len(c.nodes.Y)-1], Z: c.nodes.Z[len(c.nodes.Z)-1]}
		configs := map[int]bool{}
		pairs := 0
		nonTrivial := 0
		if len(c.nodes.X) < 5 || len(c.nodes.Y) < 5 || len(c.nodes.Z) < 5 {
			t.Fatalf("calibrated lattice too small: %d x %d x %d nodes", len(c.nodes.X), len(c.nodes.Y), len(c.nodes.Z))
		}
		f := newField(c, n, r.name == "octree", bg)
		for axis := 0; axis < 3; axis++ {
			// reset the block region of the previous axis
			for i := 1; i <= 3; i++ {
				for j := 1; j <= 3; j++ {
					for k := 1; k <= 3; k++ {
						f.set(i, j, k, bg)
					}
				}
			}
			for word := 0; word < 4096; word++ {
				anyNeg := false
				// block of 2x2x3 nodes starting at node (1,1,1), long side along 'axis'
				var cellA, cellB int
				for m := 0; m < 12; m++ {
					a, b, l := m&1, (m>>1)&1, m>>2 // l = 0..2 along the long axis
					var i, j, k int
					switch axis {
					case 0:
						i, j, k = 1+l, 1+a, 1+b
					case 1:
						i, j, k = 1+a, 1+l, 1+b
					default:
						i, j, k = 1+a, 1+b, 1+l
					}
					v := magnitude(posC[m], u[m])
					if word&(1<<uint(m)) != 0 {
						v = -magnitude(negC[m], u[m])
						anyNeg = anyNeg || v < -1e-9
					}
					f.set(i, j, k, v)
					if word&(1<<uint(m)) != 0 {
						if l <= 1 {
							cellA |= 1 << uint(a+2*b+4*l)
						}
						if l >= 1 {
							cellB |= 1 << uint(a+2*b+4*(l-1))
						}
					}
				}
				configs[cellA], configs[cellB] = true, true
				pairs++
				ts := render.ToTriangles(f.l, r.mk(n))
				if len(ts) > 0 {
					nonTrivial++
				}
				checkMesh(rec, t, func(key, msg string) {
					rec.Violation(t, key, "%s renderer, axis %d, sign word %012b, classes +%v -%v background %v: %s", r.name, axis, word, posC, negC, bg, msg)
				}, r.name, ts, c.step, anyNeg, lo, hi)
			}
		}
		rec.Add("adjacent-pair-renders:"+r.name, int64(pairs))
		rec.Add("adjacent-pair-renders-with-triangles:"+r.name, int64(nonTrivial))
		rec.Add("distinct-cell-configurations-in-last-case", int64(len(configs)))
		rec.Case(true, ev.Key(r.name, posC, negC, u, bg), "pairs:"+r.name)
		rec.Sample("adjacent-pairs:"+r.name, map[string]any{"renderer": r.name, "pos_classes": posC, "neg_classes": negC, "background": bg, "renders": pairs, "with_triangles": nonTrivial, "cell_configs_seen": len(configs)})
	})
}

// TestRandomFields: larger random sign / magnitude fields.
func TestRandomFields(t *testing.T) {
	rec := ev.Get()
	rapid.Check(t, func(t *rapid.T) {
		r := rapid.SampledFrom(renderers).Draw(t, "renderer")
		n := rapid.IntRange(2, 6).Draw(t, "n")
		c := calibrate(r, n)
		bg := rapid.SampledFrom([]float64{0.5, 0.05, 1e-6}).Draw(t, "background")
		f := newField(c, n, r.name == "octree", bg)
		nx, ny, nz := len(c.nodes.X), len(c.nodes.Y), len(c.nodes.Z)
		pneg := g.F(0.05, 0.95).Draw(t, "pneg")
		anyNeg := false
		negs := 0
		// interior nodes only: the outer layer stays positive so the surface is strictly inside
		for i := 1; i < nx-1; i++ {
			for j := 1; j < ny-1; j++ {
				for k := 1; k < nz-1; k++ {
					l := fmt.Sprintf("n%d.%d.%d", i, j, k)
					u := g.F(0, 1).Draw(t, l+".u")
					if g.F(0, 1).Draw(t, l+".s") < pneg {
						v := -magnitude(rapid.SampledFrom(negClasses).Draw(t, l+".c"), u)
						f.set(i, j, k, v)
						anyNeg = anyNeg || v < -1e-9
						negs++
					} else {
						f.set(i, j, k, magnitude(rapid.SampledFrom(posClasses).Draw(t, l+".c"), u))
					}
				}
			}
		}
		lo := v3.Vec{X: c.nodes.X[0], Y: c.nodes.Y[0], Z: c.nodes.Z[0]}
		hi := v3.Vec{X: c.nodes.X[nx-1], Y: c.nodes.Y[ny-1], Z: c.nodes.Z[nz-1]}
		// the uniform renderer takes any implicit function with the right sign: the same field
		// amplified (values far larger than a cell, as x^2+y^2+z^2-1 or a squashed shape gives)
		var fld sdf.SDF3 = f.l
		amp := 1.0
		if r.name == "uniform" {
			amp = rapid.SampledFrom([]float64{1, 1, 4, 30, 1000}).Draw(t, "amplification")
			fld = lat.Scaled3{S: f.l, K: amp}
		}
		rec.Add(fmt.Sprintf("random-field:amplification=%g", amp), 1)
		ts := render.ToTriangles(fld, r.mk(n))
		checkMesh(rec, t, func(key, msg string) {
			rec.Violation(t, key, "%s renderer, random field n=%d (%d negative nodes, amplified x%g): %s", r.name, n, negs, amp, msg)
		}, r.name, ts, c.step, anyNeg, lo, hi)
		rec.Case(len(ts) > 0, ev.Key(r.name, n, f.l.V), "random-field:"+r.name, fmt.Sprintf("random-field:n=%d", n))
		rec.Sample("random-field:"+r.name, map[string]any{"renderer": r.name, "n": n, "negative_nodes": negs, "triangles": len(ts)})
	})
}

// scene wraps a generated shape program: enlarged box so that the surface is
// strictly inside the sampled volume.
func TestScenes(t *testing.T) {
	rec := ev.Get()
	rapid.Check(t, func(t *rapid.T) {
		r := rapid.SampledFrom(renderers).Draw(t, "renderer")
		S := rapid.SampledFrom([]float64{1, 10, 1, 10, 1e-7, 1e-4, 1e4}).Draw(t, "scale")
		n := shape.Gen3(t, shape.Opts{S: S, Depth: rapid.IntRange(0, 2).Draw(t, "depth"), Grammar: shape.Lipschitz, NoBlend: true, NoPoly: true, SolidUnion2: true})
		b, err := shape.Build(n)
		if err != nil {
			rec.Count("discarded:constructor-rejected", 1)
			rec.Case(false, "", "discarded")
			return
		}
		s := b.SDF3()
		bb := s.BoundingBox()
		sz := bb.Size()
		if !(sz.MinComponent() > 1e-6*S) || sz.MaxComponent() > 1e4*S {
			rec.Count("discarded:degenerate-box", 1)
			rec.Case(false, "", "discarded")
			return
		}
		cells := rapid.IntRange(3, ev.Pick(24, 48)).Draw(t, "cells")
		// enlarge the box a little and optionally shift it by a sub-cell amount
		h := sz.MaxComponent() / float64(cells)
		// margin 0: the shape in its own bounding box (flat faces and caps flush with it)
		margin := rapid.SampledFrom([]float64{0, 0, 0.02, 0.3, 1, 1.5}).Draw(t, "margin") * h
		shift := v3.Vec{X: g.F(-0.5, 0.5).Draw(t, "shx") * h, Y: g.F(-0.5, 0.5).Draw(t, "shy") * h, Z: g.F(-0.5, 0.5).Draw(t, "shz") * h}
		if rapid.Bool().Draw(t, "noshift") || margin == 0 {
			shift = v3.Vec{}
		}
		m := margin + math.Max(math.Abs(shift.X), math.Max(math.Abs(shift.Y), math.Abs(shift.Z)))
		nb := sdf.Box3{Min: bb.Min.SubScalar(m).Add(shift), Max: bb.Max.AddScalar(m).Add(shift)}
		amp := 1.0
		if r.name == "uniform" {
			// any positive multiple of the field has the same solid (see TestRandomFields)
			amp = rapid.SampledFrom([]float64{1, 1, 1, 5, 100}).Draw(t, "amplification")
		}
		rb := &lat.Recorder3{S: lat.Rebox3{S: lat.Scaled3{S: s, K: amp}, BB: nb}}
		// a quarter of the scenes are rendered while two other renders (both renderer kinds, a sphere
		// elsewhere) are in progress in the same process: a program that writes several parts in parallel
		var ts []*sdf.Triangle3
		if busyCase := rapid.IntRange(0, 3).Draw(t, "other-renders-running") == 0; busyCase {
			stop := make(chan struct{})
			var wg sync.WaitGroup
			for i := 0; i < 2; i++ {
				wg.Add(1)
				go func(i int) {
					defer wg.Done()
					decoy, _ := sdf.Sphere3D(3)
					d := sdf.Transform3D(decoy, sdf.Translate3d(v3.Vec{X: 1e3, Y: -1e3, Z: 5e2}))
					for {
						select {
						case <-stop:
							return
						default:
							render.ToTriangles(d, renderers[i%len(renderers)].mk(14+i))
							runtime.Gosched()
						}
					}
				}(i)
			}
			ts = render.ToTriangles(rb, r.mk(cells))
			close(stop)
			wg.Wait()
			rec.Add("scene:rendered-while-other-renders-run", 1)
		} else if rapid.IntRange(0, 2).Draw(t, "renderer-object-used-before") == 0 {
			// one renderer object for two models: it has rendered another solid (a ball somewhere in the same
			// box, or an unrelated one elsewhere) before it renders the scene
			ro := r.mk(cells)
			dr := nb.Size().MinComponent() * g.F(0.1, 0.45).Draw(t, "earlier-radius")
			sp, _ := sdf.Sphere3D(dr)
			if rapid.Bool().Draw(t, "earlier-in-the-same-box") {
				off := nb.Size().MulScalar(0.2 * g.F(-1, 1).Draw(t, "earlier-offset"))
				render.ToTriangles(lat.Rebox3{S: sdf.Transform3D(sp, sdf.Translate3d(nb.Center().Add(off))), BB: nb}, ro)
			} else {
				render.ToTriangles(sdf.Transform3D(sp, sdf.Translate3d(v3.Vec{X: 40, Y: -7, Z: 3})), ro)
			}
			ts = render.ToTriangles(rb, ro)
			rec.Add("scene:renderer-object-used-before", 1)
		} else {
			ts = render.ToTriangles(rb, r.mk(cells))
		}
		ax := lat.AxesOf3(rb.Pts, 1e-9*h)
		if len(ax.X) < 2 || len(ax.Y) < 2 || len(ax.Z) < 2 {
			// the octree pruned its top-level cube: an empty solid
			if len(ts) != 0 {
				t.Fatalf("triangles from a render that sampled a single coordinate")
			}
			rec.Case(false, "", "scene:empty-solid")
			return
		}
		anyNeg := false
		for _, v := range rb.Val {
			if v < -1e-9*S {
				anyNeg = true
			}
		}
		// precondition of the property: the surface lies inside the shape's bounding box. It is decided
		// on the box itself (a 14x14 grid on each face plus every sampled point on or outside the box),
		// not on the lattice the renderer chose: shapes whose box does not enclose them (the C01
		// findings) are out of scope here and counted.
		// (a solid that touches its box - the faces of a Box3D - satisfies the precondition; one that
		// continues beyond it does not: the probe surface is the box inflated by 1e-6 of a cell)
		insideBox := func(p v3.Vec) bool {
			e := 1e-6 * h
			return p.X < nb.Max.X+e && p.Y < nb.Max.Y+e && p.Z < nb.Max.Z+e && p.X > nb.Min.X-e && p.Y > nb.Min.Y-e && p.Z > nb.Min.Z-e
		}
		reaches := false
		for i, p := range rb.Pts {
			if rb.Val[i] < 0 && !insideBox(p) {
				reaches = true
			}
		}
		const G = 14
		pb := sdf.Box3{Min: nb.Min.SubScalar(1e-6 * h), Max: nb.Max.AddScalar(1e-6 * h)}
		nsz := pb.Size()
		for i := 0; i <= G && !reaches; i++ {
			for j := 0; j <= G && !reaches; j++ {
				u, w := float64(i)/G, float64(j)/G
				for _, p := range []v3.Vec{
					{X: pb.Min.X, Y: pb.Min.Y + u*nsz.Y, Z: pb.Min.Z + w*nsz.Z}, {X: pb.Max.X, Y: pb.Min.Y + u*nsz.Y, Z: pb.Min.Z + w*nsz.Z},
					{X: pb.Min.X + u*nsz.X, Y: pb.Min.Y, Z: pb.Min.Z + w*nsz.Z}, {X: pb.Min.X + u*nsz.X, Y: pb.Max.Y, Z: pb.Min.Z + w*nsz.Z},
					{X: pb.Min.X + u*nsz.X, Y: pb.Min.Y + w*nsz.Y, Z: pb.Min.Z}, {X: pb.Min.X + u*nsz.X, Y: pb.Min.Y + w*nsz.Y, Z: pb.Max.Z}} {
					if s.Evaluate(p) < 0 {
						reaches = true
					}
				}
			}
		}
		if reaches {
			rec.Count("discarded:solid-reaches-its-bounding-box", 1)
			rec.Case(false, "", "discarded")
			return
		}
		// the lattice must cover the bounding box: a renderer that stops short of it loses geometry.
		// The octree samples only the cubes it does not prune, so the extent of its lattice is taken from
		// a calibration render of a small positive constant field in the same box (every cube visited).
		if cells <= 32 {
			cal := &lat.Recorder3{S: lat.Const3{V: 1e-6 * h, BB: nb}}
			render.ToTriangles(cal, r.mk(cells))
			cx := lat.AxesOf3(cal.Pts, 1e-9*h)
			if e := 1e-9 * h; cx.X[0] > nb.Min.X+e || cx.Y[0] > nb.Min.Y+e || cx.Z[0] > nb.Min.Z+e ||
				cx.X[len(cx.X)-1] < nb.Max.X-e || cx.Y[len(cx.Y)-1] < nb.Max.Y-e || cx.Z[len(cx.Z)-1] < nb.Max.Z-e {
				rec.Violation(t, "MarchingCubes:"+r.name+":lattice-does-not-cover-bounding-box", "%s renderer, %d cells: the sampled lattice %v..%v does not cover the bounding box %v", r.name, cells, v3.Vec{X: cx.X[0], Y: cx.Y[0], Z: cx.Z[0]}, v3.Vec{X: cx.X[len(cx.X)-1], Y: cx.Y[len(cx.Y)-1], Z: cx.Z[len(cx.Z)-1]}, nb)
			}
			rec.Add("scene:lattice-coverage-checked", 1)
		}
		step := (ax.X[len(ax.X)-1] - ax.X[0]) / float64(len(ax.X)-1)
		if r.name == "octree" {
			step *= 2
		}
		lo := v3.Vec{X: ax.X[0], Y: ax.Y[0], Z: ax.Z[0]}
		hi := v3.Vec{X: ax.X[len(ax.X)-1], Y: ax.Y[len(ax.Y)-1], Z: ax.Z[len(ax.Z)-1]}
		rep := checkMesh(rec, t, func(key, msg string) {
			rec.Violation(t, key, "%s renderer, %d cells, scene %s box %v: %s", r.name, cells, n, nb, msg)
		}, r.name, ts, step, anyNeg, lo, hi)
		rec.Case(len(ts) > 0, ev.Key(r.name, cells, n.String(), margin, shift, amp), "scene:"+r.name, fmt.Sprintf("scene:own-bounding-box=%v", margin == 0), fmt.Sprintf("scene:amplification=%g", amp))
		rec.Add("scene-triangles", int64(len(ts)))
		rec.Sample("scene:"+r.name, map[string]any{"renderer": r.name, "cells": cells, "program": n.String(), "triangles": len(ts), "volume": rep.Volume})
	})
}

// ---------------------------------------------------------------------------
// corner slivers: the octree prunes a cube when the centre value reaches the half diagonal. The
// decisive surfaces clip a cube by a sliver at one corner with the normal along the cube diagonal
// (the pruned cube's neighbours still emit their corner triangles: an open fan if the cube is lost).

type sliverSolid struct {
	n      v3.Vec
	d      float64
	c      v3.Vec
	radius float64
	bb     sdf.Box3
}

func (s sliverSolid) Evaluate(p v3.Vec) float64 {
	return math.Max(s.n.Dot(p)-s.d, p.Sub(s.c).Length()-s.radius)
}
func (s sliverSolid) BoundingBox() sdf.Box3 { return s.bb }

func TestCornerSlivers(t *testing.T) {
	rec := ev.Get()
	rapid.Check(t, func(t *rapid.T) {
		r := rapid.SampledFrom([]renderer{renderers[1], renderers[1], renderers[0]}).Draw(t, "renderer")
		n := rapid.IntRange(6, ev.Pick(16, 32)).Draw(t, "n")
		c := calibrate(r, n)
		N := len(c.nodes.X) - 1
		maxL := 0
		for (2<<maxL) <= N/2 && (2<<maxL) <= n/2 {
			maxL++
		}
		L := rapid.IntRange(0, maxL).Draw(t, "level")
		side := 1 << L
		centre := v3.Vec{X: float64(n) / 2, Y: float64(n) / 2, Z: float64(n) / 2}
		radius := 0.4 * float64(n)
		var q, e v3.Vec
		idx := func(l string, axis []float64) (float64, float64) {
			// cubes of this level whose corner lies in the middle 40% of the box (well inside the ball)
			lo, hi := int(math.Ceil(0.3*float64(n)/c.step/float64(side))), int(math.Floor(0.7*float64(n)/c.step/float64(side)))
			if hi < lo {
				hi = lo
			}
			a := rapid.IntRange(lo, hi).Draw(t, l+".cube-corner")
			if a*side > len(axis)-1 {
				a = (len(axis) - 1) / side
			}
			return axis[a*side], float64(1 - 2*rapid.IntRange(0, 1).Draw(t, l+".direction"))
		}
		q.X, e.X = idx("x", c.nodes.X)
		q.Y, e.Y = idx("y", c.nodes.Y)
		q.Z, e.Z = idx("z", c.nodes.Z)
		eps := g.LogUniform(t, "sliver-depth-in-cube-sides", 1e-7, 1e-2)
		nrm := e.MulScalar(1 / math.Sqrt(3))
		s := sliverSolid{n: nrm, d: nrm.Dot(q) + eps*float64(side)*c.step, c: centre, radius: radius, bb: boxN(n)}
		ts := render.ToTriangles(s, r.mk(n))
		lo := v3.Vec{X: c.nodes.X[0], Y: c.nodes.Y[0], Z: c.nodes.Z[0]}
		hi := v3.Vec{X: c.nodes.X[len(c.nodes.X)-1], Y: c.nodes.Y[len(c.nodes.Y)-1], Z: c.nodes.Z[len(c.nodes.Z)-1]}
		desc := fmt.Sprintf("ball(%v at %v) cut by the half space that ends %g cube sides past the corner %v of a level-%d cube (side %d cells), normal %v", radius, centre, eps, q, L, side, nrm)
		checkMesh(rec, t, func(key, msg string) {
			rec.Violation(t, key, "%s renderer n=%d, %s: %s", r.name, n, desc, msg)
		}, r.name, ts, c.step, true, lo, hi)
		rec.Case(len(ts) > 0, ev.Key(r.name, n, desc), "corner-sliver:"+r.name, fmt.Sprintf("corner-sliver:level=%d", L), fmt.Sprintf("corner-sliver:depth=1e%d", int(math.Floor(math.Log10(eps)))))
		rec.Sample("corner-sliver:"+r.name, map[string]any{"renderer": r.name, "n": n, "scene": desc, "triangles": len(ts)})
	})
}

// ---------------------------------------------------------------------------
// flush faces: solids whose flat faces coincide with their own bounding box (boxes, cylinder caps,
// extrusions), rendered in that box at sizes that are (nearly) whole numbers of cells - the padding
// the renderers add around the box is all that keeps those faces inside the lattice.

func TestFlushFaces(t *testing.T) {
	rec := ev.Get()
	rapid.Check(t, func(t *rapid.T) {
		r := rapid.SampledFrom(renderers).Draw(t, "renderer")
		cells := rapid.IntRange(3, ev.Pick(40, 80)).Draw(t, "cells")
		// sizes as a designer types them: one or two decimals, or an exact multiple of the cell size
		dim := func(l string) float64 {
			switch rapid.IntRange(0, 2).Draw(t, l+".how") {
			case 0:
				return float64(rapid.IntRange(1, 200).Draw(t, l+".tenths")) / 10
			case 1:
				return float64(rapid.IntRange(1, 2000).Draw(t, l+".hundredths")) / 100
			}
			return float64(rapid.IntRange(1, 30).Draw(t, l+".int"))
		}
		var s sdf.SDF3
		var err error
		desc := ""
		switch rapid.SampledFrom([]string{"box", "box", "cube", "cylinder", "extrusion"}).Draw(t, "solid") {
		case "box":
			v := v3.Vec{X: dim("x"), Y: dim("y"), Z: dim("z")}
			s, err = sdf.Box3D(v, 0)
			desc = fmt.Sprintf("Box3D(%v)", v)
		case "cube":
			a := dim("a")
			s, err = sdf.Box3D(v3.Vec{X: a, Y: a, Z: a}, 0)
			desc = fmt.Sprintf("Box3D cube %v", a)
		case "cylinder":
			hgt, rad := dim("h"), dim("r")
			s, err = sdf.Cylinder3D(hgt, rad, 0)
			desc = fmt.Sprintf("Cylinder3D(%v,%v,0)", hgt, rad)
		default:
			a, b, hgt := dim("a"), dim("b"), dim("h")
			s = sdf.Extrude3D(sdf.Box2D(v2.Vec{X: a, Y: b}, 0), hgt)
			desc = fmt.Sprintf("Extrude3D(Box2D(%v,%v),%v)", a, b, hgt)
		}
		if err != nil {
			t.Fatalf("constructor refused %s: %v", desc, err)
		}
		if c := rapid.IntRange(0, 2).Draw(t, "placed"); c > 0 {
			off := v3.Vec{X: dim("ox"), Y: -dim("oy"), Z: dim("oz")}
			s = sdf.Transform3D(s, sdf.Translate3d(off))
			desc += fmt.Sprintf(" at %v", off)
		}
		sz := s.BoundingBox().Size()
		if sz.MaxComponent() > 60*sz.MinComponent() {
			rec.Case(false, "", "flush:too-thin")
			return
		}
		rb := &lat.Recorder3{S: s}
		ts := render.ToTriangles(rb, r.mk(cells))
		h := sz.MaxComponent() / float64(cells)
		ax := lat.AxesOf3(rb.Pts, 1e-9*h)
		if len(ax.X) < 2 || len(ax.Y) < 2 || len(ax.Z) < 2 {
			// the octree pruned its top cube: a solid thinner than the lattice resolves (completeness is C06's subject)
			rec.Case(false, "", "flush:unresolved")
			return
		}
		step := (ax.X[len(ax.X)-1] - ax.X[0]) / float64(len(ax.X)-1)
		if r.name == "octree" {
			step *= 2
		}
		lo := v3.Vec{X: ax.X[0], Y: ax.Y[0], Z: ax.Z[0]}
		hi := v3.Vec{X: ax.X[len(ax.X)-1], Y: ax.Y[len(ax.Y)-1], Z: ax.Z[len(ax.Z)-1]}
		checkMesh(rec, t, func(key, msg string) {
			rec.Violation(t, key, "%s renderer, %d cells, %s in its own bounding box: %s", r.name, cells, desc, msg)
		}, r.name, ts, step, true, lo, hi)
		whole := 0
		for _, q := range []float64{sz.X / h, sz.Y / h, sz.Z / h} {
			if math.Abs(q-math.Round(q)) < 1e-9 {
				whole++
			}
		}
		rec.Case(len(ts) > 0, ev.Key(r.name, cells, desc), "flush:"+r.name, fmt.Sprintf("flush:axes-with-a-whole-number-of-cells=%d", whole))
		rec.Sample("flush:"+r.name, map[string]any{"renderer": r.name, "cells": cells, "solid": desc, "triangles": len(ts)})
	})
}

// TestAligned: boxes whose faces pass exactly through lattice nodes.
func TestAligned(t *testing.T) {
	rec := ev.Get()
	rapid.Check(t, func(t *rapid.T) {
		r := rapid.SampledFrom(renderers).Draw(t, "renderer")
		n := rapid.IntRange(3, 8).Draw(t, "n")
		c := calibrate(r, n)
		// a box (optionally a union of two) whose faces sit on lattice node coordinates
		pickFace := func(l string, cs []float64) (float64, float64) {
			i := rapid.IntRange(1, len(cs)-3).Draw(t, l+".lo")
			j := rapid.IntRange(i+1, len(cs)-2).Draw(t, l+".hi")
			return cs[i], cs[j]
		}
		mk := func(l string) sdf.SDF3 {
			x0, x1 := pickFace(l+"x", c.nodes.X)
			y0, y1 := pickFace(l+"y", c.nodes.Y)
			z0, z1 := pickFace(l+"z", c.nodes.Z)
			bx, err := sdf.Box3D(v3.Vec{X: x1 - x0, Y: y1 - y0, Z: z1 - z0}, 0)
			if err != nil {
				t.Fatalf("Box3D: %v", err)
			}
			return sdf.Transform3D(bx, sdf.Translate3d(v3.Vec{X: (x0 + x1) / 2, Y: (y0 + y1) / 2, Z: (z0 + z1) / 2}))
		}
		s := mk("a")
		kind := rapid.SampledFrom([]string{"box", "union", "difference"}).Draw(t, "kind")
		switch kind {
		case "union":
			s = sdf.Union3D(s, mk("b"))
		case "difference":
			s = sdf.Difference3D(s, mk("b"))
		}
		g.Ulp(0, 0)
		ts := render.ToTriangles(lat.Rebox3{S: s, BB: boxN(n)}, r.mk(n))
		lo := v3.Vec{X: c.nodes.X[0], Y: c.nodes.Y[0], Z: c.nodes.Z[0]}
		hi := v3.Vec{X: c.nodes.X[len(c.nodes.X)-1], Y: c.nodes.Y[len(c.nodes.Y)-1], Z: c.nodes.Z[len(c.nodes.Z)-1]}
		checkMesh(rec, t, func(key, msg string) {
			rec.Violation(t, key, "%s renderer n=%d, lattice-aligned %s: %s", r.name, n, kind, msg)
		}, r.name, ts, c.step, true, lo, hi)
		rec.Case(len(ts) > 0, ev.Key(r.name, n, kind, len(ts), fmt.Sprint(s.BoundingBox())), "aligned:"+r.name+":"+kind)
		rec.Sample("aligned:"+kind, map[string]any{"renderer": r.name, "n": n, "kind": kind, "triangles": len(ts)})
	})
}

// ---------------------------------------------------------------------------
// all resolutions: a sparse scene at high cell counts (octree renderer; the uniform renderer
// would need ~10^9 evaluations there)

type capsule struct {
	a, b v3.Vec
	r    float64
	bb   sdf.Box3
}

func (c capsule) Evaluate(p v3.Vec) float64 {
	ab, ap := c.b.Sub(c.a), p.Sub(c.a)
	t := math.Max(0, math.Min(1, ap.Dot(ab)/ab.Length2()))
	return p.Sub(c.a.Add(ab.MulScalar(t))).Length() - c.r
}
func (c capsule) BoundingBox() sdf.Box3 { return c.bb }

func TestHighResolution(t *testing.T) {
	rec := ev.Get()
	rapid.Check(t, func(t *rapid.T) {
		cells := rapid.IntRange(100, ev.Pick(900, 1400)).Draw(t, "cells")
		L := 100.0
		h := L / float64(cells)
		dir := v3.Vec{X: g.F(-1, 1).Draw(t, "dx"), Y: g.F(-1, 1).Draw(t, "dy"), Z: g.F(-1, 1).Draw(t, "dz")}
		if rapid.IntRange(0, 2).Draw(t, "axis-aligned") == 0 {
			dir = [3]v3.Vec{{X: 1}, {Y: 1}, {Z: 1}}[rapid.IntRange(0, 2).Draw(t, "axis")]
		}
		if dir.Length() < 0.1 {
			dir = v3.Vec{Z: 1}
		}
		dir = dir.Normalize()
		r := h * g.F(1.2, 3).Draw(t, "radius-in-cells")
		c := v3.Vec{X: g.F(-2, 2).Draw(t, "cx"), Y: g.F(-2, 2).Draw(t, "cy"), Z: g.F(-2, 2).Draw(t, "cz")}
		half := math.Min(0.45*L/math.Max(math.Abs(dir.X), math.Max(math.Abs(dir.Y), math.Abs(dir.Z))), 0.8*L)
		half = math.Min(half, 0.45*L-r-3)
		s := capsule{a: c.Sub(dir.MulScalar(half)), b: c.Add(dir.MulScalar(half)), r: r, bb: sdf.Box3{Min: v3.Vec{X: -L / 2, Y: -L / 2, Z: -L / 2}, Max: v3.Vec{X: L / 2, Y: L / 2, Z: L / 2}}}
		ts := render.ToTriangles(s, render.NewMarchingCubesOctree(cells))
		e := 0.01*L + h
		checkMesh(rec, t, func(key, msg string) {
			rec.Violation(t, key, "octree renderer, %d cells, capsule %v..%v radius %v in a %v box: %s", cells, s.a, s.b, r, L, msg)
		}, "octree", ts, h, true, s.bb.Min.SubScalar(e), s.bb.Max.AddScalar(L))
		if len(ts) == 0 {
			rec.Violation(t, "MarchingCubes:octree:empty-mesh", "octree renderer, %d cells, capsule radius %v: no triangles", cells, r)
		}
		rec.Case(len(ts) > 0, ev.Key("highres", cells, s.a, s.b, r), "highres:octree")
		rec.Sample("highres", map[string]any{"cells": cells, "a": s.a, "b": s.b, "radius": r, "triangles": len(ts)})
	})
}

// ---------------------------------------------------------------------------
// several bodies into ONE triangle writer (sdf.NewTriangle3Buffer), one after the other or side by side:
// what arrives is the union of the meshes, so it must be closed as well and enclose the sum of the volumes.

func TestBodiesIntoOneWriter(t *testing.T) {
	rec := ev.Get()
	rapid.Check(t, func(t *rapid.T) {
		r := rapid.SampledFrom(renderers).Draw(t, "renderer")
		nb := rapid.IntRange(2, 4).Draw(t, "bodies")
		together := rapid.Bool().Draw(t, "side-by-side")
		cells := rapid.IntRange(8, ev.Pick(28, 48)).Draw(t, "cells")
		var bodies []sdf.SDF3
		desc := ""
		for i := 0; i < nb; i++ {
			rad := g.Length(t, fmt.Sprintf("r%d", i), 0.5, 3)
			sp, _ := sdf.Sphere3D(rad)
			c := v3.Vec{X: 10 * float64(i), Y: g.Coord(t, fmt.Sprintf("y%d", i), 3), Z: g.Coord(t, fmt.Sprintf("z%d", i), 3)}
			bodies = append(bodies, sdf.Transform3D(sp, sdf.Translate3d(c)))
			desc += fmt.Sprintf("sphere(%g)@%v ", rad, c)
		}
		ch := make(chan []*sdf.Triangle3)
		var all []*sdf.Triangle3
		done := make(chan struct{})
		go func() {
			defer close(done)
			for ts := range ch {
				all = append(all, ts...)
			}
		}()
		w := sdf.NewTriangle3Buffer(ch)
		if together {
			var wg sync.WaitGroup
			for _, b := range bodies {
				wg.Add(1)
				go func(b sdf.SDF3) { defer wg.Done(); r.mk(cells).Render(b, w) }(b)
			}
			wg.Wait()
		} else {
			// one after the other, through one renderer object or a fresh one per body
			one := r.mk(cells)
			sameObject := rapid.Bool().Draw(t, "one-renderer-object")
			for _, b := range bodies {
				if sameObject {
					one.Render(b, w)
				} else {
					r.mk(cells).Render(b, w)
				}
			}
		}
		w.Close()
		close(ch)
		<-done
		// the reference: every body alone
		want, wantTris := 0.0, 0
		h := math.Inf(1)
		for _, b := range bodies {
			ts := render.ToTriangles(b, r.mk(cells))
			wantTris += len(ts)
			want += mesh.Analyze3(ts, 1e-9).Volume
			h = math.Min(h, b.BoundingBox().Size().MaxComponent()/float64(cells))
		}
		for _, tr := range all {
			if tr == nil {
				rec.Violation(t, "MarchingCubes:"+r.name+":shared-writer:nil-triangle", "%d bodies (%s), side by side=%v: the writer delivered a nil triangle", nb, desc, together)
				return
			}
		}
		rep := mesh.Analyze3(all, 1e-6*h)
		if len(all) != wantTris {
			rec.Violation(t, "MarchingCubes:"+r.name+":shared-writer:triangle-count", "%d bodies (%s), side by side=%v, %d cells: %d triangles arrived, the bodies alone give %d", nb, desc, together, cells, len(all), wantTris)
		} else if rep.OpenEdges > 0 {
			rec.Violation(t, "MarchingCubes:"+r.name+":shared-writer:open-edge", "%d bodies (%s), side by side=%v, %d cells: %d directed edges without a reverse edge", nb, desc, together, cells, rep.OpenEdges)
		} else if math.Abs(rep.Volume-want) > 1e-9*math.Abs(want) {
			rec.Violation(t, "MarchingCubes:"+r.name+":shared-writer:volume", "%d bodies (%s), side by side=%v: enclosed volume %v, sum over the bodies %v", nb, desc, together, rep.Volume, want)
		}
		rec.Case(true, ev.Key("one-writer", r.name, desc, cells, together), "one-writer:"+r.name, fmt.Sprintf("one-writer:side-by-side=%v", together))
	})
}
