package c13

// Independent byte-level reading of binary STL files and independent reading of
// decimal number text. Nothing here uses sdfx types or strconv.ParseFloat.

import (
	"encoding/binary"
	"fmt"
	"math"
	"math/big"
	"strings"
)

// rawTri is one 50-byte record: the twelve float32 bit patterns and the attribute word.
type rawTri struct {
	N    [3]uint32    // normal, IEEE-754 single bit patterns
	V    [3][3]uint32 // vertex j, component k
	Attr uint16
}

type rawSTL struct {
	Header [80]byte
	Count  uint32
	Tris   []rawTri
	Size   int
}

// parseBinarySTL decodes as many whole records as the file holds (it does not
// trust the count field); the caller compares Size, Count and len(Tris).
func parseBinarySTL(b []byte) (rawSTL, error) {
	var s rawSTL
	s.Size = len(b)
	if len(b) < 84 {
		return s, fmt.Errorf("file has %d bytes, shorter than the 84-byte header+count", len(b))
	}
	copy(s.Header[:], b[:80])
	s.Count = binary.LittleEndian.Uint32(b[80:84])
	body := b[84:]
	for len(body) >= 50 {
		var r rawTri
		for k := 0; k < 3; k++ {
			r.N[k] = binary.LittleEndian.Uint32(body[4*k:])
		}
		for j := 0; j < 3; j++ {
			for k := 0; k < 3; k++ {
				r.V[j][k] = binary.LittleEndian.Uint32(body[12+12*j+4*k:])
			}
		}
		r.Attr = binary.LittleEndian.Uint16(body[48:])
		s.Tris = append(s.Tris, r)
		body = body[50:]
	}
	if len(body) != 0 {
		return s, fmt.Errorf("%d trailing bytes after %d whole records", len(body), len(s.Tris))
	}
	return s, nil
}

// tri is a triangle given as float64 coordinates: [vertex][component].
type tri [3][3]float64

// refNormal computes the right-hand-rule unit normal (b-a)x(c-a) in float64 with
// its own arithmetic and reports how well conditioned the result is:
// sin = |cross| / (|e1| |e2|). ok=false when the cross product is exactly zero or
// its squared length leaves the comfortable float64 range.
func refNormal(t tri) (n [3]float64, sin float64, ok bool) {
	var e1, e2 [3]float64
	for k := 0; k < 3; k++ {
		e1[k] = t[1][k] - t[0][k]
		e2[k] = t[2][k] - t[0][k]
	}
	c := [3]float64{
		e1[1]*e2[2] - e1[2]*e2[1],
		e1[2]*e2[0] - e1[0]*e2[2],
		e1[0]*e2[1] - e1[1]*e2[0],
	}
	l2 := c[0]*c[0] + c[1]*c[1] + c[2]*c[2]
	if !(l2 > 1e-280 && l2 < 1e280) {
		return n, 0, false
	}
	l := math.Sqrt(l2)
	l1 := math.Sqrt(e1[0]*e1[0] + e1[1]*e1[1] + e1[2]*e1[2])
	l2e := math.Sqrt(e2[0]*e2[0] + e2[1]*e2[1] + e2[2]*e2[2])
	if !(l1 > 0 && l2e > 0) || math.IsInf(l1, 0) || math.IsInf(l2e, 0) {
		return n, 0, false
	}
	for k := 0; k < 3; k++ {
		n[k] = c[k] / l
	}
	return n, l / (l1 * l2e), true
}

// decimalValue converts the text of a decimal number ([+-]digits[.digits][(e|E)[+-]digits])
// to the nearest float64 through exact rational arithmetic (math/big), i.e.
// without strconv. neg reports a leading minus sign (for -0).
func decimalValue(s string) (v float64, neg bool, err error) {
	orig := s
	if s == "" {
		return 0, false, fmt.Errorf("empty number")
	}
	if s[0] == '+' || s[0] == '-' {
		neg = s[0] == '-'
		s = s[1:]
	}
	exp := 0
	if i := strings.IndexAny(s, "eE"); i >= 0 {
		es := s[i+1:]
		s = s[:i]
		eneg := false
		if es != "" && (es[0] == '+' || es[0] == '-') {
			eneg = es[0] == '-'
			es = es[1:]
		}
		if es == "" {
			return 0, neg, fmt.Errorf("bad exponent in %q", orig)
		}
		for _, ch := range es {
			if ch < '0' || ch > '9' {
				return 0, neg, fmt.Errorf("bad exponent in %q", orig)
			}
			exp = exp*10 + int(ch-'0')
			if exp > 5000 {
				return 0, neg, fmt.Errorf("exponent too large in %q", orig)
			}
		}
		if eneg {
			exp = -exp
		}
	}
	ip, fp := s, ""
	if i := strings.IndexByte(s, '.'); i >= 0 {
		ip, fp = s[:i], s[i+1:]
	}
	if ip == "" && fp == "" {
		return 0, neg, fmt.Errorf("no digits in %q", orig)
	}
	digits := ip + fp
	for _, ch := range digits {
		if ch < '0' || ch > '9' {
			return 0, neg, fmt.Errorf("bad digit in %q", orig)
		}
	}
	m, _ := new(big.Int).SetString(digits, 10)
	exp -= len(fp)
	r := new(big.Rat).SetInt(m)
	p := new(big.Int).Exp(big.NewInt(10), big.NewInt(int64(abs(exp))), nil)
	if exp >= 0 {
		r.Mul(r, new(big.Rat).SetInt(p))
	} else {
		r.Quo(r, new(big.Rat).SetInt(p))
	}
	v, _ = r.Float64()
	if neg {
		v = -v // gives -0 for a zero magnitude
	}
	return v, neg, nil
}

func abs(i int) int {
	if i < 0 {
		return -i
	}
	return i
}
