package c13

import (
	"bytes"
	"fmt"
	"hash/fnv"
	"math"
	"os"
	"path/filepath"
	"strings"
	"testing"

	"github.com/deadsy/sdfx/render"
	"github.com/deadsy/sdfx/sdf"
	v3 "github.com/deadsy/sdfx/vec/v3"
	"pgregory.net/rapid"

	"verif/internal/ev"
)

func TestMain(m *testing.M) { ev.Main(m) }

// Tolerances / domain limits (also listed in plan.json assumptions).
const (
	normalTol = 2e-6 // absolute, per component (DESIGN section 6, "STL normal")
	// a triangle counts as non-degenerate for the normal check when the float64
	// cross product of its edges is well conditioned: |e1 x e2| >= minSin*|e1|*|e2|.
	// Then float64 evaluation of the normal (the library's and the oracle's) is
	// within ~1e-15/minSin = 1e-9 of the true unit normal, far inside normalTol.
	minSin = 1e-6
)

// ---------------------------------------------------------------------------
// scratch directory of this process

var scratchDir string

func scratch(t interface{ Fatalf(string, ...any) }) string {
	if scratchDir == "" {
		d, err := os.MkdirTemp("", "c13-")
		if err != nil {
			t.Fatalf("mkdtemp: %v", err)
		}
		scratchDir = d
	}
	return scratchDir
}

// ---------------------------------------------------------------------------
// the scripted renderer: replays a triangle list in given batch sizes

type scripted struct {
	mesh    []*sdf.Triangle3
	pattern []int // batch sizes, cycled; 0 = an empty Write
}

func (s scripted) Info(sdf.SDF3) string { return "scripted" }

func (s scripted) Render(_ sdf.SDF3, out sdf.Triangle3Writer) {
	i, k := 0, 0
	for i < len(s.mesh) {
		n := len(s.mesh) - i
		if len(s.pattern) > 0 {
			n = s.pattern[k%len(s.pattern)]
			k++
			if n < 0 {
				out.Close() // the end of one part of a composite render
				continue
			}
			if n > len(s.mesh)-i {
				n = len(s.mesh) - i
			}
			if n == 0 && k > 4*len(s.pattern)+4*len(s.mesh) {
				n = 1 // an all-zero pattern must still terminate
			}
		}
		out.Write(s.mesh[i : i+n])
		i += n
	}
	out.Close()
}

// ---------------------------------------------------------------------------
// the oracle for one list

type failure struct{ key, msg string }

func failf(key, format string, args ...any) *failure {
	return &failure{key, fmt.Sprintf(format, args...)}
}

type stats struct {
	normalChecked, degenerate, illConditioned int
}

func toMesh(list []tri) []*sdf.Triangle3 {
	mesh := make([]*sdf.Triangle3, len(list))
	for i, t := range list {
		mesh[i] = &sdf.Triangle3{
			v3.Vec{X: t[0][0], Y: t[0][1], Z: t[0][2]},
			v3.Vec{X: t[1][0], Y: t[1][1], Z: t[1][2]},
			v3.Vec{X: t[2][0], Y: t[2][1], Z: t[2][2]},
		}
	}
	return mesh
}

func f32bits(x float64) uint32 { return math.Float32bits(float32(x)) }

// checkBinaryList runs SaveSTL, LoadSTL and ToSTL on the list and compares with
// the independent byte parser. dir is a scratch directory.
// stale >= 0: both output paths already hold a file of that many bytes (a previous, possibly larger,
// render written to the same name); stale < 0: the paths do not exist.
func checkBinaryList(dir string, list []tri, pattern []int, st *stats, stale int) *failure {
	n := len(list)
	mesh := toMesh(list)
	pSave := filepath.Join(dir, "save.stl")
	pStream := filepath.Join(dir, "stream.stl")
	os.Remove(pSave)
	os.Remove(pStream)
	if stale >= 0 {
		junk := make([]byte, stale)
		for i := range junk {
			junk[i] = 0xAA
		}
		os.WriteFile(pSave, junk, 0o644)
		os.WriteFile(pStream, junk, 0o644)
	}

	// --- a save that cannot write a single byte must not report success
	if err := render.SaveSTL("/dev/full", mesh); err == nil {
		return failf("SaveSTL:success-reported-for-unwritable-file", "SaveSTL(\"/dev/full\", %d triangles) returned nil: nothing can be written there", n)
	}
	// --- batch writer, bytes on disk
	if err := render.SaveSTL(pSave, mesh); err != nil {
		return failf("SaveSTL:error", "SaveSTL(%d triangles) returned %v", n, err)
	}
	saved, err := os.ReadFile(pSave)
	if err != nil {
		return failf("SaveSTL:error", "cannot read back %s: %v", pSave, err)
	}
	if len(saved) != 84+50*n {
		return failf("SaveSTL:file-size", "%d triangles: file has %d bytes, want 84+50*%d = %d", n, len(saved), n, 84+50*n)
	}
	raw, err := parseBinarySTL(saved)
	if err != nil {
		return failf("SaveSTL:file-size", "%d triangles: %v", n, err)
	}
	if raw.Count != uint32(n) {
		return failf("SaveSTL:count-field", "%d triangles: count field (bytes 80..83 little-endian) = %d", n, raw.Count)
	}
	if len(raw.Tris) != n {
		return failf("SaveSTL:file-size", "%d triangles: %d records", n, len(raw.Tris))
	}
	for i, r := range raw.Tris {
		in := list[i]
		for j := 0; j < 3; j++ {
			for k := 0; k < 3; k++ {
				if want := f32bits(in[j][k]); r.V[j][k] != want {
					return failf("SaveSTL:vertex-bits", "triangle %d of %d %v: record vertex %d component %d = %#08x (%g), want float32(%v) = %#08x (%g)",
						i, n, in, j+1, k, r.V[j][k], math.Float32frombits(r.V[j][k]), in[j][k], want, math.Float32frombits(want))
				}
			}
		}
		if r.Attr != 0 {
			return failf("SaveSTL:attribute-bytes", "triangle %d of %d: attribute bytes = %#04x, want 0", i, n, r.Attr)
		}
		want, sin, ok := refNormal(in)
		switch {
		case !ok:
			st.degenerate++
		case sin < minSin:
			st.illConditioned++
		default:
			st.normalChecked++
			for k := 0; k < 3; k++ {
				got := float64(math.Float32frombits(r.N[k]))
				if !(math.Abs(got-want[k]) <= normalTol) {
					return failf("SaveSTL:normal", "triangle %d of %d %v (sin %.3g): stored normal (%g %g %g), right-hand unit normal (%.9g %.9g %.9g)",
						i, n, in, sin, math.Float32frombits(r.N[0]), math.Float32frombits(r.N[1]), math.Float32frombits(r.N[2]), want[0], want[1], want[2])
				}
			}
		}
	}

	// --- loader on the saved file
	got, err := render.LoadSTL(pSave)
	if err != nil {
		return failf("LoadSTL:binary-roundtrip:error", "LoadSTL of a SaveSTL file with %d triangles returned %v", n, err)
	}
	if len(got) != n {
		return failf("LoadSTL:binary-roundtrip:count", "LoadSTL of a SaveSTL file with %d triangles returned %d triangles", n, len(got))
	}
	for i, g := range got {
		if g == nil {
			return failf("LoadSTL:binary-roundtrip:vertex", "triangle %d of %d is nil", i, n)
		}
		for j := 0; j < 3; j++ {
			gv := [3]float64{g[j].X, g[j].Y, g[j].Z}
			for k := 0; k < 3; k++ {
				want := float64(float32(list[i][j][k]))
				if math.Float64bits(gv[k]) != math.Float64bits(want) {
					return failf("LoadSTL:binary-roundtrip:vertex", "triangle %d of %d: loaded vertex %d component %d = %v, want float32(%v) = %v",
						i, n, j+1, k, gv[k], list[i][j][k], want)
				}
			}
		}
	}

	// --- streaming writer through render.ToSTL with a scripted renderer
	render.ToSTL(nil, pStream, scripted{mesh, pattern})
	streamed, err := os.ReadFile(pStream)
	if err != nil {
		return failf("ToSTL:bytes-differ-from-SaveSTL", "ToSTL wrote no readable file: %v", err)
	}
	if !bytes.Equal(streamed, saved) {
		what := fmt.Sprintf("size %d vs %d", len(streamed), len(saved))
		if len(streamed) == len(saved) {
			for o := range saved {
				if saved[o] != streamed[o] {
					what = fmt.Sprintf("first difference at byte offset %d (record %d, offset %d in record): streamed %#02x saved %#02x", o, (o-84)/50, (o-84)%50, streamed[o], saved[o])
					if o < 84 {
						what = fmt.Sprintf("first difference at header byte %d: streamed %#02x saved %#02x", o, streamed[o], saved[o])
					}
					break
				}
			}
		}
		return failf("ToSTL:bytes-differ-from-SaveSTL", "%d triangles in batches %v: %s", n, pattern, what)
	}
	return nil
}

// checkAscii loads text through LoadSTL and compares with the listed vertices.
func checkAscii(dir, text string, want []tri) *failure {
	p := filepath.Join(dir, "ascii.stl")
	if err := os.WriteFile(p, []byte(text), 0o644); err != nil {
		return failf("harness", "write: %v", err)
	}
	got, err := render.LoadSTL(p)
	if err != nil {
		return failf("LoadSTL:ascii:error", "well-formed ASCII STL with %d facets (%d bytes): LoadSTL returned %v", len(want), len(text), err)
	}
	if len(got) != len(want) {
		return failf("LoadSTL:ascii:count", "well-formed ASCII STL with %d facets (%d bytes): LoadSTL returned %d triangles", len(want), len(text), len(got))
	}
	for i, g := range got {
		if g == nil {
			return failf("LoadSTL:ascii:vertex", "facet %d: nil triangle", i)
		}
		for j := 0; j < 3; j++ {
			gv := [3]float64{g[j].X, g[j].Y, g[j].Z}
			for k := 0; k < 3; k++ {
				if !(gv[k] == want[i][j][k]) {
					return failf("LoadSTL:ascii:vertex", "facet %d vertex %d component %d: loaded %v, the text lists %v", i, j+1, k, gv[k], want[i][j][k])
				}
			}
		}
	}
	return nil
}

// ---------------------------------------------------------------------------
// generators

const (
	maxF32       = math.MaxFloat32
	minNormalF32 = 1.1754943508222875e-38
	minSubF32    = math.SmallestNonzeroFloat32
)

var coordClasses = []string{"exact-int", "exact-dyadic", "exact-f32", "rounding-generic", "rounding-decimal", "rounding-halfway",
	"tiny", "huge", "neg-zero", "zero", "f32-extreme"}

func isF32Exact(x float64) bool { return float64(float32(x)) == x }

func drawCoordOf(t *rapid.T, label, class string) float64 {
	sign := func() float64 {
		if rapid.Bool().Draw(t, label+".neg") {
			return -1
		}
		return 1
	}
	switch class {
	case "exact-int":
		return float64(rapid.IntRange(-1000, 1000).Draw(t, label))
	case "exact-dyadic":
		return float64(rapid.IntRange(-(1<<20), 1<<20).Draw(t, label)) / float64(int(1)<<rapid.IntRange(0, 14).Draw(t, label+".sh"))
	case "exact-f32":
		return float64(float32(rapid.Float64Range(-1000, 1000).Draw(t, label)))
	case "rounding-generic":
		return rapid.Float64Range(-1000, 1000).Draw(t, label)
	case "rounding-decimal":
		return float64(rapid.IntRange(-100000, 100000).Draw(t, label)) / 1000
	case "rounding-halfway":
		// exactly half way between two adjacent float32 values (tie -> even)
		f := float32(rapid.Float64Range(-1000, 1000).Draw(t, label))
		nx := math.Nextafter32(f, float32(math.Inf(1)))
		return (float64(f) + float64(nx)) / 2
	case "tiny":
		return sign() * 1e-30 * (1 + rapid.Float64Range(0, 1).Draw(t, label))
	case "huge":
		return sign() * 1e30 * (1 + rapid.Float64Range(0, 1).Draw(t, label))
	case "neg-zero":
		return math.Copysign(0, -1)
	case "zero":
		return 0
	default: // f32-extreme: ends of the float32 range
		switch rapid.IntRange(0, 5).Draw(t, label+".x") {
		case 0:
			return sign() * maxF32
		case 1:
			return sign() * maxF32 * (1 - rapid.Float64Range(0, 0.5).Draw(t, label))
		case 2:
			return sign() * minNormalF32
		case 3:
			return sign() * minSubF32
		case 4: // rounds into the float32 subnormal range
			return sign() * 1e-40 * (1 + rapid.Float64Range(0, 1).Draw(t, label))
		default:
			return sign() * minNormalF32 * (1 + rapid.Float64Range(-0.5, 1).Draw(t, label))
		}
	}
}

var regimes = []string{"unit", "unit", "unit", "mixed", "tiny", "huge", "extreme", "exact"}

func drawCoord(t *rapid.T, label, regime string, hist map[string]int) float64 {
	var class string
	switch regime {
	case "unit":
		class = rapid.SampledFrom([]string{"exact-int", "exact-dyadic", "exact-f32", "rounding-generic", "rounding-generic", "rounding-decimal", "rounding-halfway", "zero", "neg-zero"}).Draw(t, label+".c")
	case "exact":
		class = rapid.SampledFrom([]string{"exact-int", "exact-dyadic", "exact-f32", "zero"}).Draw(t, label+".c")
	case "tiny":
		class = rapid.SampledFrom([]string{"tiny", "tiny", "tiny", "zero", "neg-zero"}).Draw(t, label+".c")
	case "huge":
		class = rapid.SampledFrom([]string{"huge", "huge", "huge", "zero", "rounding-generic"}).Draw(t, label+".c")
	case "extreme":
		class = rapid.SampledFrom([]string{"f32-extreme", "f32-extreme", "tiny", "huge", "zero"}).Draw(t, label+".c")
	default:
		class = rapid.SampledFrom(coordClasses).Draw(t, label+".c")
	}
	hist["coord:"+class]++
	return drawCoordOf(t, label, class)
}

func drawVertex(t *rapid.T, label, regime string, hist map[string]int) [3]float64 {
	return [3]float64{drawCoord(t, label+".x", regime, hist), drawCoord(t, label+".y", regime, hist), drawCoord(t, label+".z", regime, hist)}
}

// drawTri draws one triangle; prev is the previous triangle of the list (or nil).
func drawTri(t *rapid.T, label string, prev *tri, hist map[string]int) tri {
	regime := rapid.SampledFrom(regimes).Draw(t, label+".regime")
	kind := rapid.SampledFrom([]string{"generic", "generic", "generic", "generic", "generic", "generic",
		"repeat-vertex", "collinear", "sliver", "axis-aligned", "reverse-prev", "dup-prev"}).Draw(t, label+".kind")
	if prev == nil && (kind == "reverse-prev" || kind == "dup-prev") {
		kind = "generic"
	}
	hist["tri:"+kind]++
	hist["regime:"+regime]++
	switch kind {
	case "repeat-vertex":
		a, b := drawVertex(t, label+".a", regime, hist), drawVertex(t, label+".b", regime, hist)
		switch rapid.IntRange(0, 3).Draw(t, label+".which") {
		case 0:
			return tri{a, a, b}
		case 1:
			return tri{a, b, a}
		case 2:
			return tri{a, b, b}
		default:
			return tri{a, a, a}
		}
	case "collinear":
		// exactly collinear in float64: small integers, c = a + m*(b-a)
		var a, d [3]float64
		for k := 0; k < 3; k++ {
			a[k] = float64(rapid.IntRange(-50, 50).Draw(t, fmt.Sprintf("%s.a%d", label, k)))
			d[k] = float64(rapid.IntRange(-5, 5).Draw(t, fmt.Sprintf("%s.d%d", label, k)))
		}
		m := float64(rapid.IntRange(-3, 3).Draw(t, label+".m"))
		var b, c [3]float64
		for k := 0; k < 3; k++ {
			b[k] = a[k] + d[k]
			c[k] = a[k] + m*d[k]
		}
		return tri{a, b, c}
	case "sliver":
		// third vertex very close to the line through the first two
		a, b := drawVertex(t, label+".a", regime, hist), drawVertex(t, label+".b", regime, hist)
		s := rapid.Float64Range(-1, 2).Draw(t, label+".s")
		eps := rapid.SampledFrom([]float64{0, 1e-15, 1e-12, 1e-9, 1e-7, 1e-5}).Draw(t, label+".eps")
		var c [3]float64
		for k := 0; k < 3; k++ {
			c[k] = a[k] + s*(b[k]-a[k])
			c[k] += eps * math.Abs(c[k]) * float64(rapid.IntRange(-1, 1).Draw(t, fmt.Sprintf("%s.e%d", label, k)))
			if math.Abs(c[k]) > maxF32 {
				c[k] = a[k]
			}
		}
		return tri{a, b, c}
	case "axis-aligned":
		// right triangle in a coordinate plane: the normal is +- a coordinate axis
		ax := rapid.IntRange(0, 2).Draw(t, label+".axis")
		o := drawVertex(t, label+".o", "unit", hist)
		w := rapid.Float64Range(0.01, 100).Draw(t, label+".w")
		h := rapid.Float64Range(0.01, 100).Draw(t, label+".h")
		b, c := o, o
		b[(ax+1)%3] += w
		c[(ax+2)%3] += h
		if rapid.Bool().Draw(t, label+".flip") {
			b, c = c, b
		}
		return tri{o, b, c}
	case "reverse-prev":
		return tri{prev[0], prev[2], prev[1]}
	case "dup-prev":
		return *prev
	}
	return tri{drawVertex(t, label+".a", regime, hist), drawVertex(t, label+".b", regime, hist), drawVertex(t, label+".c", regime, hist)}
}

var nClasses = []string{"0", "1", "2-20", "2-20", "2-20", "2-20", "21-300", "buffer-edge", "301-5000", "5000"}

func drawN(t *rapid.T) (int, string) {
	c := rapid.SampledFrom(nClasses).Draw(t, "nclass")
	switch c {
	case "0":
		return 0, c
	case "1":
		return 1, c
	case "2-20":
		return rapid.IntRange(2, 20).Draw(t, "n"), c
	case "21-300":
		return rapid.IntRange(21, 300).Draw(t, "n"), c
	case "buffer-edge": // around the 256-triangle channel buffer of Triangle3Buffer
		return rapid.SampledFrom([]int{255, 256, 257, 263, 264, 265, 511, 512, 513}).Draw(t, "n"), c
	case "301-5000":
		return rapid.IntRange(301, 5000).Draw(t, "n"), c
	default:
		return 5000, c
	}
}

// drawList draws n triangles. Up to 48 are drawn coordinate by coordinate (the
// motifs); longer lists continue with motif[i%m] scaled by the exact factor
// 1+(i/m)/4096 so that every position of the list holds different numbers.
func drawList(t *rapid.T, hist map[string]int) ([]tri, string) {
	n, nc := drawN(t)
	m := n
	if m > 48 {
		m = rapid.IntRange(8, 48).Draw(t, "motifs")
	}
	list := make([]tri, 0, n)
	for i := 0; i < m; i++ {
		var prev *tri
		if i > 0 {
			prev = &list[i-1]
		}
		list = append(list, drawTri(t, fmt.Sprintf("t%d", i), prev, hist))
	}
	for i := m; i < n; i++ {
		f := 1 + float64(i/m)/4096
		x := list[i%m]
		for j := 0; j < 3; j++ {
			for k := 0; k < 3; k++ {
				if w := x[j][k] * f; math.Abs(w) <= maxF32 {
					x[j][k] = w
				}
			}
		}
		list = append(list, x)
	}
	return list, nc
}

func drawPattern(t *rapid.T) ([]int, string) {
	mode := rapid.SampledFrom([]string{"one-batch", "singles", "marching-cubes-like", "random", "256", "255-257", "with-empty-writes", "parts-that-close"}).Draw(t, "batches")
	switch mode {
	case "parts-that-close":
		// a composite renderer: several parts into the one output, each part ends with Close (-1), and the
		// caller closes once more at the end
		p := rapid.SliceOfN(rapid.SampledFrom([]int{3, 1, 5, 40, 100, 256, 300, 7}), 1, 6).Draw(t, "pattern")
		out := []int{}
		for i, n := range p {
			out = append(out, n)
			if i%2 == 0 || rapid.Bool().Draw(t, fmt.Sprintf("close-after-%d", i)) {
				out = append(out, -1)
			}
		}
		return out, mode
	case "one-batch":
		return nil, mode
	case "singles":
		return []int{1}, mode
	case "marching-cubes-like":
		return rapid.SliceOfN(rapid.IntRange(0, 5), 1, 12).Draw(t, "pattern"), mode
	case "random":
		return rapid.SliceOfN(rapid.IntRange(0, 700), 1, 8).Draw(t, "pattern"), mode
	case "256":
		return []int{256}, mode
	case "255-257":
		return rapid.SliceOfN(rapid.SampledFrom([]int{255, 256, 257, 1, 248, 8}), 1, 6).Draw(t, "pattern"), mode
	default:
		return []int{0, 3, 0, 0, 300, 0}, mode
	}
}

func listKey(list []tri) string {
	h := fnv.New64a()
	var b [8]byte
	for _, t := range list {
		for j := 0; j < 3; j++ {
			for k := 0; k < 3; k++ {
				u := math.Float64bits(t[j][k])
				for q := 0; q < 8; q++ {
					b[q] = byte(u >> (8 * q))
				}
				h.Write(b[:])
			}
		}
	}
	return fmt.Sprintf("%d:%016x", len(list), h.Sum64())
}

// ---------------------------------------------------------------------------

func TestBinaryRoundTrip(t *testing.T) {
	rec := ev.Get()
	dir := scratch(t)
	rapid.Check(t, func(t *rapid.T) {
		hist := map[string]int{}
		list, nc := drawList(t, hist)
		pattern, mode := drawPattern(t)
		inexact := 0
		for _, x := range list {
			for j := 0; j < 3; j++ {
				for k := 0; k < 3; k++ {
					if !isF32Exact(x[j][k]) {
						inexact++
					}
				}
			}
		}
		var st stats
		// the output path may already hold an older file: absent, empty, shorter, longer
		stale := -1
		switch rapid.IntRange(0, 5).Draw(t, "existing-file") {
		case 1:
			stale = 0
		case 2:
			stale = rapid.IntRange(1, 84+50*len(list)).Draw(t, "existing-shorter")
		case 3, 4:
			stale = 84 + 50*len(list) + rapid.IntRange(1, 5000).Draw(t, "existing-longer")
		}
		rec.Add(fmt.Sprintf("existing-file:%v", map[bool]string{true: "none", false: "present"}[stale < 0]), 1)
		f := checkBinaryList(dir, list, pattern, &st, stale)
		nt := len(list) >= 1 && inexact >= 1
		rec.Case(nt, listKey(list), "binary:n="+nc, "binary:batches="+mode)
		for k, v := range hist {
			rec.Add("binary:"+k, int64(v))
		}
		rec.Add("binary:triangles", int64(len(list)))
		rec.Add("binary:coords-not-float32-exact", int64(inexact))
		rec.Add("binary:normal-checked", int64(st.normalChecked))
		rec.Add("binary:normal-skipped-degenerate", int64(st.degenerate))
		rec.Add("binary:normal-skipped-ill-conditioned", int64(st.illConditioned))
		if len(list) > 0 && len(list) <= 3 {
			rec.Sample("binary:"+nc, map[string]any{"triangles": fmtList(list), "batches": pattern, "normals_checked": st.normalChecked})
		}
		if f != nil {
			rec.Violation(t, f.key, "%s", f.msg)
		}
	})
}

func fmtList(list []tri) []string {
	var out []string
	for _, t := range list {
		out = append(out, fmt.Sprintf("%v", t))
	}
	return out
}

// ---------------------------------------------------------------------------
// ASCII grammar

type asciiGen struct {
	t   *rapid.T
	eol string // "\n", "\r\n" or "" = mixed
	sb  strings.Builder
	n   int
}

func (g *asciiGen) lbl(s string) string { g.n++; return fmt.Sprintf("%s%d", s, g.n) }

func (g *asciiGen) sep() string {
	return rapid.SampledFrom([]string{" ", " ", " ", "  ", "\t", " \t", "    ", "\t\t"}).Draw(g.t, g.lbl("sep"))
}
func (g *asciiGen) indent() string {
	return rapid.SampledFrom([]string{"", "", " ", "  ", "    ", "\t", "\t\t", " \t"}).Draw(g.t, g.lbl("ind"))
}
func (g *asciiGen) end() {
	tr := rapid.SampledFrom([]string{"", "", "", " ", "\t", "  "}).Draw(g.t, g.lbl("trail"))
	e := g.eol
	if e == "" {
		e = rapid.SampledFrom([]string{"\n", "\r\n"}).Draw(g.t, g.lbl("eol"))
	}
	g.sb.WriteString(tr + e)
	if rapid.IntRange(0, 15).Draw(g.t, g.lbl("blank")) == 0 {
		g.sb.WriteString(g.indent() + e) // blank / whitespace-only line
	}
}
func (g *asciiGen) line(tokens ...string) {
	g.sb.WriteString(g.indent())
	for i, tok := range tokens {
		if i > 0 {
			g.sb.WriteString(g.sep())
		}
		g.sb.WriteString(tok)
	}
	g.end()
}

var numFormats = []string{"%g", "%g", "%e", "%f", "%G", "%E", "%v", "%.3f", "%.9g", "%.17g", "%.0f", "%.12e", "%+g", "%+.6f"}

func drawAsciiValue(t *rapid.T, label string) (float64, string) {
	c := rapid.SampledFrom([]string{"exact-int", "rounding-decimal", "rounding-generic", "rounding-generic", "exact-dyadic", "tiny", "huge", "zero", "neg-zero", "wide"}).Draw(t, label+".c")
	if c == "wide" { // log-uniform magnitudes across 1e-30..1e30
		e := rapid.Float64Range(-30, 30).Draw(t, label+".e")
		v := math.Pow(10, e)
		if rapid.Bool().Draw(t, label+".neg") {
			v = -v
		}
		return v, c
	}
	return drawCoordOf(t, label, c), c
}

func drawAsciiNumber(t *rapid.T, label string, hist map[string]int) (text string, value float64) {
	v, c := drawAsciiValue(t, label)
	f := rapid.SampledFrom(numFormats).Draw(t, label+".fmt")
	text = fmt.Sprintf(f, v)
	hist["ascii:value="+c]++
	hist["ascii:fmt="+f]++
	val, _, err := decimalValue(text)
	if err != nil {
		t.Fatalf("harness: generated number %q not understood by the oracle: %v", text, err)
	}
	return text, val
}

func TestAsciiLoad(t *testing.T) {
	rec := ev.Get()
	dir := scratch(t)
	rapid.Check(t, func(t *rapid.T) {
		hist := map[string]int{}
		g := &asciiGen{t: t}
		eolMode := rapid.SampledFrom([]string{"lf", "lf", "crlf", "crlf", "mixed"}).Draw(t, "eol")
		switch eolMode {
		case "lf":
			g.eol = "\n"
		case "crlf":
			g.eol = "\r\n"
		}
		name := rapid.SampledFrom([]string{"", "", "part", "my_part-1", "a b c", "ascii", "solid", "vertex", "OpenSCAD_Model", "x 1 2"}).Draw(t, "name")
		nf := rapid.IntRange(1, 40).Draw(t, "facets")
		if rapid.IntRange(0, 9).Draw(t, "leading-blank") == 0 {
			g.sb.WriteString(g.indent())
			g.end()
		}
		if name == "" {
			g.line("solid")
		} else {
			g.line("solid", name)
		}
		var want []tri
		for i := 0; i < nf; i++ {
			var x tri
			var txt [3][3]string
			for j := 0; j < 3; j++ {
				for k := 0; k < 3; k++ {
					txt[j][k], x[j][k] = drawAsciiNumber(t, fmt.Sprintf("f%d.v%d.%d", i, j, k), hist)
				}
			}
			// the facet normal line: arbitrary well-formed numbers (not loaded)
			nrm := rapid.SampledFrom([][3]string{{"0", "0", "0"}, {"0", "0", "1"}, {"-1", "0", "0"}, {"0.577350", "0.577350", "-0.577350"}, {"1.0e+00", "0.0e+00", "0.0e+00"}}).Draw(t, fmt.Sprintf("f%d.n", i))
			g.line("facet", "normal", nrm[0], nrm[1], nrm[2])
			g.line("outer", "loop")
			for j := 0; j < 3; j++ {
				g.line("vertex", txt[j][0], txt[j][1], txt[j][2])
			}
			g.line("endloop")
			g.line("endfacet")
			want = append(want, x)
		}
		rep := 1
		if rapid.IntRange(0, 19).Draw(t, "long") == 0 { // a long file: the facet block repeated
			rep = rapid.IntRange(5, 40).Draw(t, "rep")
		}
		head := g.sb.String()
		idx := strings.Index(head, "facet")
		body := head[idx:]
		// keep the indentation of the first facet line with the prefix
		var full strings.Builder
		full.WriteString(head)
		all := append([]tri(nil), want...)
		for r := 1; r < rep; r++ {
			full.WriteString(body)
			all = append(all, want...)
		}
		g.sb.Reset()
		if name == "" || rapid.Bool().Draw(t, "endsolid-bare") {
			g.line("endsolid")
		} else {
			g.line("endsolid", name)
		}
		tail := g.sb.String()
		if rapid.IntRange(0, 4).Draw(t, "no-final-eol") == 0 {
			tail = strings.TrimRight(tail, "\r\n \t")
		}
		full.WriteString(tail)
		text := full.String()

		// stay inside the domain the statement covers: the loader takes a file for
		// ASCII when its size differs from 84+50*count (count = bytes 80..83).
		if len(text) < 84 {
			rec.Count("discarded:ascii-shorter-than-84-bytes", 1)
			t.Skip("short")
		}
		cnt := uint32(text[80]) | uint32(text[81])<<8 | uint32(text[82])<<16 | uint32(text[83])<<24
		if int64(len(text)) == 84+50*int64(cnt) {
			rec.Count("discarded:ascii-size-equals-binary-size", 1)
			t.Skip("collides with the binary size rule")
		}
		f := checkAscii(dir, text, all)
		rec.Case(true, text, "ascii:eol="+eolMode, fmt.Sprintf("ascii:repeated=%v", rep > 1))
		for k, v := range hist {
			rec.Add(k, int64(v))
		}
		rec.Add("ascii:facets", int64(len(all)))
		if nf <= 2 && rep == 1 {
			rec.Sample("ascii", map[string]any{"text": text, "want": fmtList(all)})
		}
		if f != nil {
			rec.Violation(t, f.key, "%s\n--- file ---\n%s", f.msg, clip(text, 1500))
		}
	})
}

func clip(s string, n int) string {
	if len(s) > n {
		return s[:n] + fmt.Sprintf("... (%d bytes)", len(s))
	}
	return s
}

// ---------------------------------------------------------------------------
// fixed cases (plain): hand-written expectations, and JSON replay of a failing case

type regressCase struct {
	Name    string `json:"name"`
	List    []tri  `json:"list,omitempty"`
	Pattern []int  `json:"pattern,omitempty"`
	Ascii   string `json:"ascii,omitempty"`
	Want    []tri  `json:"want,omitempty"`
}

func TestRegress(t *testing.T) {
	rec := ev.Get()
	dir := scratch(t)
	nz := math.Copysign(0, -1)
	cases := []regressCase{
		{Name: "empty", List: []tri{}},
		{Name: "unit-right-triangle", List: []tri{{{0, 0, 0}, {1, 0, 0}, {0, 1, 0}}}},
		{Name: "reversed-winding", List: []tri{{{0, 0, 0}, {0, 1, 0}, {1, 0, 0}}}, Pattern: []int{1}},
		{Name: "needs-rounding", List: []tri{{{0.1, 0.2, 0.3}, {25.4, -0.7, 1e-3}, {-3.3, 9.99, 1.0000001}}}},
		{Name: "tiny-huge-negzero", List: []tri{{{1e-30, nz, -1e-30}, {1e30, 0, 0}, {0, -1e30, 2e-30}}, {{nz, nz, nz}, {nz, nz, nz}, {1, 2, 3}}}},
		{Name: "two-batches", List: []tri{{{0, 0, 0}, {1, 0, 0}, {0, 1, 0}}, {{0, 0, 1}, {0, 1, 1}, {1, 0, 1}}, {{5, 5, 5}, {6, 5, 5}, {5, 5, 6}}}, Pattern: []int{2, 0, 1}},
		{Name: "ascii-basic", Ascii: "solid x\n facet normal 0 0 1\n  outer loop\n   vertex 0 0 0\n   vertex 1.5 0 0\n   vertex 0 -2.5e-1 1e3\n  endloop\n endfacet\nendsolid x\n",
			Want: []tri{{{0, 0, 0}, {1.5, 0, 0}, {0, -0.25, 1000}}}},
		{Name: "ascii-crlf-tabs", Ascii: "solid\r\nfacet normal 0.0 0.0 0.0\r\n\touter  loop\r\n\t\tvertex\t+1.000000E+00  2.0  0.5\r\n\t\tvertex 0.1 0.2 0.3 \r\n\t\tvertex -0 1e-30 1e30\r\n\tendloop\r\nendfacet\r\nendsolid",
			Want: []tri{{{1, 2, 0.5}, {0.1, 0.2, 0.3}, {0, 1e-30, 1e30}}}},
	}
	// a large mesh (more than 2^16 triangles, a 3.5 MB file): length 0..large
	{
		big := make([]tri, 70001)
		for i := range big {
			x, y := float64(i%300), float64(i/300)
			big[i] = tri{{x, y, 0}, {x + 1, y, 0.5}, {x, y + 1, float64(i%7) / 8}}
		}
		cases = append(cases, regressCase{Name: "70001-triangles", List: big, Pattern: []int{5, 0, 256, 3, 1000}})
	}
	// an ASCII file with two solids (multi-body export): it lists four triangles
	{
		facet := func(z float64) string {
			return fmt.Sprintf(" facet normal 0 0 1\n  outer loop\n   vertex 0 0 %g\n   vertex 1 0 %g\n   vertex 0 1 %g\n  endloop\n endfacet\n", z, z, z)
		}
		cases = append(cases, regressCase{Name: "ascii-two-solids",
			Ascii: "solid a\n" + facet(0) + facet(1) + "endsolid a\nsolid b\n" + facet(2) + facet(3) + "endsolid b\n",
			Want:  []tri{{{0, 0, 0}, {1, 0, 0}, {0, 1, 0}}, {{0, 0, 1}, {1, 0, 1}, {0, 1, 1}}, {{0, 0, 2}, {1, 0, 2}, {0, 1, 2}}, {{0, 0, 3}, {1, 0, 3}, {0, 1, 3}}}})
	}
	var rc regressCase
	if ev.LoadReplay("TestRegress", &rc) {
		cases = []regressCase{rc}
	}
	for _, c := range cases {
		var f *failure
		if c.Ascii != "" {
			f = checkAscii(dir, c.Ascii, c.Want)
			rec.Case(true, "regress:"+c.Name, "regress:ascii")
		} else {
			var st stats
			f = checkBinaryList(dir, c.List, c.Pattern, &st, -1)
			if f == nil {
				// and over an existing, longer file
				f = checkBinaryList(dir, c.List, c.Pattern, &st, 84+50*len(c.List)+4500)
			}
			rec.Case(true, "regress:"+c.Name, "regress:binary")
		}
		if f != nil {
			rec.FailCase(t, "TestRegress", f.key, c, "%s: %s", c.Name, f.msg)
		}
	}

	// one file spelled out byte by byte (guards the parser of this check as well):
	// triangle (0,0,0),(1,0,0),(0,1,0): normal (0,0,1)
	p := filepath.Join(dir, "bytes.stl")
	if err := render.SaveSTL(p, toMesh([]tri{{{0, 0, 0}, {1, 0, 0}, {0, 1, 0}}})); err != nil {
		t.Fatalf("SaveSTL: %v", err)
	}
	got, _ := os.ReadFile(p)
	want := make([]byte, 134)
	want[80] = 1
	put := func(off int, b ...byte) { copy(want[off:], b) }
	one := []byte{0x00, 0x00, 0x80, 0x3f} // 1.0f little-endian
	put(84+8, one...)                     // normal z
	put(84+24, one...)                    // vertex 2 x
	put(84+40, one...)                    // vertex 3 y
	rec.Case(true, "regress:bytes", "regress:binary")
	if len(got) != 134 || !bytes.Equal(got[80:], want[80:]) {
		rec.FailCase(t, "TestRegress", "SaveSTL:vertex-bits", regressCase{Name: "unit-right-triangle", List: []tri{{{0, 0, 0}, {1, 0, 0}, {0, 1, 0}}}},
			"bytes 80.. of the file are % x, want % x", got[min(80, len(got)):], want[80:])
	}
}
