package c13

import (
	"fmt"
	"os"
	"path/filepath"
	"runtime"
	"sort"
	"sync"
	"testing"

	"github.com/deadsy/sdfx/render"
	"github.com/deadsy/sdfx/sdf"
	"pgregory.net/rapid"

	"verif/internal/ev"
)

// The streaming writer behind render.ToSTL is fed through a Triangle3Buffer that several goroutines of a
// renderer may write to at once (the buffer carries a lock for that). With several producers the ORDER of
// the records is the schedule's, everything else is still fixed by the statement: the count field equals
// the number of triangles supplied, the file has 84 + 50*count bytes, and the records are - as a
// multiset - the 50-byte records the batch writer produces for the same triangles.

type manyProducers struct {
	parts [][]*sdf.Triangle3 // one list per producer
	batch []int              // batch size per producer
	yield []bool
}

func (m manyProducers) Info(sdf.SDF3) string { return "many producers" }
func (m manyProducers) Render(_ sdf.SDF3, out sdf.Triangle3Writer) {
	var wg sync.WaitGroup
	start := make(chan struct{})
	for i := range m.parts {
		wg.Add(1)
		go func(i int) {
			defer wg.Done()
			<-start
			p := m.parts[i]
			for len(p) > 0 {
				n := m.batch[i]
				if n > len(p) {
					n = len(p)
				}
				out.Write(p[:n])
				p = p[n:]
				if m.yield[i] {
					runtime.Gosched()
				}
			}
		}(i)
	}
	close(start)
	wg.Wait()
	out.Close()
}

func recordKeys(ts []rawTri) []string {
	ks := make([]string, len(ts))
	for i, r := range ts {
		ks[i] = fmt.Sprintf("%08x%08x%08x|%08x%08x%08x|%08x%08x%08x|%08x%08x%08x|%04x", r.N[0], r.N[1], r.N[2],
			r.V[0][0], r.V[0][1], r.V[0][2], r.V[1][0], r.V[1][1], r.V[1][2], r.V[2][0], r.V[2][1], r.V[2][2], r.Attr)
	}
	sort.Strings(ks)
	return ks
}

func TestStreamingManyProducers(t *testing.T) {
	rec := ev.Get()
	rapid.Check(t, func(t *rapid.T) {
		dir := scratch(t)
		k := rapid.IntRange(2, 8).Draw(t, "producers")
		m := manyProducers{}
		var all []*sdf.Triangle3
		id := 0
		for i := 0; i < k; i++ {
			l := fmt.Sprintf("p%d.", i)
			n := rapid.SampledFrom([]int{1000, 3000, 300, 257, 513, 90, 2000}).Draw(t, l+"triangles")
			part := make([]*sdf.Triangle3, n)
			for j := range part {
				// distinct float32-exact triangles (small integers), one of them in every hundred degenerate
				x, y := float64(id%1024), float64(id/1024)
				part[j] = &sdf.Triangle3{{X: x, Y: y, Z: 0}, {X: x + 1, Y: y, Z: float64(i)}, {X: x, Y: y + 1, Z: 1}}
				id++
			}
			m.parts = append(m.parts, part)
			m.batch = append(m.batch, rapid.SampledFrom([]int{3, 1, 2, 5, 64, 300}).Draw(t, l+"batch"))
			m.yield = append(m.yield, rapid.Bool().Draw(t, l+"yield"))
			all = append(all, part...)
		}
		stream, batch := filepath.Join(dir, "producers-stream.stl"), filepath.Join(dir, "producers-batch.stl")
		os.Remove(stream)
		os.Remove(batch)
		if err := render.SaveSTL(batch, all); err != nil {
			t.Fatalf("SaveSTL: %v", err)
		}
		render.ToSTL(nil, stream, m)
		bb, err1 := os.ReadFile(batch)
		sb, err2 := os.ReadFile(stream)
		if err1 != nil || err2 != nil {
			t.Fatalf("reading the files back: %v %v", err1, err2)
		}
		want, err := parseBinarySTL(bb)
		if err != nil {
			t.Fatalf("batch file: %v", err)
		}
		desc := fmt.Sprintf("%d producers writing %d triangles in batches of %v into one ToSTL", k, len(all), m.batch)
		rec.Case(true, ev.Key("producers", k, len(all), m.batch, m.yield), fmt.Sprintf("producers:%d", k))
		got, err := parseBinarySTL(sb)
		if err != nil {
			rec.Violation(t, "ToSTL:many-producers:malformed", "%s: %v", desc, err)
			return
		}
		if int(got.Count) != len(all) || len(got.Tris) != len(all) {
			rec.Violation(t, "ToSTL:many-producers:count", "%s: count field %d, %d records in the file", desc, got.Count, len(got.Tris))
			return
		}
		a, b := recordKeys(want.Tris), recordKeys(got.Tris)
		for i := range a {
			if a[i] != b[i] {
				rec.Violation(t, "ToSTL:many-producers:records-differ-from-batch-writer", "%s: as multisets the records differ from SaveSTL's for the same triangles (first difference at sorted position %d: %s vs %s)", desc, i, a[i], b[i])
				return
			}
		}
	})
}

// TestStreamingSeveralFilesAtOnce: several STL files are written at the same time in one process - streamed
// (ToSTL) and saved in one go (SaveSTL), a program that exports its parts in parallel - and one file is
// streamed from INSIDE the renderer of another (a renderer that writes a sub-part on the way). Every
// streamed file must have the bytes SaveSTL writes for the same triangles on its own.
type nesting struct {
	mesh  []*sdf.Triangle3
	inner []*sdf.Triangle3
	path  string
}

func (n nesting) Info(sdf.SDF3) string { return "nesting" }
func (n nesting) Render(_ sdf.SDF3, out sdf.Triangle3Writer) {
	half := len(n.mesh) / 2
	out.Write(n.mesh[:half])
	if n.path != "" {
		render.ToSTL(nil, n.path, scripted{n.inner, []int{7}})
	}
	out.Write(n.mesh[half:])
	out.Close()
}

func TestStreamingSeveralFilesAtOnce(t *testing.T) {
	rec := ev.Get()
	rapid.Check(t, func(t *rapid.T) {
		dir := scratch(t)
		k := rapid.IntRange(2, 6).Draw(t, "files")
		nested := rapid.Bool().Draw(t, "one-file-written-inside-a-renderer")
		meshes := make([][]*sdf.Triangle3, k+1)
		id := 0
		for i := range meshes {
			n := rapid.SampledFrom([]int{700, 60, 300, 2000, 81, 5}).Draw(t, fmt.Sprintf("f%d.triangles", i))
			for j := 0; j < n; j++ {
				x, y := float64(id%512), float64(id/512)
				meshes[i] = append(meshes[i], &sdf.Triangle3{{X: x, Y: y, Z: float64(i)}, {X: x + 1, Y: y, Z: 0}, {X: x, Y: y + 1, Z: 1}})
				id++
			}
		}
		want := make([][]byte, k+1)
		for i, m := range meshes {
			p := filepath.Join(dir, fmt.Sprintf("atonce-ref%d.stl", i))
			os.Remove(p)
			if err := render.SaveSTL(p, m); err != nil {
				t.Fatalf("SaveSTL: %v", err)
			}
			want[i], _ = os.ReadFile(p)
		}
		paths := make([]string, k+1)
		for i := range paths {
			paths[i] = filepath.Join(dir, fmt.Sprintf("atonce-%d.stl", i))
			os.Remove(paths[i])
		}
		var wg sync.WaitGroup
		for i := 0; i < k; i++ {
			wg.Add(1)
			go func(i int) {
				defer wg.Done()
				switch {
				case i == 0 && nested:
					render.ToSTL(nil, paths[0], nesting{meshes[0], meshes[k], paths[k]})
				case i%3 == 2:
					render.SaveSTL(paths[i], meshes[i])
				default:
					render.ToSTL(nil, paths[i], scripted{meshes[i], []int{3, 1, 5}})
				}
			}(i)
		}
		wg.Wait()
		rec.Case(true, ev.Key("at-once", k, nested, id), fmt.Sprintf("at-once:files=%d", k), fmt.Sprintf("at-once:nested=%v", nested))
		last := k
		if nested {
			last = k + 1
		}
		for i := 0; i < last; i++ {
			got, err := os.ReadFile(paths[i])
			if err != nil {
				rec.Violation(t, "ToSTL:several-files-at-once:file-missing", "%d files written at once (nested=%v): file %d: %v", k, nested, i, err)
				return
			}
			if string(got) != string(want[i]) {
				rec.Violation(t, "ToSTL:several-files-at-once:bytes-differ-from-SaveSTL", "%d files written at once (nested=%v): file %d (%d triangles) has %d bytes that differ from the %d bytes SaveSTL writes for the same triangles on its own", k, nested, i, len(meshes[i]), len(got), len(want[i]))
				return
			}
		}
	})
}
