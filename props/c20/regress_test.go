package c20

import (
	"testing"

	v2 "github.com/deadsy/sdfx/vec/v2"

	"verif/internal/ev"
)

// TestRegress: minimised failures found by the generated tests, kept as plain cases.
func TestRegress(t *testing.T) {
	rec := ev.Get()

	// 1. TriangleIByIndex.Less is not a strict weak order (its third clause compares
	// [1]/[2] without requiring [0] equal), so the canonical order depends on the input
	// order and equal sets compare unequal.
	// The set of DESIGN.md: rotating its last triple alone is harmless (the list order is
	// unchanged), listing the same triangles in reverse order is not.
	base := [][3]int{{0, 1, 2}, {0, 1, 3}, {0, 1, 4}, {1, 6, 2}, {5, 0, 6}}
	for r := 0; r <= 2; r++ {
		other := make([][3]int, len(base))
		for i := range base {
			other[len(base)-1-i] = base[i]
		}
		other[0] = rotate(base[4], r)
		rec.Case(true, ev.Key("regress-equals", other), "regress")
		if !toSet(base).Equals(toSet(other)) {
			rec.FailCase(t, "TestRegress", "TriangleISet.Equals:order-dependent", map[string]any{"a": base, "b": other},
				"%v and %v are the same set (reverse order, one triple rotated) but TriangleISet.Equals is false", base, other)
		}
	}
	// smallest form found by shrinking: two triangles sharing their second index, swapped
	for _, pair := range [][2][][3]int{
		{{{0, 2, 4}, {1, 2, 3}}, {{1, 2, 3}, {0, 2, 4}}},
		{{{0, 1, 2}, {0, 2, 4}, {1, 2, 3}}, {{0, 1, 2}, {1, 2, 3}, {0, 2, 4}}},
	} {
		rec.Case(true, ev.Key("regress-equals", pair), "regress")
		if !toSet(pair[0]).Equals(toSet(pair[1])) {
			rec.FailCase(t, "TestRegress", "TriangleISet.Equals:order-dependent", map[string]any{"a": pair[0], "b": pair[1]},
				"%v and %v are the same set (triangles permuted) but TriangleISet.Equals is false", pair[0], pair[1])
		}
	}
	// ... and the negative direction stays negative
	if toSet([][3]int{{0, 1, 2}}).Equals(toSet([][3]int{{0, 2, 1}})) {
		rec.FailCase(t, "TestRegress", "TriangleISet.Equals:unequal-sets-compare-equal:reflected", nil, "[0 1 2] equals its reflection [0 2 1]")
	}

	// 2. fixed point sets through the complete oracle
	for _, c := range []struct {
		name string
		pts  []v2.Vec
		key  string // expected finding key on the pinned tree ("" = must hold)
	}{
		{"triangle", []v2.Vec{{X: 0, Y: 0}, {X: 3, Y: 1}, {X: 1, Y: 2}}, ""},
		{"quad-with-centre", []v2.Vec{{X: 0, Y: 0}, {X: 4, Y: 0.25}, {X: 4.5, Y: 3}, {X: -0.25, Y: 3.5}, {X: 2, Y: 1.5}}, ""},
		{"x-tie-and-y-tie", []v2.Vec{{X: 0, Y: 0}, {X: 0, Y: 2}, {X: 3, Y: 2}, {X: 5, Y: -1}, {X: 2, Y: 0.75}, {X: 1, Y: 1.25}}, ""},
		{"far-from-origin", []v2.Vec{{X: 5000, Y: 7000}, {X: 5001, Y: 7000.5}, {X: 5000.5, Y: 7002}, {X: 4999, Y: 7001}, {X: 5000.25, Y: 7000.75}, {X: 5000.75, Y: 7001.125}}, ""},
		{"hull-sliver-within-reach", []v2.Vec{{X: 0, Y: 0}, {X: 4, Y: 0}, {X: 1, Y: -3}, {X: 2, Y: -0.004}}, ""},
		// a point 3e-5*chord inside a hull edge spanning the set: the sliver's circumcircle
		// reaches the 4096*2*extent super triangle and the triangle is lost (2 instead of 3)
		{"hull-sliver-beyond-reach", []v2.Vec{{X: 0, Y: 0}, {X: 4, Y: 0}, {X: 1, Y: -3}, {X: 2, Y: -0.00012}}, "Delaunay2d:hull-sliver-beyond-super-triangle-reach"},
	} {
		vs, fast, f := runFast(c.pts)
		if f == nil {
			gm := analyse(vs, true)
			if gm.why != "" {
				t.Fatalf("harness: regress set %s is not in general position: %s", c.name, gm.why)
			}
			f = checkTriangulation("Delaunay2d", vs, fast, gm)
		}
		rec.Case(true, ev.Key("regress-set", c.name), "regress")
		if f != nil {
			rec.FailCase(t, "TestRegress", f.key, map[string]any{"name": c.name, "points": c.pts}, "%s: %s; triangles %v", c.name, f.msg, fast)
		}
	}
}
