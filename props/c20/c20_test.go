package c20

import (
	"fmt"
	"math"
	"sort"
	"testing"

	"github.com/deadsy/sdfx/render"
	v2 "github.com/deadsy/sdfx/vec/v2"
	"pgregory.net/rapid"

	"verif/internal/ev"
)

func TestMain(m *testing.M) { ev.Main(m) }

// ---------------------------------------------------------------------------
// helpers around the library calls

func toTris(ts render.TriangleISet) [][3]int {
	out := make([][3]int, len(ts))
	for i, t := range ts {
		out[i] = [3]int(t)
	}
	return out
}

func toSet(ts [][3]int) render.TriangleISet {
	out := make(render.TriangleISet, len(ts))
	for i, t := range ts {
		out[i] = render.TriangleI(t)
	}
	return out
}

func sortedCopy(p []v2.Vec) []v2.Vec {
	q := append([]v2.Vec(nil), p...)
	sort.Slice(q, func(i, j int) bool {
		if q[i].X != q[j].X {
			return q[i].X < q[j].X
		}
		return q[i].Y < q[j].Y
	})
	return q
}

// runFast calls Delaunay2d on a private copy of the input and returns the slice as the
// library left it (the indices of the result refer to it).
func runFast(in []v2.Vec) ([]v2.Vec, [][3]int, *failure) {
	vs := make(v2.VecSet, len(in)) // cap == len: the library appends its super triangle
	copy(vs, in)
	ts, err := render.Delaunay2d(vs)
	if err != nil {
		return nil, nil, &failure{"Delaunay2d:error", fmt.Sprintf("error %v for %d points", err, len(in))}
	}
	a, b := sortedCopy(in), sortedCopy(vs)
	for i := range a {
		if a[i] != b[i] {
			return nil, nil, &failure{"Delaunay2d:input-not-permuted", fmt.Sprintf("after the call the slice is not a permutation of the input (sorted position %d: %v vs %v)", i, a[i], b[i])}
		}
	}
	return vs, toTris(ts), nil
}

type setSample struct {
	Class  string   `json:"class"`
	N      int      `json:"n"`
	H      int      `json:"hull"`
	Tris   int      `json:"triangles"`
	Sigma  float64  `json:"min_sagitta_ratio"`
	Gap    float64  `json:"min_abs_circle_gap"`
	Points []v2.Vec `json:"points,omitempty"`
}

func setKey(p []v2.Vec) string {
	parts := make([]any, 0, 2*len(p))
	for _, q := range p {
		parts = append(parts, math.Float64bits(q.X), math.Float64bits(q.Y))
	}
	return ev.Key(parts...)
}

func decade(x float64) string {
	if !(x > 0) || math.IsInf(x, 0) {
		return "na"
	}
	return fmt.Sprintf("1e%d", int(math.Floor(math.Log10(x))))
}

// accept applies the general-position margins; false = discarded (and counted).
func accept(rec *ev.Rec, gm *geom, test string, stress bool) bool {
	if gm.why != "" {
		rec.Count("discarded:"+test+":"+gm.why, 1)
		return false
	}
	if stress {
		if gm.minSigma >= sigmaMain {
			rec.Count("discarded:"+test+":sagitta-above-stress-range", 1)
			return false
		}
		if gm.minSigma < sigmaStress {
			rec.Count("discarded:"+test+":sagitta-below-stress-range", 1)
			return false
		}
		return true
	}
	if gm.minSigma < sigmaMain {
		rec.Count("discarded:"+test+":sagitta-margin", 1)
		return false
	}
	return true
}

// ---------------------------------------------------------------------------
// n <= 40: all triples and 4-subsets verified; fast vs exact oracle vs slow reference

func TestDelaunayDiff(t *testing.T) {
	rec := ev.Get()
	rapid.Check(t, func(t *rapid.T) {
		ps := drawSet(t, 3, 40, false)
		rec.Count("generated:diff", 1)
		vs, fast, f := runFast(ps.pts)
		if f != nil {
			rec.Violation(t, f.key, "%s; input %v", f.msg, ps.pts)
			return
		}
		gm := analyse(vs, true)
		if !accept(rec, gm, "diff", false) {
			return
		}
		n, h := len(vs), len(gm.hull)
		nt := n >= 6 && h < n
		labels := append(ps.labels, "diff:n="+sizeBucket(n), "min-gap:"+decade(gm.minGap), "min-sagitta:"+decade(gm.minSigma))
		if h < n {
			labels = append(labels, "interior-points:yes")
		} else {
			labels = append(labels, "interior-points:no")
		}
		rec.Case(nt, setKey(vs), labels...)
		rec.Sample("diff:"+ps.class, setSample{ps.class, n, h, len(fast), gm.minSigma, gm.minGap, smallPts(vs)})

		if f := checkTriangulation("Delaunay2d", vs, fast, gm); f != nil {
			rec.Violation(t, f.key, "%s; sorted points %v; triangles %v", f.msg, vs, fast)
			return
		}
		if !equalCanon(canon(fast), canon(refLike(vs, gm.ref, fast))) {
			t.Fatalf("harness inconsistency: Delaunay2d passed the exact oracle but differs from the harness' reference triangulation; points %v", vs)
		}
		// the slow reference on the same, now sorted, slice
		svs := append(v2.VecSet(nil), vs...)
		sl, err := render.Delaunay2dSlow(svs)
		if err != nil {
			rec.Violation(t, "Delaunay2dSlow:error", "error %v for %d points in general position", err, n)
			return
		}
		for i := range vs {
			if svs[i] != vs[i] {
				rec.Violation(t, "Delaunay2dSlow:input-modified", "the slow reference changed its input at %d", i)
				return
			}
		}
		slow := toTris(sl)
		if f := checkTriangulation("Delaunay2dSlow", vs, slow, gm); f != nil {
			rec.Violation(t, f.key, "%s; sorted points %v; triangles %v", f.msg, vs, slow)
			return
		}
		same := equalCanon(canon(fast), canon(slow))
		if !same {
			rec.Violation(t, "Delaunay2d:differs-from-slow", "both pass the exact oracle but differ as sets (winding?): fast %v slow %v points %v", canon(fast), canon(slow), vs)
			return
		}
		a, b := toSet(fast), toSet(slow) // Equals canonicalises its operands in place: give it copies
		if !a.Equals(b) {
			rec.Violation(t, "TriangleISet.Equals:order-dependent", "Delaunay2d and Delaunay2dSlow return the same set (harness canonical form) but TriangleISet.Equals is false: fast %v slow %v", fast, slow)
		}
		if a, b := toSet(slow), toSet(fast); !a.Equals(b) {
			rec.Violation(t, "TriangleISet.Equals:order-dependent", "Delaunay2dSlow and Delaunay2d return the same set (harness canonical form) but TriangleISet.Equals is false: slow %v fast %v", slow, fast)
		}
	})
}

// refLike gives the reference triangles (ccw) the winding of the library's output so the
// canonical forms are comparable.
func refLike(p []v2.Vec, ref [][3]int, like [][3]int) [][3]int {
	out := make([][3]int, len(ref))
	copy(out, ref)
	if len(like) > 0 && orient(p[like[0][0]], p[like[0][1]], p[like[0][2]]) < 0 {
		for i := range out {
			out[i][1], out[i][2] = out[i][2], out[i][1]
		}
	}
	return out
}

func sizeBucket(n int) string {
	switch {
	case n <= 5:
		return "3-5"
	case n <= 12:
		return "6-12"
	case n <= 40:
		return "13-40"
	case n <= 100:
		return "41-100"
	case n <= 200:
		return "101-200"
	}
	return "201-300"
}

func smallPts(p []v2.Vec) []v2.Vec {
	if len(p) > 12 {
		return nil
	}
	return p
}

// ---------------------------------------------------------------------------
// 41..300 points: all triples verified, cocircularity verified on the circles of the
// harness' exact reference triangulation; oracle only (the slow reference is O(n^4))

func TestDelaunayLarge(t *testing.T) {
	rec := ev.Get()
	rapid.Check(t, func(t *rapid.T) {
		ps := drawSet(t, 41, 300, false)
		rec.Count("generated:large", 1)
		vs, fast, f := runFast(ps.pts)
		if f != nil {
			rec.Violation(t, f.key, "%s", f.msg)
			return
		}
		gm := analyse(vs, false)
		if !accept(rec, gm, "large", false) {
			return
		}
		n, h := len(vs), len(gm.hull)
		rec.Case(h < n, setKey(vs), append(ps.labels, "large:n="+sizeBucket(n), "min-gap:"+decade(gm.minGap), "min-sagitta:"+decade(gm.minSigma))...)
		rec.Sample("large:"+ps.class, setSample{ps.class, n, h, len(fast), gm.minSigma, gm.minGap, nil})
		if f := checkTriangulation("Delaunay2d", vs, fast, gm); f != nil {
			rec.Violation(t, f.key, "%s; sorted points %v", f.msg, vs)
			return
		}
		// (as sets of unordered triples: see the winding note in checkTriangulation)
		if !equalCanon(canon(ccw(vs, fast)), canon(ccw(vs, gm.ref))) {
			t.Fatalf("harness inconsistency: Delaunay2d passed the exact oracle but differs from the harness' reference triangulation; points %v", vs)
		}
		rec.Add("large:triangulations-with-mixed-windings", int64(MixedWindings))
		MixedWindings = 0
	})
}

// ccw returns the triples in counter-clockwise order.
func ccw(p []v2.Vec, ts [][3]int) [][3]int {
	out := make([][3]int, len(ts))
	for i, t := range ts {
		if orient(p[t[0]], p[t[1]], p[t[2]]) < 0 {
			t = [3]int{t[0], t[2], t[1]}
		}
		out[i] = t
	}
	return out
}

// ---------------------------------------------------------------------------
// stress class: hull chains with a sagitta below the main margin (1e-6..1e-3 of the
// chord). The only thing that may go wrong here without being a new alarm is the
// acknowledged super-triangle kludge, which has its own key.

func TestDelaunayStress(t *testing.T) {
	rec := ev.Get()
	rapid.Check(t, func(t *rapid.T) {
		ps := drawSet(t, 4, 30, true)
		rec.Count("generated:stress", 1)
		vs, fast, f := runFast(ps.pts)
		if f != nil {
			rec.Violation(t, f.key, "%s", f.msg)
			return
		}
		gm := analyse(vs, true)
		if !accept(rec, gm, "stress", true) {
			return
		}
		n, h := len(vs), len(gm.hull)
		labels := []string{"stress:min-sagitta:" + decade(gm.minSigma), "stress:n=" + sizeBucket(n)}
		f = checkTriangulation("Delaunay2d", vs, fast, gm)
		switch {
		case f == nil:
			labels = append(labels, "stress:outcome=held")
		default:
			labels = append(labels, "stress:outcome="+f.key)
		}
		rec.Case(true, setKey(vs), labels...)
		rec.Sample("stress", setSample{"stress", n, h, len(fast), gm.minSigma, gm.minGap, smallPts(vs)})
		if f != nil {
			rec.Violation(t, f.key, "%s; sorted points %v; triangles %v", f.msg, vs, fast)
		}
	})
}
