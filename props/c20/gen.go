package c20

import (
	"fmt"
	"math"

	v2 "github.com/deadsy/sdfx/vec/v2"
	"pgregory.net/rapid"

	"verif/internal/g"
)

// pointSet is one generated input with the labels describing how it was made.
type pointSet struct {
	pts    []v2.Vec
	class  string
	labels []string
}

var classesMain = []string{"uniform", "uniform", "clustered", "clustered", "wide", "chain", "chain", "ties", "ring", "ring-near-tie", "near-duplicate"}

// frame draws extent, aspect and centre of the region the points live in.
func frame(t *rapid.T, labels *[]string) (E, aspect float64, c v2.Vec) {
	E = g.Length(t, "extent", 1e-3, 1e4)
	aspect = 1
	switch rapid.IntRange(0, 3).Draw(t, "aspect.k") {
	case 0:
		aspect = g.LogUniform(t, "aspect", 0.05, 1)
	case 1:
		// strips: the set is up to 1000 times longer than wide (in x or in y, see "tall")
		aspect = g.LogUniform(t, "aspect", 1e-3, 0.05)
		*labels = append(*labels, "frame:strip")
	}
	switch rapid.IntRange(0, 3).Draw(t, "centre.k") {
	case 0:
		*labels = append(*labels, "centre:origin")
	case 1, 2:
		c = v2.Vec{X: 2 * u11(t, "cx") * E, Y: 2 * u11(t, "cy") * E}
		*labels = append(*labels, "centre:near")
	default:
		hi := math.Min(1e4, 300*E)
		r := E
		if hi > E {
			r = g.LogUniform(t, "coff", E, hi)
		}
		a := g.Angle(t, "cang")
		c = v2.Vec{X: r * math.Cos(a), Y: r * math.Sin(a)}
		*labels = append(*labels, "centre:far")
	}
	return
}

// Coordinates: rapid's float and integer generators favour "simple" values (0, 1, short
// bit patterns), which for point sets means duplicates, exact collinearity and sub-epsilon
// differences in most cases. Each coordinate is therefore a rapid.Uint64 draw passed through
// a fixed bijective mixer (splitmix64 finaliser) salted with the draw's position, i.e. still a
// deterministic function of rapid draws only, but uniform on [0,1). Exact ties and round
// values are constructed explicitly by the classes that want them.
var drawSalt uint64

func mix64(z uint64) uint64 {
	z += 0x9e3779b97f4a7c15
	z = (z ^ (z >> 30)) * 0xbf58476d1ce4e5b9
	z = (z ^ (z >> 27)) * 0x94d049bb133111eb
	return z ^ (z >> 31)
}

func u01(t *rapid.T, label string) float64 {
	drawSalt++
	v := mix64(rapid.Uint64().Draw(t, label) + drawSalt*0xd1342543de82ef95)
	return float64(v>>11) / (1 << 53)
}
func u11(t *rapid.T, label string) float64 { return 2*u01(t, label) - 1 }
func urange(t *rapid.T, label string, lo, hi float64) float64 {
	return lo + (hi-lo)*u01(t, label)
}

// drawSet draws n points of one of the classes. stress selects the chain class with a
// sagitta below the main margin.
func drawSet(t *rapid.T, nmin, nmax int, stress bool) pointSet {
	drawSalt = 0
	if nmax > 100 { // spread the large sizes: rapid's IntRange favours the low end
		var bs [][2]int
		for lo := nmin; lo <= nmax; {
			hi := (lo/100 + 1) * 100
			if hi > nmax {
				hi = nmax
			}
			bs = append(bs, [2]int{lo, hi})
			lo = hi + 1
		}
		b := rapid.SampledFrom(bs).Draw(t, "n.bucket")
		nmin, nmax = b[0], b[1]
	}
	n := rapid.IntRange(nmin, nmax).Draw(t, "n")
	class := "chain"
	if !stress {
		class = rapid.SampledFrom(classesMain).Draw(t, "class")
	}
	var labels []string
	E, aspect, c := frame(t, &labels)
	W, H := E/2, aspect*E/2
	if rapid.Bool().Draw(t, "tall") {
		W, H = H, W
	}
	pts := make([]v2.Vec, 0, n)
	inRect := func(l string) v2.Vec {
		return v2.Vec{X: c.X + W*u11(t, l+".x"), Y: c.Y + H*u11(t, l+".y")}
	}
	switch class {
	case "uniform":
		for i := 0; i < n; i++ {
			pts = append(pts, inRect(fmt.Sprintf("p%d", i)))
		}
	case "clustered":
		k := rapid.IntRange(1, 5).Draw(t, "clusters")
		type cl struct {
			c v2.Vec
			s float64
		}
		cls := make([]cl, k)
		for j := range cls {
			dec := urange(t, fmt.Sprintf("cl%d.dec", j), 0, 3.5)
			cls[j] = cl{inRect(fmt.Sprintf("cl%d", j)), E * math.Pow(10, -dec)}
			labels = append(labels, fmt.Sprintf("cluster-scale:1e-%d", int(dec)))
		}
		for i := 0; i < n; i++ {
			l := fmt.Sprintf("p%d", i)
			j := rapid.IntRange(-1, k-1).Draw(t, l+".cl")
			if j < 0 {
				pts = append(pts, inRect(l))
				continue
			}
			pts = append(pts, v2.Vec{X: cls[j].c.X + cls[j].s*u11(t, l+".x"), Y: cls[j].c.Y + cls[j].s*u11(t, l+".y")})
		}
	case "wide":
		// coordinates with log-uniform magnitudes over several decades, both signs
		hi := g.LogUniform(t, "wide.hi", 1e-1, 1e4)
		dec := rapid.Float64Range(1, 5).Draw(t, "wide.dec")
		lo := math.Max(1e-3, hi*math.Pow(10, -dec))
		labels = append(labels, fmt.Sprintf("wide-decades:%d", int(math.Log10(hi/lo))))
		co := func(l string) float64 {
			m := math.Exp(urange(t, l, math.Log(lo), math.Log(hi)))
			if rapid.Bool().Draw(t, l+".neg") {
				return -m
			}
			return m
		}
		for i := 0; i < n; i++ {
			pts = append(pts, v2.Vec{X: co(fmt.Sprintf("p%d.x", i)), Y: co(fmt.Sprintf("p%d.y", i))})
		}
	case "ties":
		// pairs of points sharing an exact X (ties in the x-sort) or an exact Y
		// (horizontal edges: the |y1-y2| < epsilon branches of Circumcenter)
		for len(pts) < n {
			l := fmt.Sprintf("p%d", len(pts))
			a := inRect(l)
			pts = append(pts, a)
			if len(pts) == n {
				break
			}
			b := inRect(l + "b")
			switch rapid.IntRange(0, 3).Draw(t, l+".tie") {
			case 0:
				b.X = a.X
				labels = append(labels, "tie:x")
			case 1:
				b.Y = a.Y
				labels = append(labels, "tie:y")
			case 3:
				// two distinct points almost on top of each other, level: neighbours in the x order
				// that differ by less than a billionth of a unit
				b.Y = a.Y
				b.X = a.X + g.LogUniform(t, l+".close", 2e-11, 9e-10)*float64(1-2*rapid.IntRange(0, 1).Draw(t, l+".side"))
				labels = append(labels, "tie:near-duplicate")
			}
			pts = append(pts, b)
		}
	case "near-duplicate":
		// a small set (extent 0.01..0.3) with one pair of distinct points 3e-10..9e-10 apart, level with each
		// other and therefore neighbours in the x order; the extent is chosen so that the pair is still in
		// margin-general position (relative separation >= 1e-9 of the set's diameter)
		if n > 9 {
			n = 4 + n%6
		}
		if n < 4 {
			n = 4
		}
		E = g.LogUniform(t, "nd.extent", 0.01, 0.3)
		W, H = E/2, E/2
		for i := 0; i < n-1; i++ {
			pts = append(pts, inRect(fmt.Sprintf("p%d", i)))
		}
		a := pts[rapid.IntRange(0, len(pts)-1).Draw(t, "nd.of")]
		pts = append(pts, v2.Vec{X: a.X + g.LogUniform(t, "nd.close", 3e-10, 9e-10)*float64(1-2*rapid.IntRange(0, 1).Draw(t, "nd.side")), Y: a.Y})
		labels = append(labels, "near-duplicate-pair")
	case "ring-near-tie":
		// few points very close to one circle (in-circle tests decided by a margin of 1e-9..1e-6 of the
		// radius) of which two are ALMOST level: a triangle edge that is nearly but not exactly horizontal
		// (slope 1e7..1e9), where the circumcentre is most sensitive to how it is computed
		if n > 8 {
			n = 4 + n%5
		}
		if n < 4 {
			n = 4
		}
		scatter := g.LogUniform(t, "rnt.scatter", 1e-9, 1e-6)
		R := W
		if H < R {
			R = H
		}
		for i := 0; i < n; i++ {
			l := fmt.Sprintf("p%d", i)
			a := (float64(i) + 0.1 + 0.8*u01(t, l+".a")) * 2 * math.Pi / float64(n)
			r := 1 + scatter*u11(t, l+".r")
			pts = append(pts, v2.Vec{X: c.X + R*r*math.Cos(a), Y: c.Y + R*r*math.Sin(a)})
		}
		{
			// make the point after a drawn one almost level with its mirror image about the vertical axis
			i := rapid.IntRange(0, n-1).Draw(t, "rnt.i")
			j := (i + 1 + rapid.IntRange(0, n-2).Draw(t, "rnt.j")) % n
			d := g.LogUniform(t, "rnt.dy", 1.5e-9, 1e-7) * float64(1-2*rapid.IntRange(0, 1).Draw(t, "rnt.sign"))
			dx := pts[i].X - c.X
			y := pts[i].Y + d
			if dy := y - c.Y; math.Abs(dy) < R {
				// the mirrored position on the circle at that height, with its own radial scatter
				x := math.Sqrt(R*R-dy*dy) * (1 + scatter*u11(t, "rnt.r"))
				if dx > 0 {
					x = -x
				}
				pts[j] = v2.Vec{X: c.X + x, Y: y}
			}
		}
		labels = append(labels, fmt.Sprintf("ring-near-tie:scatter=1e%d", int(math.Floor(math.Log10(scatter)))))
	case "ring":
		// points near a circle with radial scatter (many nearly-cocircular 4-subsets,
		// kept above the margin by the exact check), optionally a few inside
		scatter := g.LogUniform(t, "ring.scatter", 1e-3, 0.3)
		if rapid.IntRange(0, 2).Draw(t, "ring.tight") == 0 {
			// nearly cocircular (the exact check keeps what is above the margin)
			scatter = g.LogUniform(t, "ring.scatter-tight", 1e-8, 1e-3)
		}
		labels = append(labels, fmt.Sprintf("ring-scatter:1e%d", int(math.Floor(math.Log10(scatter)))))
		for i := 0; i < n; i++ {
			l := fmt.Sprintf("p%d", i)
			if rapid.IntRange(0, 4).Draw(t, l+".in") == 0 {
				pts = append(pts, v2.Vec{X: c.X + 0.5*W*u11(t, l+".x"), Y: c.Y + 0.5*H*u11(t, l+".y")})
				continue
			}
			a := urange(t, l+".a", -math.Pi, math.Pi)
			r := 1 + scatter*u11(t, l+".r")
			pts = append(pts, v2.Vec{X: c.X + W*r*math.Cos(a), Y: c.Y + H*r*math.Sin(a)})
		}
	case "chain":
		// one or two near-collinear hull chains (points on a shallow parabola over a chord
		// spanning the set) plus points on the inner side of the chord
		dir := g.Angle(t, "chain.dir") // multiples of pi/4 are likely: horizontal / vertical chords
		ux, uy := math.Cos(dir), math.Sin(dir)
		if math.Abs(ux) < 1e-15 {
			ux = 0
		}
		if math.Abs(uy) < 1e-15 {
			uy = 0
		}
		vx, vy := -uy, ux // outward normal of the first chain
		chains := rapid.IntRange(1, 2).Draw(t, "chain.count")
		depth := aspect * E
		place := func(s, h float64) v2.Vec { // s along the chord in [-1/2,1/2]*E, h outward
			return v2.Vec{X: c.X + s*E*ux + h*vx, Y: c.Y + s*E*uy + h*vy}
		}
		for ch := 0; ch < chains && len(pts) < n-1; ch++ {
			l := fmt.Sprintf("chain%d", ch)
			maxm := n - 1 - len(pts)
			if maxm > 12 {
				maxm = 12
			}
			if maxm < 3 {
				break
			}
			m := rapid.IntRange(3, maxm).Draw(t, l+".m")
			var S float64 // sagitta/chord of the whole chain
			if stress {
				S = g.LogUniform(t, l+".S", sigmaStress, sigmaMain)
				if rapid.IntRange(0, 2).Draw(t, l+".single") > 0 {
					m = 3 // one sliver over the whole chord: the case that reaches the super triangle
				}
			} else {
				S = g.LogUniform(t, l+".S", 2*sigmaMain, 0.2)
			}
			// bend +1: convex chain (its points are hull vertices, the hull is nearly straight);
			// bend -1: the inner chain points lie just inside the hull edge chord, so the
			// triangulation has hull slivers with a circumradius of chord/(8*sagitta ratio)
			bend := 1.0
			if rapid.IntRange(0, 4).Draw(t, l+".concave") >= ifelse(stress, 1, 3) {
				bend = -1
			}
			jit := 0.0
			if rapid.Bool().Draw(t, l+".jitter") {
				jit = 0.5
			}
			labels = append(labels, fmt.Sprintf("chain-sagitta:1e%d", int(math.Floor(math.Log10(S)))), fmt.Sprintf("chain-points:%d", m), fmt.Sprintf("chain-bend:%+.0f", bend))
			side := 1.0
			off := 0.0
			if ch == 1 {
				side, off = -1, depth
			}
			ts := make([]float64, m)
			ts[0], ts[m-1] = 0, 1
			for j := 1; j < m-1; j++ {
				// interior chain points spread over the chord, jittered
				ts[j] = (float64(j) + 0.4*u11(t, fmt.Sprintf("%s.t%d", l, j))) / float64(m-1)
			}
			for j, tt := range ts {
				h := bend * 4 * S * E * tt * (1 - tt)
				if jit > 0 && j > 0 && j < m-1 {
					h *= 1 + jit*u11(t, fmt.Sprintf("%s.h%d", l, j))
				}
				sp := tt - 0.5
				if ch == 1 {
					sp = 0.93*sp + 0.02 // not a rectangle with the first chord (would be cocircular)
				}
				pts = append(pts, place(sp, side*h-off))
			}
		}
		// the rest: strictly between the chains / below the first chord
		for len(pts) < n {
			l := fmt.Sprintf("p%d", len(pts))
			s := 0.48 * u11(t, l+".s")
			d := urange(t, l+".d", 0.05, 0.95)
			pts = append(pts, place(s, -d*depth))
		}
	}
	labels = append(labels, "class:"+class, fmt.Sprintf("extent:1e%d", int(math.Floor(math.Log10(E)))))
	// near ties: a pair of points that differ in y (or x) by 1e-12..1e-6 of the extent - edges that are
	// almost but not exactly horizontal / vertical
	if len(pts) >= 2 && rapid.IntRange(0, 3).Draw(t, "near-tie") == 0 {
		k := rapid.IntRange(1, 3).Draw(t, "near-tie.pairs")
		for q := 0; q < k; q++ {
			l := fmt.Sprintf("nt%d", q)
			a := rapid.IntRange(0, len(pts)-1).Draw(t, l+".a")
			b := rapid.IntRange(0, len(pts)-1).Draw(t, l+".b")
			if a == b {
				continue
			}
			d := g.LogUniform(t, l+".d", 1e-12, 1e-6) * E * float64(1-2*rapid.IntRange(0, 1).Draw(t, l+".sign"))
			if rapid.Bool().Draw(t, l+".x") {
				pts[b].X = pts[a].X + d
			} else {
				pts[b].Y = pts[a].Y + d
			}
		}
		labels = append(labels, "near-tie")
	}
	// two (or three) of the points exactly on a coordinate axis: y = 0 or x = 0 (drawings are dimensioned
	// from a base line; a tolerance relative to |y| is zero there)
	if len(pts) >= 3 && rapid.IntRange(0, 7).Draw(t, "on-axis") == 0 {
		k := rapid.IntRange(2, 3).Draw(t, "on-axis.count")
		onX := rapid.Bool().Draw(t, "on-axis.y=0")
		for c := 0; c < k; c++ {
			i := rapid.IntRange(0, len(pts)-1).Draw(t, fmt.Sprintf("on-axis.%d", c))
			if onX {
				pts[i].Y = 0
			} else {
				pts[i].X = 0
			}
		}
		labels = append(labels, "points-on-an-axis")
	}
	return pointSet{pts, class, labels}
}

func ifelse(c bool, a, b int) int {
	if c {
		return a
	}
	return b
}
