package c20

// Exact geometric predicates for the C20 oracle.
//
// Every sign is decided exactly: a float64 evaluation with a proven forward
// error bound (Shewchuk's "A" bounds, doubled) answers when the value is
// clearly away from zero, otherwise the determinant is evaluated in math/big.Rat
// (float64 values are dyadic rationals, so the conversion is exact).
// TestPredicates compares the filtered sign with the pure big.Rat sign on
// near-degenerate and exactly degenerate inputs.

import (
	"math"
	"math/big"
	"sort"

	v2 "github.com/deadsy/sdfx/vec/v2"
)

const (
	eps53     = 1.0 / (1 << 53)
	ccwErrA   = 2 * (3 + 16*eps53) * eps53
	iccErrA   = 2 * (10 + 96*eps53) * eps53
	tinyGuard = 1e-280 // below this products may have underflowed: go exact
	hugeGuard = 1e280
)

// predStats counts how predicates were decided (per process; reported as labels).
type predStats struct{ orientFilter, orientExact, icFilter, icExact int64 }

var pstat predStats

// orientDet returns the float determinant (>0: a,b,c counter-clockwise) and its error bound.
func orientDet(a, b, c v2.Vec) (det, bound float64) {
	l := float64((a.X - c.X) * (b.Y - c.Y))
	r := float64((a.Y - c.Y) * (b.X - c.X))
	det = l - r
	bound = ccwErrA * (math.Abs(l) + math.Abs(r))
	return
}

func orientExact(a, b, c v2.Vec) int {
	ax, ay := rat(a.X), rat(a.Y)
	bx, by := rat(b.X), rat(b.Y)
	cx, cy := rat(c.X), rat(c.Y)
	acx := new(big.Rat).Sub(ax, cx)
	acy := new(big.Rat).Sub(ay, cy)
	bcx := new(big.Rat).Sub(bx, cx)
	bcy := new(big.Rat).Sub(by, cy)
	l := new(big.Rat).Mul(acx, bcy)
	r := new(big.Rat).Mul(acy, bcx)
	return l.Cmp(r)
}

// orient is the exact sign of the orientation determinant: +1 ccw, -1 cw, 0 collinear.
func orient(a, b, c v2.Vec) int {
	det, bound := orientDet(a, b, c)
	if bound > tinyGuard && bound < hugeGuard {
		if det > bound {
			pstat.orientFilter++
			return 1
		}
		if -det > bound {
			pstat.orientFilter++
			return -1
		}
	}
	pstat.orientExact++
	return orientExact(a, b, c)
}

// inCircleDet returns the float in-circle determinant (>0: d strictly inside the
// circle through a,b,c when a,b,c are counter-clockwise) and its error bound.
func inCircleDet(a, b, c, d v2.Vec) (det, bound float64) {
	adx, ady := a.X-d.X, a.Y-d.Y
	bdx, bdy := b.X-d.X, b.Y-d.Y
	cdx, cdy := c.X-d.X, c.Y-d.Y
	bdxcdy, cdxbdy := float64(bdx*cdy), float64(cdx*bdy)
	alift := float64(adx*adx) + float64(ady*ady)
	cdxady, adxcdy := float64(cdx*ady), float64(adx*cdy)
	blift := float64(bdx*bdx) + float64(bdy*bdy)
	adxbdy, bdxady := float64(adx*bdy), float64(bdx*ady)
	clift := float64(cdx*cdx) + float64(cdy*cdy)
	det = float64(alift*(bdxcdy-cdxbdy)) + float64(blift*(cdxady-adxcdy)) + float64(clift*(adxbdy-bdxady))
	perm := float64((math.Abs(bdxcdy)+math.Abs(cdxbdy))*alift) +
		float64((math.Abs(cdxady)+math.Abs(adxcdy))*blift) +
		float64((math.Abs(adxbdy)+math.Abs(bdxady))*clift)
	bound = iccErrA * perm
	return
}

func inCircleExact(a, b, c, d v2.Vec) int {
	dx, dy := rat(d.X), rat(d.Y)
	sub := func(p v2.Vec) (*big.Rat, *big.Rat, *big.Rat) {
		x := new(big.Rat).Sub(rat(p.X), dx)
		y := new(big.Rat).Sub(rat(p.Y), dy)
		l := new(big.Rat).Mul(x, x)
		l.Add(l, new(big.Rat).Mul(y, y))
		return x, y, l
	}
	ax, ay, al := sub(a)
	bx, by, bl := sub(b)
	cx, cy, cl := sub(c)
	m := func(p, q, r, s *big.Rat) *big.Rat { // p*q - r*s
		t := new(big.Rat).Mul(p, q)
		return t.Sub(t, new(big.Rat).Mul(r, s))
	}
	det := new(big.Rat).Mul(al, m(bx, cy, cx, by))
	det.Add(det, new(big.Rat).Mul(bl, m(cx, ay, ax, cy)))
	det.Add(det, new(big.Rat).Mul(cl, m(ax, by, bx, ay)))
	return det.Sign()
}

// inCircle is the exact sign of the in-circle determinant for the triangle in the
// order given (multiply by orient(a,b,c) for an orientation independent answer).
func inCircle(a, b, c, d v2.Vec) int {
	det, bound := inCircleDet(a, b, c, d)
	if bound > tinyGuard && bound < hugeGuard {
		if det > bound {
			pstat.icFilter++
			return 1
		}
		if -det > bound {
			pstat.icFilter++
			return -1
		}
	}
	pstat.icExact++
	return inCircleExact(a, b, c, d)
}

func rat(x float64) *big.Rat {
	r := new(big.Rat).SetFloat64(x)
	if r == nil {
		panic("non-finite coordinate in exact predicate")
	}
	return r
}

// ---------------------------------------------------------------------------
// exact convex hull (Andrew's monotone chain on exact orientation signs).
// Returns the hull vertex indices counter-clockwise; points that are collinear
// with their hull neighbours are not hull vertices.

func convexHull(p []v2.Vec) []int {
	n := len(p)
	idx := make([]int, n)
	for i := range idx {
		idx[i] = i
	}
	sort.Slice(idx, func(i, j int) bool {
		a, b := p[idx[i]], p[idx[j]]
		if a.X != b.X {
			return a.X < b.X
		}
		if a.Y != b.Y {
			return a.Y < b.Y
		}
		return idx[i] < idx[j]
	})
	// drop exact duplicates (the generators never produce them; be safe)
	u := idx[:0]
	for k, i := range idx {
		if k > 0 && p[i] == p[u[len(u)-1]] {
			continue
		}
		u = append(u, i)
	}
	idx = u
	if len(idx) < 3 {
		return append([]int(nil), idx...)
	}
	var h []int
	for _, i := range idx {
		for len(h) >= 2 && orient(p[h[len(h)-2]], p[h[len(h)-1]], p[i]) <= 0 {
			h = h[:len(h)-1]
		}
		h = append(h, i)
	}
	lower := len(h) + 1
	for k := len(idx) - 2; k >= 0; k-- {
		i := idx[k]
		for len(h) >= lower && orient(p[h[len(h)-2]], p[h[len(h)-1]], p[i]) <= 0 {
			h = h[:len(h)-1]
		}
		h = append(h, i)
	}
	return h[:len(h)-1]
}

// ---------------------------------------------------------------------------
// reference Delaunay triangulation by exact gift wrapping: for a directed edge
// (a,b) the third vertex is the point strictly left of it whose circle through
// a,b contains no other left point. O(n^2); independent of both sdfx
// implementations (no circumcentres, no lifting, no insertion order).
// Only meaningful for points in general position, which the caller verifies
// afterwards against the returned triangles.

func refDelaunay(p []v2.Vec, hull []int) [][3]int {
	if len(hull) < 3 {
		return nil
	}
	type edge [2]int
	done := map[edge]bool{}
	var out [][3]int
	stack := []edge{{hull[0], hull[1]}}
	for len(stack) > 0 {
		e := stack[len(stack)-1]
		stack = stack[:len(stack)-1]
		if done[e] {
			continue
		}
		a, b := e[0], e[1]
		best := -1
		for c := range p {
			if c == a || c == b || orient(p[a], p[b], p[c]) <= 0 {
				continue
			}
			if best < 0 || inCircle(p[a], p[b], p[best], p[c]) > 0 {
				best = c
			}
		}
		if best < 0 {
			continue // hull edge seen from outside
		}
		if done[edge{b, best}] || done[edge{best, a}] {
			return nil // two triangles on the same side of an edge: degenerate input
		}
		done[edge{a, b}], done[edge{b, best}], done[edge{best, a}] = true, true, true
		out = append(out, [3]int{a, b, best})
		if len(out) > 4*len(p) {
			return nil // cannot happen in general position; caller discards
		}
		stack = append(stack, edge{best, b}, edge{a, best})
	}
	return out
}
