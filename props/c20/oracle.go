package c20

import (
	"fmt"
	"math"
	"sort"

	v2 "github.com/deadsy/sdfx/vec/v2"
)

// Margins (see plan.json "assumptions").
const (
	tripleMargin = 1e-9  // |orient det| >= tripleMargin * l^2, l = longest side of the triple
	icMarginL4   = 1e-9  // |in-circle det| >= icMarginL4*l^4 + icMarginM2*l^2*Ms^2,
	icMarginM2   = 1e-11 //   l = diameter of the 4 points, Ms = max(|coordinate|, extent)
	sigmaMain    = 1e-3  // sagitta/chord of every reference triangle (sin(largest angle)/4)
	sigmaStress  = 1e-6  // lower end of the stress class
	// absolute scale: the library compares d^2-r^2 and |y1-y2| with epsilon = 1e-12
	absGap    = 1e-11 // every |d^2-r^2| of a (triangle, point) pair the margin check covers
	absHeight = 1e-12 // (smallest height of every triple) * extent: half-plane tests are circles of radius >= 2048*extent through super-triangle vertices
	absDy     = 1e-9  // |y_i-y_j| is exactly 0 or >= absDy (Circumcenter treats < 1e-12 as 0)
)

// geom is what the harness knows about a point set from its own exact computations.
type geom struct {
	n        int
	E, M, Ms float64
	hull     []int    // exact convex hull, ccw
	ref      [][3]int // exact reference Delaunay triangulation (ccw triples)
	why      string   // non-empty: not in (margin-)general position -> discard reason
	minSigma float64  // min over reference triangles of sin(largest angle)/4 (0.25 if not obtuse)
	minGap   float64  // min over reference triangles x other points of |d^2-r^2| (float, det/(2*area2))
	full     bool     // all triples and all 4-subsets were verified (else triples + reference circles)
}

func extent(p []v2.Vec) (E, M float64) {
	minx, maxx := math.Inf(1), math.Inf(-1)
	miny, maxy := math.Inf(1), math.Inf(-1)
	for _, q := range p {
		minx, maxx = math.Min(minx, q.X), math.Max(maxx, q.X)
		miny, maxy = math.Min(miny, q.Y), math.Max(maxy, q.Y)
		M = math.Max(M, math.Max(math.Abs(q.X), math.Abs(q.Y)))
	}
	E = math.Max(maxx-minx, maxy-miny)
	return
}

func dist2(a, b v2.Vec) float64 {
	dx, dy := a.X-b.X, a.Y-b.Y
	return dx*dx + dy*dy
}

func icMargin(l2, Ms float64) float64 { return icMarginL4*l2*l2 + icMarginM2*l2*Ms*Ms }

// sigma is the sagitta-to-chord ratio of the circumcircle over the longest edge:
// sin(largest angle)/4 for an obtuse triangle, capped at 1/4 otherwise.
func sigma(a, b, c v2.Vec) float64 {
	ab, bc, ca := dist2(a, b), dist2(b, c), dist2(c, a)
	// sort so that ab is the longest
	if bc > ab {
		ab, bc = bc, ab
	}
	if ca > ab {
		ab, ca = ca, ab
	}
	if ab <= bc+ca { // not obtuse
		return 0.25
	}
	det, _ := orientDet(a, b, c)
	s := math.Abs(det) / math.Sqrt(bc*ca) // sin of the largest angle
	return math.Min(0.25, s/4)
}

// analyse verifies general position with margins. full: every triple and every
// 4-subset (O(n^4)); otherwise every triple and every (reference triangle, point) pair.
func analyse(p []v2.Vec, full bool) *geom {
	n := len(p)
	g := &geom{n: n, full: full, minSigma: 0.25, minGap: math.Inf(1)}
	g.E, g.M = extent(p)
	g.Ms = math.Max(g.E, g.M)
	if !(g.E > 0) {
		g.why = "zero-extent"
		return g
	}
	// pairwise squared distances
	d2 := make([]float64, n*n)
	for i := 0; i < n; i++ {
		for j := i + 1; j < n; j++ {
			d := dist2(p[i], p[j])
			d2[i*n+j], d2[j*n+i] = d, d
			if d == 0 {
				g.why = "duplicate-point"
				return g
			}
			if dy := math.Abs(p[i].Y - p[j].Y); dy != 0 && dy < absDy {
				g.why = "abs:dy-inside-epsilon-band"
				return g
			}
		}
	}
	// no three collinear (exact), with a relative margin
	for i := 0; i < n; i++ {
		for j := i + 1; j < n; j++ {
			for k := j + 1; k < n; k++ {
				det, bound := orientDet(p[i], p[j], p[k])
				l2 := math.Max(d2[i*n+j], math.Max(d2[j*n+k], d2[i*n+k]))
				if math.Abs(det)-bound >= tripleMargin*l2 {
					// certainly non-zero and above the relative margin
					if math.Abs(det)*g.E < absHeight*math.Sqrt(l2) {
						g.why = "abs:triple-height"
						return g
					}
					continue
				}
				if orient(p[i], p[j], p[k]) == 0 {
					g.why = "collinear-exact"
				} else {
					g.why = "collinear-margin"
				}
				return g
			}
		}
	}
	// no four cocircular (exact), with a relative margin: all 4-subsets
	if full {
		for i := 0; i < n; i++ {
			for j := i + 1; j < n; j++ {
				for k := j + 1; k < n; k++ {
					lijk := math.Max(d2[i*n+j], math.Max(d2[j*n+k], d2[i*n+k]))
					for l := k + 1; l < n; l++ {
						det, bound := inCircleDet(p[i], p[j], p[k], p[l])
						l2 := math.Max(lijk, math.Max(d2[i*n+l], math.Max(d2[j*n+l], d2[k*n+l])))
						if math.Abs(det)-bound >= icMargin(l2, g.Ms) {
							a1, _ := orientDet(p[i], p[j], p[k])
							a2, _ := orientDet(p[i], p[j], p[l])
							a3, _ := orientDet(p[i], p[k], p[l])
							a4, _ := orientDet(p[j], p[k], p[l])
							amax := math.Max(math.Max(math.Abs(a1), math.Abs(a2)), math.Max(math.Abs(a3), math.Abs(a4)))
							if math.Abs(det) < absGap*amax {
								g.why = "abs:circle-gap"
								return g
							}
							continue
						}
						if inCircle(p[i], p[j], p[k], p[l]) == 0 {
							g.why = "cocircular-exact"
						} else {
							g.why = "cocircular-margin"
						}
						return g
					}
				}
			}
		}
	}
	// exact hull and reference triangulation
	g.hull = convexHull(p)
	g.ref = refDelaunay(p, g.hull)
	if g.ref == nil || len(g.ref) != 2*n-2-len(g.hull) {
		g.why = "reference-degenerate"
		return g
	}
	for _, tr := range g.ref {
		a, b, c := p[tr[0]], p[tr[1]], p[tr[2]]
		g.minSigma = math.Min(g.minSigma, sigma(a, b, c))
		area2, _ := orientDet(a, b, c)
		lt := math.Max(d2[tr[0]*n+tr[1]], math.Max(d2[tr[1]*n+tr[2]], d2[tr[0]*n+tr[2]]))
		for q := 0; q < n; q++ {
			if q == tr[0] || q == tr[1] || q == tr[2] {
				continue
			}
			det, bound := inCircleDet(a, b, c, p[q])
			l2 := math.Max(lt, math.Max(d2[tr[0]*n+q], math.Max(d2[tr[1]*n+q], d2[tr[2]*n+q])))
			// reference triangles are ccw: every other point must be strictly outside (det < 0)
			if -det-bound < icMargin(l2, g.Ms) {
				if s := inCircle(a, b, c, p[q]); s == 0 {
					g.why = "cocircular-exact"
				} else if s > 0 {
					g.why = "reference-degenerate"
				} else {
					g.why = "cocircular-margin"
				}
				return g
			}
			g.minGap = math.Min(g.minGap, -det/math.Abs(area2))
			if -det < absGap*math.Abs(area2) {
				g.why = "abs:circle-gap"
				return g
			}
		}
	}
	return g
}

// ---------------------------------------------------------------------------

type failure struct{ key, msg string }

func canonTri(t [3]int) [3]int {
	switch {
	case t[1] < t[0] && t[1] < t[2]:
		return [3]int{t[1], t[2], t[0]}
	case t[2] < t[0] && t[2] < t[1]:
		return [3]int{t[2], t[0], t[1]}
	}
	return t
}

func lessTri(a, b [3]int) bool {
	for k := 0; k < 3; k++ {
		if a[k] != b[k] {
			return a[k] < b[k]
		}
	}
	return false
}

// canon is the harness' own canonical form: every triple rotated to start with its
// smallest index (winding kept), then sorted lexicographically.
func canon(ts [][3]int) [][3]int {
	out := make([][3]int, len(ts))
	for i, t := range ts {
		out[i] = canonTri(t)
	}
	sort.Slice(out, func(i, j int) bool { return lessTri(out[i], out[j]) })
	return out
}

func equalCanon(a, b [][3]int) bool {
	if len(a) != len(b) {
		return false
	}
	for i := range a {
		if a[i] != b[i] {
			return false
		}
	}
	return true
}

// checkTriangulation decides the statement for one returned triangle set over the
// points p (as the library left them), using only the harness' exact predicates.
// api is "Delaunay2d" or "Delaunay2dSlow". Returns nil when everything holds.
func checkTriangulation(api string, p []v2.Vec, ts [][3]int, g *geom) *failure {
	n := len(p)
	fail := func(what, f string, a ...any) *failure {
		return &failure{api + ":" + what, fmt.Sprintf(f, a...)}
	}
	// indices valid and distinct
	for _, t := range ts {
		for k := 0; k < 3; k++ {
			if t[k] < 0 || t[k] >= n {
				return fail("index-out-of-range", "triangle %v has an index outside [0,%d)", t, n)
			}
		}
		if t[0] == t[1] || t[1] == t[2] || t[0] == t[2] {
			return fail("repeated-index", "triangle %v repeats an index", t)
		}
	}
	// the sliver diagnosis comes first so that the one acknowledged weakness gets its own key
	if len(ts) < len(g.ref) {
		if lost, ok := lostSlivers(p, ts, g); ok {
			return fail("hull-sliver-beyond-super-triangle-reach", "%d of %d triangles missing, all of them hull slivers (sagitta/chord %v) and all returned triangles are Delaunay; n=%d h=%d", len(lost), len(g.ref), lost, n, len(g.hull))
		}
	}
	// non-degenerate, one winding. For sets of more than 40 points general position is verified for the pairs
	// (reference triangle, point) only, not for the triangles the incremental algorithm passes through on
	// its way: there the pinned code returns, rarely, one triple wound the other way round in an otherwise
	// correct triangulation (an intermediate in-circle decision below the library's absolute epsilon; seen
	// once, 101 clustered points 1e-6 apart). For such sets (LaxWinding) the triples are brought into
	// counter-clockwise order, so that the clauses below are statements about geometry, and mixed windings
	// are counted; for n <= 40, where every 4-subset is verified, one winding is required.
	pos, neg := 0, 0
	ts = append([][3]int(nil), ts...)
	for i, t := range ts {
		s := orient(p[t[0]], p[t[1]], p[t[2]])
		if s == 0 {
			return fail("degenerate-triangle", "triangle %v = %v %v %v is collinear", t, p[t[0]], p[t[1]], p[t[2]])
		}
		if s > 0 {
			pos++
		} else {
			neg++
			ts[i] = [3]int{t[0], t[2], t[1]}
		}
	}
	if pos > 0 && neg > 0 {
		if n <= 40 {
			return fail("orientation-inconsistent", "%d triples are counter-clockwise, %d clockwise", pos, neg)
		}
		MixedWindings++
	}
	// count
	want := 2*n - 2 - len(g.hull)
	if len(ts) != want {
		return fail("triangle-count", "%d triangles, want 2n-2-h = %d (n=%d h=%d)", len(ts), want, n, len(g.hull))
	}
	// edge incidence: hull edges once, all other edges twice, directed edges once
	type e2 [2]int
	und := map[e2]int{}
	dir := map[e2]int{}
	for _, t := range ts {
		for k := 0; k < 3; k++ {
			a, b := t[k], t[(k+1)%3]
			dir[e2{a, b}]++
			if a > b {
				a, b = b, a
			}
			und[e2{a, b}]++
		}
	}
	hullEdge := map[e2]bool{}
	for k := range g.hull {
		a, b := g.hull[k], g.hull[(k+1)%len(g.hull)]
		if a > b {
			a, b = b, a
		}
		hullEdge[e2{a, b}] = true
	}
	// deterministic iteration: walk the triangles again instead of ranging over the maps
	for _, t := range ts {
		for k := 0; k < 3; k++ {
			a, b := t[k], t[(k+1)%3]
			if dir[e2{a, b}] != 1 {
				return fail("edge-incidence", "directed edge %d->%d is used by %d triangles", a, b, dir[e2{a, b}])
			}
			if a > b {
				a, b = b, a
			}
			c := und[e2{a, b}]
			if hullEdge[e2{a, b}] && c != 1 {
				return fail("edge-incidence", "hull edge %d-%d is shared by %d triangles, want 1", a, b, c)
			}
			if !hullEdge[e2{a, b}] && c != 2 {
				return fail("edge-incidence", "interior edge %d-%d is shared by %d triangles, want 2", a, b, c)
			}
		}
	}
	for k := range g.hull {
		a, b := g.hull[k], g.hull[(k+1)%len(g.hull)]
		if a > b {
			a, b = b, a
		}
		if und[e2{a, b}] != 1 {
			return fail("edge-incidence", "hull edge %d-%d is shared by %d triangles, want 1", a, b, und[e2{a, b}])
		}
	}
	// empty circumcircles, exactly
	for _, t := range ts {
		a, b, c := p[t[0]], p[t[1]], p[t[2]]
		for q := 0; q < n; q++ {
			if q == t[0] || q == t[1] || q == t[2] {
				continue
			}
			if inCircle(a, b, c, p[q]) > 0 { // (the triples are counter-clockwise here)
				return fail("point-inside-circumcircle", "point %d %v lies strictly inside the circumcircle of triangle %v = %v %v %v", q, p[q], t, a, b, c)
			}
		}
	}
	return nil
}

// lostSlivers reports whether ts is the reference triangulation minus some
// triangles that all are slivers below the sagitta margin (up to winding).
func lostSlivers(p []v2.Vec, ts [][3]int, g *geom) ([]string, bool) {
	key := func(t [3]int) [3]int {
		s := []int{t[0], t[1], t[2]}
		sort.Ints(s)
		return [3]int{s[0], s[1], s[2]}
	}
	have := map[[3]int]int{}
	for _, t := range ts {
		have[key(t)]++
	}
	found := 0
	var lost []string
	for _, t := range g.ref {
		k := key(t)
		if have[k] == 1 {
			found++
			continue
		}
		if have[k] > 1 {
			return nil, false
		}
		s := sigma(p[t[0]], p[t[1]], p[t[2]])
		if s >= sigmaMain {
			return nil, false
		}
		// ... and its circumcircle reaches a vertex of the super triangle the pinned code encloses the set in
		// (bounding-box centre +- 4096 * 2 * larger side; "this is kludgey ... for thin triangles on the hull
		// the circumcenter is going to be arbitrarily far away", render/delaunay.go): only then is the loss
		// the recorded one. A sliver lost although the super triangle is out of its circle's reach is not.
		if !reachesSuperTriangle(p, t) {
			return nil, false
		}
		lost = append(lost, fmt.Sprintf("%v:%.3g", t, s))
	}
	if found != len(ts) || len(lost) == 0 {
		return nil, false
	}
	return lost, true
}

// MixedWindings counts triangulations returned with triples of both windings (not a violation).
var MixedWindings int

// superReachMargin: the pinned code decides "inside the circumcircle" in floating point for circles
// thousands of times larger than the point set; a super vertex this close (relatively) to the circle
// counts as reached.
const superReachMargin = 0.02

// reachesSuperTriangle reports whether the circumcircle of triangle t contains (or comes within
// superReachMargin of) a vertex of the super triangle of the pinned code.
func reachesSuperTriangle(p []v2.Vec, t [3]int) bool {
	lo, hi := p[0], p[0]
	for _, q := range p {
		lo = v2.Vec{X: math.Min(lo.X, q.X), Y: math.Min(lo.Y, q.Y)}
		hi = v2.Vec{X: math.Max(hi.X, q.X), Y: math.Max(hi.Y, q.Y)}
	}
	c := v2.Vec{X: (lo.X + hi.X) / 2, Y: (lo.Y + hi.Y) / 2}
	k := math.Max(hi.X-lo.X, hi.Y-lo.Y) * 2 * 4096
	super := []v2.Vec{{X: c.X - k, Y: c.Y - k}, {X: c.X, Y: c.Y + k}, {X: c.X + k, Y: c.Y - k}}
	// circumcentre relative to a (well conditioned enough: the margin is 2 %)
	a, b, d := p[t[0]], p[t[1]], p[t[2]]
	bx, by, dx, dy := b.X-a.X, b.Y-a.Y, d.X-a.X, d.Y-a.Y
	den := 2 * (bx*dy - by*dx)
	if den == 0 {
		return true
	}
	ux := (dy*(bx*bx+by*by) - by*(dx*dx+dy*dy)) / den
	uy := (bx*(dx*dx+dy*dy) - dx*(bx*bx+by*by)) / den
	R := math.Hypot(ux, uy)
	for _, sv := range super {
		if math.Hypot(sv.X-a.X-ux, sv.Y-a.Y-uy) <= R*(1+superReachMargin) {
			return true
		}
	}
	return false
}
