package c20

import (
	"fmt"
	"testing"

	"github.com/deadsy/sdfx/render"
	v2 "github.com/deadsy/sdfx/vec/v2"
	"pgregory.net/rapid"

	"verif/internal/ev"
)

// ---------------------------------------------------------------------------
// TriangleISet.Equals / Canonical: invariance under permutation of the triangles and
// rotation of every triple; distinguishes a replaced and a reflected triangle.

func rotKey(t [3]int) [3]int { return canonTri(t) }

func rotate(t [3]int, r int) [3]int {
	return [3]int{t[r%3], t[(r+1)%3], t[(r+2)%3]}
}

// shuffled returns a permuted copy of ts with every triple rotated, all by rapid draws.
func shuffled(t *rapid.T, label string, ts [][3]int) [][3]int {
	idx := make([]int, len(ts))
	for i := range idx {
		idx[i] = i
	}
	perm := rapid.Permutation(idx).Draw(t, label+".perm")
	out := make([][3]int, len(ts))
	for i, j := range perm {
		out[i] = rotate(ts[j], rapid.IntRange(0, 2).Draw(t, fmt.Sprintf("%s.rot%d", label, i)))
	}
	return out
}

func drawTriple(t *rapid.T, label string, k int) [3]int {
	a := rapid.IntRange(0, k-1).Draw(t, label+".a")
	b := rapid.IntRange(0, k-2).Draw(t, label+".b")
	if b >= a {
		b++
	}
	c := rapid.IntRange(0, k-3).Draw(t, label+".c")
	lo, hi := a, b
	if lo > hi {
		lo, hi = hi, lo
	}
	if c >= lo {
		c++
	}
	if c >= hi {
		c++
	}
	return [3]int{a, b, c}
}

func sharesSecondIndex(ts [][3]int) (shares, crossFirst bool) {
	c := canon(ts)
	for i := range c {
		for j := i + 1; j < len(c); j++ {
			if c[i][1] == c[j][1] {
				shares = true
				if c[i][0] != c[j][0] {
					crossFirst = true
				}
			}
		}
	}
	return
}

func TestEqualsInvariance(t *testing.T) {
	rec := ev.Get()
	rapid.Check(t, func(t *rapid.T) {
		var base [][3]int
		source := rapid.SampledFrom([]string{"random", "random", "triangulation"}).Draw(t, "source")
		k := 0
		switch source {
		case "random":
			k = rapid.IntRange(3, 14).Draw(t, "vertices")
			m := rapid.IntRange(1, 24).Draw(t, "triangles")
			seen := map[[3]int]bool{}
			for i := 0; i < m; i++ {
				tr := drawTriple(t, fmt.Sprintf("t%d", i), k)
				if seen[rotKey(tr)] {
					continue // a set: no triangle twice (up to rotation)
				}
				seen[rotKey(tr)] = true
				base = append(base, tr)
			}
		default:
			// a real triangulation as returned by the library (used as a triangle set only)
			ps := drawSet(t, 4, 25, false)
			vs := append(v2.VecSet(nil), ps.pts...)
			ts, err := render.Delaunay2d(vs)
			if err != nil || len(ts) == 0 {
				rec.Count("discarded:equals:no-triangulation", 1)
				return
			}
			k = len(vs)
			seen := map[[3]int]bool{}
			for _, tr := range toTris(ts) {
				if tr[0] == tr[1] || tr[1] == tr[2] || tr[0] == tr[2] || seen[rotKey(tr)] {
					continue
				}
				seen[rotKey(tr)] = true
				base = append(base, tr)
			}
			if len(base) == 0 {
				return
			}
		}
		a1 := shuffled(t, "A", base)
		a2 := shuffled(t, "B", base)
		shares, cross := sharesSecondIndex(base)
		rec.Case(shares, ev.Key(a1, a2), "equals:source="+source, fmt.Sprintf("equals:shares-second-index=%v", shares),
			fmt.Sprintf("equals:shares-second-index-with-different-first=%v", cross), "equals:size="+sizeBucket(len(base)))
		rec.Sample("equals:"+source, map[string]any{"a": a1, "b": a2})

		// Canonical keeps the set and puts the lowest index first
		cn := toSet(a1).Canonical()
		for i, tr := range cn {
			if !(tr[0] < tr[1] && tr[0] < tr[2]) {
				rec.Violation(t, "TriangleI.Canonical:lowest-index-not-first", "Canonical() of %v has element %d = %v", a1, i, tr)
			}
		}
		if !equalCanon(canon(toTris(cn)), canon(base)) {
			rec.Violation(t, "TriangleISet.Canonical:changes-the-set", "Canonical() of %v = %v is not the same set of wound triangles", a1, cn)
		}
		// equal sets compare equal, both ways (Equals canonicalises in place: pass copies)
		if !toSet(a1).Equals(toSet(a2)) {
			rec.Violation(t, "TriangleISet.Equals:order-dependent", "%v and %v are the same set (triangles permuted, triples rotated) but Equals is false", a1, a2)
		}
		if !toSet(a2).Equals(toSet(a1)) {
			rec.Violation(t, "TriangleISet.Equals:order-dependent", "%v and %v are the same set (triangles permuted, triples rotated) but Equals is false", a2, a1)
		}
		if !toSet(a1).Equals(toSet(a1)) {
			rec.Violation(t, "TriangleISet.Equals:order-dependent", "%v does not equal itself", a1)
		}
		// negative: one triple reflected
		i := rapid.IntRange(0, len(base)-1).Draw(t, "neg.index")
		refl := append([][3]int(nil), base...)
		refl[i] = [3]int{base[i][0], base[i][2], base[i][1]}
		b := shuffled(t, "R", refl)
		rec.Label("equals:negative=reflected")
		if toSet(a1).Equals(toSet(b)) || toSet(b).Equals(toSet(a1)) {
			rec.Violation(t, "TriangleISet.Equals:unequal-sets-compare-equal:reflected", "%v vs %v (triangle %v reflected) compare equal", a1, b, base[i])
		}
		// negative: one triangle replaced by one that is not a rotation of it
		if k >= 4 {
			nw := drawTriple(t, "neg.new", k)
			if rotKey(nw) != rotKey(base[i]) {
				repl := append([][3]int(nil), base...)
				repl[i] = nw
				b := shuffled(t, "P", repl)
				rec.Label("equals:negative=replaced")
				if toSet(a1).Equals(toSet(b)) || toSet(b).Equals(toSet(a1)) {
					rec.Violation(t, "TriangleISet.Equals:unequal-sets-compare-equal:replaced", "%v vs %v (triangle %v replaced by %v) compare equal", a1, b, base[i], nw)
				}
			}
		}
		// negative: one triangle dropped
		if len(base) > 1 {
			drop := append(append([][3]int(nil), base[:i]...), base[i+1:]...)
			rec.Label("equals:negative=dropped")
			if toSet(a1).Equals(toSet(drop)) || toSet(drop).Equals(toSet(a1)) {
				rec.Violation(t, "TriangleISet.Equals:unequal-sets-compare-equal:dropped", "%v vs %v compare equal", a1, drop)
			}
		}
	})
}
