package c20

import (
	"math"
	"testing"

	v2 "github.com/deadsy/sdfx/vec/v2"
	"pgregory.net/rapid"

	"verif/internal/ev"
	"verif/internal/g"
)

// TestPredicates validates the oracle itself: the filtered predicates must agree with
// the pure big.Rat evaluation and, on small integer inputs, with an int64 determinant;
// the signs must obey the permutation laws. Inputs are built near and on the degenerate
// locus (collinear / cocircular), which is where a filter bug would show.
func TestPredicates(t *testing.T) {
	rec := ev.Get()
	rapid.Check(t, func(t *rapid.T) {
		kind := rapid.SampledFrom([]string{"near-collinear", "near-cocircular", "integer"}).Draw(t, "kind")
		before := pstat
		var used []v2.Vec
		switch kind {
		case "near-collinear":
			S := g.LogUniform(t, "scale", 1e-3, 1e4)
			a := v2.Vec{X: S * u11(t, "ax"), Y: S * u11(t, "ay")}
			b := v2.Vec{X: S * u11(t, "bx"), Y: S * u11(t, "by")}
			tt := urange(t, "t", -1, 2)
			c := v2.Vec{X: a.X + tt*(b.X-a.X), Y: a.Y + tt*(b.Y-a.Y)}
			c.Y = g.Ulp(c.Y, rapid.IntRange(-3, 3).Draw(t, "ulps"))
			if rapid.Bool().Draw(t, "exact") { // exactly collinear: small integers times a power of two
				a, b = v2.Vec{X: 3, Y: 5}, v2.Vec{X: 11, Y: 9}
				k := float64(rapid.IntRange(-20, 20).Draw(t, "k"))
				c = v2.Vec{X: 3 + 8*k, Y: 5 + 4*k}
			}
			used = []v2.Vec{a, b, c}
			s, e := orient(a, b, c), orientExact(a, b, c)
			if s != e {
				t.Fatalf("harness: orient filter %d != exact %d for %v %v %v", s, e, a, b, c)
			}
			if orient(b, c, a) != s || orient(b, a, c) != -s {
				t.Fatalf("harness: orient permutation law broken for %v %v %v", a, b, c)
			}
		case "near-cocircular":
			S := g.LogUniform(t, "scale", 1e-3, 1e4)
			c0 := v2.Vec{X: 3 * S * u11(t, "cx"), Y: 3 * S * u11(t, "cy")}
			on := func(l string, dr float64) v2.Vec {
				a := urange(t, l, -math.Pi, math.Pi)
				return v2.Vec{X: c0.X + S*(1+dr)*math.Cos(a), Y: c0.Y + S*(1+dr)*math.Sin(a)}
			}
			dr := rapid.SampledFrom([]float64{0, 0, 1e-16, -1e-16, 1e-14, -1e-14, 1e-12, -1e-12, 1e-9, -1e-9, 1e-3, -1e-3}).Draw(t, "dr")
			a, b, c, d := on("a", 0), on("b", 0), on("c", 0), on("d", dr)
			if rapid.IntRange(0, 3).Draw(t, "exact") == 0 { // exactly cocircular: corners of a rectangle
				w, h := float64(rapid.IntRange(1, 50).Draw(t, "w")), float64(rapid.IntRange(1, 50).Draw(t, "h"))
				a, b, c, d = v2.Vec{X: 7 - w, Y: 2 - h}, v2.Vec{X: 7 + w, Y: 2 - h}, v2.Vec{X: 7 + w, Y: 2 + h}, v2.Vec{X: 7 - w, Y: 2 + h}
			}
			used = []v2.Vec{a, b, c, d}
			s, e := inCircle(a, b, c, d), inCircleExact(a, b, c, d)
			if s != e {
				t.Fatalf("harness: inCircle filter %d != exact %d for %v %v %v %v", s, e, a, b, c, d)
			}
			if inCircle(b, c, a, d) != s || inCircle(b, a, c, d) != -s {
				t.Fatalf("harness: inCircle permutation law broken for %v %v %v %v", a, b, c, d)
			}
			// symmetric in the four points up to the sign of the permutation
			if inCircle(a, b, d, c) != -s {
				t.Fatalf("harness: inCircle(a,b,d,c) != -inCircle(a,b,c,d) for %v %v %v %v", a, b, c, d)
			}
		default:
			iv := func(l string) int64 { return int64(rapid.IntRange(-60, 60).Draw(t, l)) }
			var q [4][2]int64
			var p [4]v2.Vec
			for i := range q {
				q[i] = [2]int64{iv("x"), iv("y")}
				p[i] = v2.Vec{X: float64(q[i][0]), Y: float64(q[i][1])}
			}
			used = p[:]
			adx, ady := q[0][0]-q[3][0], q[0][1]-q[3][1]
			bdx, bdy := q[1][0]-q[3][0], q[1][1]-q[3][1]
			cdx, cdy := q[2][0]-q[3][0], q[2][1]-q[3][1]
			det := (adx*adx+ady*ady)*(bdx*cdy-cdx*bdy) + (bdx*bdx+bdy*bdy)*(cdx*ady-adx*cdy) + (cdx*cdx+cdy*cdy)*(adx*bdy-bdx*ady)
			o := (q[0][0]-q[2][0])*(q[1][1]-q[2][1]) - (q[0][1]-q[2][1])*(q[1][0]-q[2][0])
			sg := func(v int64) int {
				if v > 0 {
					return 1
				} else if v < 0 {
					return -1
				}
				return 0
			}
			if s := inCircle(p[0], p[1], p[2], p[3]); s != sg(det) {
				t.Fatalf("harness: inCircle %d != int64 determinant sign %d for %v", s, sg(det), q)
			}
			if s := orient(p[0], p[1], p[2]); s != sg(o) {
				t.Fatalf("harness: orient %d != int64 determinant sign %d for %v", s, sg(o), q)
			}
			if sg(det) == 0 || sg(o) == 0 {
				rec.Label("predicates:integer-degenerate")
			}
		}
		usedExact := pstat.orientExact+pstat.icExact > before.orientExact+before.icExact
		rec.Case(usedExact, kind+setKey(used), "predicates:"+kind, map[bool]string{true: "predicates:decided-by-big.Rat", false: "predicates:decided-by-filter"}[usedExact])
	})
}
