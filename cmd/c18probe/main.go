package main

import (
	"fmt"
	"os"

	"github.com/deadsy/sdfx/sdf"
	v2 "github.com/deadsy/sdfx/vec/v2"
)

func main() {
	r, p := 0.8, 0.2
	tolI := 0.05168439571940547
	pi, _ := sdf.ISOThread(r+tolI, p, false)
	if len(os.Args) > 1 {
		pi, _ = sdf.ISOThread(r+tolI, p, true)
	}
	for j := 40; j >= 0; j-- {
		y := 0.70 + 0.2*float64(j)/40
		s := ""
		for i := 0; i <= 80; i++ {
			x := -0.1 + 0.2*float64(i)/80
			if pi.Evaluate(v2.Vec{X: x, Y: y}) < 0 {
				s += "#"
			} else {
				s += "."
			}
		}
		fmt.Printf("%.4f %s\n", y, s)
	}
	for _, b := range pi.(*sdf.MeshSDF2).Boxes() {
		fmt.Printf("%.17g %.17g  %.17g %.17g\n", b.Min.X, b.Min.Y, b.Max.X, b.Max.Y)
	}
}
