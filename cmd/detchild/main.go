// detchild builds a model from a JSON shape program, renders it to the
// requested sinks in a fresh process and prints one line per output:
//
//	out <sink> <sha256 of the file bytes / of the decoded 3MF content / of the triangle sequence>
//
// It is run several times by the C09 check under different GOMAXPROCS / GOGC
// environments; all runs must print identical lines.
package main

import (
	"crypto/sha256"
	"encoding/json"
	"fmt"
	"math"
	"os"
	"path/filepath"
	"strings"
	"sync"

	"github.com/deadsy/sdfx/render"
	"github.com/deadsy/sdfx/render/dc"
	"github.com/deadsy/sdfx/sdf"

	"verif/internal/fmtread"
	"verif/internal/shape"
)

// Case is the job description.
type Case struct {
	Program  *shape.Node `json:"program"`
	Renderer string      `json:"renderer"` // mcu mco dcv1 dcv2 | msu msq dc2
	Cells    int         `json:"cells"`
	Sinks    []string    `json:"sinks"` // triangles stl 3mf | lines dxf svg
}

func render3(name string, cells int) render.Render3 {
	if name == "mco" {
		return render.NewMarchingCubesOctree(cells)
	}
	return render.NewMarchingCubesUniform(cells)
}

func render2(name string, cells int) render.Render2 {
	switch name {
	case "msq":
		return render.NewMarchingSquaresQuadtree(cells)
	case "dc2":
		return render.NewDualContouring2D(cells)
	}
	return render.NewMarchingSquaresUniform(cells)
}

func dcTriangles(s sdf.SDF3, name string, cells int) []*sdf.Triangle3 {
	var out []*sdf.Triangle3
	var wg sync.WaitGroup
	wg.Add(1)
	if name == "dcv1" {
		ch := make(chan *sdf.Triangle3)
		go func() {
			defer wg.Done()
			for t := range ch {
				out = append(out, t)
			}
		}()
		dc.NewDualContouringV1(-1, 0, true).Render(s, cells, ch)
		close(ch)
	} else {
		ch := make(chan []*sdf.Triangle3)
		go func() {
			defer wg.Done()
			for ts := range ch {
				out = append(out, ts...)
			}
		}()
		dc.NewDualContouringDefault(cells).Render(s, ch)
		close(ch)
	}
	wg.Wait()
	return out
}

func fileHash(path string) string {
	b, err := os.ReadFile(path)
	if err != nil {
		return "error:" + err.Error()
	}
	return fmt.Sprintf("%x", sha256.Sum256(b))
}

func main() {
	if len(os.Args) != 3 {
		fmt.Println("usage: detchild case.json outdir")
		os.Exit(2)
	}
	b, err := os.ReadFile(os.Args[1])
	if err != nil {
		fmt.Println("error:", err)
		os.Exit(2)
	}
	var c Case
	if err := json.Unmarshal(b, &c); err != nil {
		fmt.Println("error:", err)
		os.Exit(2)
	}
	dir := os.Args[2]
	built, err := shape.Build(c.Program)
	if err != nil {
		fmt.Println("domain:", err)
		return
	}
	// silence the library's progress prints on stdout: results go to stderr-free lines prefixed "out"
	for _, sink := range c.Sinks {
		switch sink {
		case "triangles":
			var ts []*sdf.Triangle3
			if strings.HasPrefix(c.Renderer, "dcv") {
				ts = dcTriangles(built.SDF3(), c.Renderer, c.Cells)
			} else {
				ts = render.ToTriangles(built.SDF3(), render3(c.Renderer, c.Cells))
			}
			h := sha256.New()
			for _, t := range ts {
				for _, v := range t {
					fmt.Fprintf(h, "%x %x %x\n", math.Float64bits(v.X), math.Float64bits(v.Y), math.Float64bits(v.Z))
				}
			}
			fmt.Printf("out triangles %d %x\n", len(ts), h.Sum(nil))
		case "stl":
			p := filepath.Join(dir, "o.stl")
			render.ToSTL(built.SDF3(), p, render3(c.Renderer, c.Cells))
			fmt.Printf("out stl %s\n", fileHash(p))
		case "3mf":
			p := filepath.Join(dir, "o.3mf")
			render.To3MF(built.SDF3(), p, render3(c.Renderer, c.Cells))
			m, err := fmtread.Read3MFRaw(p)
			if err != nil {
				fmt.Printf("out 3mf error:%v\n", err)
				continue
			}
			j, _ := json.Marshal(m)
			fmt.Printf("out 3mf %x\n", sha256.Sum256(j))
		case "lines":
			ch := make(chan []*sdf.Line2)
			h := sha256.New()
			n := 0
			var wg sync.WaitGroup
			wg.Add(1)
			go func() {
				defer wg.Done()
				for ls := range ch {
					for _, l := range ls {
						n++
						fmt.Fprintf(h, "%x %x %x %x\n", math.Float64bits(l[0].X), math.Float64bits(l[0].Y), math.Float64bits(l[1].X), math.Float64bits(l[1].Y))
					}
				}
			}()
			render2(c.Renderer, c.Cells).Render(built.SDF2(), sdf.NewLine2Buffer(ch))
			close(ch)
			wg.Wait()
			fmt.Printf("out lines %d %x\n", n, h.Sum(nil))
		case "dxf":
			p := filepath.Join(dir, "o.dxf")
			render.ToDXF(built.SDF2(), p, render2(c.Renderer, c.Cells))
			fmt.Printf("out dxf %s\n", fileHash(p))
		case "svg":
			p := filepath.Join(dir, "o.svg")
			render.ToSVG(built.SDF2(), p, render2(c.Renderer, c.Cells))
			fmt.Printf("out svg %s\n", fileHash(p))
		}
	}
}
