// detchild builds a model from a JSON shape program, renders it to the
// requested sinks in a fresh process and prints one line per output:
//
//	out <sink> <sha256 of the file bytes / of the decoded 3MF content / of the triangle sequence>
//
// It is run several times by the C09 check under different GOMAXPROCS / GOGC
// environments; all runs must print identical lines (verif/internal/detsig).
package main

import (
	"encoding/json"
	"fmt"
	"os"

	"verif/internal/detsig"
)

func main() {
	if len(os.Args) != 3 {
		fmt.Println("usage: detchild case.json outdir")
		os.Exit(2)
	}
	b, err := os.ReadFile(os.Args[1])
	if err != nil {
		fmt.Println("error:", err)
		os.Exit(2)
	}
	var c detsig.Case
	if err := json.Unmarshal(b, &c); err != nil {
		fmt.Println("error:", err)
		os.Exit(2)
	}
	for _, l := range detsig.Lines(c, os.Args[2]) {
		fmt.Println(l)
	}
}
