// faultchild performs ONE render-to-file call of the public sdfx API under an
// injected I/O fault and prints "returned" when the call came back (C12).
//
//	faultchild '<json fc.Case>'     or     faultchild - < case.json
//
// It is a plain main on purpose: no test framework, no os/signal (importing it
// would switch off the runtime's "all goroutines are asleep - deadlock!"
// detector, which is the deterministic hang oracle of the parent), SIGXFSZ is
// ignored by the Go runtime so a write beyond RLIMIT_FSIZE simply fails with
// EFBIG at the chosen byte offset. The render runs on the main goroutine.
//
// Output protocol (stdout): whatever sdfx prints, then a line
// "faultchild: {...status json...}" and a line "returned". Exit status 0.
// Harness problems (bad case, setrlimit failure): "faultchild: harness: ..."
// on stderr, exit status 3.
package main

import (
	"encoding/json"
	"fmt"
	"io"
	"os"
	"runtime"
	"syscall"
	"time"

	"verif/internal/fc"
)

func harness(format string, args ...any) {
	fmt.Fprintf(os.Stderr, "faultchild: harness: "+format+"\n", args...)
	os.Exit(3)
}

func main() {
	if len(os.Args) != 2 {
		harness("usage: faultchild '<json case>' | -")
	}
	raw := []byte(os.Args[1])
	if os.Args[1] == "-" {
		var err error
		if raw, err = io.ReadAll(os.Stdin); err != nil {
			harness("stdin: %v", err)
		}
	}
	var c fc.Case
	c.Fsize = -1
	if err := json.Unmarshal(raw, &c); err != nil {
		harness("bad case: %v", err)
	}
	dropped := false
	if c.Uid > 0 {
		// permission faults do not fire for root: become an ordinary user
		// (all threads, Go >= 1.16). Failure is reported, not fatal.
		if err := syscall.Setgroups([]int{c.Uid}); err == nil {
			if err := syscall.Setgid(c.Uid); err == nil {
				if err := syscall.Setuid(c.Uid); err == nil {
					dropped = true
				}
			}
		}
	}
	if c.Fsize >= 0 {
		lim := syscall.Rlimit{Cur: uint64(c.Fsize), Max: uint64(c.Fsize)}
		if err := syscall.Setrlimit(syscall.RLIMIT_FSIZE, &lim); err != nil {
			harness("setrlimit(RLIMIT_FSIZE,%d): %v", c.Fsize, err)
		}
	}
	if c.Keep {
		// a pending timer keeps the runtime from declaring a deadlock: this
		// exercises the parent's deadline + SIGQUIT path.
		go func() {
			for {
				time.Sleep(time.Hour)
			}
		}()
	}
	before := runtime.NumGoroutine()

	items, err := fc.Run(c) // the call under test, on the main goroutine
	if err != nil {
		harness("%v", err)
	}
	if c.PauseMs > 0 {
		// a program that renders, does something else for a while, and renders again
		time.Sleep(time.Duration(c.PauseMs) * time.Millisecond)
		if items, err = fc.Run(c); err != nil {
			harness("%v", err)
		}
	}

	st := map[string]any{"exists": false, "size": int64(-1), "regular": false, "items": items,
		"dropped_privileges": dropped, "euid": os.Geteuid(),
		"goroutines_before": before, "goroutines_after": runtime.NumGoroutine(),
		"numcpu": runtime.NumCPU(), "gomaxprocs": runtime.GOMAXPROCS(0)}
	if c.Path != "" {
		if fi, err := os.Stat(c.Path); err == nil {
			st["exists"] = true
			st["regular"] = fi.Mode().IsRegular()
			if fi.Mode().IsRegular() {
				st["size"] = fi.Size()
			}
		}
	}
	b, _ := json.Marshal(st)
	// sdfx prints some errors without a trailing newline: start a fresh line.
	fmt.Printf("\nfaultchild: %s\nreturned\n", b)
}
