// scratch helper: sign of obj.ImportTriMesh outside the box of sharp convex meshes
package main

import (
	"fmt"
	"math/rand"

	"github.com/deadsy/sdfx/obj"
	"github.com/deadsy/sdfx/sdf"
	v3 "github.com/deadsy/sdfx/vec/v3"
)

func tetra(sx, sy, sz float64) []*sdf.Triangle3 {
	vs := []v3.Vec{{X: 1, Y: 1, Z: 1}, {X: 1, Y: -1, Z: -1}, {X: -1, Y: 1, Z: -1}, {X: -1, Y: -1, Z: 1}}
	fs := [][3]int{{0, 1, 2}, {0, 3, 1}, {0, 2, 3}, {1, 3, 2}}
	var m []*sdf.Triangle3
	for _, f := range fs {
		a, b, c := vs[f[0]], vs[f[1]], vs[f[2]]
		if b.Sub(a).Cross(c.Sub(a)).Dot(a) < 0 {
			b, c = c, b
		}
		s := func(v v3.Vec) v3.Vec { return v3.Vec{X: v.X * sx, Y: v.Y * sy, Z: v.Z * sz} }
		t := sdf.Triangle3{s(a), s(b), s(c)}
		m = append(m, &t)
	}
	return m
}

func main() {
	r := rand.New(rand.NewSource(1))
	for _, sc := range [][3]float64{{1, 1, 1}, {1, 1, 2}, {1, 1, 4}, {1, 2, 4}, {1, 1, 8}, {4, 4, 1}} {
		mesh := tetra(sc[0], sc[1], sc[2])
		s := obj.ImportTriMesh(mesh, 20, 3, 5)
		bb := s.BoundingBox()
		neg, n := 0, 200000
		var ex v3.Vec
		var exv float64
		for i := 0; i < n; i++ {
			p := v3.Vec{X: (r.Float64()*2 - 1) * 3 * sc[0], Y: (r.Float64()*2 - 1) * 3 * sc[1], Z: (r.Float64()*2 - 1) * 3 * sc[2]}
			if bb.Contains(p) {
				continue
			}
			if v := s.Evaluate(p); v < -1e-9 {
				neg++
				if v < exv {
					ex, exv = p, v
				}
			}
		}
		fmt.Println(sc, "negative outside box:", neg, "of", n, "worst", ex, exv)
	}
}
