// scratch helper (C01 obj catalogue): examine obj.ImportSTL leaks
package main

import (
	"fmt"
	"os"

	"github.com/deadsy/sdfx/obj"
	"github.com/deadsy/sdfx/render"
	v3 "github.com/deadsy/sdfx/vec/v3"
)

func main() {
	file := os.Args[1]
	mesh, err := render.LoadSTL(file)
	if err != nil {
		panic(err)
	}
	fmt.Println("triangles", len(mesh))
	// closedness: every directed edge must have its opposite exactly once
	type e struct{ a, b v3.Vec }
	cnt := map[e]int{}
	deg := 0
	for _, t := range mesh {
		if t.Degenerate(0) {
			deg++
		}
		for i := 0; i < 3; i++ {
			cnt[e{t[i], t[(i+1)%3]}]++
		}
	}
	open, multi := 0, 0
	for k, n := range cnt {
		if n > 1 {
			multi++
		}
		if cnt[e{k.b, k.a}] != n {
			open++
		}
	}
	fmt.Println("degenerate", deg, "directed edges", len(cnt), "unmatched", open, "duplicated", multi)
	pts := []v3.Vec{{X: -40.175928891538774, Y: 8.093958321293528, Z: -1.2860729709906695}, {X: -31.799359403143356, Y: 11.06950622558594, Z: 1.546971637212775}}
	for _, n := range []int{20, 100, 1000, len(mesh)} {
		s := obj.ImportTriMesh(mesh, n, 3, 5)
		for _, p := range pts {
			fmt.Println("neighbours", n, p, s.Evaluate(p))
		}
	}
}
